import AlgoVerif.Base.Drv
import AlgoVerif.Gen.Rewards
/-! Evaluates the REGENERATED rewards definitions on the op lines (validates the translator). -/
namespace AlgoVerif.Driver.GenRewards
open AlgoVerif.Drv Gen.Rewards

def handle (line : String) : String :=
  match fields line with
  | ["next", lvl, rate, res, recalc, r, minb, iv, pend, fix, pool, units] =>
      let x := RewardsState_NextRewardsState ⟨nat! lvl, nat! rate, nat! res, nat! recalc⟩ (nat! r)
        ⟨nat! minb, nat! iv, pend == "1", fix == "1"⟩ (nat! pool) (nat! units)
      s!"{x.RewardsLevel} {x.RewardsRate} {x.RewardsResidue} {x.RewardsRecalculationRound}"
  | ["wur", u, st, alg, rew, base, l] =>
      match WithUpdatedRewards (nat! u) (nat! st) (nat! alg) (nat! rew) (nat! base) (nat! l) with
      | none => "PANIC"
      | some (a, b, c) => s!"{a} {b} {c}"
  | _ => "bad-op"
end AlgoVerif.Driver.GenRewards
