import AlgoVerif.Base.Drv
import AlgoVerif.Model.Totals
/-! Line protocol of the C12 harness (harness/ledger/zz_verif_c12_test.go) on `Model.Totals`.
The driver keeps the HISTORY (per round: the modified accounts, the rewards level, the account map after the round) and
* answers `end` with `calculateTotals` (previous totals = the model's `RT.latest`, parent = the account map of the previous round),
* keeps `RT` (roundTotals / dbRound / persisted totals row) through `commit`, `reload` (re-running `calculateTotals` over the
  rounds after the persisted one, as `reloadLedger`'s replay does),
* answers `q` with `RT.totals r` and with `Sum` of the account map of round `r` at that round's level, for the same rounds the
  harness prints.  `begin` / `group` are inputs to the real evaluator only ("-"). -/
namespace AlgoVerif.Driver.C12
open AlgoVerif.Drv AlgoVerif.Model.Totals

def univ : List Nat := [0, 1, 2, 3, 4, 5, 6, 7, 8, 9]

abbrev AList := List (Nat × Acct)

/-- a missing address is the zero account, as `lookup` of an address that was never written -/
def toMap (l : AList) : AMap := fun k => match l.lookup k with
  | some a => a
  | none => {}

def setA (l : AList) (k : Nat) (v : Acct) : AList := (k, v) :: l.filter (fun p => p.1 != k)

structure Rec where
  totals : AccountTotals
  level : Nat
  mods : List (Nat × Acct)
  accts : AList

structure St where
  unit : Nat := 1
  hist : Array Rec := #[]
  rt : RT := RT.load 0 {}
  live : Bool := false

def showT (t : AccountTotals) : String :=
  s!"{t.online.money},{t.online.rewardUnits},{t.offline.money},{t.offline.rewardUnits},{t.notParticipating.money},{t.notParticipating.rewardUnits},{t.rewardsLevel}"

def splitKV (tok : String) : String × String :=
  match tok.splitOn "=" with
  | [k, v] => (k, v)
  | _ => (tok, "")

def nth (l : List String) (i : Nat) : Nat := nat! (l.getD i "0")

def parseAcct3 (s : String) : Acct :=
  let v := s.splitOn ","
  { status := nth v 0, algos := nth v 1, base := nth v 2 }

def kvGet (toks : List String) (key : String) : Option String :=
  (toks.map splitKV).lookup key

def errStr : TotErr → String
  | .panic => "err:panic"
  | .overflow => "err:overflow"
  | .moneyChanged was now => s!"err:money-changed {was} {now}"

def doReset (toks : List String) : St × String :=
  let unit := nat! ((kvGet toks "unit").getD "0")
  let accts : AList := toks.foldl (fun acc tok =>
    let (k, v) := splitKV tok
    if k.startsWith "A" then setA acc (nat! (k.drop 1).toString) (parseAcct3 v) else acc) []
  -- genesis accounts carry RewardsBase 0 whatever the token says (the harness never sets it)
  let accts := accts.map (fun (k, a) => (k, { a with base := 0 }))
  let t0 := SumOf unit univ (toMap accts) 0
  ({ unit := unit, hist := #[⟨t0, 0, [], accts⟩], rt := RT.load 0 t0, live := true }, "ok")

/-- `D<id>=ost,obal,obase>nst,nbal,nbase` -/
def parseD (tok : String) : Option (Nat × Acct × Acct) :=
  let (k, v) := splitKV tok
  if k.startsWith "D" then
    match v.splitOn ">" with
    | [o, n] => some (nat! (k.drop 1).toString, parseAcct3 o, parseAcct3 n)
    | _ => none
  else none

def doEnd (s : St) (toks : List String) : St × String :=
  match s.hist.back?, s.rt.latest with
  | some last, (lr, some prevT) =>
    let rnd := nat! ((kvGet toks "rnd").getD "0")
    let level := nat! ((kvGet toks "level").getD "0")
    let ds := toks.filterMap parseD
    if rnd ≠ s.hist.size ∨ lr + 1 ≠ rnd then (s, s!"DIVERGED-ROUND {s.hist.size}") else
    let parent := toMap last.accts
    match ds.find? (fun (k, o, _) => parent k ≠ o) with
    | some (k, _, _) => (s, s!"DIVERGED-PREV {k}")
    | none =>
      let mods := ds.map (fun (k, _, n) => (k, n))
      match calculateTotals s.unit prevT parent mods level with
      | .error e => (s, errStr e)
      | .ok t =>
        let accts := mods.foldl (fun a (k, v) => setA a k v) last.accts
        ({ s with hist := s.hist.push ⟨t, level, mods, accts⟩, rt := s.rt.newBlock t }, "T=" ++ showT t)
  | _, _ => (s, "bad-op")

def doCommit (s : St) (lb : Nat) : St × String :=
  let latest := s.hist.size - 1
  let db := s.rt.dbRound
  if latest < lb ∨ latest - lb ≤ db then (s, s!"db={db}") else
  match s.rt.commit (latest - lb - db) with
  | none => (s, "err:commit-offset")
  | some rt => ({ s with rt := rt }, s!"db={rt.dbRound}")

/-- rounds after the persisted totals row are re-evaluated from it; `trackerRegistry.replay` then flushes with the configured
lookback when the DB round is more than that behind the latest round -/
def doReload (s : St) (lb : Nat) : St × String :=
  let start := RT.load s.rt.dbTotalsRound s.rt.dbTotals
  let rounds := (List.range s.hist.size).filter (fun r => r > s.rt.dbTotalsRound)
  let res : Option RT := rounds.foldl (fun acc r =>
    match acc with
    | none => none
    | some rt =>
      match s.hist[r - 1]?, s.hist[r]?, rt.latest with
      | some prev, some cur, (_, some prevT) =>
        match calculateTotals s.unit prevT (toMap prev.accts) cur.mods cur.level with
        | .ok t => some (rt.newBlock t)
        | .error _ => none
      | _, _, _ => none) (some start)
  match res with
  | none => (s, "err:reload")
  | some rt =>
    let s := { s with rt := rt }
    let latest := s.hist.size - 1
    let s := if rt.dbRound + lb < latest then (doCommit s lb).1 else s
    (s, s!"latest={s.rt.latest.1} db={s.rt.dbRound}")

def doQuery (s : St) : String :=
  let (lr, lt) := s.rt.latest
  let head := match lt with
    | some t => s!"latest={lr}:{showT t}"
    | none => "latest=err"
  let lo := s.rt.dbRound - 1
  let hi := s.hist.size   -- latest + 1
  let rounds := (List.range (hi + 1)).filter (fun r => r ≥ lo)
  let toks := rounds.map (fun r =>
    match s.rt.totals r, s.hist[r]? with
    | some t, some rec =>
      let sm := showT (SumOf s.unit univ (toMap rec.accts) rec.level)
      s!"{r}={showT t}/{sm}/{sm}"
    | _, _ => s!"{r}=err")
  " ".intercalate (head :: toks)

def step (s : St) (line : String) : St × String :=
  match fields line with
  | "reset" :: toks => doReset toks
  | ["begin"] => (s, "-")
  | "group" :: _ => (s, "-")
  | "end" :: toks => if s.live then doEnd s toks else (s, "bad-op")
  | ["commit", lb] => if s.live then doCommit s (nat! (splitKV lb).2) else (s, "bad-op")
  | ["reload", lb] => if s.live then doReload s (nat! (splitKV lb).2) else (s, "bad-op")
  | ["q"] => if s.live then (s, doQuery s) else (s, "bad-op")
  | _ => (s, "bad-op")

end AlgoVerif.Driver.C12
