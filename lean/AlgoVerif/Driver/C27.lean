import AlgoVerif.Base.Drv
import AlgoVerif.Model.KnockOffline
/-!
Line protocol of property C27 (grammar: harness/ledger/eval/zz_verif_c27_test.go and
harness/ledger/apply/zz_verif_c27_test.go).  Every line is a complete case.

  ev  <v> <R> <maxExp> <maxAbs> <ci> <cg> <cb> <seed> <rules> <S> <n> <acct>*n E <list> A <list>  ⇒ ok <post> | err <class>
  gen <R> <maxExp> <maxAbs> <ci> <cg> <cb> <seed> <rules> <S> <n> <acct>*n P <list> M <list>
        ⇒ E=<list> A=<list> val=<ok|class> post=<post>     ("-" when the caps bind: the result then depends on Go's map order)
  bm <hexA> <hexB> <n>                                      ⇒ true | false | PANIC
  fch <ci> <cg> <cb> <current> <period> <hdr> <seedhex>     ⇒ none | <round> <bits> <seedhex>
  failed <round> <bits> <seedhex> <addrhex> <lastSeen>      ⇒ true | false
-/
namespace AlgoVerif.Driver.C27
open AlgoVerif.Drv Model.KnockOffline

def hexVal (c : Char) : Nat :=
  if '0' ≤ c ∧ c ≤ '9' then c.toNat - '0'.toNat
  else if 'a' ≤ c ∧ c ≤ 'f' then c.toNat - 'a'.toNat + 10
  else if 'A' ≤ c ∧ c ≤ 'F' then c.toNat - 'A'.toNat + 10 else 0

def hexBytes : List Char → List Nat
  | a :: b :: rest => (hexVal a * 16 + hexVal b) :: hexBytes rest
  | _ => []

def unhex (s : String) : List Nat := if s = "-" then [] else hexBytes s.toList

def hexDigit (n : Nat) : Char := if n < 10 then Char.ofNat (n + 48) else Char.ofNat (n + 87)
def toHex (l : List Nat) : String :=
  if l = [] then "-" else String.ofList (l.flatMap fun b => [hexDigit (b / 16), hexDigit (b % 16)])

def pad32 (l : List Nat) : List Nat := l ++ List.replicate (32 - l.length) 0

def parseList (s : String) : List Nat := if s = "-" then [] else (s.splitOn ",").map nat!
def showList (l : List Nat) : String := if l = [] then "-" else ",".intercalate (l.map toString)

structure PAcct where
  p : List Nat
  acct : Acct
  stake : Nat

def parseStatus (s : String) : Status := if s = "1" then .online else if s = "2" then .notParticipating else .offline
def statusCode : Status → String
  | .offline => "0" | .online => "1" | .notParticipating => "2"

def parseAcct (t : String) : Option PAcct :=
  match t.splitOn "/" with
  | [p, st, bal, key, vf, vl, el, lp, lhb, stake] =>
    some ⟨unhex p, ⟨parseStatus st, nat! bal, key = "1", nat! vf, nat! vl, el = "1", nat! lp, nat! lhb⟩, nat! stake⟩
  | _ => none

structure Case where
  validate : Bool
  round : Nat
  maxExp : Nat
  maxAbs : Nat
  rules : Rules
  seed : List Nat
  hdrMode : Nat
  total : Nat
  accts : List PAcct
  l1 : List Nat
  l2 : List Nat

def Case.addr (c : Case) (i : Nat) : Addr :=
  match c.accts[i]? with
  | some a => pad32 (a.p ++ [(i + 1) % 256, 0xC2, 0x07])
  | none => pad32 [0xEE, 0xEE, (i + 1) % 256, 0xC2, 0x99]

def Case.table (c : Case) : List (Addr × PAcct) :=
  (List.range c.accts.length).filterMap fun i => (c.accts[i]?).map fun a => (c.addr i, a)

def Case.state (c : Case) : State := c.table.map fun (a, p) => (a, p.acct)

def Case.env (c : Case) : Env :=
  let tbl := c.table
  let hdr : Nat → Option (Addr × Bool) := fun _ =>
    if c.hdrMode = 2 then none else some (pad32 c.seed, c.hdrMode = 1)
  { validate := c.validate, round := c.round, maxExpired := c.maxExp, maxAbsent := c.maxAbs, totalStake := c.total,
    stake := fun a => match tbl.lookup a with
      | some p => p.stake
      | none => 0,
    ch := findChallenge c.rules c.round hdr .active }

def parseCase (validate : Bool) : List String → Option Case
  | r :: me :: ma :: ci :: cg :: cb :: seed :: rules :: s :: n :: rest =>
    let k := nat! n
    let accts := (rest.take k).filterMap parseAcct
    match rest.drop k with
    | [_, l1, _, l2] =>
      if accts.length = k then
        some ⟨validate, nat! r, nat! me, nat! ma, ⟨nat! ci, nat! cg, int! cb⟩, unhex seed, nat! rules, nat! s, accts, parseList l1, parseList l2⟩
      else none
    | _ => none
  | _ => none

def errCode : Err → String
  | .expLen => "explen" | .dup => "dup" | .noKey => "nokey" | .notExpired => "notexpired" | .absLen => "abslen"
  | .notOnline => "notonline" | .zeroAlgos => "zeroalgos" | .ineligible => "ineligible" | .notAbsent => "notabsent"

def showPost (c : Case) (st : State) : String :=
  ",".intercalate <| (List.range c.accts.length).map fun i =>
    let a := get st (c.addr i)
    s!"{statusCode a.status}{if a.hasKey then "k" else "-"}{if a.eligible then "e" else "-"}/{a.voteLast}"

def runEv (c : Case) : String :=
  match knockOffline c.env c.state (c.l1.map c.addr) (c.l2.map c.addr) with
  | .ok st => "ok " ++ showPost c st
  | .error e => "err " ++ errCode e

def insertSorted (x : Nat) : List Nat → List Nat
  | [] => [x]
  | y :: ys => if x ≤ y then x :: y :: ys else y :: insertSorted x ys
def sortNat (l : List Nat) : List Nat := l.foldr insertSorted []

def runGen (c : Case) : String :=
  let env := c.env
  let st := c.state
  let n := c.accts.length
  -- candidates: online with a balance at R-1 (the test ledger's GetKnockOfflineCandidates, asked only when suspensions
  -- are enabled) ∪ accounts modified in the block (a zero payment modifies a receiver only if it holds ≥ 1 reward unit)
  let candIdx := (List.range n).filter fun i =>
    let a := get st (c.addr i)
    (env.maxAbsent > 0 ∧ a.status = .online ∧ a.bal ≠ 0) ∨ (i ∈ c.l2 ∧ a.bal ≥ 1000000)
  let part := c.l1.map c.addr
  let live := candIdx.filter fun i => (get st (c.addr i)).bal ≠ 0 ∧ c.addr i ∉ part
  let expirable := live.filter fun i => (get st (c.addr i)).hasKey ∧ (get st (c.addr i)).voteLast < env.round
  let absentable := live.filter fun i =>
    let a := get st (c.addr i)
    i ∉ expirable ∧ a.status = .online ∧ a.eligible ∧ isAbsentOrChallenged env (c.addr i) a.lastSeen
  if expirable.length > env.maxExpired ∨ absentable.length > env.maxAbsent then "-"
  else
    let (e, a) := generate env part (candIdx.map fun i => candOf st (c.addr i))
    let idxOf := fun (ad : Addr) => ((List.range n).find? fun i => c.addr i = ad).getD 999
    let res := match knockOffline env st e a with
      | .ok st' => s!"val=ok post={showPost c st'}"
      | .error er => s!"val={errCode er} post=-"
    s!"E={showList (sortNat (e.map idxOf))} A={showList (sortNat (a.map idxOf))} {res}"

def handle (line : String) : String :=
  match fields line with
  | "ev" :: v :: rest =>
    match parseCase (v = "1") rest with
    | some c => runEv c
    | none => "bad-op"
  | "gen" :: rest =>
    match parseCase true rest with
    | some c => runGen c
    | none => "bad-op"
  | ["bm", a, b, n] =>
    match bitsMatch (unhex a) (unhex b) (int! n) with
    | some r => showBool r
    | none => "PANIC"
  | ["fch", ci, cg, cb, cur, period, hdr, seed] =>
    let h : Nat → Option (Addr × Bool) := fun _ => if hdr = "0" then none else some (unhex seed, hdr = "1")
    let ch := findChallenge ⟨nat! ci, nat! cg, int! cb⟩ (nat! cur) h (if period = "0" then .risky else .active)
    if ch = Challenge.none then "none" else s!"{ch.round} {ch.bits} {toHex ch.seed}"
  | ["failed", r, bits, seed, addr, ls] =>
    showBool ((Challenge.mk (nat! r) (unhex seed) (int! bits)).failed (unhex addr) (nat! ls))
  | _ => "bad-op"

end AlgoVerif.Driver.C27
