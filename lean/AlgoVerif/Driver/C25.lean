import AlgoVerif.Base.Drv
import AlgoVerif.Spec.Rewards
namespace AlgoVerif.Driver.C25
open AlgoVerif.Drv Spec.Rewards

/-- reference semantics of WithUpdatedRewards (C12/C25): credit ⌊alg/unit⌋·(L − base), fail on any 64-bit overflow -/
def wur (unit status alg rew base L : Nat) : String :=
  if status = 2 then s!"{alg} {rew} {base}"
  else
    let credit := alg / unit * (L - base)
    if base ≤ L ∧ credit < M ∧ alg + credit < M then s!"{alg + credit} {(rew + credit) % M} {L}"
    else "PANIC"

def handle (line : String) : String :=
  match fields line with
  | ["next", lvl, rate, res, recalc, r, minb, iv, pend, fix, pool, units] =>
      let x := next (nat! lvl) (nat! rate) (nat! res) (nat! recalc) (nat! r) (nat! minb) (nat! iv) (pend == "1") (fix == "1") (nat! pool) (nat! units)
      s!"{x.1} {x.2.1} {x.2.2.1} {x.2.2.2}"
  | ["wur", u, st, alg, rew, base, l] => wur (nat! u) (nat! st) (nat! alg) (nat! rew) (nat! base) (nat! l)
  | _ => "bad-op"
end AlgoVerif.Driver.C25
