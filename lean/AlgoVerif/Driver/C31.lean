import AlgoVerif.Base.Drv
import AlgoVerif.Model.AVM
import AlgoVerif.Gen.OpTable
import AlgoVerif.Gen.AVMFacts
/-!
Driver for C31: Model.AVM's answer for one op line of harness/data/transactions/logic/zz_verif_c31_test.go
  `check|eval <mode> <bk> <maxcost> <pool> <lsv> <minv> <hex program> <args> # comment`
The tables are `buildTables Gen.OpTable.opSpecs`, limits and field costs come from Gen.AVMFacts (both regenerated from the
tree on every run). Ops outside the modelled family have `sem = unmodelled`: the driver answers SKIP ("-") for an eval
line whose run executes one. `ev=refused` replays the one refusal of EvalContract that depends only on the op line
(clear-state isolation with a pooled budget below MaxAppProgramCost).
-/
namespace AlgoVerif.Driver.C31
open AlgoVerif.Drv Model.OpTables Model.AVM

def hexVal (c : Char) : Nat :=
  if '0' ≤ c ∧ c ≤ '9' then c.toNat - '0'.toNat
  else if 'a' ≤ c ∧ c ≤ 'f' then c.toNat - 'a'.toNat + 10
  else if 'A' ≤ c ∧ c ≤ 'F' then c.toNat - 'A'.toNat + 10 else 0

def hexBytesAux : List Char → Array Nat → Array Nat
  | a :: b :: rest, acc => hexBytesAux rest (acc.push (hexVal a * 16 + hexVal b))
  | _, acc => acc

def hexBytes (s : String) : List Nat := if s = "e" then [] else (hexBytesAux s.toList #[]).toList

def hexDigit (n : Nat) : Char := if n < 10 then Char.ofNat (48 + n) else Char.ofNat (87 + n)

def toHex (bs : List Nat) : String := String.ofList (bs.foldr (fun b acc => hexDigit (b / 16 % 16) :: hexDigit (b % 16) :: acc) [])

def tables : List Table := (List.range (Gen.OpTable.logicVersion + 1)).map (buildTables Gen.OpTable.opSpecs)

def tbl (v : Nat) : Table := tables[v]?.getD []

def limits : Limits :=
  { maxStackDepth := Gen.AVMFacts.maxStackDepth, maxStringSize := Gen.AVMFacts.maxStringSize,
    backBranchV := Gen.AVMFacts.backBranchEnabledVersion, sharedResV := Gen.AVMFacts.sharedResourcesVersion,
    protoByte := Gen.AVMFacts.protoByte, evalMaxArgs := Gen.AVMFacts.evalMaxArgs,
    maxArgSize := Gen.AVMFacts.maxLogicSigArgSize, blankLen := Gen.AVMFacts.blankStackLen,
    scratchLen := Gen.AVMFacts.scratchLen }

def fcost (id f : Nat) : LinCost :=
  match Gen.AVMFacts.fieldCosts.find? (fun p => p.1 == id) with
  | some (_, l) => l[f]?.getD (0, 0, 0, 0)
  | none => (0, 0, 0, 0)

def semUnmodelled : Sem := fun _ _ _ => .error .unmodelled

/-- the harness's deterministic filler (verifC31Fill) -/
def fill (n : Nat) : List Nat := (List.range n).map (fun i => (i * 7 + n) % 251)

/-- `E<ap0>:<cl0>:<ap1>:<cl1>:<note>:<apparg>:<ledgerap>` -/
def parseEnv (fs : List String) : Option (List Nat) :=
  match fs[9]? with
  | some t => if t.startsWith "E" then some (((t.drop 1).toString.splitOn ":").map nat!) else none
  | none => none

/-- the driver's `sem`: everything outside the modelled family is `unmodelled`, except the scalar `txn <field>` of the three
    byte fields the harness environment can make large (ApprovalProgram, ClearStateProgram, Note of the transaction being
    evaluated): it pushes the field value after the field's version / mode gate (Model.OpTables.fieldGate). This puts
    long values produced by an `any`-typed op in front of step's post-check in the correspondence run. -/
def semEnv (env : Option (List Nat)) (v mode : Nat) : Sem := fun s stk imm =>
  if s.fn != "opTxn" then .error .unmodelled else
  match env, imm, s.imms with
  | some e, [f], [im] =>
    match findGroup Gen.OpTable.fieldGroups im.group with
    | none => .error .unmodelled
    | some g =>
      match fieldGate g v mode f with
      | .pass =>
        let name := (g.fields[f]?.map (·.name)).getD ""
        let len := if name = "ApprovalProgram" then e[0]?.getD 0 else if name = "ClearStateProgram" then e[1]?.getD 0
                   else if name = "Note" then e[4]?.getD 0 else 0
        if len = 0 then .error .unmodelled else .ok (.b (fill len) :: stk)
      | _ => .error .op
  | _, _, _ => .error .unmodelled

def showVal : Val → String
  | .u n => toString n
  | .b bs => "x" ++ toHex bs

def showStack (s : List Val) : String :=
  if s.isEmpty then "." else ",".intercalate (s.reverse.map showVal)

def parseArgs (s : String) : Option (List (List Nat)) :=
  if s = "-" then none else some ((s.splitOn ",").map hexBytes)

/-- the optional 10th field (transaction environment) only matters to ops outside the modelled family -/
def handle (line : String) : String :=
  let body := (line.splitOn "#").head!
  let env := parseEnv (fields body)
  match (fields body).take 9 with
  | [kind, mode, bk, maxcost, pool, lsv, minv, hex, args] =>
    let m := if mode = "sig" then modeSig else modeApp
    let prog := hexBytes hex
    let cfg : Cfg :=
      { lim := limits, tbl := tbl, fcost := fcost, lv := Gen.AVMFacts.logicVersion, lsv := nat! lsv, minv := nat! minv,
        mode := m, hasAccess := false, args := if m = modeSig then parseArgs args else none, maxCost := nat! maxcost,
        pooled := bk = "p" || bk = "i", isolate := m = modeApp && bk = "i" }
    let poolV : Int := int! pool
    if kind = "check" then
      match check cfg prog poolV with
      | .ok _ => "chk=ok"
      | .error (.unmodelled, _) => "-"
      | .error (e, pc) => s!"chk={e.toString}@{pc}"
    else if kind = "eval" then
      if cfg.isolate && poolV < (cfg.maxCost : Int) then "ev=refused cost=0 steps=0 stack=-" else
      let v := match begin cfg prog with | .ok (v, _) => v | .error _ => 0
      match eval (concreteExec (semEnv env v m)) cfg prog poolV with
      | none => "ev=NONTERM"
      | some f =>
        match f.verdict with
        | .accept => s!"ev=accept cost={f.st.cost} steps={f.steps} stack={showStack f.st.m.stack}"
        | .reject => s!"ev=reject cost={f.st.cost} steps={f.steps} stack={showStack f.st.m.stack}"
        | .error .unmodelled => "-"
        | .error .crash => s!"ev=PANIC-recovered cost={f.st.cost} steps={f.steps} stack=-"
        | .error e => s!"ev=err:{e.toString}@{f.st.pc} cost={f.st.cost} steps={f.steps} stack=-"
    else "bad-op"
  | _ => "bad-op"

end AlgoVerif.Driver.C31
