import AlgoVerif.Base.Drv
import AlgoVerif.Base.Sha512
import AlgoVerif.Driver.C15
import AlgoVerif.Model.Catchpoint
import AlgoVerif.Model.CatchpointFile
/-!
Line protocol of the `c1416` driver (harness/ledger/zz_verif_c14_test.go, zz_verif_c16_test.go).

C14 (stateful; a `case` line starts a new history):
  case seed=.. n=.. I=<interval> L=<lookback> ver=<label version> …         → ok
  gen | <row> | …                                                            → ok <rows>
  rnd <k> bh=<hex> totals=<hex> sp=<hex> oa=<hex> orp=<hex> | +<row> | -<key> → ok <rows of the state after round k>
  run <name> mal=.. cfg=.. ev=<b|c<t>|X<t>|r>,…                              → labels=<round>:<hash>,…   (Model.Catchpoint.labels)
rows `A addr ur rb enc`, `R a|p addr cidx ur enc`, `K key value`; keys `A addr`, `R addr cidx`, `K key`.
Event translation: b = block; c<t> = commit t, then ticks until nothing is pending (+ trie housekeeping: evict, reload);
X<t> = commit t, crash, ticks (recovery); r / e = restart with tracking enabled, d = restart with tracking disabled.

C16:
  case16 … split=<first|checked>                                             → ok
  file|mut <id> r=<round> label=<round>:<hash> bh=<hex> :: <section> :: …    → reject <stage> | accept same | accept DIFF
(Model.CatchpointFile.restore / verify; the `file` line fixes the reference state the `mut` lines are compared with).
The model runs with H = SHA-512/256 written in Lean, so labels must be byte-identical with the real code.
-/
namespace AlgoVerif.Driver.C1416
open AlgoVerif.Drv Model.CatchpointHash Model.Catchpoint
open AlgoVerif.Driver.C15 (unhex hexOf H)

def kvOf (toks : List String) (k : String) : Option String :=
  toks.findSome? fun t => if t.startsWith (k ++ "=") then some ((t.drop (k.length + 1)).toString) else none

def natOf (toks : List String) (k : String) : Option Nat := (kvOf toks k).bind (·.toNat?)
def bytesOf (toks : List String) (k : String) : Option Bytes := (kvOf toks k).bind unhex

def parseRow (f : List String) : Option Entry :=
  match f with
  | ["A", a, ur, rb, e] =>
    match unhex a, ur.toNat?, rb.toNat?, unhex e with
    | some a, some ur, some rb, some e => some (.account a ur rb e)
    | _, _, _, _ => none
  | ["R", k, a, c, ur, e] =>
    match unhex a, c.toNat?, ur.toNat?, unhex e with
    | some a, some c, some ur, some e =>
      if k = "a" then some (.resource .asset a c ur e) else if k = "p" then some (.resource .app a c ur e) else none
    | _, _, _, _ => none
  | ["K", k, v] =>
    match unhex k, unhex v with
    | some k, some v => some (.kv k v)
    | _, _ => none
  | _ => none

def parseKey (f : List String) : Option RowKey :=
  match f with
  | ["A", a] => (unhex a).map RowKey.account
  | ["R", a, c] => match unhex a, c.toNat? with
    | some a, some c => some (.resource a c)
    | _, _ => none
  | ["K", k] => (unhex k).map RowKey.kv
  | _ => none

/-- "+row" / "-key" -/
def parseChange (item : String) : Option Change :=
  match fields item with
  | t :: rest =>
    if t.startsWith "+" then (parseRow ((t.drop 1).toString :: rest)).map Change.put
    else if t.startsWith "-" then (parseKey ((t.drop 1).toString :: rest)).map Change.del
    else none
  | [] => none

def allSome {α : Type} : List (Option α) → Option (List α)
  | [] => some []
  | none :: _ => none
  | some a :: t => (allSome t).map (a :: ·)

/-! ### C16 -/
open Model.CatchpointFile in
structure RefState where
  accts : List (Bytes × Bytes)
  res : List ((Bytes × Nat) × Bytes)
  kvs : List (Bytes × Bytes)
  vd : VerifyData
  deriving DecidableEq

open Model.CatchpointFile

def bit1 (c : Char) : Bool := c == '1'

def parseRes : List String → Option (List ResRec)
  | [] => some []
  | "r" :: ci :: fl :: ur :: e :: rest =>
    match ci.toNat?, ur.toNat?, unhex e, fl.toList, parseRes rest with
    | some ci, some ur, some e, [a, p, o, h], some t => some (⟨ci, bit1 a, bit1 p, bit1 o, bit1 h, ur, e⟩ :: t)
    | _, _, _, _, _ => none
  | _ => none

def parseRec (s : String) : Option Rec :=
  match fields s with
  | "A" :: a :: more :: ur :: rb :: tap :: tal :: tasp :: tas :: e :: rest =>
    match unhex a, ur.toNat?, rb.toNat?, tap.toNat?, tal.toNat?, tasp.toNat?, tas.toNat?, unhex e, parseRes rest with
    | some a, some ur, some rb, some tap, some tal, some tasp, some tas, some e, some rs =>
      some (.acct ⟨a, more == "1", ur, rb, tap, tal, tasp, tas, e, rs⟩)
    | _, _, _, _, _, _, _, _, _ => none
  | ["K", k, v] => match unhex k, unhex v with
    | some k, some v => some (.kv k v)
    | _, _ => none
  | ["O", a, u, e] => match unhex a, u.toNat?, unhex e with
    | some a, some u, some e => some (.oa a u e)
    | _, _, _ => none
  | ["P", r, e] => match r.toNat?, unhex e with
    | some r, some e => some (.orp r e)
    | _, _ => none
  | _ => none

def parseSection (s : String) : Option Section :=
  match fields s with
  | "H" :: rest => match natOf rest "ver", natOf rest "br", bytesOf rest "totals" with
    | some v, some br, some t => some (.header v br t)
    | _, _, _ => none
  | ["S", n, e] => match n.toNat?, unhex e with
    | some n, some e => some (.sp n e)
    | _, _ => none
  | "B" :: _ =>
    let body := (s.trimAsciiStart.drop 1).toString
    if (fields body).isEmpty then some (.chunk []) else
    (allSome ((body.splitOn " ; ").map parseRec)).map Section.chunk
  | ["U"] => some .unknown
  | "X" :: _ => some .garbage
  | ["Z"] => some .garbage
  | _ => none

def keyLt (a b : Bytes × Nat) : Bool := bytesLt a.1 b.1 || (a.1 == b.1 && a.2 < b.2)

def refOf (st : Staging) (vd : VerifyData) : RefState :=
  ⟨sortBy (fun a b => bytesLt a.1 b.1) st.accts, sortBy (fun a b => keyLt a.1 b.1) st.res,
   sortBy (fun a b => bytesLt a.1 b.1) st.kvs, vd⟩

def stageName : Stage → String
  | .process => "process"
  | .trie => "trie"
  | .noblock => "noblock"
  | .verify => "verify"

structure St where
  p : Params := ⟨1, 1, 8⟩
  genesis : Rows := []
  rounds : List RoundData := []      -- in order
  cur : Rows := []
  splitChecked : Bool := false
  /-- what the honest file of the case restores to -/
  ref : Option RefState := none

def St.hist (s : St) : Hist := ⟨s.genesis, ⟨[], [], [], []⟩, s.rounds⟩

def ticks : List Ev := List.replicate 48 Ev.tick

def parseEvent (t : String) : Option (List Ev) :=
  if t = "b" then some [.block]
  else if t = "r" ∨ t = "e" then some (Ev.crash true :: ticks)
  else if t = "d" then some (Ev.crash false :: ticks)
  else if t.startsWith "c" then
    ((t.drop 1).toString.toNat?).map fun n => Ev.commit n :: ticks ++ [Ev.trie (.evict true), Ev.trie .reload]
  else if t.startsWith "X" then
    ((t.drop 1).toString.toNat?).map fun n => Ev.commit n :: Ev.crash true :: ticks
  else none

def showLabels (out : List (Nat × String)) : String :=
  if out.isEmpty then "labels=-" else
  "labels=" ++ ",".intercalate (out.map fun x => x.2.replace "#" ":")

def step (s : St) (line : String) : St × String :=
  let items := (line.splitOn " | ")
  let head := fields (items.headD "")
  match head with
  | "case" :: rest =>
    match natOf rest "I", natOf rest "L", natOf rest "ver" with
    | some i, some l, some v => ({ p := ⟨i, l, v⟩ }, "ok")
    | _, _, _ => (s, "bad-op")
  | ["gen"] =>
    match allSome (items.drop 1 |>.map fun it => parseRow (fields it)) with
    | some rows => ({ s with genesis := rows, cur := rows, rounds := [] }, s!"ok {rows.length}")
    | none => (s, "bad-op")
  | "rnd" :: k :: rest =>
    match k.toNat?, bytesOf rest "bh", bytesOf rest "totals", bytesOf rest "sp", bytesOf rest "oa", bytesOf rest "orp",
        allSome (items.drop 1 |>.map parseChange) with
    | some k, some bh, some tot, some sp, some oa, some orp, some chs =>
      if k = s.rounds.length + 1 then
        let rd : RoundData := ⟨bh, chs, ⟨tot, sp, oa, orp⟩⟩
        let cur := applyRound s.cur rd
        ({ s with rounds := s.rounds ++ [rd], cur := cur }, s!"ok {cur.length}")
      else (s, "bad-op round-order")
    | _, _, _, _, _, _, _ => (s, "bad-op")
  | "run" :: _ :: rest =>
    match (kvOf rest "ev").bind fun e => allSome ((e.splitOn ",").map parseEvent) with
    | some evs => (s, showLabels (labels H s.p s.hist evs.flatten))
    | none => (s, "bad-op")
  | "case16" :: rest =>
    ({ s with splitChecked := kvOf rest "split" == some "checked", ref := none }, "ok")
  | kind :: _ =>
    if kind != "file" && kind != "mut" then (s, "bad-op") else
    let secs := line.splitOn " :: "
    let hd := fields (secs.headD "")
    match natOf hd "r", kvOf hd "label", bytesOf hd "bh", allSome ((secs.drop 1).map parseSection) with
    | some r, some label, some bh, some f =>
      -- the node asks for the block of the round the FILE names; the harness has blocks for the history only, the
      -- label's round prefix makes any other round a mismatch
      let digest : Nat → Option Bytes := fun x => if x = r then some bh else if x = 0 then none else some []
      match restore H s.splitChecked digest (label.replace ":" "#") f with
      | .error st => (s, "reject " ++ stageName st)
      | .ok st =>
        match buildRoot H st with
        | none => (s, "reject trie")
        | some root =>
          let me := refOf st (verifyData H st root)
          if kind == "file" then ({ s with ref := some me }, "accept same")
          else (s, if s.ref == some me then "accept same" else "accept DIFF")
    | _, _, _, _ => (s, "bad-op")
  | _ => (s, "bad-op")

end AlgoVerif.Driver.C1416
