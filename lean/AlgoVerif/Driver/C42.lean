import AlgoVerif.Base.Drv
import AlgoVerif.Model.Vpack
/-! Line protocol of the C42 driver (see harness/network/vpack/zz_verif_c42_test.go for the grammar). -/
namespace AlgoVerif.Driver.C42
open AlgoVerif.Drv AlgoVerif.Model.Vpack

def hexDigit (n : Nat) : Char := if n < 10 then Char.ofNat (48 + n) else Char.ofNat (87 + n)

def hex (bs : Bytes) : String :=
  String.ofList (bs.foldr (fun b acc => hexDigit (b.toNat / 16) :: hexDigit (b.toNat % 16) :: acc) [])

def hexVal (c : Char) : Nat :=
  let n := c.toNat
  if 48 ≤ n ∧ n ≤ 57 then n - 48 else if 97 ≤ n ∧ n ≤ 102 then n - 87 else if 65 ≤ n ∧ n ≤ 70 then n - 55 else 0

def unhexL : List Char → Bytes
  | a :: b :: rest => UInt8.ofNat (hexVal a * 16 + hexVal b) :: unhexL rest
  | _ => []

/-- "-" is the empty byte string -/
def unhex (s : String) : Bytes := if s = "-" then [] else unhexL s.toList
def hexOr (bs : Bytes) : String := if bs.isEmpty then "-" else hex bs

/-! FNV-1a 64 over a canonical dump of a `dynamicTableState` (the harness computes the same over the
    unexported Go fields). -/
def fnvB (h : UInt64) (b : UInt8) : UInt64 := (h ^^^ b.toUInt64) * 1099511628211
def fnvBytes (h : UInt64) (bs : Bytes) : UInt64 := bs.foldl fnvB h
def fnvNat (h : UInt64) (n : Nat) (width : Nat) : UInt64 :=
  (List.range width).foldl (fun h i => fnvB h (UInt8.ofNat (n / 256 ^ (width - 1 - i)))) h

def fnvTable (h : UInt64) (t : LruTable) : UInt64 :=
  let h := fnvNat h t.numBuckets 4
  let h := t.buckets.foldl (fun h bk => fnvBytes (fnvBytes h bk.1) bk.2) h
  t.mru.foldl fnvB h

def fnvEntry (h : UInt64) (e : PropEntry) : UInt64 :=
  let h := fnvBytes h e.dig
  let h := fnvBytes h e.encdig
  let h := fnvBytes h e.oprop
  let h := fnvBytes h (e.oper ++ zeros (9 - e.oper.length))
  let h := fnvNat h e.oper.length 1
  fnvB h e.mask

def digest (s : TableState) : String :=
  let h : UInt64 := 14695981039346656037
  let h := fnvTable h s.snd
  let h := fnvTable h s.pk
  let h := fnvTable h s.pk2
  let h := s.win.entries.toArray.foldl fnvEntry h
  let h := fnvNat h s.win.head 1
  let h := fnvNat h s.win.size 1
  let h := fnvNat h s.lastRnd 8
  toString h.toNat

structure St where
  tabs : Option (TableState × TableState) := none

def dg (want : Bool) (e d : TableState) : String :=
  if want then s!" e={digest e} d={digest d}" else ""

/-- stages after the stateless-compressed bytes `sl` are known -/
def stateful (want : Bool) (e d : TableState) (sl : Bytes) (orig : Option Bytes) : (TableState × TableState) × String :=
  match compress e sl with
  | (e', .error err) => ((e', d), s!"c-err {err.str}" ++ dg want e' d)
  | (e', .ok vp) =>
    match decompress d vp with
    | (d', .error err) => ((e', d'), s!"vp={hex vp} d-err {err.str}" ++ dg want e' d')
    | (d', .ok out) =>
      let last := match statelessDecompress out, orig with
        | .error _, _ => "sd-err"
        | .ok mp, some o => s!"mp={showBool (mp = o)}"
        | .ok mp, none => s!"sd={hex mp}"
      ((e', d'), s!"vp={hex vp} rt={showBool (out = sl)} {last} sync={showBool (e' = d')}" ++ dg want e' d')

def slc (mp : Bytes) : String :=
  match statelessCompress mp with
  | .error _ => "err"
  | .ok b =>
    let rt := match statelessDecompress b with
      | .error _ => "err"
      | .ok back => showBool (back = mp)
    s!"ok {hex b} rt={rt}"

def step (s : St) (line : String) : St × String :=
  match fields line with
  | ["reset", n] =>
    match TableState.init (nat! n) with
    | some t => ({ tabs := some (t, t) }, "ok")
    | none => ({ tabs := none }, "err")
  | "slc" :: h :: _ => (s, slc (unhex h))
  | "slcm" :: h :: _ => (s, slc (unhex h))
  | "sld" :: h :: _ =>
    match statelessDecompress (unhex h) with
    | .ok b => (s, s!"ok {hex b}")
    | .error _ => (s, "err")
  | op :: h :: rest =>
    let want := rest.contains "d"
    match s.tabs with
    | none => (s, "nostate")
    | some (e, d) =>
      if op = "vote" ∨ op = "mvote" then
        match statelessCompress (unhex h) with
        | .error _ => (s, "sl-err")
        | .ok sl =>
          let (t, r) := stateful want e d sl (some (unhex h))
          ({ tabs := some t }, s!"sl={hex sl} " ++ r)
      else if op = "svote" then
        let (t, r) := stateful want e d (unhex h) none
        ({ tabs := some t }, r)
      else if op = "enc" then
        match compress e (unhex h) with
        | (e', .error err) => ({ tabs := some (e', d) }, s!"err {err.str}" ++ dg want e' d)
        | (e', .ok o) => ({ tabs := some (e', d) }, s!"ok {hex o}" ++ dg want e' d)
      else if op = "dec" then
        match decompress d (unhex h) with
        | (d', .error err) => ({ tabs := some (e, d') }, s!"err {err.str}" ++ dg want e d')
        | (d', .ok o) => ({ tabs := some (e, d') }, s!"ok {hex o}" ++ dg want e d')
      else (s, "bad-op")
  | _ => (s, "bad-op")

end AlgoVerif.Driver.C42
