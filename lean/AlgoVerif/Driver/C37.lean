import AlgoVerif.Base.Drv
import AlgoVerif.Base.Sha512
import AlgoVerif.Model.MerkleArray
/-!
Line protocol of the C37 driver (one op per line, see harness/crypto/merklearray/zz_verif_c37_test.go):

  sha  <alg> <hex>                                    → digest hex
  pair <d> <l> <r>                                    → `pair.ToBeHashed` bytes | panic
  pv   <alg> <vc> <arr> <idxs>                        → root=… depth=… path=… verify=… | build=… | prove=…
  vf   <alg[/palg]> <vc> <arr> <root|=> <depth> <path> <elems> <mut…>  → <result> honest=<0|1>
       (palg = hash type of the PROOF when it differs from the tree's; ≥ 4 = invalid factory)

alg: 0 sha512_256, 2 sha256, 3 sha512.  Lists are comma separated, `-` is the empty list, `_` the
empty byte string; elems are `pos:hex`.  Driver args: `lenl|fixed` `nodepth|depth` `nohashcheck|hashcheck` (facts of the tree).
-/
namespace AlgoVerif.Driver.C37
open AlgoVerif.Drv Model.MerkleArray

def hexDigit (c : Char) : Option Nat :=
  if '0' ≤ c ∧ c ≤ '9' then some (c.toNat - '0'.toNat)
  else if 'a' ≤ c ∧ c ≤ 'f' then some (c.toNat - 'a'.toNat + 10)
  else none

def unhexAux : List Char → Option Bytes
  | [] => some []
  | [_] => none
  | a :: b :: rest =>
    match hexDigit a, hexDigit b, unhexAux rest with
    | some x, some y, some t => some (UInt8.ofNat (16 * x + y) :: t)
    | _, _, _ => none

def unhex (s : String) : Option Bytes := if s = "_" then some [] else unhexAux s.toList

def hexOf (b : Bytes) : String :=
  if b.isEmpty then "_" else
  String.ofList (b.foldr (fun x acc => Nat.digitChar (x.toNat / 16) :: Nat.digitChar (x.toNat % 16) :: acc) [])

def items (s : String) : List String := if s = "-" then [] else s.splitOn ","

def allSome {α : Type} : List (Option α) → Option (List α)
  | [] => some []
  | none :: _ => none
  | some a :: t => (allSome t).map (a :: ·)

def bytesList (s : String) : Option (List Bytes) := allSome ((items s).map unhex)
def natList (s : String) : Option (List Nat) := allSome ((items s).map String.toNat?)
def elemList (s : String) : Option (List (Nat × Bytes)) :=
  allSome ((items s).map fun it =>
    match it.splitOn ":" with
    | [p, h] => match p.toNat?, unhex h with
      | some n, some b => some (n, b)
      | _, _ => none
    | _ => none)

def showList (l : List Bytes) : String := if l.isEmpty then "-" else ",".intercalate (l.map hexOf)

/-- hash, digest size, `HashFactory.Validate() == nil`.  Types ≥ 4 (MaxHashType) are invalid:
`NewHash()` is `invalidHash` (Size 0, Sum = nil).  Type 1 (sumhash) is not implemented here. -/
def hashOf (alg : String) : Option ((Bytes → Bytes) × Nat × Bool) :=
  match alg with
  | "0" => some (AlgoVerif.Sha.sha512_256, 32, true)
  | "2" => some (AlgoVerif.Sha.sha256, 32, true)
  | "3" => some (AlgoVerif.Sha.sha512, 64, true)
  | "1" => none
  | s => match s.toNat? with
    | some n => if 4 ≤ n then some (fun _ => [], 0, false) else none
    | none => none

/-- `A` or `A/P`: hash type of the tree and of the proof presented to Verify -/
def algPair (tok : String) : String × String :=
  match tok.splitOn "/" with
  | [a, p] => (a, p)
  | _ => (tok, tok)

def showV : VRes → String
  | .ok => "ok" | .rootMismatch => "rootMismatch" | .posOutOfBound => "posOutOfBound"
  | .nonEmptyProof => "nonEmptyProof" | .noHints => "noHints" | .unexpectedDepth => "unexpectedDepth"
  | .invalidHash => "invalidHash" | .panic => "panic" | .fuel => "MODEL-FUEL"
def showP : PErr → String
  | .zeroCommitment => "zeroCommitment" | .posOutOfBound => "posOutOfBound" | .internal => "internal"
def showB : BErr → String
  | .panic => "panic" | .fuel => "MODEL-FUEL"

def dedup : List Nat → List Nat
  | [] => []
  | x :: xs => x :: (dedup xs).filter (· ≠ x)

def handle (fixedOff checkDepth checkHash : Bool) (line : String) : String :=
  match fields line with
  | ["sha", alg, h] =>
    match hashOf alg, unhex h with
    | some (H, _, _), some b => hexOf (H b)
    | _, _ => "bad-op"
  | ["pair", d, l, r] =>
    match unhex l, unhex r with
    | some lb, some rb =>
      match pairBytes ⟨id, nat! d, fixedOff, checkDepth, true, checkHash⟩ lb rb with
      | some b => hexOf b
      | none => "panic"
    | _, _ => "bad-op"
  | ["pv", alg, vc, arr, idxs] =>
    match hashOf alg, bytesList arr, natList idxs with
    | some (H, d, v), some a, some ix =>
      let c : Cfg := ⟨H, d, fixedOff, checkDepth, v, checkHash⟩
      match (if vc = "1" then buildVC c a else build c a) with
      | .error e => "build=" ++ showB e
      | .ok t =>
        match t.root with
        | none => "root=panic"
        | some root =>
          match prove t ix with
          | .error e => s!"root={hexOf root} prove={showP e}"
          | .ok pf =>
            let el := (dedup ix).map fun i => (i, match a[i]? with | some e => e | none => [])
            let r := if vc = "1" then verifyVC c root el pf else verify c root el pf
            s!"root={hexOf root} depth={pf.depth} path={showList pf.path} verify={showV r}"
    | _, _, _ => "bad-op"
  | "vf" :: alg :: vc :: arr :: root :: depth :: path :: elems :: _ =>
    match hashOf (algPair alg).1, hashOf (algPair alg).2, bytesList arr, bytesList path, elemList elems with
    | some (HT, dT, vT), some (H, d, v), some a, some p, some el =>
      let cT : Cfg := ⟨HT, dT, fixedOff, checkDepth, vT, checkHash⟩
      let c : Cfg := ⟨H, d, fixedOff, checkDepth, v, checkHash⟩
      match (if vc = "1" then buildVC cT a else build cT a) with
      | .error e => "build=" ++ showB e
      | .ok t =>
        match t.root with
        | none => "root=panic"
        | some hroot =>
          match (if root = "=" then some hroot else unhex root) with
          | none => "bad-op"
          | some rt =>
            let pf : Proof := ⟨p, nat! depth⟩
            let r := if vc = "1" then verifyVC c rt el pf else verify c rt el pf
            s!"{showV r} honest={if rt = hroot then 1 else 0}"
    | _, _, _, _, _ => "bad-op"
  | _ => "bad-op"

end AlgoVerif.Driver.C37
