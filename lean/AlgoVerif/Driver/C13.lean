import AlgoVerif.Base.Drv
import AlgoVerif.Spec.OnlineHistory
import AlgoVerif.Model.OnlineAccts
/-! Line-protocol driver for C13 (exe `c13`). Same op grammar as harness/ledger/zz_verif_c13_test.go.
`c13 spec`  answers every query from Spec.OnlineHistory (genesis + blocks), ignoring commit / reload / evict (`-` = not
            answered by the oracle);
`c13 model` steps Model.OnlineAccts through the same operations and answers as the code does (errors included). -/
namespace AlgoVerif.Driver.C13
open AlgoVerif.Drv AlgoVerif.Spec.OnlineHistory
namespace M
export AlgoVerif.Model.OnlineAccts (State init shrink newBlock commit reload lookupOnline onlineCirculation topOnline
  CommitRes ReloadRes Row)
end M

def kvArg (fs : List String) (key : String) : String :=
  match fs.find? (fun f => f.startsWith (key ++ "=")) with
  | some f => (f.drop (key.length + 1)).toString
  | none => ""

def natArg (fs : List String) (key : String) : Nat := nat! (kvArg fs key)

def b01 (b : Bool) : String := if b then "1" else "0"

def parseAcct (s : String) : Acct :=
  match s.splitOn "/" with
  | [st, bal, rb, vf, vl, key, ie, lp, lh] => ⟨nat! st, nat! bal, nat! rb, nat! vf, nat! vl, nat! key, ie == "1", nat! lp, nat! lh⟩
  | _ => {}

def parseItem (it : String) : Option (Addr × Acct) :=
  match (it.splitOn ":") with
  | [id, a] => some (nat! ((fields id).headD ""), parseAcct ((fields a).headD ""))
  | _ => none

def parseProto (mbl : Nat) (s : String) : Proto :=
  match s.splitOn "/" with
  | [u, e, i, l, t, r] => ⟨nat! u, mbl, e == "1", nat! i, nat! l, nat! t, nat! r⟩
  | _ => {}

def parseBlock (line : String) : Block :=
  match line.splitOn " | " with
  | [] => {}
  | hd :: items =>
    let f := fields hd
    ⟨natArg f "p", natArg f "lvl", natArg f "sup", natArg f "spn", items.filterMap parseItem⟩

def errStr : Err → String
  | .beforeDb => "err before-db"
  | .tooHigh => "err too-high"
  | .notFound => "err notfound"
  | .overflow => "err overflow"
  | .panic => "PANIC"
  | .stale => "err stale-db"
  | .other => "err other"

def dataStr (d : OnlineData) : String := s!"{d.stake}/{d.vf}/{d.vl}/{d.key}/{b01 d.ie}/{d.lp}/{d.lh}"

def recStr (r : ORec) : String := s!"{r.bal}/{r.rb}/{r.vf}/{r.vl}/{r.key}/{b01 r.ie}/{r.lp}/{r.lh}"

def lookupStr : Except Err OnlineData → String
  | .ok d => "ok " ++ dataStr d
  | .error e => errStr e

def qaEntry (a : Addr) : Except Err OnlineData → String
  | .ok d => s!"{a}={dataStr d}"
  | .error e => s!"{a}={(errStr e).replace " " ":"}"

def joinOr (sep : String) (l : List String) : String := if l.isEmpty then "-" else sep.intercalate l

def topStr (l : List TopEntry) : String :=
  joinOr "," (l.map fun t => s!"{t.addr}:{t.norm}:{t.bal}:{t.rb}:{t.vf}:{t.vl}:{t.key}")

def votersStr : Except Err Voters → String
  | .error e => errStr e
  | .ok v => s!"ok tw={v.total} " ++ joinOr "," (v.parts.map fun (a, w, k) => s!"{a}:{w}:{k}")

structure St where
  model : Bool := false
  hist : Option Hist := none
  st : Option M.State := none
  n : Nat := 0
  cache : Nat := 0

def votersList (σ : M.State) : String :=
  joinOr "," (σ.voters.map fun (r, v) => match v with | .ok _ => toString r | .error _ => s!"{r}!")

def insertSorted (x : Nat × String) : List (Nat × String) → List (Nat × String)
  | [] => [x]
  | y :: ys => if x.1 ≤ y.1 then x :: y :: ys else y :: insertSorted x ys

def votersListSorted (σ : M.State) : String :=
  let l := σ.voters.map fun (r, v) => (r, match v with | .ok _ => toString r | .error _ => s!"{r}!")
  joinOr "," ((l.foldr insertSorted []).map (·.2))

def dumpStr (σ : M.State) : String :=
  let rows := σ.univ.flatMap fun a => (σ.db a).reverse.map fun (r : M.Row) => s!"{a}@{r.upd}:{recStr r.data}"
  let prm := if σ.dbParams.isEmpty then "-" else s!"{σ.dbParamsStart}..{σ.dbParamsStart + σ.dbParams.length - 1}"
  let mem := s!"{σ.latest + 1 - σ.params.length}..{σ.latest}"
  let cache := σ.univ.filterMap fun a =>
    if (σ.cache a).isEmpty then none else some (s!"{a}:" ++ "|".intercalate ((σ.cache a).map fun e => toString e.1))
  s!"ok db={σ.dbRound} rows={joinOr "," rows} params={prm} mem={mem} cache={joinOr "," cache}"

def stepModel (s : St) (σ : M.State) (f : List String) (line : String) : St × String :=
  match f.headD "" with
  | "block" =>
    let σ' := M.newBlock σ (parseBlock line)
    ({ s with st := some σ' }, s!"ok latest={σ'.latest} voters={votersListSorted σ'}")
  | "commit" =>
    match M.commit σ (natArg f "r") with
    | .noop => (s, s!"ok db={σ.dbRound} voters={votersListSorted σ}")
    | .done σ' => ({ s with st := some σ' }, s!"ok db={σ'.dbRound} voters={votersListSorted σ'}")
    | .failed _ => (s, "err commit")
  | "reload" =>
    match M.reload σ with
    | .failed _ => ({ s with st := none }, "err start")
    | .done σ1 =>
      let σ' := M.shrink σ1 s.cache
      ({ s with st := some σ' }, s!"ok db={σ'.dbRound} latest={σ'.latest} voters={votersListSorted σ'}")
  | "evict" => (s, "ok")
  | "dump" => (s, dumpStr σ)
  | "q" =>
    let (r, σ') := M.lookupOnline σ (natArg f "r") (natArg f "a")
    ({ s with st := some σ' }, lookupStr r)
  | "qa" =>
    let rnd := natArg f "r"
    let (σ', outs) := (List.range' 1 s.n).foldl (fun (acc : M.State × List String) a =>
      let (r, σ'') := M.lookupOnline acc.1 rnd a
      (σ'', acc.2 ++ [qaEntry a r])) (σ, [])
    ({ s with st := some σ' }, "ok " ++ " ".intercalate outs)
  | "circ" =>
    let (r, σ') := M.onlineCirculation σ (natArg f "r") (natArg f "v")
    ({ s with st := some σ' }, match r with | .ok x => s!"ok {x}" | .error e => errStr e)
  | "top" =>
    let (r, σ') := M.topOnline σ (natArg f "r") (natArg f "v") (natArg f "n")
    ({ s with st := some σ' }, match r with
      | .ok (l, t) => s!"ok tot={t} {topStr l}"
      | .error e => errStr e)
  | "lockcirc" => (s, "-")    -- the DB is made to fail under the query: outside the model (DB reads are atomic there)
  | "voters" =>
    match σ.voters.lookup (natArg f "r") with
    | none => (s, "none")
    | some v => (s, votersStr v)
  | _ => (s, "bad-op")

def stepSpec (s : St) (h : Hist) (f : List String) (line : String) : St × String :=
  match f.headD "" with
  | "block" => ({ s with hist := some { h with blocks := h.blocks ++ [parseBlock line] } }, "-")
  | "commit" | "reload" | "evict" | "dump" => (s, "-")
  | "q" => (s, lookupStr (onlineAt h (natArg f "r") (natArg f "a")))
  | "qa" =>
    let rnd := natArg f "r"
    (s, "ok " ++ " ".intercalate ((List.range' 1 s.n).map fun a => qaEntry a (onlineAt h rnd a)))
  | "circ" | "lockcirc" =>
    (s, match circulation h (natArg f "r") (natArg f "v") with | .ok x => s!"ok {x}" | .error e => errStr e)
  | "top" => (s, match topN h (natArg f "r") (natArg f "v") (natArg f "n") with
      | .ok (l, t) => s!"ok tot={t} {topStr l}"
      | .error e => errStr e)
  | "voters" =>
    let r := natArg f "r"
    match h.block? r with
    | none => (s, "none")
    | some b => if r ≥ 1 && snapshotRound (protoOf h.protos b.proto) r then (s, votersStr (votersAt h r)) else (s, "none")
  | _ => (s, "bad-op")

def step (s : St) (line : String) : St × String :=
  let f := fields line
  if f.headD "" == "reset" then
    let n := natArg f "n"
    let mbl := natArg f "mbl"
    let protos := ((kvArg f "protos").splitOn ";").map (parseProto mbl)
    let g := kvArg f "gen"
    let gen : Block := ⟨0, 0, natArg f "sup", 0, if g == "-" || g == "" then [] else (g.splitOn ",").filterMap parseItem⟩
    let univ := List.range' 1 n
    let k := natArg f "cache"
    let s' : St := { s with n := n, cache := k }
    if s.model then
      let σ := M.shrink (M.init protos univ (natArg f "lb") 2500 gen) k
      ({ s' with st := some σ, hist := none }, s!"ok sup={gen.supply} lvl=0")
    else
      ({ s' with hist := some ⟨protos, univ, gen, []⟩, st := none }, s!"ok sup={gen.supply} lvl=0")
  else if s.model then
    match s.st with
    | none => (s, "err no-case")
    | some σ => stepModel s σ f line
  else
    match s.hist with
    | none => (s, "err no-case")
    | some h => stepSpec s h f line

end AlgoVerif.Driver.C13
