import AlgoVerif.Base.Drv
import AlgoVerif.Model.Authz
/-!
Line-protocol handler for Model.Authz (property C28).  Grammar: harness/data/transactions/verify/zz_verif_c28_test.go
(verify layer, lines `g …`) and harness/ledger/eval/zz_verif_c28_test.go (evaluator layer, lines `reset` / `grp …`).

The model's abstract byte types are instantiated with TOKENS (strings): a token names what a value is
(`k3`, `M1.2.k0+k1`, `Pp0`, `s(k3~T0)`, `j1`, …).  The hashes build the token of the derived address, the signature
oracles accept exactly the token of the genuine signature — the ideal-cryptography instance of `Env`.
-/
namespace AlgoVerif.Driver.C28
open AlgoVerif.Drv AlgoVerif.Model.Authz

structure SProg where
  id : String
  len : Nat
  ver : Option Nat
  chk : Bool
  ev : EvalRes
  args : String := "-"     -- token of the LogicSig arguments (they travel with the program in this instance; only the cache compares them)

structure STx where
  id : String
  wf : Bool
  ty : String
  hb : Bool
  snd : String
  rk : String

@[reducible] def symT : Types := ⟨String, String, String, String, String, SProg, STx⟩

def msgTok : Msg symT → String
  | .txn t => "T" ++ t.id
  | .prog p => "G" ++ p.id
  | .msigProg a p => "MP(" ++ a ++ "~" ++ p.id ++ ")"
  | .pqProg a p => "QP(" ++ a ++ "~" ++ p.id ++ ")"

def genuine (pk : String) (m : Msg symT) : String := "s(" ++ pk ++ "~" ++ msgTok m ++ ")"

def progAt (gi : Nat) (grp : List (STxn symT)) : Option SProg := (grp[gi]?).map (·.lsig.logic)

def symEnv (pre : Option Int) : Env symT where
  addrEq := fun a b => inferInstanceAs (Decidable ((a : String) = b))
  zeroAddr := "0"
  stateProofSender := "SP"
  addrKey := fun a => a
  pkIsZero := fun k => k == "0"
  sigBlank := fun s => s == "-"
  pqkEmpty := fun k => k == "e"
  pqsEmpty := fun s => s == "e"
  progLen := fun p => p.len
  progVersion := fun p => p.ver
  sender := fun t => t.snd
  rekeyTo := fun t => t.rk
  isStateProofTx := fun t => t.ty == "stpf"
  isHeartbeat := fun t => t.ty == "hb"
  msigAddr := fun v thr keys => "M" ++ toString v ++ "." ++ toString thr ++ "." ++ "+".intercalate keys
  progAddr := fun p => "P" ++ p.id
  pqAddr := fun sc salt pk => "Q" ++ toString sc ++ "." ++ toString salt ++ "." ++ pk
  sigOk := fun pk m s => s == genuine pk m
  pqOk := fun pk m s => s == genuine pk m
  hbProofOk := fun t => t.hb
  wellFormed := fun t => t.wf
  groupCheck := fun _ => pre
  progCheck := fun gi grp => match progAt gi grp with | some p => p.chk | none => false
  progEval := fun gi grp => match progAt gi grp with | some p => p.ev | none => .error

/-! ### parsing -/

def splitFirst (s sep : String) : String × String :=
  match s.splitOn sep with
  | [] => ("", "")
  | a :: rest => (a, sep.intercalate rest)

/-- value of `key=` among tokens -/
def kv (toks : List String) (key : String) : Option String :=
  toks.findSome? fun t => let (k, v) := splitFirst t "="; if k == key then some v else none

def parseSubsig (t : String) : Option (SubSig symT) :=
  match t.splitOn "/" with
  | [k, s] => some ⟨k, s⟩
  | _ => none

def parseAll {α β} (f : α → Option β) : List α → Option (List β)
  | [] => some []
  | a :: rest => match f a, parseAll f rest with
    | some b, some bs => some (b :: bs)
    | _, _ => none

def parseMsig (t : String) : Option (MSig symT) :=
  if t == "-" then some ⟨0, 0, none⟩ else
  match t.splitOn ":" with
  | [v, thr, body] =>
    match v.toNat?, thr.toNat? with
    | some v, some thr =>
      if body == "N" then some ⟨v, thr, none⟩
      else match body.splitOn "[" with
        | ["", r] => match r.splitOn "]" with
          | [inner, ""] =>
            if inner == "" then some ⟨v, thr, some []⟩
            else (parseAll parseSubsig (inner.splitOn ";")).map fun l => ⟨v, thr, some l⟩
          | _ => none
        | _ => none
    | _, _ => none
  | _ => none

def parsePQ (t : String) : Option (PQSig symT) :=
  if t == "-" then some ⟨0, 0, "e", "e"⟩ else
  match t.splitOn ":" with
  | [sc, salt, pk, sg] =>
    match sc.toNat?, salt.toNat? with
    | some sc, some salt => some ⟨sc, salt, pk, sg⟩
    | _, _ => none
  | _ => none

def noProg : SProg := ⟨"-", 0, none, false, .error, "-"⟩

def parseEv : String → EvalRes
  | "p" => .pass
  | "r" => .reject
  | _ => .error

def parseLsig (t : String) : Option (LSig symT) :=
  if t == "-" then some ⟨noProg, "-", ⟨0, 0, none⟩, ⟨0, 0, none⟩, ⟨0, 0, "e", "e"⟩, 0, 0⟩ else
  let f := t.splitOn ","
  match kv f "p", kv f "len", kv f "ver", kv f "chk", kv f "ev", kv f "na", kv f "al", kv f "sig", kv f "msig", kv f "lmsig", kv f "pq" with
  | some p, some len, some ver, some chk, some ev, some na, some al, some sg, some ms, some lms, some pq =>
    match len.toNat?, na.toNat?, al.toNat?, parseMsig ms, parseMsig lms, parsePQ pq with
    | some len, some na, some al, some ms, some lms, some pq =>
      some ⟨⟨p, len, ver.toNat?, chk == "1", parseEv ev, (kv f "args").getD "-"⟩, sg, ms, lms, pq, na, al⟩
    | _, _, _, _, _, _ => none
  | _, _, _, _, _, _, _, _, _, _, _ => none

def parseStxn (toks : List String) : Option (STxn symT) :=
  match kv toks "t", kv toks "wf", kv toks "ty", kv toks "hb", kv toks "snd", kv toks "rk", kv toks "auth", kv toks "sig", kv toks "msig", kv toks "pq", kv toks "lsig" with
  | some t, some wf, some ty, some hb, some snd, some rk, some auth, some sg, some ms, some pq, some ls =>
    match parseMsig ms, parsePQ pq, parseLsig ls with
    | some ms, some pq, some ls => some ⟨sg, ms, ls, pq, ⟨t, wf == "1", ty, hb == "1", snd, rk⟩, auth⟩
    | _, _, _ => none
  | _, _, _, _, _, _, _, _, _, _, _ => none

def parseParams (t : String) : Option Params :=
  match t.splitOn "," with
  | [rk, enf, pq, lsv, lsmax, absmax, ms, lms, pricing] =>
    match lsv.toNat?, lsmax.toNat?, absmax.toNat? with
    | some lsv, some lsmax, some absmax => some ⟨rk == "1", enf == "1", pq == "1", lsv, lsmax, absmax, ms == "1", lms == "1", pricing == "1"⟩
    | _, _, _ => none
  | _ => none

/-- split the token list at the `|` tokens -/
def sections (toks : List String) : List (List String) :=
  let (cur, acc) := toks.foldl (fun (st : List String × List (List String)) t =>
    if t == "|" then ([], st.2 ++ [st.1]) else (st.1 ++ [t], st.2)) ([], [])
  acc ++ [cur]

/-! ### printing -/

def showMsigErr : MsigErr → String
  | .count => "count" | .version => "version" | .threshold => "threshold" | .address => "address"

def showPqErr : PqErr → String
  | .blank => "blank" | .unsupported => "unsupported" | .disabled => "disabled" | .authorizer => "authorizer"
  | .empty => "empty" | .badsig => "badsig"

def showLsigErr : LsigErr → String
  | .disabled => "disabled" | .empty => "empty" | .tooLong => "toolong" | .badVersion => "badversion" | .tooNew => "toonew"
  | .check => "check" | .notSigned => "notsigned" | .manySigs => "manysigs" | .pq e => "pq-" ++ showPqErr e
  | .badsig => "badsig" | .lmsigUnsupported => "lmsig-unsupported" | .msigUnsupported => "msig-unsupported"
  | .msig e => "msig-" ++ showMsigErr e | .evalError => "evalerror" | .rejected => "rejected"

def showDetail : Detail → String
  | .rekeyUnsupported => "rekey-unsupported" | .authEqSender => "auth-eq-sender" | .pqNotEnabled => "pq-not-enabled"
  | .noSig => "nosig" | .manySigs => "manysigs" | .msig e => "msig-" ++ showMsigErr e | .pq e => "pq-" ++ showPqErr e
  | .lsig e => "lsig-" ++ showLsigErr e | .wellFormed => "wf" | .group => "group" | .orphanLsig => "orphan-lsig"
  | .lsigPool => "lsig-pool" | .lsigArgsPool => "lsig-args-pool"

def showReason : Reason → String
  | .generic => "generic" | .notWellFormed => "notwellformed" | .hasNoSig => "nosig" | .sigNotWellFormed => "signotwellformed"
  | .msigNotWellFormed => "msignotwellformed" | .logicSigFailed => "logicsigfailed"

def showRes : Res → String
  | .ok => "ok"
  | .rej r => "rej " ++ showReason r.reason ++ " " ++ toString r.gi ++ " " ++ showDetail r.detail
  | .batchFailed => "batch"
  | .panicked => "panic"

/-! ### verify layer: one group per line -/

/-- header and members of a group line (after the leading `g` / `c add` / `c via`) -/
def parseGroup (toks : List String) : Option (String × Params × Option Int × List (STxn symT)) :=
  match sections toks with
  | hdr :: rest =>
    match kv hdr "proto", kv hdr "P", kv hdr "pre", kv hdr "n" with
    | some proto, some p, some pre, some n =>
      match parseParams p, n.toNat? with
      | some P, some n =>
        let pre : Option Int := if pre == "ok" then none else some (pre.toInt?.getD (-1))
        -- the last section is raw=…
        let body := rest.take (rest.length - 1)
        if body.length ≠ n then none else
        (parseAll parseStxn body).map fun grp => (proto, P, pre, grp)
      | _, _ => none
    | _, _, _, _ => none
  | [] => none

def handleGroup (toks : List String) : String :=
  match parseGroup toks with
  | some (_, P, pre, grp) => showRes (verifyGroup (symEnv pre) P grp)
  | none => "bad-op"

/-! ### the verified-transaction cache: `c reset` / `c add …` / `c via …` -/

abbrev Cache := List (CacheEntry symT String)     -- context = protocol name (the special addresses are fixed in the harness)

def subsEq : List (SubSig symT) → List (SubSig symT) → Bool
  | [], [] => true
  | a :: x, b :: y => a.key == b.key && a.sig == b.sig && subsEq x y
  | _, _ => false

/-- MultisigSig.Equal: version, threshold, length and every subsig (a nil and an empty slice are equal to it) -/
def msigEq (a b : MSig symT) : Bool := a.version == b.version && a.threshold == b.threshold && subsEq a.subs b.subs

def pqEq (a b : PQSig symT) : Bool := a.scheme == b.scheme && a.salt == b.salt && a.pk == b.pk && a.sig == b.sig

/-- LogicSig.Equal: the four delegation fields, the program and the arguments -/
def lsigEq (a b : LSig symT) : Bool :=
  a.sig == b.sig && msigEq a.msig b.msig && msigEq a.lmsig b.lmsig && pqEq a.pqsig b.pqsig &&
  a.logic.id == b.logic.id && a.logic.args == b.logic.args && a.numArgs == b.numArgs

def symQ : FieldEq symT := ⟨fun a b => a.id == b.id, fun a b => a == b, msigEq, lsigEq, pqEq, fun a b => a == b⟩

def showVia : ViaRes → String
  | .hit => "hit"
  | .miss r => "miss " ++ showRes r
  | .panicked => "panic"

def cacheStep (fields : List Field) (c : Cache) (toks : List String) : Cache × String :=
  match toks with
  | ["reset"] => ([], "ok")
  | "add" :: rest =>
    match parseGroup rest with
    | some (proto, P, pre, grp) =>
      let (r, c') := verifyAdd (symEnv pre) P c proto grp
      (c', "add " ++ showRes r)
    | none => (c, "bad-op")
  | "via" :: rest =>
    match parseGroup rest with
    | some (proto, P, pre, grp) =>
      let (r, c') := verifyVia (symEnv pre) P symQ fields (fun a b => a == b) c proto grp
      (c', showVia r ++ " ; scratch " ++ showRes (verifyGroup (symEnv pre) P grp))
    | none => (c, "bad-op")
  | _ => (c, "bad-op")

/-! ### evaluator layer: accounts with an AuthAddr, groups of (sender, AuthAddr field, RekeyTo) -/

abbrev Accts := List (String × String)       -- sender ↦ its AuthAddr ("0" = not rekeyed)

def acctAuth (a : Accts) (s : String) : String :=
  match a.find? (·.1 == s) with
  | some p => p.2
  | none => "0"

def setAuth (a : Accts) (s v : String) : Accts := (s, v) :: a.filter (·.1 != s)

/-- `snd:auth:rekeyTo` -/
def evalTxn (t : String) : Option (STxn symT) :=
  match t.splitOn ":" with
  | [snd, auth, rk] => some ⟨"-", ⟨0, 0, none⟩, ⟨noProg, "-", ⟨0, 0, none⟩, ⟨0, 0, none⟩, ⟨0, 0, "e", "e"⟩, 0, 0⟩, ⟨0, 0, "e", "e"⟩,
                             ⟨"", true, "pay", true, snd, rk⟩, auth⟩
  | _ => none

/-- a group is applied member by member on a copy of the state; the first failing member rejects the whole group -/
def evalGroup (E : Env symT) : Accts → Nat → List (STxn symT) → Except Nat Accts
  | a, _, [] => .ok a
  | a, i, s :: rest =>
    if evalAuthCheck E (acctAuth a s.txn.snd) s then
      evalGroup E (setAuth a s.txn.snd (rekey E (acctAuth a s.txn.snd) s.txn)) (i + 1) rest
    else .error i

def evalStep (a : Accts) (line : String) : Accts × String :=
  match fields line with
  | ["reset"] => ([], "ok")
  | ["block"] => (a, "ok")
  | "grp" :: txs =>
    match parseAll evalTxn txs with
    | some grp =>
      match evalGroup (symEnv none) a 0 grp with
      | .ok a' => (a', "ok " ++ " ".intercalate (grp.map fun s => acctAuth a' s.txn.snd))
      | .error i => (a, "rej auth " ++ toString i)
    | none => (a, "bad-op")
  | _ => (a, "bad-op")

structure State where
  accts : Accts := []
  cache : Cache := []

def step (fieldsCompared : List Field) (st : State) (line : String) : State × String :=
  match fields line with
  | "g" :: rest => (st, handleGroup rest)
  | "c" :: rest => let (c, out) := cacheStep fieldsCompared st.cache rest; ({ st with cache := c }, out)
  | _ => let (a, out) := evalStep st.accts line; ({ st with accts := a }, out)

end AlgoVerif.Driver.C28
