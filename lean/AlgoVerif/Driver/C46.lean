import AlgoVerif.Base.Drv
import AlgoVerif.Model.Wallet
/-!
Line-protocol handler for the kmd wallet model (property C46).  Grammar and result format are documented in
harness/daemon/kmd/wallet/driver/zz_verif_c46_test.go; every line is a self-contained case.
Addresses are the symbols of the protocol: `d k` = derive k, `x j` = an unrelated (imported) key.
-/
namespace AlgoVerif.Driver.C46
open AlgoVerif.Drv AlgoVerif.Model.Wallet

inductive CAddr where
  | d (k : Nat)
  | x (j : Nat)
deriving DecidableEq

def CAddr.show : CAddr → String
  | .d k => s!"d{k}"
  | .x j => s!"x{j}"

/-- the model's `derive`: injective by construction -/
def derive (k : Nat) : CAddr := .d k

def CAddr.le : CAddr → CAddr → Bool
  | .d a, .d b => a ≤ b
  | .d _, .x _ => true
  | .x _, .d _ => false
  | .x a, .x b => a ≤ b

def insertSorted (a : CAddr) : List CAddr → List CAddr
  | [] => [a]
  | b :: l => if a.le b then a :: b :: l else b :: insertSorted a l

def sortAddrs (l : List CAddr) : List CAddr := l.foldr insertSorted []

def parseAddr (s : String) : Option CAddr :=
  match s.toList with
  | 'd' :: r => (String.ofList r).toNat?.map CAddr.d
  | 'x' :: r => (String.ofList r).toNat?.map CAddr.x
  | _ => none

def showErr : Err → String
  | .decrypt => "E:decrypt"
  | .notFound => "E:notfound"
  | .keyExists => "E:exists"
  | .deriveKey => "E:derivekey"
  | .sameName => "E:samename"
  | .tooMany => "E:toomany"
  | .noMnemonic => "E:nomnemonic"

def showRes : Res CAddr → String
  | .ok => "ok"
  | .addr a => a.show
  | .sk _ => "sk"
  | .mdk (some _) => "mdk-same"
  | .mdk none => "mdk-zero"
  | .keys _ => "ok"
  | .err e => showErr e

def snapshot (w : Wallet CAddr) : String :=
  let ks := sortAddrs (addrs w.keys)
  let body := if ks.isEmpty then "-" else ",".intercalate (ks.map CAddr.show)
  s!"{w.name}/{body}"

def parseOp (t : String) : Option (Op CAddr) :=
  match t.splitOn ":" with
  | ["fetch"] => some .fetch
  | ["init", p] => p.toNat?.map .init
  | ["gen"] => some .gen
  | ["genmn"] => some .genMn
  | ["imp", a] => (parseAddr a).map .imp
  | ["del", a, p] => match parseAddr a, p.toNat? with
      | some a, some p => some (.del a p) | _, _ => none
  | ["exp", a, p] => match parseAddr a, p.toNat? with
      | some a, some p => some (.exp a p) | _, _ => none
  | ["mdk", p] => p.toNat?.map .mdk
  | ["ren", n, p] => match n.toNat?, p.toNat? with
      | some n, some p => some (.ren n p) | _, _ => none
  | ["chk", p] => p.toNat?.map .chk
  | ["list"] => some .list
  | _ => none

/-- the bystander wallet "w9" of every harness directory -/
def bystanders : List Name := [9]

/-- one token on the current wallet (none = creation failed / nothing to run on) -/
def tokStep (cur : Option (Wallet CAddr)) (t : String) : Option (Wallet CAddr) × String :=
  match cur, t.splitOn ":" with
  | _, ["new", p, n, m] =>
    match p.toNat?, n.toNat?, m.toNat? with
    | some p, some n, some m => let w : Wallet CAddr := create m p n bystanders; (some w, s!"ok/{snapshot w}")
    | _, _, _ => (none, "bad-op/?/?")
  | none, _ => (none, "-")
  | some w, ["restore", p, p2, n2] =>
    match p.toNat?, p2.toNat?, n2.toNat? with
    | some p, some p2, some n2 =>
      match (exportMDK w p).2 with
      | .mdk (some m) => let w2 : Wallet CAddr := create m p2 n2 bystanders; (some w2, s!"ok/{snapshot w2}")
      | r => (some w, s!"{showRes r}/{snapshot w}")
    | _, _, _ => (some w, s!"bad-op/{snapshot w}")
  | some w, _ =>
    match parseOp t with
    | some op => let (w', r) := step derive w op; (some w', s!"{showRes r}/{snapshot w'}")
    | none => (some w, s!"bad-op/{snapshot w}")

/-- GenerateKey n times on the model; the addresses returned, in order (stops at the first error) -/
def genN (w : Wallet CAddr) : Nat → Wallet CAddr × List CAddr
  | 0 => (w, [])
  | n + 1 =>
    match step derive w .gen with
    | (w', .addr a) => let (w'', l) := genN w' n; (w'', a :: l)
    | (w', _) => (w', [])

/-- first position (1-based) where the list is not d1, d2, … -/
def firstBad (l : List CAddr) (pos : Nat := 1) : Option (Nat × CAddr) :=
  match l with
  | [] => none
  | a :: r => if a = .d pos then firstBad r (pos + 1) else some (pos, a)

def firstDiff (a b : List CAddr) (pos : Nat := 1) : Option Nat :=
  match a, b with
  | [], [] => none
  | x :: r, y :: t => if x = y then firstDiff r t (pos + 1) else some pos
  | _, _ => some pos

/-- `conc M K N` on the model: the K wallets do not share anything, so a concurrent run is K independent runs.
    Wallet i: create (MDK M+i), Init, N × GenerateKey; then restore from the exported MDK and N × GenerateKey. -/
def concWallet (m n : Nat) : String :=
  let w0 : Wallet CAddr := create m 1 1 []
  let (w1, _) := step derive w0 (.init 1)
  let (w2, gens) := genN w1 n
  let g := match firstBad gens with
    | none => s!"seq:{gens.length}"
    | some (p, a) => s!"bad@{p}:{a.show}"
  match (exportMDK w2 1).2 with
  | .mdk (some mk) =>
    let r0 : Wallet CAddr := create mk 1 2 []
    let (r1, _) := step derive r0 (.init 1)
    let (_, regen) := genN r1 gens.length
    match firstDiff gens regen with
    | none => s!"{g}/same"
    | some p => s!"{g}/differs@{p}"
  | r => s!"{g}/{showRes r}"

def handle (line : String) : String :=
  match fields line with
  | "probe" :: g :: r :: pairs =>
    -- the model's derivation is a pure function of (MDK, index): nothing a concurrent caller does can change it
    if g.toNat?.isSome && r.toNat?.isSome && !pairs.isEmpty &&
        pairs.all (fun t => match t.splitOn ":" with
          | [m, i] => m.toNat?.isSome && i.toNat?.isSome
          | _ => false) && g.toNat?.getD 0 ≥ 1
    then "pure" else "bad-op"
  | ["conc", m, k, n] =>
    match m.toNat?, k.toNat?, n.toNat? with
    | some m, some k, some n =>
      if k < 1 || k > 64 || n > 100000 then "bad-op"
      else " ".intercalate ((List.range k).map (fun i => concWallet (m + i) n))
    | _, _, _ => "bad-op"
  | "case" :: toks =>
    match toks with
    | first :: _ =>
      if first.startsWith "new:" && (first.splitOn ":").length == 4 then
        let (_, outs) := toks.foldl (fun (acc : Option (Wallet CAddr) × List String) t =>
          let (c, o) := tokStep acc.1 t; (c, o :: acc.2)) (none, [])
        " ".intercalate outs.reverse
      else "bad-case"
    | [] => "bad-case"
  | _ => "bad-case"

end AlgoVerif.Driver.C46
