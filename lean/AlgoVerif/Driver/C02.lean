import AlgoVerif.Base.Drv
import AlgoVerif.Model.AgreementSvc
/-!
# exe `c02` — acceptor of the C02 hook trace (attest → persist → checkpoint → release)

One line per hook event of a real NetDrive run (harness/agreement/zz_verif_c02_test.go); one answer per line.  Per node the
acceptor runs `Model.AgreementSvc.step tracePlayer true` — the proved state machine, instantiated with the *trace player*
(the event carries what the real `handle` returned) — and additionally compares what the real code reports with the model
state.  `ok` = the model took the corresponding step and the observation agrees; `reject <rule>` otherwise (the acceptor keeps
going); `skip` = not an event of the model; `bad-line`.

```
# schedule <id>                                    new run (all nodes reset)                              skip
handle <n> <R> <P> <S> <att,…>                     label `handle ((R,P,S), atts)`
      rules: handle-pending (attests of the previous handle / of the restore not yet executed), attest-once (an attest of
      the node's logical run has the same (r,p,s) and another value), epoch-round (attest for a round below the epoch floor)
point <n> <name> <id>                              a crash point only                                     skip
enq <n> <id> <att>                                 label `doAttest id`       rule enq-not-pending (att ≠ first pending attest)
persisted <n> <id> ok|err <R> <P> <S> <att,…|->    label `persisted ok`
      rules: persist-nothing-queued, persist-order (not the oldest queued request), persisted-image-mismatch (the bytes
      written do not decode to the state and action list stashed by the handle that produced the attest)
ckpt <n> <id> ok|err                               label `checkpoint id`     rules: ckpt-before-persist, ckpt-flag
waitend <n> <id>                                   the task passed its wait  rule wait-passed-before-checkpoint  (unknown id: skip)
out <n> <id> <att>                                 label `release id`        rules: out-without-attest, out-value-mismatch,
                                                   release-before-checkpoint          (step 0 = proposal vote: skip)
crash <n>                                          label `crash`
restart <n> restored|fresh <R> <P> <S> <att,…|->   observation after `crash`
      rules: restart-state-mismatch (restored player / pending attests ≠ π), restart-lost-state (fresh start although π holds
      a state of a round ≥ R), epoch-overlap (stale-round fresh start at R while a vote for a round ≥ R was released)
      a fresh start at round R > π's round opens a new epoch: the node's machine is reset, floor := R
end                                                summary events=<k> rejects=<k> released=<k>
```
`att` = `r/p/s/val`; values are interned strings.
-/
namespace AlgoVerif.Driver.C02
open AlgoVerif.Drv AlgoVerif.Model.AgreementSvc

abbrev Ev := Status × List Attest
abbrev MSt := State Status Ev

structure NodeSt where
  st : MSt := init tracePlayer
  floor : Nat := 0
  maxOut : Nat := 0
  anyOut : Bool := false

structure St where
  nodes : List (Nat × NodeSt) := []
  toks : List String := []
  events : Nat := 0
  rejects : Nat := 0
  released : Nat := 0

def getNode (st : St) (n : Nat) : NodeSt := (st.nodes.lookup n).getD {}

def setNode (st : St) (n : Nat) (ns : NodeSt) : St :=
  { st with nodes := (n, ns) :: st.nodes.filter (fun kv => kv.1 != n) }

def intern (st : St) (tok : String) : St × Nat :=
  match st.toks.findIdx? (· == tok) with
  | some i => (st, i)
  | none => ({ st with toks := st.toks ++ [tok] }, st.toks.length)

def parseAtt (st : St) (s : String) : Option (St × Attest) :=
  match s.splitOn "/" with
  | [r, p, sp, v] =>
    match r.toNat?, p.toNat?, sp.toNat? with
    | some r, some p, some sp => let (st', vi) := intern st v; some (st', ⟨r, p, sp, vi⟩)
    | _, _, _ => none
  | _ => none

def parseAtts (st : St) (s : String) : Option (St × List Attest) :=
  if s == "-" then some (st, []) else
  (s.splitOn ",").foldl (fun acc tok => match acc with
    | none => none
    | some (st', l) => match parseAtt st' tok with
      | none => none
      | some (st'', a) => some (st'', l ++ [a])) (some (st, []))

def sameKey (a b : Attest) : Bool := a.r == b.r && a.p == b.p && a.s == b.s

/-- the first new attest that contradicts an attest of the logical run (or an earlier new one) -/
def onceViolation (old new : List Attest) : Bool :=
  let rec go (seen : List Attest) : List Attest → Bool
    | [] => false
    | a :: rest => seen.any (fun b => sameKey a b && a.v != b.v) || go (a :: seen) rest
  go old new

def finish (st : St) (n : Nat) (ns : NodeSt) (verdict : Option String) : St × String :=
  let st1 := setNode st n ns
  match verdict with
  | none => ({ st1 with events := st1.events + 1 }, "ok")
  | some r => ({ st1 with events := st1.events + 1, rejects := st1.rejects + 1 }, s!"reject {r}")

/-- take the model step if it is enabled -/
def stepOr (ns : NodeSt) (l : Label Ev) : NodeSt × Bool :=
  match step tracePlayer true ns.st l with
  | some s' => ({ ns with st := s' }, true)
  | none => (ns, false)

def firstErr (l : List (Bool × String)) : Option String := (l.find? (·.1)).map (·.2)

def handle (st : St) (line : String) : St × String :=
  match fields line with
  | [] => (st, "skip")
  | ["end"] => ({}, s!"summary events={st.events} rejects={st.rejects} released={st.released}")
  | ["handle", n, r, p, s, atts] =>
    match parseAtts st atts with
    | none => (st, "bad-line")
    | some (st, as) =>
      let n := nat! n
      let ns := getNode st n
      let once := onceViolation (allAtt tracePlayer ns.st.log) as
      let low := as.any (fun a => a.r < ns.floor)
      let (ns', ok) := stepOr ns (.handle ((nat! r, nat! p, nat! s), as))
      finish st n ns' (firstErr [(!ok, "handle-pending"), (once, "attest-once"), (low, "epoch-round")])
  | ["point", _, _, _] => (st, "skip")
  | ["enq", n, id, att] =>
    match parseAtt st att with
    | none => (st, "bad-line")
    | some (st, a) =>
      let n := nat! n
      let ns := getNode st n
      let bad := ns.st.pend.head? != some a
      let (ns', ok) := stepOr ns (.doAttest (nat! id))
      finish st n ns' (firstErr [(!ok || bad, "enq-not-pending")])
  | ["persisted", n, id, okS, r, p, s, atts] =>
    match parseAtts st atts with
    | none => (st, "bad-line")
    | some (st, as) =>
      let n := nat! n
      let ns := getNode st n
      let ok := okS == "ok"
      let (order, img) := match ns.st.units.find? isQueued with
        | none => (false, false)
        | some u => (u.id != nat! id, !(u.img.st == (nat! r, nat! p, nat! s) && u.img.acts == as))
      let (ns', took) := stepOr ns (.persisted ok)
      finish st n ns' (firstErr [(!took, "persist-nothing-queued"), (order, "persist-order"), (img, "persisted-image-mismatch")])
  | ["ckpt", n, id, okS] =>
    let n := nat! n
    let ns := getNode st n
    let flag := match ns.st.units.find? (isPersisted (nat! id)) with
      | some u => u.ph != .persisted (okS == "ok")
      | none => false
    let (ns', took) := stepOr ns (.checkpoint (nat! id))
    finish st n ns' (firstErr [(!took, "ckpt-before-persist"), (flag, "ckpt-flag")])
  | ["waitend", n, id] =>
    let n := nat! n
    let ns := getNode st n
    match ns.st.units.find? (fun u => u.id == nat! id) with
    | none => (st, "skip")
    | some _ =>
      let closed := (ns.st.units.find? (isClosedOk (nat! id))).isSome
      finish st n ns (firstErr [(!closed, "wait-passed-before-checkpoint")])
  | ["out", n, id, att] =>
    match parseAtt st att with
    | none => (st, "bad-line")
    | some (st, a) =>
      if a.s == 0 then (st, "skip") else
      let n := nat! n
      let ns := getNode st n
      let (missing, wrong) := match ns.st.units.find? (fun u => u.id == nat! id) with
        | none => (true, false)
        | some u => (false, u.a != a)
      let (ns', took) := stepOr ns (.release (nat! id))
      let ns'' := { ns' with maxOut := max ns'.maxOut a.r, anyOut := true }
      let (st', v) := finish st n ns'' (firstErr [(missing, "out-without-attest"), (wrong, "out-value-mismatch"),
        (!took, "release-before-checkpoint")])
      ({ st' with released := st'.released + 1 }, v)
  | ["crash", n] =>
    let n := nat! n
    let ns := getNode st n
    let (ns', _) := stepOr ns .crash
    finish st n ns' none
  | ["restart", n, mode, r, p, s, atts] =>
    match parseAtts st atts with
    | none => (st, "bad-line")
    | some (st, as) =>
      let n := nat! n
      let ns := getNode st n
      let R := nat! r
      if mode == "restored" then
        let bad := ns.st.pi.isNone || !(ns.st.sg == (R, nat! p, nat! s) && ns.st.pend == as)
        finish st n ns (firstErr [(bad, "restart-state-mismatch")])
      else
        match ns.st.pi with
        | none => finish st n ns none
        | some im =>
          let fresh : NodeSt := { st := init tracePlayer, floor := R, maxOut := ns.maxOut, anyOut := ns.anyOut }
          if im.st.1 < R then
            finish st n fresh (firstErr [(ns.anyOut && ns.maxOut ≥ R, "epoch-overlap")])
          else finish st n fresh (some "restart-lost-state")
  | f :: rest =>
    if f.startsWith "#" then
      if rest.head? == some "schedule" then ({}, "skip") else (st, "skip")
    else (st, "bad-line")

end AlgoVerif.Driver.C02
