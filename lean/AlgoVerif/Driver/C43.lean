import AlgoVerif.Base.Drv
import AlgoVerif.Model.Net
/-! Line-protocol driver for Model.Net (property C43). Same op grammar as harness/network/zz_verif_c43_test.go. -/
namespace AlgoVerif.Driver.C43
open AlgoVerif.Drv Model.Net

/-- digests of the driver: (0, id, 0) for `fcheck` ids, (1, length, fingerprint) for hashed messages -/
abbrev Dg := Nat × Nat × Nat

/-- stands for crypto.Hash in the driver: length + polynomial fingerprint (collisions are as improbable here as
    SHA-512/256 collisions in the implementation; the theorems take an injective `H` as a hypothesis) -/
def fingerprint (l : List Nat) : Dg :=
  -- two 31-bit polynomial hashes (all intermediate products stay below 2^63: no bignum arithmetic on 5 MB messages)
  let h := l.foldl (fun (acc : Nat × Nat) b =>
    ((acc.1 * 1000003 + b + 1) % 2147483647, (acc.2 * 999983 + b + 7) % 2147483629)) (7, 11)
  (1, l.length, h.1 * 4294967296 + h.2)

structure St where
  s : Option (Slurper Nat) := none
  maxAlloc : Nat := 0
  fresh : Bool := true
  f : Option (Filter Dg) := none
  peers : Array (PeerState Nat) := #[]
  rlf : Option (Filter Dg) := none
  /-- connection-level read limit of a REAL websocket connection (conn.SetReadLimit(MaxMessageLength)): it bounds the whole
      frame payload = tag ‖ message; 0 = scripted connection (SetReadLimit is a no-op there) -/
  wsLimit : Nat := 0

def bodyAux (seed : Nat) : Nat → List Nat → List Nat
  | 0, acc => acc
  | i + 1, acc => bodyAux seed i ((((seed + i) * 40503 / 128) % 256) :: acc)

/-- byte i of message (len, seed) = ((seed + i) * 40503 >> 7) & 0xff, same as the harness (built back to front, one list) -/
def body (n seed : Nat) : List Nat := bodyAux seed n []

def parseStep (t : String) : RStep :=
  let n := nat! (t.drop 1).toString
  match t.front with
  | 'e' => RStep.chunkEof n
  | 'f' => RStep.fail n
  | _ => RStep.chunk n

def parseScript (s : String) : List RStep :=
  if s == "-" || s == "" then [] else (s.splitOn ",").map parseStep

def hexVal (c : Char) : Nat :=
  if c.isDigit then c.toNat - '0'.toNat
  else if 'a' ≤ c ∧ c ≤ 'f' then c.toNat - 'a'.toNat + 10
  else if 'A' ≤ c ∧ c ≤ 'F' then c.toNat - 'A'.toNat + 10
  else 0

def hexBytesAux : List Char → List Nat
  | a :: b :: rest => (hexVal a * 16 + hexVal b) :: hexBytesAux rest
  | _ => []

/-- hex string with optional leading 'x' -/
def hexBytes (s : String) : List Nat :=
  let cs := s.toList
  hexBytesAux (match cs with | 'x' :: t => t | _ => cs)

def hexOf (l : List Nat) : String :=
  let dig (n : Nat) : Char := if n < 10 then Char.ofNat (48 + n) else Char.ofNat (87 + n)
  String.ofList (l.flatMap (fun b => [dig (b / 16), dig (b % 16)]))

def joinNat (sep : String) (l : List Nat) : String := sep.intercalate (l.map toString)

def slurperState (st : St) (s : Slurper Nat) : String :=
  let bufs := s.base :: s.extra.reverse
  s!"size={s.size} read={s.bytesRead} max={s.maxSize} rem={s.remained} alloc={st.maxAlloc} slots={s.slots} last={s.extra.length} caps={joinNat "/" (bufs.map (·.cap))} lens={joinNat "/" (bufs.map (·.data.length))}"

def insertSorted (x : Nat) : List Nat → List Nat
  | [] => [x]
  | y :: t => if x ≤ y then x :: y :: t else y :: insertSorted x t

/-- the observable content of the filter (same canonical form as the harness): which digests are held -/
def filterState (f : Filter Dg) : String :=
  let all := f.buckets.flatten
  let ids := (all.filter (fun d => d.1 == 0)).foldl (fun acc d => insertSorted d.2.1 acc) []
  let others := (all.filter (fun d => d.1 != 0)).map (fun _ => "h")
  s!"n={all.length} held={".".intercalate (ids.map toString ++ others)}"

def resStr : ReadResult → String
  | ReadResult.ok => "ok"
  | ReadResult.tooLarge => "toolarge"
  | ReadResult.ioErr => "ioerr"
  | ReadResult.panic => "PANIC"
  | ReadResult.outOfFuel => "OUT-OF-FUEL"

def bool! (s : String) : Bool := s == "true"

def step (st : St) (line : String) : St × String :=
  match fields line with
  | ["consts"] => (st, s!"allocationStep={allocationStep}")
  | ["smake", b, m] =>
      let s : Slurper Nat := Slurper.make (nat! b) (nat! m)
      let st' := { st with s := some s, maxAlloc := nat! m, fresh := true }
      (st', slurperState st' s)
  | ["sreset", n] =>
      match st.s with
      | none => (st, "no-slurper")
      | some s =>
        let s' := s.reset (nat! n)
        ({ st with s := some s', fresh := true }, slurperState st s')
  | ["sread", len, seed, script] =>
      match st.s with
      | none => (st, "no-slurper")
      | some s =>
        let stream := body (nat! len) (nat! seed)
        let (res, s', r') := s.read { stream := stream, script := parseScript script }
        let got := s'.bytes
        let pfx := got.length == s'.size && got.isPrefixOf stream
        ({ st with s := some s', fresh := false },
          s!"{resStr res} fresh={showBool st.fresh} pfx={showBool pfx} left={r'.stream.length} {slurperState st s'}")
  | ["fmake", n, m] =>
      match (Filter.make (nat! n) (nat! m) : Option (Filter Dg)) with
      | none => ({ st with f := none }, "PANIC")
      | some f => ({ st with f := some f }, filterState f)
  | ["fcheck", id, add, promote] =>
      match st.f with
      | none => (st, "no-filter")
      | some f =>
        let (f', has) := f.checkDigest (0, nat! id, 0) (bool! add) (bool! promote)
        ({ st with f := some f' }, s!"{showBool has} {filterState f'}")
  | ["fmsg", tag, msg, add, promote] =>
      match st.f with
      | none => (st, "no-filter")
      | some f =>
        let (f', has) := f.checkIncomingMessage fingerprint [] (hexBytes tag) (hexBytes msg) (bool! add) (bool! promote)
        ({ st with f := some f' }, s!"{showBool has} {filterState f'}")
  | ["rlnew", np, nb, m] =>
      let flt : Option (Filter Dg) := if nat! nb = 0 then none else Filter.make (nat! nb) (nat! m)
      let peers := (List.range (nat! np)).map (fun _ => ({ slurper := wsSlurper, alive := true } : PeerState Nat))
      ({ st with peers := peers.toArray, rlf := flt, wsLimit := 0 }, "ok")
  | ["wsnew", np, nb, m, _wbuf] =>
      -- peers behind a real websocket connection: the model is the same (the outcome does not depend on the framing)
      let flt : Option (Filter Dg) := if nat! nb = 0 then none else Filter.make (nat! nb) (nat! m)
      let peers := (List.range (nat! np)).map (fun _ => ({ slurper := wsSlurper, alive := true } : PeerState Nat))
      ({ st with peers := peers.toArray, rlf := flt, wsLimit := Gen.Tags.maxMessageLength }, "ok")
  | ["rlmsg", pi, tag, len, seed, script] =>
      match st.peers[nat! pi]? with
      | none => (st, "no-peer")
      | some p =>
        let stream := hexBytes tag ++ body (nat! len) (nat! seed)
        -- the websocket layer refuses a message (tag included) longer than its read limit: the read fails, the loop exits
        if st.wsLimit > 0 && stream.length > st.wsLimit then
          ({ st with peers := st.peers.set! (nat! pi) { p with alive := false } }, "closed")
        else
        let (out, p', flt') := readLoopMsg wsTable wsDispatch wsDedupSafe wsClosesEarly fingerprint []
          p st.rlf { stream := stream, script := parseScript script }
        let st' := { st with peers := st.peers.set! (nat! pi) p', rlf := flt' }
        match out with
        | Outcome.closed => (st', "closed")
        | Outcome.dropped => (st', "dropped")
        | Outcome.delivered t d =>
          let eq := d == body (nat! len) (nat! seed)
          -- the read loop re-tags nothing here (VP is never delivered in this configuration)
          (st', s!"delivered tag={hexOf t} len={d.length} eq={showBool eq} lim={limitOf wsTable t}")
  | _ => (st, "bad-op")

end AlgoVerif.Driver.C43
