import AlgoVerif.Base.Drv
import AlgoVerif.Spec.AVMArith
import AlgoVerif.Model.AVMArith
/-!
Line protocol of C32:   `op <opname> <operand>…`   operands deepest-first; a decimal number is a uint64
cell, `0x<hex>` a byte string.  Answer: `ok <cell>…` (deepest first, same syntax) or `err <class>`.
`handleSpec` evaluates `Spec.AVMArith` (the reference the theorems are stated against), `handleModel`
the code-shaped `Model.AVMArith` (the other side of every `op_exact_*` theorem).
-/
namespace AlgoVerif.Driver.C32
open AlgoVerif.Drv Spec.AVMArith

def hexDigit (c : Char) : Option Nat :=
  if '0' ≤ c ∧ c ≤ '9' then some (c.toNat - '0'.toNat)
  else if 'a' ≤ c ∧ c ≤ 'f' then some (c.toNat - 'a'.toNat + 10)
  else if 'A' ≤ c ∧ c ≤ 'F' then some (c.toNat - 'A'.toNat + 10)
  else none

def parseHex : List Char → Option Bytes
  | [] => some []
  | [_] => none
  | a :: b :: rest => do
    let x ← hexDigit a
    let y ← hexDigit b
    let r ← parseHex rest
    pure (UInt8.ofNat (x * 16 + y) :: r)

def parseVal (s : String) : Option Val :=
  match s.toList with
  | '0' :: 'x' :: rest => (parseHex rest).map Val.bytes
  | _ => s.toNat?.map Val.int

def hexChar (n : Nat) : Char := if n < 10 then Char.ofNat (n + 48) else Char.ofNat (n + 87)
def showBytes (b : Bytes) : String :=
  "0x" ++ String.ofList (b.foldr (fun x acc => hexChar (x.toNat / 16) :: hexChar (x.toNat % 16) :: acc) [])

def showVal : Val → String
  | .int n => toString n
  | .bytes b => showBytes b

def showErr : Err → String
  | .overflow => "overflow" | .underflow => "underflow" | .div0 => "div0" | .range => "range"
  | .undefined => "undefined" | .toolong => "toolong" | .type => "type" | .panic => "PANIC"

def showRes : Res → String
  | .ok vs => " ".intercalate ("ok" :: vs.map showVal)
  | .error e => "err " ++ showErr e

open Model.AVMArith in
def runModel (op : String) (args : List Val) : Option Res :=
  match op, args with
  | "+", [.int a, .int b] => some (opPlus a b)
  | "-", [.int a, .int b] => some (opMinus a b)
  | "*", [.int a, .int b] => some (opMul a b)
  | "/", [.int a, .int b] => some (opDiv a b)
  | "%", [.int a, .int b] => some (opModulo a b)
  | "<", [.int a, .int b] => some (opLt a b)
  | ">", [.int a, .int b] => some (opGt a b)
  | "<=", [.int a, .int b] => some (opLe a b)
  | ">=", [.int a, .int b] => some (opGe a b)
  | "&&", [.int a, .int b] => some (opAnd a b)
  | "||", [.int a, .int b] => some (opOr a b)
  | "!", [.int a] => some (opNot a)
  | "==", [a, b] => some (opEq a b)
  | "!=", [a, b] => some (opNeq a b)
  | "|", [.int a, .int b] => some (opBitOr a b)
  | "&", [.int a, .int b] => some (opBitAnd a b)
  | "^", [.int a, .int b] => some (opBitXor a b)
  | "~", [.int a] => some (opBitNot a)
  | "shl", [.int a, .int b] => some (opShiftLeft a b)
  | "shr", [.int a, .int b] => some (opShiftRight a b)
  | "sqrt", [.int a] => some (opSqrt a)
  | "bitlen", [a] => some (opBitLen a)
  | "exp", [.int a, .int b] => some (opExp a b)
  | "addw", [.int a, .int b] => some (opAddw a b)
  | "mulw", [.int a, .int b] => some (opMulw a b)
  | "divw", [.int a, .int b, .int c] => some (opDivw a b c)
  | "divmodw", [.int a, .int b, .int c, .int d] => some (opDivModw a b c d)
  | "expw", [.int a, .int b] => some (opExpw a b)
  | "itob", [.int a] => some (opItob a)
  | "btoi", [.bytes a] => some (opBtoi a)
  | "b+", [.bytes a, .bytes b] => some (opBytesPlus a b)
  | "b-", [.bytes a, .bytes b] => some (opBytesMinus a b)
  | "b*", [.bytes a, .bytes b] => some (opBytesMul a b)
  | "b/", [.bytes a, .bytes b] => some (opBytesDiv a b)
  | "b%", [.bytes a, .bytes b] => some (opBytesModulo a b)
  | "b<", [.bytes a, .bytes b] => some (opBytesLt a b)
  | "b>", [.bytes a, .bytes b] => some (opBytesGt a b)
  | "b<=", [.bytes a, .bytes b] => some (opBytesLe a b)
  | "b>=", [.bytes a, .bytes b] => some (opBytesGe a b)
  | "b==", [.bytes a, .bytes b] => some (opBytesEq a b)
  | "b!=", [.bytes a, .bytes b] => some (opBytesNeq a b)
  | "b|", [.bytes a, .bytes b] => some (opBytesBitOr a b)
  | "b&", [.bytes a, .bytes b] => some (opBytesBitAnd a b)
  | "b^", [.bytes a, .bytes b] => some (opBytesBitXor a b)
  | "b~", [.bytes a] => some (opBytesBitNot a)
  | "bsqrt", [.bytes a] => some (opBytesSqrt a)
  | _, _ => none

def parseArgs (ws : List String) : Option (List Val) := ws.mapM parseVal

/-- an operand of the wrong kind is rejected by the evaluator's argument type check -/
def handleWith (run : String → List Val → Option Res) (line : String) : String :=
  match fields line with
  | "op" :: name :: ws =>
    match parseArgs ws with
    | none => "bad-operand"
    | some args =>
      match run name args with
      | some r => showRes r
      | none => "err type"
  | _ => "bad-op"

def handleSpec : String → String := handleWith Spec.AVMArith.run
def handleModel : String → String := handleWith runModel

end AlgoVerif.Driver.C32
