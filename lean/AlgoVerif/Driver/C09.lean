import AlgoVerif.Base.Drv
import AlgoVerif.Model.Durable
/-!
Line protocol of property C09 — the acceptor `Model.Durable.step` behind one observed event per line, plus the model's
prediction for a crash image pair.

  reset
  put r h | bbegin lo hi | bmid r | bend ok|err | notify c | fend e | conf r | ack r | lcack r
  tbegin a | tround n | aux | tend ok|err | tdone d | reload d lc ok
  bimg id | timg id                      an image of the block / tracker store is taken now
  open b=<img> t=<img>                   → `B=<B> T=<T> kind=rt|lag|ahead conf=<max round confirmed by the crash instant> state=<n>`

Answer per event line: `ok` or `reject <rule>` (a rejected event does not change the state).
Mapping of observed events to model steps: `put` → put; `bbegin lo hi` → flushBegin (hi-lo+1) (lo must be lastCommitted+1);
`bend ok|err` → flushCommit | flushAbort; `notify c` → notifyCommit none (c must be lastCommitted; whether scheduleCommit
enqueued something is not observable at that moment); `tround n` → notifyCommit (some n) ; commitBegin  (the enqueue is placed
at the latest possible instant; lastCommitted is monotone, so a target accepted here was ≤ lastCommitted… only from here on:
see claims note); `tend ok|err` → commitTxn | commitAbort (a transaction without `tround` is auxiliary: no step);
`tdone d` → commitPost (d must be the model's dbRound; the harness logs it only at its own stops, so an observed in-memory
dbRound — `tbegin a`, `reload d` — equal to the round of a committed-but-unposted transaction also counts as postCommit); `conf r` / `ack r` (Ledger.Wait(r) closed) / `lcack r` (LatestCommitted = (r, _)) → waitCommit r (the model's one
durability acknowledgement); `reload` → crash (only when nothing is in flight).
-/
namespace AlgoVerif.Driver.C09
open AlgoVerif.Drv AlgoVerif.Model.Durable

structure Img where
  id : Nat
  block : Bool
  ver : Nat        -- number of commits of that store before the image (its logical version)
  cnt : Nat        -- number of MODEL transactions in that store at that moment (auxiliary tracker transactions are not in `ttx`)

structure DSt where
  sys : Sys String
  n : Nat                       -- events processed
  commitB : List Nat            -- instants of the block store commits, newest first
  commitT : List Nat
  imgs : List Img
  confs : List (Nat × Nat)      -- (round, instant)
  tOpen : Bool                  -- a tracker transaction is open
  tRound : Bool                 -- … and it has called UpdateAccountsRound

def fresh : DSt := { sys := init String, n := 0, commitB := [], commitT := [], imgs := [], confs := [], tOpen := false, tRound := false }

def kv (toks : List String) (k : String) : Option Nat :=
  toks.findSome? fun t => match t.splitOn "=" with
    | [k', v] => if k' = k then v.toNat? else none
    | _ => none

/-- instants [lo, hi) during which version `v` of a store (commit instants newest first, `now` = current instant) is its content -/
def span (commits : List Nat) (now v : Nat) : Nat × Nat :=
  let cs := commits.reverse
  let lo := if v = 0 then 0 else (cs[v - 1]?).getD now
  let hi := (cs[v]?).getD (now + 1)
  (lo, hi)

def apN : Unit → Nat → String → Nat := fun _ c _ => c + 1
def gN : Unit → Nat := fun _ => 0

def ok (d : DSt) (s : Sys String) : DSt × String := ({ d with sys := s, n := d.n + 1 }, "ok")
def rej (d : DSt) (rule : String) : DSt × String := (d, "reject " ++ rule)

def stepEv (d : DSt) (e : Ev String) (rule : String) : DSt × String :=
  match step d.sys e with
  | some s => ok d s
  | none => rej d rule

/-- the in-memory dbRound is observed (`tbegin a`, `reload d …`): if the model still waits for postCommit of a committed
transaction whose round is the observed one, postCommit has happened (the harness logs `tdone` only at its own stops) -/
def settlePost (s : Sys String) (observed : Nat) : Sys String :=
  match s.phase with
  | .committed n => if n = observed then (step s .commitPost).getD s else s
  | _ => s

def handleEv (d : DSt) : List String → DSt × String
  | ["put", r, h] =>
    match r.toNat? with
    | some r => if r = d.sys.lastCommitted + d.sys.q.length + 1 then stepEv d (.put h) "put" else rej d "put-round"
    | none => rej d "parse"
  | ["bbegin", lo, hi] =>
    match lo.toNat?, hi.toNat? with
    | some lo, some hi =>
      if lo ≠ d.sys.lastCommitted + 1 then rej d "flush-not-at-lastCommitted"
      else if hi < lo then rej d "flush-empty"
      else stepEv d (.flushBegin (hi - lo + 1)) "flush-beyond-queue"
    | _, _ => rej d "parse"
  | ["bmid", r] =>
    match r.toNat?, d.sys.work with
    | some r, some k => if r = d.sys.lastCommitted + k then ok d d.sys else rej d "mid-round"
    | _, _ => rej d "mid-without-flush"
  | ["bend", "ok"] =>
    match stepEv d .flushCommit "commit-without-flush" with
    | (d', "ok") => ({ d' with commitB := d.n :: d.commitB }, "ok")
    | r => r
  | ["bend", "err"] => stepEv d .flushAbort "abort-without-flush"
  | ["notify", c] =>
    match c.toNat? with
    | some c => if c = d.sys.lastCommitted then stepEv d (.notifyCommit none) "notify" else rej d "notify-not-lastCommitted"
    | none => rej d "parse"
  | ["fend", e] => if e = "0" then ok d d.sys else rej d "forget-unmodelled"
  | ["conf", r] =>
    match r.toNat? with
    | some r =>
      match stepEv d (.waitCommit r) "confirmed-beyond-lastCommitted" with
      | (d', "ok") => ({ d' with confs := (r, d.n) :: d.confs }, "ok")
      | x => x
    | none => rej d "parse"
  | ["ack", r] =>        -- the channel of Ledger.Wait(r) is closed: the same acknowledgement as waitCommit
    match r.toNat? with
    | some r =>
      match stepEv d (.waitCommit r) "acknowledged-beyond-lastCommitted" with
      | (d', "ok") => ({ d' with confs := (r, d.n) :: d.confs }, "ok")
      | x => x
    | none => rej d "parse"
  | ["lcack", r] =>      -- LatestCommitted() = (r, _)
    match r.toNat? with
    | some r =>
      match stepEv d (.waitCommit r) "acknowledged-beyond-lastCommitted" with
      | (d', "ok") => ({ d' with confs := (r, d.n) :: d.confs }, "ok")
      | x => x
    | none => rej d "parse"
  | ["tbegin", a] =>
    match a.toNat? with
    | some a =>
      let s := settlePost d.sys a
      if d.tOpen then rej d "nested-tracker-txn"
      else if a ≠ s.dbRound then rej d "dbRound-mismatch"
      else ({ d with sys := s, tOpen := true, tRound := false, n := d.n + 1 }, "ok")
    | none => rej d "parse"
  | ["tround", n] =>
    match n.toNat? with
    | some n =>
      if !d.tOpen then rej d "round-outside-txn"
      else if d.tRound then rej d "round-twice"
      else match step d.sys (.notifyCommit (some n)) with
        | none => rej d "commit-past-lastCommitted"
        | some s1 =>
          match step s1 .commitBegin with
          | none => rej d "commit-while-busy"
          | some s2 =>
            match s2.phase with
            | .prepared _ => ({ d with sys := s2, tRound := true, n := d.n + 1 }, "ok")
            | _ => rej d "commit-not-ahead-of-dbRound"
    | none => rej d "parse"
  | ["aux"] => ok d d.sys
  | ["tend", "ok"] =>
    if !d.tOpen then rej d "end-outside-txn"
    else if d.tRound then
      match step d.sys .commitTxn with
      | some s => ({ d with sys := s, tOpen := false, tRound := false, commitT := d.n :: d.commitT, n := d.n + 1 }, "ok")
      | none => rej d "commit-without-prepare"
    else ({ d with tOpen := false, commitT := d.n :: d.commitT, n := d.n + 1 }, "ok")   -- auxiliary transaction (new image version, same rounds)
  | ["tend", "err"] =>
    if !d.tOpen then rej d "end-outside-txn"
    else if d.tRound then
      match step d.sys .commitAbort with
      | some s => ({ d with sys := s, tOpen := false, tRound := false, n := d.n + 1 }, "ok")
      | none => rej d "abort-without-prepare"
    else ({ d with tOpen := false, n := d.n + 1 }, "ok")
  | ["tdone", x] =>
    match x.toNat? with
    | some x =>
      match d.sys.phase with
      | .committed _ =>
        match step d.sys .commitPost with
        | some s => if s.dbRound = x then ok d s else rej d "post-dbRound-mismatch"
        | none => rej d "post"
      | .idle => if d.sys.dbRound = x then ok d d.sys else rej d "dbRound-changed-without-commit"
      | .prepared _ => rej d "done-while-prepared"
    | none => rej d "parse"
  | ["reload", x, lc, _] =>
    match x.toNat?, lc.toNat? with
    | some x, some lc =>
      -- transactions of the open itself (replay flush) are logged before this line; they were judged as ordinary commits
      let s0 := settlePost d.sys x
      match s0.work, s0.phase, s0.q with
      | none, .idle, [] =>
        match step s0 .crash with
        | some s => if s.dbRound = x ∧ s.lastCommitted = lc then ok d s else rej d "reload-rounds"
        | none => rej d "reload"
      | _, _, _ => rej d "reload-while-busy"
    | _, _ => rej d "parse"
  | ["bimg", i] =>
    match i.toNat? with
    | some i => ({ d with imgs := ⟨i, true, d.commitB.length, d.sys.btx.length⟩ :: d.imgs, n := d.n + 1 }, "ok")
    | none => rej d "parse"
  | ["timg", i] =>
    match i.toNat? with
    | some i => ({ d with imgs := ⟨i, false, d.commitT.length, d.sys.ttx.length⟩ :: d.imgs, n := d.n + 1 }, "ok")
    | none => rej d "parse"
  | _ => rej d "unknown-event"

/-- the model's prediction for a pair of images: the stores cut at the images' transaction counts (an image taken inside an
open transaction has the count before it: torn = not applied) -/
def handleOpen (d : DSt) (toks : List String) : String :=
  match kv toks "b", kv toks "t" with
  | some bi, some ti =>
    match d.imgs.find? (fun im => im.id = bi ∧ im.block), d.imgs.find? (fun im => im.id = ti ∧ !im.block) with
    | some ib, some it =>
      let (blo, bhi) := span d.commitB d.n ib.ver
      let (tlo, thi) := span d.commitT d.n it.ver
      let btx := d.sys.btx.take ib.cnt
      let ttx := d.sys.ttx.take it.cnt
      let o := openLedger apN gN btx ttx
      let kind := if blo < thi ∧ tlo < bhi then "rt" else if thi ≤ blo then "lag" else "ahead"
      let inst := if kind = "rt" then min bhi thi else bhi
      let conf := (d.confs.filter (fun c => c.2 < inst)).foldl (fun m c => max m c.1) 0
      s!"B={o.latest} T={o.trackerRound} kind={kind} conf={conf} state={o.state ()}"
    | _, _ => "reject no-such-image"
  | _, _ => "reject parse"

abbrev DState := DSt

def handle (d : DState) (line : String) : DState × String :=
  match fields line with
  | ["reset"] => (fresh, "ok")
  | "open" :: rest => (d, handleOpen d rest)
  | toks => handleEv d toks

end AlgoVerif.Driver.C09
