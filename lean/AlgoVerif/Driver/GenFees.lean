import AlgoVerif.Base.Drv
import AlgoVerif.Gen.Fees
import AlgoVerif.Props.C24Model
/-! Evaluates the REGENERATED fee / payout / absence / min-balance definitions on the op lines. -/
namespace AlgoVerif.Driver.GenFees
open AlgoVerif.Drv Gen.Fees Gen.Basics

/-- minimum balance of a fee sink holding `na` assets (no apps/boxes): MinBalance·(1+na), saturating at 2^64−1 -/
def sinkMin (mb na : Nat) : Nat := min (mb + mb * na) 18446744073709551615

def handle (line : String) : String :=
  match fields line with
  | ["cgf", paid, usage, minFee] => if CheckGroupFees (nat! paid) (nat! usage) (nat! minFee) then "err" else "ok"
  | ["load", bs, ms] => toString (ComputeLoad (int! bs) (int! ms))
  | ["absent", S, s, ls, r] => showBool (isAbsent (nat! S) (nat! s) (nat! ls) (nat! r))
  | ["payout", pct, fees, bonus, sink, mb] =>
      match Model.C24.proposerPayout (nat! pct) (nat! fees) (nat! bonus) (nat! sink) (nat! mb) with
      | none => "err" | some p => toString p
  | ["payout", pct, fees, bonus, sink, mb, na] =>   -- sink holding `na` assets: its minimum balance is mb·(1+na)
      match Model.C24.proposerPayout (nat! pct) (nat! fees) (nat! bonus) (nat! sink) (sinkMin (nat! mb) (nat! na)) with
      | none => "err" | some p => toString p
  | ["vpay", c, pct, fees, bonus, sink, mb] =>
      if Model.C24.payoutAccepted (nat! c) (nat! pct) (nat! fees) (nat! bonus) (nat! sink) (nat! mb) then "ok" else "err"
  | ["vpay", c, pct, fees, bonus, sink, mb, na] =>
      if Model.C24.payoutAccepted (nat! c) (nat! pct) (nat! fees) (nat! bonus) (nat! sink) (sinkMin (nat! mb) (nat! na)) then "ok" else "err"
  | ["bonus", cur, prev, b1, a1, d1, b2, a2, d2] =>
      match computeBonus (nat! cur) (nat! prev) ⟨nat! b1, nat! a1, nat! d1⟩ ⟨nat! b2, nat! a2, nat! d2⟩ with
      | none => "PANIC" | some x => toString x
  | ["ctax", load, tax] => toString (NextCongestionTax (nat! load) (nat! tax))
  | ["minbal", a, b, c, d, e, f, g, h, i, j, k, l, m, n, o, p] =>
      toString (MinBalance ⟨nat! a, nat! b, nat! c, nat! d, nat! e, nat! f, nat! g, nat! h⟩ (nat! i) ⟨nat! j, nat! k⟩
        (nat! l) (nat! m) (nat! n) (nat! o) (nat! p))
  | _ => "-"
end AlgoVerif.Driver.GenFees
