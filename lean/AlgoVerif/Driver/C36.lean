import AlgoVerif.Base.Drv
import AlgoVerif.Model.OneTimeSig
/-!
Line-protocol handler for the OneTimeSig model (property C36).  Grammar and result format are documented in
harness/crypto/zz_verif_c36_test.go; every line is a self-contained case.
-/
namespace AlgoVerif.Driver.C36
open AlgoVerif.Drv AlgoVerif.Model.OneTimeSig

def parseOp (t : String) : Option Op :=
  match t.splitOn ":" with
  | [b, o, nk] =>
    match b.toNat?, o.toNat?, nk.toNat? with
    | some b, some o, some nk => some ⟨⟨b, o⟩, nk⟩
    | _, _, _ => none
  | _ => none

def parseOps : List String → Option (List Op)
  | [] => some []
  | t :: rest =>
    match parseOp t, parseOps rest with
    | some op, some ops => some (op :: ops)
    | _, _ => none

/-- token for one identifier: what Sign returns and whether Verify accepts it -/
def signToken (s : State) (id : Id) : Char :=
  match sign s id 7 with
  | none => 'z'
  | some sg =>
    if verify s.verifier id 7 sg then
      (match sg.pk with
       | .O _ _ => 'o'
       | .T _ _ => 'b'
       | _ => '?')
    else 'x'

/-- number of retained secrets with authority over the identifier -/
def forgeCount (s : State) (id : Id) : Nat :=
  ((retained s).filter (fun k => authority k id)).length

def digit (n : Nat) : Char := Char.ofNat (48 + min n 9)

def grid (wb0 wb1 wo : Nat) (f : Id → Char) : String :=
  "/".intercalate ((List.range' wb0 (wb1 - wb0 + 1)).map fun b =>
    String.ofList ((List.range (wo + 1)).map fun o => f ⟨b, o⟩))

def pk2Token : Key → String
  | .zero => "z"
  | .B b => toString b
  | _ => "?"


/-! persistence layer: `pcase fv lv dil wr0 wr1 steps…` (grammar in harness/data/account/zz_verif_c36_test.go) -/

def parseSteps (dil : Nat) (hd : 0 < dil) : List String → Option (List NOp)
  | [] => some []
  | t :: rest =>
    match parseSteps dil hd rest with
    | none => none
    | some ops =>
      if t = "R" then some (.restart :: ops)
      else if t.startsWith "a" then
        match (t.drop 1).toNat? with
        | some r => some (.advance (idForRound r dil hd) dil :: ops)
        | none => none
      else none

def roundToken (s : State) (dil : Nat) (hd : 0 < dil) (r : Nat) : Char := signToken s (idForRound r dil hd)

def view (s : State) (dil : Nat) (hd : 0 < dil) (wr0 wr1 : Nat) : String :=
  let win := String.ofList ((List.range' wr0 (wr1 - wr0 + 1)).map (roundToken s dil hd))
  s!"{s.firstBatch} {s.batches.length} {if s.batchesNonNil then 1 else 0} {s.firstOffset} {s.offsets.length} {win}"

def handleP (fv lv dil wr0 wr1 : Nat) (steps : List String) : String :=
  if hd : 0 < dil then
    if lv < fv ∨ lv - fv > 4096 ∨ wr1 < wr0 ∨ wr1 - wr0 > 64 then "bad-op" else
    match parseSteps dil hd steps with
    | none => "bad-op"
    | some h =>
      let s0 := generateForRounds fv lv dil hd
      let nd := nrun ⟨s0, s0⟩ h
      s!"{view nd.mem dil hd wr0 wr1} | {view (reload nd.disk) dil hd wr0 wr1}"
  else "bad-op"

def handle (line : String) : String :=
  match fields line with
  | "pcase" :: fv :: lv :: dil :: wr0 :: wr1 :: steps =>
    match fv.toNat?, lv.toNat?, dil.toNat?, wr0.toNat?, wr1.toNat? with
    | some fv, some lv, some dil, some wr0, some wr1 => handleP fv lv dil wr0 wr1 steps
    | _, _, _, _, _ => "bad-op"
  | "case" :: start :: n :: wb0 :: wb1 :: wo :: adv :: ops =>
    match start.toNat?, n.toNat?, wb0.toNat?, wb1.toNat?, wo.toNat?, parseOps ops with
    | some start, some n, some wb0, some wb1, some wo, some ops =>
      if n > 64 ∨ wb1 < wb0 ∨ wb1 - wb0 > 16 ∨ wo > 16 then "bad-op" else
      let s := run (generate start n) ops
      let win := grid wb0 wb1 wo (signToken s)
      let advs := if adv = "1" then grid wb0 wb1 wo (fun id => digit (forgeCount s id)) else "-"
      s!"{s.firstBatch} {s.batches.length} {if s.batchesNonNil then 1 else 0} {s.firstOffset} {s.offsets.length} {pk2Token s.offsetsPK2} {win} {advs}"
    | _, _, _, _, _, _ => "bad-op"
  | _ => "bad-op"

end AlgoVerif.Driver.C36
