import AlgoVerif.Base.Drv
import AlgoVerif.Model.Upgrade
/-!
Line protocol of property C26 (one self-contained case per line):

  case <name:vr:thr:def:min:max:len[:K=D]>… | <cur> <next> <appr> <vb> <so> <round> | <P:d:a:m>…

`-` is the empty protocol name.  Each step `P:d:a:m` is a block at round `round+1` carrying the vote
(propose `P`, delay `d`, approve `a`) and a header whose claimed UpgradeState is the correct one
perturbed by `m` (`.` faithful, `c=X` CurrentProtocol:=X, `n=X` NextProtocol:=X, `y` approvals+1, `b` voteBefore+1,
`s` switchOn+1, `z` pending proposal dropped, `r` header round+1).  Output per step:
`<applyUpgradeVote result>/<PreCheck result>`.  The chain advances iff applyUpgradeVote accepts the vote.
An optional `K=D` in a version makes `K` (delay `D`) its only approved upgrade; a step whose `P` is `@` carries the vote
built by `ProcessUpgradeParams` (printed as `@P,d,a:` before the step's output, or `@E:…` when it errs).
-/
namespace AlgoVerif.Driver.C26
open AlgoVerif.Drv AlgoVerif.Model.Upgrade

def nm (s : String) : String := if s = "-" then "" else s
def showNm (s : String) : String := if s = "" then "-" else s

def errCode : Err → String
  | .unsupported => "unsupported"
  | .dupProposal => "dup"
  | .tooLong => "toolong"
  | .delayRange => "range"
  | .delayNoPropose => "delaynp"
  | .approveNoProposal => "noprop"
  | .approveLate => "late"

def showState (s : State) : String :=
  s!"{showNm s.cur},{showNm s.next},{s.approvals},{s.voteBefore},{s.switchOn}"

def parseCfg (toks : List String) : List (String × Params) :=
  toks.filterMap fun t =>
    match t.splitOn ":" with
    | n :: vr :: thr :: d :: mn :: mx :: ln :: _ => some (n, ⟨nat! vr, nat! thr, nat! d, nat! mn, nat! mx, int! ln⟩)
    | _ => none

def parseApproved (toks : List String) : List (String × List (String × Nat)) :=
  toks.filterMap fun t =>
    match t.splitOn ":" with
    | [n, _, _, _, _, _, _, kd] =>
      match kd.splitOn "=" with
      | [k, d] => some (n, [(nm k, nat! d)])
      | _ => none
    | _ => none

def lookup (tbl : List (String × Params)) : Config := fun n => tbl.lookup n

def mutate (m : String) (s : State) : State :=
  if m = "y" then { s with approvals := u64 (s.approvals + 1) }
  else if m = "b" then { s with voteBefore := u64 (s.voteBefore + 1) }
  else if m = "s" then { s with switchOn := u64 (s.switchOn + 1) }
  else if m = "z" then clearPending s
  else if m.startsWith "c=" then { s with cur := nm (m.drop 2).toString }
  else if m.startsWith "n=" then { s with next := nm (m.drop 2).toString }
  else s

def showPre : Except PErr Unit → String
  | .ok _ => "ok"
  | .error .proto => "rej:proto"
  | .error .round => "rej:round"
  | .error .branch => "rej:branch"
  | .error (.vote e) => "rej:E:" ++ errCode e
  | .error .state => "rej:state"
  | .error .rest => "rej:rest"

def stepVote (cfg : Config) (s : State) (r : Nat) (v : Vote) (m : String) (pfx : String) (outs : List String) :
    State × Nat × List String :=
    let rr := u64 (r + 1)
    let res := applyUpgradeVote cfg s rr v
    let base := match res with | .ok s' => s' | .error _ => s
    let claimed := mutate m base
    let hr := if m = "r" then u64 (rr + 1) else rr
    let pre := preCheck cfg ⟨hr, v, claimed⟩ ⟨r, default, s⟩ true true
    match res with
    | .ok s' => (s', rr, s!"{pfx}ok:{showState s'}/{showPre pre}" :: outs)
    | .error e => (s, r, s!"{pfx}E:{errCode e}/{showPre pre}" :: outs)

def stepTok (cfg : Config) (approvedOf : String → List (String × Nat)) (acc : State × Nat × List String) (tok : String) :
    State × Nat × List String :=
  let (s, r, outs) := acc
  match tok.splitOn ":" with
  | ["@", _, _, m] =>
    match processUpgradeParams cfg approvedOf (approvedOf s.cur).head? ⟨r, default, s⟩ with
    | .error .unsupported => (s, r, "@E:unsupported" :: outs)
    | .error (.invalid e) => (s, r, s!"@E:invalid:{errCode e}" :: outs)
    | .ok (v, _) => stepVote cfg s r v m s!"@{showNm v.propose},{v.delay},{if v.approve then 1 else 0}:" outs
  | [p, d, a, m] => stepVote cfg s r ⟨nm p, nat! d, a = "1"⟩ m "" outs
  | _ => (s, r, "bad-step" :: outs)

def splitBar (xs : List String) : List (List String) :=
  let (cur, acc) := xs.foldl (fun (st : List String × List (List String)) x =>
    if x = "|" then ([], st.1.reverse :: st.2) else (x :: st.1, st.2)) ([], [])
  (cur.reverse :: acc).reverse

def handle (line : String) : String :=
  match fields line with
  | "case" :: rest =>
    match splitBar rest with
    | [cfgT, [c, n, a, vb, so, r], steps] =>
      let cfg := lookup (parseCfg cfgT)
      let appr := parseApproved cfgT
      let approvedOf : String → List (String × Nat) := fun n => (appr.lookup n).getD []
      let s0 : State := ⟨nm c, nm n, nat! a, nat! vb, nat! so⟩
      let (_, _, outs) := steps.foldl (stepTok cfg approvedOf) (s0, nat! r, [])
      " ".intercalate outs.reverse
    | _ => "bad-case"
  | _ => "bad-op"

end AlgoVerif.Driver.C26
