import AlgoVerif.Base.Drv
import AlgoVerif.Spec.Fees
namespace AlgoVerif.Driver.Fees
open AlgoVerif.Drv Spec.Fees

/-- minimum balance of a fee sink holding `na` assets (no apps/boxes): MinBalance·(1+na), saturating at 2^64−1 -/
def sinkMin (mb na : Nat) : Nat := min (mb + mb * na) 18446744073709551615

def handle (line : String) : String :=
  match fields line with
  | ["cgf", paid, usage, minFee] => if feeOk (nat! paid) (nat! usage) (nat! minFee) then "ok" else "err"
  | ["absent", S, s, ls, r] => showBool (absent (nat! S) (nat! s) (nat! ls) (nat! r))
  | ["payout", pct, fees, bonus, sink, mb] =>
      match payout (nat! pct) (nat! fees) (nat! bonus) (nat! sink) (nat! mb) with
      | none => "err" | some p => toString p
  | ["payout", pct, fees, bonus, sink, mb, na] =>   -- sink holding `na` assets: its minimum balance is mb·(1+na)
      match payout (nat! pct) (nat! fees) (nat! bonus) (nat! sink) (sinkMin (nat! mb) (nat! na)) with
      | none => "err" | some p => toString p
  | ["vpay", c, pct, fees, bonus, sink, mb] =>
      if payoutAccepted (nat! c) (nat! pct) (nat! fees) (nat! bonus) (nat! sink) (nat! mb) then "ok" else "err"
  | ["vpay", c, pct, fees, bonus, sink, mb, na] =>
      if payoutAccepted (nat! c) (nat! pct) (nat! fees) (nat! bonus) (nat! sink) (sinkMin (nat! mb) (nat! na)) then "ok" else "err"
  | ["minbal", a, b, c, d, e, f, g, h, i, j, k, l, m, n, o, p] =>
      toString (minBalance (nat! a) (nat! b) (nat! c) (nat! d) (nat! e) (nat! f) (nat! g) (nat! h)
        (nat! i) (nat! j) (nat! k) (nat! l) (nat! m) (nat! n) (nat! o) (nat! p))
  | _ => "-"
end AlgoVerif.Driver.Fees
