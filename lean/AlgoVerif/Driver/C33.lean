import AlgoVerif.Base.Drv
import AlgoVerif.Model.AsmFormat
/-!
Driver for C33: the model's answer for one op line of harness/data/transactions/logic/zz_verif_c33_test.go
  prog <v> <tokens…>                 ⇒ asm=<hex> ops=<k>/<n> | asm=ERR            (Model.AsmFormat.asm on the lexed tokens)
  code <origin> <minvS>/<minvA> <hex> ⇒ chk=<S>/<A> [re=… fix=… re2=… vmin=… dis=…]
  src …                               ⇒ -                        (not modelled)
The lexer (string → `Tok`) and the renderer (`Tok` → string) below are the correspondence-only part of the text form.
-/
namespace AlgoVerif.Driver.C33
open AlgoVerif.Drv Model.OpTables Model.AsmFormat

def hexVal? (c : Char) : Option Nat :=
  if '0' ≤ c ∧ c ≤ '9' then some (c.toNat - '0'.toNat)
  else if 'a' ≤ c ∧ c ≤ 'f' then some (c.toNat - 'a'.toNat + 10)
  else if 'A' ≤ c ∧ c ≤ 'F' then some (c.toNat - 'A'.toNat + 10) else none

def hexBytesAcc : List Char → List Nat → List Nat
  | a :: b :: rest, acc => hexBytesAcc rest (((hexVal? a).getD 0 * 16 + (hexVal? b).getD 0) :: acc)
  | _, acc => acc.reverse

def hexBytes (s : String) : List Nat := hexBytesAcc s.toList []

def hexDigit (n : Nat) : Char := if n < 10 then Char.ofNat (48 + n) else Char.ofNat (87 + n)

def hexOfAcc : List Nat → List Char → List Char
  | [], acc => acc.reverse
  | b :: r, acc => hexOfAcc r (hexDigit (b % 16) :: hexDigit (b / 16) :: acc)

def hexOf (bs : List Nat) : String := String.ofList (hexOfAcc bs [])

/-- tables 0..LogicVersion computed once -/
def tables : List Table := (List.range (Gen.OpTable.logicVersion + 1)).map (buildTables Gen.OpTable.opSpecs)

def env : Env := { genEnv with tbl := fun v => tables[v]?.getD [] }

def allDigits (cs : List Char) : Bool := !cs.isEmpty && cs.all Char.isDigit

/-- canonical decimal numeral: no sign, no leading zero -/
def canonNat? (s : String) : Option Nat :=
  let cs := s.toList
  if allDigits cs ∧ (cs.length = 1 ∨ cs.head? ≠ some '0') then s.toNat? else none

def genLabel? (s : String) : Option Nat :=
  if s.startsWith "label" then canonNat? (s.drop 5).toString else none

/-- `none`: a lexeme the token model does not cover (the whole line is skipped) -/
def lex (s : String) : Option Tok :=
  let cs := s.toList
  if s.endsWith ":" then
    let n := (s.dropEnd 1).toString
    match genLabel? n with
    | some k => some (.ldef k)
    | none => some (.sdef n)
  else if s.startsWith "0x" then
    let ds := (cs.drop 2).map hexVal?
    if ds.all Option.isSome then some (.hex (ds.filterMap id)) else some (.name s)
  else if allDigits cs then
    match canonNat? s with
    | some n => some (.num n)
    | none => none                     -- leading zeros: octal for strconv.ParseUint(_, 0, _)
  else if s.startsWith "-" ∧ allDigits (cs.drop 1) then
    match canonNat? (s.drop 1).toString with
    | some n => if n = 0 then none else some (.sint (-(n : Int)))
    | none => none
  else if cs.any (fun c => c = '"' ∨ c = '(' ∨ c = ')') ∨ (cs.head?.map Char.isDigit).getD false
      ∨ ((s.startsWith "+" ∨ s.startsWith "-") ∧ ((cs.drop 1).head?.map Char.isDigit).getD false) then none
  else
    match genLabel? s with
    | some k => some (.lref k)
    | none => some (.name s)

def render : Tok → String
  | .name s => s
  | .num n => toString n
  | .sint i => toString i
  | .hex nib => "0x" ++ String.ofList (nib.map hexDigit)
  | .lref k => "label" ++ toString k
  | .ldef k => "label" ++ toString k ++ ":"
  | .sdef s => s ++ ":"

def renderStmts (stmts : List Stmt) : String :=
  " ; ".intercalate (stmts.map (fun s => " ".intercalate (s.map render)))

def splitStmts : List String → List String → List (List String) → List (List String)
  | [], cur, acc => (cur.reverse :: acc).reverse
  | t :: rest, cur, acc => if t = ";" then splitStmts rest [] (cur.reverse :: acc) else splitStmts rest (t :: cur) acc

def lexAll : List String → Option (List Tok)
  | [] => some []
  | s :: rest =>
    match lex s, lexAll rest with
    | some t, some ts => some (t :: ts)
    | _, _ => none

def lexStmts : List (List String) → Option (List Stmt)
  | [] => some []
  | s :: rest =>
    match lexAll s, lexStmts rest with
    | some t, some ts => some (t :: ts)
    | _, _ => none

def verdictStr : Model.AsmFormat.Verdict → String
  | .ok => "ok" | .mode => "mode" | .err => "err"

def handleProg (v : String) (toks : List String) : String :=
  match lexStmts ((splitStmts toks [] []).filter (· ≠ [])) with
  | none => "-"
  | some stmts =>
    match parseProg env (nat! v) stmts with
    | .error .unmodelled => "-"
    | .error _ => "asm=ERR"
    | .ok is =>
      match encode env (nat! v) is with
      | .error .unmodelled => "-"
      | .error _ => "asm=ERR"
      | .ok bs =>
        let k := match decode env bs with
          | .ok (_, is') => toString is'.length
          | .error _ => "?"
        s!"asm={hexOf bs} ops={k}/{is.length}"

def reasm (v : Nat) (stmts : List Stmt) : Except Err Bytes := asm env v stmts

/-- every varint branch immediate is minimal (`-` when the raw walk fails) -/
def vminOf (bs : Bytes) : String :=
  match readU bs 10 with
  | none => "-"
  | some (v, k) =>
    match decRaw (env.look v) bs.length (bs.drop k).length (bs.drop k) with
    | none => "-"
    | some rs =>
      if rs.all (fun r => r.imms.all (fun im => match im with
          | .voff o w => w == needed o
          | _ => true)) then "ok" else "bad"

def handleCode (minv : String) (hex : String) : String :=
  let bs := hexBytes hex
  let (ms, ma) := match minv.splitOn "/" with
    | [a, b] => (nat! a, nat! b)
    | _ => (0, 0)
  let s := staticCheck env modeSig ms bs
  let a := staticCheck env modeApp ma bs
  let chk := s!"chk={verdictStr s}/{verdictStr a}"
  if s ≠ .ok ∧ a ≠ .ok then chk else
  match dis env bs with
  | .error _ => chk ++ " dis=ERR"
  | .ok (v, stmts) =>
    let d := renderStmts stmts
    match reasm v stmts with
    | .error .unmodelled => "-"
    | .error _ => s!"{chk} re=ERR fix=- re2=- vmin={vminOf bs} dis={d}"
    | .ok bs2 =>
      let re := if bs2 = bs then "same" else hexOf bs2
      match dis env bs2 with
      | .error _ => s!"{chk} re={re} fix=diff re2=- vmin={vminOf bs} dis={d}"
      | .ok (v3, stmts3) =>
        let fix := if stmts3 = stmts then "ok" else "diff"
        let re2 := match reasm v3 stmts3 with
          | .ok bs3 => if bs3 = bs2 then "same" else "diff"
          | .error _ => "ERR"
        s!"{chk} re={re} fix={fix} re2={re2} vmin={vminOf bs} dis={d}"

def handle (line : String) : String :=
  match fields line with
  | "prog" :: v :: toks => handleProg v toks
  | ["code", _, minv, hex] => handleCode minv hex
  | "src" :: _ => "-"
  | _ => "bad-op"

end AlgoVerif.Driver.C33
