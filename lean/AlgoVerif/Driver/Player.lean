import AlgoVerif.Base.Drv
import AlgoVerif.Model.Player
/-!
Line protocol of PlayerDrive on `Model.Player` (see harness/agreement/zz_verif_player_test.go for the grammar).
After a `persist` op the driver also runs the model restored from `persistView` (the "shadow") on every further event
and prints it after `||`, exactly as the harness does with the really decoded router.
-/
namespace AlgoVerif.Driver.Player
open AlgoVerif.Drv AlgoVerif.Model AlgoVerif.Model.Player

structure St where
  P : Params := default
  live : Option State := none          -- none: dead (panicked) or not reset yet
  shadow : Option State := none
  last : List Action := []
  /-- TaskIndex handed out by the live machine ↦ the one the shadow handed out for the same votePresent -/
  idxMap : List (Nat × Nat) := []

def insertNat {α : Type} (key : α → Nat) (a : α) : List α → List α
  | [] => [a]
  | b :: rest => if key b ≤ key a then b :: insertNat key a rest else a :: b :: rest
def sortNat {α : Type} (key : α → Nat) : List α → List α
  | [] => []
  | a :: rest => insertNat key a (sortNat key rest)

def commas (l : List String) : String := ",".intercalate l
def b01 (b : Bool) : String := if b then "1" else "0"

def payStr : Option Payload → String
  | none => "-"
  | some p => s!"{p.value}:{p.round}"

def pvStr : Option PVote → String
  | none => "-"
  | some v => s!"{v.sender}.{v.round}.{v.period}.{v.value}.{v.cred}"

def certStr (c : Cert) : String :=
  let vs := c.votes.map (fun v => s!"{v.sender}:{v.weight}")
  let es := c.eqVotes.map (fun e => s!"{e.sender}:{e.weight}:{e.p0}:{e.p1}")
  s!"{c.round} {c.period} {c.step} {c.proposal} [{commas vs}] [{commas es}]"

def uvKey (v : UVote) : Nat := ((v.step * 1000003 + v.sender) * 1000003 + v.value)
def uvStr (v : UVote) : String := s!"{v.round}.{v.period}.{v.step}.{v.sender}.{v.value}"

def actStr : Action → String
  | .ignore => "ignore"
  | .disconnect => "disconnect"
  | .relayVote v => s!"relayVote {uvStr v}"
  | .relayBundle c => s!"relayBundle {certStr c}"
  | .broadcastBundle c => s!"bcastBundle {certStr c}"
  | .relayCompound p v => s!"relayCompound {payStr (some p)} {pvStr v}"
  | .broadcastCompound p v => s!"bcastCompound {payStr (some p)} {pvStr v}"
  | .broadcastVotes vs => s!"bcastVotes [{commas ((sortNat uvKey vs).map uvStr)}]"
  | .verifyVote r p i => s!"verifyVote {r} {p} {i}"
  | .verifyPayload r p pin pl => s!"verifyPayload {r} {p} {b01 pin} {payStr (some pl)}"
  | .verifyBundle r p s => s!"verifyBundle {r} {p} {s}"
  | .ensure p c => s!"ensure {payStr (some p)} {certStr c}"
  | .stageDigest c => s!"stageDigest {certStr c}"
  | .rezero r => s!"rezero {r}"
  | .attest r p s v => s!"attest {r} {p} {s} {v}"
  | .assemble r p => s!"assemble {r} {p}"
  | .repropose r p v => s!"repropose {r} {p} {v}"
  | .checkpoint r p s e => s!"checkpoint {r} {p} {s} {b01 e}"

def actsStr (as : List Action) : String := if as.isEmpty then "none" else "; ".intercalate (as.map actStr)

def playerStr (pl : PlayerF) : String :=
  let pd := (sortNat (fun kv : Nat × Option Payload => kv.1) pl.pending).map (fun kv => s!"{kv.1}:{payStr kv.2}")
  s!"R={pl.round} P={pl.period} S={pl.step} LC={pl.lastConcluding} D={pl.deadlineDur}/{pl.deadlineKind} N={b01 pl.napping} F={pl.fastRecoveryDeadline} PN={pl.pendingNext} PD=[{commas pd}]"

def voteStr (v : VoteTracker.Vote) : String := s!"{v.sender}:{v.weight}:{v.value}"

def trackerStr (t : VoteTracker.Tracker) : String :=
  let vs := (sortNat VoteTracker.Vote.sender t.voters).map voteStr
  let cs := (sortNat (fun kv : Nat × VoteTracker.Counter => kv.1) t.counts).map
    (fun kv => s!"{kv.1}:{kv.2.count}:({commas ((sortNat VoteTracker.Vote.sender kv.2.votes).map voteStr)})")
  let es := (sortNat VoteTracker.EqVote.sender t.equivocators).map (fun e => s!"{e.sender}:{e.weight}:{e.p0}:{e.p1}")
  s!"V=[{commas vs}] C=[{commas cs}] E=[{commas es}] EC={t.eqCount}"

def stepStr (kv : Nat × StepR) : String :=
  s!"{kv.1}:\{{trackerStr kv.2.tracker} vc({kv.2.contract.step},{b01 kv.2.contract.stepOk},{b01 kv.2.contract.emitted})}"

def periodStr (kv : Nat × PeriodR) : String :=
  let pr := kv.2
  let t := pr.ptracker
  let c := pr.ptContract
  let steps := (sortNat (fun kv : Nat × StepR => kv.1) pr.steps).map stepStr
  s!"{kv.1}:\{pt(dup[{commas ((sortNat id t.duplicate).map toString)}] low={pvStr t.freezer.lowest} fz={b01 t.freezer.frozen} late={pvStr t.freezer.lowestLate} stg={t.staging}) ptc({b01 c.sawOneVote}{b01 c.froze}{b01 c.sawSoft}{b01 c.sawCert}) ca({b01 pr.cached.bottom},{pr.cached.proposal}) st[{" ".intercalate steps}]}"

def asmStr (kv : Nat × Assembler) : String :=
  s!"{kv.1}:({payStr kv.2.pipeline};{payStr kv.2.payload};{"/".intercalate (kv.2.auths.map (fun a => pvStr (some a)))})"

def roundStr (kv : Nat × RoundR) : String :=
  let rr := kv.2
  let rel := (sortNat (fun kv : Nat × Nat => kv.1) rr.store.relevant).map (fun kv => s!"{kv.1}:{kv.2}")
  let asm := (sortNat (fun kv : Nat × Assembler => kv.1) rr.store.assemblers).map asmStr
  let f := rr.freshest
  let pers := (sortNat (fun kv : Nat × PeriodR => kv.1) rr.periods).map periodStr
  s!"{kv.1}:\{st(rel[{commas rel}] pin={rr.store.pinned} asm[{commas asm}]) fr({b01 rr.ok} {f.kind} {certStr ⟨f.round, f.period, f.step, f.proposal, f.bundle.votes, f.bundle.eqVotes⟩} bp={f.bundle.proposal}) per[{" ".intercalate pers}]}"

def dumpStr (σ : State) : String :=
  let rs := (sortNat (fun kv : Nat × RoundR => kv.1) σ.root.rounds).map roundStr
  s!"P\{{playerStr σ.pl}} T\{{" ".intercalate rs}}"

def panicStr : Panic → String
  | .tracker _ => "PANIC tracker"
  | .nilRouter => "PANIC nil"
  | .contract _ => "PANIC contract"
  | .tooManyAssemblers => "PANIC assemblers"
  | .badRound => "PANIC badround"
  | .badCast => "PANIC cast"
  | .depth => "PANIC depth"

/-! parsing -/

def optPay (s : String) : Option Payload :=
  if s == "-" then none
  else match s.splitOn ":" with
    | [v, r] => some ⟨nat! v, nat! r⟩
    | _ => none

def parseVotes (s : String) : List (Nat × Nat) :=
  if s == "-" then [] else (s.splitOn ",").filterMap (fun t => match t.splitOn ":" with | [a, w] => some (nat! a, nat! w) | _ => none)

def parseEqs (s : String) : List VoteTracker.EqVote :=
  if s == "-" then [] else (s.splitOn ",").filterMap (fun t => match t.splitOn ":" with
    | [a, w, p0, p1] => some ⟨nat! a, nat! w, nat! p0, nat! p1⟩ | _ => none)

def parseEvent : List String → Option Event
  | ["v", ver, bad, r, p, s, a, w, v] => some (.vote (ver == "1") (nat! bad) (nat! r) (nat! p) (nat! s) ⟨nat! a, nat! w, nat! v⟩)
  | ["pv", ver, bad, a, r, p, v, c, idx, tail] => some (.pvote (ver == "1") (nat! bad) ⟨nat! a, nat! r, nat! p, nat! v, nat! c⟩ (nat! idx) (optPay tail))
  | ["pl", ver, bad, v, r, own] => some (.payload (ver == "1") (nat! bad) ⟨nat! v, nat! r⟩ (own == "1"))
  | ["b", ver, bad, r, p, s, v, votes, eqs] => some (.bundle (ver == "1") (nat! bad) (nat! r) (nat! p) (nat! s) (nat! v) (parseVotes votes) (parseEqs eqs))
  | ["t", e] => some (.timeout (nat! e))
  | ["ft", e] => some (.fastTimeout (nat! e))
  | ["ri", r] => some (.roundInterruption (nat! r))
  | ["ck", r, p, s, e] => some (.checkpoint (nat! r) (nat! p) (nat! s) (e == "1"))
  | _ => none

/-- one machine, one event: (new state or dead, printed result) -/
def runOne (P : Params) (σ : Option State) (ev : Event) : Option State × String × List Action :=
  match σ with
  | none => (none, "DEAD", [])
  | some σ =>
    match handle P σ ev with
    | .error k => (none, panicStr k, [])
    | .ok (σ', as) => (some σ', actsStr as ++ " | " ++ playerStr σ'.pl, as)

def step (s : St) (line : String) : St × String :=
  match fields line with
  | ["reset", softT, certT, nextT, lateT, redoT, downT, dyn, f0, fN, d0, dN, extra, lam, lag, r, p, st] =>
    let P : Params := ⟨nat! softT, nat! certT, nat! nextT, nat! lateT, nat! redoT, nat! downT, dyn == "1", nat! f0, nat! fN,
      nat! d0, nat! dN, nat! extra, nat! lam, nat! lag⟩
    let pl : PlayerF := { round := nat! r, period := nat! p, step := nat! st, deadlineDur := filterTimeout P (nat! p), deadlineKind := 2 }
    ({ P := P, live := some { pl := pl, root := {} }, shadow := none, last := [] }, "ok")
  | ["dump"] =>
    match s.live with
    | none => (s, "DEAD")
    | some σ => (s, dumpStr σ)
  | ["persist", _variant, mode] =>
    match s.live with
    | none => (s, "DEAD")
    | some σ =>
      let v := persistView σ
      ({ s with shadow := some v, idxMap := [] }, s!"A[{actsStr (if mode == "noact" then [] else s.last)}] {dumpStr v}")
  | fs =>
    match parseEvent fs with
    | none => (s, "bad-op")
    | some ev =>
      let (l', out, as) := runOne s.P s.live ev
      -- every ensure action of the model satisfies C03 (Props.C03.ensure_cert_valid): the harness prints its own verdict
      let c03 := String.join ((as.filter (fun a => match a with | .ensure _ _ => true | _ => false)).map (fun _ => " ## c03=ok"))
      match s.shadow with
      | none => ({ s with live := l', last := as }, out ++ " || -" ++ c03)
      | some sh =>
        let ev2 := match ev with
          | .pvote true bad v idx tail => Event.pvote true bad v ((aget s.idxMap idx).getD idx) tail
          | e => e
        let (sh', out2, as2) := runOne s.P (some sh) ev2
        let taskIdx (l : List Action) : Option Nat := l.findSome? (fun a => match a with | .verifyVote _ _ i => some i | _ => none)
        let m := match ev, taskIdx as, taskIdx as2 with
          | .pvote false _ _ _ _, some i1, some i2 => aset s.idxMap i1 i2
          | _, _, _ => s.idxMap
        ({ s with live := l', last := as, shadow := sh', idxMap := m }, out ++ " || " ++ out2 ++ c03)

end AlgoVerif.Driver.Player
