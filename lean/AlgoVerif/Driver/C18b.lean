import AlgoVerif.Base.Drv
import AlgoVerif.Driver.Lcore
import AlgoVerif.Model.BlockMoney
/-! Line protocol of the C18 block-level harness (harness/ledger/zz_verif_c18b_test.go, TestVerifC18Block) on `Model.BlockMoney`.
  reset …                 instruction to the Go side only                                                        → ok
  block <consts> plevel= tot= poolmin= pct= maxexp= maxabs= bonus= <A/C/P/H tokens of the ledger at round − 1>
                          `startBlock`: the rewards withdrawal at the header's level                             → ok pre= post= debit= units= dl= chain= | <dump>
  group t;t;…  /  dump    `LedgerCore.evalGroup` on the evaluator (the LedgerCore driver's own step)
  gen prp= elig=          fees collected and `payoutMax` on the state after the groups                           → gen fees= maxpayout=
  end exp= abs= prp= payout= fees= bonus=     `endOfBlock` (expired / absent lists and header fields are inputs)  → end payset= ctr= all= pre= post= level= unit= sinkdebit= prpcredit= | A0=… A9=…
All sums are the model's own: Σ over the universe of balance + pending rewards at the stated level. -/
namespace AlgoVerif.Driver.C18b
open AlgoVerif.Drv AlgoVerif.Model.LedgerCore AlgoVerif.Model.BlockMoney AlgoVerif.Driver.Lcore AlgoVerif.Model

structure St where
  lc : Lcore.St := {}
  E : Option Env := none
  level : Nat := 0
  bonus : Nat := 0
  pre : Nat := 0
  chain : String := "-"

def bmErrStr : BMErr → String
  | .panic => "panic" | .levelUnderflow => "level-underflow" | .withdrawOverflow => "withdraw-overflow"
  | .poolBelowMin => "pool-below-min" | .group e => "group:" ++ gerrStr e
  | .expLen => "exp-len" | .expDup => "dup-address" | .expNoKey => "exp-nokey" | .expNotYet => "exp-notyet"
  | .absLen => "abs-len" | .absDup => "dup-address" | .absNotOnline => "abs-notonline" | .absZero => "abs-zero"
  | .absNotElig => "abs-notelig" | .absNotAbsent => "abs-notabsent"
  | .feesDisabled => "fees-disabled" | .proposerDisabled => "payouts-disabled" | .payoutDisabled => "payouts-disabled"
  | .fees => "fees" | .payoutOverflow => "payout-overflow" | .payout => "payout" | .proposerMissing => "proposer"
  | .proposerClosed => "proposer-closed" | .move e => "move:" ++ errStr e

def kvOf (toks : List String) (key : String) : Option (List String) :=
  toks.findSome? (fun tok => let (k, v) := splitKV tok; if k == key then some v else none)

def ids (v : List String) : List Nat := if v == ["-"] then [] else v.map nat!

def mkEnv (toks : List String) : Option (Env × Params) :=
  let (P, B) := parseBlock toks
  if P.rewardUnit = 0 then none
  else
    let g (k : String) (i : Nat) : Nat := nth ((kvOf toks k).getD []) i
    some ({ P := P, base := B, prevLevel := g "plevel" 0,
            prevTotals := { online := ⟨g "tot" 0, g "tot" 1⟩, offline := ⟨g "tot" 2, g "tot" 3⟩,
                            notParticipating := ⟨g "tot" 4, g "tot" 5⟩, rewardsLevel := g "plevel" 0 },
            poolMin := g "poolmin" 0, payoutPct := g "pct" 0, maxExpired := g "maxexp" 0, maxAbsent := g "maxabs" 0,
            -- the absentee criterion is not modelled here (C27): the implementation's evaluation of it is trusted
            absentCrit := fun _ _ => true }, P)

def step (st : St) (line : String) : St × String :=
  let toks := fields line
  if line.startsWith "reset" then ({}, "ok")
  else if line.startsWith "block " then
    match mkEnv toks.tail with
    | none => ({ chain := st.chain }, "bad-op")
    | some (E, P) =>
      match startBlock E P.level with
      | .error e => ({ chain := st.chain }, "start-error " ++ bmErrStr e)
      | .ok top0 =>
        let x := E.ctx
        let pre := moneyAll (E.params E.prevLevel) x {}
        let post := moneyAll P x top0
        let debit := balWP P (acctOf x {} P.rewardsPool) - balWP P (acctOf x top0 P.rewardsPool)
        let units := (Totals.rewardUnits E.prevTotals).getD 0
        let s : EvalState := { top := top0, payset := [] }
        ({ lc := { P := P, x := x, s := s, live := true }, E := some E, level := P.level,
           bonus := nth ((kvOf toks.tail "bonus").getD []) 0, pre := pre, chain := st.chain },
         s!"ok pre={pre} post={post} debit={debit} units={units} dl={P.level - E.prevLevel} chain={st.chain} | " ++ dumpStr x s)
  else
    match st.E with
    | none => (st, "bad-op")
    | some E =>
      let P := st.lc.P
      let x := st.lc.x
      if line == "dump" ∨ line.startsWith "group" then
        let (lc', out) := Lcore.step st.lc line
        ({ st with lc := lc' }, out)
      else if line.startsWith "gen " then
        if P.payoutsEnabled then
          match payoutMax E P st.lc.s.top st.lc.s.top.fees st.bonus with
          | none => (st, "gen-error payout-overflow")
          | some m => (st, s!"gen fees={st.lc.s.top.fees} maxpayout={m}")
        else (st, "gen fees=0 maxpayout=0")
      else if line.startsWith "end " then
        let g (k : String) : List String := (kvOf toks.tail k).getD []
        let b : Block := { level := st.level, expired := ids (g "exp"), absent := ids (g "abs"),
                           feesCollected := nth (g "fees") 0, bonus := nth (g "bonus") 0,
                           proposer := nth (g "prp") 0, payout := nth (g "payout") 0 }
        match endOfBlock E b st.lc.s with
        | .error e => ({ chain := "-" }, "end-error " ++ bmErrStr e)
        | .ok top =>
          let post := moneyAll P x top
          let sink0 := balWP P (acctOf x st.lc.s.top P.feeSink)
          let sink1 := balWP P (acctOf x top P.feeSink)
          let prp0 := balWP P (acctOf x st.lc.s.top b.proposer)
          let prp1 := balWP P (acctOf x top b.proposer)
          let as := univ.map (fun id => acctTok id (acctOf x top id))
          ({ chain := toString post },
           s!"end payset={st.lc.s.payset.length} ctr={counterOf x top} all={post} pre={st.pre} post={post} level={P.level} unit={P.rewardUnit} sinkdebit={sink0 - sink1} prpcredit={prp1 - prp0} | "
             ++ " ".intercalate as)
      else (st, "bad-op")

end AlgoVerif.Driver.C18b
