import AlgoVerif.Base.Drv
import AlgoVerif.Model.OpTables
import AlgoVerif.Model.OpCheck
import AlgoVerif.Gen.OpTable
/-!
Driver for C34: the model's verdict for one op line of harness/data/transactions/logic/zz_verif_c34_test.go
  `<kind> <mode> <minv> <pc> <hex program> <stack> # comment`   ⇒   `chk=<…> ev=<…>`
The tables are `buildTables Gen.OpTable.opSpecs` (the Lean replay of init() on the dumped OpSpecs rows), never the dumped
built tables.
-/
namespace AlgoVerif.Driver.C34
open AlgoVerif.Drv Model.OpTables Model.OpCheck

def hexVal (c : Char) : Nat :=
  if '0' ≤ c ∧ c ≤ '9' then c.toNat - '0'.toNat
  else if 'a' ≤ c ∧ c ≤ 'f' then c.toNat - 'a'.toNat + 10
  else if 'A' ≤ c ∧ c ≤ 'F' then c.toNat - 'A'.toNat + 10 else 0

def hexBytes : List Char → List Nat
  | a :: b :: rest => (hexVal a * 16 + hexVal b) :: hexBytes rest
  | _ => []

/-- tables 0..LogicVersion computed once -/
def tables : List Table := (List.range (Gen.OpTable.logicVersion + 1)).map (buildTables Gen.OpTable.opSpecs)

def tbl (v : Nat) : Table := tables[v]?.getD []

def stackOf (s : String) : List Nat :=
  s.toList.filterMap (fun c => if c = 'i' then some 2 else if c = 'b' then some 3 else none)

def handle (line : String) : String :=
  let body := (line.splitOn "#").head!
  match fields body with
  | [kind, mode, minv, pc, hex, stk] =>
    let m := if mode = "sig" then modeSig else modeApp
    let prog := hexBytes hex.toList
    let lv := Gen.OpTable.logicVersion
    if kind = "br" then
      match errOf (staticCheck tbl lv (nat! minv) m prog) with
      | none => "chk=ok"
      | some e => s!"chk={e.toString}"
    else
    let c := checkVerdict tbl lv (nat! minv) m prog (nat! pc)
    let e := stepVerdict tbl Gen.OpTable.fieldGroups lv (nat! minv) m prog (nat! pc) (stackOf stk)
    let cs := match c with
      | .pass => if kind = "raw" || kind = "nofield" then "rest" else "ok"
      | v => v.toString
    let es := if kind = "nofield" then
        match e with
        | .badfield | .fieldmode | .pass => "rejected"
        | v => v.toString
      else e.toString
    s!"chk={cs} ev={es}"
  | _ => "bad-op"

end AlgoVerif.Driver.C34
