import AlgoVerif.Base.Drv
import AlgoVerif.Model.VoteTracker
/-! Line protocol of the C06 harness on `Model.VoteTracker` (see harness/agreement/zz_verif_c06_test.go). -/
namespace AlgoVerif.Driver.C06
open AlgoVerif.Drv AlgoVerif.Model.VoteTracker

structure St where
  mode : String := "d"
  cfg : Cfg := ⟨0, 0⟩
  round : Nat := 0
  period : Nat := 0
  tracker : Tracker := {}
  emitted : Bool := false      -- voteTrackerContract.Emitted
  dead : Bool := true

def insertNat {α : Type} (key : α → Nat) (a : α) : List α → List α
  | [] => [a]
  | b :: rest => if key b ≤ key a then b :: insertNat key a rest else a :: b :: rest
def sortNat {α : Type} (key : α → Nat) : List α → List α
  | [] => []
  | a :: rest => insertNat key a (sortNat key rest)

def commas (l : List String) : String := ",".intercalate l

def voteStr (v : Vote) : String := s!"{v.sender}:{v.weight}:{v.value}"

def bundleStr (s : St) (b : Bundle) : String :=
  let vs := b.votes.map voteStr
  let es := b.eqVotes.map (fun e => s!"{e.sender}:{e.weight}:{e.p0}:{e.p1}:{e.p0}:{e.p1}")
  s!"B r={s.round} p={s.period} s={s.cfg.step} prop={b.proposal} votes=[{commas vs}] eq=[{commas es}]"

def eventStr (s : St) : Event → String
  | .none => "none"
  | .threshold k p b => s!"thr k={k} r={s.round} p={s.period} s={s.cfg.step} prop={p} {bundleStr s b}"

def stateStr (t : Tracker) : String :=
  let vs := (sortNat Vote.sender t.voters).map voteStr
  let cs := (sortNat (fun kv : Nat × Counter => kv.1) t.counts).map
    (fun kv => s!"{kv.1}:{kv.2.count}:({commas ((sortNat Vote.sender kv.2.votes).map voteStr)})")
  let es := (sortNat EqVote.sender t.equivocators).map (fun e => s!"{e.sender}:{e.weight}:{e.p0}:{e.p1}")
  s!"V=[{commas vs}] C=[{commas cs}] E=[{commas es}] EC={t.eqCount}"

def panicStr : PanicKind → String
  | .tooManyEquivocators => "PANIC eqquorum"
  | .twoOverThreshold => "PANIC twoover"
  | .indexOutOfRange => "PANIC index"
  | .bundleNoVotes => "PANIC novotes"
  | .bundleWrongValue => "PANIC wrongvalue"
  | .bundleNotEnough => "PANIC notenough"

/-- `voteTrackerContract.post` on a `voteAccepted` input (the parts that can fail for a thresholdEvent) -/
def contractPost (s : St) : Event → Bool × Bool     -- (violated, emitted')
  | .none => (false, s.emitted)
  | .threshold k p b =>
    let kindBad := (k == 1 && s.cfg.step != 1) || (k == 2 && s.cfg.step != 2) || (k == 3 && s.cfg.step ≤ 2)
    let twice := s.emitted
    let bottomBad := p == 0 && s.cfg.step < 3
    let emptyBad := b.votes.isEmpty
    (kindBad || twice || bottomBad || emptyBad, true)

def step (s : St) (line : String) : St × String :=
  match fields line with
  | ["reset", mode, st, T, _proto, r, p] =>
    ({ mode := mode, cfg := ⟨nat! st, nat! T⟩, round := nat! r, period := nat! p, tracker := {}, emitted := false, dead := false }, "ok")
  | ["rq", st, T, _proto, w] => (s, showBool (reachesQuorum ⟨nat! st, nat! T⟩ (nat! w)))
  | ["vote", a, w, v] =>
    if s.dead then (s, "DEAD")
    else if s.mode == "r" && s.cfg.step == 0 then ({ s with dead := true }, "PANIC contract-pre")
    else
      match handle s.cfg s.tracker ⟨nat! a, nat! w, nat! v⟩ with
      | .error k => ({ s with dead := true }, panicStr k)
      | .ok (t', e) =>
        let (bad, em) := if s.mode == "r" then contractPost s e else (false, s.emitted)
        if bad then ({ s with dead := true, tracker := t' }, "PANIC contract-post")
        else ({ s with tracker := t', emitted := em }, eventStr s e ++ " | " ++ stateStr t')
  | _ => (s, "bad-op")

end AlgoVerif.Driver.C06
