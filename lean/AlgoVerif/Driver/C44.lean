import AlgoVerif.Base.Drv
import AlgoVerif.Model.Pool
/-!
Line-protocol handler of the transaction-pool model (C44).  See harness/data/pools/zz_verif_c44_test.go for the grammar.

The model is run with the concrete transaction type `Tx` (the fields the harness annotates) and with the ledger evaluator given by
the ORACLE entries of the op line: evaluator states are `(k, r)` = (groups accepted, resets) since the start of the op, the entry
`k.r.gid=v` is the verdict of the real (shadow) evaluator for the group whose first transaction is `gid` in that state.  A verdict
the annotation does not contain is the error class `ORACLE` (the model wanted an evaluation the reference did not make).
-/
namespace AlgoVerif.Driver.C44
open AlgoVerif.Drv AlgoVerif.Model.Pool

structure Tx where
  id : Nat
  fv : Nat
  lv : Nat
  fee : Nat
  len : Nat
  sp : Nat      -- 0 no, 1 StateProofTx, 2 StateProofTx from StateProofSender
deriving Repr, Inhabited

def view : View Tx Nat :=
  { id := (·.id), fv := (·.fv), lv := (·.lv), fee := (·.fee), len := (·.len), sp := fun t => decide (t.sp ≠ 0), spSender := fun t => decide (t.sp = 2) }

abbrev St := Nat × Nat
abbrev Table := List (Nat × Nat × String × String)

def gidOf (g : List Tx) : String :=
  match g with
  | [] => "e"
  | t :: _ => toString t.id

def tableLedger (tb : Table) : Ledger St Tx :=
  { tryGroup := fun s g =>
      match tb.find? (fun e => e.1 == s.1 && e.2.1 == s.2 && e.2.2.1 == gidOf g) with
      | none => .err "ORACLE"
      | some e =>
        if e.2.2.2 == "ok" then .ok (s.1 + 1, s.2)
        else if e.2.2.2 == "nospace" then .noSpace
        else .err e.2.2.2
    resetBytes := fun s => (s.1, s.2 + 1) }

def kvGet (fs : List String) (k : String) : Option String :=
  (fs.find? (fun f => f.startsWith (k ++ "="))).map (fun f => (f.drop (k.length + 1)).toString)

def parseTx (s : String) : Option Tx :=
  match s.splitOn "/" with
  | [a, b, c, d, e, f] => some ⟨nat! a, nat! b, nat! c, nat! d, nat! e, nat! f⟩
  | _ => none

def parseGroup (s : String) : Option (List Tx) :=
  if s == "-" then some [] else (s.splitOn ",").mapM parseTx

def parseOracle (s : String) : Table :=
  if s == "-" then [] else
  (s.splitOn ",").filterMap fun e =>
    match e.splitOn "=" with
    | [k, v] =>
      match k.splitOn "." with
      | [a, b, c] => some (nat! a, nat! b, c, v)
      | _ => none
    | _ => none

def parseIds (s : String) : List Nat :=
  if s == "-" then [] else (s.splitOn ",").map nat!

def showGroup (g : List Tx) : String :=
  if g.isEmpty then "e" else "+".intercalate (g.map (fun t => toString t.id))

def showPool (cls : String) (P : Pool St Tx Nat) : String :=
  let p := if P.pending.isEmpty then "-" else ";".intercalate (P.pending.map showGroup)
  s!"{cls} p={p} n={P.ids.length} w={P.whole} m={P.mult} so={if P.spOver then 1 else 0} r={P.round} mon=ok"

def showOutcome : Outcome → String
  | .ok => "ok" | .cap => "cap" | .fee => "fee" | .dead => "dead" | .noSpace => "nospace"
  | .err c => c

structure DState where
  cfg : Cfg := ⟨0, 1⟩
  pool : Option (Pool St Tx Nat) := none

def stepLine (d : DState) (line : String) : DState × String :=
  match line.splitOn " | " with
  | [op, ann] =>
    let f := fields op
    let a := fields ann
    match f with
    | "reset" :: kv =>
      let fac := nat! ((kvGet kv "fac").getD "1")
      let cfg : Cfg := ⟨nat! ((kvGet kv "max").getD "0"), if fac = 0 then 1 else fac⟩
      let P : Pool St Tx Nat := init (0, 0) (nat! ((kvGet a "er").getD "0"))
      ({ cfg := cfg, pool := some P }, showPool "ok" P)
    | cmd :: _ =>
      match d.pool with
      | none => (d, "no-pool")
      | some P =>
        let tb := parseOracle ((kvGet a "o").getD "-")
        let L := tableLedger tb
        if cmd == "rem" then
          match parseGroup ((kvGet a "g").getD "?") with
          | none => (d, "bad-annotation")
          | some g =>
            let r := remember view d.cfg L { P with cur := (0, 0) } g
            ({ d with pool := some r.1 }, showPool (showOutcome r.2) r.1)
        else if cmd == "blk" then
          let b : NewBlock St Nat :=
            { blockRound := nat! ((kvGet a "br").getD "0"), committed := parseIds ((kvGet a "c").getD "-"),
              start := (0, 0), evalRound := nat! ((kvGet a "er").getD "0") }
          let P' := onNewBlock view d.cfg L P b
          ({ d with pool := some P' }, showPool "ok" P')
        else if cmd == "stale" then
          let b : NewBlock St Nat := { blockRound := nat! ((kvGet a "br").getD "0"), committed := [], start := (0, 0), evalRound := P.round }
          let P' := onNewBlock view d.cfg L P b
          ({ d with pool := some P' }, showPool "ok" P')
        else if cmd == "dev" then
          let P' := recompute view L P (0, 0) (nat! ((kvGet a "er").getD "0")) [] P.mult
          ({ d with pool := some P' }, showPool "ok" P')
        else (d, "bad-op")
    | [] => (d, "bad-op")
  | [op] =>
    match fields op, d.pool with
    | ["asm"], some P => (d, showPool "ok" P)
    | _, _ => (d, "no-annotation")
  | _ => (d, "bad-line")

end AlgoVerif.Driver.C44
