import AlgoVerif.Base.Drv
import AlgoVerif.Model.TxTail
/-! Line-protocol driver for Model.TxTail (property C11). Same op grammar as harness/ledger/zz_verif_c11_test.go. -/
namespace AlgoVerif.Driver.C11
open AlgoVerif.Drv Model.TxTail

structure St where
  P : Params := { maxLife := 0, fixLeases := true, supLeases := true, deeper := 0, lookback := 0, strictGuard := false }
  σ : Ledger := Ledger.init
  ev : Option (Nat × Layer) := none      -- the running evaluator: round, eval.state
  live : Bool := false
  strict : Bool := false                 -- `c11 old-guard`: model the loadFromDisk loop guard before the C11 fix

def kvs (fs : List String) : String → Nat := fun k =>
  match fs.find? (fun f => f.startsWith (k ++ "=")) with
  | some f => nat! (f.drop (k.length + 1)).toString
  | none => 0

def parseTx (tok : String) : Option Tx :=
  match (tok.splitOn "/").map String.toNat? with
  | [some i, some s, some fv, some lv, some l] => some { txid := i, snd := s, fv := fv, lv := lv, lease := l }
  | _ => none

def parseTxs (toks : List String) : Option (List Tx) := toks.mapM parseTx

def showRes : Res → String
  | .ok => "ok"
  | .txdup true => "txdup:blk"
  | .txdup false => "txdup:tail"
  | .lease true => "lease:blk"
  | .lease false => "lease:tail"
  | .deadEarly => "dead:early"
  | .deadLate => "dead:late"
  | .malformed => "malformed"
  | .missing => "missing"

def showLo (db : TailDB) : String := toString (if db.lo ≤ db.hi then db.lo else db.hi + 1)

def step (s : St) (line : String) : St × String :=
  match fields line with
  | "reset" :: rest =>
    let kv := kvs rest
    ({ s with P := { maxLife := kv "life", fixLeases := kv "fix" == 1, supLeases := kv "sup" == 1, deeper := kv "dh",
                     lookback := kv "lb", strictGuard := s.strict },
              σ := Ledger.init, ev := none, live := true }, "ok")
  | ["facts"] => (s, "-")          -- facts about the shipped consensus versions: judged by the check, not modelled
  | op :: args =>
    if !s.live then (s, "bad-op no ledger") else
    match op, args with
    | "begin", [] => ({ s with ev := some (s.σ.latest + 1, {}) }, s!"r={s.σ.latest + 1}")
    | "abort", [] => ({ s with ev := none }, "ok")
    | "test", _ :: _ =>
      match s.ev, parseTxs args with
      | some (r, blk), some g => (s, showRes (testGroup s.P s.σ.tail r blk g))
      | _, _ => (s, "bad-op")
    | "add", _ :: _ =>
      match s.ev, parseTxs args with
      | some (r, blk), some g =>
        match txGroup s.P s.σ.tail r blk g with
        | .ok blk' => ({ s with ev := some (r, blk') }, "ok")
        | .error e => (s, showRes e)
      | _, _ => (s, "bad-op")
    | "end", [] =>
      match s.ev with
      | some (_, blk) =>
        let σ1 := s.σ.addBlock blk
        let σ2 := σ1.committedUpTo s.P σ1.latest
        ({ s with σ := σ2, ev := none }, s!"r={σ2.latest} n={blk.txs.length} lwm={σ2.tail.lowWaterMark} db={σ2.db.hi}")
      | none => (s, "bad-op")
    | "q", c :: i :: toks =>
      match parseTxs toks with
      | some g =>
        match g[kvs [i] "i"]? with
        | some t => (s, showRes (s.σ.checkDup s.P (kvs [c] "cur") t))
        | none => (s, "bad-op")
      | none => (s, "bad-op")
    | "commit", [] =>
      let σ1 := (s.σ.committedUpTo s.P s.σ.latest).flush s.P s.σ.latest
      ({ s with σ := σ1 }, s!"db={σ1.db.hi} lo={showLo σ1.db}")
    | "reload", [] =>
      let σ1 := s.σ.reload s.P
      ({ s with σ := σ1, ev := none }, s!"latest={σ1.latest} lwm={σ1.tail.lowWaterMark} db={σ1.db.hi} lo={showLo σ1.db}")
    | _, _ => (s, "bad-op")
  | [] => (s, "bad-op")

end AlgoVerif.Driver.C11
