import AlgoVerif.Base.Drv
import AlgoVerif.Base.Msgpack
import AlgoVerif.Model.BoundedDecoder
import AlgoVerif.Model.MsgpSite
import AlgoVerif.Gen.MsgpSites
import AlgoVerif.Driver.C40
/-!
Driver `c41` (stateful: remembers the bounded schema of every type it was told about).

  `sites`                           → `sites <n> bad <k>` followed by ` || <offender>` per site of Gen.MsgpSites failing
                                      `MsgpSite.siteOK` (the predicate of Props.C41.all_sites_checked)
  `schema <type> <bty-text>`        → `schema-ok` | `schema-bad parse-error`;   `schema <type> -` → `schema-skip`
  `bound …`                         → `-`
  `<type> <kind> <hex | ->`         → the verdict of `BoundedDecoder.decodeRoot` on the bytes:
                                      `ok <bytes consumed>` | `err <class>` | `cut` (recursion cut reached) | `-` (no schema)

BTy text syntax: tools/c41h/schema.go.  The small parsers (`pNat`, `pHex`, `pChar`, `parseAll`) are C40's.
-/
namespace AlgoVerif.Driver.C41
open AlgoVerif.Drv AlgoVerif.Msgpack AlgoVerif.BoundedDecoder
open AlgoVerif.Driver.C40 (pNat pHex pChar parseAll)

abbrev PP := AlgoVerif.Driver.C40.P

def pBound : PP (Option Nat) := fun cs =>
  match cs with
  | '-' :: r => some (none, r)
  | _ => (pNat cs).map fun (n, t) => (some n, t)

mutual
partial def pBTy : PP BTy := fun cs =>
  match cs with
  | 'B' :: r => some (BTy.bool, r)
  | 'C' :: r => some (BTy.cut, r)
  | 'U' :: r => (pNat r).map fun (n, t) => (BTy.uint n, t)
  | 'I' :: r => (pNat r).map fun (n, t) => (BTy.int n, t)
  | 'S' :: r => (pBound r).map fun (b, t) => (BTy.str b, t)
  | 'Y' :: r => (pBound r).map fun (b, t) => (BTy.bytes b, t)
  | 'F' :: r => (pNat r).map fun (n, t) => (BTy.fixedBytes n, t)
  | 'L' :: r => do
      let (b, t) ← pBound r
      let (_, t) ← pChar '(' t
      let (e, t) ← pBTy t
      let (_, t) ← pChar ')' t
      pure (BTy.slice b e, t)
  | 'A' :: r => do
      let (n, t) ← pNat r
      let (_, t) ← pChar '(' t
      let (e, t) ← pBTy t
      let (_, t) ← pChar ')' t
      pure (BTy.array n e, t)
  | 'M' :: r => do
      let (b, t) ← pBound r
      let (_, t) ← pChar '(' t
      let (k, t) ← pBTy t
      let (_, t) ← pChar ',' t
      let (v, t) ← pBTy t
      let (_, t) ← pChar ')' t
      pure (BTy.map b k v, t)
  | 'P' :: '(' :: r => do
      let (e, t) ← pBTy r
      let (_, t) ← pChar ')' t
      pure (BTy.ptr e, t)
  | 'N' :: '(' :: r => do
      let (e, t) ← pBTy r
      let (_, t) ← pChar ')' t
      pure (BTy.named e, t)
  | 'V' :: r => do
      let (m, t) ← pNat r
      let (_, t) ← pChar '(' t
      let (e, t) ← pBTy t
      let (_, t) ← pChar ')' t
      pure (BTy.post m e, t)
  | 'T' :: '(' :: ')' :: r => some (BTy.struct [], r)
  | 'T' :: '(' :: r => do
      let (fs, t) ← pBFields r
      pure (BTy.struct fs, t)
  | _ => none
/-- `<hexname>:<0|1>:<ty>` separated by `;`, closed by `)` -/
partial def pBFields : PP (List BField) := fun cs => do
  let (name, t) ← pHex cs
  let (_, t) ← pChar ':' t
  let (rq, t) ← pNat t
  let (_, t) ← pChar ':' t
  let (ty, t) ← pBTy t
  match t with
  | ';' :: t' => do
      let (rest, t'') ← pBFields t'
      pure ((name, rq == 1, ty) :: rest, t'')
  | ')' :: t' => pure ([(name, rq == 1, ty)], t')
  | _ => none
end

def verdict (ty : BTy) (bs : Bytes) : String :=
  match decodeRoot ty bs with
  | (_, .ok (_, r)) => s!"ok {bs.length - r.length}"
  | (_, .error .cut) => "cut"
  | (_, .error e) => "err " ++ e.name

def siteLine (s : MsgpSite.Site) : String :=
  s!"{s.pkg}/msgp_gen.go:{s.line} {s.typ} {MsgpSite.kindName s.kind} {s.tgt}: {MsgpSite.whyBad s}"

def sitesAnswer : String :=
  let all := Gen.MsgpSites.chunks.flatten
  let bad := all.filter (fun s => !MsgpSite.siteOK s)
  bad.foldl (fun acc s => acc ++ " || " ++ siteLine s) s!"sites {all.length} bad {bad.length}"

abbrev St := List (String × BTy)

def step (st : St) (line : String) : St × String :=
  match fields line with
  | ["sites"] => (st, sitesAnswer)
  | "bound" :: _ => (st, "-")
  | ["schema", _, "-"] => (st, "schema-skip")
  | ["schema", name, tytext] =>
    match parseAll pBTy tytext with
    | none => (st, "schema-bad parse-error")
    | some ty => ((name, ty) :: st, "schema-ok")
  | [name, _, hx] =>
    match st.lookup name with
    | none => (st, "-")
    | some ty =>
      if hx == "-" then (st, verdict ty [])
      else match unhex hx with
        | none => (st, "malformed-hex")
        | some bs => (st, verdict ty bs)
  | _ => (st, "-")

end AlgoVerif.Driver.C41
