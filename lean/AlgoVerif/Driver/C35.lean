import AlgoVerif.Base.Drv
import AlgoVerif.Model.Resources
/-!
Driver for C35: the model's verdict for the stateful line protocol of
harness/data/transactions/logic/zz_verif_c35_test.go (grammar documented there).
-/
namespace AlgoVerif.Driver.C35
open AlgoVerif.Drv AlgoVerif.Model.Resources

def dropS (s : String) (n : Nat) : String := String.ofList (s.toList.drop n)
def headC (s : String) : Char := match s.toList with | c :: _ => c | [] => ' '

def parseAddr (t : String) : Addr :=
  if t = "z" ∨ t = "" then .zero
  else if headC t = 'u' then .user (nat! (dropS t 1))
  else if headC t = 'p' then .app (nat! (dropS t 1))
  else .zero

def listOf (s : String) : List String := if s = "-" ∨ s = "" then [] else s.splitOn ","

/-- value of `key=` among the fields ("" when absent) -/
def kv (fs : List String) (key : String) : String :=
  match fs.find? (fun f => f.startsWith (key ++ "=")) with
  | some f => dropS f (key.length + 1)
  | none => ""

def pair (sep : String) (s : String) : String × String :=
  match s.splitOn sep with
  | [a] => (a, "")
  | a :: rest => (a, sep.intercalate rest)
  | [] => ("", "")

def parseAccessElem (e : String) : RRef :=
  let body := dropS e 1
  match headC e with
  | 'A' => { address := parseAddr body }
  | 'S' => { asset := nat! body }
  | 'P' => { app := nat! body }
  | 'H' => let p := pair "." body; { holding := (nat! p.1, nat! p.2) }
  | 'L' => let p := pair "." body; { locals := (nat! p.1, nat! p.2) }
  | 'B' => let p := pair "." body; { box := (nat! p.1, p.2) }
  | 'M' =>
    match body.splitOn "." with
    | [a, s, p] => { address := parseAddr a, asset := nat! s, app := nat! p }
    | _ => {}
  | _ => {}

/-- (transaction, id assigned on creation) -/
def parseTx (desc : String) : Txn × Nat :=
  match fields desc with
  | "appl" :: fs =>
    let al := kv fs "al"
    let f : Appl :=
      { appId := nat! (kv fs "id"), oc := nat! (kv fs "oc")
        accounts := (listOf (kv fs "acc")).map parseAddr
        assets := (listOf (kv fs "fa")).map nat!
        apps := (listOf (kv fs "fp")).map nat!
        boxes := (listOf (kv fs "bx")).map (fun b => let p := pair ":" b; (nat! p.1, p.2))
        access := if al = "-" ∨ al = "" then none else some ((listOf al).map parseAccessElem) }
    (.appl (parseAddr (kv fs "snd")) f, nat! (kv fs "cid"))
  | "pay" :: fs => (.pay (parseAddr (kv fs "snd")) (parseAddr (kv fs "rcv")) (parseAddr (kv fs "close")), 0)
  | "keyreg" :: fs => (.keyreg (parseAddr (kv fs "snd")), 0)
  | "acfg" :: fs => (.acfg (parseAddr (kv fs "snd")) (nat! (kv fs "asa")), 0)
  | "axfer" :: fs =>
    (.axfer (parseAddr (kv fs "snd")) (nat! (kv fs "asa")) (parseAddr (kv fs "rcv")) (parseAddr (kv fs "asnd"))
      (parseAddr (kv fs "aclose")), 0)
  | "afrz" :: fs => (.afrz (parseAddr (kv fs "snd")) (nat! (kv fs "asa")) (parseAddr (kv fs "acct")), 0)
  | _ => (.other .zero, 0)

def parsePolicy (s : String) : Option Policy :=
  if s = "-" ∨ s = "" then none else
  let parts := s.splitOn ";"
  let part (i : Nat) : List String := listOf (parts.getD i "")
  let ap (t : String) : Addr × Nat := let p := pair ":" t; (parseAddr p.1, nat! p.2)
  some { accts := (part 0).map parseAddr, assets := (part 1).map nat!, apps := (part 2).map nat!
         holdings := (part 3).map ap, locals := (part 4).map ap
         boxes := (part 5).map (fun t => let p := pair ":" t; (nat! p.1, p.2)) }

structure St where
  group : List Txn := []
  cids : List Nat := []
  low : Bool := false
  policy : Option Policy := none
  w : World := {}
  res : Option Res := none
  live : Bool := false
deriving Inhabited

def reset (line : String) : St :=
  match line.splitOn "|" with
  | head :: txs =>
    let hf := fields head
    let apps := (listOf (kv hf "apps")).filterMap fun a =>
      match a.splitOn ":" with
      | [id, cr, fbr, fba, ver] =>
        some { id := nat! id, creator := parseAddr cr, foreignBoxReads := fbr = "1", familyBoxAccess := fba = "1", version := nat! ver : AppInfo }
      | _ => none
    let lb := (listOf (kv hf "lb")).filterMap fun b =>
      match b.splitOn ":" with
      | [app, name, size] => some ((nat! app, name), nat! size)
      | _ => none
    let ptx := txs.map parseTx
    { group := ptx.map (·.1), cids := ptx.map (·.2), low := kv hf "low" = "1", policy := parsePolicy (kv hf "pol")
      w := { apps := apps, lboxes := lb }, res := none, live := true }
  | [] => {}

def acctArg (t : String) : AcctArg := if headC t = 'i' then .idx (nat! (dropS t 1)) else .addr (parseAddr t)
def isAddrArg (t : String) : Bool := headC t ≠ 'i'

/-- the lowest program version at which the harness program for the family assembles (0 = unknown family) -/
def minVersion : List String → Nat
  | "balance" :: _ => 2 | "minbal" :: _ => 3 | "acctp" :: _ => 6
  | "hold" :: _ => 2 | "asap" :: _ => 2 | "appp" :: _ => 5 | "gex" :: _ => 2
  | "opted" :: _ => 2 | "lget" :: _ => 2 | "lgetx" :: _ => 2 | "lput" :: _ => 2 | "ldel" :: _ => 2
  | "bcreate" :: _ => 8 | "bput" :: _ => 8 | "bdel" :: _ => 8 | "bget" :: _ => 8 | "blen" :: _ => 8
  | "xbcreate" :: _ => 13 | "xbput" :: _ => 13 | "xbdel" :: _ => 13 | "xbget" :: _ => 13 | "xblen" :: _ => 13
  | "ifa" :: fld :: _ => if fld = "Accounts" then 6 else 5
  | "ifs" :: fld :: _ => if fld = "Assets" then 6 else 5
  | "ifp" :: _ => 6
  | "isub" :: "appl" :: _ => 6
  | "isub" :: _ => 5
  | _ => 0

/-- families whose first operand is an account: bytes operands need version ≥ 4 -/
def acctOperand : List String → Option String
  | "balance" :: a :: _ => some a | "minbal" :: a :: _ => some a | "acctp" :: a :: _ => some a
  | "hold" :: a :: _ => some a | "opted" :: a :: _ => some a | "lget" :: a :: _ => some a
  | "lgetx" :: a :: _ => some a | "lput" :: a :: _ => some a | "ldel" :: a :: _ => some a
  | _ => none

def needsBytes (fam : List String) : Bool :=
  match acctOperand fam with | some a => isAddrArg a | none => false

def cls {α : Type} : Except Deny α → String
  | .ok _ => "ok"
  | .error d => d.toString

def set? (t : String) : Bool := t ≠ "z" ∧ t ≠ "-" ∧ t ≠ "" ∧ t ≠ "0"

/-- itxn_field assignments in program order; the first failing one decides -/
def assignAll (cx : Ctx) (accts : List String) : Except Deny Unit :=
  accts.forM fun t => if set? t then (do let _ ← assignAccount cx (parseAddr t); pure ()) else pure ()

def innerSubmit (w : World) (cx : Ctx) (a : List String) : Except Deny Unit :=
  let appAddrSelf := appAddr cx.appId
  match a with
  | ["axfer", x, rcv, asnd, aclose, snd] => do
    assignAll cx [snd]
    if set? x then (do let _ ← assignAsset cx (nat! x); pure ())
    assignAll cx [rcv, asnd, aclose]
    let sender := if set? snd then parseAddr snd else appAddrSelf
    let A (t : String) : Addr := if set? t then parseAddr t else .zero
    -- WellFormed: "cannot close asset by clawback" comes before allows
    if A asnd ≠ .zero ∧ A aclose ≠ .zero then pure ()
    else allows cx (.axfer sender (if set? x then nat! x else 0) (A rcv) (A asnd) (A aclose)) 0
  | ["afrz", x, acct] => do
    if set? x then (do let _ ← assignAsset cx (nat! x); pure ())
    assignAll cx [acct]
    if ¬ set? x ∨ ¬ set? acct then pure ()      -- WellFormed: zero asset / empty freeze account
    else allows cx (.afrz appAddrSelf (nat! x) (parseAddr acct)) 0
  | ["appl", p, accts, assets, apps] => do
    if set? p then (do let _ ← assignApp cx (nat! p); pure ())
    assignAll cx (listOf accts)
    (listOf assets).forM fun t => if set? t then (do let _ ← assignAsset cx (nat! t); pure ()) else pure ()
    (listOf apps).forM fun t => if set? t then (do let _ ← assignApp cx (nat! t); pure ()) else pure ()
    let pid := if set? p then nat! p else 0
    -- creation with empty programs is not well formed; self-call; unknown callee; callee too old: all before allows
    if pid = 0 ∨ pid = cx.appId then pure ()
    else match w.app pid with
      | none => pure ()
      | some info =>
        if info.version < 4 then pure ()
        else allows cx (.appl appAddrSelf pid ((listOf accts).filter set? |>.map parseAddr)
              ((listOf assets).filter set? |>.map nat!) ((listOf apps).filter set? |>.map nat!)) info.version
  | _ => pure ()

def stateStr (res : Option Res) (w : World) : String :=
  match res with
  | some r => s!"ua={r.unnamedAccess} db={r.dirtyBytes} io={w.ioBudget}"
  | none => s!"ua=- db=- io={w.ioBudget}"

def gateStr : Gate Unit → String
  | .pass _ => "ok" | .late => "ok" | .deny d => d.toString

def step (s : St) (line : String) : St × String :=
  match fields line with
  | "reset" :: _ => (reset line, "ready")
  | ["asa", _gi, id] =>
    if ¬ s.live then (s, "bad-op") else
    let r := match s.res with | some r => r | none => computeAvailability s.group
    let r := { r with createdAsas := nat! id :: r.createdAsas }
    let s := { s with res := some r }
    (s, "done " ++ stateStr s.res s.w)
  | "acc" :: gi :: ver :: fam =>
    if ¬ s.live then (s, "bad-op") else
    match s.group[nat! gi]?, s.cids[nat! gi]? with
    | some (.appl snd f), some cid =>
      let v := nat! ver
      let aid := if f.appId ≠ 0 then f.appId else cid
      let mv := minVersion fam
      if aid = 0 ∨ mv = 0 then (s, "bad-op")
      else if v < mv ∨ (v < 4 ∧ needsBytes fam) then (s, "asmfail")
      else
        let (w, r, deny) := enter s.group s.w s.res s.policy f aid
        let s := { s with w := w, res := some r }
        match deny with
        | some d => (s, d.toString ++ " " ++ stateStr s.res s.w)
        | none =>
          if preAccess v f then (s, "preaccess " ++ stateStr s.res s.w) else
          let cx : Ctx := { version := v, appId := aid, snd := snd, f := f, res := r, low := s.low, policy := s.policy }
          let plain (c : String) : St × String := (s, c ++ " " ++ stateStr s.res s.w)
          let box (op : String) (k : BoxKey) (size : Nat) : St × String :=
            let k : BoxKey := (k.1, if k.2 = "_" then "" else k.2)
            let (w', r', g) := boxOp s.w cx op k size
            let s' := { s with w := w', res := some r' }
            (s', gateStr g ++ " " ++ stateStr s'.res s'.w)
          match fam with
          | ["balance", a] => plain (cls (resolve cx (.acct (acctArg a))))
          | ["minbal", a] => plain (cls (resolve cx (.acct (acctArg a))))
          | ["acctp", a] => plain (cls (resolve cx (.acct (acctArg a))))
          | ["hold", a, x] => plain (cls (resolve cx (.holding (acctArg a) (nat! x))))
          | ["asap", x] => plain (cls (resolve cx (.assetParams (nat! x))))
          | ["appp", x] => plain (cls (resolve cx (.appParams (nat! x))))
          | ["gex", x] => plain (cls (resolve cx (.appParams (nat! x))))
          | ["opted", a, x] => plain (cls (resolve cx (.locals (acctArg a) (nat! x))))
          | ["lget", a] => plain (cls (resolve cx (.locals (acctArg a) 0)))
          | ["lgetx", a, x] => plain (cls (resolve cx (.locals (acctArg a) (nat! x))))
          | ["lput", a] => plain (cls (resolve cx (.localMut (acctArg a))))
          | ["ldel", a] => plain (cls (resolve cx (.localMut (acctArg a))))
          | ["bcreate", n, sz] => box "create" (aid, n) (nat! sz)
          | ["bput", n, sz] => box "put" (aid, n) (nat! sz)
          | ["bdel", n] => box "del" (aid, n) 0
          | ["bget", n] => box "get" (aid, n) 0
          | ["blen", n] => box "len" (aid, n) 0
          | ["xbcreate", p, n, sz] => box "create" (nat! p, n) (nat! sz)
          | ["xbput", p, n, sz] => box "put" (nat! p, n) (nat! sz)
          | ["xbdel", p, n] => box "del" (nat! p, n) 0
          | ["xbget", p, n] => box "get" (nat! p, n) 0
          | ["xblen", p, n] => box "len" (nat! p, n) 0
          | ["ifa", _, a] => plain (cls (resolve cx (.setAccount (parseAddr a))))
          | ["ifs", _, x] => plain (cls (resolve cx (.setAsset (nat! x))))
          | ["ifp", _, x] => plain (cls (resolve cx (.setApp (nat! x))))
          | "isub" :: rest => plain (cls (innerSubmit s.w cx rest))
          | _ => (s, "bad-op")
    | _, _ => (s, "bad-op")
  | _ => (s, "bad-op")

end AlgoVerif.Driver.C35
