import AlgoVerif.Base.Drv
import AlgoVerif.Base.Sha512
import AlgoVerif.Model.MerkleTrie
/-!
Line protocol of the C17 driver (see harness/crypto/merkletrie/zz_verif_c17_test.go).
State: the model `Store` (trie built by add/remove + committed image) AND the set-level `SetStore`;
every `dump`/`root` also evaluates `canon` on the set and flags `!notcanon` if the model trie is not the
canonical trie of the set (the executable content of `Props.C17.root_set_only`).
-/
namespace AlgoVerif.Driver.C17
open AlgoVerif.Drv Model.MerkleTrie

def hexDigit (c : Char) : Option Nat :=
  if '0' ≤ c ∧ c ≤ '9' then some (c.toNat - '0'.toNat)
  else if 'a' ≤ c ∧ c ≤ 'f' then some (c.toNat - 'a'.toNat + 10)
  else none

def unhexAux : List Char → Option Key
  | [] => some []
  | [_] => none
  | a :: b :: rest =>
    match hexDigit a, hexDigit b, unhexAux rest with
    | some x, some y, some t => some (UInt8.ofNat (16 * x + y) :: t)
    | _, _, _ => none

def unhex (s : String) : Option Key := if s = "-" then some [] else unhexAux s.toList

def hex2 (x : UInt8) : List Char := [Nat.digitChar (x.toNat / 16), Nat.digitChar (x.toNat % 16)]
def hexRaw (b : Key) : String := String.ofList (b.foldr (fun x acc => hex2 x ++ acc) [])
def hexOf (b : Key) : String := if b.isEmpty then "-" else hexRaw b

def H : Key → Key := AlgoVerif.Sha.sha512_256

mutual
def dumpT : T → String
  | .leaf s => "L" ++ hexOf s
  | .node cs => "N(" ++ dumpCs cs true ++ ")"
def dumpCs : Cs → Bool → String
  | .nil, _ => ""
  | .cons c t rest, first => (if first then "" else ",") ++ String.ofList (hex2 c) ++ ":" ++ dumpT t ++ dumpCs rest false
end

def dumpRoot : Option T → String
  | none => "E"
  | some t => dumpT t

mutual
def eqT : T → T → Bool
  | .leaf a, .leaf b => a == b
  | .node a, .node b => eqCs a b
  | _, _ => false
def eqCs : Cs → Cs → Bool
  | .nil, .nil => true
  | .cons c t r, .cons c' t' r' => c == c' && eqT t t' && eqCs r r'
  | _, _ => false
end

def eqRoot : Option T → Option T → Bool
  | none, none => true
  | some a, some b => eqT a b
  | _, _ => false

structure St where
  σ : Store
  s : SetStore
  rootPage : Bool     -- the committer holds a root page (some Commit happened)

def St.init : St := ⟨Store.empty, SetStore.empty, false⟩

def errStr : Err → String
  | .length => "err:length"
  | .panic => "PANIC"

/-- `!notcanon` when the trie built by the model's add/remove is not `canon` of the set -/
def canonFlag (st : St) : String :=
  if eqRoot st.σ.cur.root (canon (elemLenOf st.s.cur) st.s.cur) then "" else "!notcanon"

def step (st : St) (line : String) : St × String :=
  match fields line with
  | ["sha", h] => match unhex h with
    | some b => (st, hexRaw (H b))
    | none => (st, "bad-op")
  | "reset" :: _ => (St.init, "ok")
  | ["add", h] => match unhex h with
    | none => (st, "bad-op")
    | some d =>
      match st.σ.add d, st.s.add d with
      | .ok (r, σ'), .ok (r', s') => ({ st with σ := σ', s := s' }, showBool r ++ (if r = r' then "" else "!spec"))
      | .error e, .error e' => (st, errStr e ++ (if e = e' then "" else "!spec"))
      | .ok (r, σ'), .error _ => ({ st with σ := σ' }, showBool r ++ "!spec")
      | .error e, .ok _ => (st, errStr e ++ "!spec")
  | ["del", h] => match unhex h with
    | none => (st, "bad-op")
    | some d =>
      match st.σ.delete d, st.s.delete d with
      | .ok (r, σ'), .ok (r', s') => ({ st with σ := σ', s := s' }, showBool r ++ (if r = r' then "" else "!spec"))
      | .error e, .error e' => (st, errStr e ++ (if e = e' then "" else "!spec"))
      | .ok (r, σ'), .error _ => ({ st with σ := σ' }, showBool r ++ "!spec")
      | .error e, .ok _ => (st, errStr e ++ "!spec")
  | ["commit"] => ({ σ := st.σ.commit, s := st.s.commit, rootPage := true }, "ok")
  | ["evict"] =>
    match st.σ.evict true, st.s.evict true with
    | some σ', some s' => ({ σ := σ', s := s', rootPage := st.rootPage || st.σ.modified }, "ok")
    | _, _ => (st, "err:pending")
  | ["evictnc"] =>
    match st.σ.evict false, st.s.evict false with
    | some σ', some s' => ({ st with σ := σ', s := s' }, "ok")
    | _, _ => (st, "err:pending")
  | "reload" :: _ => ({ st with σ := st.σ.reload, s := st.s.reload }, "ok")
  | ["reloadbad"] => (st, if st.rootPage then "err:pagesize" else "ok")
  | ["root"] =>
    let (h, σ') := st.σ.root H
    let (h', s') := st.s.root H
    let committed := st.σ.modified && st.σ.cur.root.isSome
    ({ σ := σ', s := s', rootPage := st.rootPage || committed }, hexRaw h ++ (if h = h' then "" else "!notcanon"))
  | ["dump"] => (st, dumpRoot st.σ.cur.root ++ canonFlag st)
  | ["diskdump"] => (st, dumpRoot st.σ.persisted.root)
  | ["stats"] =>
    match st.σ.cur.root with
    | none => (st, "0 0 0")
    | some t => (st, s!"{t.nodeCount} {t.leafCount} {t.depth}")
  | _ => (st, "bad-op")

end AlgoVerif.Driver.C17
