import AlgoVerif.Base.Drv
import AlgoVerif.Spec.TrackerStore
import AlgoVerif.Model.TrackerStoreKV
/-!
Line protocol of the C47 driver (grammar: harness/ledger/store/trackerdb/testsuite/zz_verif_c47_test.go).
State: the spec `Store` plus the image saved at `begin` (a batch is atomic: `abort` restores it).
Every answer is printed exactly as the harness prints one back end's answer.
Command-line arguments = names of the generic-KV driver's deviations to emulate (Model.TrackerStoreKV and the
"not implemented" answers): pfx odel otop oallround spnil nocp nocount norlim olookwrap cdelany txsnap; and of the SQLite driver: histerr
(LookupOnlineHistory fails for an address without rows).  No argument = the spec.
-/
namespace AlgoVerif.Driver.C47
open AlgoVerif.Drv Spec.TrackerStore Model.TrackerStoreKV

def hexDigit (c : Char) : Option Nat :=
  if '0' ≤ c ∧ c ≤ '9' then some (c.toNat - '0'.toNat)
  else if 'a' ≤ c ∧ c ≤ 'f' then some (c.toNat - 'a'.toNat + 10)
  else none

def unhexAux : List Char → List Nat
  | a :: b :: rest =>
    match hexDigit a, hexDigit b with
    | some x, some y => (16 * x + y) :: unhexAux rest
    | _, _ => []
  | _ => []

/-- "_" and "nil" are the empty byte string -/
def unhex (s : String) : Key := if s = "_" ∨ s = "nil" then [] else unhexAux s.toList

def hex2 (x : Nat) : List Char := [Nat.digitChar (x / 16), Nat.digitChar (x % 16)]
def hexRaw (b : Key) : String := String.ofList (b.foldr (fun x acc => hex2 x ++ acc) [])
def hexOf (b : Key) : String := if b.isEmpty then "_" else hexRaw b

def addrOf (s : String) : Addr := match unhexAux s.toList with | [a, b] => a * 256 + b | _ => 0
def addrTok (a : Addr) : String := String.ofList (hex2 (a / 256) ++ hex2 (a % 256))

def nums (s : String) : List Nat := (s.splitOn ".").map nat!

def resOfTok (s : String) : ResRow :=
  match s.splitOn "." with
  | [k, x, y, f, u] => { kind := k, x := nat! x, y := nat! y, flags := nat! f, upd := nat! u }
  | _ => { kind := "x", x := 0, y := 0, flags := 0, upd := 0 }

def resTok (r : ResRow) : String := s!"{r.kind}.{r.x}.{r.y}.{r.flags}.{r.upd}"

def onlOfTok (s : String) : OnlRow :=
  match nums s with
  | [m, vf, vl, kd] => { m := m, vf := vf, vl := vl, kd := kd }
  | _ => { m := 0, vf := 0, vl := 0, kd := 0 }

def onlTok (o : OnlRow) : String := s!"{o.m}.{o.vf}.{o.vl}.{o.kd}"

def list (items : List String) : String := "[" ++ ",".intercalate items ++ "]"

structure St where
  quirks : List String := []
  cur : Store := Store.init
  saved : Option Store := none
  live : Bool := false

/-- insert consecutive rounds r, r+1, … (unique primary key: a duplicate is an error) -/
def insSeq (l : List (Nat × String)) (r : Nat) : List String → Option (List (Nat × String))
  | [] => some l
  | t :: rest => if has r l then none else insSeq (ins natLt r t l) (r + 1) rest

def insSp (l : List (Nat × String)) : List String → Option (List (Nat × String))
  | [] => some l
  | t :: rest =>
    match t.splitOn ":" with
    | [r, w] => if has (nat! r) l then none else insSp (ins natLt (nat! r) w l) rest
    | _ => none

/-- a write inside a batch: (new store, answer) -/
def write (qk : List String) (snap : Store) (s : Store) : List String → Store × String
  | ["ains", a, tok] =>
    let a := addrOf a
    if has a s.accts then (s, "err:unique") else ({ s with accts := ins natLt a tok s.accts }, "ok")
  | ["aupd", a, tok] =>
    let a := addrOf a
    if has a s.accts then ({ s with accts := ins natLt a tok s.accts }, "rows=1") else (s, "err:other")
  | ["adel", a] =>
    let a := addrOf a
    if has a s.accts then ({ s with accts := del a s.accts }, "rows=1") else (s, "rows=0")
  | ["rins", a, i, tok] =>
    let k : RKey := (addrOf a, nat! i)
    let r := resOfTok tok
    if ¬ has k.1 s.accts then (s, "err:other")
    else if r.kind ≠ "a" ∧ r.kind ≠ "p" then (s, "err:other")
    else if has k s.res then (s, "err:unique")
    else ({ s with res := ins rkLt k r s.res }, "ok")
  | ["rupd", a, i, tok] =>
    let k : RKey := (addrOf a, nat! i)
    if ¬ has k.1 s.accts then (s, "err:other")
    else if has k s.res then ({ s with res := ins rkLt k (resOfTok tok) s.res }, "rows=1") else (s, "rows=0")
  | ["rdel", a, i] =>
    let k : RKey := (addrOf a, nat! i)
    if ¬ has k.1 s.accts then (s, "err:other")
    else if has k s.res then ({ s with res := del k s.res }, "rows=1") else (s, "rows=0")
  | ["cins", c, t, a] =>
    let c := nat! c
    if has c s.creat then (s, "err:unique") else ({ s with creat := ins natLt c (nat! t, addrOf a) s.creat }, "ok")
  | ["cdel", c, t] =>
    let c := nat! c
    if qk.contains "cdelany" then ({ s with creat := del c s.creat }, "rows=1") else
    -- (a Pebble transaction without read-your-writes decides on the snapshot taken at begin)
    match find c (if qk.contains "txsnap" then snap.creat else s.creat) with
    | some (t', _) => if t' = nat! t then ({ s with creat := del c s.creat }, "rows=1") else (s, "rows=0")
    | none => (s, "rows=0")
  | ["kvput", k, v] => ({ s with kv := ins lexLt (unhex k) v s.kv }, "ok")
  | ["kvdel", k] => ({ s with kv := del (unhex k) s.kv }, "ok")
  | ["oins", a, u, tok] =>
    let k : OKey := (addrOf a, nat! u)
    if has k s.online then (s, "err:unique") else ({ s with online := ins okLt k (onlOfTok tok) s.online }, "ok")
  | ["odel", r] =>
    let del : Online → Online := if qk.contains "odel" then kvOnlineDelete (nat! r) else onlineDelete (nat! r)
    if qk.contains "txsnap" then ({ s with online := onlineDeleteVia del snap.online s.online }, "ok")
    else ({ s with online := del s.online }, "ok")
  | ["rpput", start, toks] =>
    let ts := toks.splitOn ","
    match insSeq s.rparams (nat! start) ts with
    | some l => ({ s with rparams := l }, "ok")
    | none => (s, "err:unique")
  | ["rpprune", r] => ({ s with rparams := pruneBelow (nat! r) s.rparams }, "ok")
  | ["ttnew", base, forget, toks] =>
    let ts := if toks = "-" then [] else toks.splitOn ","
    match insSeq s.txtail (nat! base) ts with
    | some l => ({ s with txtail := pruneBelow (nat! forget) l }, "ok")
    | none => (s, "err:unique")
  | ["round", r] =>
    let r := nat! r
    if s.round ≤ r then ({ s with round := r }, "ok") else (s, "err:other")
  | ["totals", st, tok] => ({ s with totals := ins natLt (nat! st) tok s.totals }, "ok")
  | ["spput", items] =>
    match insSp s.spctx (items.splitOn ",") with
    | some l => ({ s with spctx := l }, "ok")
    | none => (s, "err:unique")
  | ["spdel", r] => ({ s with spctx := pruneBelow (nat! r) s.spctx }, "ok")
  | ["cpu64", name, v] =>
    if qk.contains "nocp" then (s, "PANIC:unimplemented") else
    if nat! v = 0 then ({ s with cpState := del name s.cpState }, "ok")
    else ({ s with cpState := ins strLt name (some (nat! v), none) s.cpState }, "ok")
  | ["cpstr", name, v] =>
    if qk.contains "nocp" then (s, "PANIC:unimplemented") else
    if v = "_" then ({ s with cpState := del name s.cpState }, "ok")
    else ({ s with cpState := ins strLt name (none, some v) s.cpState }, "ok")
  | ["cpfsput", r, n] => if qk.contains "nocp" then (s, "PANIC:unimplemented") else ({ s with cpFS := ins natLt (nat! r) (nat! n) s.cpFS }, "ok")
  | ["cpfsdel", r] => if qk.contains "nocp" then (s, "PANIC:unimplemented") else ({ s with cpFS := pruneUpTo (nat! r) s.cpFS }, "ok")
  | ["cpunfins", r, n] =>
    if qk.contains "nocp" then (s, "PANIC:unimplemented") else
    if has (nat! r) s.cpUnf then (s, "err:unique") else ({ s with cpUnf := ins natLt (nat! r) (nat! n) s.cpUnf }, "ok")
  | ["cpunfdel", r] => if qk.contains "nocp" then (s, "PANIC:unimplemented") else ({ s with cpUnf := del (nat! r) s.cpUnf }, "ok")
  | ["cpstore", r, fn, label, size] =>
    if qk.contains "nocp" then (s, "PANIC:unimplemented") else
    let l := del (nat! r) s.cpStored
    if fn = "_" ∧ label = "_" ∧ nat! size = 0 then ({ s with cpStored := l }, "ok")
    else ({ s with cpStored := ins natLt (nat! r) (fn, label, nat! size) l }, "ok")
  | _ => (s, "bad-op")

def isWrite (o : String) : Bool :=
  ["ains", "aupd", "adel", "rins", "rupd", "rdel", "cins", "cdel", "kvput", "kvdel", "oins", "odel", "rpput", "rpprune",
   "ttnew", "round", "totals", "spput", "spdel", "cpu64", "cpstr", "cpfsput", "cpfsdel", "cpunfins", "cpunfdel", "cpstore"].contains o

def kvItem (withValues : Bool) (e : Key × String) : String :=
  hexOf e.1 ++ "=" ++ (if withValues then e.2 else "nil")

/-- one page of LookupKeysByPrefixCursor as printed: (round, items, last key, more) -/
def cursorPage (qk : List String) (s : Store) (pfx cursor : Key) (limit maxBytes : Nat) (withValues : Bool) (ex : List Key) :
    Option (Nat × List String × Option Key × Bool) :=
  if qk.contains "pfx" then
    let (rnd, kvs, more) := kvKeysByPrefixCursor pfx cursor limit maxBytes withValues ex s
    some (rnd, kvs.map (fun e => hexOf e.1 ++ "=" ++ e.2), (kvs.getLast?).map (·.1), more)
  else
    match keysByPrefixCursor pfx cursor limit maxBytes withValues ex s with
    | none => none
    | some (rnd, kvs, more) => some (rnd, kvs.map (kvItem withValues), (kvs.getLast?).map (·.1), more)

/-- kvscan: page through a prefix with cursor = last key returned (at most 64 pages) -/
def kvscan (qk : List String) (s : Store) (pfx : Key) (limit : Nat) (withValues : Bool) : Nat → Key → List String → String
  | 0, _, pages => ";".intercalate pages.reverse ++ " unfinished"
  | fuel + 1, cursor, pages =>
    match cursorPage qk s pfx cursor limit 0 withValues [] with
    | none => "err:other"
    | some (rnd, items, last, more) =>
      let pages := s!"{rnd}{list items}" :: pages
      match last, more with
      | some last, true => kvscan qk s pfx limit withValues fuel last pages
      | _, _ => ";".intercalate pages.reverse ++ " end"

def read (qk : List String) (s : Store) : List String → String
  | ["alook", a] =>
    match find (addrOf a) s.accts with
    | some tok => s!"rnd={s.round} ref=true data={tok}"
    | none => s!"rnd={s.round} ref=false data=0.0.0"
  | ["arowid", a] => if has (addrOf a) s.accts then "found ref=true" else "err:notfound"
  | ["rlook", a, i, ct] =>
    match find ((addrOf a, nat! i) : RKey) s.res with
    | some r =>
      if ctypeOf r ≠ nat! ct then "err:other" else s!"rnd={s.round} ref=true aidx={nat! i} data={resTok r}"
    | none => s!"rnd={s.round} ref=false aidx={nat! i} data=x.0.0.1.0"
  | ["rall", a] => s!"rnd={s.round} {list ((resOf (addrOf a) s.res).map (fun e => s!"{e.1.2}:{resTok e.2}"))}"
  | ["rlim", a, mn, mx, ct] =>
    if qk.contains "norlim" then "err:notsupported" else
    let p := limitedResources (addrOf a) (nat! mn) (nat! mx) (nat! ct) s
    s!"rnd={p.1} {list (p.2.map (fun e => s!"{e.1}:{resTok e.2.1}:{addrTok e.2.2}"))}"
  | ["rdata", a, i] =>
    if ¬ has (addrOf a) s.accts then "acct:err:notfound" else
    match find ((addrOf a, nat! i) : RKey) s.res with
    | some r => resTok r
    | none => "err:notfound"
  | ["clook", c, t] =>
    match find (nat! c) s.creat with
    | some (t', creator) =>
      if t' = nat! t then s!"rnd={s.round} ok=true addr={addrTok creator}" else s!"rnd={s.round} ok=false addr=0000"
    | none => s!"rnd={s.round} ok=false addr=0000"
  | ["kvget", k] =>
    match find (unhex k) s.kv with
    | some v => s!"rnd={s.round} val={if v = "nil" then "_" else v}"
    | none => s!"rnd={s.round} val=nil"
  | ["kvpfx", p, mx, pre] =>
    let entries : List (Key × Bool) := if pre = "-" then [] else
      (pre.splitOn ",").map (fun e => match e.splitOn ":" with | [k, b] => (unhex k, b = "1") | _ => ([], false))
    let pre := entries.foldl (fun acc e => ins lexLt e.1 e.2 acc) []
    let count := (entries.filter (·.2)).length
    if qk.contains "pfx" then
      let (rnd, keys) := kvKeysByPrefix (unhex p) (nat! mx) pre count s
      s!"rnd={rnd} {list (keys.map (fun k => hexOf k.1 ++ ":" ++ showBool k.2))}"
    else
    match keysByPrefix (unhex p) (nat! mx) pre count s with
    | some (rnd, keys) => s!"rnd={rnd} {list (keys.map (fun k => hexOf k.1 ++ ":" ++ showBool k.2))}"
    | none => "err:other"
  | ["kvcur", p, c, lim, mb, wv, excl] =>
    let ex := if excl = "-" then [] else (excl.splitOn ",").map unhex
    match cursorPage qk s (unhex p) (unhex c) (nat! lim) (nat! mb) (wv = "1") ex with
    | some (rnd, items, _, more) => s!"rnd={rnd} {list items} more={showBool more}"
    | none => "err:other"
  | ["kvscan", p, lim, wv] => kvscan qk s (unhex p) (nat! lim) (wv = "1") 64 [] []
  | ["olook", a, q] =>
    match (if qk.contains "olookwrap" then kvLookupOnline (addrOf a) (nat! q) s.online else lookupOnline (addrOf a) (nat! q) s.online) with
    | some e => s!"rnd={s.round} ref=true upd={e.1.2} data={onlTok e.2}"
    | none => s!"rnd={s.round} ref=false upd=0 data=0.0.0.0"
  | ["ohist", a] =>
    let h := onlineHistory (addrOf a) s.online
    if h.isEmpty ∧ qk.contains "histerr" then "err:other" else s!"rnd={s.round} {list (h.map (fun e => s!"{e.1.2}:{onlTok e.2}"))}"
  | ["odata", a] =>
    match (onlineHistory (addrOf a) s.online).getLast? with
    | some e => s!"ref=true data={onlTok e.2}"
    | none => "err:notfound"
  | ["otop", q, off, n] =>
    let t := if qk.contains "otop" then kvOnlineTop (nat! q) (nat! off) (nat! n) s.online
             else onlineTop (nat! q) (nat! off) (nat! n) s.online
    let t := sortBy (fun (x y : OKey × OnlRow) => decide (x.1.1 < y.1.1)) t
    list (t.map (fun e => s!"{addrTok e.1.1}:{e.2.m}.{e.2.vf}.{e.2.vl}"))
  | ["oexp", q, v] =>
    list ((onlineExpired (nat! q) (nat! v) s.online).map (fun e => s!"{addrTok e.1.1}:{onlTok e.2}"))
  | ["oall", mx] =>
    let r := if qk.contains "oallround" then s.round else 0
    list ((onlineAll (nat! mx) s.online).map (fun e => s!"{addrTok e.1.1}/{e.1.2}@{r}:{onlTok e.2}"))
  | ["rplook", r] =>
    match find (nat! r) s.rparams with
    | some t => t
    | none => "err:notfound"
  | ["rpall"] =>
    let e := match s.rparams.getLast? with | some p => p.1 | none => 0
    s!"end={e} {list (s.rparams.map (·.2))}"
  | ["ttload", r] =>
    match loadTxTail (nat! r) s with
    | some (base, l) => s!"base={base} {list l}"
    | none => "err:other"
  | ["around"] => s!"rnd={s.round}"
  | ["totalsget", st] =>
    match find (nat! st) s.totals with
    | some t => t
    | none => "err:notfound"
  | ["count", what] =>
    if qk.contains "nocount" then "0" else
    match what with
    | "accounts" => toString s.accts.length
    | "resources" => toString s.res.length
    | "kvs" => toString s.kv.length
    | "online" => toString s.online.length
    | "roundparams" => toString s.rparams.length
    | _ => "bad-op"
  | ["splook", r] =>
    match find (nat! r) s.spctx with
    | some w => s!"{nat! r}:{w}"
    | none => "err:notfound"
  | ["spall"] =>
    if s.spctx.isEmpty ∧ ¬ qk.contains "spnil" then "nil" else list (s.spctx.map (fun e => s!"{e.1}:{e.2}"))
  | ["cpu64get", name] =>
    if qk.contains "nocp" then "PANIC:unimplemented" else
    match find name s.cpState with
    | some (some v, _) => toString v
    | _ => "0"
  | ["cpstrget", name] =>
    if qk.contains "nocp" then "PANIC:unimplemented" else
    match find name s.cpState with
    | some (_, some v) => v
    | _ => "_"
  | ["cpfsget", r] =>
    if qk.contains "nocp" then "PANIC:unimplemented" else
    match find (nat! r) s.cpFS with
    | some n => s!"exists=true n={n}"
    | none => "exists=false n=0"
  | ["cpfsold", r] => if qk.contains "nocp" then "PANIC:unimplemented" else list ((s.cpFS.filter (fun e => decide (e.1 ≤ nat! r))).map (fun e => toString e.1))
  | ["cpunfall"] => if qk.contains "nocp" then "PANIC:unimplemented" else list (s.cpUnf.map (fun e => s!"{e.1}:{e.2}"))
  | ["cpget", r] =>
    if qk.contains "nocp" then "PANIC:unimplemented" else
    match find (nat! r) s.cpStored with
    | some (fn, label, size) => s!"{fn} {label} {size}"
    | none => "err:notfound"
  | ["cpoldest", c, k] => if qk.contains "nocp" then "PANIC:unimplemented" else list ((oldestCatchpoints (nat! c) (nat! k) s).map (fun e => s!"{e.1}:{e.2}"))
  | _ => "bad-op"

def step (st : St) (line : String) : St × String :=
  match fields line with
  | "reset" :: _ => ({ st with cur := Store.init, saved := none, live := true }, "ok")
  | ["begin"] =>
    if st.saved.isSome then (st, "bad-op nested") else ({ st with saved := some st.cur }, "ok")
  | ["commit"] =>
    if st.saved.isNone then (st, "bad-op no-batch") else ({ st with saved := none }, "ok")
  | ["abort"] =>
    match st.saved with
    | some s => ({ st with cur := s, saved := none }, "ok")
    | none => (st, "bad-op no-batch")
  | f@(o :: rest) =>
    let f := if o = "kvpfx" ∧ f.length = 3 then f ++ ["-"] else f
    if ¬ st.live then (st, "bad-op no-reset")
    else if isWrite o then
      if st.saved.isNone then (st, "bad-op no-batch") else
      let (s', out) := write st.quirks (st.saved.getD st.cur) st.cur f
      ({ st with cur := s' }, out)
    else if o.startsWith "tx" then
      match st.saved with
      | none => (st, "bad-op no-batch")
      | some snap => (st, read st.quirks (if st.quirks.contains "txsnap" then snap else st.cur) ((o.drop 2).toString :: rest))
    else if st.saved.isSome then (st, "bad-op in-batch")
    else (st, read st.quirks st.cur f)
  | [] => (st, "bad-op")

end AlgoVerif.Driver.C47
