import AlgoVerif.Base.Drv
import AlgoVerif.Spec.AgreementSync
/-!
Driver `c05`: the reaction functions of `Spec.AgreementSync` (what an honest node votes on a timeout) on the line protocol of
`harness/agreement/zz_verif_c05_test.go:TestVerifC05Player`, which runs the same situations on ONE real `player` + `rootRouter`.

    soft <bottom 0|1> <prop v|-> <leader v|->                        →  soft <v|none>          (`softValue`, `issueSoftVote`)
    next <period> <bottom> <prop> <staged v|-> <avail 0|1>           →  next <v|bot>           (`nextValue`, `issueNextVote`)
    fast <period> <bottom> <prop> <staged v|-> <avail 0|1>           →  fast <late|redo|down> <v|bot>   (`fastVote`, `issueFastVote`)
    rebroadcast <go step> <period>                                   →  rebroadcast <0|1>      (`partitioned`)
    bfresh <player round> <player period> <LastConcluding> <player step> <bundle round> <bundle period> <bundle step>  →  bfresh <0|1>
                                                                        (`bundleFresh`; the model ignores LastConcluding and the player step)
    deadline-increase <period>                                       →  ok                     (implementation monitor, not a model question)

`bottom/prop` = the cache of the previous period as the node reads it, `staged` = the value with a soft quorum in the period,
`avail` = its payload is held.  `next`/`fast` evaluate the Spec functions on a real history: 4 nodes of weight 1, T = 3, and — if a
value is staged — three soft votes for it, so that `committable` is computed from quorums exactly as in the lemmas.
-/
namespace AlgoVerif.Driver.C05
open AlgoVerif.Drv AlgoVerif.Spec.AgreementAbs AlgoVerif.Spec.AgreementSync

def P4 : Params := ⟨[0, 1, 2, 3], fun _ => 1, fun _ => true, 3⟩

def optv (s : String) : Option Val := if s = "-" then none else s.toNat?

def hist (p : Nat) : Option Val → List Ev
  | none => []
  | some w => [.vote ⟨0, p, .soft, some w⟩, .vote ⟨1, p, .soft, some w⟩, .vote ⟨2, p, .soft, some w⟩]

def env (leader : Option Val) (avail : Bool) : Env := ⟨leader, fun _ => avail⟩

def showV (none : String) : Option Val → String
  | .none => none
  | .some v => toString v

def handle (line : String) : String :=
  match fields line with
  | ["soft", b, pr, ld] =>
      "soft " ++ showV "none" (softValue (env (optv ld) true) ⟨b == "1", optv pr⟩)
  | ["next", p, b, pr, st, av] =>
      "next " ++ showV "bot" (nextValue P4 (env none (av == "1")) (hist (nat! p) (optv st)) (nat! p) ⟨b == "1", optv pr⟩)
  | ["fast", p, b, pr, st, av] =>
      let r := fastVote P4 (env none (av == "1")) (hist (nat! p) (optv st)) (nat! p) ⟨b == "1", optv pr⟩
      let s := match r.1 with
        | .next 250 => "late"
        | .next 251 => "redo"
        | .next 252 => "down"
        | _ => "?"
      s!"fast {s} {showV "bot" r.2}"
  | ["bfresh", pr, pp, _lc, _ps, br, bp, bs] =>
      "bfresh " ++ (if bundleFresh (nat! pr) (nat! pp) (nat! br) (nat! bp) (nat! bs) then "1" else "0")
  | ["deadline-increase", _] => "ok"        -- a monitor on the implementation alone: the harness reports `ok` or the decrease
  | ["rebroadcast", s, p] => "rebroadcast " ++ (if partitioned (nat! s - 3) (nat! p) then "1" else "0")
  | _ => "bad-op"

end AlgoVerif.Driver.C05
