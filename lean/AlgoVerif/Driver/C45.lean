import AlgoVerif.Base.Drv
import AlgoVerif.Spec.Arith
namespace AlgoVerif.Driver.C45
open AlgoVerif.Drv Spec.Arith

def nb (p : Nat × Bool) : String := s!"{p.1} {showBool p.2}"

def trackerStep (acc : List String × Bool) (op : String × Nat × Nat) : List String × Bool :=
  let (o, a, b) := op
  let (r, f) := match o with
    | "add" => oadd 64 a b
    | "sub" => osub 64 a b
    | _ => omul 64 a b
  (acc.1 ++ [toString r], acc.2 || f)

partial def triples : List String → List (String × Nat × Nat)
  | o :: a :: b :: rest => (o, nat! a, nat! b) :: triples rest
  | _ => []

def handle (line : String) : String :=
  match fields line with
  | ["oadd", w, a, b] => nb (oadd (nat! w) (nat! a) (nat! b))
  | ["osub", w, a, b] => nb (osub (nat! w) (nat! a) (nat! b))
  | ["omul", w, a, b] => nb (omul (nat! w) (nat! a) (nat! b))
  | ["addsat", w, a, b] => toString (addsat (nat! w) (nat! a) (nat! b))
  | ["subsat", w, a, b] => toString (subsat (nat! w) (nat! a) (nat! b))
  | ["mulsat", w, a, b] => toString (mulsat (nat! w) (nat! a) (nat! b))
  | ["odiff", a, b] => let r := odiff (nat! a) (nat! b); s!"{r.1} {showBool r.2}"
  | ["muldiv", a, b, c] => nb (muldiv (nat! a) (nat! b) (nat! c))
  | ["mul2div", a, b, c, d] => let r := mul2div (nat! a) (nat! b) (nat! c) (nat! d); s!"{r.1} {r.2.1} {showBool r.2.2}"
  | ["divvy", n, d, q] =>
      if nat! d = 0 ∨ nat! n > nat! d then "PANIC" else
      let r := divvy (nat! n) (nat! d) (nat! q); s!"{r.1} {r.2}"
  | ["microsmul", a, b] => nb (microsMul (nat! a) (nat! b))
  | ["mulmicros", a, b] => nb (microsMul (nat! a) (nat! b))
  | ["mulint", a, i] => nb (mulInt (nat! a) (int! i))
  | ["feeforusage", a, b, c, d] => let r := feeForUsage (nat! a) (nat! b) (nat! c) (nat! d); s!"{r.1} {r.2.1} {showBool r.2.2}"
  | "tracker" :: rest =>
      let (outs, f) := (triples rest).foldl trackerStep ([], false)
      s!"{",".intercalate outs} {showBool f}"
  | _ => "bad-op"

end AlgoVerif.Driver.C45
