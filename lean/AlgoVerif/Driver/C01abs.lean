import AlgoVerif.Base.Drv
import AlgoVerif.Spec.AgreementAbs
/-!
# exe `c01abs` — trace acceptor for `Spec.AgreementAbs` (C01 layer 1)

Reads one abstract event per line on stdin, keeps the history of the current round, and prints exactly one
line per input line.  It evaluates `Spec.AgreementAbs.checkEv` (the executable form of `okEv`, see
`checkEv_none_iff`) for every event against the history before it, and monitors honest commits.
`Props.C01.commits_agree`: if the parameters satisfy `hq` and no line was rejected, `SAFETY-VIOLATION` cannot
appear.

## Grammar (tokens separated by blanks; `#…` lines and empty lines are ignored and answered `skip`)

```
params n=<N> w=<w0,…,wN-1> honest=<b0,…,bN-1> T=<T> [mode=lenient|strict]
        starts a new history.  Nodes are 0…N-1, `bi` ∈ {0,1}.  Default mode: lenient (code-level rules).
        answer:  params ok hq=<true|false> W=<W> F=<F> T=<T> mode=<mode>
reset   new history (next round), same parameters and value table.          answer: reset
vote   <n> <p> <step> <val>      node n casts a vote for period p            (attest / a Byzantine vote)
see    <n> <p> <val>             n's period-p tracker caches a next threshold for val
                                 (voteTrackerPeriod.handle case nextThreshold)
enter  <n> <p> next <val>        enterPeriod(p) caused by a next threshold of p-1 for val
enter  <n> <p> soft <val>        enterPeriod(p) caused by a soft threshold of p for val
enter  <n> <p> cert <val>        enterPeriod(p) caused by a cert threshold of p for val (block missing)
commit <n> <p> <val>             ensureAction with a period-p certificate for val
crash  <n>                       restart of n from its last persisted state
end                              answer:  summary events=<k> rejects=<k> commits=<k> violation=<true|false>
```
`<step>`: `soft` | `cert` | `next` (= `next0`) | `next<k>` | `late` | `redo` | `down` | a number = the Go value of
`agreement.step` (`1` soft, `2` cert, `s ≥ 3` ↦ `next(s-3)`, so `late=253 ↦ next250`, `redo ↦ next251`,
`down ↦ next252`; the names `late/redo/down` map to the same).  Step `0` (propose) is answered `skip`.
`<val>`: `bot` (or `-`, `_`, `⊥`) is ⊥; any other token is a value, compared as a string (use the digest hex).
soft/cert causes and commits need a non-⊥ value.

answers for events:  `ok` | `reject <rule>`  and, for a `commit` of an honest node whose value differs from an
earlier honest commit of the history, the same line continues with ` SAFETY-VIOLATION <first> <this>`.
A rejected event is still appended to the history (the acceptor keeps going).  Unparsable line: `bad-line`.

Rule names: vote-unique vote-period soft-after-next soft-start cert-after-next cert-staged next-own-cert
next-value see-quorum enter-grow enter-cause commit-cert  (see `Spec.AgreementAbs.rulesB`).

## What the concrete harness must emit, per player action (order within one `handle` call: see, enter, vote, commit)

* `voteTrackerPeriod` caching a next threshold (any period of the current round) → `see`;
* `player.enterPeriod(target)` → `enter n target <cause>` with the source threshold event;
* every vote of an honest key that is **released** or whose `attest` state was **persisted** → `vote`, at the
  position of the `handle` call that produced the `attest` (not at release time); an `attest` that was neither
  persisted nor released before a crash is dropped;
* `ensureAction` → `commit n <certificate period> <value>`;
* restart from disk → `crash n` (the model reverts n's local state to the one at its last `vote` line of this
  history), followed by one `see` per next threshold cached in the restored period trackers of this round and,
  if the restored `player.Period` exceeds the model's, the `enter` that explains it (re-emitted `see`s are always
  accepted: the quorum they refer to is still in the history).  This also covers state restored from an
  `attest` of another round (pipelined next-round votes);
* one history per round: `reset` (or a new `params` line when the committee weights change) between rounds;
* every vote of a Byzantine key that any honest node accepted → `vote` (anywhere before its first use).
-/
namespace AlgoVerif.Driver.C01abs
open AlgoVerif.Drv AlgoVerif.Spec.AgreementAbs

structure St where
  P : Params := ⟨[], fun _ => 0, fun _ => false, 0⟩
  lenient : Bool := true
  hist : List Ev := []
  toks : List String := []            -- value table, index = value
  first : Option (Val × String) := none
  events : Nat := 0
  rejects : Nat := 0
  ncommits : Nat := 0
  violation : Bool := false

def kv (key : String) (fs : List String) : Option String :=
  fs.findSome? fun f => match f.splitOn "=" with
    | [k, v] => if k == key then some v else none
    | _ => none

def natList (s : String) : List Nat := (s.splitOn ",").filter (· ≠ "") |>.map nat!

def parseStep (s : String) : Option (Option Step) :=   -- none = bad, some none = skip
  match s with
  | "soft" => some (some .soft)
  | "cert" => some (some .cert)
  | "next" => some (some (.next 0))
  | "late" => some (some (.next 250))
  | "redo" => some (some (.next 251))
  | "down" => some (some (.next 252))
  | _ =>
    if s.startsWith "next" then (s.drop 4).toString.toNat?.map (fun k => some (.next k))
    else match s.toNat? with
      | some 0 => some none
      | some 1 => some (some .soft)
      | some 2 => some (some .cert)
      | some k => some (some (.next (k - 3)))
      | none => none

def isBot (s : String) : Bool := s == "bot" || s == "-" || s == "_" || s == "⊥"

/-- intern a value token -/
def intern (st : St) (tok : String) : St × Val :=
  match st.toks.findIdx? (· == tok) with
  | some i => (st, i)
  | none => ({ st with toks := st.toks ++ [tok] }, st.toks.length)

def internOpt (st : St) (tok : String) : St × Option Val :=
  if isBot tok then (st, none) else let (st', v) := intern st tok; (st', some v)

def tokOf (st : St) (v : Val) : String := st.toks.getD v "?"

/-- append an event, answer with the verdict -/
def feed (st : St) (e : Ev) : St × String :=
  let verdict := checkEv st.lenient st.P st.hist e
  let st1 := { st with hist := e :: st.hist, events := st.events + 1,
                       rejects := st.rejects + (if verdict.isSome then 1 else 0) }
  let out := match verdict with | none => "ok" | some r => s!"reject {r}"
  match e with
  | .commit n _ v =>
      if st.P.honest n then
        let st2 := { st1 with ncommits := st1.ncommits + 1 }
        match st.first with
        | none => ({ st2 with first := some (v, tokOf st v) }, out)
        | some (v0, t0) =>
            if v0 = v then (st2, out)
            else ({ st2 with violation := true }, s!"{out} SAFETY-VIOLATION {t0} {tokOf st v}")
      else (st1, out)
  | _ => (st1, out)

def handle (st : St) (line : String) : St × String :=
  match fields line with
  | [] => (st, "skip")
  | "params" :: fs =>
      match kv "n" fs, kv "w" fs, kv "honest" fs, kv "T" fs with
      | some n, some w, some hs, some t =>
          let ws := natList w
          let bs := natList hs
          let P : Params := ⟨List.range (nat! n), fun i => ws.getD i 0, fun i => bs.getD i 0 != 0, nat! t⟩
          let lenient := kv "mode" fs != some "strict"
          ({ P := P, lenient := lenient },
           s!"params ok hq={showBool (decide (HQ P))} W={W P} F={F P} T={P.T} mode={if lenient then "lenient" else "strict"}")
      | _, _, _, _ => (st, "bad-line")
  | ["reset"] =>
      ({ st with hist := [], first := none, events := 0, rejects := 0, ncommits := 0, violation := false }, "reset")
  | ["end"] =>
      (st, s!"summary events={st.events} rejects={st.rejects} commits={st.ncommits} violation={showBool st.violation}")
  | ["vote", n, p, s, x] =>
      match parseStep s with
      | none => (st, "bad-line")
      | some none => (st, "skip")
      | some (some step) =>
          let (st', xv) := internOpt st x
          feed st' (.vote ⟨nat! n, nat! p, step, xv⟩)
  | ["see", n, p, y] =>
      let (st', yv) := internOpt st y
      feed st' (.see (nat! n) (nat! p) yv)
  | ["enter", n, p, "next", y] =>
      let (st', yv) := internOpt st y
      feed st' (.enter (nat! n) (nat! p) (.viaNext yv))
  | ["enter", n, p, "soft", x] =>
      if isBot x then (st, "bad-line") else
      let (st', xv) := intern st x
      feed st' (.enter (nat! n) (nat! p) (.viaSoft xv))
  | ["enter", n, p, "cert", x] =>
      if isBot x then (st, "bad-line") else
      let (st', xv) := intern st x
      feed st' (.enter (nat! n) (nat! p) (.viaCert xv))
  | ["commit", n, p, v] =>
      if isBot v then (st, "bad-line") else
      let (st', vv) := intern st v
      feed st' (.commit (nat! n) (nat! p) vv)
  | ["crash", n] => feed st (.crash (nat! n))
  | f :: _ => if f.startsWith "#" then (st, "skip") else (st, "bad-line")

end AlgoVerif.Driver.C01abs
