import AlgoVerif.Base.Drv
import AlgoVerif.Spec.LedgerHistory
import AlgoVerif.Model.AcctUpdates
/-! Line-protocol driver for C08 / C10 (exe `au`). Same op grammar as harness/ledger/zz_verif_au_test.go.
`au spec`  answers every query from Spec.LedgerHistory (genesis + blocks), ignoring commit / reload / evict / flush;
`au model` steps Model.AcctUpdates through the same operations and answers from the code-shaped lookups / pages. -/
namespace AlgoVerif.Driver.Au
open AlgoVerif.Drv AlgoVerif.Spec.LedgerHistory
open AlgoVerif.Model (AcctUpdates.State)
namespace M
export AlgoVerif.Model.AcctUpdates (State Cfg Err init newBlock commitUpTo reload evict flushCaches lookupAcct lookupRes lookupKv
  lookupCreator pageKv pageAssets pageApps mkCaches)
end M

def hexVal (c : Char) : Nat :=
  if c.isDigit then c.toNat - '0'.toNat
  else if 'a' ≤ c ∧ c ≤ 'f' then c.toNat - 'a'.toNat + 10
  else 0

def hexBytesAux : List Char → List Nat
  | a :: b :: rest => (hexVal a * 16 + hexVal b) :: hexBytesAux rest
  | _ => []

/-- `-` = nil, `_` = empty, else hex -/
def unhexOpt (s : String) : Option Bytes :=
  if s == "-" then none else if s == "_" then some [] else some (hexBytesAux s.toList)

def unhex (s : String) : Bytes := (unhexOpt s).getD []

def hexOf (l : List Nat) : String :=
  let dig (n : Nat) : Char := if n < 10 then Char.ofNat (48 + n) else Char.ofNat (87 + n)
  String.ofList (l.flatMap (fun b => [dig (b / 16), dig (b % 16)]))

def hexOpt : Option Bytes → String
  | none => "-"
  | some [] => "_"
  | some l => hexOf l

def optNat : Option Nat → String
  | none => "-"
  | some n => toString n

def kvArg (fs : List String) (key : String) : String :=
  match fs.find? (fun f => f.startsWith (key ++ "=")) with
  | some f => (f.drop (key.length + 1)).toString
  | none => ""

def natArg (fs : List String) (key : String) : Nat := nat! (kvArg fs key)

def parsePart (s : String) : Part :=
  if s == "-" then .absent else if s == "x" then .deleted else .val (nat! s)

def parseCType (s : String) : CType := if s == "L" then .app else .asset

def joinOr (l : List String) : String := if l.isEmpty then "-" else ",".intercalate l

def acctStr (d : AcctData) : String := s!"{d.bal}/{d.ta}/{d.tap}/{d.tal}/{d.tapp}"

def parseItem (d : Delta) (it : String) : Delta :=
  match fields it with
  | ["A", id, bal, ta, tap, tal, tapp] =>
    { d with accts := d.accts ++ [(nat! id, ⟨nat! bal, nat! ta, nat! tap, nat! tal, nat! tapp⟩)] }
  | ["S", id, c, p, h] => { d with res := d.res ++ [⟨nat! id, nat! c, .asset, parsePart p, parsePart h⟩] }
  | ["L", id, c, p, h] => { d with res := d.res ++ [⟨nat! id, nat! c, .app, parsePart p, parsePart h⟩] }
  | ["K", k, data, old] => { d with kvs := d.kvs ++ [⟨unhex k, unhexOpt data, unhexOpt old⟩] }
  | ["C", c, t, cr, a] => { d with creat := d.creat ++ [⟨nat! c, parseCType t, cr == "1", nat! a⟩] }
  | _ => d

def parseBlock (line : String) : Delta :=
  match line.splitOn " | " with
  | [] => {}
  | hd :: items => items.foldl parseItem { ver := natArg (fields hd) "v" }

def parseGen (s : String) : List (Addr × AcctData) :=
  (s.splitOn ",").filterMap (fun e => match e.splitOn ":" with
    | [id, bal] => some (nat! id, { bal := nat! bal })
    | _ => none)

structure St where
  model : Bool := false
  active : Bool := false
  hist : History := {}
  σ : M.State := {}

def errStr : M.Err → String
  | .beforeDb => "err before-db"
  | .tooHigh => "err too-high"
  | .staleDb => "err stale-db"
  | .retry => "err retry"
  | .wrongType => "err wrong-type"
  | .db w => "err db " ++ w
  | .panic w => "PANIC " ++ w

def resItemStr (it : ResItem) : String :=
  s!"{it.cidx}:H{optNat it.hold}:C{optNat it.creator}:P{optNat it.params}"

def kvItemStr (it : Key × Option Bytes) : String := hexOpt (some it.1) ++ "=" ++ hexOpt it.2

def parseLimits (s : String) : List Nat := (s.splitOn ",").map nat!

/-- page iteration of the harness for assets / apps: next page starts after the last id; a short page ends it -/
def iterRes (page : Nat → Nat → Except String (List ResItem)) (limits : List Nat) : String :=
  let rec go (fuel i gt : Nat) (acc : List String) : String :=
    match fuel with
    | 0 => "STUCK " ++ "|".intercalate acc
    | fuel + 1 =>
      let limit := limits.getD (i % limits.length) 1
      match page gt limit with
      | .error e => e
      | .ok items =>
        let acc := acc ++ [joinOr (items.map resItemStr)]
        if items.length < limit then "ok " ++ "|".intercalate acc
        else go fuel (i + 1) ((items.getLast?.map (·.cidx)).getD gt) acc
  go 200 0 0 []

def iterKv (page : Key → Nat → Except String (List (Key × Option Bytes) × Bool)) (cursor : Key) (limits : List Nat) : String :=
  let rec go (fuel i : Nat) (cursor : Key) (acc : List String) : String :=
    match fuel with
    | 0 => "STUCK " ++ "|".intercalate acc
    | fuel + 1 =>
      match page cursor (limits.getD (i % limits.length) 1) with
      | .error e => e
      | .ok (items, more) =>
        let acc := acc ++ [joinOr (items.map kvItemStr)]
        if !more || items.isEmpty then
          "ok " ++ "|".intercalate (if more then acc ++ ["MORE-BUT-EMPTY"] else acc)
        else go fuel (i + 1) ((items.getLast?.map (·.1)).getD cursor) acc
  go 200 0 cursor []

/-! #### spec mode -/

def specQuery (h : History) (fs : List String) : String :=
  let latest := h.latest
  match fs with
  | ["q", "acct", r, id] =>
    let rnd := nat! (r.drop 2).toString
    if rnd > latest then "err too-high" else
    let f := fun r => acctAt h r (nat! id)
    s!"ok {acctStr (f rnd)} vtmax={validMax f rnd latest}"
  | ["q", "res", r, id, c, t] =>
    let rnd := nat! (r.drop 2).toString
    if rnd > latest then "err too-high" else
    let f := fun r => resAt h r (nat! id) (nat! c) (parseCType t)
    let v := f rnd
    s!"ok P{optNat v.params} H{optNat v.hold} vtmax={validMax f rnd latest}"
  | ["q", "kv", r, k] =>
    let rnd := nat! (r.drop 2).toString
    if rnd > latest then "err too-high" else "ok " ++ hexOpt (kvAt h rnd (unhex k))
  | ["q", "creator", r, c, t] =>
    let rnd := nat! (r.drop 2).toString
    if rnd > latest then "err too-high" else
    match creatorAt h rnd (nat! c) (parseCType t) with
    | some a => s!"ok {a}"
    | none => "none"
  | ["q", "latest", id] =>
    let a := nat! id
    let cs := ((dedup h.cidxs).mergeSort (fun x y => x ≤ y))
    let part (t : CType) (f : ResVal → Option Nat) : String :=
      ",".intercalate (cs.filterMap (fun c => (f (resAt h latest a c t)).map (fun v => s!"{c}:{v}")))
    s!"ok r={latest} {(acctAt h latest a).bal} AP[{part .asset (·.params)}] AH[{part .asset (·.hold)}] LP[{part .app (·.params)}] LH[{part .app (·.hold)}]"
  | _ => "bad-op"

def specPage (h : History) (fs : List String) (iter : Bool) : String :=
  let latest := h.latest
  match fs with
  | _ :: "assets" :: id :: rest =>
    if iter then iterRes (fun gt limit => .ok (pageAssets h (nat! id) gt limit)) (parseLimits (kvArg rest "limits"))
    else s!"ok r={latest} {joinOr ((pageAssets h (nat! id) (natArg rest "gt") (natArg rest "limit")).map resItemStr)}"
  | _ :: "apps" :: id :: rest =>
    let wp := kvArg rest "params" == "1"
    if iter then iterRes (fun gt limit => .ok (pageApps h (nat! id) gt limit wp)) (parseLimits (kvArg rest "limits"))
    else s!"ok r={latest} {joinOr ((pageApps h (nat! id) (natArg rest "gt") (natArg rest "limit") wp).map resItemStr)}"
  | _ :: "kv" :: rest =>
    let rnd := natArg rest "r"
    if rnd > latest then "err too-high" else
    let pfx := unhex (kvArg rest "prefix")
    let cursor := unhex (kvArg rest "cursor")
    let maxb := natArg rest "maxb"
    let vals := kvArg rest "vals" == "1"
    -- a box page is a non-empty prefix of the live list, not necessarily the longest one the caps allow (the DB layer may
    -- stop early): the oracle prints the whole live list after the cursor, the check verifies the prefix / cover property
    let _ := (maxb, iter)
    s!"live r={rnd} {joinOr ((liveKv h rnd pfx cursor).map (fun it => kvItemStr (kvView vals it)))}"
  | _ => "bad-op"

def specFull (h : History) (fs : List String) : String :=
  match fs with
  | ["full", "kv", r] =>
    let rnd := nat! (r.drop 2).toString
    if rnd > h.latest then "err too-high" else
    "ok " ++ joinOr ((liveKv h rnd [] []).map (fun it => kvItemStr (it.1, some it.2)))
  | ["full", "res", id] =>
    let a := nat! id
    s!"ok r={h.latest} {joinOr ((liveAssets h h.latest a 0 ++ liveApps h h.latest a 0 true).map resItemStr)}"
  | _ => "bad-op"

/-! #### model mode -/

def modelQuery (σ : M.State) (fs : List String) : M.State × String :=
  match fs with
  | ["q", "acct", r, id] =>
    match M.lookupAcct σ (nat! (r.drop 2).toString) (nat! id) with
    | (.ok (d, vt), σ') => (σ', s!"ok {acctStr d} vt={vt}")
    | (.error e, σ') => (σ', errStr e)
  | ["q", "res", r, id, c, t] =>
    match M.lookupRes σ (nat! (r.drop 2).toString) (nat! id) (nat! c) (parseCType t) with
    | (.ok (v, vt), σ') => (σ', s!"ok P{optNat v.params} H{optNat v.hold} vt={vt}")
    | (.error e, σ') => (σ', errStr e)
  | ["q", "kv", r, k] =>
    match M.lookupKv σ (nat! (r.drop 2).toString) (unhex k) with
    | (.ok v, σ') => (σ', "ok " ++ hexOpt v)
    | (.error e, σ') => (σ', errStr e)
  | ["q", "creator", r, c, t] =>
    match M.lookupCreator σ (nat! (r.drop 2).toString) (nat! c) (parseCType t) with
    | .ok (some a) => (σ, s!"ok {a}")
    | .ok none => (σ, "none")
    | .error e => (σ, errStr e)
  | _ => (σ, "-")

def exStr {α : Type} (f : α → String) : Except M.Err α → Except String α
  | .ok a => .ok a
  | .error e => let _ := f; .error (errStr e)

def modelPage (σ : M.State) (fs : List String) (iter : Bool) : String :=
  match fs with
  | _ :: "assets" :: id :: rest =>
    let page := fun gt limit => match M.pageAssets σ (nat! id) gt limit with
      | .ok p => Except.ok p | .error e => Except.error (errStr e)
    if iter then iterRes (fun gt limit => (page gt limit).map (·.items)) (parseLimits (kvArg rest "limits"))
    else match page (natArg rest "gt") (natArg rest "limit") with
      | .ok p => s!"ok r={p.round} {joinOr (p.items.map resItemStr)}"
      | .error e => e
  | _ :: "apps" :: id :: rest =>
    let wp := kvArg rest "params" == "1"
    let page := fun gt limit => match M.pageApps σ (nat! id) gt limit wp with
      | .ok p => Except.ok p | .error e => Except.error (errStr e)
    if iter then iterRes (fun gt limit => (page gt limit).map (·.items)) (parseLimits (kvArg rest "limits"))
    else match page (natArg rest "gt") (natArg rest "limit") with
      | .ok p => s!"ok r={p.round} {joinOr (p.items.map resItemStr)}"
      | .error e => e
  | _ :: "kv" :: rest =>
    let rnd := natArg rest "r"
    let pfx := unhex (kvArg rest "prefix")
    let cursor := unhex (kvArg rest "cursor")
    let maxb := natArg rest "maxb"
    let vals := kvArg rest "vals" == "1"
    let page := fun cur limit => match M.pageKv σ rnd pfx cur limit maxb vals with
      | .ok p => Except.ok p | .error e => Except.error (errStr e)
    if iter then iterKv (fun cur limit => (page cur limit).map (fun p => (p.items, p.more))) cursor (parseLimits (kvArg rest "limits"))
    else match page cursor (natArg rest "limit") with
      | .ok p => s!"ok r={p.round} more={showBool p.more} {joinOr (p.items.map kvItemStr)}"
      | .error e => e
  | _ => "bad-op"

def withTinyCaches (σ : M.State) : M.State :=
  let c := M.mkCaches σ.cfg
  { σ with baseAccounts := c.1, baseResources := c.2.1, baseKVs := c.2.2 }

def step (st : St) (line : String) : St × String :=
  let fs := fields line
  match fs with
  | "reset" :: rest =>
    let gen := parseGen (kvArg rest "gen")
    let cfg : M.Cfg := { lookback := natArg rest "lb", cache := kvArg rest "cache" == "1",
                         pa := natArg rest "pa", pr := natArg rest "pr", pk := natArg rest "pk" }
    ({ st with active := true, hist := { gen := gen, blocks := [] }, σ := M.init cfg gen }, "ok")
  | _ =>
  if !st.active then (st, "no-case") else
  match fs with
  | "block" :: _ =>
    let d := parseBlock line
    let h := { st.hist with blocks := st.hist.blocks ++ [d] }
    if st.model then
      let σ := M.newBlock st.σ d
      ({ st with hist := h, σ := σ }, s!"ok latest={σ.latest}")
    else ({ st with hist := h }, s!"ok latest={h.latest}")
  | "commit" :: rest =>
    if !st.model then (st, "-") else
    match M.commitUpTo st.σ (natArg rest "r") with
    | .ok σ => ({ st with σ := σ }, s!"ok db={σ.dbRound}")
    | .error e => (st, "err commit " ++ errStr e)
  | ["reload"] =>
    if !st.model then (st, "-") else
    match M.reload st.σ with
    | .ok σ => let σ := withTinyCaches σ; ({ st with σ := σ }, s!"ok db={σ.dbRound} latest={σ.latest}")
    | .error e => (st, "err reload " ++ errStr e)
  | ["flush"] => if st.model then ({ st with σ := M.flushCaches st.σ }, "ok") else (st, "ok")
  | "evict" :: rest =>
    if st.model then ({ st with σ := M.evict st.σ (natArg rest "a") (natArg rest "r") (natArg rest "k") }, "ok") else (st, "ok")
  | "q" :: _ =>
    if st.model then let (σ, out) := modelQuery st.σ fs; ({ st with σ := σ }, out)
    else (st, specQuery st.hist fs)
  | "page" :: _ => (st, if st.model then modelPage st.σ fs false else specPage st.hist fs false)
  | "iter" :: _ => (st, if st.model then modelPage st.σ fs true else specPage st.hist fs true)
  | "full" :: _ => (st, if st.model then "-" else specFull st.hist fs)
  | _ => (st, "bad-op")

end AlgoVerif.Driver.Au
