import AlgoVerif.Base.Drv
import AlgoVerif.Model.Bundle
/-! Line protocol of the C04 harness on `Model.Bundle` (grammar: harness/agreement/zz_verif_c04_test.go).
The environment of every op is the token instance `tokEnv`: signatures and credentials are described by how the
harness made them, the ledger by the thresholds / validity windows written in the op. -/
namespace AlgoVerif.Driver.C04
open AlgoVerif.Drv AlgoVerif.Model.Bundle

def splitNat (s : String) (sep : String) : List Nat := (s.splitOn sep).map nat!

/-- digest token `r.j` ↦ one number (injective for j < 2^32): r = 0 literal digests, r ≥ 1 block digests -/
def digest (s : String) : Nat :=
  match splitNat s "." with
  | [r, j] => r * 4294967296 + j
  | _ => 0

def propOfFields : List String → Proposal
  | [op, oprop, d, e] => ⟨nat! op, nat! oprop, digest d, digest e⟩
  | _ => bottom

def parseProp (s : String) : Proposal := propOfFields (s.splitOn "/")

def parseSig (s : String) : SigTok :=
  match s.splitOn "/" with
  | [k, f, snd, r, p, st, a, b, c, d] =>
    { key := nat! k, flipped := nat! f != 0, msg := ⟨nat! snd, nat! r, nat! p, nat! st, propOfFields [a, b, c, d]⟩ }
  | _ => { key := 0, flipped := true, msg := default }

def parseCred (s : String) : CredTok :=
  match splitNat s "/" with
  | [k, f, r, p, st, w] => { key := k, flipped := f != 0, round := r, period := p, step := st, weight := w }
  | _ => { key := 0, flipped := true, round := 0, period := 0, step := 0, weight := 0 }

def parseThr (s : String) : Params :=
  match splitNat s "/" with
  | [a, b, c, d, e, f] => ⟨a, b, c, d, e, f⟩
  | _ => default

def parseList (s : String) : List String := if s == "-" || s == "" then [] else s.splitOn ","

/-- (authenticator, (sender, VoteFirstValid, VoteLastValid)) -/
def parseVote (s : String) : Option (VoteAuth CredTok SigTok × (Nat × Record)) :=
  match s.splitOn ";" with
  | [snd, fv, lv, c, g] => some (⟨nat! snd, parseCred c, parseSig g⟩, (nat! snd, ⟨nat! fv, nat! lv⟩))
  | _ => none

def parseEq (s : String) : Option (EqAuth CredTok SigTok × (Nat × Record)) :=
  match s.splitOn ";" with
  | [snd, fv, lv, c, p0, p1, g0, g1] =>
    some (⟨nat! snd, parseCred c, parseSig g0, parseSig g1, parseProp p0, parseProp p1⟩, (nat! snd, ⟨nat! fv, nat! lv⟩))
  | _ => none

/-- the ledger of an op: the record of the first token naming the address; any other address has the zero record -/
def memberOf (perr : Bool) (ws : List (Nat × Record)) (sender _round _period _step : Nat) : Option Record :=
  if perr then none
  else match ws.lookup sender with
    | some r => some r
    | none => some ⟨0, 0⟩

def envOf (perr : Bool) (thr : Params) (ws : List (Nat × Record)) : Env CredTok SigTok :=
  tokEnv (fun _ => if perr then none else some thr) (memberOf perr ws)

def voteErrStr : VoteErr → String
  | .membership => "membership"
  | .proposeSender => "proposesender"
  | .proposeFuturePeriod => "futureperiod"
  | .bottom => "bottom"
  | .params => "params"
  | .beforeFirstValid => "firstvalid"
  | .afterLastValid => "lastvalid"
  | .sig => "sig"
  | .cred => "cred"
  | .credZero => "credzero"

def bundleErrStr : BundleErr → String
  | .proposeStep => "propose"
  | .params => "params"
  | .tooLarge => "toolarge"
  | .dupVote => "dupvote"
  | .dupEqVote => "dupeq"
  | .invalidVote => "invalid"
  | .notEnough => "weight"
  | .certStep => "certstep"
  | .certRound => "certround"
  | .certDigest => "certdigest"

def build (thr perr r p s prop votes eqs : String) : Option (Env CredTok SigTok × UBundle CredTok SigTok) := do
  let vs ← (parseList votes).mapM parseVote
  let es ← (parseList eqs).mapM parseEq
  let ws := vs.map (·.2) ++ es.map (·.2)
  let env := envOf (perr == "1") (parseThr thr) ws
  some (env, { round := nat! r, period := nat! p, step := nat! s, proposal := parseProp prop,
               votes := vs.map (·.1), eqVotes := es.map (·.1) })

def handle (line : String) : String :=
  match fields line with
  | ["bundle", thr, perr, r, p, s, prop, votes, eqs] =>
    match build thr perr r p s prop votes eqs with
    | none => "bad-op"
    | some (env, b) =>
      match verify env b with
      | .ok w => s!"accept {w}"
      | .error e => "reject " ++ bundleErrStr e
  | ["cert", thr, perr, r, p, s, prop, votes, eqs, br, bj] =>
    match build thr perr r p s prop votes eqs with
    | none => "bad-op"
    | some (env, b) =>
      match authenticate env b ⟨nat! br, nat! br * 4294967296 + nat! bj⟩ with
      | .ok _ => "accept"
      | .error e => "reject " ++ bundleErrStr e
  | ["vote", perr, snd, fv, lv, r, p, s, prop, c, g] =>
    let env := envOf (perr == "1") default [(nat! snd, ⟨nat! fv, nat! lv⟩)]
    match verifyVote env ⟨nat! snd, nat! r, nat! p, nat! s, parseProp prop⟩ (parseCred c) (parseSig g) with
    | .ok w => toString w
    | .error e => "reject " ++ voteErrStr e
  | ["eqvote", perr, snd, fv, lv, r, p, s, c, p0, p1, g0, g1] =>
    let env := envOf (perr == "1") default [(nat! snd, ⟨nat! fv, nat! lv⟩)]
    match verifyEqVote env (nat! r) (nat! p) (nat! s) ⟨nat! snd, parseCred c, parseSig g0, parseSig g1, parseProp p0, parseProp p1⟩ with
    | .ok w => toString w
    | .error .identical => "reject identical"
    | .error (.pair0 e) => "reject pair0 " ++ voteErrStr e
    | .error (.pair1 e) => "reject pair1 " ++ voteErrStr e
  | ["rq", thr, s, w] =>
    let p := parseThr thr
    s!"{showBool (reachesQuorum p (nat! s) (nat! w))} {threshold p (nat! s)}"
  | _ => "bad-op"

end AlgoVerif.Driver.C04
