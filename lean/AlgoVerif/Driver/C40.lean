import AlgoVerif.Base.Drv
import AlgoVerif.Base.Msgpack
import AlgoVerif.Model.CodecSchema
/-!
Driver `c40` (stateful: remembers the schema of every type it was told about).

  `schema <type> <ty-text>`                      → `schema-ok` | `schema-bad <why>`      (`SchemaWF`)
  `<type> <mode> <seed> <hex> [<obj-text>]`      → `canon <dump>` | `noncanon <reason> <dump>` | `malformed`,
        followed by ` schema=ok` when an object text is given and `enc (toV ty obj)` (Model.CodecSchema, the bytes
        Props.C40Schema speaks about) equals the given bytes, ` schema=<problem>` otherwise
  `<hex>`                                        → the classification alone

The verdict `canon` is exactly `isCanonicalBytes` (Props.C40.canonical_bytes_iff); the reason is diagnostic only.
Text syntax of types and objects: tools/c40h/describe.go.
-/
namespace AlgoVerif.Driver.C40
open AlgoVerif.Drv AlgoVerif.Msgpack

def firstDiff : Nat → Bytes → Bytes → Option (Nat × Nat)
  | _, [], [] => none
  | i, [], b :: _ => some (i, b.toNat)
  | i, _ :: _, [] => some (i, 256)
  | i, a :: as, b :: bs => if a == b then firstDiff (i+1) as bs else some (i, b.toNat)

def hasAdjDup : List V → Bool
  | a :: b :: r => (sortKey a == sortKey b) || hasAdjDup (b :: r)
  | _ => false

mutual
def dupB : V → Bool
  | .arr vs => dupL vs
  | .map kvs => hasAdjDup (kvs.map Prod.fst) || dupM kvs
  | _ => false
def dupL : List V → Bool
  | [] => false
  | v :: vs => dupB v || dupL vs
def dupM : List (V × V) → Bool
  | [] => false
  | (k, v) :: r => dupB k || (dupB v || dupM r)
end

def tagName (t : Nat) : String :=
  if 0xcc ≤ t ∧ t ≤ 0xcf then "wide-uint"
  else if 0xd0 ≤ t ∧ t ≤ 0xd3 then "wide-or-signed-int"
  else if 0xd9 ≤ t ∧ t ≤ 0xdb then "wide-str-header"
  else if 0xc4 ≤ t ∧ t ≤ 0xc6 then "wide-bin-header"
  else if t = 0xdc ∨ t = 0xdd then "wide-array-header"
  else if t = 0xde ∨ t = 0xdf then "wide-map-header"
  else "other"

def classify (bs : Bytes) : String :=
  match dec bs with
  | none => "malformed"
  | some (v, r) =>
    if isCanonicalBytes bs then "canon " ++ dump v
    else
      let reason :=
        if !r.isEmpty then "trailing-bytes"
        else if !wfB v then "range"
        else if dupB v then "duplicate-key"
        else if !sortedB v then "unsorted-keys"
        else match firstDiff 0 (enc v) bs with
          | some (i, t) => s!"non-minimal@{i}:{tagName t}"
          | none => "unknown"
      "noncanon " ++ reason ++ " " ++ dump v

/-! ### parser for the type / object texts -/
open AlgoVerif.CodecSchema

abbrev P (α : Type) := List Char → Option (α × List Char)

def pNat : P Nat := fun cs =>
  let ds := cs.takeWhile Char.isDigit
  if ds.isEmpty then none else some (ds.foldl (fun a c => a * 10 + (c.toNat - 48)) 0, cs.drop ds.length)

def pInt : P Int := fun cs =>
  match cs with
  | '-' :: r => (pNat r).map fun (n, t) => (-(n : Int), t)
  | _ => (pNat cs).map fun (n, t) => ((n : Int), t)

def isHex (c : Char) : Bool := c.isDigit || (c.toNat ≥ 97 && c.toNat ≤ 102)

def pHex : P Bytes := fun cs =>
  let hs := cs.takeWhile isHex
  (unhexL hs).map fun b => (b, cs.drop hs.length)

def pChar (c : Char) : P Unit := fun cs =>
  match cs with
  | d :: r => if c == d then some ((), r) else none
  | [] => none

mutual
partial def pTy : P Ty := fun cs =>
  match cs with
  | 'B' :: r => some (.bool, r)
  | 'U' :: r => (pNat r).map fun (n, t) => (.uint n, t)
  | 'I' :: r => (pNat r).map fun (n, t) => (.int n, t)
  | 'S' :: r => some (.str, r)
  | 'Y' :: r => some (.bytes, r)
  | 'F' :: r => (pNat r).map fun (n, t) => (.fixedBytes n, t)
  | 'L' :: '(' :: r => do
      let (e, t) ← pTy r
      let (_, t) ← pChar ')' t
      pure (.slice e, t)
  | 'A' :: r => do
      let (n, t) ← pNat r
      let (_, t) ← pChar '(' t
      let (e, t) ← pTy t
      let (_, t) ← pChar ')' t
      pure (.array n e, t)
  | 'M' :: '(' :: r => do
      let (k, t) ← pTy r
      let (_, t) ← pChar ',' t
      let (v, t) ← pTy t
      let (_, t) ← pChar ')' t
      pure (.map k v, t)
  | 'T' :: '(' :: ')' :: r => some (.struct [], r)
  | 'T' :: '(' :: r => do
      let (fs, t) ← pFields r
      pure (.struct fs, t)
  | _ => none
/-- `<hexname>:<0|1>:<ty>` separated by `;`, closed by `)` -/
partial def pFields : P (List Field) := fun cs => do
  let (name, t) ← pHex cs
  let (_, t) ← pChar ':' t
  let (oe, t) ← pNat t
  let (_, t) ← pChar ':' t
  let (ty, t) ← pTy t
  match t with
  | ';' :: t' => do
      let (rest, t'') ← pFields t'
      pure ((name, oe == 1, ty) :: rest, t'')
  | ')' :: t' => pure ([(name, oe == 1, ty)], t')
  | _ => none
end

mutual
partial def pObj : P Obj := fun cs =>
  match cs with
  | 't' :: r => some (.bool true, r)
  | 'f' :: r => some (.bool false, r)
  | 'u' :: r => (pNat r).map fun (n, t) => (.uint n, t)
  | 'i' :: r => (pInt r).map fun (n, t) => (.int n, t)
  | 's' :: r => (pHex r).map fun (b, t) => (.str b, t)
  | 'y' :: 'n' :: r => some (.bytesNil, r)
  | 'y' :: r => (pHex r).map fun (b, t) => (.bytes b, t)
  | 'x' :: r => (pHex r).map fun (b, t) => (.fixed b, t)
  | 'l' :: 'n' :: r => some (.sliceNil, r)
  | 'l' :: '(' :: r => (pObjs r).map fun (xs, t) => (.slice xs, t)
  | 'a' :: '(' :: r => (pObjs r).map fun (xs, t) => (.array xs, t)
  | 'm' :: 'n' :: r => some (.mapNil, r)
  | 'm' :: '(' :: ')' :: r => some (.map [], r)
  | 'm' :: '(' :: r => (pPairs r).map fun (xs, t) => (.map xs, t)
  | 'r' :: '(' :: r => (pObjs r).map fun (xs, t) => (.struct xs, t)
  | _ => none
/-- objects separated by `,`, closed by `)` (possibly none) -/
partial def pObjs : P (List Obj) := fun cs =>
  match cs with
  | ')' :: r => some ([], r)
  | _ => do
    let (o, t) ← pObj cs
    match t with
    | ',' :: t' => do
        let (rest, t'') ← pObjs t'
        if rest.isEmpty then none else pure (o :: rest, t'')
    | ')' :: t' => pure ([o], t')
    | _ => none
partial def pPairs : P (List (Obj × Obj)) := fun cs => do
  let (k, t) ← pObj cs
  let (_, t) ← pChar '=' t
  let (v, t) ← pObj t
  match t with
  | ',' :: t' => do
      let (rest, t'') ← pPairs t'
      pure ((k, v) :: rest, t'')
  | ')' :: t' => pure ([(k, v)], t')
  | _ => none
end

def parseAll {α : Type} (p : P α) (s : String) : Option α :=
  match p s.toList with
  | some (a, []) => some a
  | _ => none

/-- the schema verdict for one instance: `ok` iff the object is well typed and the model's bytes are the real bytes -/
def schemaVerdict (tys : List (String × Ty)) (name otext : String) (bs : Bytes) : String :=
  match tys.lookup name with
  | none => "notype"
  | some ty =>
    match parseAll pObj otext with
    | none => "obj-parse-error"
    | some o =>
      if !HasTy ty o then "illtyped"
      else
        let m := enc (toV ty o)
        if m == bs then "ok"
        else
          let pos := match firstDiff 0 m bs with | some (i, _) => i | none => 0
          s!"MISMATCH@{pos}:model={hexOf (m.take 3000)}"

abbrev St := List (String × Ty)

def step (st : St) (line : String) : St × String :=
  match fields line with
  | ["schema", _, "-"] => (st, "schema-skip")
  | ["schema", name, tytext] =>
    match parseAll pTy tytext with
    | none => (st, "schema-bad parse-error")
    | some ty => if SchemaWF ty then ((name, ty) :: st, "schema-ok") else (st, "schema-bad not-wellformed")
  | [hx] => (st, match unhex hx with | none => "malformed" | some bs => classify bs)
  | [_, _, _, hx] => (st, match unhex hx with | none => "malformed" | some bs => classify bs)
  | [name, _, _, hx, otext] =>
    match unhex hx with
    | none => (st, "malformed")
    | some bs =>
      let c := classify bs
      if otext == "-" then (st, c) else (st, c ++ " schema=" ++ schemaVerdict st name otext bs)
  | _ => (st, "malformed")

end AlgoVerif.Driver.C40
