import AlgoVerif.Base.Drv
import AlgoVerif.Base.Msgpack
/-!
Driver `c40`.  Op line:  `<type> <mode> <seed> <hex>`  (only the last field is read; a line with a single field is
the hex itself).  Result:  `canon <dump>` | `noncanon <reason> <dump>` | `malformed`.
The verdict `canon` is exactly `isCanonicalBytes` (Props.C40.canonical_bytes_iff); the reason is diagnostic only.
-/
namespace AlgoVerif.Driver.C40
open AlgoVerif.Drv AlgoVerif.Msgpack

def firstDiff : Nat → Bytes → Bytes → Option (Nat × Nat)
  | _, [], [] => none
  | i, [], b :: _ => some (i, b.toNat)
  | i, _ :: _, [] => some (i, 256)
  | i, a :: as, b :: bs => if a == b then firstDiff (i+1) as bs else some (i, b.toNat)

def hasAdjDup : List V → Bool
  | a :: b :: r => (sortKey a == sortKey b) || hasAdjDup (b :: r)
  | _ => false

mutual
def dupB : V → Bool
  | .arr vs => dupL vs
  | .map kvs => hasAdjDup (kvs.map Prod.fst) || dupM kvs
  | _ => false
def dupL : List V → Bool
  | [] => false
  | v :: vs => dupB v || dupL vs
def dupM : List (V × V) → Bool
  | [] => false
  | (k, v) :: r => dupB k || (dupB v || dupM r)
end

def tagName (t : Nat) : String :=
  if 0xcc ≤ t ∧ t ≤ 0xcf then "wide-uint"
  else if 0xd0 ≤ t ∧ t ≤ 0xd3 then "wide-or-signed-int"
  else if 0xd9 ≤ t ∧ t ≤ 0xdb then "wide-str-header"
  else if 0xc4 ≤ t ∧ t ≤ 0xc6 then "wide-bin-header"
  else if t = 0xdc ∨ t = 0xdd then "wide-array-header"
  else if t = 0xde ∨ t = 0xdf then "wide-map-header"
  else "other"

def classify (bs : Bytes) : String :=
  match dec bs with
  | none => "malformed"
  | some (v, r) =>
    if isCanonicalBytes bs then "canon " ++ dump v
    else
      let reason :=
        if !r.isEmpty then "trailing-bytes"
        else if !wfB v then "range"
        else if dupB v then "duplicate-key"
        else if !sortedB v then "unsorted-keys"
        else match firstDiff 0 (enc v) bs with
          | some (i, t) => s!"non-minimal@{i}:{tagName t}"
          | none => "unknown"
      "noncanon " ++ reason ++ " " ++ dump v

def handle (line : String) : String :=
  match (fields line).getLast? with
  | none => "malformed"
  | some hx =>
    match unhex hx with
    | none => "malformed"
    | some bs => classify bs

end AlgoVerif.Driver.C40
