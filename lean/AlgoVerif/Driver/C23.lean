import AlgoVerif.Base.Drv
import AlgoVerif.Model.AppStorage
/-! Line-protocol driver for C23 (exe `c23`): Model.AppStorage behind the op grammar of harness/ledger/zz_verif_c23_test.go
(`reset`, `block`, `group T;T;…`, `endblock`).  Applications are named by ordinals (creation order) on both sides. -/
namespace AlgoVerif.Driver.C23
open AlgoVerif.Drv AlgoVerif.Model.AppStorage

def hexVal (c : Char) : Nat :=
  if c.isDigit then c.toNat - '0'.toNat
  else if 'a' ≤ c ∧ c ≤ 'f' then c.toNat - 'a'.toNat + 10
  else 0

def unhexAux : List Char → List Nat
  | a :: b :: rest => (hexVal a * 16 + hexVal b) :: unhexAux rest
  | _ => []

def unhex (s : String) : Bytes := unhexAux s.toList

def hexByte (b : Nat) : String :=
  let dig (n : Nat) : Char := if n < 10 then Char.ofNat (48 + n) else Char.ofNat (87 + n)
  String.ofList [dig (b / 16), dig (b % 16)]

def hexOf (l : Bytes) : String := String.join (l.map hexByte)

/-- `HEX_N`: the bytes HEX followed by N zero bytes -/
def parseVal (s : String) : Bytes :=
  match s.splitOn "_" with
  | [h, n] => unhex h ++ zeros (nat! n)
  | _ => []

def parseTVal (ty v : String) : TVal := if ty == "u" then .uint (nat! v) else .bytes (parseVal v)

def parseEffect (s : String) : Option Effect :=
  match s.splitOn "." with
  | ["gp", k, ty, v] => some (.globalPut (unhex k) (parseTVal ty v))
  | ["gd", k] => some (.globalDel (unhex k))
  | ["lp", a, k, ty, v] => some (.localPut (nat! a) (unhex k) (parseTVal ty v))
  | ["ld", a, k] => some (.localDel (nat! a) (unhex k))
  | ["bc", o, n, sz] => some (.boxCreate (nat! o) (unhex n) (nat! sz))
  | ["br", o, n, sz] => some (.boxResize (nat! o) (unhex n) (nat! sz))
  | ["bp", o, n, v] => some (.boxPut (nat! o) (unhex n) (parseVal v))
  | ["bw", o, n, st, v] => some (.boxReplace (nat! o) (unhex n) (nat! st) (parseVal v))
  | ["bs", o, n, st, ln, v] => some (.boxSplice (nat! o) (unhex n) (nat! st) (nat! ln) (parseVal v))
  | ["bd", o, n] => some (.boxDel (nat! o) (unhex n))
  | ["bl", o, n] => some (.boxLen (nat! o) (unhex n))
  | ["fam", b] => some (.setFam (nat! b))
  | ["fbr", b] => some (.setFbr (nat! b))
  | _ => none

def parseScript (s : String) : Option (List Effect) :=
  if s == "-" || s == "" then some [] else (s.splitOn "/").mapM parseEffect

def parseAccts (s : String) : List Addr :=
  if s == "-" || s == "" then [] else (s.splitOn "+").map nat!

def parseRef (s : String) : BoxRef :=
  match s.splitOn "." with
  | [a, n] => (nat! a, unhex n)
  | _ => (0, [])

def parseRefs (s : String) : List BoxRef :=
  if s == "-" || s == "" then [] else (s.splitOn "+").map parseRef

def parseOC (s : String) : Option OC :=
  match s with
  | "noop" => some .noop | "optin" => some .optin | "closeout" => some .closeout | "delete" => some .delete | "clear" => some .clear
  | _ => none

def parseTxn (s : String) : Option Txn :=
  match s.splitOn "," with
  | ["create", snd, gu, gb, lu, lb, accts, refs, script] => do
    let sc ← parseScript script
    some (.create (nat! snd) ⟨nat! gu, nat! gb⟩ ⟨nat! lu, nat! lb⟩ (parseAccts accts) (parseRefs refs) sc)
  | ["call", snd, app, oc, accts, refs, script] => do
    let sc ← parseScript script
    let o ← parseOC oc
    some (.call (nat! snd) (nat! app) o (parseAccts accts) (parseRefs refs) sc)
  | ["update", snd, app, gu, gb] => some (.update (nat! snd) (nat! app) ⟨nat! gu, nat! gb⟩)
  | ["fund", _, _, _] => some .fund
  | _ => none

/-! ### dump -/

def rleAux : Nat → Nat → Bytes → List String
  | cur, cnt, [] => [s!"{hexByte cur}*{cnt}"]
  | cur, cnt, b :: rest => if b = cur then rleAux cur (cnt + 1) rest else s!"{hexByte cur}*{cnt}" :: rleAux b 1 rest

def rle : Bytes → String
  | [] => "-"
  | b :: rest => ".".intercalate (rleAux b 1 rest)

def b01 (b : Bool) : String := if b then "1" else "0"
def sch (s : Schema) : String := s!"{s.nui}.{s.nbs}"
def tv : TVal → String
  | .uint n => s!"u{n}"
  | .bytes b => "b" ++ hexOf b

def users : List Nat := [1, 2, 3, 4]

def dumpApp (σ : State) (a : Nat) : List String :=
  let t := [s!"T{a}={σ.tb a},{σ.tbb a}"]
  let x := match σ.apps a with
    | none => []
    | some app =>
      s!"X{a}={app.creator},{b01 app.fba},{b01 app.fbr},{sch app.g.max},{sch app.lschema},{sch app.g.counts}" ::
        app.g.kv.map (fun kv => s!"G{a}:{hexOf kv.1}={tv kv.2}")
  let l := users.flatMap (fun u => match σ.locals u a with
    | none => []
    | some s => s!"L{a}@{u}={sch s.max},{sch s.counts}" :: s.kv.map (fun kv => s!"L{a}@{u}:{hexOf kv.1}={tv kv.2}"))
  let b := (σ.boxes a).map (fun nv => s!"B{a}:{hexOf nv.1}={rle nv.2}")
  t ++ x ++ l ++ b

def dump (σ : State) : String :=
  let toks := (List.range (σ.nextApp - 1)).flatMap (fun i => dumpApp σ (i + 1))
  " ".intercalate (toks.mergeSort (fun a b => a ≤ b))

def logsStr (ls : List (List Nat)) : String :=
  ";".intercalate (ls.map (fun l => ".".intercalate (l.map toString)))

def P : Proto := {}

def step (σ : State) (line : String) : State × String :=
  if line == "reset" then (State.empty, "ok")
  else if line == "block" then (σ, "ok")
  else if line == "endblock" then (σ, "end | " ++ dump σ)
  else if line == "group" || line.startsWith "group " then
    let body := (line.drop 5).toString.trimAscii.toString
    let specs := if body == "" then [] else body.splitOn ";"
    match specs.mapM parseTxn with
    | none => (σ, "bad-op")
    | some g =>
      match evalGroup P σ g with
      | .ok (σ', av, logs) => (σ', s!"ok L={logsStr logs} D={av.dirtyBytes}/{av.ioBudget} I=ok | " ++ dump σ')
      | .error (e, i) => (σ, s!"{e.toString}@{i} I=ok | " ++ dump σ)
  else (σ, "bad-op")

end AlgoVerif.Driver.C23
