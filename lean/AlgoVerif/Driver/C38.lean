import AlgoVerif.Base.Drv
import AlgoVerif.Model.StateProofWeights
/-! Line protocol of the C38 harness (see harness/crypto/stateproof/zz_verif_c38_test.go) on the model. -/
namespace AlgoVerif.Driver.C38
open AlgoVerif.Drv AlgoVerif.Model.StateProofWeights

def showErr : Err → String
  | .tooManyReveals => "err toomany"
  | .zeroSignedWeight => "err zero"
  | .insufficient => "err insufficient"
  | .negativeEquation => "err negative"
  | .panicAtZero => "PANIC"

def showUnit : Except Err Unit → String
  | .ok _ => "ok"
  | .error e => showErr e

def colon (s : String) : String := s.replace " " ":"

def handle (line : String) : String :=
  match fields line with
  | ["consts"] => s!"{precisionBits} {ln2IntApproximation} {MaxReveals} {VersionForCoinGenerator}"
  | ["sub", sw] =>
      match getSubExpressions (nat! sw) with
      | none => "PANIC"
      | some s => s!"{s.y} {s.x} {s.w}"
  | ["nr", sw, lnP, st] =>
      match numReveals (nat! sw) (nat! lnP) (nat! st) with
      | .ok n => s!"ok {n}"
      | .error e => showErr e
  | ["vw", sw, lnP, n, st] => showUnit (verifyWeights (nat! sw) (nat! lnP) (nat! n) (nat! st))
  | ["mon", sw, lnP, st] =>
      match numReveals (nat! sw) (nat! lnP) (nat! st) with
      | .error e => showErr e
      | .ok n =>
        let a := colon (showUnit (verifyWeights (nat! sw) (nat! lnP) n (nat! st)))
        let b := if n > 0 then colon (showUnit (verifyWeights (nat! sw) (nat! lnP) (n - 1) (nat! st))) else "-"
        s!"ok {n} {a} {b}"
  | ["thr", sw] =>
      match threshold (nat! sw) with
      | none => "PANIC"
      | some t => toString t
  | "coin" :: sw :: zs =>
      match getNextCoin (nat! sw) (zs.map nat!) with
      | none => "PANIC"
      | some (c, used, _) => s!"{c} {used}"
  | "xcoins" :: sw :: _lnP :: _seed :: n :: zs =>
      match coins (nat! sw) (nat! n) (zs.map nat!) with
      | none => "PANIC"
      | some cs => ",".intercalate (cs.map toString)
  | _ => "bad-op"

end AlgoVerif.Driver.C38
