import AlgoVerif.Base.Drv
import AlgoVerif.Model.LedgerCore
/-! Line protocol of the LedgerCore harness (harness/ledger/zz_verif_lcore_test.go) on `Model.LedgerCore`.
`reset` is an instruction to the Go side only (fresh ledger); `block` (re)seeds the model from the constants and the
state observed on the real evaluator at the start of a block; `group` runs `evalGroup`; `dump` prints the state;
`endblock` prints payset length, txn counter and the model's money total over the univ. -/
namespace AlgoVerif.Driver.Lcore
open AlgoVerif.Drv AlgoVerif.Model.LedgerCore

structure St where
  P : Params := {}
  x : Ctx := {}
  s : EvalState := {}
  live : Bool := false
  spaceObs : Bool := false     -- the harness reports the block-space accounting (space= / #sz= / load=)

def univ : List Nat := [0, 1, 2, 3, 4, 5, 6, 7, 8, 9]

def b01 (b : Bool) : String := if b then "1" else "0"
def is1 (s : String) : Bool := s == "1"

def statusOf (n : Nat) : Status := if n = 1 then .online else if n = 2 then .notPart else .offline
def statusNum : Status → Nat
  | .offline => 0
  | .online => 1
  | .notPart => 2

def errStr : Err → String
  | .grpSize => "grpsize" | .malformed => "malformed" | .dead => "dead" | .dup => "dup" | .panic => "panic"
  | .overspend => "overspend" | .overflow => "overflow"
  | .closeNonZero => "closenz" | .closeAssets => "closeassets" | .closeAssetParams => "closeassetparams"
  | .nonPart => "nonpart" | .keyExpired => "keyexpired" | .keyFuture => "keyfuture" | .nonPartUnsupported => "nonpartunsup"
  | .assetExists => "assetexists" | .tooManyAssets => "toomanyassets" | .noAsset => "noasset" | .noAssetParams => "noassetparams"
  | .notManager => "notmanager" | .destroyNoAssets => "destroynoassets" | .destroyNoParams => "destroynoparams" | .destroyHeld => "destroyheld"
  | .notInDeltas => "notindeltas"
  | .noClawback => "noclawback" | .missing => "missing" | .frozen => "frozen" | .assetOverspend => "assetoverspend"
  | .rcvOptin => "rcvoptin" | .rcvFrozen => "rcvfrozen" | .assetOverflow => "assetoverflow"
  | .closeByClawback => "closebyclawback" | .closeNotOpted => "closenotopted" | .closeCreator => "closecreator"
  | .closeMissing => "closemissing" | .assetCloseNonZero => "assetclosenz"
  | .noFreeze => "nofreeze" | .frzNotFound => "frznotfound"
  | .minBal => "minbal" | .maxMinBal => "maxminbal"
  | .grpInconsistent => "grpinconsistent" | .grpEmpty => "grpempty" | .grpIncomplete => "grpincomplete" | .fee => "fee"
  | .noSpace => "nospace"

/-- the Go messages of `Alive` and `checkDup` do not name the transaction -/
def gerrStr : GErr → String
  | (e, some i) => if e = .dead ∨ e = .dup then errStr e else s!"{errStr e}@{i}"
  | (e, none) => errStr e

def splitKV (tok : String) : String × List String :=
  match tok.splitOn "=" with
  | [k, v] => (k, v.splitOn ",")
  | _ => (tok, [])

def nth (l : List String) (i : Nat) : Nat := nat! (l.getD i "0")

def parseAcct (v : List String) : Account :=
  { status := statusOf (nth v 0), bal := nth v 1, rewardsBase := nth v 2, rewarded := nth v 3, incentive := is1 (v.getD 4 "0"),
    totalAssets := nth v 5, totalAssetParams := nth v 6, lastProposed := nth v 7, lastHeartbeat := nth v 8,
    voteId := nth v 9, selId := nth v 10, spId := nth v 11, voteFirst := nth v 12, voteLast := nth v 13, voteKD := nth v 14 }

def parseParams (v : List String) : AssetParams :=
  { total := nth v 0, decimals := nth v 1, defaultFrozen := is1 (v.getD 2 "0"), manager := nth v 3, reserve := nth v 4,
    freeze := nth v 5, clawback := nth v 6 }

/-- "12@3" → (3, 12): (address, asset) -/
def parseAt (s : String) : ResKey :=
  match s.splitOn "@" with
  | [a, w] => (nat! w, nat! a)
  | _ => (0, 0)

def setRes (k : ResKey) (f : Option AssetParams × Option Holding → Option AssetParams × Option Holding)
    (l : List (ResKey × (Option AssetParams × Option Holding))) : List (ResKey × (Option AssetParams × Option Holding)) :=
  match alookup k l with
  | some r => upsert k (f r) l
  | none => upsert k (f (none, none)) l

def parseBlock (toks : List String) : Params × Base :=
  toks.foldl (fun (pb : Params × Base) tok =>
    let (P, B) := pb
    let (k, v) := splitKV tok
    let n := nth v 0
    match k with
    | "rnd" => ({ P with round := n }, B)
    | "level" => ({ P with level := n }, B)
    | "unit" => ({ P with rewardUnit := n }, B)
    | "minfee" => ({ P with minFee := n }, B)
    | "reqs" => ({ P with reqs := ⟨nth v 0, nth v 1, nth v 2, nth v 3, nth v 4, nth v 5, nth v 6, nth v 7⟩ }, B)
    | "maxmb" => ({ P with maxMinBalance := n }, B)
    | "life" => ({ P with maxTxnLife := n }, B)
    | "maxgrp" => ({ P with maxGroupSize := n }, B)
    | "maxassets" => ({ P with maxAssetsPerAccount := n }, B)
    | "maxdec" => ({ P with maxAssetDecimals := n }, B)
    | "unfunded" => ({ P with unfundedSenders := n == 1 }, B)
    | "payouts" => ({ P with payoutsEnabled := n == 1 }, B)
    | "goonline" => ({ P with goOnlineFee := n }, B)
    | "lookback" => ({ P with lookback := n }, B)
    | "coh" => ({ P with keyregCoherency := n == 1 }, B)
    | "spchk" => ({ P with spKeyregCheck := n == 1 }, B)
    | "nonpart" => ({ P with supportNonPart := n == 1 }, B)
    | "maxkv" => ({ P with maxKeyregValidPeriod := n }, B)
    | "sink" => ({ P with feeSink := n }, B)
    | "pool" => ({ P with rewardsPool := n }, B)
    | "sp" => ({ P with spSender := n }, B)
    | "maxbytes" => ({ P with maxBytes := n }, B)
    | "protobytes" => ({ P with protoBytes := n }, B)
    | "loadtrack" => ({ P with loadTracking := n == 1 }, B)
    | "ctr" => (P, { B with txnCount := n })
    | _ =>
      if k.startsWith "A" then (P, { B with accts := upsert (nat! (k.drop 1).toString) (parseAcct v) B.accts })
      else if k.startsWith "C" then (P, { B with creators := upsert (nat! (k.drop 1).toString) n B.creators })
      else if k.startsWith "P" then
        (P, { B with res := setRes (parseAt (k.drop 1).toString) (fun r => (some (parseParams v), r.2)) B.res })
      else if k.startsWith "H" then
        (P, { B with res := setRes (parseAt (k.drop 1).toString) (fun r => (r.1, some ⟨nth v 0, is1 (v.getD 1 "0")⟩)) B.res })
      else (P, B)) (({} : Params), ({} : Base))

def parseTxn (s : String) : Option Txn :=
  let f := s.splitOn ","
  let u := nth f
  let hdr (k : Kind) : Txn := { kind := k, sender := u 1, fee := u 2, fv := u 3, lv := u 4, note := u 5, grp := u 6 }
  match f.head?, f.length with
  | some "pay", 10 => some { hdr .pay with receiver := u 7, amount := u 8, closeTo := u 9 }
  | some "keyreg", 14 => some { hdr .keyreg with votePK := u 7, selPK := u 8, spPK := u 9, voteFirst := u 10, voteLast := u 11,
                                                  voteKD := u 12, nonpart := u 13 == 1 }
  | some "acfg", 15 => some { hdr .acfg with asset := u 7, params := ⟨u 8, u 9, u 10 == 1, u 11, u 12, u 13, u 14⟩ }
  | some "axfer", 12 => some { hdr .axfer with asset := u 7, assetAmount := u 8, assetSender := u 9, assetReceiver := u 10,
                                                assetCloseTo := u 11 }
  | some "afrz", 10 => some { hdr .afrz with asset := u 7, freezeAccount := u 8, frozen := u 9 == 1 }
  | _, _ => none

/-- `t;t;… #sz=a,b,…`: the annotation carries the encoded size of every member that the real evaluation reached -/
def parseGroup (rest0 : String) : Option (List Txn) :=
  let (rest, sz) : String × List Nat := match rest0.splitOn " #sz=" with
    | [r, z] => (r.trimAscii.toString, (z.trimAscii.toString.splitOn ",").map nat!)
    | _ => (rest0, [])
  if rest.isEmpty then some []
  else
    match (rest.splitOn ";").mapM parseTxn with
    | none => none
    | some ts => some ((ts.zipIdx).map (fun (t, i) => { t with size := sz.getD i 0 }))

/-! dump -/

def insertNat (a : Nat) : List Nat → List Nat
  | [] => [a]
  | b :: r => if a = b then b :: r else if a < b then a :: b :: r else b :: insertNat a r
def sortDedup (l : List Nat) : List Nat := l.foldl (fun acc a => insertNat a acc) []

def knownAssets (x : Ctx) (l : Layer) : List Nat :=
  let layers := l :: x.parents
  sortDedup (x.base.res.map (·.1.2) ++ x.base.creators.map (·.1)
    ++ layers.flatMap (fun y => y.res.map (·.1.2) ++ y.creat.map (·.1)))

def acctTok (id : Nat) (a : Account) : String :=
  s!"A{id}={statusNum a.status},{a.bal},{a.rewardsBase},{a.rewarded},{b01 a.incentive},{a.totalAssets},{a.totalAssetParams},{a.lastProposed},{a.lastHeartbeat},{a.voteId},{a.selId},{a.spId},{a.voteFirst},{a.voteLast},{a.voteKD}"

def dumpStr (x : Ctx) (s : EvalState) : String :=
  let l := s.top
  let ids := knownAssets x l
  let hd := s!"payset={s.payset.length} fees={l.fees} ctr={counterOf x l}"
  let as := univ.map (fun id => acctTok id (acctOf x l id))
  let cs := ids.filterMap (fun i => (creatorOf x l i).map (fun cr => s!"C{i}={cr}"))
  let ps := ids.flatMap (fun i => univ.filterMap (fun a => (paramsOf x l (a, i)).map (fun p =>
    s!"P{i}@{a}={p.total},{p.decimals},{b01 p.defaultFrozen},{p.manager},{p.reserve},{p.freeze},{p.clawback}")))
  let hs := ids.flatMap (fun i => univ.filterMap (fun a => (holdingOf x l (a, i)).map (fun h =>
    s!"H{i}@{a}={h.amount},{b01 h.frozen}")))
  " ".intercalate (hd :: (as ++ cs ++ ps ++ hs))

/-- the header `Load` written by `endOfBlock`: `ComputeLoad(blockTxBytes, proto.MaxTxnBytesPerBlock)` (regenerated from the source) -/
def headerLoad (P : Params) (bytes : Nat) : Nat :=
  if P.loadTracking then Gen.Fees.ComputeLoad (bytes : Int) (P.protoBytes : Int) else 0

/-- the dump with the bytes charged to the block (`blockTxBytes`) after the txn counter -/
def dumpStrSp (sp : Bool) (x : Ctx) (s : EvalState) : String :=
  let d := dumpStr x s
  if sp then d.replace s!" ctr={counterOf x s.top} " s!" ctr={counterOf x s.top} space={s.txBytes} " else d

def moneyAll (P : Params) (x : Ctx) (l : Layer) : Nat := (univ.map (fun a => balWP P (acctOf x l a))).sum

def step (st : St) (line : String) : St × String :=
  if line.startsWith "reset" then ({ st with live := false }, "ok")
  else if line.startsWith "block " then
    let (P, B) := parseBlock (fields line).tail
    if P.rewardUnit = 0 then ({ st with live := false }, "bad-op")
    else ({ P := P, x := { parents := [], base := B }, s := {}, live := true, spaceObs := (fields line).contains "spaceobs=1" }, "ok")
  else if !st.live then (st, "bad-op")
  else if line == "dump" then (st, dumpStrSp st.spaceObs st.x st.s)
  else if line == "endblock" then
    ({ st with live := false },
     s!"end payset={st.s.payset.length} ctr={counterOf st.x st.s.top} all={moneyAll st.P st.x st.s.top}"
       ++ (if st.spaceObs then s!" load={headerLoad st.P st.s.txBytes}" else ""))
  else if line.startsWith "group" then
    match parseGroup ((line.drop 5).toString.trimAscii.toString) with
    | none => (st, "bad-op")
    | some g =>
      match evalGroup st.P st.x st.s g with
      | .ok s' => ({ st with s := s' }, "ok | " ++ dumpStrSp st.spaceObs st.x s')
      | .error e => (st, gerrStr e ++ " | " ++ dumpStrSp st.spaceObs st.x st.s)
  else (st, "bad-op")

end AlgoVerif.Driver.Lcore
