import AlgoVerif.Base.Drv
import AlgoVerif.Base.Sha512
import AlgoVerif.Model.CatchpointHash
/-!
Line protocol of the C15 driver (one op per line; harnesses:
harness/ledger/store/trackerdb/zz_verif_c15_test.go, harness/ledger/ledgercore/zz_verif_c15_test.go):

  acct  <addr32> <updateRound> <rewardsBase> <enc>                       → leaf
  res   <isAsset> <isApp> <addr32> <cidx> <updateRound> <enc>            → leaf | err
  kv    <key> <value>                                                    → leaf
  boxkv <app> <name> <value>                                             → <key> <leaf>
  sw    <acct|asset|app|kv> <seed> <len> <mut|->                          → leaf     (length sweep, see `sweepInput`)
  label <ver> <round> <blockHash> <root> <totals> <spver> <oa> <orp>     → <buffer> <label>

Bytes in hex, `_` = empty.  The model is run with H = SHA-512/256 (AlgoVerif.Base.Sha512), so leaves,
label buffers and labels must be byte-identical with the real code.
-/
namespace AlgoVerif.Driver.C15
open AlgoVerif.Drv Model.CatchpointHash

def hexDigit (c : Char) : Option Nat :=
  if '0' ≤ c ∧ c ≤ '9' then some (c.toNat - '0'.toNat)
  else if 'a' ≤ c ∧ c ≤ 'f' then some (c.toNat - 'a'.toNat + 10)
  else none

def unhexAux : List Char → Option Bytes
  | [] => some []
  | [_] => none
  | a :: b :: rest =>
    match hexDigit a, hexDigit b, unhexAux rest with
    | some x, some y, some t => some (UInt8.ofNat (16 * x + y) :: t)
    | _, _, _ => none

def unhex (s : String) : Option Bytes := if s = "_" then some [] else unhexAux s.toList

def hexOf (b : Bytes) : String :=
  if b.isEmpty then "_" else
  String.ofList (b.foldr (fun x acc => Nat.digitChar (x.toNat / 16) :: Nat.digitChar (x.toNat % 16) :: acc) [])

def H : Bytes → Bytes := AlgoVerif.Sha.sha512_256

def bit (s : String) : Option Bool := if s = "1" then some true else if s = "0" then some false else none

/-- expansion of a sweep op (same as verifC15SweepInput in the Go harness): addr[j] = seed*7+13j+1,
cidx = seed*65536+len, updateRound = seed%1000+1, enc[i] = seed + 131 i + 17 (i/256) (mod 256); byte `mut`
xor 0x5a. -/
def sweepInput (seed n : Nat) (mpos : Option Nat) : Bytes × Nat × Nat × Bytes :=
  let addr := (List.range 32).map fun j => UInt8.ofNat ((seed * 7 + j * 13 + 1) % 256)
  let enc := (List.range n).map fun i =>
    let b := UInt8.ofNat ((seed + 131 * i + 17 * (i / 256)) % 256)
    if mpos = some i then b ^^^ 0x5a else b
  (addr, seed * 65536 + n, seed % 1000 + 1, enc)

def swMut (s : String) (n : Nat) : Option (Option Nat) :=
  if s = "-" then some none else
  match s.toNat? with
  | some m => if m < n then some (some m) else none
  | none => none

def handle (line : String) : String :=
  match fields line with
  | ["acct", a, ur, rb, e] =>
    match unhex a, ur.toNat?, rb.toNat?, unhex e with
    | some a, some ur, some rb, some e =>
      if a.length = 32 ∧ ur < 2 ^ 64 ∧ rb < 2 ^ 64 then hexOf (accountLeaf H a ur rb e) else "bad-op"
    | _, _, _, _ => "bad-op"
  | ["res", ia, ip, a, c, ur, e] =>
    match bit ia, bit ip, unhex a, c.toNat?, ur.toNat?, unhex e with
    | some ia, some ip, some a, some c, some ur, some e =>
      if a.length = 32 ∧ c < 2 ^ 64 ∧ ur < 2 ^ 64 then
        match resourceLeaf H ia ip a c ur e with
        | some l => hexOf l
        | none => "err"
      else "bad-op"
    | _, _, _, _, _, _ => "bad-op"
  | ["kv", k, v] =>
    match unhex k, unhex v with
    | some k, some v => hexOf (kvLeaf H k v)
    | _, _ => "bad-op"
  | ["sw", kind, seed, n, mp] =>
    match seed.toNat?, n.toNat? with
    | some seed, some n =>
      if seed < 2 ^ 31 ∧ n ≤ 2 ^ 20 then
        match swMut mp n with
        | some m =>
          let (addr, cidx, ur, enc) := sweepInput seed n m
          match kind with
          | "acct" => hexOf (accountLeaf H addr ur 0 enc)
          | "asset" => hexOf (resourceLeafK H .asset addr cidx ur enc)
          | "app" => hexOf (resourceLeafK H .app addr cidx ur enc)
          | "kv" => hexOf (kvLeaf H (boxKey seed [115, 119, 112, 33]) enc)
          | _ => "bad-op"
        | none => "bad-op"
      else "bad-op"
    | _, _ => "bad-op"
  | ["boxkv", app, n, v] =>
    match app.toNat?, unhex n, unhex v with
    | some app, some n, some v =>
      if app < 2 ^ 64 then s!"{hexOf (boxKey app n)} {hexOf (kvLeaf H (boxKey app n) v)}" else "bad-op"
    | _, _, _ => "bad-op"
  | ["label", ver, rnd, bh, root, tot, sp, oa, orp] =>
    match ver.toNat?, rnd.toNat?, unhex bh, unhex root, unhex tot, unhex sp, unhex oa, unhex orp with
    | some ver, some rnd, some bh, some root, some tot, some sp, some oa, some orp =>
      let p : LabelParts := ⟨bh, root, tot, sp, oa, orp⟩
      if bh.length = 32 ∧ root.length = 32 ∧ sp.length = 32 ∧ oa.length = 32 ∧ orp.length = 32 ∧ rnd < 2 ^ 64 ∧
          (ver = 6 ∨ ver = 7 ∨ ver = 8) then
        s!"{hexOf (buffer ver p)} {makeLabel H ver rnd p}"
      else "bad-op"
    | _, _, _, _, _, _, _, _ => "bad-op"
  | _ => "bad-op"

end AlgoVerif.Driver.C15
