import AlgoVerif.Base.Drv
import AlgoVerif.Model.StateProof
/-! Line protocol of the C39 harness (harness/crypto/stateproof/zz_verif_c39_test.go) on `Model.StateProof`
instantiated with the ideal primitives: symbolic signatures, binding vector commitments, and the random oracle `H`
given as the table {prover's seed ↦ coins, verifier's seed after the mutation ↦ mcoins} printed by the harness from the
real coin generator. -/
namespace AlgoVerif.Driver.C39
open AlgoVerif.Drv AlgoVerif.Model.StateProof AlgoVerif.Model.StateProofWeights

abbrev ISeed := Seed (IRoot (SigLeaf SymSig)) (IRoot Participant)
abbrev IProof := StateProof SymSig (IRoot (SigLeaf SymSig)) (IPf (SigLeaf SymSig)) (IPf Participant)

structure Op where
  msg : Nat := 0
  rnd : Nat := 0
  pw : Nat := 0
  lnpw : Nat := 0
  st : Nat := 0
  life : Nat := 0
  parts : List (Nat × Nat) := []     -- (weight, key id)
  signers : List Nat := []
  coins : List Nat := []
  mcoins : Option (List Nat) := none
  mutn : List String := []
  total : Nat := 0
  thr : Nat := 0
  ivl : Nat := 0
  last : Nat := 0
  atr : Nat := 0
  vmsg : Nat := 0
  vlnpw : Nat := 0
  hdr : Nat := 0
  first : Nat := 0
  kind : String := "sp"
  csw : Nat := 0
  fpos : List Nat := []
  frev : List Nat := []
  fsigs : List (Nat × Nat × Nat) := []   -- (position, L, key id) of the attacker's occupied slots

def listNat (s : String) : List Nat :=
  if s = "-" || s = "" then [] else (s.splitOn ",").map nat!

def parsePart (s : String) : Nat × Nat :=
  match s.splitOn ":" with
  | [w, k] => (nat! w, nat! k)
  | _ => (0, 0)

def parseTriple (s : String) : Nat × Nat × Nat :=
  match s.splitOn ":" with
  | [a, b, c] => (nat! a, nat! b, nat! c)
  | _ => (0, 0, 0)

def parse (line : String) : Option Op :=
  match fields line with
  | knd :: kvs =>
    if knd != "sp" && knd != "vsp" && knd != "accw" && knd != "fg" then none else
    some <| kvs.foldl (fun o kv =>
      match kv.splitOn "=" with
      | [k, v] =>
        if k = "msg" then { o with msg := nat! v }
        else if k = "rnd" then { o with rnd := nat! v }
        else if k = "pw" then { o with pw := nat! v }
        else if k = "lnpw" then { o with lnpw := nat! v }
        else if k = "st" then { o with st := nat! v }
        else if k = "life" then { o with life := nat! v }
        else if k = "parts" then { o with parts := (v.splitOn ",").map parsePart }
        else if k = "signers" then { o with signers := listNat v }
        else if k = "coins" then { o with coins := listNat v }
        else if k = "mcoins" then { o with mcoins := if v = "-" then none else some (listNat v) }
        else if k = "mut" then { o with mutn := v.splitOn ":" }
        else if k = "total" then { o with total := nat! v }
        else if k = "thr" then { o with thr := nat! v }
        else if k = "ivl" then { o with ivl := nat! v }
        else if k = "last" then { o with last := nat! v }
        else if k = "at" then { o with atr := nat! v }
        else if k = "vmsg" then { o with vmsg := nat! v }
        else if k = "vlnpw" then { o with vlnpw := nat! v }
        else if k = "hdr" then { o with hdr := nat! v }
        else if k = "first" then { o with first := nat! v }
        else if k = "sw" then { o with csw := nat! v }
        else if k = "pos" then { o with fpos := listNat v }
        else if k = "rev" then { o with frev := listNat v }
        else if k = "sigs" then { o with fsigs := if v = "-" then [] else (v.splitOn ",").map parseTriple }
        else o
      | _ => o) { kind := knd }
  | _ => none

def symSig (key life rnd msg : Nat) : SymSig := ⟨key, firstRoundInKeyLifetime rnd life, msg, 0, 0⟩

def participants (o : Op) : List Participant := o.parts.map fun wk => ⟨wk.2, o.life, wk.1⟩

/-- MakeProver, then IsValid + Add for every signer in order -/
def buildProver (o : Op) : Except String (Prover SymSig) :=
  match makeProver (S := SymSig) o.msg o.rnd o.pw o.lnpw (participants o) o.st with
  | .error _ => .error "err:lnzero"
  | .ok b0 =>
    o.signers.foldl (fun acc p =>
      match acc with
      | .error e => .error e
      | .ok b =>
        let sig := symSig ((o.parts.getD p (0, 0)).2) o.life o.rnd o.msg
        match isValid idealSS b p sig with
        | .error _ => .error "err:isvalid"
        | .ok _ =>
          match add b p sig with
          | .error _ => .error "err:add"
          | .ok b' => .ok b') (.ok b0)

def showPErr : PErr → String
  | .lnZero => "err:lnzero"
  | .notReady => "err:notready"
  | .reveals .negativeEquation => "err:negative"
  | .reveals .tooManyReveals => "err:toomany"
  | .reveals .panicAtZero => "PANIC"
  | .reveals _ => "err:other"
  | .coinIndex => "err:coinindex"
  | .posOutOfBound => "err:posbound"
  | .coinGen => "err:coingen"
  | .indexPanic => "PANIC"
  | .vcProve => "err:vcprove"
  | .sigFormat => "err:sigformat"
  | _ => "err:other"

def showVerdict : Except VErr Unit → String
  | .ok _ => "ok"
  | .error .treeDepth => "err:treedepth"
  | .error (.weights .tooManyReveals) => "err:toomany"
  | .error (.weights .zeroSignedWeight) => "err:zero"
  | .error (.weights .insufficient) => "err:insufficient"
  | .error (.weights _) => "PANIC"
  | .error .salt => "err:salt"
  | .error .sigFormat => "err:sig"
  | .error .sigInvalid => "err:sig"
  | .error .sigVC => "err:vc"
  | .error .partVC => "err:vc"
  | .error .noReveal => "err:noreveal"
  | .error .coinRange => "err:coinrange"
  | .error .coinGen => "err:coingen"

def joinNat (xs : List Nat) : String := if xs.isEmpty then "-" else ",".intercalate (xs.map toString)

def insertRev (x : Nat × Reveal SymSig) : List (Nat × Reveal SymSig) → List (Nat × Reveal SymSig)
  | [] => [x]
  | y :: ys => if x.1 ≤ y.1 then x :: y :: ys else y :: insertRev x ys

def sortRev (xs : List (Nat × Reveal SymSig)) : List (Nat × Reveal SymSig) := xs.foldr insertRev []

def showRev (xs : List (Nat × Reveal SymSig)) : String :=
  if xs.isEmpty then "-" else
  ",".intercalate ((sortRev xs).map fun pr => s!"{pr.1}:{pr.2.slot.L}:{pr.2.part.weight}")

/-- what the verifier is given -/
structure VIn where
  v : Verifier (IRoot Participant)
  round : Nat
  data : Nat
  sp : IProof

def updReveal (p : Nat) (f : Reveal SymSig → Reveal SymSig) (rs : List (Nat × Reveal SymSig)) :
    Option (List (Nat × Reveal SymSig)) :=
  match rs.lookup p with
  | none => none
  | some _ => some (rs.map fun pr => if pr.1 = p then (pr.1, f pr.2) else pr)

def withReveals (i : VIn) (rs : Option (List (Nat × Reveal SymSig))) : Option VIn :=
  rs.map fun r => { i with sp := { i.sp with reveals := r } }

def garbleSig (g : Nat) (r : Reveal SymSig) : Reveal SymSig :=
  { r with slot := { r.slot with sig := r.slot.sig.map fun s => { s with garble := g } } }

/-- the single-field mutations of the harness, on the symbolic proof -/
def applyMut (o : Op) (b : Prover SymSig) (i : VIn) : List String → Option VIn
  | ["none"] => some i
  | ["msg", m] => some { i with data := nat! m }
  | ["round", r] => some { i with round := nat! r }
  | ["siggarble", p, _, _] => withReveals i (updReveal (nat! p) (garbleSig 1) i.sp.reveals)
  | ["sigsalt", p, v] =>
    withReveals i (updReveal (nat! p) (fun r =>
      { r with slot := { r.slot with sig := r.slot.sig.map fun s => { s with salt := nat! v, garble := 1 } } }) i.sp.reveals)
  | ["sigempty", p] => withReveals i (updReveal (nat! p) (fun r => { r with slot := { r.slot with sig := none } }) i.sp.reveals)
  | ["sigof", p, k, r, m] =>
    withReveals i (updReveal (nat! p) (fun rv =>
      { rv with slot := { rv.slot with sig := some (symSig (nat! k) o.life (nat! r) (nat! m)) } }) i.sp.reveals)
  | ["L", p, l] => withReveals i (updReveal (nat! p) (fun r => { r with slot := { r.slot with L := nat! l } }) i.sp.reveals)
  | ["swap", p, q] =>
    match i.sp.reveals.lookup (nat! p), i.sp.reveals.lookup (nat! q) with
    | some rp, some rq =>
      withReveals i (some (i.sp.reveals.map fun pr =>
        if pr.1 = nat! p then (pr.1, rq) else if pr.1 = nat! q then (pr.1, rp) else pr))
    | _, _ => none
  | ["w", p, w] => withReveals i (updReveal (nat! p) (fun r => { r with part := { r.part with weight := nat! w } }) i.sp.reveals)
  | ["pk", p, k] => withReveals i (updReveal (nat! p) (fun r => { r with part := { r.part with pk := nat! k } }) i.sp.reveals)
  | ["life", p, l] => withReveals i (updReveal (nat! p) (fun r => { r with part := { r.part with lifetime := nat! l } }) i.sp.reveals)
  | ["sw", w] => some { i with sp := { i.sp with signedWeight := nat! w } }
  | ["sigcommit", _] => some { i with sp := { i.sp with sigCommit := { i.sp.sigCommit with tag := 1 } } }
  | ["partcom", _] => some { i with v := { i.v with partCommit := { i.v.partCommit with tag := 1 } } }
  | ["sigpath", _] => some { i with sp := { i.sp with sigProofs := { i.sp.sigProofs with tag := 1 } } }
  | ["partpath", _] => some { i with sp := { i.sp with partProofs := { i.sp.partProofs with tag := 1 } } }
  | ["sigdepth", d] => some { i with sp := { i.sp with sigProofs := { i.sp.sigProofs with depth := nat! d } } }
  | ["partdepth", d] => some { i with sp := { i.sp with partProofs := { i.sp.partProofs with depth := nat! d } } }
  | ["posset", j, p] =>
    if nat! j < i.sp.positions.length then some { i with sp := { i.sp with positions := i.sp.positions.set (nat! j) (nat! p) } }
    else none
  | ["posdrop"] => some { i with sp := { i.sp with positions := i.sp.positions.dropLast } }
  | ["posadd", p] => some { i with sp := { i.sp with positions := i.sp.positions ++ [nat! p] } }
  | ["posswap", a, c] =>
    match i.sp.positions[nat! a]?, i.sp.positions[nat! c]? with
    | some x, some y => some { i with sp := { i.sp with positions := (i.sp.positions.set (nat! a) y).set (nat! c) x } }
    | _, _ => none
  | ["salt", v] => some { i with sp := { i.sp with saltVersion := nat! v } }
  | ["revdel", p] =>
    match i.sp.reveals.lookup (nat! p) with
    | none => none
    | some _ => withReveals i (some (i.sp.reveals.filter fun pr => pr.1 != nat! p))
  | ["revadd", p] =>
    match i.sp.reveals.lookup (nat! p), (commitSigs b.sigs)[nat! p]?, b.participants[nat! p]? with
    | none, some sl, some pt => withReveals i (some (i.sp.reveals ++ [(nat! p, ⟨sl.commit, pt⟩)]))
    | _, _, _ => none
  | ["revmove", p, q] =>
    match i.sp.reveals.lookup (nat! p), i.sp.reveals.lookup (nat! q) with
    | some _, none => withReveals i (some (i.sp.reveals.map fun pr => if pr.1 = nat! p then (nat! q, pr.2) else pr))
    | _, _ => none
  | _ => none

def showLErr : Except LErr Unit → String
  | .ok _ => "ok"
  | .error .notEnabled => "err:notenabled"
  | .error .notMultiple => "err:notmultiple"
  | .error .insufficientWeight => "err:weight"
  | .error .overflow => "err:overflow"
  | .error .lnZero => "err:lnzero"
  | .error (.crypto _) => "err:crypto"

/-- a proof forged from scratch: the attacker's signature array (free `L`s), its honest commitment and openings,
the claimed signed weight, the attacker's positions list and reveals; `H` = the coins of the real generator -/
def handleForge (o : Op) : String :=
  let parts := participants o
  let slots : List (SigSlot SymSig) := (List.range parts.length).map fun i =>
    match o.fsigs.find? (fun t => t.1 == i) with
    | some t => ⟨(parts.getD i ⟨0, 0, 0⟩).weight, ⟨some (symSig t.2.2 o.life o.rnd o.msg), t.2.1⟩⟩
    | none => ⟨0, ⟨none, 0⟩⟩
  let E : IEnv := idealEnv fun _ => o.coins
  match slotLeaves idealSS slots with
  | none => "bad-forge"
  | some leaves =>
    match E.vcS.prove leaves o.frev, E.vcP.prove parts o.frev with
    | some ps, some pp =>
      let reveals : List (Nat × Reveal SymSig) := o.frev.filterMap fun p =>
        match slots[p]?, parts[p]? with
        | some sl, some pt => some (p, ⟨sl.commit, pt⟩)
        | _, _ => none
      let sp : IProof := ⟨E.vcS.commit leaves, o.csw, ps, pp, SchemeSaltVersion, reveals, o.fpos⟩
      s!"coins=ok verify={showVerdict (verify E ⟨o.st, o.lnpw, E.vcP.commit parts⟩ o.rnd o.msg sp)}"
    | _, _ => "bad-forge"

def handle (line : String) : String :=
  match parse line with
  | none => "bad-op"
  | some o =>
    if o.kind = "fg" then handleForge o else
    if o.kind = "accw" then toString (acceptableWeight o.total o.ivl o.thr (o.hdr + o.ivl) o.first) else
    match buildProver o with
    | .error e => s!"create={e}"
    | .ok b =>
      -- the prover's coin seed does not depend on H
      let E0 : IEnv := idealEnv fun _ => []
      match slotLeaves idealSS (commitSigs b.sigs) with
      | none => "create=err:sigformat"
      | some leaves =>
        let seed0 : ISeed := proverSeed E0 b leaves
        let E : IEnv := idealEnv fun sd => if sd = seed0 then o.coins else o.mcoins.getD []
        match createProof E b with
        | .error e => s!"create={showPErr e}"
        | .ok sp =>
          if o.kind = "vsp" then
            let r := validateStateProof E (fun _ => o.vlnpw)
              ⟨o.last, E.vcP.commit b.participants, o.total, o.ivl, o.thr, o.st⟩ sp o.atr o.vmsg
            s!"create=ok coins=ok validate={showLErr r}"
          else
          match applyMut o b ⟨verifierOf E b, o.rnd, o.msg, sp⟩ o.mutn with
          | none => "bad-mut"
          | some i =>
            let verdict := showVerdict (verify E i.v i.round i.data i.sp)
            if o.mutn = ["none"] then
              s!"create=ok sw={sp.signedWeight} nr={sp.positions.length} pos={joinNat sp.positions} rev={showRev sp.reveals} depth={sp.sigProofs.depth}:{sp.partProofs.depth} coins=ok verify={verdict}"
            else s!"create=ok coins=ok verify={verdict}"

end AlgoVerif.Driver.C39
