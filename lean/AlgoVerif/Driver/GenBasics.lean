import AlgoVerif.Base.Drv
import AlgoVerif.Gen.Basics
/-! Evaluates the REGENERATED definitions (go2lean output) on the same op lines: validates the translator. -/
namespace AlgoVerif.Driver.GenBasics
open AlgoVerif.Drv Gen.Basics

def nb (p : Nat × Bool) : String := s!"{p.1} {showBool p.2}"

partial def triples : List String → List (String × Nat × Nat)
  | o :: a :: b :: rest => (o, nat! a, nat! b) :: triples rest
  | _ => []

def trackerStep (acc : List String × Bool) (op : String × Nat × Nat) : List String × Bool :=
  let (o, a, b) := op
  let (r, t) := match o with
    | "add" => OverflowTracker_Add acc.2 a b
    | "sub" => OverflowTracker_Sub acc.2 a b
    | _ => OverflowTracker_Mul acc.2 a b
  (acc.1 ++ [toString r], t)

def handle (line : String) : String :=
  match fields line with
  | ["oadd", w, a, b] => nb (OAdd (nat! w) (nat! a) (nat! b))
  | ["osub", w, a, b] => nb (OSub (nat! w) (nat! a) (nat! b))
  | ["omul", w, a, b] => nb (OMul (nat! w) (nat! a) (nat! b))
  | ["addsat", w, a, b] => toString (AddSaturate (nat! w) (nat! a) (nat! b))
  | ["subsat", w, a, b] => toString (SubSaturate (nat! w) (nat! a) (nat! b))
  | ["mulsat", w, a, b] => toString (MulSaturate (nat! w) (nat! a) (nat! b))
  | ["odiff", a, b] => let r := ODiff (nat! a) (nat! b); s!"{r.1} {showBool r.2}"
  | ["muldiv", a, b, c] => nb (Muldiv (nat! a) (nat! b) (nat! c))
  | ["mul2div", a, b, c, d] => let r := Mul2div (nat! a) (nat! b) (nat! c) (nat! d); s!"{r.1} {r.2.1} {showBool r.2.2}"
  | ["divvy", n, d, q] =>
      match NewFraction (nat! n) (nat! d) with
      | none => "PANIC"
      | some f => match Fraction_Divvy f (nat! q) with
        | none => "PANIC"
        | some r => s!"{r.1} {r.2}"
  | ["microsmul", a, b] => nb (Micros_Mul (nat! a) (nat! b))
  | ["mulmicros", a, b] => nb (MicroAlgos_MulMicros (nat! a) (nat! b))
  | ["mulint", a, i] => nb (Micros_MulInt (nat! a) (int! i))
  | ["feeforusage", a, b, c, d] => let r := MicroAlgos_FeeForUsage (nat! a) (nat! b) (nat! c) (nat! d); s!"{r.1} {r.2.1} {showBool r.2.2}"
  | "tracker" :: rest =>
      let (outs, f) := (triples rest).foldl trackerStep ([], false)
      s!"{",".intercalate outs} {showBool f}"
  | _ => "bad-op"

end AlgoVerif.Driver.GenBasics
