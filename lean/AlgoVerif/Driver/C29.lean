import AlgoVerif.Base.Drv
import AlgoVerif.Base.Sha512
import AlgoVerif.Base.Msgpack
import AlgoVerif.Model.Commitments
/-!
Line protocol of the C29 driver (harness/ledger/eval/zz_verif_c29_test.go, harness/data/bookkeeping/zz_verif_c29_test.go):

  grp  <mut> <hex msgpack(Transaction)>...                         → tg=<verdict> ttg=<verdict> gid=<hex>
  blk  <mut> <proto> <pc> <s256> <s512> <n>:<s256>:<s512> [<hex stib>/<hex txn|!>]...
                                                                   → cmh=<bool> pc=ok <native> <sha256> <sha512> | cmh=false pc=err
  pre  <mut> <0|1|x> <hex msgpack(prev header)> <hex msgpack(header)> → ok | proto | round | branch | branch512 | branch512-not-allowed
  prex …                                                            → "-" (outside the modelled prefix of PreCheck)

The model (`Model.Commitments`) is instantiated with SHA-512/256, SHA-256, SHA-512 of Base/Sha512 and with the encodings
found on the op line.  The only byte-level work done here: the `Group` field of a transaction and the transaction with that
field removed are obtained by decoding the msgpack map, dropping the key "grp" and re-encoding (Base/Msgpack); `Round`,
`Branch`, `Branch512` are read from the header maps ("rnd", "prev", "prev512"); the payset encoding is the msgpack array of
the entries' encodings (nil when empty).
-/
namespace AlgoVerif.Driver.C29
open AlgoVerif.Drv Model.Commitments
open AlgoVerif.Msgpack (V enc dec encArrHd unhex hexOf)

abbrev Bytes := List UInt8

def strKey (s : String) : V := .str s.toUTF8.toList

def lookupKey (kvs : List (V × V)) (k : String) : Option V :=
  match kvs.find? (fun kv => match kv.1 with | .str s => s == k.toUTF8.toList | _ => false) with
  | some kv => some kv.2
  | none => none

def dropKey (kvs : List (V × V)) (k : String) : List (V × V) :=
  kvs.filter (fun kv => match kv.1 with | .str s => !(s == k.toUTF8.toList) | _ => true)

/-- driver transactions: Group field, (encoding as given, encoding with the Group field removed) -/
abbrev DTx := Tx (Bytes × Bytes)

def dEncTx (t : DTx) : Bytes := if t.group = zeroDigest then t.body.2 else t.body.1

/-- parse one msgpack(Transaction): `none` = not a single well-formed map / Group of the wrong size -/
def parseTx (bs : Bytes) : Option DTx :=
  match dec bs with
  | some (.map kvs, []) =>
    match lookupKey kvs "grp" with
    | none => some ⟨zeroDigest, (bs, bs)⟩
    | some (.bin g) => if g.length = 32 then some ⟨g, (bs, enc (.map (dropKey kvs "grp")))⟩ else none
    | some _ => none
  | _ => none

def gEnv : GEnv (Bytes × Bytes) := ⟨AlgoVerif.Sha.sha512_256, dEncTx, msgpackGroup⟩

def allSome {α : Type} : List (Option α) → Option (List α)
  | [] => some []
  | none :: _ => none
  | some a :: t => (allSome t).map (a :: ·)

def showG : Except GErr Unit → String
  | .ok _ => "ok"
  | .error .tooLarge => "toolarge"
  | .error (.txn _) => "dup"
  | .error (.inconsistent _) => "inconsistent"
  | .error (.emptyGroup _) => "emptygid"
  | .error .incomplete => "incomplete"

/-- MaxTxGroupSize of the consensus version the evaluator harness runs (read from the op stream: `grpmax <n>` not needed:
the harness uses vFuture whose bound is 16; a change of the bound shows up as a `toolarge` disagreement) -/
def maxGroup : Nat := 16

def handleGrp (hexes : List String) : String :=
  match allSome (hexes.map unhex) with
  | none => "bad-op"
  | some encs =>
    match allSome (encs.map parseTx) with
    | none => "bad-op"
    | some g =>
      -- eval.transaction: the txid (Group included) must not already be in the block under construction
      let dupOk : Nat → DTx → Bool := fun gi t => !((g.take gi).any (fun u => dEncTx u == dEncTx t))
      let tg := transactionGroup gEnv maxGroup dupOk g
      let ttg := transactionGroup gEnv maxGroup (fun _ _ => true) g
      s!"tg={showG tg} ttg={showG ttg} gid={hexOf (groupId gEnv g)}"

/-! blocks -/

abbrev DStib := Bytes × Option Bytes

def dEncPayset (ps : List DStib) : Bytes :=
  if ps.isEmpty then [0xc0] else encArrHd ps.length ++ (ps.map (·.1)).flatten

def bEnv : BEnv (Bytes × Bytes) DStib :=
  { H := AlgoVerif.Sha.sha512_256, H256 := AlgoVerif.Sha.sha256, H512 := AlgoVerif.Sha.sha512,
    encTx := dEncTx, encStib := (·.1), encPayset := dEncPayset,
    decodeTx := fun s => s.2.map (fun e => ⟨zeroDigest, (e, e)⟩) }

def parseEntry (s : String) : Option DStib :=
  match s.splitOn "/" with
  | [a, "!"] => (unhex a).map (fun x => (x, none))
  | [a, b] => match unhex a, unhex b with
    | some x, some y => some (x, some y)
    | _, _ => none
  | _ => none

def parseParams (pc s256 s512 : String) : Option (Option Params) :=
  let b : String → Option Bool := fun s => if s = "1" then some true else if s = "0" then some false else none
  match pc, b s256, b s512 with
  | "x", _, _ => some none
  | "0", some x, some y => some (some ⟨.unsupported, x, y⟩)
  | "1", some x, some y => some (some ⟨.flat, x, y⟩)
  | "2", some x, some y => some (some ⟨.merkle, x, y⟩)
  | _, _, _ => none

def handleBlk (pc s256 s512 cm : String) (ents : List String) : String :=
  match parseParams pc s256 s512, (cm.splitOn ":").map unhex, allSome (ents.map parseEntry) with
  | some params, [some cn, some c256, some c512], some ps =>
    let b : Block DStib := ⟨params, ⟨cn, c256, c512⟩, ps⟩
    let cmh := contentsMatchHeader bEnv b
    match paysetCommit bEnv b with
    | .error _ => s!"cmh={showBool cmh} pc=err"
    | .ok c => s!"cmh={showBool cmh} pc=ok {hexOf c.native} {hexOf c.sha256} {hexOf c.sha512}"
  | _, _, _ => "bad-op"

/-! headers -/

def parseHdr (flag : Option Bool) (bs : Bytes) : Option (Hdr Bytes) :=
  match dec bs with
  | some (.map kvs, []) =>
    let rnd := match lookupKey kvs "rnd" with | some (.uint n) => some n | none => some 0 | _ => none
    let br := match lookupKey kvs "prev" with | some (.bin b) => some b | none => some zeroDigest | _ => none
    let br512 := match lookupKey kvs "prev512" with | some (.bin b) => some b | none => some zeroDigest512 | _ => none
    match rnd, br, br512 with
    | some r, some b, some b5 => some ⟨r, b, b5, flag, bs⟩
    | _, _, _ => none
  | _ => none

def hEnv : HEnv Bytes := ⟨AlgoVerif.Sha.sha512_256, AlgoVerif.Sha.sha512, fun h => h.rest⟩

def showPre : Except PreErr Unit → String
  | .ok _ => "ok"
  | .error .proto => "proto" | .error .round => "round" | .error .branch => "branch"
  | .error .branch512 => "branch512" | .error .branch512NotAllowed => "branch512-not-allowed"
  | .error .later => "later"

def handlePre (flag prevHex curHex : String) : String :=
  let fl : Option (Option Bool) := if flag = "x" then some none else if flag = "1" then some (some true)
    else if flag = "0" then some (some false) else none
  match fl, unhex prevHex, unhex curHex with
  | some f, some pb, some cb =>
    match parseHdr f pb, parseHdr f cb with
    | some prev, some cur => showPre (preCheck hEnv (fun _ _ => true) cur prev)
    | _, _ => "bad-op"
  | _, _, _ => "bad-op"

def handle (line : String) : String :=
  match fields line with
  | "grp" :: _ :: h :: rest => handleGrp (h :: rest)
  | "blk" :: _ :: _ :: pc :: s256 :: s512 :: cm :: ents => handleBlk pc s256 s512 cm ents
  | ["pre", _, flag, p, c] => handlePre flag p c
  | "prex" :: _ => "-"
  | _ => "bad-op"

end AlgoVerif.Driver.C29
