import AlgoVerif.Base.Drv
import AlgoVerif.Driver.Lcore
import AlgoVerif.Model.BlockEval
/-! Line protocol of the C20 harness (harness/ledger/zz_verif_c20_test.go) on `Model.BlockEval`.
`reset` is an instruction to the Go side only.  `block` builds the model's `Env` from the constants and the state observed on
the real ledger / evaluator (the pool account BEFORE the rewards withdrawal comes in `poolpre=`), runs the model's
`nextRewards` / `startTop` and answers `ok` only if the rewards level and the withdrawn pool account equal the observed ones.
`group` evaluates the group on the model's evaluator (same output as the LedgerCore driver).  `gen` is answered `-` (its
result, the producer's expired / absent lists, is an INPUT of the model and comes back in `hdr`).  `hdr` runs the model's
`generateBlock` over ALL groups tried so far + `finishBlock` and prints the derived header fields.  `validate` runs the model's
`validate` on that block and prints the state delta in the harness' terms.  `mutate` runs `validate` on the mutated block for
the modelled fields (`-` for the others).  `commit` is answered `-`.  A case whose `reset` line carries `apps=1` contains application calls, which are outside
Model.LedgerCore: all its lines are answered `-` (implementation-only monitors apply). -/
namespace AlgoVerif.Driver.C20
open AlgoVerif.Drv AlgoVerif.Model.LedgerCore AlgoVerif.Model.BlockEval AlgoVerif.Driver.Lcore

/-- commitments are the payset itself; state-proof tracking is a number (0 = what the evaluator expects) -/
abbrev E0 := Env (List Txn) Nat
abbrev B0 := Block (List Txn) Nat

structure St where
  E : Option E0 := none
  rs : RewardsState := ⟨0, 0, 0, 0⟩
  s : EvalState := {}
  tried : List (List Txn) := []          -- reverse order
  prp : Nat := 0
  elig : Bool := false
  part : List Nat := []
  blk : Option B0 := none
  skip : Bool := false                   -- a case with application calls (outside the model): every line is answered `-`

def gerrTok : GErr → String := gerrStr

def berrStr : BErr → String
  | .group e => "group:" ++ gerrStr e
  | .panic => "panic" | .bonus => "bonus" | .rewards => "rewards"
  | .levelUnderflow => "level-underflow" | .withdrawOverflow => "withdraw-overflow" | .poolBelowMin => "pool-below-min"
  | .expLen => "exp-len" | .expDup => "dup-address" | .expNoKey => "exp-nokey" | .expNotYet => "exp-notyet"
  | .absLen => "abs-len" | .absDup => "dup-address" | .absNotOnline => "abs-notonline" | .absZero => "abs-zero"
  | .absNotElig => "abs-notelig" | .absNotAbsent => "abs-notabsent"
  | .commit => "commit" | .ctr => "ctr"
  | .feesDisabled => "fees-disabled" | .proposerDisabled => "payouts-disabled" | .payoutDisabled => "payouts-disabled"
  | .fees => "fees" | .payoutOverflow => "payout-overflow" | .payout => "payout" | .proposerMissing => "proposer"
  | .proposerClosed => "proposer-closed" | .sp => "spnext"
  | .move e => "move:" ++ errStr e

def kvOf (toks : List String) (key : String) : Option (List String) :=
  toks.findSome? (fun tok => let (k, v) := splitKV tok; if k == key then some v else none)

def ids (v : List String) : List Nat := if v == ["-"] then [] else v.map nat!

def mkEnv (toks : List String) : Option (E0 × Params × Base) :=
  let (P, B) := parseBlock toks
  if P.rewardUnit = 0 then none
  else
    let g (k : String) (i : Nat) : Nat := nth ((kvOf toks k).getD []) i
    let b (k : String) : Bool := is1 (((kvOf toks k).getD []).getD 0 "0")
    let poolpre := parseAcct ((kvOf toks "poolpre").getD [])
    let base : Base := { B with accts := upsert P.rewardsPool poolpre B.accts }
    some ({ P := P, rp := ⟨P.reqs.MinBalance, g "refresh" 0, b "pendres", b "calcfix"⟩, txnCounterOn := b "ctron",
            payoutPct := g "pct" 0, maxExpired := g "maxexp" 0, maxAbsent := g "maxabs" 0, base := base,
            prevRewards := ⟨g "prs" 0, g "prs" 1, g "prs" 2, g "prs" 3⟩, units := g "units" 0, bonus := g "bonus" 0,
            commit := id, absentCrit := fun _ _ => false, spTrack := 0 }, P, B)

def resTok (k : ResKey) (r : ResRec) : String :=
  let p := match r.params with
    | .absent => "-" | .deleted => "del"
    | .val p => s!"{p.total},{p.decimals},{b01 p.defaultFrozen},{p.manager},{p.reserve},{p.freeze},{p.clawback}"
  let h := match r.holding with
    | .absent => "-" | .deleted => "del"
    | .val h => s!"{h.amount},{b01 h.frozen}"
  s!"R{k.2}@{k.1}={p}/{h}"

def insertKey (a : Nat × (Addr × Bool)) : List (Nat × (Addr × Bool)) → List (Nat × (Addr × Bool))
  | [] => [a]
  | b :: r => if a.1 < b.1 then a :: b :: r else b :: insertKey a r

def deltaStr (l : Layer) : String :=
  let as := l.accts.map (fun (a, v) => acctTok a v)
  let rs := l.res.map (fun (k, r) => resTok k r)
  let cs := (l.creat.foldl (fun acc c => insertKey c acc) []).map (fun (i, (cr, created)) => s!"C{i}={cr},{b01 created}")
  " ".intercalate ("D:" :: (as ++ rs ++ cs))

def setHdr (b : B0) (f : Header (List Txn) Nat → Header (List Txn) Nat) : B0 := { b with hdr := f b.hdr }

/-- the mutated block for the modelled single-field mutations -/
def mutateBlk (b : B0) (what : String) (arg : Nat) : Option B0 :=
  let r := b.hdr.rewards
  match what with
  | "fees+1" => some (setHdr b fun h => { h with feesCollected := h.feesCollected + 1 })
  | "fees-1" => some (setHdr b fun h => { h with feesCollected := h.feesCollected - 1 })
  | "ctr+1" => some (setHdr b fun h => { h with txnCounter := h.txnCounter + 1 })
  | "ctr-1" => some (setHdr b fun h => { h with txnCounter := h.txnCounter - 1 })
  | "commit" => some (setHdr b fun h => { h with txnCommit := ({ note := 987654321 } : Txn) :: h.txnCommit })
  | "level+1" => some (setHdr b fun h => { h with rewards := { r with RewardsLevel := r.RewardsLevel + 1 } })
  | "level-1" => some (setHdr b fun h => { h with rewards := { r with RewardsLevel := r.RewardsLevel - 1 } })
  | "residue+1" => some (setHdr b fun h => { h with rewards := { r with RewardsResidue := r.RewardsResidue + 1 } })
  | "rate+1" => some (setHdr b fun h => { h with rewards := { r with RewardsRate := r.RewardsRate + 1 } })
  | "recalc+1" => some (setHdr b fun h => { h with rewards := { r with RewardsRecalculationRound := r.RewardsRecalculationRound + 1 } })
  | "payout" => some (setHdr b fun h => { h with proposerPayout := arg })
  | "bonus+1" => some (setHdr b fun h => { h with bonus := h.bonus + 1 })
  | "prp0" => some (setHdr b fun h => { h with proposer := 0 })
  | "prpset" => some (setHdr b fun h => { h with proposer := arg })
  | "spnext+1" => some (setHdr b fun h => { h with sp := h.sp + 1 })
  | "exp+" => some (setHdr b fun h => { h with expired := h.expired ++ [arg] })
  | "abs+" => some (setHdr b fun h => { h with absent := h.absent ++ [arg] })
  | _ => none

def step (st : St) (line : String) : St × String :=
  let toks := fields line
  if line.startsWith "reset" then ({ skip := toks.contains "apps=1" }, "ok")
  else if st.skip then (st, "-")
  else if line.startsWith "block " then
    match mkEnv toks.tail with
    | none => ({}, "bad-op")
    | some (E, P, B) =>
      match nextRewards E with
      | .error e => ({}, "START-MISMATCH nextRewards " ++ berrStr e)
      | .ok rs =>
        match startTop E rs.RewardsLevel with
        | .error e => ({}, "START-MISMATCH startTop " ++ berrStr e)
        | .ok top0 =>
          let pool := P.rewardsPool
          if rs.RewardsLevel ≠ P.level then ({}, s!"START-MISMATCH level model={rs.RewardsLevel} observed={P.level}")
          else if acctOf E.ctx top0 pool ≠ B.acct pool then
            ({}, "START-MISMATCH pool model=" ++ acctTok pool (acctOf E.ctx top0 pool) ++ " observed=" ++ acctTok pool (B.acct pool))
          else ({ E := some E, rs := rs, s := { top := top0, payset := [] } }, "ok")
  else
    match st.E with
    | none => (st, "bad-op")
    | some E =>
      let P := E.params st.rs.RewardsLevel
      if line == "dump" then (st, dumpStr E.ctx st.s)
      else if line.startsWith "group" then
        match parseGroup ((line.drop 5).toString.trimAscii.toString) with
        | none => (st, "bad-op")
        | some g =>
          match evalGroup P E.ctx st.s g with
          | .ok s' => ({ st with s := s', tried := g :: st.tried }, "ok | " ++ dumpStr E.ctx s')
          | .error e => ({ st with tried := g :: st.tried }, gerrStr e ++ " | " ++ dumpStr E.ctx st.s)
      else if line.startsWith "gen " then
        let g (k : String) : List String := (kvOf toks.tail k).getD []
        ({ st with prp := nth (g "prp") 0, elig := is1 ((g "elig").getD 0 "0"), part := ids (g "part") }, "-")
      else if line.startsWith "hdr" then
        let exp := ids ((kvOf toks.tail "exp").getD ["-"])
        let abs := ids ((kvOf toks.tail "abs").getD ["-"])
        -- the absentee criterion is abstract: the model trusts the implementation's evaluation of it for the listed accounts
        let E' : E0 := { E with absentCrit := fun a _ => abs.contains a }
        match generateBlock E' st.tried.reverse (fun _ => (exp, abs)) with
        | .error e => ({ st with E := some E', blk := none }, "gen-error " ++ berrStr e)
        | .ok (ub, final) =>
          let b := finishBlock E' ub final st.part st.prp st.elig
          let r := b.hdr.rewards
          ({ st with E := some E', blk := some b },
           s!"hdr payset={ub.payset.flatten.length} ctr={b.hdr.txnCounter} fees={b.hdr.feesCollected} maxpayout={ub.hdr.proposerPayout} payout={b.hdr.proposerPayout} rs={r.RewardsLevel},{r.RewardsRate},{r.RewardsResidue},{r.RewardsRecalculationRound} prp={b.hdr.proposer}")
      else if line.startsWith "validate " then
        match st.blk with
        | none => (st, "bad-op")
        | some b =>
          match validate E b with
          | .ok δ => (st, "ok | " ++ deltaStr δ)
          | .error e => (st, "reject " ++ berrStr e)
      else if line.startsWith "mutate " then
        match st.blk with
        | none => (st, "bad-op")
        | some b =>
          match mutateBlk b (toks.getD 1 "") (nat! (toks.getD 2 "0")) with
          | none => (st, "-")
          | some b' =>
            match validate E b' with
            | .ok _ => (st, "ACCEPTED")
            | .error e => (st, "rejected " ++ berrStr e)
      else if line.startsWith "commit" then ({ st with blk := none }, "-")
      else (st, "bad-op")

end AlgoVerif.Driver.C20
