import AlgoVerif.Base.Drv
import AlgoVerif.Model.Catchup
/-!
Line protocol of property C30 — the acceptor `Model.Catchup.step` behind one event per line:

  reset mode=<CatchupBlockValidateMode> lb=<seedLookback> par=<CatchupParallelBlocks> base=<ledger round>
  certreset r=<round> cert=<id of the certificate agreement verified>     (syncCert / fetchRound case, Model.Catchup.cstep)
  fetch r | retry r | fetched r b c br cr cm au | fetcherr r [kind] | contents r b ok|bad | auth r b c ok|bad
  wrote r b c [cm au] | dup r b c [cm au] | done r | ext r

Answer per line: `ok` or `reject <rule>`.  A rejected event does not change the state.
-/
namespace AlgoVerif.Driver.C30
open AlgoVerif.Drv AlgoVerif.Model.Catchup

def kv (toks : List String) (k : String) : Option Nat :=
  toks.findSome? fun t => match t.splitOn "=" with
    | [k', v] => if k' = k then v.toNat? else none
    | _ => none

/-- injective encoding of an ASCII id string -/
def idOf (s : String) : Nat := s.foldl (fun n ch => n * 256 + ch.toNat + 1) 0

def flag (s : String) : Option Bool :=
  if s = "1" ∨ s = "ok" then some true else if s = "0" ∨ s = "bad" then some false else none

def parseEvent : List String → Option Event
  | ["fetch", r] => r.toNat?.map Event.fetch
  | ["retry", r] => r.toNat?.map Event.retry
  | ["fetched", r, b, c, br, cr, cm, au] => do
      let r ← r.toNat?; let br ← br.toNat?; let cr ← cr.toNat?; let cm ← flag cm; let au ← flag au
      pure (Event.fetched r ⟨idOf b, idOf c, br, cr, cm, au⟩)
  | "fetcherr" :: r :: _ => r.toNat?.map Event.fetcherr
  | ["contents", r, b, v] => do let r ← r.toNat?; let v ← flag v; pure (Event.contents r (idOf b) v)
  | ["auth", r, b, c, v] => do let r ← r.toNat?; let v ← flag v; pure (Event.auth r (idOf b) (idOf c) v)
  | "wrote" :: r :: b :: c :: _ => r.toNat?.map fun r => Event.wrote r (idOf b) (idOf c)
  | "dup" :: r :: b :: c :: _ => r.toNat?.map fun r => Event.dup r (idOf b) (idOf c)
  | ["done", r] => r.toNat?.map Event.done
  | ["ext", r] => r.toNat?.map Event.ext
  | _ => none

def kvs (toks : List String) (k : String) : Option String :=
  toks.findSome? fun t => match t.splitOn "=" with
    | [k', v] => if k' = k then some v else none
    | _ => none

/-- events of a `certreset` case (syncCert / fetchRound): same lines, `fetched` carries a 9th field hm -/
def parseCEvent (r : Nat) : List String → Option CEvent
  | ["fetch", r'] => if r'.toNat? = some r then some .request else none
  | ["retry", r'] => if r'.toNat? = some r then some .request else none
  | ["fetched", r', b, c, br, cr, cm, _au, hm] => do
      let r' ← r'.toNat?; let br ← br.toNat?; let cr ← cr.toNat?; let cm ← flag cm; let hm ← flag hm
      if r' = r then pure (CEvent.answer ⟨idOf b, idOf c, br, cr, hm, cm⟩) else none
  | "fetcherr" :: r' :: _ => if r'.toNat? = some r then some .err else none
  | "wrote" :: r' :: b :: c :: _ => if r'.toNat? = some r then some (.ensure (idOf b) (idOf c)) else none
  | "dup" :: r' :: b :: c :: _ => if r'.toNat? = some r then some (.ensure (idOf b) (idOf c)) else none
  | _ => none

inductive DState where
  | none
  | pipe (cfg : Cfg) (s : St)
  | cert (r : Nat) (trusted : Id) (t : CTask)

def handle (st : DState) (line : String) : DState × String :=
  match fields line with
  | "reset" :: rest =>
    match kv rest "mode", kv rest "lb", kv rest "par", kv rest "base" with
    | some m, some lb, some par, some base =>
      match cfgOfMode m lb par with
      | some cfg => (.pipe cfg (init base), "ok")
      | none => (.none, "reject bad-mode")
    | _, _, _, _ => (.none, "reject bad-reset")
  | "certreset" :: rest =>
    match kv rest "r", kvs rest "cert" with
    | some r, some c => (.cert r (idOf c) .ready, "ok")
    | _, _ => (.none, "reject bad-reset")
  | toks =>
    match st with
    | .none => (.none, "reject no-case")
    | .pipe cfg s =>
      match parseEvent toks with
      | none => (st, "reject unknown-event")
      | some e =>
        match step cfg s e with
        | .ok s' => (.pipe cfg s', "ok")
        | .error rule => (st, "reject " ++ rule)
    | .cert r tr t =>
      match toks with
      | ["done", _] => (st, "ok")      -- the ledger's notification is not an event of this path
      | _ =>
        match parseCEvent r toks with
        | none => (st, "reject unknown-event")
        | some e =>
          match cstep r tr t e with
          | .ok t' => (.cert r tr t', "ok")
          | .error rule => (st, "reject " ++ rule)

end AlgoVerif.Driver.C30
