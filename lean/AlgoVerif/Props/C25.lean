/-
C25 — Rewards accounting distributes exactly the rewards rate.
Theorems about `Gen.Rewards.RewardsState_NextRewardsState` / `WithUpdatedRewards`, REGENERATED from
data/bookkeeping/block.go and data/basics/userBalance.go by tools/go2lean on every run.
-/
import AlgoVerif.Gen.Rewards
import AlgoVerif.Props.C45
import AlgoVerif.Spec.Rewards
namespace Props.C25
open AlgoVerif.U64 Gen.Basics Gen.Rewards Props.C45

abbrev M : Nat := 2^64

/-- The refresh stage in closed form: new rate and new recalculation round. -/
def maxSpentOver (s : bookkeeping_RewardsState) (P : config_ConsensusParams) (B : Nat) : Nat :=
  if P.PendingResidueRewards then
    (if P.MinBalance + s.RewardsResidue < M then P.MinBalance + s.RewardsResidue else B)
  else P.MinBalance

def rate' (s : bookkeeping_RewardsState) (r : Nat) (P : config_ConsensusParams) (B : Nat) : Nat :=
  if r = s.RewardsRecalculationRound then (B - maxSpentOver s P B) / P.RewardsRateRefreshInterval
  else s.RewardsRate

def recalc' (s : bookkeeping_RewardsState) (r : Nat) (P : config_ConsensusParams) : Nat :=
  if r = s.RewardsRecalculationRound then (r + P.RewardsRateRefreshInterval) % M
  else s.RewardsRecalculationRound

/-- rate actually distributed this round -/
def rateEff (s : bookkeeping_RewardsState) (r : Nat) (P : config_ConsensusParams) (B : Nat) : Nat :=
  if P.RewardsCalculationFix then rate' s r P B else s.RewardsRate

structure InRange (s : bookkeeping_RewardsState) (r : Nat) (P : config_ConsensusParams) (B U : Nat) : Prop where
  lvl : s.RewardsLevel < M
  rate : s.RewardsRate < M
  res : s.RewardsResidue < M
  rcl : s.RewardsRecalculationRound < M
  r : r < M
  mb : P.MinBalance < M
  iv : P.RewardsRateRefreshInterval < M
  b : B < M
  u : U < M

theorem maxSpentOver_lt {s P B} (hP : P.MinBalance < M) (hB : B < M) : maxSpentOver s P B < M := by
  unfold maxSpentOver; split <;> (try split) <;> omega

/-- Shape of the result: stage 1 (refresh) only touches rate and recalculation round; stage 2 distributes
`rr + residue` over `U` units exactly, or leaves level and residue unchanged when the sums overflow. -/
theorem next_shape (s : bookkeeping_RewardsState) (r : Nat) (P : config_ConsensusParams) (B U : Nat)
    (h : InRange s r P B U) :
    ∃ ra rc, ra < M ∧ (r ≠ s.RewardsRecalculationRound → ra = s.RewardsRate ∧ rc = s.RewardsRecalculationRound) ∧
      RewardsState_NextRewardsState s r P B U =
        (if U = 0 then { s with RewardsRate := ra, RewardsRecalculationRound := rc }
         else if (if P.RewardsCalculationFix then ra else s.RewardsRate) + s.RewardsResidue < M ∧
                 s.RewardsLevel + ((if P.RewardsCalculationFix then ra else s.RewardsRate) + s.RewardsResidue) / U < M
              then { RewardsLevel := s.RewardsLevel + ((if P.RewardsCalculationFix then ra else s.RewardsRate) + s.RewardsResidue) / U,
                     RewardsRate := ra,
                     RewardsResidue := ((if P.RewardsCalculationFix then ra else s.RewardsRate) + s.RewardsResidue) % U,
                     RewardsRecalculationRound := rc }
              else { s with RewardsRate := ra, RewardsRecalculationRound := rc }) := by
  obtain ⟨hl, hr, hres, hrec, hrr, hmb, hiv, hb, hu⟩ := h
  unfold RewardsState_NextRewardsState
  extract_lets res0 res1 mb ov0 mso0 nr0 resA rr2 rr1 rr
  have hAL : resA.RewardsLevel = s.RewardsLevel := by
    simp only [resA, res1]
    repeat' split
    all_goals rfl
  have hAR : resA.RewardsResidue = s.RewardsResidue := by
    simp only [resA, res1]
    repeat' split
    all_goals rfl
  have hArate : resA.RewardsRate < M := by
    have hsub : ∀ x, (OSub 64 B x).fst < M := by
      intro x; simp only [OSub, usub]; exact Nat.mod_lt _ (by decide)
    simp only [resA, res1]
    repeat' split
    all_goals first
      | exact hr
      | (simp only []
         refine Nat.lt_of_le_of_lt (Nat.div_le_self _ _) ?_
         first | (simp only [nr0]; decide) | exact hsub _)
  have hrrM : rr < M := by
    simp only [rr, rr2, rr1]; split
    · exact hArate
    · exact hr
  have hAfix : r ≠ s.RewardsRecalculationRound → resA = s := by
    intro hne; simp only [resA, res1]; simp [hne]
  have hAeq : resA = { s with RewardsRate := resA.RewardsRate, RewardsRecalculationRound := resA.RewardsRecalculationRound } := by
    cases hx : resA with
    | mk l ra rs rc =>
      rw [hx] at hAL hAR; simp only at hAL hAR
      simp [hAL, hAR]
  refine ⟨resA.RewardsRate, resA.RewardsRecalculationRound, hArate, ?_, ?_⟩
  · intro hne; rw [hAfix hne]; exact ⟨rfl, rfl⟩
  by_cases hU : U = 0
  · simp only [hU, decide_true, if_true]; exact hAeq
  have hUd : decide (U = 0) = false := by simp [hU]
  have hres' : resA.RewardsResidue < 2^64 := by rw [hAR]; exact hres
  have hl' : resA.RewardsLevel < 2^64 := by rw [hAL]; exact hl
  simp only [hUd, Bool.false_eq_true, if_false, hU]
  rw [tracker_add ov0 rr resA.RewardsResidue hrrM hres']
  have hq : (rr + resA.RewardsResidue) % 2^64 / U < 2^64 :=
    Nat.lt_of_le_of_lt (Nat.div_le_self _ _) (Nat.mod_lt _ (by decide))
  rw [tracker_add _ resA.RewardsLevel _ hl' hq]
  simp only [ov0, Bool.false_or, hAL, hAR]
  have hrrdef : rr = (if P.RewardsCalculationFix = true then resA.RewardsRate else s.RewardsRate) := rfl
  rw [← hrrdef]
  clear_value rr
  simp only [decide_false, Bool.false_eq_true, if_false]
  generalize rr + s.RewardsResidue = T at *
  show _ = if T < 2^64 ∧ s.RewardsLevel + T / U < 2^64 then _ else _
  by_cases hT : 2^64 ≤ T
  · have h1 : ¬ (T < 2^64 ∧ s.RewardsLevel + T / U < 2^64) := by omega
    rw [if_neg h1]
    simp only [hT, decide_true, Bool.true_or, if_true]
    exact hAeq
  · have hTlt : T < 2^64 := by omega
    rw [Nat.mod_eq_of_lt hTlt]
    by_cases hL : 2^64 ≤ s.RewardsLevel + T / U
    · have h1 : ¬ (T < 2^64 ∧ s.RewardsLevel + T / U < 2^64) := by omega
      rw [if_neg h1]
      simp only [hL, decide_true, Bool.or_true, if_true]
      exact hAeq
    · have h1 : T < 2^64 ∧ s.RewardsLevel + T / U < 2^64 := by omega
      rw [if_pos h1]
      simp only [hT, hL, decide_false, Bool.or_false, Bool.false_eq_true, if_false]
      rw [Nat.mod_eq_of_lt h1.2]


theorem ite_rate (c : Prop) [Decidable c] (a b : bookkeeping_RewardsState) (x : Nat)
    (ha : a.RewardsRate = x) (hb : b.RewardsRate = x) : (if c then a else b).RewardsRate = x := by
  split <;> assumption

/-- rate distributed in this round -/
def rrOf (P : config_ConsensusParams) (res s : bookkeeping_RewardsState) : Nat :=
  if P.RewardsCalculationFix then res.RewardsRate else s.RewardsRate

/-- C25 main identity: with reward units present and no 64-bit overflow, exactly the rate (plus the carried
residue) is distributed: Δlevel·units + new residue = rate + old residue, and the new residue is < units. -/
theorem rewards_identity (s : bookkeeping_RewardsState) (r : Nat) (P : config_ConsensusParams) (B U : Nat)
    (h : InRange s r P B U) (hU : U ≠ 0)
    (hno : rrOf P (RewardsState_NextRewardsState s r P B U) s + s.RewardsResidue < M ∧
           s.RewardsLevel + (rrOf P (RewardsState_NextRewardsState s r P B U) s + s.RewardsResidue) / U < M) :
    let res := RewardsState_NextRewardsState s r P B U
    s.RewardsLevel ≤ res.RewardsLevel ∧
    (res.RewardsLevel - s.RewardsLevel) * U + res.RewardsResidue = rrOf P res s + s.RewardsResidue ∧
    res.RewardsResidue < U := by
  obtain ⟨ra, rc, hra, _, heq⟩ := next_shape s r P B U h
  have hrate : (RewardsState_NextRewardsState s r P B U).RewardsRate = ra := by
    rw [heq]; simp only [hU, if_false]; exact ite_rate _ _ _ _ rfl rfl
  simp only [rrOf, hrate] at hno ⊢
  rw [heq]; simp only [hU, if_false]
  rw [if_pos hno]
  simp only []
  generalize (if P.RewardsCalculationFix = true then ra else s.RewardsRate) + s.RewardsResidue = T
  refine ⟨Nat.le_add_right _ _, ?_, Nat.mod_lt _ (Nat.pos_of_ne_zero hU)⟩
  rw [Nat.add_sub_cancel_left, Nat.mul_comm]; exact Nat.div_add_mod T U

/-- without reward units the level and the residue are carried over unchanged -/
theorem no_units_no_change (s : bookkeeping_RewardsState) (r : Nat) (P : config_ConsensusParams) (B : Nat)
    (h : InRange s r P B 0) :
    (RewardsState_NextRewardsState s r P B 0).RewardsLevel = s.RewardsLevel ∧
    (RewardsState_NextRewardsState s r P B 0).RewardsResidue = s.RewardsResidue := by
  obtain ⟨ra, rc, _, _, heq⟩ := next_shape s r P B 0 h
  rw [heq]; simp

/-- if either sum overflows 64 bits the previous level and residue are kept (nothing is distributed) -/
theorem overflow_keeps_level (s : bookkeeping_RewardsState) (r : Nat) (P : config_ConsensusParams) (B U : Nat)
    (h : InRange s r P B U) (hU : U ≠ 0)
    (hov : ¬ (rrOf P (RewardsState_NextRewardsState s r P B U) s + s.RewardsResidue < M ∧
           s.RewardsLevel + (rrOf P (RewardsState_NextRewardsState s r P B U) s + s.RewardsResidue) / U < M)) :
    (RewardsState_NextRewardsState s r P B U).RewardsLevel = s.RewardsLevel ∧
    (RewardsState_NextRewardsState s r P B U).RewardsResidue = s.RewardsResidue := by
  obtain ⟨ra, rc, hra, _, heq⟩ := next_shape s r P B U h
  have hrate : (RewardsState_NextRewardsState s r P B U).RewardsRate = ra := by
    rw [heq]; simp only [hU, if_false]; exact ite_rate _ _ _ _ rfl rfl
  simp only [rrOf, hrate] at hov
  rw [heq]; simp only [hU, if_false]
  rw [if_neg hov]; exact ⟨rfl, rfl⟩

/-- outside the recalculation round the rate and the recalculation round do not change -/
theorem rate_unchanged_off_refresh (s : bookkeeping_RewardsState) (r : Nat) (P : config_ConsensusParams) (B U : Nat)
    (h : InRange s r P B U) (hne : r ≠ s.RewardsRecalculationRound) :
    (RewardsState_NextRewardsState s r P B U).RewardsRate = s.RewardsRate ∧
    (RewardsState_NextRewardsState s r P B U).RewardsRecalculationRound = s.RewardsRecalculationRound := by
  obtain ⟨ra, rc, _, hfix, heq⟩ := next_shape s r P B U h
  obtain ⟨h1, h2⟩ := hfix hne
  rw [heq, h1, h2]
  by_cases hU : U = 0
  · simp [hU]
  · simp only [hU, if_false]
    by_cases hc : (if P.RewardsCalculationFix = true then s.RewardsRate else s.RewardsRate) + s.RewardsResidue < M ∧
        s.RewardsLevel + ((if P.RewardsCalculationFix = true then s.RewardsRate else s.RewardsRate) + s.RewardsResidue) / U < M
    · rw [if_pos hc]; exact ⟨rfl, rfl⟩
    · rw [if_neg hc]; exact ⟨rfl, rfl⟩

/-- At the recalculation round the new rate is ⌊(pool − floor)/interval⌋ where the floor is MinBalance
(plus the pending residue when `PendingResidueRewards`); 0 when the pool is at or below the floor. -/
theorem refresh_rate (s : bookkeeping_RewardsState) (r : Nat) (P : config_ConsensusParams) (B U : Nat)
    (h : InRange s r P B U) (hr : r = s.RewardsRecalculationRound) :
    (RewardsState_NextRewardsState s r P B U).RewardsRate = (B - maxSpentOver s P B) / P.RewardsRateRefreshInterval ∧
    (RewardsState_NextRewardsState s r P B U).RewardsRecalculationRound = (r + P.RewardsRateRefreshInterval) % M := by
  obtain ⟨hl, hrt, hres, hrec, hrr, hmb, hiv, hb, hu⟩ := h
  have hmso := @maxSpentOver_lt s P B hmb hb
  unfold RewardsState_NextRewardsState
  extract_lets res0 res1 mb ov0 mso0 nr0 resA rr2 rr1 rr
  have hA : resA.RewardsRate = (B - maxSpentOver s P B) / P.RewardsRateRefreshInterval ∧
            resA.RewardsRecalculationRound = (r + P.RewardsRateRefreshInterval) % M := by
    simp only [resA, res1, mb, ov0, mso0, nr0, hr, decide_true, if_true]
    rw [oadd_exact 64 _ _ hmb hres]
    have hM : M = 2^64 := rfl
    by_cases hp : P.PendingResidueRewards = true
    · by_cases ho : 2^64 ≤ P.MinBalance + s.RewardsResidue
      · have hnlt : ¬ (P.MinBalance + s.RewardsResidue < M) := by rw [hM]; omega
        simp only [hp, ho, if_true, decide_true]
        rw [osub_exact 64 B B hb hb]
        simp [maxSpentOver, hp, hnlt, uadd]
      · have hlt : P.MinBalance + s.RewardsResidue < M := by rw [hM]; omega
        simp only [hp, ho, if_true, decide_false, Bool.false_eq_true, if_false]
        rw [Nat.mod_eq_of_lt hlt]
        rw [osub_exact 64 B _ hb hlt]
        simp only [maxSpentOver, hp, hlt, if_true, uadd]
        by_cases hge : P.MinBalance + s.RewardsResidue ≤ B
        · have : ¬ B < P.MinBalance + s.RewardsResidue := by omega
          simp [hge, this]
        · have : B < P.MinBalance + s.RewardsResidue := by omega
          have h0 : B - (P.MinBalance + s.RewardsResidue) = 0 := by omega
          simp [hge, this, h0]
    · simp only [hp, Bool.false_eq_true, if_false]
      rw [osub_exact 64 B _ hb hmb]
      simp only [maxSpentOver, hp, Bool.false_eq_true, if_false, uadd]
      by_cases hge : P.MinBalance ≤ B
      · have : ¬ B < P.MinBalance := by omega
        simp [hge, this]
      · have : B < P.MinBalance := by omega
        have h0 : B - P.MinBalance = 0 := by omega
        simp [hge, this, h0]
  obtain ⟨hA1, hA2⟩ := hA
  by_cases hU : U = 0
  · simp only [hU, decide_true, if_true]; exact ⟨hA1, hA2⟩
  · have hUd : decide (U = 0) = false := by simp [hU]
    simp only [hUd, Bool.false_eq_true, if_false]
    constructor
    · repeat' split
      all_goals first | exact hA1 | (simp only []; exact hA1)
    · repeat' split
      all_goals first | exact hA2 | (simp only []; exact hA2)

/-- the refreshed rate never promises more than the pool holds above its floor -/
theorem refresh_bound (s : bookkeeping_RewardsState) (r : Nat) (P : config_ConsensusParams) (B U : Nat)
    (h : InRange s r P B U) (hr : r = s.RewardsRecalculationRound) :
    (RewardsState_NextRewardsState s r P B U).RewardsRate * P.RewardsRateRefreshInterval ≤ B - maxSpentOver s P B ∧
    (B ≤ maxSpentOver s P B → (RewardsState_NextRewardsState s r P B U).RewardsRate = 0) := by
  rw [(refresh_rate s r P B U h hr).1]
  constructor
  · exact Nat.div_mul_le_self _ _
  · intro hle
    have : B - maxSpentOver s P B = 0 := by omega
    rw [this]; exact Nat.zero_div _

/-- The regenerated function equals the hand-written closed-form specification (the function the
correspondence driver evaluates next to the real Go code). -/
theorem next_eq_spec (s : bookkeeping_RewardsState) (r : Nat) (P : config_ConsensusParams) (B U : Nat)
    (h : InRange s r P B U) :
    let res := RewardsState_NextRewardsState s r P B U
    (res.RewardsLevel, res.RewardsRate, res.RewardsResidue, res.RewardsRecalculationRound) =
      Spec.Rewards.next s.RewardsLevel s.RewardsRate s.RewardsResidue s.RewardsRecalculationRound r
        P.MinBalance P.RewardsRateRefreshInterval P.PendingResidueRewards P.RewardsCalculationFix B U := by
  obtain ⟨ra, rc, hra, hfix, heq⟩ := next_shape s r P B U h
  have hMM : Spec.Rewards.M = M := by decide
  have hfloor : Spec.Rewards.floorOf P.MinBalance s.RewardsResidue B P.PendingResidueRewards = maxSpentOver s P B := by
    unfold Spec.Rewards.floorOf maxSpentOver; rw [hMM]
  -- identify ra and rc
  have hrate : (RewardsState_NextRewardsState s r P B U).RewardsRate = ra := by
    rw [heq]; by_cases hU : U = 0
    · simp [hU]
    · simp only [hU, if_false]; exact ite_rate _ _ _ _ rfl rfl
  have hrcl : (RewardsState_NextRewardsState s r P B U).RewardsRecalculationRound = rc := by
    rw [heq]; by_cases hU : U = 0
    · simp [hU]
    · simp only [hU, if_false]
      by_cases hc : (if P.RewardsCalculationFix = true then ra else s.RewardsRate) + s.RewardsResidue < M ∧
          s.RewardsLevel + ((if P.RewardsCalculationFix = true then ra else s.RewardsRate) + s.RewardsResidue) / U < M
      · rw [if_pos hc]
      · rw [if_neg hc]
  have hra' : ra = if r = s.RewardsRecalculationRound then (B - maxSpentOver s P B) / P.RewardsRateRefreshInterval else s.RewardsRate := by
    by_cases hr : r = s.RewardsRecalculationRound
    · rw [if_pos hr, ← hrate]; exact (refresh_rate s r P B U h hr).1
    · rw [if_neg hr]; exact (hfix hr).1
  have hrc' : rc = if r = s.RewardsRecalculationRound then (r + P.RewardsRateRefreshInterval) % M else s.RewardsRecalculationRound := by
    by_cases hr : r = s.RewardsRecalculationRound
    · rw [if_pos hr, ← hrcl]; exact (refresh_rate s r P B U h hr).2
    · rw [if_neg hr]; exact (hfix hr).2
  show (_, _, _, _) = _
  unfold Spec.Rewards.next
  rw [hfloor, hMM, ← hra', ← hrc', heq]
  by_cases hU : U = 0
  · simp [hU]
  · simp only [hU, if_false]
    by_cases hc : (if P.RewardsCalculationFix = true then ra else s.RewardsRate) + s.RewardsResidue < M ∧
        s.RewardsLevel + ((if P.RewardsCalculationFix = true then ra else s.RewardsRate) + s.RewardsResidue) / U < M
    · rw [if_pos hc, if_pos hc]
    · rw [if_neg hc, if_neg hc]

-- Non-vacuity: a concrete in-range state (mainnet-like numbers), refresh round, units present.
example : InRange ⟨1000, 50, 7, 500000⟩ 500000 ⟨100000, 500000, true, true⟩ 1000000000 1234 := by
  constructor <;> decide
example : RewardsState_NextRewardsState ⟨1000, 50, 7, 500000⟩ 500000 ⟨100000, 500000, true, true⟩ 1000000000 1234
    = ⟨1001, 1999, 772, 1000000⟩ := by decide
example : RewardsState_NextRewardsState ⟨1000, 50, 7, 500000⟩ 17 ⟨100000, 500000, true, true⟩ 1000000000 0
    = ⟨1000, 50, 7, 500000⟩ := by decide

end Props.C25
