/-
C34 — Programs cannot use features newer than their version or outside their mode.

Part A: theorems about `Model.OpTables.buildTables` (the replay of opcodes.go:init) for EVERY list of OpSpecs rows.
Part B: the version / mode / field gates of the model's `step` / `checkStep`.
Part C: complete finite checks over the table GENERATED from the current tree (`Gen.OpTable`, regenerated every run):
        the real built tables equal `buildTables Gen.opSpecs` cell by cell; no state-touching op allows signature mode; …
Part D: the two combined: what a `pass` verdict of the model guarantees for today's table.

Part B': the static check loop (Model.OpCheck): every branch target admitted by an accepting check is an instruction start
        (`check_targets_aligned`, all programs, all row lists). The eval side of `CheckEvalAgreeStatement` (eval only moves
        to pc + width or to such a target) is NOT proved; it is a monitor on the real evaluator in the harness.
-/
import AlgoVerif.Model.OpTables
import AlgoVerif.Model.OpCheck
import AlgoVerif.Lemmas.OpTables
import AlgoVerif.Gen.OpTable
namespace Props.C34
open Model.OpTables Lemmas.OpTables

/-! ## Part A — tables, for every row list -/

/-- the copy that init() puts in table 0 -/
def alias0 (r : Spec) : Spec := { r with version := 0 }

/-- FULL. Whatever `GetOpSpec` finds in the table of version `v` is a row of the list whose version is ≤ v (table 0, the
    alias of table 1 kept for compatibility, holds version-1 rows with the version field overwritten to 0); it sits under
    its own opcode byte, and a multi-byte spec is returned only for its own sub-opcode byte. -/
theorem table_version_sound (rows : List Spec) (v op : Nat) (next : Option Nat) (s : Spec)
    (h : getSpec (buildTables rows) v op next = some s) :
    (s ∈ rows ∨ (v = 0 ∧ ∃ r ∈ rows, r.version = 1 ∧ s = alias0 r)) ∧ s.version ≤ v ∧
    s.opcode = op ∧ (s.sub = 0 ∨ next = some s.sub) := by
  obtain ⟨j, hj, h1, h2, h3, h4⟩ := getSpec_stored (P := Stored rows v) (inv_tableAt rows v) h
  refine ⟨?_, h2, h3, ?_⟩
  · rcases h1 with h1 | h1
    · exact Or.inl h1.1
    · exact Or.inr h1
  · rw [h4]; exact hj

/-- FULL. From version 1 on: a genuine row, introduced no later than the program's version (and not a "version 0" row,
    which init() never registers). -/
theorem table_version_sound_pos (rows : List Spec) (v op : Nat) (next : Option Nat) (s : Spec) (hv : 1 ≤ v)
    (h : getSpec (buildTables rows) v op next = some s) : s ∈ rows ∧ 1 ≤ s.version ∧ s.version ≤ v := by
  obtain ⟨j, _, h1, h2, _, _⟩ := getSpec_stored (P := Stored rows v) (inv_tableAt rows v) h
  rcases h1 with h1 | ⟨h0, _⟩
  · exact ⟨h1.1, h1.2, h2⟩
  · omega

/-- the last row of the list registered at exactly version `w` for (opcode, sub-opcode) -/
def latestAt (rows : List Spec) (w op sub : Nat) : Option Spec :=
  (rows.filter (fun r => decide (r.version = w ∧ r.opcode = op ∧ r.sub = sub))).getLast?

/-- specification of a table slot: the last-listed row of the newest version ≤ v that registers (op, sub) -/
def latestUpTo (rows : List Spec) (op sub : Nat) : Nat → Option Spec
  | 0 => (latestAt rows 1 op sub).map alias0
  | 1 => latestAt rows 1 op sub
  | v + 2 => (latestAt rows (v + 2) op sub).or (latestUpTo rows op sub (v + 1))

theorem cands_overlay (rows : List Spec) (v op sub : Nat) :
    cands (fun oi => if oi.version = v then some oi else none) op sub rows
      = rows.filter (fun r => decide (r.version = v ∧ r.opcode = op ∧ r.sub = sub)) := by
  unfold cands
  induction rows with
  | nil => rfl
  | cons r rest ih =>
    rw [List.filterMap_cons, List.filter_cons, ih]
    by_cases h1 : r.version = v
    · by_cases h2 : r.opcode = op ∧ r.sub = sub
      · simp [h1, h2]
      · simp [h1, h2]
    · simp [h1]

theorem cands_overlay0 (rows : List Spec) (op sub : Nat) :
    cands (fun oi => if oi.version = 1 then some { oi with version := 0 } else none) op sub rows
      = (rows.filter (fun r => decide (r.version = 1 ∧ r.opcode = op ∧ r.sub = sub))).map alias0 := by
  unfold cands
  induction rows with
  | nil => rfl
  | cons r rest ih =>
    rw [List.filterMap_cons, List.filter_cons, ih]
    by_cases h1 : r.version = 1
    · by_cases h2 : r.opcode = op ∧ r.sub = sub
      · simp [h1, h2, alias0]
      · simp [h1, h2]
    · simp [h1]

/-- FULL (slot form). Every slot of every table is exactly `latestUpTo`. For a sub-opcode slot the hypothesis excludes
    single-byte rows on the same opcode byte: such a row overwrites the whole cell, SubOps included (that is what the Go
    assignment does; today's table has no such opcode, see `gen_no_mix`). -/
theorem slot_tableAt (rows : List Spec) (op sub : Nat) (hop : op < 256)
    (hnw : sub ≠ 0 → ∀ r ∈ rows, r.opcode = op → r.sub ≠ 0) :
    ∀ v, slot (tableAt rows v) op sub = latestUpTo rows op sub v
  | 0 => by
    unfold tableAt latestUpTo latestAt
    rw [overlay0_eq, slot_foldl, pick_eq, cands_overlay0, slot_empty, List.getLast?_map]
    · simp
    · unfold emptyTable; rw [List.length_replicate]; exact hop
    · intro oi hoi oi' h ⟨w1, w2, w3⟩
      split at h
      · cases h; exact hnw w3 oi hoi w1 w2
      · cases h
  | 1 => by
    unfold tableAt latestUpTo latestAt
    rw [overlay_eq, slot_foldl, pick_eq, cands_overlay, slot_empty]
    · simp
    · unfold emptyTable; rw [List.length_replicate]; exact hop
    · intro oi hoi oi' h ⟨w1, w2, w3⟩
      split at h
      · cases h; exact hnw w3 oi hoi w1 w2
      · cases h
  | v + 2 => by
    unfold tableAt latestUpTo latestAt
    rw [overlay_eq, slot_foldl, pick_eq, cands_overlay, slot_tableAt rows op sub hop hnw (v + 1)]
    · rw [length_tableAt]; exact hop
    · intro oi hoi oi' h ⟨w1, w2, w3⟩
      split at h
      · cases h; exact hnw w3 oi hoi w1 w2
      · cases h

theorem latestAt_some {rows : List Spec} {w op sub : Nat} {s : Spec} (h : latestAt rows w op sub = some s) :
    s ∈ rows ∧ s.version = w ∧ s.opcode = op ∧ s.sub = sub := by
  unfold latestAt at h
  have := List.mem_of_getLast? h
  rw [List.mem_filter] at this
  obtain ⟨h1, h2⟩ := this
  exact ⟨h1, of_decide_eq_true h2⟩

theorem latestAt_isSome {rows : List Spec} {r : Spec} (hr : r ∈ rows) :
    ∃ s, latestAt rows r.version r.opcode r.sub = some s := by
  unfold latestAt
  cases h : (rows.filter (fun x => decide (x.version = r.version ∧ x.opcode = r.opcode ∧ x.sub = r.sub))).getLast? with
  | some s => exact ⟨s, rfl⟩
  | none =>
    rw [List.getLast?_eq_none_iff] at h
    have : r ∈ rows.filter (fun x => decide (x.version = r.version ∧ x.opcode = r.opcode ∧ x.sub = r.sub)) := by
      rw [List.mem_filter]; exact ⟨hr, by simp⟩
    rw [h] at this; cases this

/-- a row registered at a version in [1, v] makes the slot non-empty, with a row at least as new -/
theorem latestUpTo_ge {rows : List Spec} {r : Spec} (hr : r ∈ rows) (h1 : 1 ≤ r.version) :
    ∀ v, r.version ≤ v → ∃ s, latestUpTo rows r.opcode r.sub v = some s ∧ s ∈ rows ∧
      r.version ≤ s.version ∧ s.version ≤ v ∧ s.opcode = r.opcode ∧ s.sub = r.sub
  | 0 => by intro h; omega
  | 1 => by
    intro h
    have hv : r.version = 1 := by omega
    obtain ⟨s, hs⟩ := latestAt_isSome hr
    rw [hv] at hs
    obtain ⟨a, b, c, d⟩ := latestAt_some hs
    exact ⟨s, by unfold latestUpTo; exact hs, a, by omega, by omega, c, d⟩
  | v + 2 => by
    intro h
    unfold latestUpTo
    cases hl : latestAt rows (v + 2) r.opcode r.sub with
    | some s =>
      obtain ⟨a, b, c, d⟩ := latestAt_some hl
      exact ⟨s, rfl, a, by omega, by omega, c, d⟩
    | none =>
      have hne : r.version ≠ v + 2 := by
        intro he
        obtain ⟨s, hs⟩ := latestAt_isSome hr
        rw [he, hl] at hs; cases hs
      obtain ⟨s, e, a, b, c, d⟩ := latestUpTo_ge hr h1 (v + 1) (by omega)
      exact ⟨s, by simpa using e, a, b, by omega, d⟩

/-- opcode byte `op` is used either only by single-byte rows or only by sub-opcode rows -/
def NoMixOn (rows : List Spec) (op : Nat) : Prop :=
  (∀ r ∈ rows, r.opcode = op → r.sub = 0) ∨ (∀ r ∈ rows, r.opcode = op → r.sub ≠ 0)

theorem getSpec_of_slot_sub {tbl : Nat → Table} {v op sub : Nat} {s : Spec} (hsub : sub ≠ 0)
    (h : slot (tbl v) op sub = some s) : getSpec tbl v op (some sub) = some s := by
  unfold slot at h
  unfold getSpec
  cases hc : (tbl v)[op]? with
  | none => simp [hc] at h
  | some c =>
    simp only [hc, if_neg hsub] at h ⊢
    cases hg : c.subs[sub]? with
    | none => simp [hg] at h
    | some o =>
      cases o with
      | none => simp [hg] at h
      | some s' =>
        simp [hg] at h
        subst h
        cases hsubs : c.subs with
        | nil => simp [hsubs] at hg
        | cons x xs =>
          simp only []
          rw [hsubs] at hg
          simp only [hg]

theorem getSpec_of_slot_plain {rows : List Spec} {v op : Nat} (next : Option Nat)
    (hplain : ∀ r ∈ rows, r.opcode = op → r.sub = 0) :
    getSpec (buildTables rows) v op next = slot (tableAt rows v) op 0 := by
  unfold getSpec slot buildTables
  cases hc : (tableAt rows v)[op]? with
  | none => rfl
  | some c =>
    simp only [if_pos]
    have := cinv_tableAt rows v op c hc
    have hnil : c.subs = [] := by
      cases hs : c.subs with
      | nil => rfl
      | cons x xs =>
        obtain ⟨r, hr, h1, h2⟩ := this (by rw [hs]; simp)
        exact absurd (hplain r hr h1) h2
    simp [hnil]

/-- FULL. Completeness: a row registered for (op, sub) at a version in [1, v] is never lost — the lookup at version `v`
    returns a row for the same (op, sub), at least as new and not newer than `v`; precisely, it returns
    `latestUpTo rows op sub v`. (`next` is arbitrary for a single-byte opcode and must be the sub-opcode byte otherwise.) -/
theorem table_version_complete (rows : List Spec) (r : Spec) (v : Nat) (next : Option Nat)
    (hr : r ∈ rows) (hop : r.opcode < 256) (h1 : 1 ≤ r.version) (hv : r.version ≤ v)
    (hmix : NoMixOn rows r.opcode) (hnext : r.sub ≠ 0 → next = some r.sub) :
    getSpec (buildTables rows) v r.opcode next = latestUpTo rows r.opcode r.sub v ∧
    ∃ s, getSpec (buildTables rows) v r.opcode next = some s ∧ s ∈ rows ∧ r.version ≤ s.version ∧ s.version ≤ v ∧
      s.opcode = r.opcode ∧ s.sub = r.sub := by
  obtain ⟨s, e, a, b, c, d, f⟩ := latestUpTo_ge hr h1 v hv
  have key : getSpec (buildTables rows) v r.opcode next = latestUpTo rows r.opcode r.sub v := by
    by_cases hsub : r.sub = 0
    · have hplain : ∀ x ∈ rows, x.opcode = r.opcode → x.sub = 0 := by
        rcases hmix with h | h
        · exact h
        · exact absurd hsub (h r hr rfl)
      rw [getSpec_of_slot_plain next hplain, hsub]
      exact slot_tableAt rows r.opcode 0 hop (fun h => absurd rfl h) v
    · have hsubs : ∀ x ∈ rows, x.opcode = r.opcode → x.sub ≠ 0 := by
        rcases hmix with h | h
        · exact absurd (h r hr rfl) hsub
        · exact h
      have hs := slot_tableAt rows r.opcode r.sub hop (fun _ => hsubs) v
      rw [e] at hs
      rw [hnext hsub, e]
      exact getSpec_of_slot_sub hsub hs
  exact ⟨key, s, by rw [key]; exact e, a, b, c, d, f⟩

/-! ## Part B — the gates of step / checkStep (model) -/

/-- FULL. A spec whose mode mask excludes the run mode is rejected by both `step` and `checkStep` before anything else
    happens with it (the only earlier exits are the version gates of `begin`). -/
theorem mode_enforced (tbl : Nat → Table) (groups : List Group) (lv minv mode v op : Nat) (rest : List Nat) (pc : Nat)
    (stk : List Nat) (s : Spec) (hb : beginVerdict lv minv v = none) (hop : (v :: rest)[pc]? = some op)
    (hs : getSpec tbl v op (v :: rest)[pc + 1]? = some s) (hm : allows s.modes mode = false) :
    stepVerdict tbl groups lv minv mode (v :: rest) pc stk = .wrongmode ∧
    checkVerdict tbl lv minv mode (v :: rest) pc = .wrongmode := by
  have hs' : getSpec tbl v op rest[pc]? = some s := by simpa using hs
  unfold stepVerdict checkVerdict opVerdict
  simp [hop, hb, hs', hm]

/-- FULL. No spec in the table of this version ⇒ rejected (`illegal opcode` / `improper sub-opcode`). -/
theorem version_enforced (tbl : Nat → Table) (groups : List Group) (lv minv mode v op : Nat) (rest : List Nat) (pc : Nat)
    (stk : List Nat) (hb : beginVerdict lv minv v = none) (hop : (v :: rest)[pc]? = some op)
    (hs : getSpec tbl v op (v :: rest)[pc + 1]? = none) :
    stepVerdict tbl groups lv minv mode (v :: rest) pc stk = .toonew ∧
    checkVerdict tbl lv minv mode (v :: rest) pc = .toonew := by
  have hs' : getSpec tbl v op rest[pc]? = none := by simpa using hs
  unfold stepVerdict checkVerdict opVerdict
  simp [hop, hb, hs']

/-- what the field gate lets through -/
def FieldOk (g : Group) (v mode f : Nat) : Prop :=
  ∃ fr, g.fields[f]? = some fr ∧ fr.name ≠ "" ∧ fr.version ≤ v ∧ allows fr.modes mode = true

/-- FULL (model). The gate of a field immediate passes exactly the fields that exist in the op's group, are not hidden
    there, were introduced no later than the program version, and allow the run mode. -/
theorem field_gate_pass_iff (g : Group) (v mode f : Nat) : fieldGate g v mode f = .pass ↔ FieldOk g v mode f := by
  unfold fieldGate FieldOk
  cases h : g.fields[f]? with
  | none => simp
  | some fr =>
    simp only [Option.some.injEq, exists_eq_left']
    by_cases h1 : fr.name = ""
    · simp [h1]
    · by_cases h2 : fr.version > v
      · simp [h1, h2]; omega
      · by_cases h3 : allows fr.modes mode = true
        · simp [h1, h2, h3]; omega
        · simp [h1, h2, h3]

theorem field_gate_too_new (g : Group) (v mode f : Nat) (fr : FieldRow) (h : g.fields[f]? = some fr)
    (hv : fr.version > v) : fieldGate g v mode f = .badfield := by
  unfold fieldGate
  simp only [h]
  by_cases h1 : fr.name = ""
  · simp [h1]
  · simp [h1, hv]

theorem field_gate_wrong_mode (g : Group) (v mode f : Nat) (fr : FieldRow) (h : g.fields[f]? = some fr)
    (hm : allows fr.modes mode = false) : fieldGate g v mode f = .badfield ∨ fieldGate g v mode f = .fieldmode := by
  unfold fieldGate
  simp only [h]
  by_cases h1 : fr.name = ""
  · simp [h1]
  · by_cases h2 : fr.version > v
    · simp [h1, h2]
    · simp [h1, h2, hm]

/-- every field immediate of `s` (position `i`, resolved group `g`, byte `f` present in the program) is `FieldOk` -/
def FieldsOk (groups : List Group) (prog : List Nat) (pc v mode : Nat) (s : Spec) : Prop :=
  ∀ i im, s.imms[i]? = some im → im.group ≠ "" →
    ∀ g f, findGroup groups im.group = some g → prog[immBase s pc + i]? = some f → FieldOk g v mode f

theorem fieldVerdict_go_pass (groups : List Group) (prog : List Nat) (pc v mode : Nat) (s : Spec) :
    ∀ (imms : List Imm) (k : Nat), fieldVerdict.go groups prog pc v mode s imms k = .pass →
      ∀ i im, imms[i]? = some im → im.group ≠ "" →
        ∀ g f, findGroup groups im.group = some g → prog[immBase s pc + (k + i)]? = some f → FieldOk g v mode f := by
  intro imms
  induction imms with
  | nil => intro k _ i im h; simp at h
  | cons x xs ih =>
    intro k hgo i im hi hg g f hfg hf
    unfold fieldVerdict.go at hgo
    cases i with
    | zero =>
      simp at hi
      subst hi
      rw [if_neg hg] at hgo
      simp only [Nat.add_zero] at hf
      simp only [hfg, hf] at hgo
      rw [← field_gate_pass_iff]
      cases hgate : fieldGate g v mode f <;> simp [hgate] at hgo ⊢
    | succ j =>
      simp at hi
      have hrest : fieldVerdict.go groups prog pc v mode s xs (k + 1) = .pass := by
        by_cases hx : x.group = ""
        · rw [if_pos hx] at hgo; exact hgo
        · rw [if_neg hx] at hgo
          cases h1 : findGroup groups x.group with
          | none => simp only [h1] at hgo; exact hgo
          | some g' =>
            cases h2 : prog[immBase s pc + k]? with
            | none => simp only [h1, h2] at hgo; exact hgo
            | some f' =>
              simp only [h1, h2] at hgo
              cases hgate : fieldGate g' v mode f' <;> simp [hgate] at hgo
              exact hgo
      have := ih (k + 1) hrest j im hi hg g f hfg
      apply this
      rw [← hf]; congr 2; omega

/-- FULL (model). If the field stage of `step` lets the instruction through, every field immediate that the stage could
    resolve is an existing, visible field introduced no later than the program version and allowed in the run mode. -/
theorem field_version_enforced (groups : List Group) (prog : List Nat) (pc v mode : Nat) (s : Spec)
    (h : fieldVerdict groups prog pc v mode s = .pass) : FieldsOk groups prog pc v mode s := by
  intro i im hi hg g f hfg hf
  unfold fieldVerdict at h
  exact fieldVerdict_go_pass groups prog pc v mode s s.imms 0 h i im hi hg g f hfg (by simpa using hf)

theorem opVerdict_pass {tbl : Nat → Table} {lv minv v mode op : Nat} {next : Option Nat} {e : Verdict} {o : Option Spec}
    (h : opVerdict tbl lv minv v mode op next = (e, o)) (he : e = .pass) :
    v ≤ lv ∧ minv ≤ v ∧ ∃ s, o = some s ∧ getSpec tbl v op next = some s ∧ allows s.modes mode = true := by
  subst he
  unfold opVerdict at h
  cases hb : beginVerdict lv minv v with
  | some e' =>
    rw [hb] at h
    simp only [Prod.mk.injEq] at h
    unfold beginVerdict at hb
    split at hb
    · cases hb; cases h.1
    · split at hb
      · cases hb; cases h.1
      · cases hb
  | none =>
    have hlv : v ≤ lv ∧ minv ≤ v := by
      unfold beginVerdict at hb
      split at hb
      · cases hb
      · split at hb
        · cases hb
        · omega
    rw [hb] at h
    simp only [] at h
    cases hs : getSpec tbl v op next with
    | none => rw [hs] at h; simp at h
    | some s =>
      rw [hs] at h
      simp only [] at h
      by_cases hm : allows s.modes mode = true
      · rw [if_pos hm] at h
        simp only [Prod.mk.injEq, true_and] at h
        exact ⟨hlv.1, hlv.2, s, h.symm, rfl, hm⟩
      · rw [if_neg hm] at h
        simp at h

/-- FULL. Everything a `pass` of the model's `step` means, for every row list: the program version is supported, the
    opcode (with its sub-opcode) resolves to a row introduced no later than that version (or its table-0 alias), the run
    mode is in the row's mask and — when the instruction gets as far as its body — every resolvable field immediate is
    `FieldOk`. -/
theorem step_pass_sound (rows : List Spec) (groups : List Group) (lv minv mode v : Nat) (rest : List Nat) (pc : Nat)
    (stk : List Nat) (op : Nat) (hop : (v :: rest)[pc]? = some op)
    (h : stepVerdict (buildTables rows) groups lv minv mode (v :: rest) pc stk = .pass) :
    v ≤ lv ∧ minv ≤ v ∧ ∃ s, getSpec (buildTables rows) v op (v :: rest)[pc + 1]? = some s ∧
      (s ∈ rows ∨ (v = 0 ∧ ∃ r ∈ rows, r.version = 1 ∧ s = alias0 r)) ∧ s.version ≤ v ∧
      allows s.modes mode = true ∧
      (stackOk s.args stk = true → sizeOk s (v :: rest) pc = true → FieldsOk groups (v :: rest) pc v mode s) := by
  unfold stepVerdict at h
  simp only [hop] at h
  generalize hov : opVerdict (buildTables rows) lv minv v mode op _ = ov at h
  obtain ⟨e, o⟩ := ov
  by_cases he : e = .pass
  · obtain ⟨h1, h2, s, ho, hs, hm⟩ := opVerdict_pass hov he
    subst he; subst ho
    simp only [] at h
    obtain ⟨a, b, _, _⟩ := table_version_sound rows v op _ s hs
    refine ⟨h1, h2, s, by simpa using hs, a, b, hm, ?_⟩
    intro k1 k2
    simp only [k1, k2, Bool.and_self, if_true] at h
    exact field_version_enforced groups _ pc v mode s h
  · exfalso
    cases e <;> simp at h he <;> first | exact he h | (subst h; exact he rfl) | contradiction

/-- full statement: static check and evaluation agree on instruction boundaries and branch targets. `starts` are the
    instruction starts recorded by `check`, `reached` the pcs visited by `eval`, `targets` the branch targets admitted.
    The second conjunct is proved for the model of check (`check_targets_aligned`, Part B'); the first (about eval) needs the
    interpreter skeleton (Model.AVM, C31) and is only monitored on the real evaluator. -/
def CheckEvalAgreeStatement (starts reached targets : List Nat) (len : Nat) : Prop :=
  (∀ pc ∈ reached, pc ∈ starts ∨ pc = len) ∧ (∀ t ∈ targets, t ∈ starts ∨ t = len)

/-! ### non-vacuity: a small row list with a re-registered opcode, a sub-opcode family and a mode-restricted op -/

def mkRow (id op sub ver modes : Nat) : Spec :=
  { (default : Spec) with id := id, opcode := op, sub := sub, version := ver, modes := modes, size := 1 }

def demoRows : List Spec :=
  [mkRow 0 1 0 1 3, mkRow 1 1 0 2 3, mkRow 2 4 0 1 1, mkRow 3 4 0 5 3, mkRow 4 212 1 13 2, mkRow 5 212 2 14 2]

example : getSpec (buildTables demoRows) 1 1 none = some (mkRow 0 1 0 1 3) := by decide
example : getSpec (buildTables demoRows) 0 1 none = some (alias0 (mkRow 0 1 0 1 3)) := by decide
example : getSpec (buildTables demoRows) 3 1 none = some (mkRow 1 1 0 2 3) := by decide
example : getSpec (buildTables demoRows) 12 212 (some 1) = none := by decide
example : getSpec (buildTables demoRows) 13 212 (some 1) = some (mkRow 4 212 1 13 2) := by decide
example : getSpec (buildTables demoRows) 13 212 (some 2) = none := by decide
example : getSpec (buildTables demoRows) 14 212 (some 2) = some (mkRow 5 212 2 14 2) := by decide
-- hypotheses of table_version_complete are satisfiable
example : NoMixOn demoRows 212 := Or.inr (by decide)
example : NoMixOn demoRows 1 := Or.inl (by decide)
-- the three verdicts of the op stage
example : stepVerdict (buildTables demoRows) [] 14 0 modeApp [3, 4] 1 [] = .wrongmode := by decide
example : stepVerdict (buildTables demoRows) [] 14 0 modeApp [5, 4] 1 [] = .pass := by decide
example : stepVerdict (buildTables demoRows) [] 14 0 modeApp [12, 212, 1] 1 [] = .toonew := by decide
example : stepVerdict (buildTables demoRows) [] 14 2 modeApp [1, 1] 1 [] = .minver := by decide
-- the field gate
def demoGroup : Group := ⟨"G", "g", [⟨0, "A", 0, 3, []⟩, ⟨1, "", 0, 0, []⟩, ⟨2, "C", 7, 2, []⟩]⟩
example : fieldGate demoGroup 6 modeApp 2 = .badfield := by decide
example : fieldGate demoGroup 7 modeApp 2 = .pass := by decide
example : fieldGate demoGroup 7 modeSig 2 = .fieldmode := by decide
example : fieldGate demoGroup 7 modeApp 1 = .badfield := by decide
example : fieldGate demoGroup 7 modeApp 3 = .badfield := by decide
example : FieldOk demoGroup 7 modeApp 2 := (field_gate_pass_iff _ _ _ _).mp (by decide)

/-! ## Part B' — static check: branch targets are instruction starts (model of check / checkStep) -/

section StaticCheck
open Model.OpCheck

theorem admitAll_ok {v pc w len : Nat} {two : Bool} {starts : List Nat} :
    ∀ {ts : List Int} {out : List Nat}, admitAll v pc w len two starts ts = .ok out →
      ∀ t ∈ out, (t ∈ starts ∨ pc + w ≤ t) ∧ t ≤ len := by
  intro ts
  induction ts with
  | nil => intro out h t ht; simp [admitAll] at h; subst h; cases ht
  | cons x rest ih =>
    intro out h t ht
    unfold admitAll at h
    split at h
    · cases h
    · rename_i hrange
      simp only [] at h
      split at h
      · cases h
      · rename_i hback
        cases hr : admitAll v pc w len two starts rest with
        | error e => rw [hr] at h; cases h
        | ok ts' =>
          rw [hr] at h
          simp only [Except.ok.injEq] at h
          subst h
          rcases List.mem_cons.mp ht with rfl | ht'
          · constructor
            · by_cases hlt : x.toNat < pc + w
              · left
                have : ¬ ¬ (starts.contains x.toNat = true) := fun hn => hback ⟨hlt, hn⟩
                have := Decidable.not_not.mp this
                exact List.contains_iff_mem.mp this
              · right; omega
            · omega
          · exact ih hr t ht'

theorem decodeInstr_ok {tbl : Nat → Table} {v mode : Nat} {prog : List Nat} {pc : Nat} {starts : List Nat} {w : Nat}
    {ts : List Nat} (h : decodeInstr tbl v mode prog pc starts = .ok (w, ts)) :
    ∀ t ∈ ts, (t ∈ starts ∨ pc + w ≤ t) ∧ t ≤ prog.length := by
  unfold decodeInstr at h
  split at h
  · cases h
  · split at h
    · cases h
    · split at h
      · cases h
      · split at h
        · cases h
        · split at h
          · cases h
          · rename_i w' ts' two hraw
            split at h
            · cases h
            · rename_i out hadm
              simp only [Except.ok.injEq, Prod.mk.injEq] at h
              obtain ⟨h1, h2⟩ := h
              subst h1; subst h2
              exact admitAll_ok hadm

/-- FULL for the model of `check`. If the static check accepts, every branch target it admitted — forward or backward,
    2-byte, varint, switch/match label — is an instruction start it recorded, or the end of the program. Widths are
    `Size` (or the dynamically decoded width), so the second byte of a prefix+sub-opcode instruction is interior. -/
theorem checkLoop_aligned (dec : Nat → List Nat → Except CheckRes (Nat × List Nat)) (len : Nat)
    (hdec : ∀ pc starts w ts, dec pc starts = .ok (w, ts) → ∀ t ∈ ts, (t ∈ starts ∨ pc + w ≤ t) ∧ t ≤ len) :
    ∀ (fuel pc : Nat) (starts targets S T : List Nat), checkLoop dec len fuel pc starts targets = .ok (S, T) →
      (∀ t ∈ targets, (t < pc → t ∈ starts) ∧ t ≤ len) → ∀ t ∈ T, t ∈ S ∨ t = len := by
  intro fuel
  induction fuel with
  | zero => intro pc starts targets S T h; simp [checkLoop] at h
  | succ n ih =>
    intro pc starts targets S T h hinv
    unfold checkLoop at h
    split at h
    · rename_i hge
      simp only [Except.ok.injEq, Prod.mk.injEq] at h
      obtain ⟨h1, h2⟩ := h
      subst h1; subst h2
      intro t ht
      obtain ⟨a, b⟩ := hinv t ht
      by_cases hl : t < len
      · left; exact a (by omega)
      · right; omega
    · rename_i hlt
      split at h
      · cases h
      · rename_i w ts hd
        split at h
        · cases h
        · rename_i hw
          split at h
          · cases h
          · rename_i hint
            apply ih (pc + w) (pc :: starts) (ts ++ targets) S T h
            intro t ht
            rcases List.mem_append.mp ht with ht | ht
            · obtain ⟨a, b⟩ := hdec pc (pc :: starts) w ts hd t ht
              exact ⟨fun hlt' => by rcases a with a | a; exact a; omega, b⟩
            · obtain ⟨a, b⟩ := hinv t ht
              refine ⟨fun hlt' => ?_, b⟩
              by_cases h1 : t < pc
              · exact List.mem_cons_of_mem _ (a h1)
              · by_cases h2 : t = pc
                · subst h2; exact List.mem_cons_self
                · -- pc < t < pc + w: an interior hit, excluded
                  exfalso
                  apply hint
                  unfold interiorHit
                  rw [List.any_eq_true]
                  refine ⟨t - pc - 1, List.mem_range.mpr (by omega), ?_⟩
                  have : pc + 1 + (t - pc - 1) = t := by omega
                  rw [this]
                  exact List.contains_iff_mem.mpr (List.mem_append_right _ ht)

/-- PARTIAL w.r.t. the property's last sentence: this is the CHECK side (accepted programs have only aligned branch
    targets). That `eval` only ever moves to pc + width or to one of these targets is established by the harness monitor
    ("every pc eval reaches is an instruction start recorded by check"), not by proof. -/
theorem check_targets_aligned (tbl : Nat → Table) (lv minv mode : Nat) (prog S T : List Nat)
    (h : staticCheck tbl lv minv mode prog = .ok (S, T)) : ∀ t ∈ T, t ∈ S ∨ t = prog.length := by
  unfold staticCheck at h
  split at h
  · cases h
  · rename_i v rest
    split at h
    · cases h
    · split at h
      · cases h
      · exact checkLoop_aligned _ _ (fun pc starts w ts hd => decodeInstr_ok hd) _ _ _ _ S T h (by intro t ht; cases ht)

-- non-vacuity on demoRows (opcode 1: size 1; 0xd4 0x01: size 2, application only, version 13)
def demoRows2 : List Spec :=
  demoRows ++ [{ mkRow 6 66 0 2 3 with size := 3, imms := [⟨"target", 2, "", ""⟩] },
               { mkRow 7 212 1 13 2 with size := 2 }]
-- `b +1` onto the sub-opcode byte of `0xd4 0x01` is rejected; `b +0` and `b +2` are accepted
example : errOf (staticCheck (buildTables demoRows2) 14 0 modeApp [13, 66, 0, 1, 212, 1, 1]) = some .misaligned := by decide
example : errOf (staticCheck (buildTables demoRows2) 14 0 modeApp [13, 66, 0, 0, 212, 1, 1]) = none := by decide
example : errOf (staticCheck (buildTables demoRows2) 14 0 modeApp [13, 66, 0, 2, 212, 1, 1]) = none := by decide
example : errOf (staticCheck (buildTables demoRows2) 14 0 modeSig [13, 66, 0, 2, 212, 1, 1]) = some .wrongmode := by decide

end StaticCheck

/-! ## Part C — complete finite checks over the generated table (today's tree; regenerated on every run) -/

section Gen
open Gen.OpTable
set_option maxRecDepth 100000

def builtMatchB : Bool :=
  (List.range (logicVersion + 1)).all (fun v => decide (cellKeys (buildTables opSpecs v) = built[v]?.getD []))

theorem built_match_all : builtMatchB = true := by decide +kernel

/-- FULL (finite, whole table). The tables the real init() built — dumped cell by cell, SubOps included, for every version
    0..LogicVersion — are exactly `buildTables` applied to the dumped OpSpecs rows. -/
theorem built_table_matches : ∀ v, v ≤ logicVersion → cellKeys (buildTables opSpecs v) = built[v]?.getD [] := by
  intro v hv
  have h := built_match_all
  unfold builtMatchB at h
  rw [List.all_eq_true] at h
  exact of_decide_eq_true (h v (List.mem_range.mpr (by omega)))

theorem built_covers_all_versions : built.length = logicVersion + 1 := by decide

/-- row ids are positions in OpSpecs: a (row id, version) key of a dumped cell pins the whole row -/
theorem ids_are_positions : opSpecs.map (·.id) = List.range opSpecs.length := by decide +kernel

def rowsWellFormedB (rows : List Spec) : Bool :=
  rows.all (fun r => decide (r.opcode < 256) && decide (r.sub < 256) && decide (1 ≤ r.version) && decide (r.version ≤ logicVersion))

/-- opcode and sub-opcode are bytes; every row is registered at a version in 1..LogicVersion (none is dead) -/
theorem rows_well_formed : rowsWellFormedB opSpecs = true := by decide +kernel

def noMixB (rows : List Spec) (op : Nat) : Bool :=
  rows.all (fun r => r.opcode != op || r.sub == 0) || rows.all (fun r => r.opcode != op || r.sub != 0)

theorem noMixB_sound (rows : List Spec) (op : Nat) (h : noMixB rows op = true) : NoMixOn rows op := by
  unfold noMixB at h
  rw [Bool.or_eq_true] at h
  rcases h with h | h
  · left
    intro r hr ho
    have := List.all_eq_true.mp h r hr
    simp [ho] at this
    exact this
  · right
    intro r hr ho
    have := List.all_eq_true.mp h r hr
    simp [ho] at this
    exact this

theorem gen_no_mix_b : opSpecs.all (fun r => noMixB opSpecs r.opcode) = true := by decide +kernel

/-- no opcode byte of today's table is both a single-byte opcode and a sub-opcode prefix -/
theorem gen_no_mix : ∀ r ∈ opSpecs, NoMixOn opSpecs r.opcode := by
  intro r hr
  exact noMixB_sound _ _ (List.all_eq_true.mp gen_no_mix_b r hr)

/-- FULL for today's table: no registered row is ever lost or shadowed by an older one. -/
theorem gen_table_complete (r : Spec) (hr : r ∈ opSpecs) (v : Nat) (hv : r.version ≤ v) (next : Option Nat)
    (hnext : r.sub ≠ 0 → next = some r.sub) :
    ∃ s, getSpec (buildTables opSpecs) v r.opcode next = some s ∧ s ∈ opSpecs ∧ r.version ≤ s.version ∧ s.version ≤ v ∧
      s.opcode = r.opcode ∧ s.sub = r.sub := by
  have wf := List.all_eq_true.mp rows_well_formed r hr
  simp only [Bool.and_eq_true, decide_eq_true_eq] at wf
  exact (table_version_complete opSpecs r v next hr wf.1.1.1 wf.1.2 hv (gen_no_mix r hr) hnext).2

/-! ### instruction width is `Size`, not the immediates -/

/-- bytes taken by one immediate of fixed width (byte, int8: 1; 2-byte label: 2); dynamic kinds have none -/
def immWidth (k : Nat) : Option Nat := if k = 0 ∨ k = 1 then some 1 else if k = 2 then some 2 else none

def immsWidth (s : Spec) : Option Nat :=
  s.imms.foldl (fun acc im => match acc, immWidth im.kind with | some a, some w => some (a + w) | _, _ => none) (some 0)

/-- table fact: a row has a fixed Size exactly when all its immediates have fixed width, a dynamic row has a check
    function, and `Size = 1 + Σ immediate widths` holds exactly for single-byte opcodes — for the prefix+sub-opcode rows
    Size is one more (the sub-opcode byte is described by NO immediate). So "no branch target inside an instruction" must be
    (and in Model.OpCheck is) about Size. -/
def sizeFactB (s : Spec) : Bool :=
  match immsWidth s with
  | none => s.size == 0 && s.hasCheck
  | some w => s.size == 1 + w + (if s.sub ≠ 0 then 1 else 0) && s.size ≠ 0

theorem size_vs_immediates : opSpecs.all sizeFactB = true := by decide +kernel

/-- the rows whose Size differs from 1 + Σ immediate widths are exactly the sub-opcode rows (today: 0xd4 0x01..0x09) -/
theorem size_exceptions :
    (opSpecs.filter (fun s => s.size != 0 && immsWidth s != some (s.size - 1))).map (·.id)
      = (opSpecs.filter (fun s => s.sub != 0)).map (·.id) := by decide +kernel

example : ∃ s ∈ opSpecs, s.sub ≠ 0 ∧ s.size = 2 ∧ s.imms = [] := by decide +kernel

/-! ### signature mode is stateless -/

def touchesState (s : Spec) : Bool := !s.touches.isEmpty

/-- every field of every group consulted by `s` that reaches state excludes signature mode -/
def fieldsStateless (groups : List Group) (s : Spec) : Bool :=
  s.imms.all (fun im => im.group == "" ||
    match findGroup groups im.group with
    | none => false
    | some g => g.fields.all (fun fr => fr.touches.isEmpty || !allows fr.modes modeSig))

/-- every state marker reachable from the op is either reached whatever the field is (`ungated`) or attributed to a field
    of a group the op consults -/
def touchesExplained (groups : List Group) (s : Spec) : Bool :=
  s.touches.all (fun m => s.ungated.contains m ||
    s.imms.any (fun im => match findGroup groups im.group with
      | none => false
      | some g => g.fields.any (fun fr => fr.touches.contains m)))

def sigStatelessB (groups : List Group) (s : Spec) : Bool :=
  !touchesState s || !allows s.modes modeSig ||
    (s.ungated.isEmpty && fieldsStateless groups s && touchesExplained groups s)

theorem sig_stateless_all : opSpecs.all (sigStatelessB fieldGroups) = true := by decide +kernel

/-- FULL (finite, whole table; classification by AST scan). No row whose implementation reaches ledger / box / inner
    transaction / eval-delta state allows signature mode — except through field immediates, and then every field that
    reaches state excludes signature mode (today: only `global`, fields Round, LatestTimestamp, CreatorAddress). -/
theorem sig_mode_stateless (s : Spec) (hs : s ∈ opSpecs) (ht : touchesState s = true)
    (hm : allows s.modes modeSig = true) :
    s.ungated = [] ∧ fieldsStateless fieldGroups s = true ∧ touchesExplained fieldGroups s = true := by
  have h := List.all_eq_true.mp sig_stateless_all s hs
  unfold sigStatelessB at h
  simp only [ht, hm, Bool.not_true, Bool.false_or, Bool.and_eq_true] at h
  exact ⟨List.isEmpty_iff.mp h.1.1, h.1.2, h.2⟩

/-- the same for everything the built tables can return at any version (table 0 aliases keep modes and classification) -/
theorem sig_mode_stateless_exec (v op : Nat) (next : Option Nat) (s : Spec)
    (h : getSpec (buildTables opSpecs) v op next = some s) (ht : touchesState s = true)
    (hm : allows s.modes modeSig = true) :
    s.ungated = [] ∧ fieldsStateless fieldGroups s = true ∧ touchesExplained fieldGroups s = true := by
  obtain ⟨hrow, _⟩ := table_version_sound opSpecs v op next s h
  rcases hrow with hrow | ⟨_, r, hr, _, he⟩
  · exact sig_mode_stateless s hrow ht hm
  · subst he
    exact sig_mode_stateless r hr ht hm

/-- state-touching ops with no field immediate at all are application-only -/
theorem sig_mode_stateless_plain (s : Spec) (hs : s ∈ opSpecs) (ht : touchesState s = true)
    (hplain : s.ungated ≠ []) : allows s.modes modeSig = false := by
  cases hm : allows s.modes modeSig with
  | false => rfl
  | true => exact absurd (sig_mode_stateless s hs ht hm).1 hplain

/-! ### field groups of today's table -/

def groupsClosedB (groups : List Group) (rows : List Spec) : Bool :=
  rows.all (fun s =>
    -- every consulted group exists
    s.imms.all (fun im => im.group == "" || (findGroup groups im.group).isSome) &&
    -- a field immediate is a single byte and only single-byte immediates precede it (so its offset is immBase + index)
    (s.imms.all (fun im => im.kind == 0) || s.imms.all (fun im => im.group == "")))

/-- closure of the field-group model over today's table: every group named by an immediate is dumped, field immediates
    sit at `immBase + index`, and slot i of a group describes field i -/
theorem gen_groups_closed : groupsClosedB fieldGroups opSpecs = true := by decide +kernel

theorem gen_field_index : fieldGroups.all (fun g => decide (g.fields.map (·.idx) = List.range g.fields.length)) = true := by
  decide +kernel

/-- fields never precede their op: for every row and every visible field of a group it consults, nothing is claimed
    about `field.version ≤ op.version`; what IS checked is the converse danger — a field gate that could never fire
    because the group is missing — by `gen_groups_closed`. This lemma records that hidden slots carry no version. -/
theorem gen_hidden_slots : fieldGroups.all (fun g => g.fields.all (fun fr => fr.name != "" || (fr.version == 0 && fr.modes == 0))) = true := by
  decide +kernel

/-! ## Part D — what `pass` means for today's table -/

/-- FULL (model + today's table). If the model's `step` lets the instruction at `pc` of a version-`v` program through in
    run mode `mode`, then: `v` is a supported version; the instruction resolves to an OpSpecs row (or its table-0 alias)
    introduced no later than `v`; the mode is allowed by the row; in signature mode the row reaches no ledger state except
    through mode-gated fields; and every field immediate names a visible field of the op's group, introduced no later
    than `v` and allowed in `mode`. -/
theorem no_newer_feature (minv mode v : Nat) (rest : List Nat) (pc : Nat) (stk : List Nat) (op : Nat)
    (hop : (v :: rest)[pc]? = some op)
    (h : stepVerdict (buildTables opSpecs) fieldGroups logicVersion minv mode (v :: rest) pc stk = .pass) :
    v ≤ logicVersion ∧ ∃ s, getSpec (buildTables opSpecs) v op (v :: rest)[pc + 1]? = some s ∧
      (s ∈ opSpecs ∨ (v = 0 ∧ ∃ r ∈ opSpecs, r.version = 1 ∧ s = alias0 r)) ∧ s.version ≤ v ∧
      allows s.modes mode = true ∧
      (mode = modeSig → touchesState s = true →
        s.ungated = [] ∧ fieldsStateless fieldGroups s = true ∧ touchesExplained fieldGroups s = true) ∧
      (stackOk s.args stk = true → sizeOk s (v :: rest) pc = true → FieldsOk fieldGroups (v :: rest) pc v mode s) := by
  obtain ⟨h1, _, s, hs, a, b, c, d⟩ := step_pass_sound opSpecs fieldGroups logicVersion minv mode v rest pc stk op hop h
  refine ⟨h1, s, hs, a, b, c, ?_, d⟩
  intro hmode ht
  subst hmode
  exact sig_mode_stateless_exec v op _ s hs ht c

-- non-vacuity over today's table: box_create (0xb9) is rejected in signature mode and before version 8, accepted at 8 in
-- application mode; `global Round` (field 6, version 2, application only)
example : (opVerdict (buildTables opSpecs) logicVersion 0 8 modeSig 0xb9 none).1 = .wrongmode := by decide +kernel
example : (opVerdict (buildTables opSpecs) logicVersion 0 7 modeApp 0xb9 none).1 = .toonew := by decide +kernel
example : (opVerdict (buildTables opSpecs) logicVersion 0 8 modeApp 0xb9 none).1 = .pass := by decide +kernel
example : stepVerdict (buildTables opSpecs) fieldGroups logicVersion 0 modeSig [2, 0x32, 6] 1 [] = .fieldmode := by decide +kernel
example : stepVerdict (buildTables opSpecs) fieldGroups logicVersion 0 modeSig [1, 0x32, 6] 1 [] = .badfield := by decide +kernel
example : stepVerdict (buildTables opSpecs) fieldGroups logicVersion 2 modeApp [2, 0x32, 6] 1 [] = .pass := by decide +kernel
example : ∃ s ∈ opSpecs, touchesState s = true ∧ allows s.modes modeSig = true := by decide +kernel

end Gen

end Props.C34
