/-
C29 — Group and block commitments bind their contents.

All theorems are about `Model.Commitments` (the group part of `BlockEvaluator.TransactionGroup`, `TxGroup` hashing,
`PaysetCommit` / `ContentsMatchHeader`, the Branch checks of `PreCheck`, as coded) with the hash functions and the canonical
encoders as PARAMETERS.  Cryptographic assumptions are hypotheses: `CollisionFreeOn H S` (no collision between two inputs
that occur in the statement — `S` is spelled out per theorem) and injectivity of the msgpack encoders; for the Merkle variant
the hypotheses of the C37 soundness theorem (`UniquePre` on the digests of the two honest trees, digest size, no zero digest).

  group_binds                 FULL  exact characterisation of the evaluator's group check (no hash hypothesis)
  group_valid_carries_id      FULL  valid group of ≥ 2 members ⇒ every member carries H(list of ids), which is non-zero
  group_ids_differ_rejected   FULL  a member list with a different id LIST is invalid as long as one member still carries the old id
  group_alter_rejected        FULL  … a different member list (after zeroing Group fields) ⇒ invalid unless NO member keeps the old id
  group_drop_rejected / group_add_rejected / group_reorder_rejected / group_member_alter_rejected   FULL corollaries
  msgpackGroup_inj            FULL  the concrete msgpack TxGroup encoder is injective on lists of 32-byte ids (C40 `enc_inj`)
  payset_binds                FULL  ContentsMatchHeader b ⇔ PaysetCommit b = header commitments
  unsupported_never_matches, disabled_commitment_zero   FULL
  flat_commit_injective       FULL  (collision-freeness on the two "PF" pre-images, injective payset encoder)
  merkle_commit_injective     FULL relative to C37 (`verify_sound` hypotheses on both honest trees)
  payset_binds_contents       FULL  same consensus parameters + same header commitments + both match ⇒ same payset
  branch_binds, branch_unique_prev   FULL
  sha256_commit_injective, sha512_commit_injective   FULL relative to C37: each vector commitment ALONE determines the payset
                              (bit-reversal padding `vcLeaves` proved injective; C37 hypotheses on the padded honest trees).
-/
import AlgoVerif.Lemmas.CommitmentsMerkle
import AlgoVerif.Lemmas.CommitmentsCodec
import AlgoVerif.Lemmas.CommitmentsEx
namespace Props.C29
open Model.Commitments Lemmas.Commitments
open Model.MerkleArray (Cfg zeros build buildVC Tree nodeTag)

variable {β σ ρ : Type}

/-! ## groups -/

/-- **The evaluator's group check, exactly.**  A non-empty member list is accepted iff it respects the size bound and is
either one transaction without group id, or every member carries the hash of the list of all members' ids (computed with the
Group field zeroed), that hash being non-zero. -/
theorem group_binds (e : GEnv β) (maxSize : Nat) (t0 : Tx β) (rest : List (Tx β)) :
    groupValid e maxSize (t0 :: rest) ↔
      (t0 :: rest).length ≤ maxSize ∧
      ((t0.group = zeroDigest ∧ rest = []) ∨
       (t0.group ≠ zeroDigest ∧ ∀ t ∈ t0 :: rest, t.group = groupId e (t0 :: rest))) := by
  unfold groupValid transactionGroup
  by_cases hsz : maxSize < (t0 :: rest).length
  · simp only [hsz, if_true, reduceCtorEq, false_iff, not_and]
    intro h; omega
  · simp only [hsz, if_false]
    have hle : (t0 :: rest).length ≤ maxSize := by omega
    simp only [hle, true_and]
    by_cases hz : t0.group = zeroDigest
    · simp only [hz, ne_eq, not_true_eq_false, false_and, or_false, true_and]
      cases hl : groupLoop e (fun _ _ => true) zeroDigest (t0 :: rest).length 0 (t0 :: rest) [] with
      | error x =>
        simp only [reduceCtorEq, false_iff]
        intro hr
        subst hr
        have := (groupLoop_z e [t0].length [t0] 0 [] []).mpr ⟨by simp [hz], Or.inr (by simp), rfl⟩
        rw [this] at hl; cases hl
      | ok ids =>
        obtain ⟨_, h2, h3⟩ := (groupLoop_z e _ _ 0 [] ids).mp hl
        subst h3
        simp only [not_true_eq_false, if_false, true_iff]
        rcases h2 with h2 | h2
        · cases h2
        · simp only [List.length_cons] at h2
          exact List.eq_nil_of_length_eq_zero (by omega)
    · simp only [hz, false_and, false_or, ne_eq, not_false_eq_true, true_and]
      cases hl : groupLoop e (fun _ _ => true) t0.group (t0 :: rest).length 0 (t0 :: rest) [] with
      | error x =>
        simp only [reduceCtorEq, false_iff]
        intro hall
        have hg0 : t0.group = groupId e (t0 :: rest) := hall t0 (by simp)
        have := (groupLoop_nz e t0.group (t0 :: rest).length hz (t0 :: rest) 0 [] ((t0 :: rest).map (txid0 e))).mpr
          ⟨fun t ht => (hall t ht).trans hg0.symm, by simp⟩
        rw [this] at hl; cases hl
      | ok ids =>
        obtain ⟨h1, h2⟩ := (groupLoop_nz e t0.group _ hz _ 0 [] ids).mp hl
        simp only [List.nil_append] at h2
        subst h2
        have hne : (t0 :: rest).map (txid0 e) ≠ [] := by simp
        simp only [hne, not_false_eq_true, if_true]
        by_cases hg : t0.group = groupHash e ((t0 :: rest).map (txid0 e))
        · simp only [hg, not_true_eq_false, if_false, true_iff]
          intro t ht
          rw [h1 t ht, hg]; rfl
        · simp only [hg, not_false_eq_true, if_true, reduceCtorEq, false_iff]
          intro hall
          exact hg (hall t0 (by simp))

/-- "A group is valid only when every member carries the group ID equal to the hash of all members' IDs in order." -/
theorem group_valid_carries_id (e : GEnv β) (maxSize : Nat) (g : List (Tx β)) (h2 : 2 ≤ g.length)
    (hv : groupValid e maxSize g) : groupId e g ≠ zeroDigest ∧ ∀ t ∈ g, t.group = groupId e g := by
  cases g with
  | nil => simp at h2
  | cons t0 rest =>
    rcases ((group_binds e maxSize t0 rest).mp hv).2 with ⟨_, hr⟩ | ⟨hz, hall⟩
    · subst hr; simp at h2
    · exact ⟨by rw [← hall t0 (by simp)]; exact hz, hall⟩

/-- the hash inputs that occur when two member lists are compared: the two "TG" pre-images and the "TX" pre-images of all
members with the Group field zeroed -/
def GroupInputs (e : GEnv β) (g g' : List (Tx β)) (x : Bytes) : Prop :=
  x = tagTG ++ e.encGroup (g.map (txid0 e)) ∨ x = tagTG ++ e.encGroup (g'.map (txid0 e)) ∨
    ∃ t, (t ∈ g ∨ t ∈ g') ∧ x = tagTX ++ e.encTx t.zeroGroup

/-- A member list whose id LIST differs is rejected as long as one member still carries the group id of the valid group. -/
theorem group_ids_differ_rejected (e : GEnv β) (maxSize : Nat) (g g' : List (Tx β)) (G : Bytes)
    (hcf : CollisionFreeOn e.H (GroupInputs e g g'))
    (hinjG : ∀ a b, e.encGroup a = e.encGroup b → a = b)
    (hG : G ≠ zeroDigest) (hgG : G = groupId e g)
    (hkeep : ∃ t' ∈ g', t'.group = G)
    (hids : g'.map (txid0 e) ≠ g.map (txid0 e)) : ¬ groupValid e maxSize g' := by
  intro hv
  obtain ⟨t', ht', hk⟩ := hkeep
  cases g' with
  | nil => simp at ht'
  | cons t0 rest =>
    rcases ((group_binds e maxSize t0 rest).mp hv).2 with ⟨hz, hr⟩ | ⟨_, hall⟩
    · subst hr
      simp only [List.mem_singleton] at ht'
      subst ht'
      exact hG (hk.symm.trans hz)
    · have h1 : groupId e (t0 :: rest) = groupId e g := by rw [← hall t' ht', hk, hgG]
      have h2 := hcf _ _ (Or.inr (Or.inl rfl)) (Or.inl rfl) h1
      exact hids (hinjG _ _ (List.append_cancel_left h2))

/-- different member lists (all carrying the same Group value) have different id lists -/
theorem ids_ne_of_ne (e : GEnv β) (g g' : List (Tx β)) (G : Bytes)
    (hcf : CollisionFreeOn e.H (GroupInputs e g g'))
    (hinjT : ∀ a b, e.encTx a = e.encTx b → a = b)
    (hg : ∀ t ∈ g, t.group = G) (hg' : ∀ t ∈ g', t.group = G) (hne : g' ≠ g) :
    g'.map (txid0 e) ≠ g.map (txid0 e) := by
  intro h
  apply hne
  apply map_eq_inj (txid0 e) g' g h
  intro a ha b hb hab
  have h1 := hcf _ _ (Or.inr (Or.inr ⟨a, Or.inr ha, rfl⟩)) (Or.inr (Or.inr ⟨b, Or.inl hb, rfl⟩)) hab
  have h2 := hinjT _ _ (List.append_cancel_left h1)
  exact eq_of_zeroGroup_eq a b ((hg' a ha).trans (hg b hb).symm) h2

/-- **Altering a group invalidates it.**  `g` is a valid group of ≥ 2 members; `g'` is any member list that differs from `g`
in something other than Group fields.  Then `g'` is invalid unless NO member of `g'` keeps the group id of `g` — i.e. unless
every member's Group field has been replaced (which changes what each signer signed). -/
theorem group_alter_rejected (e : GEnv β) (maxSize : Nat) (g g' : List (Tx β))
    (hcf : CollisionFreeOn e.H (GroupInputs e g g'))
    (hinjG : ∀ a b, e.encGroup a = e.encGroup b → a = b)
    (hinjT : ∀ a b, e.encTx a = e.encTx b → a = b)
    (h2 : 2 ≤ g.length) (hv : groupValid e maxSize g)
    (hne : g'.map Tx.zeroGroup ≠ g.map Tx.zeroGroup)
    (hkeep : ∃ t' ∈ g', t'.group = groupId e g) : ¬ groupValid e maxSize g' := by
  obtain ⟨hG, _⟩ := group_valid_carries_id e maxSize g h2 hv
  refine group_ids_differ_rejected e maxSize g g' (groupId e g) hcf hinjG hG rfl hkeep ?_
  intro h
  apply hne
  -- equal ids ⇒ equal zeroed members, position by position
  have hz : (g'.map Tx.zeroGroup).map (fun t => e.H (tagTX ++ e.encTx t)) =
      (g.map Tx.zeroGroup).map (fun t => e.H (tagTX ++ e.encTx t)) := by
    simp only [List.map_map, Function.comp_def]
    exact h
  apply map_eq_inj (fun t => e.H (tagTX ++ e.encTx t)) _ _ hz
  intro a ha b hb hab
  simp only [List.mem_map] at ha hb
  obtain ⟨a0, ha0, rfl⟩ := ha
  obtain ⟨b0, hb0, rfl⟩ := hb
  have h1 := hcf _ _ (Or.inr (Or.inr ⟨a0, Or.inr ha0, rfl⟩)) (Or.inr (Or.inr ⟨b0, Or.inl hb0, rfl⟩)) hab
  exact hinjT _ _ (List.append_cancel_left h1)

/-- dropping a member -/
theorem group_drop_rejected (e : GEnv β) (maxSize : Nat) (g : List (Tx β)) (i : Nat)
    (hcf : CollisionFreeOn e.H (GroupInputs e g (g.eraseIdx i)))
    (hinjG : ∀ a b, e.encGroup a = e.encGroup b → a = b)
    (h2 : 2 ≤ g.length) (hi : i < g.length) (hv : groupValid e maxSize g) :
    ¬ groupValid e maxSize (g.eraseIdx i) := by
  obtain ⟨hG, hall⟩ := group_valid_carries_id e maxSize g h2 hv
  have hlen : (g.eraseIdx i).length = g.length - 1 := List.length_eraseIdx_of_lt hi
  have hne : g.eraseIdx i ≠ [] := by
    intro h; rw [h] at hlen; simp at hlen; omega
  obtain ⟨t', ht'⟩ := List.exists_mem_of_ne_nil _ hne
  refine group_ids_differ_rejected e maxSize g _ (groupId e g) hcf hinjG hG rfl
    ⟨t', ht', hall t' (List.mem_of_mem_eraseIdx ht')⟩ ?_
  intro h
  have := congrArg List.length h
  simp only [List.length_map, hlen] at this
  omega

/-- adding a member (a foreign transaction, or a copy of a member) anywhere -/
theorem group_add_rejected (e : GEnv β) (maxSize : Nat) (g : List (Tx β)) (i : Nat) (x : Tx β)
    (hcf : CollisionFreeOn e.H (GroupInputs e g (g.insertIdx i x)))
    (hinjG : ∀ a b, e.encGroup a = e.encGroup b → a = b)
    (h2 : 2 ≤ g.length) (hi : i ≤ g.length) (hv : groupValid e maxSize g) :
    ¬ groupValid e maxSize (g.insertIdx i x) := by
  obtain ⟨hG, hall⟩ := group_valid_carries_id e maxSize g h2 hv
  have hlen : (g.insertIdx i x).length = g.length + 1 := List.length_insertIdx_of_le_length hi x
  obtain ⟨t, ht⟩ := List.exists_mem_of_ne_nil g (by intro h; rw [h] at h2; simp at h2)
  refine group_ids_differ_rejected e maxSize g _ (groupId e g) hcf hinjG hG rfl
    ⟨t, by rw [List.mem_insertIdx hi]; exact Or.inr ht, hall t ht⟩ ?_
  intro h
  have := congrArg List.length h
  simp only [List.length_map, hlen] at this
  omega

/-- reordering the members -/
theorem group_reorder_rejected (e : GEnv β) (maxSize : Nat) (g g' : List (Tx β))
    (hcf : CollisionFreeOn e.H (GroupInputs e g g'))
    (hinjG : ∀ a b, e.encGroup a = e.encGroup b → a = b)
    (hinjT : ∀ a b, e.encTx a = e.encTx b → a = b)
    (h2 : 2 ≤ g.length) (hv : groupValid e maxSize g)
    (hperm : g'.Perm g) (hne : g' ≠ g) : ¬ groupValid e maxSize g' := by
  obtain ⟨hG, hall⟩ := group_valid_carries_id e maxSize g h2 hv
  have hall' : ∀ t ∈ g', t.group = groupId e g := fun t ht => hall t (hperm.mem_iff.mp ht)
  obtain ⟨t', ht'⟩ := List.exists_mem_of_ne_nil g' (by
    intro h; rw [h] at hperm; have := hperm.length_eq; simp at this; omega)
  exact group_ids_differ_rejected e maxSize g g' (groupId e g) hcf hinjG hG rfl ⟨t', ht', hall' t' ht'⟩
    (ids_ne_of_ne e g g' (groupId e g) hcf hinjT hall hall' hne)

/-- replacing member `i` by a different transaction that claims the same group id -/
theorem group_member_alter_rejected (e : GEnv β) (maxSize : Nat) (g : List (Tx β)) (i : Nat) (x : Tx β)
    (hcf : CollisionFreeOn e.H (GroupInputs e g (g.set i x)))
    (hinjG : ∀ a b, e.encGroup a = e.encGroup b → a = b)
    (hinjT : ∀ a b, e.encTx a = e.encTx b → a = b)
    (h2 : 2 ≤ g.length) (hv : groupValid e maxSize g)
    (hi : i < g.length) (hx : x.group = groupId e g) (hne : g[i]? ≠ some x) :
    ¬ groupValid e maxSize (g.set i x) := by
  obtain ⟨hG, hall⟩ := group_valid_carries_id e maxSize g h2 hv
  have hall' : ∀ t ∈ g.set i x, t.group = groupId e g := by
    intro t ht
    rcases List.mem_or_eq_of_mem_set ht with h | h
    · exact hall t h
    · rw [h]; exact hx
  have hmem : x ∈ g.set i x := List.mem_set hi x
  refine group_ids_differ_rejected e maxSize g _ (groupId e g) hcf hinjG hG rfl ⟨x, hmem, hx⟩
    (ids_ne_of_ne e g _ (groupId e g) hcf hinjT hall hall' ?_)
  intro h
  apply hne
  have : (g.set i x)[i]? = some x := by simp [hi]
  rw [h] at this
  exact this

/-- **The concrete msgpack `TxGroup` encoder is injective** on lists of 32-byte ids (the evaluator's lists: `crypto.Digest`
values, at most `MaxTxGroupSize` of them): discharges `hinjG` of the theorems above for the encoder the driver runs.
Relies on the C40 theorem `enc_inj` (canonical msgpack values have unique encodings). -/
theorem msgpackGroup_inj (a b : List Bytes) (ha : ∀ id ∈ a, id.length = 32) (hb : ∀ id ∈ b, id.length = 32)
    (hna : a.length < 4294967296) (hnb : b.length < 4294967296) (h : msgpackGroup a = msgpackGroup b) : a = b := by
  have hv := Props.C40.enc_inj _ _ (txGroupV_canon a ha hna) (txGroupV_canon b hb hnb) h
  unfold txGroupV at hv
  by_cases hea : a = [] <;> by_cases heb : b = []
  · rw [hea, heb]
  · simp [hea, heb] at hv
  · simp [hea, heb] at hv
  · simp only [hea, heb, if_false, AlgoVerif.Msgpack.V.map.injEq, List.cons.injEq, Prod.mk.injEq, true_and, and_true,
      AlgoVerif.Msgpack.V.arr.injEq] at hv
    exact map_eq_inj AlgoVerif.Msgpack.V.bin a b hv (fun x _ y _ hxy => by injection hxy)

/-! ## payset commitments -/

/-- **ContentsMatchHeader** holds iff `PaysetCommit` succeeds and equals the header's `TxnCommitments` (all three fields). -/
theorem payset_binds (e : BEnv β σ) (b : Block σ) :
    contentsMatchHeader e b = true ↔ paysetCommit e b = .ok b.commitments := by
  unfold contentsMatchHeader
  cases h : paysetCommit e b with
  | error x => simp
  | ok c => simp

/-- unknown consensus version or a version without a payset commitment type: no block matches its header -/
theorem unsupported_never_matches (e : BEnv β σ) (b : Block σ)
    (h : b.params = none ∨ ∃ p, b.params = some p ∧ p.paysetCommit = .unsupported) :
    contentsMatchHeader e b = false := by
  unfold contentsMatchHeader paysetCommit
  rcases h with h | ⟨p, h, hp⟩
  · simp [h]
  · simp [h, hp, paysetCommitNative]

/-- what a matching block's header carries, field by field: the native commitment always, the SHA-256 / SHA-512 vector
commitments exactly when the version enables them, and the zero digest in a disabled field -/
theorem match_fields (e : BEnv β σ) (b : Block σ) (p : Params) (hp : b.params = some p)
    (h : contentsMatchHeader e b = true) :
    paysetCommitNative e p.paysetCommit b.payset = .ok b.commitments.native ∧
    (if p.sha256 then paysetCommitSHA256 e b.payset = .ok b.commitments.sha256 else b.commitments.sha256 = zeroDigest) ∧
    (if p.sha512 then paysetCommitSHA512 e b.payset = .ok b.commitments.sha512 else b.commitments.sha512 = zeroDigest512) := by
  rw [payset_binds] at h
  unfold paysetCommit at h
  simp only [hp] at h
  cases hn : paysetCommitNative e p.paysetCommit b.payset with
  | error x => simp [hn] at h
  | ok dN =>
    simp only [hn] at h
    cases h256 : (if p.sha256 = true then paysetCommitSHA256 e b.payset else Except.ok zeroDigest) with
    | error x => simp [h256] at h
    | ok d256 =>
      simp only [h256] at h
      cases h512 : (if p.sha512 = true then paysetCommitSHA512 e b.payset else Except.ok zeroDigest512) with
      | error x => simp [h512] at h
      | ok d512 =>
        simp only [h512, Except.ok.injEq] at h
        rw [← h]
        refine ⟨rfl, ?_, ?_⟩
        · by_cases hs : p.sha256 = true
          · simpa [hs] using h256
          · simp only [hs] at h256 ⊢
            simp only [Bool.false_eq_true, if_false, Except.ok.injEq] at h256 ⊢
            exact h256.symm
        · by_cases hs : p.sha512 = true
          · simpa [hs] using h512
          · simp only [hs] at h512 ⊢
            simp only [Bool.false_eq_true, if_false, Except.ok.injEq] at h512 ⊢
            exact h512.symm

/-- a commitment field of a variant the version does not enable must be zero ("one variant unchecked" is not possible) -/
theorem disabled_commitment_zero (e : BEnv β σ) (b : Block σ) (p : Params) (hp : b.params = some p)
    (h : contentsMatchHeader e b = true) :
    (p.sha256 = false → b.commitments.sha256 = zeroDigest) ∧ (p.sha512 = false → b.commitments.sha512 = zeroDigest512) := by
  obtain ⟨_, h1, h2⟩ := match_fields e b p hp h
  exact ⟨fun hs => by simpa [hs] using h1, fun hs => by simpa [hs] using h2⟩

/-- **Flat commitment is injective** on paysets (relative to collision-freeness on the two inputs and an injective encoder). -/
theorem flat_commit_injective (e : BEnv β σ) (ps ps' : List σ)
    (hcf : CollisionFreeOn e.H (fun x => x = tagPF ++ e.encPayset ps ∨ x = tagPF ++ e.encPayset ps'))
    (hinj : ∀ a b, e.encPayset a = e.encPayset b → a = b)
    (h : commitFlat e ps = commitFlat e ps') : ps = ps' :=
  hinj _ _ (List.append_cancel_left (hcf _ _ (Or.inl rfl) (Or.inr rfl) h))

theorem decodeAll_map_fst (e : BEnv β σ) : ∀ (ps : List σ) (ts : List (σ × Tx β)),
    decodeAll e ps = some ts → ts.map Prod.fst = ps
  | [], ts, h => by simp only [decodeAll, Option.some.injEq] at h; subst h; rfl
  | s :: rest, ts, h => by
    simp only [decodeAll] at h
    cases hd : e.decodeTx s with
    | none => simp [hd] at h
    | some t =>
      simp only [hd] at h
      cases hr : decodeAll e rest with
      | none => simp [hr] at h
      | some r =>
        simp only [hr, Option.some.injEq] at h
        subst h
        simp [decodeAll_map_fst e rest r hr]

theorem tagTL_not_node (x : Bytes) : ¬ nodeTag <+: (tagTL ++ x) := by
  intro h
  obtain ⟨t, ht⟩ := h
  simp only [nodeTag, tagTL, List.cons_append, List.nil_append, List.cons.injEq] at ht
  exact absurd ht.2.1 (by decide)

/-- the leaf list determines the payset: the second half of every leaf is the hash of the "STIB" pre-image (`Hh` = the hash
used INSIDE the leaf: SHA-512/256 for the native tree, SHA-256 for both vector commitments) -/
theorem stibs_of_leaves (e : BEnv β σ) (Hh : Bytes → Bytes) (ps ps' : List σ) (ts ts' : List (σ × Tx β))
    (hlen : ∀ x, (Hh x).length = 32)
    (hcf : CollisionFreeOn Hh (fun x => ∃ s, (s ∈ ps ∨ s ∈ ps') ∧ x = tagSTIB ++ e.encStib s))
    (hinj : ∀ a b, e.encStib a = e.encStib b → a = b)
    (hd : decodeAll e ps = some ts) (hd' : decodeAll e ps' = some ts')
    (hleaves : ts.map (fun st => tagTL ++ (Hh (tagTX ++ e.encTx st.2) ++ Hh (tagSTIB ++ e.encStib st.1))) =
      ts'.map (fun st => tagTL ++ (Hh (tagTX ++ e.encTx st.2) ++ Hh (tagSTIB ++ e.encStib st.1)))) : ps = ps' := by
  have hfst : ts.map Prod.fst = ts'.map Prod.fst := by
    have hz : (ts.map Prod.fst).map (fun s => Hh (tagSTIB ++ e.encStib s)) =
        (ts'.map Prod.fst).map (fun s => Hh (tagSTIB ++ e.encStib s)) := by
      have := congrArg (List.map (fun l : Bytes => l.drop (2 + 32))) hleaves
      simpa [List.map_map, Function.comp_def, tagTL, hlen] using this
    apply map_eq_inj _ _ _ hz
    intro a ha b hb hab
    have ha' : a ∈ ps := by rw [← decodeAll_map_fst e ps ts hd]; exact ha
    have hb' : b ∈ ps' := by rw [← decodeAll_map_fst e ps' ts' hd']; exact hb
    exact hinj _ _ (List.append_cancel_left (hcf _ _ ⟨a, Or.inl ha', rfl⟩ ⟨b, Or.inr hb', rfl⟩ hab))
  rw [← decodeAll_map_fst e ps ts hd, ← decodeAll_map_fst e ps' ts' hd', hfst]

/-- the hypotheses of C37 soundness for the honest SHA-512/256 tree over a payset's leaves -/
structure MerkleHyp (e : BEnv β σ) (ts : List (σ × Tx β)) : Prop where
  size : ts.length ≤ 2 ^ 63
  uniquePre : ∀ t, build (cfgNative e) (ts.map (leafNative e)) = .ok t →
    ∀ L ∈ t.levels, Lemmas.MerkleArray.UniquePre (cfgNative e) L

/-- **Merkle commitment is injective** on paysets: relative to the C37 soundness hypotheses for the two honest trees, the digest
size (32) and non-zero digests, collision-freeness on the "STIB" pre-images of the two paysets and an injective stib encoder. -/
theorem merkle_commit_injective (e : BEnv β σ) (ps ps' : List σ)
    (hlen : ∀ x, (e.H x).length = 32) (hnz : ∀ x, e.H x ≠ zeros 32)
    (hcf : CollisionFreeOn e.H (fun x => ∃ s, (s ∈ ps ∨ s ∈ ps') ∧ x = tagSTIB ++ e.encStib s))
    (hinj : ∀ a b, e.encStib a = e.encStib b → a = b)
    (hm : ∀ ts, decodeAll e ps = some ts → MerkleHyp e ts)
    (hm' : ∀ ts, decodeAll e ps' = some ts → MerkleHyp e ts)
    (r : Bytes) (h : merkleNative e ps = .ok r) (h' : merkleNative e ps' = .ok r) : ps = ps' := by
  unfold merkleNative at h h'
  cases hd : decodeAll e ps with
  | none => simp [hd] at h
  | some ts =>
    cases hd' : decodeAll e ps' with
    | none => simp [hd'] at h'
    | some ts' =>
      simp only [hd] at h
      simp only [hd'] at h'
      have hleaves : ts.map (leafNative e) = ts'.map (leafNative e) :=
        rootOf_build_inj (cfgNative e) rfl rfl hlen hnz _ _
          (by simpa using (hm ts hd).size) (by simpa using (hm' ts' hd').size)
          (hm ts hd).uniquePre (hm' ts' hd').uniquePre
          (by intro x hx; simp only [List.mem_map] at hx; obtain ⟨a, _, rfl⟩ := hx; exact tagTL_not_node _)
          (by intro x hx; simp only [List.mem_map] at hx; obtain ⟨a, _, rfl⟩ := hx; exact tagTL_not_node _)
          r h h'
      exact stibs_of_leaves e e.H ps ps' ts ts' hlen hcf hinj hd hd' hleaves

/-- **Two blocks of the same consensus version whose contents both match the same header commitments have the same payset.** -/
theorem payset_binds_contents (e : BEnv β σ) (b b' : Block σ) (p : Params)
    (hp : b.params = some p) (hp' : b'.params = some p) (hc : b.commitments = b'.commitments)
    (hlen : ∀ x, (e.H x).length = 32) (hnz : ∀ x, e.H x ≠ zeros 32)
    (hcfF : CollisionFreeOn e.H (fun x => x = tagPF ++ e.encPayset b.payset ∨ x = tagPF ++ e.encPayset b'.payset))
    (hinjP : ∀ a b, e.encPayset a = e.encPayset b → a = b)
    (hcfS : CollisionFreeOn e.H (fun x => ∃ s, (s ∈ b.payset ∨ s ∈ b'.payset) ∧ x = tagSTIB ++ e.encStib s))
    (hinjS : ∀ a b, e.encStib a = e.encStib b → a = b)
    (hm : ∀ ts, decodeAll e b.payset = some ts → MerkleHyp e ts)
    (hm' : ∀ ts, decodeAll e b'.payset = some ts → MerkleHyp e ts)
    (h : contentsMatchHeader e b = true) (h' : contentsMatchHeader e b' = true) : b.payset = b'.payset := by
  have h1 := (match_fields e b p hp h).1
  have h2 := (match_fields e b' p hp' h').1
  rw [← hc] at h2
  cases hpc : p.paysetCommit with
  | unsupported => simp [hpc, paysetCommitNative] at h1
  | flat =>
    simp only [hpc, paysetCommitNative, Except.ok.injEq] at h1 h2
    exact flat_commit_injective e _ _ hcfF hinjP (h1.trans h2.symm)
  | merkle =>
    simp only [hpc, paysetCommitNative] at h1 h2
    exact merkle_commit_injective e _ _ hlen hnz hcfS hinjS hm hm' _ h1 h2

theorem tagTL_not_bottom (x : Bytes) : tagTL ++ x ≠ Model.MerkleArray.bottomPre := by
  intro h
  simp only [tagTL, Model.MerkleArray.bottomPre, List.cons_append, List.nil_append, List.cons.injEq] at h
  exact absurd h.1 (by decide)

/-- the hypotheses of C37 soundness for the honest vector-commitment tree (`c` = `cfg256 e` or `cfg512 e`) over a payset's
SHA-256 leaves, padded by `vcLeaves` -/
structure VCHyp (c : Cfg) (leaves : List Bytes) : Prop where
  size : (Model.MerkleArray.vcLeaves leaves).length ≤ 2 ^ 63
  uniquePre : ∀ t, build c (Model.MerkleArray.vcLeaves leaves) = .ok t →
    ∀ L ∈ t.levels, Lemmas.MerkleArray.UniquePre c L

/-- **The SHA-256 vector commitment ALONE determines the payset** (light clients that only see `txn256`). -/
theorem sha256_commit_injective (e : BEnv β σ) (ps ps' : List σ)
    (hlen : ∀ x, (e.H256 x).length = 32) (hnz : ∀ x, e.H256 x ≠ zeros 32)
    (hcf : CollisionFreeOn e.H256 (fun x => ∃ s, (s ∈ ps ∨ s ∈ ps') ∧ x = tagSTIB ++ e.encStib s))
    (hinj : ∀ a b, e.encStib a = e.encStib b → a = b)
    (hm : ∀ ts, decodeAll e ps = some ts → VCHyp (cfg256 e) (ts.map (leaf256 e)))
    (hm' : ∀ ts, decodeAll e ps' = some ts → VCHyp (cfg256 e) (ts.map (leaf256 e)))
    (r : Bytes) (h : paysetCommitSHA256 e ps = .ok r) (h' : paysetCommitSHA256 e ps' = .ok r) : ps = ps' := by
  unfold paysetCommitSHA256 at h h'
  cases hd : decodeAll e ps with
  | none => simp [hd] at h
  | some ts =>
    cases hd' : decodeAll e ps' with
    | none => simp [hd'] at h'
    | some ts' =>
      simp only [hd] at h
      simp only [hd'] at h'
      have hleaves : ts.map (leaf256 e) = ts'.map (leaf256 e) :=
        rootOf_buildVC_inj (cfg256 e) rfl rfl hlen hnz _ _ (hm ts hd).size (hm' ts' hd').size
          (hm ts hd).uniquePre (hm' ts' hd').uniquePre
          (by intro x hx; simp only [List.mem_map] at hx; obtain ⟨a, _, rfl⟩ := hx; exact tagTL_not_node _)
          (by intro x hx; simp only [List.mem_map] at hx; obtain ⟨a, _, rfl⟩ := hx; exact tagTL_not_node _)
          (by intro x hx; simp only [List.mem_map] at hx; obtain ⟨a, _, rfl⟩ := hx; exact tagTL_not_bottom _)
          (by intro x hx; simp only [List.mem_map] at hx; obtain ⟨a, _, rfl⟩ := hx; exact tagTL_not_bottom _)
          r h h'
      exact stibs_of_leaves e e.H256 ps ps' ts ts' hlen hcf hinj hd hd' hleaves

/-- **The SHA-512 vector commitment ALONE determines the payset.**  As coded its leaves are built from the SHA-256 digests of
the transaction and the stib (the `else` branch of `RawLeaf`), so the hypotheses name both hash functions. -/
theorem sha512_commit_injective (e : BEnv β σ) (ps ps' : List σ)
    (hlen512 : ∀ x, (e.H512 x).length = 64) (hnz512 : ∀ x, e.H512 x ≠ zeros 64)
    (hlen : ∀ x, (e.H256 x).length = 32)
    (hcf : CollisionFreeOn e.H256 (fun x => ∃ s, (s ∈ ps ∨ s ∈ ps') ∧ x = tagSTIB ++ e.encStib s))
    (hinj : ∀ a b, e.encStib a = e.encStib b → a = b)
    (hm : ∀ ts, decodeAll e ps = some ts → VCHyp (cfg512 e) (ts.map (leaf256 e)))
    (hm' : ∀ ts, decodeAll e ps' = some ts → VCHyp (cfg512 e) (ts.map (leaf256 e)))
    (r : Bytes) (h : paysetCommitSHA512 e ps = .ok r) (h' : paysetCommitSHA512 e ps' = .ok r) : ps = ps' := by
  unfold paysetCommitSHA512 at h h'
  cases hd : decodeAll e ps with
  | none => simp [hd] at h
  | some ts =>
    cases hd' : decodeAll e ps' with
    | none => simp [hd'] at h'
    | some ts' =>
      simp only [hd] at h
      simp only [hd'] at h'
      have hleaves : ts.map (leaf256 e) = ts'.map (leaf256 e) :=
        rootOf_buildVC_inj (cfg512 e) rfl rfl hlen512 hnz512 _ _ (hm ts hd).size (hm' ts' hd').size
          (hm ts hd).uniquePre (hm' ts' hd').uniquePre
          (by intro x hx; simp only [List.mem_map] at hx; obtain ⟨a, _, rfl⟩ := hx; exact tagTL_not_node _)
          (by intro x hx; simp only [List.mem_map] at hx; obtain ⟨a, _, rfl⟩ := hx; exact tagTL_not_node _)
          (by intro x hx; simp only [List.mem_map] at hx; obtain ⟨a, _, rfl⟩ := hx; exact tagTL_not_bottom _)
          (by intro x hx; simp only [List.mem_map] at hx; obtain ⟨a, _, rfl⟩ := hx; exact tagTL_not_bottom _)
          r h h'
      exact stibs_of_leaves e e.H256 ps ps' ts ts' hlen hcf hinj hd hd' hleaves

/-! ## PreCheck -/

/-- **An accepted header links to its predecessor**: round, Branch = H("BH" ‖ prev), and Branch512 = SHA-512("BH" ‖ prev)
exactly when the version enables it (zero otherwise). -/
theorem branch_binds (e : HEnv ρ) (later : Hdr ρ → Hdr ρ → Bool) (bh prev : Hdr ρ)
    (h : preCheck e later bh prev = .ok ()) :
    ∃ en, bh.sha512 = some en ∧ bh.round = (prev.round + 1) % 2 ^ 64 ∧ bh.branch = hdrHash e prev ∧
      (en = true → bh.branch512 = hdrHash512 e prev) ∧ (en = false → bh.branch512 = zeroDigest512) ∧
      later bh prev = true := by
  unfold preCheck at h
  cases hs : bh.sha512 with
  | none => simp [hs] at h
  | some en =>
    simp only [hs] at h
    refine ⟨en, rfl, ?_⟩
    by_cases h1 : (prev.round + 1) % 2 ^ 64 ≠ bh.round
    · simp [h1] at h
    · by_cases h2 : bh.branch ≠ hdrHash e prev
      · simp [h1, h2] at h
      · by_cases h3 : en = true ∧ bh.branch512 ≠ hdrHash512 e prev
        · simp [h1, h2, h3] at h
        · by_cases h4 : en = false ∧ bh.branch512 ≠ zeroDigest512
          · simp [h1, h2, h4] at h
          · by_cases h5 : later bh prev = false
            · simp [h1, h2, h3, h4, h5] at h
            · simp only [ne_eq, Classical.not_not] at h1 h2
              refine ⟨h1.symm, h2, ?_, ?_, by simpa using h5⟩
              · intro he; simp only [he, true_and, ne_eq, Classical.not_not] at h3; exact h3
              · intro he; simp only [he, true_and, ne_eq, Classical.not_not] at h4; exact h4

/-- a header accepted after two predecessors: they are the same header (collision-freeness on the two "BH" pre-images) -/
theorem branch_unique_prev (e : HEnv ρ) (later : Hdr ρ → Hdr ρ → Bool) (bh prev prev' : Hdr ρ)
    (hcf : CollisionFreeOn e.H (fun x => x = tagBH ++ e.encHdr prev ∨ x = tagBH ++ e.encHdr prev'))
    (hinj : ∀ a b, e.encHdr a = e.encHdr b → a = b)
    (h : preCheck e later bh prev = .ok ()) (h' : preCheck e later bh prev' = .ok ()) : prev = prev' := by
  obtain ⟨_, _, _, hb, _⟩ := branch_binds e later bh prev h
  obtain ⟨_, _, _, hb', _⟩ := branch_binds e later bh prev' h'
  exact hinj _ _ (List.append_cancel_left (hcf _ _ (Or.inl rfl) (Or.inr rfl) (hb.symm.trans hb')))


/-! ## non-vacuity: concrete instances meeting the hypotheses

Group theorems: `Ex.exG` (identity "hash": collision-free on every input set; unary-length-prefixed encoders, proved injective),
the valid two-member group `g = pair G [1] [2]` with `G = gid [1] [2]`, and altered lists that keep `G`. -/
section Examples
open Lemmas.Commitments.Ex

/-- the example group is valid (so the rejection theorems are not vacuous) … -/
theorem ex_group_valid (a b : Bytes) : groupValid exG 16 (pair (gid a b) a b) :=
  (group_binds exG 16 _ _).mpr ⟨by simp, Or.inr ⟨gid_ne_zero a b, by
    intro t ht
    simp only [List.mem_cons, List.not_mem_nil, or_false] at ht
    rcases ht with rfl | rfl <;> exact (groupId_pair _ _ _).symm⟩⟩

/-- hypotheses of `group_alter_rejected` / `group_ids_differ_rejected`: one member's body changed, group ids kept -/
example :
    let g := pair (gid [1] [2]) [1] [2]
    let g' := pair (gid [1] [2]) [1] [3]
    CollisionFreeOn exG.H (GroupInputs exG g g') ∧ (∀ a b, exG.encGroup a = exG.encGroup b → a = b) ∧
      (∀ a b, exG.encTx a = exG.encTx b → a = b) ∧ 2 ≤ g.length ∧ groupValid exG 16 g ∧
      g'.map Tx.zeroGroup ≠ g.map Tx.zeroGroup ∧ (∃ t' ∈ g', t'.group = groupId exG g) :=
  ⟨exG_cf _, uList_inj, encTxEx_inj, by simp [pair], ex_group_valid _ _, by simp [pair, Tx.zeroGroup],
    ⟨⟨gid [1] [2], [1]⟩, by simp [pair], (groupId_pair _ _ _).symm⟩⟩

/-- … and the conclusion on that instance: the altered list is rejected, while re-assigning the new id to every member is accepted -/
example : ¬ groupValid exG 16 (pair (gid [1] [2]) [1] [3]) ∧ groupValid exG 16 (pair (gid [1] [3]) [1] [3]) :=
  ⟨group_alter_rejected exG 16 (pair (gid [1] [2]) [1] [2]) _ (exG_cf _) uList_inj encTxEx_inj (by simp [pair])
      (ex_group_valid _ _) (by simp [pair, Tx.zeroGroup]) ⟨⟨gid [1] [2], [1]⟩, by simp [pair], (groupId_pair _ _ _).symm⟩,
    ex_group_valid _ _⟩

/-- hypotheses of `group_drop_rejected`, `group_add_rejected` (a foreign member claiming the id), `group_reorder_rejected`
and `group_member_alter_rejected` on the same group -/
example :
    let G := gid [1] [2]
    let g := pair G [1] [2]
    (CollisionFreeOn exG.H (GroupInputs exG g (g.eraseIdx 0)) ∧ 0 < g.length) ∧
    (CollisionFreeOn exG.H (GroupInputs exG g (g.insertIdx 1 ⟨G, [9]⟩)) ∧ 1 ≤ g.length) ∧
    (CollisionFreeOn exG.H (GroupInputs exG g (pair G [2] [1])) ∧ (pair G [2] [1]).Perm g ∧ pair G [2] [1] ≠ g) ∧
    (CollisionFreeOn exG.H (GroupInputs exG g (g.set 1 ⟨G, [7]⟩)) ∧ 1 < g.length ∧ (⟨G, [7]⟩ : Tx Bytes).group = groupId exG g ∧
      g[1]? ≠ some ⟨G, [7]⟩) :=
  ⟨⟨exG_cf _, by simp [pair]⟩, ⟨exG_cf _, by simp [pair]⟩,
    ⟨exG_cf _, by simp only [pair]; exact List.Perm.swap _ _ _, by simp [pair]⟩,
    ⟨exG_cf _, by simp [pair], (groupId_pair _ _ _).symm, by simp [pair]⟩⟩

/-- hypotheses of `msgpackGroup_inj`: two different lists of 32-byte ids; their encodings differ -/
example :
    let a : List Bytes := [zeros 32, List.replicate 32 7]
    let b : List Bytes := [List.replicate 32 7, zeros 32]
    (∀ id ∈ a, id.length = 32) ∧ (∀ id ∈ b, id.length = 32) ∧ a.length < 4294967296 ∧ b.length < 4294967296 ∧
      msgpackGroup a ≠ msgpackGroup b := by
  refine ⟨by simp [zeros], by simp [zeros], by simp, by simp, ?_⟩
  intro h
  have := msgpackGroup_inj _ _ (by simp [zeros]) (by simp [zeros]) (by simp) (by simp) h
  simp [zeros, List.replicate_succ] at this

/-- hypotheses of `flat_commit_injective` (identity hash of `exG` reused for the flat commitment) -/
example :
    let e : BEnv Bytes Bytes := { exB with H := fun x => x }
    CollisionFreeOn e.H (fun x => x = tagPF ++ e.encPayset [[1]] ∨ x = tagPF ++ e.encPayset [[2]]) ∧
      (∀ a b, e.encPayset a = e.encPayset b → a = b) ∧ commitFlat e [[1]] ≠ commitFlat e [[2]] :=
  ⟨fun _ _ _ _ h => h, uList_inj, by simp [commitFlat, exB, uList, un, tagPF]⟩

theorem ex_decode (s : Bytes) : decodeAll exB [s] = some [(s, ⟨zeroDigest, s⟩)] := rfl

theorem ex_merkleHyp_A : ∀ ts, decodeAll exB [[1]] = some ts → MerkleHyp exB ts := by
  intro ts h
  rw [ex_decode] at h
  simp only [Option.some.injEq] at h
  subst h
  refine ⟨by simp, ?_⟩
  intro t hb L hL
  simp only [List.map_cons, List.map_nil, leafNative_A] at hb
  simp only [build, List.cons_ne_self, if_false, List.length_cons, List.length_nil, Model.MerkleArray.buildFrom,
    Nat.le_refl, if_true, List.map_cons, List.map_nil, Except.ok.injEq] at hb
  subst hb
  simp only [List.mem_singleton] at hL
  subst hL
  intro h hh x y hx hy
  simp only [List.mem_singleton] at hh
  subst hh
  have e1 : (cfgNative exB).H leafA = List.replicate 32 254 := by simp [cfgNative, exB, hX]
  rw [e1] at hx hy
  rw [hX_254 x hx, hX_254 y hy]

theorem ex_merkleHyp_B : ∀ ts, decodeAll exB [[2]] = some ts → MerkleHyp exB ts := by
  intro ts h
  rw [ex_decode] at h
  simp only [Option.some.injEq] at h
  subst h
  refine ⟨by simp, ?_⟩
  intro t hb L hL
  simp only [List.map_cons, List.map_nil, leafNative_B] at hb
  simp only [build, List.cons_ne_self, if_false, List.length_cons, List.length_nil, Model.MerkleArray.buildFrom,
    Nat.le_refl, if_true, List.map_cons, List.map_nil, Except.ok.injEq] at hb
  subst hb
  simp only [List.mem_singleton] at hL
  subst hL
  intro h hh x y hx hy
  simp only [List.mem_singleton] at hh
  subst hh
  have hne : leafB ≠ leafA := by
    intro e
    have := congrArg (fun l => l[5]?) e
    simp [leafA, leafB, tagTL, tagTX, hS, zeros] at this
  have e1 : (cfgNative exB).H leafB = List.replicate 32 253 := by simp [cfgNative, exB, hX, hne]
  rw [e1] at hx hy
  rw [hX_253 x hx, hX_253 y hy]

/-- hypotheses of `merkle_commit_injective` (and the Merkle half of `payset_binds_contents`) for the two one-transaction
paysets `[[1]]`, `[[2]]` under the 32-byte table-style hash `hX`: digest size, no zero digest, collision-freeness on the two
"STIB" pre-images, injective stib encoder, and the C37 soundness hypotheses for both honest trees. -/
example :
    (∀ x, (exB.H x).length = 32) ∧ (∀ x, exB.H x ≠ zeros 32) ∧
    CollisionFreeOn exB.H (fun x => ∃ s, (s ∈ [[1]] ∨ s ∈ [[2]]) ∧ x = tagSTIB ++ exB.encStib s) ∧
    (∀ a b, exB.encStib a = exB.encStib b → a = b) ∧
    (∀ ts, decodeAll exB [[1]] = some ts → MerkleHyp exB ts) ∧ (∀ ts, decodeAll exB [[2]] = some ts → MerkleHyp exB ts) := by
  refine ⟨hX_len, hX_nz, ?_, fun _ _ h => h, ex_merkleHyp_A, ex_merkleHyp_B⟩
  intro x y hx hy hxy
  obtain ⟨s, hs, rfl⟩ := hx
  obtain ⟨s', hs', rfl⟩ := hy
  simp only [List.mem_singleton] at hs hs'
  simp only [exB] at hxy ⊢
  rcases hs with rfl | rfl <;> rcases hs' with rfl | rfl
  · rfl
  · exfalso
    rw [hX_short _ (by simp [tagSTIB]), hX_short _ (by simp [tagSTIB])] at hxy
    simp [hS, tagSTIB, zeros] at hxy
  · exfalso
    rw [hX_short _ (by simp [tagSTIB]), hX_short _ (by simp [tagSTIB])] at hxy
    simp [hS, tagSTIB, zeros] at hxy
  · rfl

theorem ex_vcLeaves_single (x : Bytes) : Model.MerkleArray.vcLeaves [x] = [x] := by
  simp [Model.MerkleArray.vcLeaves, Model.MerkleArray.bitrev, List.range_succ]

/-- hypotheses of `sha256_commit_injective` for `[[1]]`, `[[2]]` (in `exB` SHA-256 is played by the same 32-byte hash `hX`, so
the padded one-leaf vector-commitment trees are the trees of the previous example) -/
example :
    (∀ x, (exB.H256 x).length = 32) ∧ (∀ x, exB.H256 x ≠ zeros 32) ∧ (∀ a b, exB.encStib a = exB.encStib b → a = b) ∧
    (∀ ts, decodeAll exB [[1]] = some ts → VCHyp (cfg256 exB) (ts.map (leaf256 exB))) ∧
    (∀ ts, decodeAll exB [[2]] = some ts → VCHyp (cfg256 exB) (ts.map (leaf256 exB))) := by
  refine ⟨hX_len, hX_nz, fun _ _ h => h, ?_, ?_⟩
  · intro ts h
    have hm := ex_merkleHyp_A ts h
    rw [ex_decode] at h
    simp only [Option.some.injEq] at h
    subst h
    exact ⟨by simp [ex_vcLeaves_single], fun t hb => hm.uniquePre t (by rw [List.map_cons, List.map_nil, ex_vcLeaves_single] at hb; exact hb)⟩
  · intro ts h
    have hm := ex_merkleHyp_B ts h
    rw [ex_decode] at h
    simp only [Option.some.injEq] at h
    subst h
    exact ⟨by simp [ex_vcLeaves_single], fun t hb => hm.uniquePre t (by rw [List.map_cons, List.map_nil, ex_vcLeaves_single] at hb; exact hb)⟩

/-- hypotheses of `sha512_commit_injective` for `[[1]]` (64-byte hash `x ↦ hX x ‖ hX x`): digest size, no zero digest, and the C37
hypotheses for the padded one-leaf tree -/
example :
    (∀ x, (exB.H512 x).length = 64) ∧ (∀ x, exB.H512 x ≠ zeros 64) ∧
    (∀ ts, decodeAll exB [[1]] = some ts → VCHyp (cfg512 exB) (ts.map (leaf256 exB))) := by
  refine ⟨fun x => by simp [exB, hX_len], ?_, ?_⟩
  · intro x h
    have h1 := congrArg (List.take 32) h
    simp only [exB, List.take_left' (hX_len x)] at h1
    exact hX_nz x (by rw [h1]; simp [zeros])
  · intro ts h
    rw [ex_decode] at h
    simp only [Option.some.injEq] at h
    subst h
    refine ⟨by simp [ex_vcLeaves_single], ?_⟩
    intro t hb L hL
    rw [List.map_cons, List.map_nil, ex_vcLeaves_single] at hb
    have hl : leaf256 exB ([1], ⟨zeroDigest, [1]⟩) = leafA := leafNative_A
    rw [hl] at hb
    simp only [build, List.cons_ne_self, if_false, List.length_cons, List.length_nil, Model.MerkleArray.buildFrom,
      Nat.le_refl, if_true, List.map_cons, List.map_nil, Except.ok.injEq] at hb
    subst hb
    simp only [List.mem_singleton] at hL
    subst hL
    intro h hh x y hx hy
    simp only [List.mem_singleton] at hh
    subst hh
    have key : ∀ z, (cfg512 exB).H z = (cfg512 exB).H leafA → z = leafA := by
      intro z hz
      have h1 := congrArg (List.take 32) hz
      simp only [cfg512, exB, List.take_left' (hX_len _)] at h1
      exact hX_254 z (by rw [h1]; simp [hX])
    rw [key x hx, key y hy]

/-- hypotheses of `branch_binds` / `branch_unique_prev`: an accepted successor under the identity hash -/
example :
    let e : HEnv Unit := ⟨fun x => x, fun x => x ++ x, fun h => uPair h.branch [UInt8.ofNat h.round]⟩
    let prev : Hdr Unit := ⟨4, [9], zeroDigest512, some true, ()⟩
    let bh : Hdr Unit := ⟨5, hdrHash e prev, hdrHash512 e prev, some true, ()⟩
    preCheck e (fun _ _ => true) bh prev = .ok () ∧
      preCheck e (fun _ _ => true) { bh with branch512 := zeroDigest512 } prev = .error .branch512 := by
  constructor <;> simp [preCheck, hdrHash, hdrHash512, zeroDigest512, zeros, tagBH, uPair, un]

end Examples

end Props.C29
