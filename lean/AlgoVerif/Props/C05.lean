/-
C05 — Consensus makes progress once the network is synchronous.

Model: `Spec.AgreementSync` = `Spec.AgreementAbs` (C01: histories, local rules `WF`, quorums) + a deterministic
synchronous-phase step function (`phase`, `deliver`, `certOnDelivery`, `commitOnDelivery`, `filterTimeout`,
`deadlineTimeout`, `fastTimeout`; the runs `syncFresh`, `syncAdvance`; the general tick `syncStep`).  The table at the top of
that file maps every phase to `agreement/player.go` and lists the abstractions (total delivery, uniform payload availability,
one leader value per period, fixed weights).

PROVED (for ALL parameters — any number of nodes, weights, honest sets — and ALL histories):
* `sync_period_progress_partial` — a period that starts with every honest node in it, nobody having voted in it, and a common
  starting cache: if the value the filter timeout makes them soft-vote (the starting value, else the leader's proposal) has its
  payload available, every honest node commits in that period (`syncFresh`).  Needs only `honest weight ≥ T`.
* `sync_period_advance` — from ANY history that obeys the local rules (`WF true`: an arbitrary asynchronous prefix — drops,
  partitions, crashes, Byzantine votes and equivocations), whatever periods ≤ p the honest nodes are in and whatever they voted:
  after one deadline and one fast-recovery tick (`syncAdvance`) either every honest node has committed, or every honest node is
  in period `p+1`, none has voted there, and all hold the SAME cache of period `p` (a common starting value) — which is exactly
  the hypothesis of `sync_period_progress_partial` for period `p+1`.
* `sync_two_periods` — the composition: at most one more period when its leader is good.

NOT PROVED, kept visible: `sync_progress_Statement` (bottom of the file) — a bound K for every bounded-delay order (not only
the lock-step order of `phase`), K coming from the number of consecutive periods with a bad leader.  What is missing is named
there.
-/
import AlgoVerif.Lemmas.AgreementSync
namespace Props.C05
open AlgoVerif.Spec.AgreementAbs AlgoVerif.Spec.AgreementSync AlgoVerif.Lemmas.AgreementSync

/-! The hypotheses `HonestQuorum`, `FreshAt`, `CommonStart` are defined in `Lemmas/AgreementSync.lean`:
* `HonestQuorum P`      : `P.T ≤ wt P (fun n => P.honest n)` — an honest online supermajority;
* `FreshAt P h p`       : every honest node is in period `p`, has not voted in `p`, has not committed;
* `CommonStart P h p c` : every honest node reads the cache `c` for the previous period (`Local.prev p`). -/

/-- **sync_period_progress_partial.**  One synchronous period from its start: all honest nodes commit in it. -/
theorem sync_period_progress_partial {P : Params} {E : Env} {h : List Ev} {p : Nat} {c : Cache} {w : Val}
    (hT : HonestQuorum P) (hf : FreshAt P h p) (hc : CommonStart P h p c)
    (hw : softValue E c = some w) (ha : E.avail w = true) :
    ∃ v, certQ P (syncFresh P E p h) p v ∧ ∀ n ∈ hon P, Ev.commit n p v ∈ syncFresh P E p h :=
  syncFresh_commits hT hf hc hw ha

/-- **sync_period_advance.**  One deadline + the recovery step from an arbitrary well-formed history: all honest nodes have
committed, or all are at the start of period `p+1` with a common starting cache. -/
theorem sync_period_advance {P : Params} {E : Env} {h : List Ev} {p : Nat}
    (hq : HQ P) (hT : HonestQuorum P) (hnd : P.nodes.Nodup) (wf : WF true P h)
    (hle : ∀ n ∈ hon P, (localOf h n).period ≤ p) (htop : ∃ n ∈ hon P, (localOf h n).period = p)
    (hopen : ∀ n ∈ hon P, committedB h n = false) :
    (∀ n ∈ hon P, committedB (syncAdvance P E p h) n = true) ∨
    (∃ c, FreshAt P (syncAdvance P E p h) (p + 1) ∧ CommonStart P (syncAdvance P E p h) (p + 1) c) :=
  syncAdvance_spec hq hT hnd wf hle htop hopen

/-- a period whose leader is good: whatever the common starting cache is, the value the honest nodes soft-vote exists and its
payload is available (e.g. `leader = some v`, all payloads available) -/
def GoodPeriod (E : Env) : Prop := ∀ c : Cache, ∃ w, softValue E c = some w ∧ E.avail w = true

/-- the two lemmas compose: after the advance, one period with a good leader commits -/
theorem sync_two_periods {P : Params} {E E' : Env} {h : List Ev} {p : Nat}
    (hq : HQ P) (hT : HonestQuorum P) (hnd : P.nodes.Nodup) (wf : WF true P h)
    (hle : ∀ n ∈ hon P, (localOf h n).period ≤ p) (htop : ∃ n ∈ hon P, (localOf h n).period = p)
    (hopen : ∀ n ∈ hon P, committedB h n = false) (hg : GoodPeriod E') :
    (∀ n ∈ hon P, committedB (syncAdvance P E p h) n = true) ∨
    (∃ v, ∀ n ∈ hon P, Ev.commit n (p + 1) v ∈ syncFresh P E' (p + 1) (syncAdvance P E p h)) := by
  rcases sync_period_advance (E := E) hq hT hnd wf hle htop hopen with hc | ⟨c, hf, hcs⟩
  · exact Or.inl hc
  · obtain ⟨w, hw, ha⟩ := hg c
    obtain ⟨v, _, hv⟩ := sync_period_progress_partial hT hf hcs hw ha
    exact Or.inr ⟨v, hv⟩

/-! ### non-vacuity

4 nodes of weight 1, `T = 3`, node 3 Byzantine (C01's `exP`).  `pre1`: an asynchronous prefix of period 0 — the honest soft
votes are split 7 / 8 / 8, the Byzantine node equivocates, node 0 has timed out twice and next-voted ⊥ at two steps, the
Byzantine node next-votes ⊥ at another step: no threshold of any kind except the soft quorum for 8 (with the equivocator). -/

def P4 : Params := ⟨[0, 1, 2, 3], fun _ => 1, fun n => n != 3, 3⟩
def good7 : Env := ⟨some 7, fun _ => true⟩
def nopayload : Env := ⟨none, fun _ => false⟩

def pre1 : List Ev := [
  .vote ⟨0, 0, .soft, some 7⟩, .vote ⟨1, 0, .soft, some 8⟩, .vote ⟨2, 0, .soft, some 8⟩,
  .vote ⟨3, 0, .soft, some 7⟩, .vote ⟨3, 0, .soft, some 8⟩,
  .vote ⟨0, 0, .next 0, none⟩, .vote ⟨0, 0, .next 1, none⟩, .vote ⟨3, 0, .next 1, none⟩].reverse

example : HQ P4 ∧ HonestQuorum P4 ∧ P4.nodes.Nodup := by decide
/-- `sync_period_progress_partial` applies to the very first period … -/
example : FreshAt P4 [] 0 ∧ CommonStart P4 [] 0 Cache.empty ∧ softValue good7 Cache.empty = some 7 := by decide
example : (syncFresh P4 good7 0 []).reverse = [
    .vote ⟨0, 0, .soft, some 7⟩, .vote ⟨1, 0, .soft, some 7⟩, .vote ⟨2, 0, .soft, some 7⟩,
    .vote ⟨0, 0, .cert, some 7⟩, .vote ⟨1, 0, .cert, some 7⟩, .vote ⟨2, 0, .cert, some 7⟩,
    .commit 0 0 7, .commit 1 0 7, .commit 2 0 7] := by decide
/-- … and `sync_period_advance` to the prefix `pre1` -/
example : WF true P4 pre1 ∧ (∀ n ∈ hon P4, (localOf pre1 n).period ≤ 0) ∧ (∀ n ∈ hon P4, committedB pre1 n = false) := by decide
/-- payload of the staged value 8 available: cert votes 8 by the nodes still at `Step ≤ cert` (no quorum: node 0 is past it),
next votes 8 at three different steps (no quorum), `late 8` by everybody: next quorum, all enter period 1 with starting value 8 -/
example : ((syncAdvance P4 good7 0 pre1).take 14).reverse = [
    .vote ⟨1, 0, .cert, some 8⟩, .vote ⟨2, 0, .cert, some 8⟩,
    .vote ⟨0, 0, .next 2, some 8⟩, .vote ⟨1, 0, .next 0, some 8⟩, .vote ⟨2, 0, .next 0, some 8⟩,
    .vote ⟨0, 0, .next 250, some 8⟩, .vote ⟨1, 0, .next 250, some 8⟩, .vote ⟨2, 0, .next 250, some 8⟩,
    .see 0 0 (some 8), .enter 0 1 (.viaNext (some 8)), .see 1 0 (some 8), .enter 1 1 (.viaNext (some 8)),
    .see 2 0 (some 8), .enter 2 1 (.viaNext (some 8))] := by decide
example : FreshAt P4 (syncAdvance P4 good7 0 pre1) 1 ∧ CommonStart P4 (syncAdvance P4 good7 0 pre1) 1 ⟨false, some 8⟩ := by decide
/-- no payload: everybody next-votes ⊥ — with node 0's old `next 0 ⊥` a ⊥ quorum at step `next 0`; all enter period 1 with
`Bottom`, where a good leader's fresh proposal 7 is committed -/
example : FreshAt P4 (syncAdvance P4 nopayload 0 pre1) 1 ∧ CommonStart P4 (syncAdvance P4 nopayload 0 pre1) 1 ⟨true, none⟩ := by decide
example : commits P4 (syncFresh P4 good7 1 (syncAdvance P4 nopayload 0 pre1)) = [(2, 1, 7), (1, 1, 7), (0, 1, 7)] := by decide
/-- the synchronous runs are themselves histories the safety model (C01) accepts -/
example : WF true P4 (syncFresh P4 good7 0 []) ∧ WF true P4 (syncAdvance P4 good7 0 pre1) ∧
    WF true P4 (syncFresh P4 good7 1 (syncAdvance P4 nopayload 0 pre1)) := by decide
example : GoodPeriod good7 := fun c => by
  cases c with
  | mk b pr => cases b <;> cases pr <;> simp [softValue, good7]
/-- the hypotheses matter: without an honest supermajority (`T = 4`: all four nodes needed, one is Byzantine) the same run commits nothing -/
example : commits { P4 with T := 4 } (syncFresh { P4 with T := 4 } good7 0 []) = [] := by decide

/-! ### the full statement (NOT proved)

`sync_period_progress_partial` and `sync_period_advance` speak about the lock-step order of `phase` (every honest node reacts to
the same history, tick by tick).  The property quantifies over EVERY bounded-delay order: nodes react one at a time, to whatever
has reached them, and a timeout of a node may only fire once everything sent before the previous timeout of any node has been
delivered to every honest node.  `Move` / `applyMove` / `BoundedDelay` make that order explicit; `sync_progress_Statement` asks
for a bound `K` (periods) that works for all parameters, all asynchronous prefixes, all such orders and all leader sequences in
which among any `B` consecutive periods one is good — the deterministic conclusion of the probabilistic leader argument
(each period's lowest credential is honest with probability ≥ the honest stake fraction, independently: VRF sortition).

Missing for a proof: (1) the probabilistic argument itself (no probability theory here; credentials are not modelled);
(2) confluence of the single-node moves towards the lock-step phases under `BoundedDelay` (the per-node reactions commute only
up to the order of `see` events); (3) the re-broadcast of `partitionPolicy` as an explicit message instead of "delivery is
total" — with it the bound is `K = B + 2` in the implementation monitor rather than `B + 1`; (4) real-time timers. -/

/-- one honest node reacts alone -/
inductive Move
  | deliver (n : Node) | cert (n : Node) | commit (n : Node)
  | filter (n : Node) | deadline (n : Node) | fast (n : Node)
  deriving DecidableEq, Repr

def Move.node : Move → Node
  | .deliver n | .cert n | .commit n | .filter n | .deadline n | .fast n => n

def Move.isTimeout : Move → Bool
  | .filter _ | .deadline _ | .fast _ => true
  | _ => false

/-- the reaction of the single node to the CURRENT history (the same reaction functions as in the lock-step phases) -/
def applyMove (P : Params) (E : Nat → Env) (h : List Ev) (m : Move) : List Ev :=
  let n := m.node
  let p := (localOf h n).period
  if P.honest n = false ∨ committedB h n = true then h else
  (match m with
   | .deliver _ => deliverOf P h (topPeriod P h) n
   | .cert _ => certOf P (E p) h p n
   | .commit _ => commitOf P (E p) h p n
   | .filter _ => softOf (E p) h p n
   | .deadline _ => nextOf P (E p) h p n
   | .fast _ => fastOf P (E p) h p n).reverse ++ h

def runMoves (P : Params) (E : Nat → Env) : List Move → List Ev → List Ev
  | [], h => h
  | m :: ms, h => runMoves P E ms (applyMove P E h m)

/-- bounded delay: after a timeout move, no timeout move of any node happens before every honest node has made a `deliver`,
a `cert` and a `commit` move (everything sent up to a timeout reaches everybody before the next timeout) -/
def BoundedDelay (P : Params) : List Move → Prop
  | [] => True
  | m :: ms =>
      BoundedDelay P ms ∧
      (m.isTimeout = true →
        ∀ pre post t, ms = pre ++ t :: post → t.isTimeout = true → (∀ x ∈ pre, x.isTimeout = false) →
          ∀ n ∈ hon P, Move.deliver n ∈ pre ∧ Move.cert n ∈ pre ∧ Move.commit n ∈ pre)

/-- fairness: every honest node gets `k` timeouts of every kind -/
def Fair (P : Params) (k : Nat) (ms : List Move) : Prop :=
  ∀ n ∈ hon P, k ≤ ms.count (.filter n) ∧ k ≤ ms.count (.deadline n) ∧ k ≤ ms.count (.fast n)

/-- **the full statement** — NOT proved (see above): there is a function `K` of the leader-quality bound `B` such that from every
well-formed prefix, under every fair bounded-delay order, every honest node commits within `K B` periods. -/
def sync_progress_Statement : Prop :=
  ∃ K : Nat → Nat, ∀ (P : Params) (E : Nat → Env) (B : Nat) (h : List Ev),
    HQ P → HonestQuorum P → P.nodes.Nodup → WF true P h → (∀ n ∈ hon P, committedB h n = false) →
    (∀ p, ∃ j, j < B ∧ GoodPeriod (E (p + j))) →
    ∀ ms : List Move, BoundedDelay P ms → Fair P (3 * K B + 3) ms →
      (∀ n ∈ hon P, committedB (runMoves P E ms h) n = true) ∧
      topPeriod P (runMoves P E ms h) ≤ topPeriod P h + K B

end Props.C05
