/-
C05 — Consensus makes progress once the network is synchronous.

Model: `Spec.AgreementSync` = `Spec.AgreementAbs` (C01: histories, local rules `WF`, quorums) + a deterministic
synchronous-phase step function (`phase`, `deliver`, `certOnDelivery`, `commitOnDelivery`, `filterTimeout`,
`deadlineTimeout`, `fastTimeout`; the runs `syncFresh`, `syncAdvance`; the general tick `syncStep`).  The table at the top of
that file maps every phase to `agreement/player.go` and lists the abstractions (total delivery, uniform payload availability,
one leader value per period, fixed weights).

PROVED (for ALL parameters — any number of nodes, weights, honest sets — and ALL histories):
* `sync_period_progress_partial` — a period that starts with every honest node in it, nobody having voted in it, and a common
  starting cache: if the value the filter timeout makes them soft-vote (the starting value, else the leader's proposal) has its
  payload available, every honest node commits in that period (`syncFresh`).  Needs only `honest weight ≥ T`.
* `sync_period_advance` — from ANY history that obeys the local rules (`WF true`: an arbitrary asynchronous prefix — drops,
  partitions, crashes, Byzantine votes and equivocations), whatever periods ≤ p the honest nodes are in and whatever they voted:
  after one deadline and one fast-recovery tick (`syncAdvance`) either every honest node has committed, or every honest node is
  in period `p+1`, none has voted there, and all hold the SAME cache of period `p` (a common starting value) — which is exactly
  the hypothesis of `sync_period_progress_partial` for period `p+1`.
* `sync_two_periods` — the composition: at most one more period when its leader is good.
* `sync_fresh_wf`, `sync_advance_wf` — the synchronous runs only append events the local rules of C01 allow (so every safety
  theorem of `Props.C01` applies to them, and the lemmas compose over many periods); `sync_fresh_value` — a good period commits
  exactly the value everybody soft-voted.
* `sync_lockstep_progress` — the K-period bound FOR THE LOCK-STEP ORDER: from any well-formed prefix with highest honest period
  `p0`, if one of the periods `p0+1 … p0+B` has a good leader (and the others are "uniformly bad": no proposal reaches anybody,
  or the payload is unavailable to everybody), every honest node has committed after the advance of `p0` and at most `B`
  further periods — `K = B + 1`.  `sync_lockstep_wf`: the whole run stays well-formed.

All of these are FULL theorems about the model (no `_partial` in the sense of a missing case); the name
`sync_period_progress_partial` is kept from the design because the PROPERTY is only partially proved:

NOT PROVED, kept visible: `sync_progress_Statement` (bottom of the file) — a bound K for EVERY fair bounded-delay order of
single-node moves (not only the lock-step order of `phase`), with leaders that may show different proposals to different nodes,
K coming from the number of consecutive periods with a bad leader (the probabilistic leader argument).  What is missing is
named there.
-/
import AlgoVerif.Lemmas.AgreementSync
import AlgoVerif.Lemmas.AgreementSyncWF
namespace Props.C05
open AlgoVerif.Spec.AgreementAbs AlgoVerif.Spec.AgreementSync AlgoVerif.Lemmas.AgreementSync

/-! The hypotheses `HonestQuorum`, `FreshAt`, `CommonStart` are defined in `Lemmas/AgreementSync.lean`:
* `HonestQuorum P`      : `P.T ≤ wt P (fun n => P.honest n)` — an honest online supermajority;
* `FreshAt P h p`       : every honest node is in period `p`, has not voted in `p`, has not committed;
* `CommonStart P h p c` : every honest node reads the cache `c` for the previous period (`Local.prev p`). -/

/-- **sync_period_progress_partial.**  One synchronous period from its start: all honest nodes commit in it. -/
theorem sync_period_progress_partial {P : Params} {E : Env} {h : List Ev} {p : Nat} {c : Cache} {w : Val}
    (hT : HonestQuorum P) (hf : FreshAt P h p) (hc : CommonStart P h p c)
    (hw : softValue E c = some w) (ha : E.avail w = true) :
    ∃ v, certQ P (syncFresh P E p h) p v ∧ ∀ n ∈ hon P, Ev.commit n p v ∈ syncFresh P E p h :=
  syncFresh_commits hT hf hc hw ha

/-- **sync_period_advance.**  One deadline + the recovery step from an arbitrary well-formed history: all honest nodes have
committed, or all are at the start of period `p+1` with a common starting cache. -/
theorem sync_period_advance {P : Params} {E : Env} {h : List Ev} {p : Nat}
    (hq : HQ P) (hT : HonestQuorum P) (hnd : P.nodes.Nodup) (wf : WF true P h)
    (hle : ∀ n ∈ hon P, (localOf h n).period ≤ p) (htop : ∃ n ∈ hon P, (localOf h n).period = p)
    (hopen : ∀ n ∈ hon P, committedB h n = false) :
    (∀ n ∈ hon P, committedB (syncAdvance P E p h) n = true) ∨
    (∃ c, FreshAt P (syncAdvance P E p h) (p + 1) ∧ CommonStart P (syncAdvance P E p h) (p + 1) c) :=
  syncAdvance_spec hq hT hnd wf hle htop hopen

/-- a period whose leader is good: whatever the common starting cache is, the value the honest nodes soft-vote exists and its
payload is available (e.g. `leader = some v`, all payloads available) -/
def GoodPeriod (E : Env) : Prop := ∀ c : Cache, ∃ w, softValue E c = some w ∧ E.avail w = true

/-- the two lemmas compose: after the advance, one period with a good leader commits -/
theorem sync_two_periods {P : Params} {E E' : Env} {h : List Ev} {p : Nat}
    (hq : HQ P) (hT : HonestQuorum P) (hnd : P.nodes.Nodup) (wf : WF true P h)
    (hle : ∀ n ∈ hon P, (localOf h n).period ≤ p) (htop : ∃ n ∈ hon P, (localOf h n).period = p)
    (hopen : ∀ n ∈ hon P, committedB h n = false) (hg : GoodPeriod E') :
    (∀ n ∈ hon P, committedB (syncAdvance P E p h) n = true) ∨
    (∃ v, ∀ n ∈ hon P, Ev.commit n (p + 1) v ∈ syncFresh P E' (p + 1) (syncAdvance P E p h)) := by
  rcases sync_period_advance (E := E) hq hT hnd wf hle htop hopen with hc | ⟨c, hf, hcs⟩
  · exact Or.inl hc
  · obtain ⟨w, hw, ha⟩ := hg c
    obtain ⟨v, _, hv⟩ := sync_period_progress_partial hT hf hcs hw ha
    exact Or.inr ⟨v, hv⟩

/-! ### non-vacuity

4 nodes of weight 1, `T = 3`, node 3 Byzantine (C01's `exP`).  `pre1`: an asynchronous prefix of period 0 — the honest soft
votes are split 7 / 8 / 8, the Byzantine node equivocates, node 0 has timed out twice and next-voted ⊥ at two steps, the
Byzantine node next-votes ⊥ at another step: no threshold of any kind except the soft quorum for 8 (with the equivocator). -/

def P4 : Params := ⟨[0, 1, 2, 3], fun _ => 1, fun n => n != 3, 3⟩
def good7 : Env := ⟨some 7, fun _ => true⟩
def nopayload : Env := ⟨none, fun _ => false⟩

def pre1 : List Ev := [
  .vote ⟨0, 0, .soft, some 7⟩, .vote ⟨1, 0, .soft, some 8⟩, .vote ⟨2, 0, .soft, some 8⟩,
  .vote ⟨3, 0, .soft, some 7⟩, .vote ⟨3, 0, .soft, some 8⟩,
  .vote ⟨0, 0, .next 0, none⟩, .vote ⟨0, 0, .next 1, none⟩, .vote ⟨3, 0, .next 1, none⟩].reverse

example : HQ P4 ∧ HonestQuorum P4 ∧ P4.nodes.Nodup := by decide
/-- `sync_period_progress_partial` applies to the very first period … -/
example : FreshAt P4 [] 0 ∧ CommonStart P4 [] 0 Cache.empty ∧ softValue good7 Cache.empty = some 7 := by decide
example : (syncFresh P4 good7 0 []).reverse = [
    .vote ⟨0, 0, .soft, some 7⟩, .vote ⟨1, 0, .soft, some 7⟩, .vote ⟨2, 0, .soft, some 7⟩,
    .vote ⟨0, 0, .cert, some 7⟩, .vote ⟨1, 0, .cert, some 7⟩, .vote ⟨2, 0, .cert, some 7⟩,
    .commit 0 0 7, .commit 1 0 7, .commit 2 0 7] := by decide
/-- … and `sync_period_advance` to the prefix `pre1` -/
example : WF true P4 pre1 ∧ (∀ n ∈ hon P4, (localOf pre1 n).period ≤ 0) ∧ (∀ n ∈ hon P4, committedB pre1 n = false) := by decide
/-- payload of the staged value 8 available: cert votes 8 by the nodes still at `Step ≤ cert` (no quorum: node 0 is past it),
next votes 8 at three different steps (no quorum), `late 8` by everybody: next quorum, all enter period 1 with starting value 8 -/
example : ((syncAdvance P4 good7 0 pre1).take 14).reverse = [
    .vote ⟨1, 0, .cert, some 8⟩, .vote ⟨2, 0, .cert, some 8⟩,
    .vote ⟨0, 0, .next 2, some 8⟩, .vote ⟨1, 0, .next 0, some 8⟩, .vote ⟨2, 0, .next 0, some 8⟩,
    .vote ⟨0, 0, .next 250, some 8⟩, .vote ⟨1, 0, .next 250, some 8⟩, .vote ⟨2, 0, .next 250, some 8⟩,
    .see 0 0 (some 8), .enter 0 1 (.viaNext (some 8)), .see 1 0 (some 8), .enter 1 1 (.viaNext (some 8)),
    .see 2 0 (some 8), .enter 2 1 (.viaNext (some 8))] := by decide
example : FreshAt P4 (syncAdvance P4 good7 0 pre1) 1 ∧ CommonStart P4 (syncAdvance P4 good7 0 pre1) 1 ⟨false, some 8⟩ := by decide
/-- no payload: everybody next-votes ⊥ — with node 0's old `next 0 ⊥` a ⊥ quorum at step `next 0`; all enter period 1 with
`Bottom`, where a good leader's fresh proposal 7 is committed -/
example : FreshAt P4 (syncAdvance P4 nopayload 0 pre1) 1 ∧ CommonStart P4 (syncAdvance P4 nopayload 0 pre1) 1 ⟨true, none⟩ := by decide
example : commits P4 (syncFresh P4 good7 1 (syncAdvance P4 nopayload 0 pre1)) = [(2, 1, 7), (1, 1, 7), (0, 1, 7)] := by decide
/-- the synchronous runs are themselves histories the safety model (C01) accepts -/
example : WF true P4 (syncFresh P4 good7 0 []) ∧ WF true P4 (syncAdvance P4 good7 0 pre1) ∧
    WF true P4 (syncFresh P4 good7 1 (syncAdvance P4 nopayload 0 pre1)) := by decide
example : GoodPeriod good7 := fun c => by
  cases c with
  | mk b pr => cases b <;> cases pr <;> simp [softValue, good7]
/-- the hypotheses matter: without an honest supermajority (`T = 4`: all four nodes needed, one is Byzantine) the same run commits nothing -/
example : commits { P4 with T := 4 } (syncFresh { P4 with T := 4 } good7 0 []) = [] := by decide

/-! ### the delivery assumption as a rule of the code

`deliver p` lets a node that is already in period `p` cache every next threshold of `p - 1`.  In the code that information
reaches such a node as a re-broadcast bundle (`partitionPolicy`), which must pass `bundleFresh`.  The model of `bundleFresh`
(`Spec.AgreementSync.bundleFresh`, tied to the real function on a grid of (round, period, LastConcluding, step) tuples) accepts it
whatever its step and whatever the step at which the node left `p - 1`: -/

/-- a bundle of the node's round and of a period `≥ p - 1` is accepted, for every step -/
theorem bundle_of_concluded_period_accepted (r p q s : Nat) (h : p ≤ q + 1) : bundleFresh r p r q s = true := by
  unfold bundleFresh
  have : ¬ q < p - 1 := by omega
  simp [this]

/-- cert bundles of the round are accepted from every period -/
theorem cert_bundle_accepted (r p q : Nat) : bundleFresh r p r q 2 = true := by simp [bundleFresh]

example : bundleFresh 5 1 5 0 4 = true ∧ bundleFresh 5 3 5 1 3 = false ∧ bundleFresh 5 3 6 3 3 = false := by decide

/-! ### many periods in lock-step (PROVED)

The synchronous step function preserves the local rules (`WF`), so the two lemmas compose over any number of periods:
`sync_fresh_wf`, `sync_advance_wf` (well-formedness of the runs), `sync_fresh_value` (the committed value is the soft-voted one),
and `sync_lockstep_progress`: after the advance of period `p0`, at most `B` further periods are needed when among the periods
`p0+1 … p0+B` one has a good leader — `K = B + 1` periods in the lock-step order of `phase`.

Side conditions of `sync_advance_wf` (both are about the asynchronous prefix only; they hold trivially for a period that starts
inside the synchronous phase):
* `CertAvail P E h p` — an honest cert-voter of period `p` holds the payload of the value it cert-voted (as in the code: a cert
  vote is issued for a *committable* value).  Without it the rule `next-own-cert` can fail.
* `StepLt P h p 249` — the honest next votes of period `p` in the prefix are at ordinary next steps `< 249`.  `Spec.AgreementAbs`
  does not distinguish the fast-recovery steps `next 250/251/252` from ordinary next steps, so a prefix may contain an honest
  `next 250 ⊥`; a later `late v` of the same node at the same step would violate `vote-unique` (and `nextK` = 250 after a vote at
  step 249 would collide with `late`). -/

/-- period `p` from its common start: filter timeout, cert votes, commit — and, if it did not commit, deadline + recovery -/
def syncPeriod (P : Params) (E : Env) (p : Nat) (h : List Ev) : List Ev := syncAdvance P E p (syncFresh P E p h)

/-- `k` periods `p, p+1, …, p+k-1` in lock-step, period `q` with the environment `E q` -/
def syncPeriods (P : Params) (E : Nat → Env) : Nat → Nat → List Ev → List Ev
  | _, 0, h => h
  | p, k + 1, h => syncPeriods P E (p + 1) k (syncPeriod P (E p) p h)

/-- **sync_fresh_wf.**  `syncFresh` (any environment, any history) only appends events the local rules allow. -/
theorem sync_fresh_wf {l : Bool} {P : Params} (hnd : P.nodes.Nodup) (E : Env) (p : Nat) {h : List Ev}
    (wf : WF l P h) : WF l P (syncFresh P E p h) := syncFresh_wf hnd E p wf

/-- **sync_fresh_value.**  The value committed by a good period is the value everybody soft-voted. -/
theorem sync_fresh_value {P : Params} {E : Env} {h : List Ev} {p : Nat} {c : Cache} {w : Val}
    (hq : HQ P) (hnd : P.nodes.Nodup) (wf : WF true P h)
    (hT : HonestQuorum P) (hf : FreshAt P h p) (hc : CommonStart P h p c)
    (hw : softValue E c = some w) (ha : E.avail w = true) :
    ∀ n ∈ hon P, Ev.commit n p w ∈ syncFresh P E p h := syncFresh_value hq hnd wf hT hf hc hw ha

/-- **sync_advance_wf.**  `syncAdvance` only appends events the local rules allow. -/
theorem sync_advance_wf {P : Params} {E : Env} {h : List Ev} {p : Nat}
    (hq : HQ P) (hnd : P.nodes.Nodup) (wf : WF true P h) (hav : CertAvail P E h p) (hst : StepLt P h p 249) :
    WF true P (syncAdvance P E p h) := syncAdvance_wf hq hnd wf hav hst

theorem syncPeriod_suffix (P : Params) (E : Env) (p : Nat) (h : List Ev) : h <:+ syncPeriod P E p h :=
  (syncFresh_suffix P E p h).trans (syncAdvance_suffix P E p _)

theorem syncPeriods_suffix (P : Params) (E : Nat → Env) : ∀ k p h, h <:+ syncPeriods P E p k h := by
  intro k
  induction k with
  | zero => intro p h; exact List.suffix_refl _
  | succ k ih => intro p h; exact (syncPeriod_suffix P (E p) p h).trans (ih (p + 1) _)

theorem sync_lockstep_aux {P : Params} {E : Nat → Env} (hq : HQ P) (hT : HonestQuorum P) (hnd : P.nodes.Nodup) :
    ∀ (B q : Nat) (h : List Ev), AllCommitted P h ∨ PeriodStart P h q →
      (∃ j, j < B ∧ GoodPeriod (E (q + j))) → AllCommitted P (syncPeriods P E q B h) := by
  intro B
  induction B with
  | zero => rintro q h _ ⟨j, hj, _⟩; omega
  | succ B ih =>
      rintro q h hst ⟨j, hj, hg⟩
      show AllCommitted P (syncPeriods P E (q + 1) B (syncPeriod P (E q) q h))
      rcases hst with hc | hs
      · exact hc.mono ((syncPeriod_suffix P (E q) q h).trans (syncPeriods_suffix P E B (q + 1) _))
      · cases j with
        | zero => exact (period_step_good hT hs hg).mono (syncPeriods_suffix P E B (q + 1) _)
        | succ j =>
            refine ih (q + 1) _ (period_step hq hT hnd hs (E q)) ⟨j, by omega, ?_⟩
            have e : q + 1 + j = q + (j + 1) := by omega
            rw [e]; exact hg

/-- **sync_lockstep_progress.**  From any well-formed asynchronous prefix whose highest honest period is `p0`: the advance of
`p0` followed by the periods `p0+1 … p0+B`, one of which has a good leader, makes every honest node commit — `K = B + 1`
periods after `p0` in the lock-step order. -/
theorem sync_lockstep_progress {P : Params} {E : Nat → Env} {h : List Ev} {p0 B : Nat}
    (hq : HQ P) (hT : HonestQuorum P) (hnd : P.nodes.Nodup) (wf : WF true P h)
    (hle : ∀ n ∈ hon P, (localOf h n).period ≤ p0) (htop : ∃ n ∈ hon P, (localOf h n).period = p0)
    (hopen : ∀ n ∈ hon P, committedB h n = false)
    (hav : CertAvail P (E p0) h p0) (hst : StepLt P h p0 249)
    (hg : ∃ j, j < B ∧ GoodPeriod (E (p0 + 1 + j))) :
    ∀ n ∈ hon P, committedB (syncPeriods P E (p0 + 1) B (syncAdvance P (E p0) p0 h)) n = true :=
  sync_lockstep_aux hq hT hnd B (p0 + 1) _ (advance_start hq hT hnd wf hle htop hopen hav hst) hg

/-- the run stays a history the safety model accepts -/
theorem sync_lockstep_wf {P : Params} {E : Nat → Env} (hq : HQ P) (hT : HonestQuorum P) (hnd : P.nodes.Nodup) :
    ∀ (B q : Nat) (h : List Ev), PeriodStart P h q →
      AllCommitted P (syncPeriods P E q B h) ∨ PeriodStart P (syncPeriods P E q B h) (q + B) := by
  intro B
  induction B with
  | zero => intro q h hs; exact Or.inr hs
  | succ B ih =>
      intro q h hs
      show AllCommitted P (syncPeriods P E (q + 1) B (syncPeriod P (E q) q h)) ∨
        PeriodStart P (syncPeriods P E (q + 1) B (syncPeriod P (E q) q h)) (q + (B + 1))
      rcases period_step hq hT hnd hs (E q) with hc | hs'
      · exact Or.inl (hc.mono (syncPeriods_suffix P E B (q + 1) _))
      · have e : q + (B + 1) = q + 1 + B := by omega
        rw [e]; exact ih (q + 1) _ hs'

/-- non-vacuity: the prefix `pre1`, no payload in period 0, no proposal in period 1 (bad leader), a good leader in period 2 -/
def envs : Nat → Env := fun p => if p = 2 then good7 else nopayload

example : CertAvail P4 (envs 0) pre1 0 ∧ StepLt P4 pre1 0 249 ∧ (∃ n ∈ hon P4, (localOf pre1 n).period = 0) := by decide
example : GoodPeriod (envs (0 + 1 + 1)) := fun c => by
  cases c with
  | mk b pr => cases b <;> cases pr <;> simp [softValue, envs, good7]
example : ¬ AllCommitted P4 (syncPeriods P4 envs 1 1 (syncAdvance P4 (envs 0) 0 pre1)) := by decide
set_option maxRecDepth 8000 in
example : AllCommitted P4 (syncPeriods P4 envs 1 2 (syncAdvance P4 (envs 0) 0 pre1)) := by decide
set_option maxRecDepth 8000 in
example : commits P4 (syncPeriods P4 envs 1 2 (syncAdvance P4 (envs 0) 0 pre1)) = [(2, 2, 7), (1, 2, 7), (0, 2, 7)] := by decide

/-! ### the full statement (NOT proved)

`sync_period_progress_partial` and `sync_period_advance` speak about the lock-step order of `phase` (every honest node reacts to
the same history, tick by tick).  The property quantifies over EVERY bounded-delay order: nodes react one at a time, to whatever
has reached them, and a timeout of a node may only fire once everything sent before the previous timeout of any node has been
delivered to every honest node.  `Move` / `applyMove` / `BoundedDelay` make that order explicit; `sync_progress_Statement` asks
for a bound `K` (periods) that works for all parameters, all asynchronous prefixes, all such orders and all leader sequences in
which among any `B` consecutive periods one is good — the deterministic conclusion of the probabilistic leader argument
(each period's lowest credential is honest with probability ≥ the honest stake fraction, independently: VRF sortition).

Missing for a proof: (1) the probabilistic argument itself (no probability theory here; credentials are not modelled);
(2) confluence of the single-node moves towards the lock-step phases under `BoundedDelay` (the per-node reactions commute only
up to the order of `see` events); (3) the re-broadcast of `partitionPolicy` as an explicit message instead of "delivery is
total" — with it the bound is `K = B + 2` in the implementation monitor rather than `B + 1`; (4) real-time timers. -/

/-- one honest node reacts alone -/
inductive Move
  | deliver (n : Node) | cert (n : Node) | commit (n : Node)
  | filter (n : Node) | deadline (n : Node) | fast (n : Node)
  deriving DecidableEq, Repr

def Move.node : Move → Node
  | .deliver n | .cert n | .commit n | .filter n | .deadline n | .fast n => n

def Move.isTimeout : Move → Bool
  | .filter _ | .deadline _ | .fast _ => true
  | _ => false

/-- the reaction of the single node to the CURRENT history (the same reaction functions as in the lock-step phases) -/
def applyMove (P : Params) (E : Nat → Env) (h : List Ev) (m : Move) : List Ev :=
  let n := m.node
  let p := (localOf h n).period
  if P.honest n = false ∨ committedB h n = true then h else
  (match m with
   | .deliver _ => deliverOf P h (topPeriod P h) n
   | .cert _ => certOf P (E p) h p n
   | .commit _ => commitOf P (E p) h p n
   | .filter _ => softOf (E p) h p n
   | .deadline _ => nextOf P (E p) h p n
   | .fast _ => fastOf P (E p) h p n).reverse ++ h

def runMoves (P : Params) (E : Nat → Env) : List Move → List Ev → List Ev
  | [], h => h
  | m :: ms, h => runMoves P E ms (applyMove P E h m)

/-- bounded delay: after a timeout move, no timeout move of any node happens before every honest node has made a `deliver`,
a `cert` and a `commit` move (everything sent up to a timeout reaches everybody before the next timeout) -/
def BoundedDelay (P : Params) : List Move → Prop
  | [] => True
  | m :: ms =>
      BoundedDelay P ms ∧
      (m.isTimeout = true →
        ∀ pre post t, ms = pre ++ t :: post → t.isTimeout = true → (∀ x ∈ pre, x.isTimeout = false) →
          ∀ n ∈ hon P, Move.deliver n ∈ pre ∧ Move.cert n ∈ pre ∧ Move.commit n ∈ pre)

/-- fairness: every honest node gets `k` timeouts of every kind -/
def Fair (P : Params) (k : Nat) (ms : List Move) : Prop :=
  ∀ n ∈ hon P, k ≤ ms.count (.filter n) ∧ k ≤ ms.count (.deadline n) ∧ k ≤ ms.count (.fast n)

/-- **the full statement** — NOT proved (see above): there is a function `K` of the leader-quality bound `B` such that from every
well-formed prefix, under every fair bounded-delay order, every honest node commits within `K B` periods. -/
def sync_progress_Statement : Prop :=
  ∃ K : Nat → Nat, ∀ (P : Params) (E : Nat → Env) (B : Nat) (h : List Ev),
    HQ P → HonestQuorum P → P.nodes.Nodup → WF true P h → (∀ n ∈ hon P, committedB h n = false) →
    (∀ p, ∃ j, j < B ∧ GoodPeriod (E (p + j))) →
    ∀ ms : List Move, BoundedDelay P ms → Fair P (3 * K B + 3) ms →
      (∀ n ∈ hon P, committedB (runMoves P E ms h) n = true) ∧
      topPeriod P (runMoves P E ms h) ≤ topPeriod P h + K B

end Props.C05
