/-
C01 deepening, continued — the executable projection `projFull` (Props.C01Player) of a PlayerM run meets the abstract local
rules event by event, w.r.t. the history BEFORE each event (as `okEv` / `WF` demand).  Scope: a fresh node and the round `r` it
starts in (at period 0); the node's own events in `projFull P n r σ₀ es`.

* `period_track` (FULL): the fold of the projected `enter` events is the player's Period (abstract `RPeriod`, `REnterGrow`).
* `player_okVote` (FULL under the hypotheses below): every own vote satisfies ALL rules of `okVote true Pabs`
  (`RUnique`, `RPeriod`, `RBeforeNext`, `RSoftStart`, `RCertAfterNext`, `RCertStaged`, `RNextOwnCert`, `RNextVal`), each w.r.t.
  the projected history before the vote; the delivered-votes link is discharged for the projection itself (`histLink_at`:
  every vote delivered up to and including the event that triggers the vote precedes it in the projection).
* `player_okSee` (FULL): every `see` event has a next quorum before it (`RSee`).
* `player_enterGrow` (FULL): every `enter` is the node's own and to a larger period (`REnterGrow`).
* `player_votes_justified_partial`: `okEv true Pabs pre e` for every own vote, `see` and `enter` event.
Hypotheses: `EnvOK`, `PeriodsFit` (C01Player); `Pabs` fits the delivered votes (`eventFit`, executable: senders are nodes of
`Pabs` with their credential weights, no delivered vote under the node's own name; `Pabs.T` is positive and below every step
threshold).  NAMED hypotheses evaluated on the example runs (`by decide`) but not proved in general:
`prevTracksFrom` (at every own vote the abstract cache of p−1 — the fold of the projected `see` events — is what the tree has
cached) and `hcause` (`REnterCause` for the cause `causeOf` picks).  Not covered: `commit` events (see `commit_certQ`), later
rounds of the same run (votes of round r+1 can be delivered while the node is still in round r), crash events.
-/
import AlgoVerif.Props.C01Player
namespace Props.C01PlayerWF
open AlgoVerif.Model AlgoVerif.Model.Player AlgoVerif.Lemmas.Player AlgoVerif.Lemmas.PlayerAttest Props.C01Player
open AlgoVerif.Model.VoteTracker (Vote)
open AlgoVerif.Spec AlgoVerif.Lemmas.AgreementAbs

/-! ### list bookkeeping -/

theorem flatMap_split {α β : Type} (f : α → List β) : ∀ (L : List α) (U V : List β) (e : β),
    L.flatMap f = U ++ e :: V →
    ∃ L₁ x L₂ A B, L = L₁ ++ x :: L₂ ∧ f x = A ++ e :: B ∧ U = L₁.flatMap f ++ A ∧ V = B ++ L₂.flatMap f := by
  intro L
  induction L with
  | nil => intro U V e h; simp at h
  | cons a rest ih =>
    intro U V e h
    rw [List.flatMap_cons] at h
    rcases List.append_eq_append_iff.mp h with ⟨a', h1, h2⟩ | ⟨c', h1, h2⟩
    · obtain ⟨L₁, x, L₂, A, B, e1, e2, e3, e4⟩ := ih a' V e h2
      exact ⟨a :: L₁, x, L₂, A, B, by rw [e1]; rfl, e2, by rw [h1, e3, List.flatMap_cons, List.append_assoc], e4⟩
    · cases c' with
      | nil =>
        simp only [List.append_nil, List.nil_append] at h1 h2
        obtain ⟨L₁, x, L₂, A, B, e1, e2, e3, e4⟩ := ih [] V e h2.symm
        have hA : A = [] := (List.append_eq_nil_iff.mp e3.symm).2
        have hL : L₁.flatMap f = [] := (List.append_eq_nil_iff.mp e3.symm).1
        exact ⟨a :: L₁, x, L₂, A, B, by rw [e1]; rfl, e2, by rw [List.flatMap_cons, hL, hA, h1]; simp, e4⟩
      | cons c cs =>
        simp only [List.cons_append, List.cons.injEq] at h2
        obtain ⟨rfl, rfl⟩ := h2
        exact ⟨[], a, rest, U, cs, rfl, h1, by simp, rfl⟩

/-- the state a run reaches (none on a panic) -/
def after (P : Params) : State → List Player.Event → Option State
  | σ, [] => some σ
  | σ, e :: rest =>
    match Player.handle P σ e with
    | .error _ => none
    | .ok (σ', _) => after P σ' rest

theorem recs_split (P : Params) : ∀ (es : List Player.Event) (σ : State) (L₁ L₂ : List Rec) (x : Rec),
    recs P σ es = L₁ ++ x :: L₂ →
    ∃ es₁ es₂, es = es₁ ++ x.ev :: es₂ ∧ recs P σ es₁ = L₁ ∧ after P σ es₁ = some x.pre ∧
      Player.handle P x.pre x.ev = .ok (x.post, x.acts) ∧ recs P x.post es₂ = L₂ := by
  intro es
  induction es with
  | nil => intro σ L₁ L₂ x h; simp [recs] at h
  | cons e rest ih =>
    intro σ L₁ L₂ x h
    simp only [recs] at h
    split at h
    · simp at h
    rename_i σ' as hh
    cases L₁ with
    | nil =>
      simp only [List.nil_append, List.cons.injEq] at h
      obtain ⟨rfl, rfl⟩ := h
      exact ⟨[], rest, rfl, rfl, rfl, hh, rfl⟩
    | cons y ys =>
      simp only [List.cons_append, List.cons.injEq] at h
      obtain ⟨rfl, h2⟩ := h
      obtain ⟨es₁, es₂, e1, e2, e3, e4, e5⟩ := ih σ' ys L₂ x h2
      refine ⟨e :: es₁, es₂, by rw [e1]; rfl, ?_, ?_, e4, e5⟩
      · simp only [recs, hh]; rw [e2]
      · simp only [after, hh]; exact e3

theorem recs_snoc (P : Params) : ∀ (es₁ : List Player.Event) (σ τ σ' : State) (e : Player.Event) (as : List Action),
    after P σ es₁ = some τ → Player.handle P τ e = .ok (σ', as) →
    recs P σ (es₁ ++ [e]) = recs P σ es₁ ++ [⟨τ, e, σ', as⟩] := by
  intro es₁
  induction es₁ with
  | nil =>
    intro σ τ σ' e as h1 h2
    simp only [after, Option.some.injEq] at h1
    subst h1
    simp [recs, h2]
  | cons a rest ih =>
    intro σ τ σ' e as h1 h2
    simp only [after] at h1
    split at h1
    · cases h1
    rename_i σ₁ as₁ hh
    simp only [List.cons_append, recs, hh]
    rw [ih σ₁ τ σ' e as h1 h2]

theorem snaps_eq_recs (P : Params) : ∀ (es : List Player.Event) (σ : State),
    snaps P σ es = (recs P σ es).map (fun x => (x.post, atts x.acts)) := by
  intro es
  induction es with
  | nil => intro σ; rfl
  | cons e rest ih =>
    intro σ
    simp only [snaps, recs]
    cases hh : Player.handle P σ e with
    | error k => rfl
    | ok r =>
      obtain ⟨σ', as⟩ := r
      simp only [List.map_cons]
      rw [ih σ']

theorem recs_append_prefix (P : Params) : ∀ (es₁ es₂ : List Player.Event) (σ : State),
    ∃ L, recs P σ (es₁ ++ es₂) = recs P σ es₁ ++ L := by
  intro es₁
  induction es₁ with
  | nil => intro es₂ σ; exact ⟨_, rfl⟩
  | cons e rest ih =>
    intro es₂ σ
    simp only [List.cons_append, recs]
    split
    · exact ⟨[], rfl⟩
    · rename_i σ' as hh
      obtain ⟨L, hL⟩ := ih es₂ σ'
      exact ⟨L, by rw [hL]; rfl⟩

/-! ### the abstract local state along a projected history -/

/-- fold the node's local state over events given oldest first -/
def foldN (n : Nat) (s : AgreementAbs.NState) (evs : List AgreementAbs.Ev) : AgreementAbs.NState :=
  evs.foldl (fun s e => AgreementAbs.stepN n s e) s

theorem nstate_append_rev (n : Nat) : ∀ (A H : List AgreementAbs.Ev),
    AgreementAbs.nstate (A.reverse ++ H) n = foldN n (AgreementAbs.nstate H n) A := by
  intro A
  induction A with
  | nil => intro H; rfl
  | cons a rest ih =>
    intro H
    rw [List.reverse_cons, List.append_assoc]
    show AgreementAbs.nstate (rest.reverse ++ (a :: H)) n = _
    rw [ih (a :: H)]
    rfl

/-- an event that does not touch the node's period -/
def keepsPeriod (n : Nat) : AgreementAbs.Ev → Prop
  | .enter m _ _ => m ≠ n
  | .crash m => m ≠ n
  | _ => True

theorem stepN_period {n : Nat} {s : AgreementAbs.NState} {e : AgreementAbs.Ev} (h : keepsPeriod n e) :
    (AgreementAbs.stepN n s e).cur.period = s.cur.period := by
  cases e with
  | vote v => simp only [AgreementAbs.stepN]; split <;> rfl
  | see m p y => simp only [AgreementAbs.stepN]; split <;> rfl
  | enter m p c => simp only [AgreementAbs.stepN]; rw [if_neg h]
  | commit m p v => rfl
  | crash m => simp only [AgreementAbs.stepN]; rw [if_neg h]

theorem foldN_period {n : Nat} : ∀ (evs : List AgreementAbs.Ev) (s : AgreementAbs.NState),
    (∀ e ∈ evs, keepsPeriod n e) → (foldN n s evs).cur.period = s.cur.period := by
  intro evs
  induction evs with
  | nil => intro s _; rfl
  | cons e rest ih =>
    intro s h
    show (foldN n (AgreementAbs.stepN n s e) rest).cur.period = _
    rw [ih _ (fun x hx => h x (List.mem_cons_of_mem _ hx)), stepN_period (h e List.mem_cons_self)]

theorem foldN_append (n : Nat) (s : AgreementAbs.NState) (A B : List AgreementAbs.Ev) :
    foldN n s (A ++ B) = foldN n (foldN n s A) B := List.foldl_append

/-! ### the shape of the events of one record -/

theorem mem_delivOf {n r : Nat} {ev : Player.Event} {e : AgreementAbs.Ev} (h : e ∈ delivOf n r ev) :
    ∃ v, e = .vote v ∧ v.n ≠ n := by
  cases ev with
  | vote verified bad r' p s x =>
    simp only [delivOf] at h
    split at h
    · rename_i hc
      simp only [List.mem_singleton] at h
      exact ⟨_, h, hc.2.2.2.2.2⟩
    · cases h
  | bundle verified bad r' p s value votes eqs =>
    simp only [delivOf] at h
    split at h
    · obtain ⟨x, hx, rfl⟩ := List.mem_map.mp h
      exact ⟨_, rfl, by simpa using (List.mem_filter.mp hx).2⟩
    · cases h
  | pvote verified bad v taskIndex tail => cases h
  | payload verified bad pp own => cases h
  | timeout entropy => cases h
  | fastTimeout entropy => cases h
  | roundInterruption rr => cases h
  | checkpoint r1 p1 s1 err => cases h

theorem mem_seeOf {n r : Nat} {pre post : Root} {e : AgreementAbs.Ev} (h : e ∈ seeOf n r pre post) :
    ∃ q y, e = .see n q y := by
  unfold seeOf at h
  split at h
  · cases h
  · obtain ⟨kv, _, hkv⟩ := List.mem_flatMap.mp h
    simp only [List.mem_append] at hkv
    rcases hkv with hkv | hkv
    · split at hkv
      · exact ⟨_, _, List.mem_singleton.mp hkv⟩
      · cases hkv
    · split at hkv
      · exact ⟨_, _, List.mem_singleton.mp hkv⟩
      · cases hkv

theorem mem_commitOf {n r : Nat} {acts : List Action} {e : AgreementAbs.Ev} (h : e ∈ acts.flatMap (commitOf n r)) :
    ∃ p v, e = .commit n p v := by
  obtain ⟨a, _, ha⟩ := List.mem_flatMap.mp h
  cases a <;> simp only [commitOf] at ha <;> try (cases ha)
  split at ha
  · exact ⟨_, _, List.mem_singleton.mp ha⟩
  · cases ha

/-- the node's abstract period while / before it is in round `r` -/
def aper (r : Nat) (σ : State) : Nat := if σ.pl.round = r then σ.pl.period else 0

/-- the events of a record up to (excluding) its own votes -/
def headOf (n r : Nat) (x : Rec) : List AgreementAbs.Ev :=
  delivOf n r x.ev ++ seeOf n r x.pre.root x.post.root ++ enterOf n r x.pre x.post

def ownOf (n r : Nat) (x : Rec) : List AgreementAbs.Ev :=
  ((atts x.acts).filter (fun b => b.r == r)).map (fun b => .vote (absVote n b))

theorem evsOf_eq (n r : Nat) (x : Rec) : evsOf n r x = headOf n r x ++ ownOf n r x ++ x.acts.flatMap (commitOf n r) := rfl

theorem headOf_period (n r : Nat) (x : Rec) (s : AgreementAbs.NState) :
    (foldN n s (headOf n r x)).cur.period =
      if x.post.pl.round = r ∧ x.post.pl.period ≠ aper r x.pre then x.post.pl.period else s.cur.period := by
  unfold headOf
  rw [foldN_append, foldN_append]
  have h1 : (foldN n (foldN n s (delivOf n r x.ev)) (seeOf n r x.pre.root x.post.root)).cur.period = s.cur.period := by
    rw [foldN_period _ _ (fun e he => by obtain ⟨q, y, rfl⟩ := mem_seeOf he; trivial),
      foldN_period _ _ (fun e he => by obtain ⟨v, rfl, _⟩ := mem_delivOf he; trivial)]
  by_cases hc : x.post.pl.round = r ∧ x.post.pl.period ≠ aper r x.pre
  · have he : enterOf n r x.pre x.post = [.enter n x.post.pl.period (causeOf x.post.root r x.post.pl.period)] := by
      unfold enterOf; unfold aper at hc; simp only []; rw [if_pos hc]
    rw [he, if_pos hc]
    simp [foldN, AgreementAbs.stepN]
  · have he : enterOf n r x.pre x.post = [] := by
      unfold enterOf; unfold aper at hc; simp only []; rw [if_neg hc]
    rw [he, if_neg hc]
    exact h1

theorem tail_period (n r : Nat) (x : Rec) (s : AgreementAbs.NState) :
    (foldN n s (ownOf n r x ++ x.acts.flatMap (commitOf n r))).cur.period = s.cur.period := by
  apply foldN_period
  intro e he
  rcases List.mem_append.mp he with he | he
  · unfold ownOf at he
    obtain ⟨b, _, rfl⟩ := List.mem_map.mp he
    trivial
  · obtain ⟨p, v, rfl⟩ := mem_commitOf he
    trivial

theorem evsOf_period (n r : Nat) (x : Rec) (s : AgreementAbs.NState) :
    (foldN n s (evsOf n r x)).cur.period =
      if x.post.pl.round = r ∧ x.post.pl.period ≠ aper r x.pre then x.post.pl.period else s.cur.period := by
  rw [evsOf_eq, List.append_assoc, foldN_append, tail_period, headOf_period]

/-! ### period tracking -/

theorem lex_round {a : PlayerF} {σ' : State} (h : LexLe a σ'.pl) : a.round ≤ σ'.pl.round := by
  rcases h with h | ⟨h, _⟩ <;> omega

/-- the history before a record: the node's abstract period is the player's Period (while the player is in round `r`) -/
theorem period_track (P : Params) (good : Nat → Nat → Nat → Vote → Bool) (hg : GoodSpec good) (n r : Nat) :
    ∀ (es : List Player.Event) (σ : State) (H : List AgreementAbs.Ev), NodeInv P good σ → RunOK P good σ es → RunOKA P σ es →
    r ≤ σ.pl.round → (σ.pl.round = r → (AgreementAbs.nstate H n).cur.period = σ.pl.period) →
    ∀ L₁ x L₂, recs P σ es = L₁ ++ x :: L₂ →
      r ≤ x.pre.pl.round ∧ (x.pre.pl.round = r →
        (AgreementAbs.nstate ((L₁.flatMap (evsOf n r)).reverse ++ H) n).cur.period = x.pre.pl.period) := by
  intro es
  induction es with
  | nil => intro σ H _ _ _ _ _ L₁ x L₂ h; simp [recs] at h
  | cons e rest ih =>
    intro σ H hI hr hra hle hper L₁ x L₂ h
    simp only [recs] at h
    split at h
    · simp at h
    rename_i σ' as hh
    cases L₁ with
    | nil =>
      simp only [List.nil_append, List.cons.injEq] at h
      obtain ⟨rfl, _⟩ := h
      exact ⟨hle, hper⟩
    | cons y ys =>
      simp only [List.cons_append, List.cons.injEq] at h
      obtain ⟨rfl, h2⟩ := h
      obtain ⟨hI', hst⟩ := handle_inv P good hg hI hr.1 hra.1 hh
      have hle' : r ≤ σ'.pl.round := Nat.le_trans hle (lex_round hst.lex)
      have hper' : σ'.pl.round = r →
          (AgreementAbs.nstate ((evsOf n r ⟨σ, e, σ', as⟩).reverse ++ H) n).cur.period = σ'.pl.period := by
        intro hr'
        rw [nstate_append_rev, evsOf_period]
        have hσ : σ.pl.round = r := by have := lex_round hst.lex; omega
        simp only [aper, hσ, if_true, hr', true_and]
        split
        · rfl
        · rename_i hne
          rw [hper hσ]
          exact (Decidable.not_not.mp hne).symm
      have := ih σ' _ hI' (hr.2 _ _ hh) (hra.2 _ _ hh) hle' hper' ys x L₂ h2
      rw [List.flatMap_cons, List.reverse_append, List.append_assoc]
      exact this

/-! ### prefixes of a run -/

theorem snaps_prefix (P : Params) (σ : State) (es₁ es₂ : List Player.Event) :
    ∃ L, snaps P σ (es₁ ++ es₂) = snaps P σ es₁ ++ L := by
  obtain ⟨L, hL⟩ := recs_append_prefix P es₁ es₂ σ
  exact ⟨L.map (fun x => (x.post, atts x.acts)), by rw [snaps_eq_recs, snaps_eq_recs, hL, List.map_append]⟩

theorem envOK_prefix {P : Params} {good : Nat → Nat → Nat → Vote → Bool} {σ : State} {es₁ es₂ : List Player.Event}
    (h : EnvOK P good σ (es₁ ++ es₂)) : EnvOK P good σ es₁ := by
  obtain ⟨L, hL⟩ := snaps_prefix P σ es₁ es₂
  refine ⟨runOK_prefix P good es₁ es₂ σ h.run, runOKA_prefix P es₁ es₂ σ h.runA, ?_, ?_, ?_⟩
  · intro x hx; exact h.noOverflow x (by rw [hL]; exact List.mem_append_left _ hx)
  · have := h.staged; unfold StagedStable at this ⊢; rw [hL] at this; exact (List.pairwise_append.mp this).1
  · have := h.cached; unfold CachedStable at this ⊢; rw [hL] at this; exact (List.pairwise_append.mp this).1

theorem periodsFit_prefix {P : Params} {σ : State} {es₁ es₂ : List Player.Event}
    (h : PeriodsFit (snaps P σ (es₁ ++ es₂))) : PeriodsFit (snaps P σ es₁) := by
  obtain ⟨L, hL⟩ := snaps_prefix P σ es₁ es₂
  intro x hx; exact h x (by rw [hL]; exact List.mem_append_left _ hx)

theorem goodIn_mono {base : Nat → Nat → Nat → Vote → Bool} {es₁ es₂ : List Player.Event} {r p s : Nat} {a : Vote}
    (h : goodIn base es₁ r p s a = true) : goodIn base (es₁ ++ es₂) r p s a = true := by
  simp only [goodIn, Bool.and_eq_true, List.any_eq_true] at h ⊢
  obtain ⟨h1, e, he, hd⟩ := h
  exact ⟨h1, e, List.mem_append_left _ he, hd⟩

theorem recs_ev_of_after (P : Params) : ∀ (es : List Player.Event) (σ τ : State), after P σ es = some τ →
    (recs P σ es).map (·.ev) = es := by
  intro es
  induction es with
  | nil => intro _ _ _; rfl
  | cons e rest ih =>
    intro σ τ h
    simp only [after] at h
    split at h
    · cases h
    rename_i σ' as hh
    simp only [recs, hh, List.map_cons]
    rw [ih σ' τ h]

theorem deliv_mem {n r p s : Nat} {a : Vote} {e : Player.Event} (hd : isDelivery r p s a e = true) (hn : a.sender ≠ n) :
    AgreementAbs.Ev.vote ⟨a.sender, p, absStep s, absVal a.value⟩ ∈ delivOf n r e := by
  cases e with
  | vote verified bad r' p' s' x' =>
    simp only [isDelivery, Bool.and_eq_true, bne_iff_ne, ne_eq, beq_iff_eq, decide_eq_true_eq] at hd
    obtain ⟨⟨⟨⟨⟨⟨⟨d1, d2⟩, d3⟩, d4⟩, d5⟩, d6⟩, d7⟩, d8⟩ := hd
    subst d5; subst d6; subst d7; subst d8
    simp only [delivOf]
    rw [if_pos ⟨d1, d2, d3, d4, trivial, hn⟩]
    exact List.mem_singleton.mpr rfl
  | bundle verified bad r' p' s' value votes eqs =>
    simp only [isDelivery, Bool.and_eq_true, bne_iff_ne, ne_eq, beq_iff_eq, List.any_eq_true, decide_eq_true_eq] at hd
    obtain ⟨⟨⟨⟨⟨⟨⟨d1, d2⟩, d3⟩, d4⟩, d5⟩, d6⟩, d7⟩, x', hx', rfl⟩ := hd
    subst d5; subst d6; subst d7
    simp only [delivOf]
    rw [if_pos ⟨d1, d2, d3, d4, trivial⟩]
    exact List.mem_map.mpr ⟨x', List.mem_filter.mpr ⟨hx', by simpa using hn⟩, rfl⟩
  | pvote verified bad v taskIndex tail => simp [isDelivery] at hd
  | payload verified bad pp own => simp [isDelivery] at hd
  | timeout entropy => simp [isDelivery] at hd
  | fastTimeout entropy => simp [isDelivery] at hd
  | roundInterruption rr => simp [isDelivery] at hd
  | checkpoint r1 p1 s1 err => simp [isDelivery] at hd

theorem allAtts_recs (P : Params) (σ : State) (es : List Player.Event) :
    allAtts P σ es = (recs P σ es).flatMap (fun x => atts x.acts) := by
  unfold allAtts
  rw [snaps_eq_recs, List.flatMap_map]

theorem split_unique {α : Type} {X Z A B : List α} {e : α} (h : X ++ e :: Z = A ++ e :: B) (hX : e ∉ X) (hZ : e ∉ Z) :
    A = X ∧ B = Z := by
  rcases List.append_eq_append_iff.mp h with ⟨a', h1, h2⟩ | ⟨c', h1, h2⟩
  · cases a' with
    | nil => simp at h1 h2; exact ⟨h1, h2.symm⟩
    | cons c cs =>
      simp only [List.cons_append, List.cons.injEq] at h2
      exfalso; apply hZ; rw [h2.2]; simp
  · cases c' with
    | nil => simp at h1 h2; exact ⟨h1.symm, h2⟩
    | cons c cs =>
      simp only [List.cons_append, List.cons.injEq] at h2
      exfalso; apply hX; rw [h1, ← h2.1]; simp

/-! ### own votes: position in a record, order rules -/

theorem mem_enterOf {n r : Nat} {pre post : State} {e : AgreementAbs.Ev} (h : e ∈ enterOf n r pre post) :
    ∃ p c, e = .enter n p c := by
  by_cases hc : post.pl.round = r ∧ post.pl.period ≠ aper r pre
  · have he : enterOf n r pre post = [.enter n post.pl.period (causeOf post.root r post.pl.period)] := by
      unfold enterOf; unfold aper at hc; simp only []; rw [if_pos hc]
    rw [he] at h
    exact ⟨_, _, List.mem_singleton.mp h⟩
  · have he : enterOf n r pre post = [] := by
      unfold enterOf; unfold aper at hc; simp only []; rw [if_neg hc]
    rw [he] at h; cases h

theorem vote_not_in_head {n r : Nat} {x : Rec} {v : AgreementAbs.Vote} (hv : v.n = n) :
    AgreementAbs.Ev.vote v ∉ headOf n r x := by
  intro h
  unfold headOf at h
  rcases List.mem_append.mp h with h | h
  · rcases List.mem_append.mp h with h | h
    · obtain ⟨w, hw, hne⟩ := mem_delivOf h
      cases hw; exact hne hv
    · obtain ⟨q, y, hq⟩ := mem_seeOf h; cases hq
  · obtain ⟨p, c, hq⟩ := mem_enterOf h; cases hq

theorem vote_not_in_commits {n r : Nat} {acts : List Action} {v : AgreementAbs.Vote} :
    AgreementAbs.Ev.vote v ∉ acts.flatMap (commitOf n r) := by
  intro h
  obtain ⟨p, w, hq⟩ := mem_commitOf h; cases hq

theorem own_position {n r : Nat} {x : Rec} {A B : List AgreementAbs.Ev} {v : AgreementAbs.Vote}
    (hx : evsOf n r x = A ++ .vote v :: B) (hv : v.n = n) (hatt : atts x.acts = [] ∨ ∃ b, atts x.acts = [b]) :
    ∃ b, atts x.acts = [b] ∧ b.r = r ∧ v = absVote n b ∧ A = headOf n r x ∧ B = x.acts.flatMap (commitOf n r) := by
  rw [evsOf_eq] at hx
  have hmem : AgreementAbs.Ev.vote v ∈ headOf n r x ++ ownOf n r x ++ x.acts.flatMap (commitOf n r) := by
    rw [hx]; simp
  have hown : AgreementAbs.Ev.vote v ∈ ownOf n r x := by
    rcases List.mem_append.mp hmem with h | h
    · rcases List.mem_append.mp h with h | h
      · exact absurd h (vote_not_in_head hv)
      · exact h
    · exact absurd h vote_not_in_commits
  rcases hatt with h0 | ⟨b, hb⟩
  · unfold ownOf at hown; rw [h0] at hown; cases hown
  · unfold ownOf at hown hx
    rw [hb] at hown hx
    simp only [List.filter_cons, List.filter_nil] at hown hx
    split at hown
    · rename_i hbr
      simp only [List.map_cons, List.map_nil, List.mem_singleton] at hown
      have hve : v = absVote n b := by cases hown; rfl
      subst hve
      rw [if_pos hbr] at hx
      simp only [List.map_cons, List.map_nil, List.append_assoc, List.singleton_append] at hx
      obtain ⟨e1, e2⟩ := split_unique hx (vote_not_in_head hv) vote_not_in_commits
      exact ⟨b, hb, by simpa using hbr, rfl, e1, e2⟩
    · cases hown

/-- the order rules for an own vote, from the pairwise facts about the attests before it -/
theorem order_rules (Pabs : AgreementAbs.Params) {n : Nat} {pre : List AgreementAbs.Ev} {b : Attest} (hb1 : 1 ≤ b.s)
    (hown : ∀ v' ∈ AgreementAbs.votes pre, v'.n = n → ∃ b' : Attest, absVote n b' = v' ∧ 1 ≤ b'.s ∧ b'.r = b.r ∧
      OrdA b' b ∧ NacA b' b ∧ (b'.p = b.p → b'.s = b.s → b'.v = b.v)) :
    AgreementAbs.RUnique true Pabs pre (absVote n b) ∧
    (b.s = 1 → AgreementAbs.RBeforeNext pre (absVote n b)) ∧
    (b.s = 2 → AgreementAbs.RCertAfterNext pre (absVote n b)) ∧
    (3 ≤ b.s → AgreementAbs.RNextOwnCert true Pabs pre (absVote n b)) := by
  refine ⟨Or.inl ?_, ?_, ?_, ?_⟩
  · intro v' hv' hn hp hs
    obtain ⟨b', rfl, hb1', hr, _, _, hu⟩ := hown v' hv' hn
    show absVal b'.v = absVal b.v
    rw [hu hp (absStep_inj hb1' hb1 hs)]
  · intro hs1 v' hv' hn hp
    obtain ⟨b', rfl, hb1', hr, ho, _, _⟩ := hown v' hv' hn
    cases hnx : (absStep b'.s).isNext with
    | false => exact hnx
    | true =>
      have h12 := (absStep_isNext b'.s).mp hnx
      exact absurd hs1 (ho hr hp (by omega)).1
  · intro hs2 v' hv' hn hp hnx
    obtain ⟨b', rfl, hb1', hr, ho, _, _⟩ := hown v' hv' hn
    have h12 := (absStep_isNext b'.s).mp hnx
    show absVal b'.v = absVal b.v
    rw [(ho hr hp (by omega)).2 hs2]
  · intro hs3
    refine Or.inl ?_
    intro v' hv' hn hp hc
    obtain ⟨b', rfl, hb1', hr, _, hnac, _⟩ := hown v' hv' hn
    have hb2 : b'.s = 2 := (absStep_cert b'.s).mp hc
    show absVal b'.v = absVal b.v
    rw [hnac hr hp hb2 hs3]

/-! ### `PrevLink` along the projection, in executable form -/

def prevLinkB (L : AgreementAbs.Local) (root : Root) (r p : Nat) : Bool :=
  match viewAt root r (predPeriod p) with
  | some vw => decide (L.prev p = absCache vw.cached)
  | none => true

theorem prevLinkB_sound {L : AgreementAbs.Local} {root : Root} {r p : Nat} (h : prevLinkB L root r p = true) :
    PrevLink L root r p := by
  intro ns ⟨vw, hv, hc⟩
  unfold prevLinkB at h
  rw [hv] at h
  simp only [decide_eq_true_eq] at h
  rw [h, hc]

/-- at every own vote of the projection, the node's abstract cache of the previous period is what the tree has cached -/
def prevTracksFrom (n r : Nat) : List AgreementAbs.Ev → List Rec → Bool
  | _, [] => true
  | H, x :: rest =>
    ((atts x.acts).filter (fun b => b.r == r)).all
        (fun b => prevLinkB (AgreementAbs.localOf ((headOf n r x).reverse ++ H) n) x.post.root r b.p) &&
      prevTracksFrom n r ((evsOf n r x).reverse ++ H) rest

theorem prevTracks_split (n r : Nat) : ∀ (L₁ : List Rec) (H : List AgreementAbs.Ev) (x : Rec) (L₂ : List Rec) (b : Attest),
    prevTracksFrom n r H (L₁ ++ x :: L₂) = true → b ∈ atts x.acts → b.r = r →
    PrevLink (AgreementAbs.localOf ((headOf n r x).reverse ++ ((L₁.flatMap (evsOf n r)).reverse ++ H)) n) x.post.root r b.p := by
  intro L₁
  induction L₁ with
  | nil =>
    intro H x L₂ b h hb hr
    simp only [List.nil_append, prevTracksFrom, Bool.and_eq_true, List.all_eq_true] at h
    exact prevLinkB_sound (h.1 b (List.mem_filter.mpr ⟨hb, by simpa using hr⟩))
  | cons y ys ih =>
    intro H x L₂ b h hb hr
    simp only [List.cons_append, prevTracksFrom, Bool.and_eq_true] at h
    have := ih _ x L₂ b h.2 hb hr
    rw [List.flatMap_cons, List.reverse_append, List.append_assoc]
    exact this

/-! ### own votes of the projection satisfy `okVote` -/

theorem after_inv (P : Params) (good : Nat → Nat → Nat → Vote → Bool) (hg : GoodSpec good) :
    ∀ (es rest : List Player.Event) (σ τ : State), after P σ es = some τ → NodeInv P good σ →
    RunOK P good σ (es ++ rest) → RunOKA P σ (es ++ rest) → NodeInv P good τ ∧ RunOK P good τ rest ∧ RunOKA P τ rest := by
  intro es
  induction es with
  | nil =>
    intro rest σ τ h hI hr hra
    simp only [after, Option.some.injEq] at h
    subst h
    exact ⟨hI, hr, hra⟩
  | cons e es' ih =>
    intro rest σ τ h hI hr hra
    simp only [after] at h
    split at h
    · cases h
    rename_i σ' as hh
    exact ih rest σ' τ h (handle_inv P good hg hI hr.1 hra.1 hh).1 (hr.2 _ _ hh) (hra.2 _ _ hh)

/-- **player_okVote.**  Every vote event of node `n` in `projFull` satisfies all rules of `okVote true Pabs` w.r.t. the history
before it.  Scope: a fresh node, the round `r` it starts in (at period 0).  Hypotheses: `EnvOK`, `PeriodsFit`; `Pabs` fits the
delivered votes (`hthr`, `hnodes`: nodes, weights, one threshold below every step threshold, no delivered vote under the
node's own name); `hprev`: at every own vote the abstract cache of the previous period is what the tree has cached
(`prevTracksFrom`, executable — NOT proved in general, see the end of the file). -/
theorem player_okVote (P : Params) (base : Nat → Nat → Nat → Vote → Bool) (hg : GoodSpec base) (σ₀ : State) (h0 : Fresh σ₀)
    (es : List Player.Event) (henv : EnvOK P base σ₀ es) (hpf : PeriodsFit (snaps P σ₀ es))
    (Pabs : AgreementAbs.Params) (n r : Nat) (hr0 : σ₀.pl.round = r) (hp0 : σ₀.pl.period = 0)
    (hthr : ∀ s, s ≠ 0 → Pabs.T ≤ stepT P s)
    (hnodes : ∀ p s a, goodIn base es r p s a = true →
      a.sender ∈ Pabs.nodes ∧ Pabs.w a.sender = a.weight ∧ a.sender ≠ n)
    (hprev : prevTracksFrom n r [] (recs P σ₀ es) = true) :
    ∀ post pre v, projFull P n r σ₀ es = post ++ AgreementAbs.Ev.vote v :: pre → v.n = n →
      AgreementAbs.okVote true Pabs pre v := by
  intro post pre v hsplit hvn
  have hI := fresh_inv P base h0
  have hIN := fresh_invN P base h0
  have hfl : (recs P σ₀ es).flatMap (evsOf n r) = pre.reverse ++ AgreementAbs.Ev.vote v :: post.reverse := by
    have := congrArg List.reverse hsplit
    unfold projFull at this
    simpa [List.reverse_append] using this
  obtain ⟨L₁, x, L₂, A, B, hrecs, hx, hpre, _⟩ := flatMap_split _ _ _ _ _ hfl
  obtain ⟨es₁, es₂, hes, hL₁, haft, hh, _⟩ := recs_split P es σ₀ L₁ L₂ x hrecs
  have hes' : es = (es₁ ++ [x.ev]) ++ es₂ := by rw [hes]; simp
  have henv' : EnvOK P base σ₀ (es₁ ++ [x.ev]) := envOK_prefix (hes' ▸ henv)
  have hpf' : PeriodsFit (snaps P σ₀ (es₁ ++ [x.ev])) := periodsFit_prefix (hes' ▸ hpf)
  have hrecs' : recs P σ₀ (es₁ ++ [x.ev]) = L₁ ++ [x] := by
    rw [recs_snoc P es₁ σ₀ x.pre x.post x.ev x.acts haft hh, hL₁]
  have hsn : snaps P σ₀ (es₁ ++ [x.ev]) = L₁.map (fun x => (x.post, atts x.acts)) ++ [(x.post, atts x.acts)] := by
    rw [snaps_eq_recs, hrecs', List.map_append]; rfl
  have hy : (x.post, atts x.acts) ∈ snaps P σ₀ (es₁ ++ [x.ev]) := by rw [hsn]; simp
  have hatt := attests_in_period (ptok_spec P base) ptok_set hg _ σ₀ hI henv'.run henv'.runA _ hy
  obtain ⟨b, hb, hbr, hvb, hA, _⟩ := own_position hx hvn (by
    rcases hatt with h | ⟨b, hb, _⟩
    · exact Or.inl h
    · exact Or.inr ⟨b, hb⟩)
  subst hvb
  have hpre' : pre = (headOf n r x).reverse ++ (L₁.flatMap (evsOf n r)).reverse := by
    have := congrArg List.reverse hpre
    rw [List.reverse_reverse, List.reverse_append, hA] at this
    exact this
  have hbm : b ∈ atts x.acts := by rw [hb]; simp
  obtain ⟨hbr', hbp'⟩ : b.r = x.post.pl.round ∧ b.p = x.post.pl.period := by
    rcases hatt with h | ⟨b', hb', h1, h2, _⟩
    · have h' : atts x.acts = [] := h
      rw [h'] at hbm; cases hbm
    · have hb'' : atts x.acts = [b'] := hb'
      rw [hb''] at hbm
      simp only [List.mem_singleton] at hbm
      subst hbm; exact ⟨h1, h2⟩
  -- the attests of the prefix run
  have hall : allAtts P σ₀ (es₁ ++ [x.ev]) = L₁.flatMap (fun x => atts x.acts) ++ atts x.acts := by
    rw [allAtts_recs, hrecs', List.flatMap_append]; simp
  have hbm' : b ∈ allAtts P σ₀ (es₁ ++ [x.ev]) := by rw [hall]; exact List.mem_append_right _ hbm
  have hpos := allAtts_step_pos (ptok_spec P base) ptok_set hg _ σ₀ hI henv'.run henv'.runA
  have hord := allAtts_ordered (ptok_spec P base) ptok_set hg _ σ₀ hI henv'.run henv'.runA henv'.noOverflow henv'.staged
  have hcs := Props.C01Player.comm_stable P base hg σ₀ hIN _ henv' hpf'
  have hnac := allAtts_nextAfterCert (ptok_spec P base) ptok_set hg _ σ₀ hI henv'.run henv'.runA
    (by rw [hp0]; decide) hpf' hcs
  have honce := attest_once P base hg σ₀ hI _ henv'
  rw [hall] at hord hnac
  have hordx := (List.pairwise_append.mp hord).2.2
  have hnacx := (List.pairwise_append.mp hnac).2.2
  -- own votes before this one
  have hown : ∀ v' ∈ AgreementAbs.votes pre, v'.n = n → ∃ b' : Attest, absVote n b' = v' ∧ 1 ≤ b'.s ∧ b'.r = b.r ∧
      OrdA b' b ∧ NacA b' b ∧ (b'.p = b.p → b'.s = b.s → b'.v = b.v) := by
    intro v' hv' hn'
    have hmem := (Props.C01Player.mem_votes_iff v' pre).mp hv'
    rw [hpre'] at hmem
    rcases List.mem_append.mp hmem with hm | hm
    · exact absurd (List.mem_reverse.mp hm) (vote_not_in_head hn')
    · obtain ⟨y, hyL, hye⟩ := List.mem_flatMap.mp (List.mem_reverse.mp hm)
      rw [evsOf_eq] at hye
      have hyo : AgreementAbs.Ev.vote v' ∈ ownOf n r y := by
        rcases List.mem_append.mp hye with h | h
        · rcases List.mem_append.mp h with h | h
          · exact absurd h (vote_not_in_head hn')
          · exact h
        · exact absurd h vote_not_in_commits
      unfold ownOf at hyo
      obtain ⟨b', hb'f, hb'e⟩ := List.mem_map.mp hyo
      obtain ⟨hb'm, hb'r⟩ := List.mem_filter.mp hb'f
      have hb'r' : b'.r = r := by simpa using hb'r
      have hb'all : b' ∈ L₁.flatMap (fun x => atts x.acts) := List.mem_flatMap.mpr ⟨y, hyL, hb'm⟩
      have hb'all' : b' ∈ allAtts P σ₀ (es₁ ++ [x.ev]) := by rw [hall]; exact List.mem_append_left _ hb'all
      refine ⟨b', by cases hb'e; rfl, hpos b' hb'all', hb'r'.trans hbr.symm, hordx b' hb'all b hbm, hnacx b' hb'all b hbm, ?_⟩
      intro hp hs
      exact honce b' hb'all' b hbm' (hb'r'.trans hbr.symm) hp hs
  obtain ⟨ru, rbn, rcn, rno⟩ := order_rules Pabs (hpos b hbm') hown
  -- the period
  obtain ⟨hI', hr', hra'⟩ := after_inv P base hg es₁ (x.ev :: es₂) σ₀ x.pre haft hI (hes ▸ henv.run) (hes ▸ henv.runA)
  have hst := (handle_inv P base hg hI' hr'.1 hra'.1 hh).2
  have hper : AgreementAbs.RPeriod pre (absVote n b) := by
    obtain ⟨hle, htr⟩ := period_track P base hg n r es σ₀ [] hI henv.run henv.runA (Nat.le_of_eq hr0.symm)
      (fun _ => by rw [hp0]; rfl) L₁ x L₂ hrecs
    have hpostr : x.post.pl.round = r := hbr'.symm.trans hbr
    have hprer : x.pre.pl.round = r := by have := lex_round hst.lex; omega
    show (AgreementAbs.nstate pre n).cur.period = b.p
    rw [hpre', nstate_append_rev, headOf_period, hbp']
    simp only [List.append_nil] at htr
    split
    · rfl
    · rename_i hne
      rw [htr hprer]
      have : x.post.pl.period = aper r x.pre := by
        apply Decidable.not_not.mp
        intro h'; exact hne ⟨hpostr, h'⟩
      rw [this]; unfold aper; rw [if_pos hprer]
  -- the value rules
  have hlink : HistLink P (goodIn base (es₁ ++ [x.ev])) Pabs b.r pre := by
    refine ⟨hthr, fun p s a hga => ?_⟩
    rw [hbr] at hga
    obtain ⟨h1, h2, h3⟩ := hnodes p s a (by rw [hes']; exact goodIn_mono hga)
    refine ⟨h1, h2, ?_⟩
    simp only [goodIn, Bool.and_eq_true] at hga
    obtain ⟨e, he, hd⟩ := List.any_eq_true.mp hga.2
    show (⟨a.sender, p, absStep s, absVal a.value⟩ : AgreementAbs.Vote) ∈ AgreementAbs.votes pre
    rw [Props.C01Player.mem_votes_iff, hpre']
    rcases List.mem_append.mp he with he | he
    · have hev := recs_ev_of_after P es₁ σ₀ x.pre haft
      have : e ∈ (recs P σ₀ es₁).map (·.ev) := by rw [hev]; exact he
      obtain ⟨y, hyL, hye⟩ := List.mem_map.mp this
      rw [hL₁] at hyL
      refine List.mem_append_right _ (List.mem_reverse.mpr (List.mem_flatMap.mpr ⟨y, hyL, ?_⟩))
      rw [evsOf_eq]; unfold headOf
      simp only [List.mem_append]
      exact Or.inl (Or.inl (Or.inl (Or.inl (hye ▸ deliv_mem hd h3))))
    · simp only [List.mem_singleton] at he
      subst he
      refine List.mem_append_left _ (List.mem_reverse.mpr ?_)
      unfold headOf
      simp only [List.mem_append]
      exact Or.inl (Or.inl (deliv_mem hd h3))
  have hplink : PrevLink (AgreementAbs.localOf pre n) x.post.root b.r b.p := by
    rw [hrecs] at hprev
    have := prevTracks_split n r L₁ [] x L₂ b hprev hbm hbr
    rw [List.append_nil] at this
    rw [hpre', hbr]; exact this
  obtain ⟨vs, vc, vn⟩ := vote_rules_abs P base hg σ₀ h0 _ henv'.run henv'.runA henv'.noOverflow Pabs n pre _ hy b hbm
    hlink hplink
  -- assemble
  refine ⟨ru, hper, ?_⟩
  have hb1 := hpos b hbm'
  show match absStep b.s with
    | .soft => _ | .cert => _ | .next _ => _
  by_cases h1 : b.s = 1
  · rw [(absStep_soft b.s).mpr h1]; exact ⟨rbn h1, vs h1⟩
  · by_cases h2 : b.s = 2
    · rw [(absStep_cert b.s).mpr h2]; exact ⟨rcn h2, vc h2⟩
    · have h3 : 3 ≤ b.s := by omega
      have : absStep b.s = .next (b.s - 3) := by unfold absStep; rw [if_neg h1, if_neg h2]
      rw [this]; exact ⟨rno h3, vn h3⟩

/-! ### `see` and `enter` events of the projection -/

theorem histLink_at (P : Params) (base : Nat → Nat → Nat → Vote → Bool) (σ₀ : State) (es es₁ es₂ : List Player.Event)
    (x : Rec) (L₁ : List Rec) (hes : es = es₁ ++ x.ev :: es₂) (hL₁ : recs P σ₀ es₁ = L₁) (haft : after P σ₀ es₁ = some x.pre)
    (Pabs : AgreementAbs.Params) (n r : Nat) (hthr : ∀ s, s ≠ 0 → Pabs.T ≤ stepT P s)
    (hnodes : ∀ p s a, goodIn base es r p s a = true →
      a.sender ∈ Pabs.nodes ∧ Pabs.w a.sender = a.weight ∧ a.sender ≠ n)
    (A : List AgreementAbs.Ev) (hA : ∀ e ∈ delivOf n r x.ev, e ∈ A) :
    HistLink P (goodIn base (es₁ ++ [x.ev])) Pabs r (A.reverse ++ (L₁.flatMap (evsOf n r)).reverse) := by
  have hes' : es = (es₁ ++ [x.ev]) ++ es₂ := by rw [hes]; simp
  refine ⟨hthr, fun p s a hga => ?_⟩
  obtain ⟨h1, h2, h3⟩ := hnodes p s a (by rw [hes']; exact goodIn_mono hga)
  refine ⟨h1, h2, ?_⟩
  simp only [goodIn, Bool.and_eq_true] at hga
  obtain ⟨e, he, hd⟩ := List.any_eq_true.mp hga.2
  show (⟨a.sender, p, absStep s, absVal a.value⟩ : AgreementAbs.Vote) ∈ AgreementAbs.votes _
  rw [Props.C01Player.mem_votes_iff]
  rcases List.mem_append.mp he with he | he
  · have hev := recs_ev_of_after P es₁ σ₀ x.pre haft
    have : e ∈ (recs P σ₀ es₁).map (·.ev) := by rw [hev]; exact he
    obtain ⟨y, hyL, hye⟩ := List.mem_map.mp this
    rw [hL₁] at hyL
    refine List.mem_append_right _ (List.mem_reverse.mpr (List.mem_flatMap.mpr ⟨y, hyL, ?_⟩))
    rw [evsOf_eq]; unfold headOf
    simp only [List.mem_append]
    exact Or.inl (Or.inl (Or.inl (Or.inl (hye ▸ deliv_mem hd h3))))
  · simp only [List.mem_singleton] at he
    subst he
    exact List.mem_append_left _ (List.mem_reverse.mpr (hA _ (deliv_mem hd h3)))

theorem prefix_of_notin {α : Type} {X Y A B : List α} {e : α} (h : X ++ Y = A ++ e :: B) (hX : e ∉ X) :
    ∃ A', A = X ++ A' := by
  rcases List.append_eq_append_iff.mp h with ⟨a', h1, _⟩ | ⟨c', h1, h2⟩
  · exact ⟨a', h1⟩
  · cases c' with
    | nil => exact ⟨[], by simpa using h1.symm⟩
    | cons c cs =>
      simp only [List.cons_append, List.cons.injEq] at h2
      exfalso; apply hX; rw [h1, ← h2.1]; simp

theorem mem_seeOf' {n r : Nat} {pre post : Root} {e : AgreementAbs.Ev} (h : e ∈ seeOf n r pre post) :
    ∃ q y, e = .see n q y ∧ ((y = none ∧ (cachedOf post r q).bottom = true) ∨
      (∃ v, y = some v ∧ v ≠ 0 ∧ (cachedOf post r q).proposal = v)) := by
  unfold seeOf at h
  split at h
  · cases h
  · obtain ⟨kv, _, hkv⟩ := List.mem_flatMap.mp h
    simp only [List.mem_append] at hkv
    rcases hkv with hkv | hkv
    · split at hkv
      · rename_i hc
        simp only [Bool.and_eq_true] at hc
        exact ⟨_, _, List.mem_singleton.mp hkv, Or.inl ⟨rfl, hc.2⟩⟩
      · cases hkv
    · split at hkv
      · rename_i hc
        simp only [Bool.and_eq_true, bne_iff_ne, ne_eq] at hc
        exact ⟨_, _, List.mem_singleton.mp hkv, Or.inr ⟨_, rfl, hc.2, rfl⟩⟩
      · cases hkv

theorem cachedOf_view {root : Root} {r q : Nat} (h : (cachedOf root r q).bottom = true ∨ (cachedOf root r q).proposal ≠ 0) :
    ∃ vw, viewAt root r q = some vw ∧ vw.cached = cachedOf root r q := by
  unfold cachedOf at h ⊢
  cases hv : viewAt root r q with
  | none => rw [hv] at h; rcases h with h | h <;> simp at h
  | some vw => exact ⟨vw, rfl, rfl⟩

/-- **player_okSee** (`RSee`): every `see` event of the projection is backed by a next quorum in the history before it. -/
theorem player_okSee (P : Params) (base : Nat → Nat → Nat → Vote → Bool) (hg : GoodSpec base) (σ₀ : State) (h0 : Fresh σ₀)
    (es : List Player.Event) (henv : EnvOK P base σ₀ es) (Pabs : AgreementAbs.Params) (hT : 0 < Pabs.T) (n r : Nat)
    (hthr : ∀ s, s ≠ 0 → Pabs.T ≤ stepT P s)
    (hnodes : ∀ p s a, goodIn base es r p s a = true →
      a.sender ∈ Pabs.nodes ∧ Pabs.w a.sender = a.weight ∧ a.sender ≠ n) :
    ∀ post pre m q y, projFull P n r σ₀ es = post ++ AgreementAbs.Ev.see m q y :: pre →
      AgreementAbs.RSee Pabs pre m q y := by
  intro post pre m q y hsplit
  have hfl : (recs P σ₀ es).flatMap (evsOf n r) = pre.reverse ++ AgreementAbs.Ev.see m q y :: post.reverse := by
    have := congrArg List.reverse hsplit
    unfold projFull at this
    simpa [List.reverse_append] using this
  obtain ⟨L₁, x, L₂, A, B, hrecs, hx, hpre, _⟩ := flatMap_split _ _ _ _ _ hfl
  obtain ⟨es₁, es₂, hes, hL₁, haft, hh, _⟩ := recs_split P es σ₀ L₁ L₂ x hrecs
  have hes' : es = (es₁ ++ [x.ev]) ++ es₂ := by rw [hes]; simp
  have henv' : EnvOK P base σ₀ (es₁ ++ [x.ev]) := envOK_prefix (hes' ▸ henv)
  have hrecs' : recs P σ₀ (es₁ ++ [x.ev]) = L₁ ++ [x] := by
    rw [recs_snoc P es₁ σ₀ x.pre x.post x.ev x.acts haft hh, hL₁]
  have hy : (x.post, atts x.acts) ∈ snaps P σ₀ (es₁ ++ [x.ev]) := by
    rw [snaps_eq_recs, hrecs', List.map_append]; simp
  -- the event is in the `see` part
  have hmem : AgreementAbs.Ev.see m q y ∈ evsOf n r x := by rw [hx]; simp
  have hsee : AgreementAbs.Ev.see m q y ∈ seeOf n r x.pre.root x.post.root := by
    rw [evsOf_eq] at hmem; unfold headOf at hmem
    simp only [List.mem_append] at hmem
    rcases hmem with ((h | h) | h) | h
    · rcases h with h | h
      · obtain ⟨w, hw, _⟩ := mem_delivOf h; cases hw
      · exact h
    · obtain ⟨p', c, hq⟩ := mem_enterOf h; cases hq
    · unfold ownOf at h; obtain ⟨b, _, hb⟩ := List.mem_map.mp h; cases hb
    · obtain ⟨p', w, hq⟩ := mem_commitOf h; cases hq
  obtain ⟨q', y', heq, hval⟩ := mem_seeOf' hsee
  cases heq
  have hnd : AgreementAbs.Ev.see n q y ∉ delivOf n r x.ev := by
    intro h; obtain ⟨w, hw, _⟩ := mem_delivOf h; cases hw
  have hx' : delivOf n r x.ev ++ (seeOf n r x.pre.root x.post.root ++ enterOf n r x.pre x.post ++ ownOf n r x ++
      x.acts.flatMap (commitOf n r)) = A ++ AgreementAbs.Ev.see n q y :: B := by
    rw [← hx, evsOf_eq]; unfold headOf; simp only [List.append_assoc]
  obtain ⟨A', hA'⟩ := prefix_of_notin hx' hnd
  have hpre' : pre = A.reverse ++ (L₁.flatMap (evsOf n r)).reverse := by
    have := congrArg List.reverse hpre
    rw [List.reverse_reverse, List.reverse_append] at this
    exact this
  have hlink := histLink_at P base σ₀ es es₁ es₂ x L₁ hes hL₁ haft Pabs n r hthr hnodes A
    (fun e he => by rw [hA']; exact List.mem_append_left _ he)
  rw [← hpre'] at hlink
  show AgreementAbs.nextQ Pabs pre q y
  rcases hval with ⟨rfl, hb⟩ | ⟨v, rfl, hv0, hpv⟩
  · obtain ⟨vw, hvw, hc⟩ := cachedOf_view (Or.inl hb)
    exact (cached_nextQ P base hg σ₀ h0 _ henv'.run henv'.runA Pabs hT pre _ hy r q vw hvw hlink).2 (by rw [hc]; exact hb)
  · obtain ⟨vw, hvw, hc⟩ := cachedOf_view (Or.inr (by rw [hpv]; exact hv0))
    have := (cached_nextQ P base hg σ₀ h0 _ henv'.run henv'.runA Pabs hT pre _ hy r q vw hvw hlink).1
      (by rw [hc, hpv]; exact hv0)
    rw [hc, hpv] at this
    exact this

/-- **player_enterGrow** (`REnterGrow`): every `enter` event of the projection is to a period above the abstract one. -/
theorem player_enterGrow (P : Params) (base : Nat → Nat → Nat → Vote → Bool) (hg : GoodSpec base) (σ₀ : State) (h0 : Fresh σ₀)
    (es : List Player.Event) (henv : EnvOK P base σ₀ es) (n r : Nat) (hr0 : σ₀.pl.round = r) (hp0 : σ₀.pl.period = 0) :
    ∀ post pre m p c, projFull P n r σ₀ es = post ++ AgreementAbs.Ev.enter m p c :: pre →
      m = n ∧ AgreementAbs.REnterGrow pre n p := by
  intro post pre m p c hsplit
  have hI := fresh_inv P base h0
  have hfl : (recs P σ₀ es).flatMap (evsOf n r) = pre.reverse ++ AgreementAbs.Ev.enter m p c :: post.reverse := by
    have := congrArg List.reverse hsplit
    unfold projFull at this
    simpa [List.reverse_append] using this
  obtain ⟨L₁, x, L₂, A, B, hrecs, hx, hpre, _⟩ := flatMap_split _ _ _ _ _ hfl
  obtain ⟨es₁, es₂, hes, hL₁, haft, hh, _⟩ := recs_split P es σ₀ L₁ L₂ x hrecs
  obtain ⟨hI', hr', hra'⟩ := after_inv P base hg es₁ (x.ev :: es₂) σ₀ x.pre haft hI (hes ▸ henv.run) (hes ▸ henv.runA)
  have hst := (handle_inv P base hg hI' hr'.1 hra'.1 hh).2
  -- the event is the `enter` part
  have hmem : AgreementAbs.Ev.enter m p c ∈ evsOf n r x := by rw [hx]; simp
  have hent : AgreementAbs.Ev.enter m p c ∈ enterOf n r x.pre x.post := by
    rw [evsOf_eq] at hmem; unfold headOf at hmem
    simp only [List.mem_append] at hmem
    rcases hmem with ((h | h) | h) | h
    · rcases h with h | h
      · obtain ⟨w, hw, _⟩ := mem_delivOf h; cases hw
      · obtain ⟨q', y', hq⟩ := mem_seeOf h; cases hq
    · exact h
    · unfold ownOf at h; obtain ⟨b, _, hb⟩ := List.mem_map.mp h; cases hb
    · obtain ⟨p', w, hq⟩ := mem_commitOf h; cases hq
  have hcond : x.post.pl.round = r ∧ x.post.pl.period ≠ aper r x.pre := by
    apply Decidable.byContradiction
    intro hc
    have he : enterOf n r x.pre x.post = [] := by
      unfold enterOf; unfold aper at hc; simp only []; rw [if_neg hc]
    rw [he] at hent; cases hent
  have he : enterOf n r x.pre x.post = [.enter n x.post.pl.period (causeOf x.post.root r x.post.pl.period)] := by
    unfold enterOf; have hc := hcond; unfold aper at hc; simp only []; rw [if_pos hc]
  rw [he] at hent
  simp only [List.mem_singleton] at hent
  cases hent
  refine ⟨rfl, ?_⟩
  -- everything before the `enter` in this record keeps the period
  have hnd : AgreementAbs.Ev.enter n x.post.pl.period (causeOf x.post.root r x.post.pl.period) ∉
      delivOf n r x.ev ++ seeOf n r x.pre.root x.post.root := by
    intro h
    rcases List.mem_append.mp h with h | h
    · obtain ⟨w, hw, _⟩ := mem_delivOf h; cases hw
    · obtain ⟨q', y', hq⟩ := mem_seeOf h; cases hq
  have hx' : (delivOf n r x.ev ++ seeOf n r x.pre.root x.post.root) ++
      (AgreementAbs.Ev.enter n x.post.pl.period (causeOf x.post.root r x.post.pl.period) ::
        (ownOf n r x ++ x.acts.flatMap (commitOf n r))) =
      A ++ AgreementAbs.Ev.enter n x.post.pl.period (causeOf x.post.root r x.post.pl.period) :: B := by
    rw [← hx, evsOf_eq]; unfold headOf; rw [he]; simp [List.append_assoc]
  have hnt : AgreementAbs.Ev.enter n x.post.pl.period (causeOf x.post.root r x.post.pl.period) ∉
      ownOf n r x ++ x.acts.flatMap (commitOf n r) := by
    intro h
    rcases List.mem_append.mp h with h | h
    · unfold ownOf at h; obtain ⟨b, _, hb⟩ := List.mem_map.mp h; cases hb
    · obtain ⟨p', w, hq⟩ := mem_commitOf h; cases hq
  obtain ⟨hA, _⟩ := split_unique hx' hnd hnt
  have hpre' : pre = (delivOf n r x.ev ++ seeOf n r x.pre.root x.post.root).reverse ++ (L₁.flatMap (evsOf n r)).reverse := by
    have := congrArg List.reverse hpre
    rw [List.reverse_reverse, List.reverse_append, hA] at this
    exact this
  obtain ⟨hle, htr⟩ := period_track P base hg n r es σ₀ [] hI henv.run henv.runA (Nat.le_of_eq hr0.symm)
    (fun _ => by rw [hp0]; rfl) L₁ x L₂ hrecs
  have hprer : x.pre.pl.round = r := by have := lex_round hst.lex; omega
  show (AgreementAbs.nstate pre n).cur.period < x.post.pl.period
  rw [hpre', nstate_append_rev, foldN_period _ _ (fun e he => by
    rcases List.mem_append.mp he with he | he
    · obtain ⟨w, rfl, _⟩ := mem_delivOf he; trivial
    · obtain ⟨q', y', rfl⟩ := mem_seeOf he; trivial)]
  simp only [List.append_nil] at htr
  rw [htr hprer]
  have hap : aper r x.pre = x.pre.pl.period := by unfold aper; rw [if_pos hprer]
  have hne := hcond.2
  rw [hap] at hne
  rcases hst.lex with h | ⟨_, h⟩
  · omega
  · omega

/-! ### assembled -/

/-- **player_votes_justified_partial.**  Every event of node `n` in `projFull` — own votes, `see`, `enter` — is allowed by the
abstract local rules w.r.t. the history before it (`okEv true Pabs pre e`).  Events of other nodes (delivered votes) are not
the node's to justify.  NOT covered: `commit` events (`RCommit` is `Props.C01Player.commit_certQ`, which needs the
certificate's value ≠ ⊥ — true of the code, not yet exposed by C03's `ensure_cert_valid`).  Named hypotheses that are
evaluated on the example runs but NOT proved in general: `hprev` (cache tracking at own votes) and `hcause` (the cause
`causeOf` chooses for an `enter` is justified: `REnterCause`). -/
theorem player_votes_justified_partial (P : Params) (base : Nat → Nat → Nat → Vote → Bool) (hg : GoodSpec base) (σ₀ : State)
    (h0 : Fresh σ₀) (es : List Player.Event) (henv : EnvOK P base σ₀ es) (hpf : PeriodsFit (snaps P σ₀ es))
    (Pabs : AgreementAbs.Params) (hT : 0 < Pabs.T) (n r : Nat) (hr0 : σ₀.pl.round = r) (hp0 : σ₀.pl.period = 0)
    (hthr : ∀ s, s ≠ 0 → Pabs.T ≤ stepT P s)
    (hnodes : ∀ p s a, goodIn base es r p s a = true →
      a.sender ∈ Pabs.nodes ∧ Pabs.w a.sender = a.weight ∧ a.sender ≠ n)
    (hprev : prevTracksFrom n r [] (recs P σ₀ es) = true)
    (hcause : ∀ post pre m p c, projFull P n r σ₀ es = post ++ AgreementAbs.Ev.enter m p c :: pre →
      AgreementAbs.REnterCause Pabs pre m p c) :
    ∀ post e pre, projFull P n r σ₀ es = post ++ e :: pre → (∀ m p v, e ≠ .commit m p v) →
      (∀ v, e = .vote v → v.n = n) → AgreementAbs.okEv true Pabs pre e := by
  intro post e pre hsplit hnc hown
  cases e with
  | vote v =>
    intro _
    exact player_okVote P base hg σ₀ h0 es henv hpf Pabs n r hr0 hp0 hthr hnodes hprev post pre v hsplit (hown v rfl)
  | see m q y =>
    intro _
    exact player_okSee P base hg σ₀ h0 es henv Pabs hT n r hthr hnodes post pre m q y hsplit
  | enter m p c =>
    intro _
    obtain ⟨rfl, hgrow⟩ := player_enterGrow P base hg σ₀ h0 es henv n r hr0 hp0 post pre m p c hsplit
    exact ⟨hgrow, hcause post pre m p c hsplit⟩
  | commit m p v => exact absurd rfl (hnc m p v)
  | crash m => trivial

/-! ### the hypotheses in executable form, and the example runs -/

/-- the abstract node set / weights fit the votes an event delivers for round `r`, none under the node's own name -/
def eventFit (Pabs : AgreementAbs.Params) (n r : Nat) : Player.Event → Bool
  | .vote verified bad r' _ _ x =>
    !(verified && bad != 1 && bad != 2 && bad != 3 && r' == r) ||
      (Pabs.nodes.contains x.sender && Pabs.w x.sender == x.weight && x.sender != n)
  | .bundle verified bad r' _ _ value votes eqs =>
    !(verified && bad != 1 && bad != 2 && bad != 3 && r' == r) ||
      (bundleVotes value votes eqs).all (fun x => Pabs.nodes.contains x.sender && Pabs.w x.sender == x.weight && x.sender != n)
  | _ => true

theorem eventFit_sound (Pabs : AgreementAbs.Params) (n r : Nat) (base : Nat → Nat → Nat → Vote → Bool)
    (es : List Player.Event) (h : es.all (eventFit Pabs n r) = true) :
    ∀ p s a, goodIn base es r p s a = true → a.sender ∈ Pabs.nodes ∧ Pabs.w a.sender = a.weight ∧ a.sender ≠ n := by
  intro p s a hga
  simp only [goodIn, Bool.and_eq_true] at hga
  obtain ⟨e, he, hd⟩ := List.any_eq_true.mp hga.2
  have hf := List.all_eq_true.mp h e he
  cases e with
  | vote verified bad r' p' s' x' =>
    simp only [isDelivery, Bool.and_eq_true, bne_iff_ne, ne_eq, beq_iff_eq, decide_eq_true_eq] at hd
    obtain ⟨⟨⟨⟨⟨⟨⟨d1, d2⟩, d3⟩, d4⟩, d5⟩, _⟩, _⟩, d8⟩ := hd
    subst d8
    simp only [eventFit, d1, d5, Bool.true_and, Bool.or_eq_true, Bool.not_eq_true', Bool.and_eq_true, bne_iff_ne,
      ne_eq, beq_iff_eq, beq_self_eq_true, Bool.and_true, List.contains_iff_mem] at hf
    rcases hf with hf | hf
    · simp_all
    · exact ⟨hf.1.1, hf.1.2, hf.2⟩
  | bundle verified bad r' p' s' value votes eqs =>
    simp only [isDelivery, Bool.and_eq_true, bne_iff_ne, ne_eq, beq_iff_eq, List.any_eq_true, decide_eq_true_eq] at hd
    obtain ⟨⟨⟨⟨⟨⟨⟨d1, d2⟩, d3⟩, d4⟩, d5⟩, _⟩, _⟩, x', hx', rfl⟩ := hd
    simp only [eventFit, d1, d5, Bool.true_and, Bool.or_eq_true, Bool.not_eq_true', Bool.and_eq_true, bne_iff_ne,
      ne_eq, beq_iff_eq, beq_self_eq_true, Bool.and_true, List.all_eq_true, List.contains_iff_mem] at hf
    rcases hf with hf | hf
    · simp_all
    · have := hf x' hx'
      exact ⟨this.1.1, this.1.2, this.2⟩
  | pvote verified bad v taskIndex tail => simp [isDelivery] at hd
  | payload verified bad pp own => simp [isDelivery] at hd
  | timeout entropy => simp [isDelivery] at hd
  | fastTimeout entropy => simp [isDelivery] at hd
  | roundInterruption rr => simp [isDelivery] at hd
  | checkpoint r1 p1 s1 err => simp [isDelivery] at hd

section Example
open Props.C03 (exP exGood exInit)

/-- `exPabs` with the threshold lowered to the smallest step threshold of `exP` (late = 2) -/
def exPabs2 : AgreementAbs.Params := { exPabs with T := 2 }

/-- every hypothesis of `player_okVote` holds for the run `exEvents` (two periods; soft, cert, next, late, down, next votes) and
for the former counterexample run `dropEvents`, with node 7 and `exPabs2` -/
example : (∀ s, s ≠ 0 → exPabs2.T ≤ stepT exP s) ∧ exEvents.all (eventFit exPabs2 7 5) = true ∧
    prevTracksFrom 7 5 [] (recs exP exInit exEvents) = true ∧
    dropEvents.all (eventFit exPabs2 7 5) = true ∧ prevTracksFrom 7 5 [] (recs exP exInit dropEvents) = true := by
  refine ⟨?_, by decide, by decide, by decide, by decide⟩
  intro s hs
  unfold stepT
  repeat' split
  all_goals first | omega | decide

/-- … and the abstract acceptor agrees on the complete projections -/
example : AgreementAbs.wfCheck true exPabs2 (projFull exP 7 5 exInit exEvents) = true ∧
    AgreementAbs.wfCheck true exPabs2 (projFull exP 7 5 exInit dropEvents) = true := ⟨by decide, by decide⟩

end Example

end Props.C01PlayerWF
