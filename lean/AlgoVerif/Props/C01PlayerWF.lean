/-
C01 deepening, continued — the executable projection `projFull` (Props.C01Player) of a PlayerM run meets the abstract local
rules event by event, w.r.t. the history BEFORE each event (as `okEv` / `WF` demand).  Scope: a fresh node and the round `r` it
starts in (at period 0); the node's own events in `projFull P n r σ₀ es`.

* `period_track` (FULL): the fold of the projected `enter` events is the player's Period (abstract `RPeriod`, `REnterGrow`).
* `player_okVote` (FULL under the hypotheses below): every own vote satisfies ALL rules of `okVote true Pabs`
  (`RUnique`, `RPeriod`, `RBeforeNext`, `RSoftStart`, `RCertAfterNext`, `RCertStaged`, `RNextOwnCert`, `RNextVal`), each w.r.t.
  the projected history before the vote; the delivered-votes link is discharged for the projection itself (`histLink_at`:
  every vote delivered up to and including the event that triggers the vote precedes it in the projection).
* `player_okSee` (FULL): every `see` event has a next quorum before it (`RSee`).
* `player_enterGrow` (FULL): every `enter` is the node's own and to a larger period (`REnterGrow`).
* `player_okCommit` (FULL): every `commit` event has a cert quorum before it (`RCommit`; `commitOf` projects `ensure` actions
  whose certificate value is ≠ ⊥ — a ⊥ certificate is excluded by `voteTrackerContract` but the action list does not say so).
* `player_votes_justified_partial` / `player_votes_justified`: `okEv true Pabs pre e` for every own vote, `see`, `enter` and
  `commit` event.
* `cacheStepOK_handle` (FULL): one `handle` changes the next-threshold cache of every (round, period) the routers keep by
  `cache` operations only — no reset by garbage collection (`Lemmas/PlayerAttestCache`, `PlayerAttestCacheStep.handle_c`: third
  instance of the generic frame pass; `roundRouter.update`'s `p <= 1` exception is part of `COk`).
* `prevTracks_of_steps` / `prevTracks_fresh` (FULL given `WrapEmpty`, `PeriodsFit`): the fold of the projected `see` events IS
  the concrete cache of every kept period (`TrackC`), hence `prevTracksFrom` (cache tracking at own votes) is a theorem.
* `players_wf` / `players_agree`: honest PlayerM nodes + one global history consistent with their projections
  (`Lemmas/PlayerAttestGlobal`: `Consistent`, executable `consistentB`) ⇒ `WF true Pabs h` ⇒ (`Props.C01.commit_unique`) all
  honest commits of the round carry one value.  Example: three honest PlayerM nodes and an equivocating Byzantine sender.

Hypotheses of `player_votes_justified` / `NodeRun` / `players_agree` (see `C01PlayerWF.README.md`):
  `Fresh`, round/period of the start state; `EnvOK` (`run`, `runA`: facts about the delivered events — verified votes are
  `base`-good, verified payloads are for the current round and ≠ ⊥, round interruptions go up; `noOverflow`, `staged`,
  `cached`: run-level checks on the snapshots); `PeriodsFit` and `WrapEmpty` (run-level: no uint64 wrap of Period; the tracker
  of period 2^64 − 1 that `p.Period - 1` names at period 0 is empty); `eventFit`/`nodes` (the abstract node set and weights fit
  the delivered votes; no delivered vote under the node's own name; `Pabs.T` positive and ≤ every step threshold);
  `Consistent` (per honest node, against the global history); `HQ` (quorum hypothesis, `players_agree` only).
NAMED hypothesis evaluated on the example runs (`by decide`) but NOT proved in general: `hcause` / `NodeRun.cause`
(`REnterCause` for the cause `causeOf` picks: needs the view invariant to record soft vs cert and a joint freshest↔cache
invariant).  Not covered: later rounds of the same run (votes of round r+1 can be delivered while the node is still in round
r), crash events (the global lift `okEv_agrees` assumes no crash of the node).
-/
import AlgoVerif.Props.C01Player
import AlgoVerif.Props.C01
import AlgoVerif.Lemmas.PlayerAttestGlobal
import AlgoVerif.Lemmas.PlayerAttestCacheStep
namespace Props.C01PlayerWF
open AlgoVerif.Model AlgoVerif.Model.Player AlgoVerif.Lemmas.Player AlgoVerif.Lemmas.PlayerAttest Props.C01Player
open AlgoVerif.Model.VoteTracker (Vote)
open AlgoVerif.Spec AlgoVerif.Lemmas.AgreementAbs

/-! ### list bookkeeping -/

theorem flatMap_split {α β : Type} (f : α → List β) : ∀ (L : List α) (U V : List β) (e : β),
    L.flatMap f = U ++ e :: V →
    ∃ L₁ x L₂ A B, L = L₁ ++ x :: L₂ ∧ f x = A ++ e :: B ∧ U = L₁.flatMap f ++ A ∧ V = B ++ L₂.flatMap f := by
  intro L
  induction L with
  | nil => intro U V e h; simp at h
  | cons a rest ih =>
    intro U V e h
    rw [List.flatMap_cons] at h
    rcases List.append_eq_append_iff.mp h with ⟨a', h1, h2⟩ | ⟨c', h1, h2⟩
    · obtain ⟨L₁, x, L₂, A, B, e1, e2, e3, e4⟩ := ih a' V e h2
      exact ⟨a :: L₁, x, L₂, A, B, by rw [e1]; rfl, e2, by rw [h1, e3, List.flatMap_cons, List.append_assoc], e4⟩
    · cases c' with
      | nil =>
        simp only [List.append_nil, List.nil_append] at h1 h2
        obtain ⟨L₁, x, L₂, A, B, e1, e2, e3, e4⟩ := ih [] V e h2.symm
        have hA : A = [] := (List.append_eq_nil_iff.mp e3.symm).2
        have hL : L₁.flatMap f = [] := (List.append_eq_nil_iff.mp e3.symm).1
        exact ⟨a :: L₁, x, L₂, A, B, by rw [e1]; rfl, e2, by rw [List.flatMap_cons, hL, hA, h1]; simp, e4⟩
      | cons c cs =>
        simp only [List.cons_append, List.cons.injEq] at h2
        obtain ⟨rfl, rfl⟩ := h2
        exact ⟨[], a, rest, U, cs, rfl, h1, by simp, rfl⟩

/-- the state a run reaches (none on a panic) -/
def after (P : Params) : State → List Player.Event → Option State
  | σ, [] => some σ
  | σ, e :: rest =>
    match Player.handle P σ e with
    | .error _ => none
    | .ok (σ', _) => after P σ' rest

theorem recs_split (P : Params) : ∀ (es : List Player.Event) (σ : State) (L₁ L₂ : List Rec) (x : Rec),
    recs P σ es = L₁ ++ x :: L₂ →
    ∃ es₁ es₂, es = es₁ ++ x.ev :: es₂ ∧ recs P σ es₁ = L₁ ∧ after P σ es₁ = some x.pre ∧
      Player.handle P x.pre x.ev = .ok (x.post, x.acts) ∧ recs P x.post es₂ = L₂ := by
  intro es
  induction es with
  | nil => intro σ L₁ L₂ x h; simp [recs] at h
  | cons e rest ih =>
    intro σ L₁ L₂ x h
    simp only [recs] at h
    split at h
    · simp at h
    rename_i σ' as hh
    cases L₁ with
    | nil =>
      simp only [List.nil_append, List.cons.injEq] at h
      obtain ⟨rfl, rfl⟩ := h
      exact ⟨[], rest, rfl, rfl, rfl, hh, rfl⟩
    | cons y ys =>
      simp only [List.cons_append, List.cons.injEq] at h
      obtain ⟨rfl, h2⟩ := h
      obtain ⟨es₁, es₂, e1, e2, e3, e4, e5⟩ := ih σ' ys L₂ x h2
      refine ⟨e :: es₁, es₂, by rw [e1]; rfl, ?_, ?_, e4, e5⟩
      · simp only [recs, hh]; rw [e2]
      · simp only [after, hh]; exact e3

theorem recs_snoc (P : Params) : ∀ (es₁ : List Player.Event) (σ τ σ' : State) (e : Player.Event) (as : List Action),
    after P σ es₁ = some τ → Player.handle P τ e = .ok (σ', as) →
    recs P σ (es₁ ++ [e]) = recs P σ es₁ ++ [⟨τ, e, σ', as⟩] := by
  intro es₁
  induction es₁ with
  | nil =>
    intro σ τ σ' e as h1 h2
    simp only [after, Option.some.injEq] at h1
    subst h1
    simp [recs, h2]
  | cons a rest ih =>
    intro σ τ σ' e as h1 h2
    simp only [after] at h1
    split at h1
    · cases h1
    rename_i σ₁ as₁ hh
    simp only [List.cons_append, recs, hh]
    rw [ih σ₁ τ σ' e as h1 h2]

theorem snaps_eq_recs (P : Params) : ∀ (es : List Player.Event) (σ : State),
    snaps P σ es = (recs P σ es).map (fun x => (x.post, atts x.acts)) := by
  intro es
  induction es with
  | nil => intro σ; rfl
  | cons e rest ih =>
    intro σ
    simp only [snaps, recs]
    cases hh : Player.handle P σ e with
    | error k => rfl
    | ok r =>
      obtain ⟨σ', as⟩ := r
      simp only [List.map_cons]
      rw [ih σ']

theorem recs_append_prefix (P : Params) : ∀ (es₁ es₂ : List Player.Event) (σ : State),
    ∃ L, recs P σ (es₁ ++ es₂) = recs P σ es₁ ++ L := by
  intro es₁
  induction es₁ with
  | nil => intro es₂ σ; exact ⟨_, rfl⟩
  | cons e rest ih =>
    intro es₂ σ
    simp only [List.cons_append, recs]
    split
    · exact ⟨[], rfl⟩
    · rename_i σ' as hh
      obtain ⟨L, hL⟩ := ih es₂ σ'
      exact ⟨L, by rw [hL]; rfl⟩

/-! ### the abstract local state along a projected history -/

/-- fold the node's local state over events given oldest first -/
def foldN (n : Nat) (s : AgreementAbs.NState) (evs : List AgreementAbs.Ev) : AgreementAbs.NState :=
  evs.foldl (fun s e => AgreementAbs.stepN n s e) s

theorem nstate_append_rev (n : Nat) : ∀ (A H : List AgreementAbs.Ev),
    AgreementAbs.nstate (A.reverse ++ H) n = foldN n (AgreementAbs.nstate H n) A := by
  intro A
  induction A with
  | nil => intro H; rfl
  | cons a rest ih =>
    intro H
    rw [List.reverse_cons, List.append_assoc]
    show AgreementAbs.nstate (rest.reverse ++ (a :: H)) n = _
    rw [ih (a :: H)]
    rfl

/-- an event that does not touch the node's period -/
def keepsPeriod (n : Nat) : AgreementAbs.Ev → Prop
  | .enter m _ _ => m ≠ n
  | .crash m => m ≠ n
  | _ => True

theorem stepN_period {n : Nat} {s : AgreementAbs.NState} {e : AgreementAbs.Ev} (h : keepsPeriod n e) :
    (AgreementAbs.stepN n s e).cur.period = s.cur.period := by
  cases e with
  | vote v => simp only [AgreementAbs.stepN]; split <;> rfl
  | see m p y => simp only [AgreementAbs.stepN]; split <;> rfl
  | enter m p c => simp only [AgreementAbs.stepN]; rw [if_neg h]
  | commit m p v => rfl
  | crash m => simp only [AgreementAbs.stepN]; rw [if_neg h]

theorem foldN_period {n : Nat} : ∀ (evs : List AgreementAbs.Ev) (s : AgreementAbs.NState),
    (∀ e ∈ evs, keepsPeriod n e) → (foldN n s evs).cur.period = s.cur.period := by
  intro evs
  induction evs with
  | nil => intro s _; rfl
  | cons e rest ih =>
    intro s h
    show (foldN n (AgreementAbs.stepN n s e) rest).cur.period = _
    rw [ih _ (fun x hx => h x (List.mem_cons_of_mem _ hx)), stepN_period (h e List.mem_cons_self)]

theorem foldN_append (n : Nat) (s : AgreementAbs.NState) (A B : List AgreementAbs.Ev) :
    foldN n s (A ++ B) = foldN n (foldN n s A) B := List.foldl_append

/-! ### the shape of the events of one record -/

theorem mem_delivOf {n r : Nat} {ev : Player.Event} {e : AgreementAbs.Ev} (h : e ∈ delivOf n r ev) :
    ∃ v, e = .vote v ∧ v.n ≠ n := by
  cases ev with
  | vote verified bad r' p s x =>
    simp only [delivOf] at h
    split at h
    · rename_i hc
      simp only [List.mem_singleton] at h
      exact ⟨_, h, hc.2.2.2.2.2⟩
    · cases h
  | bundle verified bad r' p s value votes eqs =>
    simp only [delivOf] at h
    split at h
    · obtain ⟨x, hx, rfl⟩ := List.mem_map.mp h
      exact ⟨_, rfl, by simpa using (List.mem_filter.mp hx).2⟩
    · cases h
  | pvote verified bad v taskIndex tail => cases h
  | payload verified bad pp own => cases h
  | timeout entropy => cases h
  | fastTimeout entropy => cases h
  | roundInterruption rr => cases h
  | checkpoint r1 p1 s1 err => cases h

theorem mem_seeOf {n r : Nat} {pre post : Root} {e : AgreementAbs.Ev} (h : e ∈ seeOf n r pre post) :
    ∃ q y, e = .see n q y := by
  unfold seeOf at h
  split at h
  · cases h
  · obtain ⟨kv, _, hkv⟩ := List.mem_flatMap.mp h
    simp only [List.mem_append] at hkv
    rcases hkv with hkv | hkv
    · split at hkv
      · exact ⟨_, _, List.mem_singleton.mp hkv⟩
      · cases hkv
    · split at hkv
      · exact ⟨_, _, List.mem_singleton.mp hkv⟩
      · cases hkv

theorem mem_commitOf {n r : Nat} {acts : List Action} {e : AgreementAbs.Ev} (h : e ∈ acts.flatMap (commitOf n r)) :
    ∃ p v, e = .commit n p v := by
  obtain ⟨a, _, ha⟩ := List.mem_flatMap.mp h
  cases a <;> simp only [commitOf] at ha <;> try (cases ha)
  split at ha
  · exact ⟨_, _, List.mem_singleton.mp ha⟩
  · cases ha

/-- the node's abstract period while / before it is in round `r` -/
def aper (r : Nat) (σ : State) : Nat := if σ.pl.round = r then σ.pl.period else 0

/-- the events of a record up to (excluding) its own votes -/
def headOf (n r : Nat) (x : Rec) : List AgreementAbs.Ev :=
  delivOf n r x.ev ++ seeOf n r x.pre.root x.post.root ++ enterOf n r x.pre x.post

def ownOf (n r : Nat) (x : Rec) : List AgreementAbs.Ev :=
  ((atts x.acts).filter (fun b => b.r == r)).map (fun b => .vote (absVote n b))

theorem evsOf_eq (n r : Nat) (x : Rec) : evsOf n r x = headOf n r x ++ ownOf n r x ++ x.acts.flatMap (commitOf n r) := rfl

theorem headOf_period (n r : Nat) (x : Rec) (s : AgreementAbs.NState) :
    (foldN n s (headOf n r x)).cur.period =
      if x.post.pl.round = r ∧ x.post.pl.period ≠ aper r x.pre then x.post.pl.period else s.cur.period := by
  unfold headOf
  rw [foldN_append, foldN_append]
  have h1 : (foldN n (foldN n s (delivOf n r x.ev)) (seeOf n r x.pre.root x.post.root)).cur.period = s.cur.period := by
    rw [foldN_period _ _ (fun e he => by obtain ⟨q, y, rfl⟩ := mem_seeOf he; trivial),
      foldN_period _ _ (fun e he => by obtain ⟨v, rfl, _⟩ := mem_delivOf he; trivial)]
  by_cases hc : x.post.pl.round = r ∧ x.post.pl.period ≠ aper r x.pre
  · have he : enterOf n r x.pre x.post = [.enter n x.post.pl.period (causeOf x.post.root r x.post.pl.period)] := by
      unfold enterOf; unfold aper at hc; simp only []; rw [if_pos hc]
    rw [he, if_pos hc]
    simp [foldN, AgreementAbs.stepN]
  · have he : enterOf n r x.pre x.post = [] := by
      unfold enterOf; unfold aper at hc; simp only []; rw [if_neg hc]
    rw [he, if_neg hc]
    exact h1

theorem tail_period (n r : Nat) (x : Rec) (s : AgreementAbs.NState) :
    (foldN n s (ownOf n r x ++ x.acts.flatMap (commitOf n r))).cur.period = s.cur.period := by
  apply foldN_period
  intro e he
  rcases List.mem_append.mp he with he | he
  · unfold ownOf at he
    obtain ⟨b, _, rfl⟩ := List.mem_map.mp he
    trivial
  · obtain ⟨p, v, rfl⟩ := mem_commitOf he
    trivial

theorem evsOf_period (n r : Nat) (x : Rec) (s : AgreementAbs.NState) :
    (foldN n s (evsOf n r x)).cur.period =
      if x.post.pl.round = r ∧ x.post.pl.period ≠ aper r x.pre then x.post.pl.period else s.cur.period := by
  rw [evsOf_eq, List.append_assoc, foldN_append, tail_period, headOf_period]

/-! ### period tracking -/

theorem lex_round {a : PlayerF} {σ' : State} (h : LexLe a σ'.pl) : a.round ≤ σ'.pl.round := by
  rcases h with h | ⟨h, _⟩ <;> omega

/-- the history before a record: the node's abstract period is the player's Period (while the player is in round `r`) -/
theorem period_track (P : Params) (good : Nat → Nat → Nat → Vote → Bool) (hg : GoodSpec good) (n r : Nat) :
    ∀ (es : List Player.Event) (σ : State) (H : List AgreementAbs.Ev), NodeInv P good σ → RunOK P good σ es → RunOKA P σ es →
    r ≤ σ.pl.round → (σ.pl.round = r → (AgreementAbs.nstate H n).cur.period = σ.pl.period) →
    ∀ L₁ x L₂, recs P σ es = L₁ ++ x :: L₂ →
      r ≤ x.pre.pl.round ∧ (x.pre.pl.round = r →
        (AgreementAbs.nstate ((L₁.flatMap (evsOf n r)).reverse ++ H) n).cur.period = x.pre.pl.period) := by
  intro es
  induction es with
  | nil => intro σ H _ _ _ _ _ L₁ x L₂ h; simp [recs] at h
  | cons e rest ih =>
    intro σ H hI hr hra hle hper L₁ x L₂ h
    simp only [recs] at h
    split at h
    · simp at h
    rename_i σ' as hh
    cases L₁ with
    | nil =>
      simp only [List.nil_append, List.cons.injEq] at h
      obtain ⟨rfl, _⟩ := h
      exact ⟨hle, hper⟩
    | cons y ys =>
      simp only [List.cons_append, List.cons.injEq] at h
      obtain ⟨rfl, h2⟩ := h
      obtain ⟨hI', hst⟩ := handle_inv P good hg hI hr.1 hra.1 hh
      have hle' : r ≤ σ'.pl.round := Nat.le_trans hle (lex_round hst.lex)
      have hper' : σ'.pl.round = r →
          (AgreementAbs.nstate ((evsOf n r ⟨σ, e, σ', as⟩).reverse ++ H) n).cur.period = σ'.pl.period := by
        intro hr'
        rw [nstate_append_rev, evsOf_period]
        have hσ : σ.pl.round = r := by have := lex_round hst.lex; omega
        simp only [aper, hσ, if_true, hr', true_and]
        split
        · rfl
        · rename_i hne
          rw [hper hσ]
          exact (Decidable.not_not.mp hne).symm
      have := ih σ' _ hI' (hr.2 _ _ hh) (hra.2 _ _ hh) hle' hper' ys x L₂ h2
      rw [List.flatMap_cons, List.reverse_append, List.append_assoc]
      exact this

/-! ### prefixes of a run -/

theorem snaps_prefix (P : Params) (σ : State) (es₁ es₂ : List Player.Event) :
    ∃ L, snaps P σ (es₁ ++ es₂) = snaps P σ es₁ ++ L := by
  obtain ⟨L, hL⟩ := recs_append_prefix P es₁ es₂ σ
  exact ⟨L.map (fun x => (x.post, atts x.acts)), by rw [snaps_eq_recs, snaps_eq_recs, hL, List.map_append]⟩

theorem envOK_prefix {P : Params} {good : Nat → Nat → Nat → Vote → Bool} {σ : State} {es₁ es₂ : List Player.Event}
    (h : EnvOK P good σ (es₁ ++ es₂)) : EnvOK P good σ es₁ := by
  obtain ⟨L, hL⟩ := snaps_prefix P σ es₁ es₂
  refine ⟨runOK_prefix P good es₁ es₂ σ h.run, runOKA_prefix P es₁ es₂ σ h.runA, ?_, ?_, ?_⟩
  · intro x hx; exact h.noOverflow x (by rw [hL]; exact List.mem_append_left _ hx)
  · have := h.staged; unfold StagedStable at this ⊢; rw [hL] at this; exact (List.pairwise_append.mp this).1
  · have := h.cached; unfold CachedStable at this ⊢; rw [hL] at this; exact (List.pairwise_append.mp this).1

theorem periodsFit_prefix {P : Params} {σ : State} {es₁ es₂ : List Player.Event}
    (h : PeriodsFit (snaps P σ (es₁ ++ es₂))) : PeriodsFit (snaps P σ es₁) := by
  obtain ⟨L, hL⟩ := snaps_prefix P σ es₁ es₂
  intro x hx; exact h x (by rw [hL]; exact List.mem_append_left _ hx)

theorem goodIn_mono {base : Nat → Nat → Nat → Vote → Bool} {es₁ es₂ : List Player.Event} {r p s : Nat} {a : Vote}
    (h : goodIn base es₁ r p s a = true) : goodIn base (es₁ ++ es₂) r p s a = true := by
  simp only [goodIn, Bool.and_eq_true, List.any_eq_true] at h ⊢
  obtain ⟨h1, e, he, hd⟩ := h
  exact ⟨h1, e, List.mem_append_left _ he, hd⟩

theorem recs_ev_of_after (P : Params) : ∀ (es : List Player.Event) (σ τ : State), after P σ es = some τ →
    (recs P σ es).map (·.ev) = es := by
  intro es
  induction es with
  | nil => intro _ _ _; rfl
  | cons e rest ih =>
    intro σ τ h
    simp only [after] at h
    split at h
    · cases h
    rename_i σ' as hh
    simp only [recs, hh, List.map_cons]
    rw [ih σ' τ h]

theorem deliv_mem {n r p s : Nat} {a : Vote} {e : Player.Event} (hd : isDelivery r p s a e = true) (hn : a.sender ≠ n) :
    AgreementAbs.Ev.vote ⟨a.sender, p, absStep s, absVal a.value⟩ ∈ delivOf n r e := by
  cases e with
  | vote verified bad r' p' s' x' =>
    simp only [isDelivery, Bool.and_eq_true, bne_iff_ne, ne_eq, beq_iff_eq, decide_eq_true_eq] at hd
    obtain ⟨⟨⟨⟨⟨⟨⟨d1, d2⟩, d3⟩, d4⟩, d5⟩, d6⟩, d7⟩, d8⟩ := hd
    subst d5; subst d6; subst d7; subst d8
    simp only [delivOf]
    rw [if_pos ⟨d1, d2, d3, d4, trivial, hn⟩]
    exact List.mem_singleton.mpr rfl
  | bundle verified bad r' p' s' value votes eqs =>
    simp only [isDelivery, Bool.and_eq_true, bne_iff_ne, ne_eq, beq_iff_eq, List.any_eq_true, decide_eq_true_eq] at hd
    obtain ⟨⟨⟨⟨⟨⟨⟨d1, d2⟩, d3⟩, d4⟩, d5⟩, d6⟩, d7⟩, x', hx', rfl⟩ := hd
    subst d5; subst d6; subst d7
    simp only [delivOf]
    rw [if_pos ⟨d1, d2, d3, d4, trivial⟩]
    exact List.mem_map.mpr ⟨x', List.mem_filter.mpr ⟨hx', by simpa using hn⟩, rfl⟩
  | pvote verified bad v taskIndex tail => simp [isDelivery] at hd
  | payload verified bad pp own => simp [isDelivery] at hd
  | timeout entropy => simp [isDelivery] at hd
  | fastTimeout entropy => simp [isDelivery] at hd
  | roundInterruption rr => simp [isDelivery] at hd
  | checkpoint r1 p1 s1 err => simp [isDelivery] at hd

theorem allAtts_recs (P : Params) (σ : State) (es : List Player.Event) :
    allAtts P σ es = (recs P σ es).flatMap (fun x => atts x.acts) := by
  unfold allAtts
  rw [snaps_eq_recs, List.flatMap_map]

theorem split_unique {α : Type} {X Z A B : List α} {e : α} (h : X ++ e :: Z = A ++ e :: B) (hX : e ∉ X) (hZ : e ∉ Z) :
    A = X ∧ B = Z := by
  rcases List.append_eq_append_iff.mp h with ⟨a', h1, h2⟩ | ⟨c', h1, h2⟩
  · cases a' with
    | nil => simp at h1 h2; exact ⟨h1, h2.symm⟩
    | cons c cs =>
      simp only [List.cons_append, List.cons.injEq] at h2
      exfalso; apply hZ; rw [h2.2]; simp
  · cases c' with
    | nil => simp at h1 h2; exact ⟨h1.symm, h2⟩
    | cons c cs =>
      simp only [List.cons_append, List.cons.injEq] at h2
      exfalso; apply hX; rw [h1, ← h2.1]; simp

/-! ### own votes: position in a record, order rules -/

theorem mem_enterOf {n r : Nat} {pre post : State} {e : AgreementAbs.Ev} (h : e ∈ enterOf n r pre post) :
    ∃ p c, e = .enter n p c := by
  by_cases hc : post.pl.round = r ∧ post.pl.period ≠ aper r pre
  · have he : enterOf n r pre post = [.enter n post.pl.period (causeOf post.root r post.pl.period)] := by
      unfold enterOf; unfold aper at hc; simp only []; rw [if_pos hc]
    rw [he] at h
    exact ⟨_, _, List.mem_singleton.mp h⟩
  · have he : enterOf n r pre post = [] := by
      unfold enterOf; unfold aper at hc; simp only []; rw [if_neg hc]
    rw [he] at h; cases h

theorem vote_not_in_head {n r : Nat} {x : Rec} {v : AgreementAbs.Vote} (hv : v.n = n) :
    AgreementAbs.Ev.vote v ∉ headOf n r x := by
  intro h
  unfold headOf at h
  rcases List.mem_append.mp h with h | h
  · rcases List.mem_append.mp h with h | h
    · obtain ⟨w, hw, hne⟩ := mem_delivOf h
      cases hw; exact hne hv
    · obtain ⟨q, y, hq⟩ := mem_seeOf h; cases hq
  · obtain ⟨p, c, hq⟩ := mem_enterOf h; cases hq

theorem vote_not_in_commits {n r : Nat} {acts : List Action} {v : AgreementAbs.Vote} :
    AgreementAbs.Ev.vote v ∉ acts.flatMap (commitOf n r) := by
  intro h
  obtain ⟨p, w, hq⟩ := mem_commitOf h; cases hq

theorem own_position {n r : Nat} {x : Rec} {A B : List AgreementAbs.Ev} {v : AgreementAbs.Vote}
    (hx : evsOf n r x = A ++ .vote v :: B) (hv : v.n = n) (hatt : atts x.acts = [] ∨ ∃ b, atts x.acts = [b]) :
    ∃ b, atts x.acts = [b] ∧ b.r = r ∧ v = absVote n b ∧ A = headOf n r x ∧ B = x.acts.flatMap (commitOf n r) := by
  rw [evsOf_eq] at hx
  have hmem : AgreementAbs.Ev.vote v ∈ headOf n r x ++ ownOf n r x ++ x.acts.flatMap (commitOf n r) := by
    rw [hx]; simp
  have hown : AgreementAbs.Ev.vote v ∈ ownOf n r x := by
    rcases List.mem_append.mp hmem with h | h
    · rcases List.mem_append.mp h with h | h
      · exact absurd h (vote_not_in_head hv)
      · exact h
    · exact absurd h vote_not_in_commits
  rcases hatt with h0 | ⟨b, hb⟩
  · unfold ownOf at hown; rw [h0] at hown; cases hown
  · unfold ownOf at hown hx
    rw [hb] at hown hx
    simp only [List.filter_cons, List.filter_nil] at hown hx
    split at hown
    · rename_i hbr
      simp only [List.map_cons, List.map_nil, List.mem_singleton] at hown
      have hve : v = absVote n b := by cases hown; rfl
      subst hve
      rw [if_pos hbr] at hx
      simp only [List.map_cons, List.map_nil, List.append_assoc, List.singleton_append] at hx
      obtain ⟨e1, e2⟩ := split_unique hx (vote_not_in_head hv) vote_not_in_commits
      exact ⟨b, hb, by simpa using hbr, rfl, e1, e2⟩
    · cases hown

/-- the order rules for an own vote, from the pairwise facts about the attests before it -/
theorem order_rules (Pabs : AgreementAbs.Params) {n : Nat} {pre : List AgreementAbs.Ev} {b : Attest} (hb1 : 1 ≤ b.s)
    (hown : ∀ v' ∈ AgreementAbs.votes pre, v'.n = n → ∃ b' : Attest, absVote n b' = v' ∧ 1 ≤ b'.s ∧ b'.r = b.r ∧
      OrdA b' b ∧ NacA b' b ∧ (b'.p = b.p → b'.s = b.s → b'.v = b.v)) :
    AgreementAbs.RUnique true Pabs pre (absVote n b) ∧
    (b.s = 1 → AgreementAbs.RBeforeNext pre (absVote n b)) ∧
    (b.s = 2 → AgreementAbs.RCertAfterNext pre (absVote n b)) ∧
    (3 ≤ b.s → AgreementAbs.RNextOwnCert true Pabs pre (absVote n b)) := by
  refine ⟨Or.inl ?_, ?_, ?_, ?_⟩
  · intro v' hv' hn hp hs
    obtain ⟨b', rfl, hb1', hr, _, _, hu⟩ := hown v' hv' hn
    show absVal b'.v = absVal b.v
    rw [hu hp (absStep_inj hb1' hb1 hs)]
  · intro hs1 v' hv' hn hp
    obtain ⟨b', rfl, hb1', hr, ho, _, _⟩ := hown v' hv' hn
    cases hnx : (absStep b'.s).isNext with
    | false => exact hnx
    | true =>
      have h12 := (absStep_isNext b'.s).mp hnx
      exact absurd hs1 (ho hr hp (by omega)).1
  · intro hs2 v' hv' hn hp hnx
    obtain ⟨b', rfl, hb1', hr, ho, _, _⟩ := hown v' hv' hn
    have h12 := (absStep_isNext b'.s).mp hnx
    show absVal b'.v = absVal b.v
    rw [(ho hr hp (by omega)).2 hs2]
  · intro hs3
    refine Or.inl ?_
    intro v' hv' hn hp hc
    obtain ⟨b', rfl, hb1', hr, _, hnac, _⟩ := hown v' hv' hn
    have hb2 : b'.s = 2 := (absStep_cert b'.s).mp hc
    show absVal b'.v = absVal b.v
    rw [hnac hr hp hb2 hs3]

/-! ### `PrevLink` along the projection, in executable form -/

def prevLinkB (L : AgreementAbs.Local) (root : Root) (r p : Nat) : Bool :=
  match viewAt root r (predPeriod p) with
  | some vw => decide (L.prev p = absCache vw.cached)
  | none => true

theorem prevLinkB_sound {L : AgreementAbs.Local} {root : Root} {r p : Nat} (h : prevLinkB L root r p = true) :
    PrevLink L root r p := by
  intro ns ⟨vw, hv, hc⟩
  unfold prevLinkB at h
  rw [hv] at h
  simp only [decide_eq_true_eq] at h
  rw [h, hc]

/-- at every own vote of the projection, the node's abstract cache of the previous period is what the tree has cached -/
def prevTracksFrom (n r : Nat) : List AgreementAbs.Ev → List Rec → Bool
  | _, [] => true
  | H, x :: rest =>
    ((atts x.acts).filter (fun b => b.r == r)).all
        (fun b => prevLinkB (AgreementAbs.localOf ((headOf n r x).reverse ++ H) n) x.post.root r b.p) &&
      prevTracksFrom n r ((evsOf n r x).reverse ++ H) rest

theorem prevTracks_split (n r : Nat) : ∀ (L₁ : List Rec) (H : List AgreementAbs.Ev) (x : Rec) (L₂ : List Rec) (b : Attest),
    prevTracksFrom n r H (L₁ ++ x :: L₂) = true → b ∈ atts x.acts → b.r = r →
    PrevLink (AgreementAbs.localOf ((headOf n r x).reverse ++ ((L₁.flatMap (evsOf n r)).reverse ++ H)) n) x.post.root r b.p := by
  intro L₁
  induction L₁ with
  | nil =>
    intro H x L₂ b h hb hr
    simp only [List.nil_append, prevTracksFrom, Bool.and_eq_true, List.all_eq_true] at h
    exact prevLinkB_sound (h.1 b (List.mem_filter.mpr ⟨hb, by simpa using hr⟩))
  | cons y ys ih =>
    intro H x L₂ b h hb hr
    simp only [List.cons_append, prevTracksFrom, Bool.and_eq_true] at h
    have := ih _ x L₂ b h.2 hb hr
    rw [List.flatMap_cons, List.reverse_append, List.append_assoc]
    exact this

/-! ### own votes of the projection satisfy `okVote` -/

theorem after_inv (P : Params) (good : Nat → Nat → Nat → Vote → Bool) (hg : GoodSpec good) :
    ∀ (es rest : List Player.Event) (σ τ : State), after P σ es = some τ → NodeInv P good σ →
    RunOK P good σ (es ++ rest) → RunOKA P σ (es ++ rest) → NodeInv P good τ ∧ RunOK P good τ rest ∧ RunOKA P τ rest := by
  intro es
  induction es with
  | nil =>
    intro rest σ τ h hI hr hra
    simp only [after, Option.some.injEq] at h
    subst h
    exact ⟨hI, hr, hra⟩
  | cons e es' ih =>
    intro rest σ τ h hI hr hra
    simp only [after] at h
    split at h
    · cases h
    rename_i σ' as hh
    exact ih rest σ' τ h (handle_inv P good hg hI hr.1 hra.1 hh).1 (hr.2 _ _ hh) (hra.2 _ _ hh)

/-- **player_okVote.**  Every vote event of node `n` in `projFull` satisfies all rules of `okVote true Pabs` w.r.t. the history
before it.  Scope: a fresh node, the round `r` it starts in (at period 0).  Hypotheses: `EnvOK`, `PeriodsFit`; `Pabs` fits the
delivered votes (`hthr`, `hnodes`: nodes, weights, one threshold below every step threshold, no delivered vote under the
node's own name); `hprev`: at every own vote the abstract cache of the previous period is what the tree has cached
(`prevTracksFrom`, executable — NOT proved in general, see the end of the file). -/
theorem player_okVote (P : Params) (base : Nat → Nat → Nat → Vote → Bool) (hg : GoodSpec base) (σ₀ : State) (h0 : Fresh σ₀)
    (es : List Player.Event) (henv : EnvOK P base σ₀ es) (hpf : PeriodsFit (snaps P σ₀ es))
    (Pabs : AgreementAbs.Params) (n r : Nat) (hr0 : σ₀.pl.round = r) (hp0 : σ₀.pl.period = 0)
    (hthr : ∀ s, s ≠ 0 → Pabs.T ≤ stepT P s)
    (hnodes : ∀ p s a, goodIn base es r p s a = true →
      a.sender ∈ Pabs.nodes ∧ Pabs.w a.sender = a.weight ∧ a.sender ≠ n)
    (hprev : prevTracksFrom n r [] (recs P σ₀ es) = true) :
    ∀ post pre v, projFull P n r σ₀ es = post ++ AgreementAbs.Ev.vote v :: pre → v.n = n →
      AgreementAbs.okVote true Pabs pre v := by
  intro post pre v hsplit hvn
  have hI := fresh_inv P base h0
  have hIN := fresh_invN P base h0
  have hfl : (recs P σ₀ es).flatMap (evsOf n r) = pre.reverse ++ AgreementAbs.Ev.vote v :: post.reverse := by
    have := congrArg List.reverse hsplit
    unfold projFull at this
    simpa [List.reverse_append] using this
  obtain ⟨L₁, x, L₂, A, B, hrecs, hx, hpre, _⟩ := flatMap_split _ _ _ _ _ hfl
  obtain ⟨es₁, es₂, hes, hL₁, haft, hh, _⟩ := recs_split P es σ₀ L₁ L₂ x hrecs
  have hes' : es = (es₁ ++ [x.ev]) ++ es₂ := by rw [hes]; simp
  have henv' : EnvOK P base σ₀ (es₁ ++ [x.ev]) := envOK_prefix (hes' ▸ henv)
  have hpf' : PeriodsFit (snaps P σ₀ (es₁ ++ [x.ev])) := periodsFit_prefix (hes' ▸ hpf)
  have hrecs' : recs P σ₀ (es₁ ++ [x.ev]) = L₁ ++ [x] := by
    rw [recs_snoc P es₁ σ₀ x.pre x.post x.ev x.acts haft hh, hL₁]
  have hsn : snaps P σ₀ (es₁ ++ [x.ev]) = L₁.map (fun x => (x.post, atts x.acts)) ++ [(x.post, atts x.acts)] := by
    rw [snaps_eq_recs, hrecs', List.map_append]; rfl
  have hy : (x.post, atts x.acts) ∈ snaps P σ₀ (es₁ ++ [x.ev]) := by rw [hsn]; simp
  have hatt := attests_in_period (ptok_spec P base) ptok_set hg _ σ₀ hI henv'.run henv'.runA _ hy
  obtain ⟨b, hb, hbr, hvb, hA, _⟩ := own_position hx hvn (by
    rcases hatt with h | ⟨b, hb, _⟩
    · exact Or.inl h
    · exact Or.inr ⟨b, hb⟩)
  subst hvb
  have hpre' : pre = (headOf n r x).reverse ++ (L₁.flatMap (evsOf n r)).reverse := by
    have := congrArg List.reverse hpre
    rw [List.reverse_reverse, List.reverse_append, hA] at this
    exact this
  have hbm : b ∈ atts x.acts := by rw [hb]; simp
  obtain ⟨hbr', hbp'⟩ : b.r = x.post.pl.round ∧ b.p = x.post.pl.period := by
    rcases hatt with h | ⟨b', hb', h1, h2, _⟩
    · have h' : atts x.acts = [] := h
      rw [h'] at hbm; cases hbm
    · have hb'' : atts x.acts = [b'] := hb'
      rw [hb''] at hbm
      simp only [List.mem_singleton] at hbm
      subst hbm; exact ⟨h1, h2⟩
  -- the attests of the prefix run
  have hall : allAtts P σ₀ (es₁ ++ [x.ev]) = L₁.flatMap (fun x => atts x.acts) ++ atts x.acts := by
    rw [allAtts_recs, hrecs', List.flatMap_append]; simp
  have hbm' : b ∈ allAtts P σ₀ (es₁ ++ [x.ev]) := by rw [hall]; exact List.mem_append_right _ hbm
  have hpos := allAtts_step_pos (ptok_spec P base) ptok_set hg _ σ₀ hI henv'.run henv'.runA
  have hord := allAtts_ordered (ptok_spec P base) ptok_set hg _ σ₀ hI henv'.run henv'.runA henv'.noOverflow henv'.staged
  have hcs := Props.C01Player.comm_stable P base hg σ₀ hIN _ henv' hpf'
  have hnac := allAtts_nextAfterCert (ptok_spec P base) ptok_set hg _ σ₀ hI henv'.run henv'.runA
    (by rw [hp0]; decide) hpf' hcs
  have honce := attest_once P base hg σ₀ hI _ henv'
  rw [hall] at hord hnac
  have hordx := (List.pairwise_append.mp hord).2.2
  have hnacx := (List.pairwise_append.mp hnac).2.2
  -- own votes before this one
  have hown : ∀ v' ∈ AgreementAbs.votes pre, v'.n = n → ∃ b' : Attest, absVote n b' = v' ∧ 1 ≤ b'.s ∧ b'.r = b.r ∧
      OrdA b' b ∧ NacA b' b ∧ (b'.p = b.p → b'.s = b.s → b'.v = b.v) := by
    intro v' hv' hn'
    have hmem := (Props.C01Player.mem_votes_iff v' pre).mp hv'
    rw [hpre'] at hmem
    rcases List.mem_append.mp hmem with hm | hm
    · exact absurd (List.mem_reverse.mp hm) (vote_not_in_head hn')
    · obtain ⟨y, hyL, hye⟩ := List.mem_flatMap.mp (List.mem_reverse.mp hm)
      rw [evsOf_eq] at hye
      have hyo : AgreementAbs.Ev.vote v' ∈ ownOf n r y := by
        rcases List.mem_append.mp hye with h | h
        · rcases List.mem_append.mp h with h | h
          · exact absurd h (vote_not_in_head hn')
          · exact h
        · exact absurd h vote_not_in_commits
      unfold ownOf at hyo
      obtain ⟨b', hb'f, hb'e⟩ := List.mem_map.mp hyo
      obtain ⟨hb'm, hb'r⟩ := List.mem_filter.mp hb'f
      have hb'r' : b'.r = r := by simpa using hb'r
      have hb'all : b' ∈ L₁.flatMap (fun x => atts x.acts) := List.mem_flatMap.mpr ⟨y, hyL, hb'm⟩
      have hb'all' : b' ∈ allAtts P σ₀ (es₁ ++ [x.ev]) := by rw [hall]; exact List.mem_append_left _ hb'all
      refine ⟨b', by cases hb'e; rfl, hpos b' hb'all', hb'r'.trans hbr.symm, hordx b' hb'all b hbm, hnacx b' hb'all b hbm, ?_⟩
      intro hp hs
      exact honce b' hb'all' b hbm' (hb'r'.trans hbr.symm) hp hs
  obtain ⟨ru, rbn, rcn, rno⟩ := order_rules Pabs (hpos b hbm') hown
  -- the period
  obtain ⟨hI', hr', hra'⟩ := after_inv P base hg es₁ (x.ev :: es₂) σ₀ x.pre haft hI (hes ▸ henv.run) (hes ▸ henv.runA)
  have hst := (handle_inv P base hg hI' hr'.1 hra'.1 hh).2
  have hper : AgreementAbs.RPeriod pre (absVote n b) := by
    obtain ⟨hle, htr⟩ := period_track P base hg n r es σ₀ [] hI henv.run henv.runA (Nat.le_of_eq hr0.symm)
      (fun _ => by rw [hp0]; rfl) L₁ x L₂ hrecs
    have hpostr : x.post.pl.round = r := hbr'.symm.trans hbr
    have hprer : x.pre.pl.round = r := by have := lex_round hst.lex; omega
    show (AgreementAbs.nstate pre n).cur.period = b.p
    rw [hpre', nstate_append_rev, headOf_period, hbp']
    simp only [List.append_nil] at htr
    split
    · rfl
    · rename_i hne
      rw [htr hprer]
      have : x.post.pl.period = aper r x.pre := by
        apply Decidable.not_not.mp
        intro h'; exact hne ⟨hpostr, h'⟩
      rw [this]; unfold aper; rw [if_pos hprer]
  -- the value rules
  have hlink : HistLink P (goodIn base (es₁ ++ [x.ev])) Pabs b.r pre := by
    refine ⟨hthr, fun p s a hga => ?_⟩
    rw [hbr] at hga
    obtain ⟨h1, h2, h3⟩ := hnodes p s a (by rw [hes']; exact goodIn_mono hga)
    refine ⟨h1, h2, ?_⟩
    simp only [goodIn, Bool.and_eq_true] at hga
    obtain ⟨e, he, hd⟩ := List.any_eq_true.mp hga.2
    show (⟨a.sender, p, absStep s, absVal a.value⟩ : AgreementAbs.Vote) ∈ AgreementAbs.votes pre
    rw [Props.C01Player.mem_votes_iff, hpre']
    rcases List.mem_append.mp he with he | he
    · have hev := recs_ev_of_after P es₁ σ₀ x.pre haft
      have : e ∈ (recs P σ₀ es₁).map (·.ev) := by rw [hev]; exact he
      obtain ⟨y, hyL, hye⟩ := List.mem_map.mp this
      rw [hL₁] at hyL
      refine List.mem_append_right _ (List.mem_reverse.mpr (List.mem_flatMap.mpr ⟨y, hyL, ?_⟩))
      rw [evsOf_eq]; unfold headOf
      simp only [List.mem_append]
      exact Or.inl (Or.inl (Or.inl (Or.inl (hye ▸ deliv_mem hd h3))))
    · simp only [List.mem_singleton] at he
      subst he
      refine List.mem_append_left _ (List.mem_reverse.mpr ?_)
      unfold headOf
      simp only [List.mem_append]
      exact Or.inl (Or.inl (deliv_mem hd h3))
  have hplink : PrevLink (AgreementAbs.localOf pre n) x.post.root b.r b.p := by
    rw [hrecs] at hprev
    have := prevTracks_split n r L₁ [] x L₂ b hprev hbm hbr
    rw [List.append_nil] at this
    rw [hpre', hbr]; exact this
  obtain ⟨vs, vc, vn⟩ := vote_rules_abs P base hg σ₀ h0 _ henv'.run henv'.runA henv'.noOverflow Pabs n pre _ hy b hbm
    hlink hplink
  -- assemble
  refine ⟨ru, hper, ?_⟩
  have hb1 := hpos b hbm'
  show match absStep b.s with
    | .soft => _ | .cert => _ | .next _ => _
  by_cases h1 : b.s = 1
  · rw [(absStep_soft b.s).mpr h1]; exact ⟨rbn h1, vs h1⟩
  · by_cases h2 : b.s = 2
    · rw [(absStep_cert b.s).mpr h2]; exact ⟨rcn h2, vc h2⟩
    · have h3 : 3 ≤ b.s := by omega
      have : absStep b.s = .next (b.s - 3) := by unfold absStep; rw [if_neg h1, if_neg h2]
      rw [this]; exact ⟨rno h3, vn h3⟩

/-! ### `see` and `enter` events of the projection -/

theorem histLink_at (P : Params) (base : Nat → Nat → Nat → Vote → Bool) (σ₀ : State) (es es₁ es₂ : List Player.Event)
    (x : Rec) (L₁ : List Rec) (hes : es = es₁ ++ x.ev :: es₂) (hL₁ : recs P σ₀ es₁ = L₁) (haft : after P σ₀ es₁ = some x.pre)
    (Pabs : AgreementAbs.Params) (n r : Nat) (hthr : ∀ s, s ≠ 0 → Pabs.T ≤ stepT P s)
    (hnodes : ∀ p s a, goodIn base es r p s a = true →
      a.sender ∈ Pabs.nodes ∧ Pabs.w a.sender = a.weight ∧ a.sender ≠ n)
    (A : List AgreementAbs.Ev) (hA : ∀ e ∈ delivOf n r x.ev, e ∈ A) :
    HistLink P (goodIn base (es₁ ++ [x.ev])) Pabs r (A.reverse ++ (L₁.flatMap (evsOf n r)).reverse) := by
  have hes' : es = (es₁ ++ [x.ev]) ++ es₂ := by rw [hes]; simp
  refine ⟨hthr, fun p s a hga => ?_⟩
  obtain ⟨h1, h2, h3⟩ := hnodes p s a (by rw [hes']; exact goodIn_mono hga)
  refine ⟨h1, h2, ?_⟩
  simp only [goodIn, Bool.and_eq_true] at hga
  obtain ⟨e, he, hd⟩ := List.any_eq_true.mp hga.2
  show (⟨a.sender, p, absStep s, absVal a.value⟩ : AgreementAbs.Vote) ∈ AgreementAbs.votes _
  rw [Props.C01Player.mem_votes_iff]
  rcases List.mem_append.mp he with he | he
  · have hev := recs_ev_of_after P es₁ σ₀ x.pre haft
    have : e ∈ (recs P σ₀ es₁).map (·.ev) := by rw [hev]; exact he
    obtain ⟨y, hyL, hye⟩ := List.mem_map.mp this
    rw [hL₁] at hyL
    refine List.mem_append_right _ (List.mem_reverse.mpr (List.mem_flatMap.mpr ⟨y, hyL, ?_⟩))
    rw [evsOf_eq]; unfold headOf
    simp only [List.mem_append]
    exact Or.inl (Or.inl (Or.inl (Or.inl (hye ▸ deliv_mem hd h3))))
  · simp only [List.mem_singleton] at he
    subst he
    exact List.mem_append_left _ (List.mem_reverse.mpr (hA _ (deliv_mem hd h3)))

theorem prefix_of_notin {α : Type} {X Y A B : List α} {e : α} (h : X ++ Y = A ++ e :: B) (hX : e ∉ X) :
    ∃ A', A = X ++ A' := by
  rcases List.append_eq_append_iff.mp h with ⟨a', h1, _⟩ | ⟨c', h1, h2⟩
  · exact ⟨a', h1⟩
  · cases c' with
    | nil => exact ⟨[], by simpa using h1.symm⟩
    | cons c cs =>
      simp only [List.cons_append, List.cons.injEq] at h2
      exfalso; apply hX; rw [h1, ← h2.1]; simp

theorem mem_seeOf' {n r : Nat} {pre post : Root} {e : AgreementAbs.Ev} (h : e ∈ seeOf n r pre post) :
    ∃ q y, e = .see n q y ∧ ((y = none ∧ (cachedOf post r q).bottom = true) ∨
      (∃ v, y = some v ∧ v ≠ 0 ∧ (cachedOf post r q).proposal = v)) := by
  unfold seeOf at h
  split at h
  · cases h
  · obtain ⟨kv, _, hkv⟩ := List.mem_flatMap.mp h
    simp only [List.mem_append] at hkv
    rcases hkv with hkv | hkv
    · split at hkv
      · rename_i hc
        simp only [Bool.and_eq_true] at hc
        exact ⟨_, _, List.mem_singleton.mp hkv, Or.inl ⟨rfl, hc.2⟩⟩
      · cases hkv
    · split at hkv
      · rename_i hc
        simp only [Bool.and_eq_true, bne_iff_ne, ne_eq] at hc
        exact ⟨_, _, List.mem_singleton.mp hkv, Or.inr ⟨_, rfl, hc.2, rfl⟩⟩
      · cases hkv

theorem cachedOf_view {root : Root} {r q : Nat} (h : (cachedOf root r q).bottom = true ∨ (cachedOf root r q).proposal ≠ 0) :
    ∃ vw, viewAt root r q = some vw ∧ vw.cached = cachedOf root r q := by
  unfold cachedOf at h ⊢
  cases hv : viewAt root r q with
  | none => rw [hv] at h; rcases h with h | h <;> simp at h
  | some vw => exact ⟨vw, rfl, rfl⟩

/-- **player_okSee** (`RSee`): every `see` event of the projection is backed by a next quorum in the history before it. -/
theorem player_okSee (P : Params) (base : Nat → Nat → Nat → Vote → Bool) (hg : GoodSpec base) (σ₀ : State) (h0 : Fresh σ₀)
    (es : List Player.Event) (henv : EnvOK P base σ₀ es) (Pabs : AgreementAbs.Params) (hT : 0 < Pabs.T) (n r : Nat)
    (hthr : ∀ s, s ≠ 0 → Pabs.T ≤ stepT P s)
    (hnodes : ∀ p s a, goodIn base es r p s a = true →
      a.sender ∈ Pabs.nodes ∧ Pabs.w a.sender = a.weight ∧ a.sender ≠ n) :
    ∀ post pre m q y, projFull P n r σ₀ es = post ++ AgreementAbs.Ev.see m q y :: pre →
      AgreementAbs.RSee Pabs pre m q y := by
  intro post pre m q y hsplit
  have hfl : (recs P σ₀ es).flatMap (evsOf n r) = pre.reverse ++ AgreementAbs.Ev.see m q y :: post.reverse := by
    have := congrArg List.reverse hsplit
    unfold projFull at this
    simpa [List.reverse_append] using this
  obtain ⟨L₁, x, L₂, A, B, hrecs, hx, hpre, _⟩ := flatMap_split _ _ _ _ _ hfl
  obtain ⟨es₁, es₂, hes, hL₁, haft, hh, _⟩ := recs_split P es σ₀ L₁ L₂ x hrecs
  have hes' : es = (es₁ ++ [x.ev]) ++ es₂ := by rw [hes]; simp
  have henv' : EnvOK P base σ₀ (es₁ ++ [x.ev]) := envOK_prefix (hes' ▸ henv)
  have hrecs' : recs P σ₀ (es₁ ++ [x.ev]) = L₁ ++ [x] := by
    rw [recs_snoc P es₁ σ₀ x.pre x.post x.ev x.acts haft hh, hL₁]
  have hy : (x.post, atts x.acts) ∈ snaps P σ₀ (es₁ ++ [x.ev]) := by
    rw [snaps_eq_recs, hrecs', List.map_append]; simp
  -- the event is in the `see` part
  have hmem : AgreementAbs.Ev.see m q y ∈ evsOf n r x := by rw [hx]; simp
  have hsee : AgreementAbs.Ev.see m q y ∈ seeOf n r x.pre.root x.post.root := by
    rw [evsOf_eq] at hmem; unfold headOf at hmem
    simp only [List.mem_append] at hmem
    rcases hmem with ((h | h) | h) | h
    · rcases h with h | h
      · obtain ⟨w, hw, _⟩ := mem_delivOf h; cases hw
      · exact h
    · obtain ⟨p', c, hq⟩ := mem_enterOf h; cases hq
    · unfold ownOf at h; obtain ⟨b, _, hb⟩ := List.mem_map.mp h; cases hb
    · obtain ⟨p', w, hq⟩ := mem_commitOf h; cases hq
  obtain ⟨q', y', heq, hval⟩ := mem_seeOf' hsee
  cases heq
  have hnd : AgreementAbs.Ev.see n q y ∉ delivOf n r x.ev := by
    intro h; obtain ⟨w, hw, _⟩ := mem_delivOf h; cases hw
  have hx' : delivOf n r x.ev ++ (seeOf n r x.pre.root x.post.root ++ enterOf n r x.pre x.post ++ ownOf n r x ++
      x.acts.flatMap (commitOf n r)) = A ++ AgreementAbs.Ev.see n q y :: B := by
    rw [← hx, evsOf_eq]; unfold headOf; simp only [List.append_assoc]
  obtain ⟨A', hA'⟩ := prefix_of_notin hx' hnd
  have hpre' : pre = A.reverse ++ (L₁.flatMap (evsOf n r)).reverse := by
    have := congrArg List.reverse hpre
    rw [List.reverse_reverse, List.reverse_append] at this
    exact this
  have hlink := histLink_at P base σ₀ es es₁ es₂ x L₁ hes hL₁ haft Pabs n r hthr hnodes A
    (fun e he => by rw [hA']; exact List.mem_append_left _ he)
  rw [← hpre'] at hlink
  show AgreementAbs.nextQ Pabs pre q y
  rcases hval with ⟨rfl, hb⟩ | ⟨v, rfl, hv0, hpv⟩
  · obtain ⟨vw, hvw, hc⟩ := cachedOf_view (Or.inl hb)
    exact (cached_nextQ P base hg σ₀ h0 _ henv'.run henv'.runA Pabs hT pre _ hy r q vw hvw hlink).2 (by rw [hc]; exact hb)
  · obtain ⟨vw, hvw, hc⟩ := cachedOf_view (Or.inr (by rw [hpv]; exact hv0))
    have := (cached_nextQ P base hg σ₀ h0 _ henv'.run henv'.runA Pabs hT pre _ hy r q vw hvw hlink).1
      (by rw [hc, hpv]; exact hv0)
    rw [hc, hpv] at this
    exact this

/-- **player_enterGrow** (`REnterGrow`): every `enter` event of the projection is to a period above the abstract one. -/
theorem player_enterGrow (P : Params) (base : Nat → Nat → Nat → Vote → Bool) (hg : GoodSpec base) (σ₀ : State) (h0 : Fresh σ₀)
    (es : List Player.Event) (henv : EnvOK P base σ₀ es) (n r : Nat) (hr0 : σ₀.pl.round = r) (hp0 : σ₀.pl.period = 0) :
    ∀ post pre m p c, projFull P n r σ₀ es = post ++ AgreementAbs.Ev.enter m p c :: pre →
      m = n ∧ AgreementAbs.REnterGrow pre n p := by
  intro post pre m p c hsplit
  have hI := fresh_inv P base h0
  have hfl : (recs P σ₀ es).flatMap (evsOf n r) = pre.reverse ++ AgreementAbs.Ev.enter m p c :: post.reverse := by
    have := congrArg List.reverse hsplit
    unfold projFull at this
    simpa [List.reverse_append] using this
  obtain ⟨L₁, x, L₂, A, B, hrecs, hx, hpre, _⟩ := flatMap_split _ _ _ _ _ hfl
  obtain ⟨es₁, es₂, hes, hL₁, haft, hh, _⟩ := recs_split P es σ₀ L₁ L₂ x hrecs
  obtain ⟨hI', hr', hra'⟩ := after_inv P base hg es₁ (x.ev :: es₂) σ₀ x.pre haft hI (hes ▸ henv.run) (hes ▸ henv.runA)
  have hst := (handle_inv P base hg hI' hr'.1 hra'.1 hh).2
  -- the event is the `enter` part
  have hmem : AgreementAbs.Ev.enter m p c ∈ evsOf n r x := by rw [hx]; simp
  have hent : AgreementAbs.Ev.enter m p c ∈ enterOf n r x.pre x.post := by
    rw [evsOf_eq] at hmem; unfold headOf at hmem
    simp only [List.mem_append] at hmem
    rcases hmem with ((h | h) | h) | h
    · rcases h with h | h
      · obtain ⟨w, hw, _⟩ := mem_delivOf h; cases hw
      · obtain ⟨q', y', hq⟩ := mem_seeOf h; cases hq
    · exact h
    · unfold ownOf at h; obtain ⟨b, _, hb⟩ := List.mem_map.mp h; cases hb
    · obtain ⟨p', w, hq⟩ := mem_commitOf h; cases hq
  have hcond : x.post.pl.round = r ∧ x.post.pl.period ≠ aper r x.pre := by
    apply Decidable.byContradiction
    intro hc
    have he : enterOf n r x.pre x.post = [] := by
      unfold enterOf; unfold aper at hc; simp only []; rw [if_neg hc]
    rw [he] at hent; cases hent
  have he : enterOf n r x.pre x.post = [.enter n x.post.pl.period (causeOf x.post.root r x.post.pl.period)] := by
    unfold enterOf; have hc := hcond; unfold aper at hc; simp only []; rw [if_pos hc]
  rw [he] at hent
  simp only [List.mem_singleton] at hent
  cases hent
  refine ⟨rfl, ?_⟩
  -- everything before the `enter` in this record keeps the period
  have hnd : AgreementAbs.Ev.enter n x.post.pl.period (causeOf x.post.root r x.post.pl.period) ∉
      delivOf n r x.ev ++ seeOf n r x.pre.root x.post.root := by
    intro h
    rcases List.mem_append.mp h with h | h
    · obtain ⟨w, hw, _⟩ := mem_delivOf h; cases hw
    · obtain ⟨q', y', hq⟩ := mem_seeOf h; cases hq
  have hx' : (delivOf n r x.ev ++ seeOf n r x.pre.root x.post.root) ++
      (AgreementAbs.Ev.enter n x.post.pl.period (causeOf x.post.root r x.post.pl.period) ::
        (ownOf n r x ++ x.acts.flatMap (commitOf n r))) =
      A ++ AgreementAbs.Ev.enter n x.post.pl.period (causeOf x.post.root r x.post.pl.period) :: B := by
    rw [← hx, evsOf_eq]; unfold headOf; rw [he]; simp [List.append_assoc]
  have hnt : AgreementAbs.Ev.enter n x.post.pl.period (causeOf x.post.root r x.post.pl.period) ∉
      ownOf n r x ++ x.acts.flatMap (commitOf n r) := by
    intro h
    rcases List.mem_append.mp h with h | h
    · unfold ownOf at h; obtain ⟨b, _, hb⟩ := List.mem_map.mp h; cases hb
    · obtain ⟨p', w, hq⟩ := mem_commitOf h; cases hq
  obtain ⟨hA, _⟩ := split_unique hx' hnd hnt
  have hpre' : pre = (delivOf n r x.ev ++ seeOf n r x.pre.root x.post.root).reverse ++ (L₁.flatMap (evsOf n r)).reverse := by
    have := congrArg List.reverse hpre
    rw [List.reverse_reverse, List.reverse_append, hA] at this
    exact this
  obtain ⟨hle, htr⟩ := period_track P base hg n r es σ₀ [] hI henv.run henv.runA (Nat.le_of_eq hr0.symm)
    (fun _ => by rw [hp0]; rfl) L₁ x L₂ hrecs
  have hprer : x.pre.pl.round = r := by have := lex_round hst.lex; omega
  show (AgreementAbs.nstate pre n).cur.period < x.post.pl.period
  rw [hpre', nstate_append_rev, foldN_period _ _ (fun e he => by
    rcases List.mem_append.mp he with he | he
    · obtain ⟨w, rfl, _⟩ := mem_delivOf he; trivial
    · obtain ⟨q', y', rfl⟩ := mem_seeOf he; trivial)]
  simp only [List.append_nil] at htr
  rw [htr hprer]
  have hap : aper r x.pre = x.pre.pl.period := by unfold aper; rw [if_pos hprer]
  have hne := hcond.2
  rw [hap] at hne
  rcases hst.lex with h | ⟨_, h⟩
  · omega
  · omega

/-! ### assembled -/

theorem mem_commitOf' {n r : Nat} {acts : List Action} {e : AgreementAbs.Ev} (h : e ∈ acts.flatMap (commitOf n r)) :
    ∃ pay c, Action.ensure pay c ∈ acts ∧ c.round = r ∧ c.proposal ≠ 0 ∧ e = .commit n c.period c.proposal := by
  obtain ⟨a, hin, ha⟩ := List.mem_flatMap.mp h
  cases a <;> simp only [commitOf] at ha <;> try (cases ha)
  split at ha
  · rename_i hc; exact ⟨_, _, hin, hc.1, hc.2, List.mem_singleton.mp ha⟩
  · cases ha

theorem run_snoc (P : Params) : ∀ (es₁ : List Player.Event) (σ τ σ' : State) (e : Player.Event) (as : List Action),
    after P σ es₁ = some τ → Player.handle P τ e = .ok (σ', as) →
    ∃ ass, Player.run P σ (es₁ ++ [e]) = .ok (σ', ass) ∧ as ∈ ass := by
  intro es₁
  induction es₁ with
  | nil =>
    intro σ τ σ' e as h1 h2
    simp only [after, Option.some.injEq] at h1
    subst h1
    exact ⟨[as], by simp [Player.run, h2], List.mem_singleton.mpr rfl⟩
  | cons e0 rest ih =>
    intro σ τ σ' e as h1 h2
    simp only [after] at h1
    split at h1
    · cases h1
    · rename_i σ1 as1 hh
      obtain ⟨ass, hr, hm⟩ := ih σ1 τ σ' e as h1 h2
      exact ⟨as1 :: ass, by simp [Player.run, hh, hr], List.mem_cons_of_mem _ hm⟩

/-- **player_okCommit** (`RCommit`): every `commit` event of the projection has a cert quorum for its value among the votes
projected before it. -/
theorem player_okCommit (P : Params) (base : Nat → Nat → Nat → Vote → Bool) (hg : GoodSpec base) (σ₀ : State) (h0 : Fresh σ₀)
    (es : List Player.Event) (henv : EnvOK P base σ₀ es) (Pabs : AgreementAbs.Params) (n r : Nat)
    (hthr : ∀ s, s ≠ 0 → Pabs.T ≤ stepT P s)
    (hnodes : ∀ p s a, goodIn base es r p s a = true →
      a.sender ∈ Pabs.nodes ∧ Pabs.w a.sender = a.weight ∧ a.sender ≠ n) :
    ∀ post pre m p v, projFull P n r σ₀ es = post ++ AgreementAbs.Ev.commit m p v :: pre →
      AgreementAbs.RCommit Pabs pre p v := by
  intro post pre m p v hsplit
  have hfl : (recs P σ₀ es).flatMap (evsOf n r) = pre.reverse ++ AgreementAbs.Ev.commit m p v :: post.reverse := by
    have := congrArg List.reverse hsplit
    unfold projFull at this
    simpa [List.reverse_append] using this
  obtain ⟨L₁, x, L₂, A, B, hrecs, hx, hpre, _⟩ := flatMap_split _ _ _ _ _ hfl
  obtain ⟨es₁, es₂, hes, hL₁, haft, hh, _⟩ := recs_split P es σ₀ L₁ L₂ x hrecs
  have hes' : es = (es₁ ++ [x.ev]) ++ es₂ := by rw [hes]; simp
  have henv' : EnvOK P base σ₀ (es₁ ++ [x.ev]) := envOK_prefix (hes' ▸ henv)
  have hmem : AgreementAbs.Ev.commit m p v ∈ evsOf n r x := by rw [hx]; simp
  have hcm : AgreementAbs.Ev.commit m p v ∈ x.acts.flatMap (commitOf n r) := by
    rw [evsOf_eq] at hmem; unfold headOf at hmem
    simp only [List.mem_append] at hmem
    rcases hmem with ((h | h) | h) | h
    · rcases h with h | h
      · obtain ⟨w, hw, _⟩ := mem_delivOf h; cases hw
      · obtain ⟨q', y', hq, _⟩ := mem_seeOf' h; cases hq
    · obtain ⟨p', c, hq⟩ := mem_enterOf h; cases hq
    · unfold ownOf at h; obtain ⟨b, _, hb⟩ := List.mem_map.mp h; cases hb
    · exact h
  obtain ⟨pay, c, hin, hcr, hc0, heq⟩ := mem_commitOf' hcm
  cases heq
  have hnd : AgreementAbs.Ev.commit n c.period c.proposal ∉ delivOf n r x.ev := by
    intro h; obtain ⟨w, hw, _⟩ := mem_delivOf h; cases hw
  have hx' : delivOf n r x.ev ++ (seeOf n r x.pre.root x.post.root ++ enterOf n r x.pre x.post ++ ownOf n r x ++
      x.acts.flatMap (commitOf n r)) = A ++ AgreementAbs.Ev.commit n c.period c.proposal :: B := by
    rw [← hx, evsOf_eq]; unfold headOf; simp only [List.append_assoc]
  obtain ⟨A', hA'⟩ := prefix_of_notin hx' hnd
  have hpre' : pre = A.reverse ++ (L₁.flatMap (evsOf n r)).reverse := by
    have := congrArg List.reverse hpre
    rw [List.reverse_reverse, List.reverse_append] at this
    exact this
  have hlink := histLink_at P base σ₀ es es₁ es₂ x L₁ hes hL₁ haft Pabs n r hthr hnodes A
    (fun e he => by rw [hA']; exact List.mem_append_left _ he)
  rw [← hpre', ← hcr] at hlink
  obtain ⟨ass, hrun, has⟩ := run_snoc P es₁ σ₀ x.pre x.post x.ev x.acts haft hh
  exact commit_certQ P base hg σ₀ x.post h0 _ ass henv'.run hrun Pabs pre x.acts has pay c hin hlink hc0

/-- **player_votes_justified_partial.**  Every event of node `n` in `projFull` — own votes, `see`, `enter`, `commit` — is
allowed by the abstract local rules w.r.t. the history before it (`okEv true Pabs pre e`).  Events of other nodes (delivered
votes) are not the node's to justify.  Named hypotheses that are
evaluated on the example runs but NOT proved in general: `hprev` (cache tracking at own votes) and `hcause` (the cause
`causeOf` chooses for an `enter` is justified: `REnterCause`). -/
theorem player_votes_justified_partial (P : Params) (base : Nat → Nat → Nat → Vote → Bool) (hg : GoodSpec base) (σ₀ : State)
    (h0 : Fresh σ₀) (es : List Player.Event) (henv : EnvOK P base σ₀ es) (hpf : PeriodsFit (snaps P σ₀ es))
    (Pabs : AgreementAbs.Params) (hT : 0 < Pabs.T) (n r : Nat) (hr0 : σ₀.pl.round = r) (hp0 : σ₀.pl.period = 0)
    (hthr : ∀ s, s ≠ 0 → Pabs.T ≤ stepT P s)
    (hnodes : ∀ p s a, goodIn base es r p s a = true →
      a.sender ∈ Pabs.nodes ∧ Pabs.w a.sender = a.weight ∧ a.sender ≠ n)
    (hprev : prevTracksFrom n r [] (recs P σ₀ es) = true)
    (hcause : ∀ post pre m p c, projFull P n r σ₀ es = post ++ AgreementAbs.Ev.enter m p c :: pre →
      AgreementAbs.REnterCause Pabs pre m p c) :
    ∀ post e pre, projFull P n r σ₀ es = post ++ e :: pre →
      (∀ v, e = .vote v → v.n = n) → AgreementAbs.okEv true Pabs pre e := by
  intro post e pre hsplit hown
  cases e with
  | vote v =>
    intro _
    exact player_okVote P base hg σ₀ h0 es henv hpf Pabs n r hr0 hp0 hthr hnodes hprev post pre v hsplit (hown v rfl)
  | see m q y =>
    intro _
    exact player_okSee P base hg σ₀ h0 es henv Pabs hT n r hthr hnodes post pre m q y hsplit
  | enter m p c =>
    intro _
    obtain ⟨rfl, hgrow⟩ := player_enterGrow P base hg σ₀ h0 es henv n r hr0 hp0 post pre m p c hsplit
    exact ⟨hgrow, hcause post pre m p c hsplit⟩
  | commit m p v =>
    intro _
    exact player_okCommit P base hg σ₀ h0 es henv Pabs n r hthr hnodes post pre m p v hsplit
  | crash m => trivial

/-! ### the hypotheses in executable form, and the example runs -/

/-- the abstract node set / weights fit the votes an event delivers for round `r`, none under the node's own name -/
def eventFit (Pabs : AgreementAbs.Params) (n r : Nat) : Player.Event → Bool
  | .vote verified bad r' _ _ x =>
    !(verified && bad != 1 && bad != 2 && bad != 3 && r' == r) ||
      (Pabs.nodes.contains x.sender && Pabs.w x.sender == x.weight && x.sender != n)
  | .bundle verified bad r' _ _ value votes eqs =>
    !(verified && bad != 1 && bad != 2 && bad != 3 && r' == r) ||
      (bundleVotes value votes eqs).all (fun x => Pabs.nodes.contains x.sender && Pabs.w x.sender == x.weight && x.sender != n)
  | _ => true

theorem eventFit_sound (Pabs : AgreementAbs.Params) (n r : Nat) (base : Nat → Nat → Nat → Vote → Bool)
    (es : List Player.Event) (h : es.all (eventFit Pabs n r) = true) :
    ∀ p s a, goodIn base es r p s a = true → a.sender ∈ Pabs.nodes ∧ Pabs.w a.sender = a.weight ∧ a.sender ≠ n := by
  intro p s a hga
  simp only [goodIn, Bool.and_eq_true] at hga
  obtain ⟨e, he, hd⟩ := List.any_eq_true.mp hga.2
  have hf := List.all_eq_true.mp h e he
  cases e with
  | vote verified bad r' p' s' x' =>
    simp only [isDelivery, Bool.and_eq_true, bne_iff_ne, ne_eq, beq_iff_eq, decide_eq_true_eq] at hd
    obtain ⟨⟨⟨⟨⟨⟨⟨d1, d2⟩, d3⟩, d4⟩, d5⟩, _⟩, _⟩, d8⟩ := hd
    subst d8
    simp only [eventFit, d1, d5, Bool.true_and, Bool.or_eq_true, Bool.not_eq_true', Bool.and_eq_true, bne_iff_ne,
      ne_eq, beq_iff_eq, beq_self_eq_true, Bool.and_true, List.contains_iff_mem] at hf
    rcases hf with hf | hf
    · simp_all
    · exact ⟨hf.1.1, hf.1.2, hf.2⟩
  | bundle verified bad r' p' s' value votes eqs =>
    simp only [isDelivery, Bool.and_eq_true, bne_iff_ne, ne_eq, beq_iff_eq, List.any_eq_true, decide_eq_true_eq] at hd
    obtain ⟨⟨⟨⟨⟨⟨⟨d1, d2⟩, d3⟩, d4⟩, d5⟩, _⟩, _⟩, x', hx', rfl⟩ := hd
    simp only [eventFit, d1, d5, Bool.true_and, Bool.or_eq_true, Bool.not_eq_true', Bool.and_eq_true, bne_iff_ne,
      ne_eq, beq_iff_eq, beq_self_eq_true, Bool.and_true, List.all_eq_true, List.contains_iff_mem] at hf
    rcases hf with hf | hf
    · simp_all
    · have := hf x' hx'
      exact ⟨this.1.1, this.1.2, this.2⟩
  | pvote verified bad v taskIndex tail => simp [isDelivery] at hd
  | payload verified bad pp own => simp [isDelivery] at hd
  | timeout entropy => simp [isDelivery] at hd
  | fastTimeout entropy => simp [isDelivery] at hd
  | roundInterruption rr => simp [isDelivery] at hd
  | checkpoint r1 p1 s1 err => simp [isDelivery] at hd

section Example
open Props.C03 (exP exGood exInit)

/-- `exPabs` with the threshold lowered to the smallest step threshold of `exP` (late = 2) -/
def exPabs2 : AgreementAbs.Params := { exPabs with T := 2 }

/-- every hypothesis of `player_okVote` holds for the run `exEvents` (two periods; soft, cert, next, late, down, next votes) and
for the former counterexample run `dropEvents`, with node 7 and `exPabs2` -/
example : (∀ s, s ≠ 0 → exPabs2.T ≤ stepT exP s) ∧ exEvents.all (eventFit exPabs2 7 5) = true ∧
    prevTracksFrom 7 5 [] (recs exP exInit exEvents) = true ∧
    dropEvents.all (eventFit exPabs2 7 5) = true ∧ prevTracksFrom 7 5 [] (recs exP exInit dropEvents) = true := by
  refine ⟨?_, by decide, by decide, by decide, by decide⟩
  intro s hs
  unfold stepT
  repeat' split
  all_goals first | omega | decide

/-- … and the abstract acceptor agrees on the complete projections -/
example : AgreementAbs.wfCheck true exPabs2 (projFull exP 7 5 exInit exEvents) = true ∧
    AgreementAbs.wfCheck true exPabs2 (projFull exP 7 5 exInit dropEvents) = true := ⟨by decide, by decide⟩

end Example

/-! ### cache tracking: from a one-`handle` property of the tree to `prevTracksFrom` -/

def periodsOf (root : Root) (r : Nat) : List (Nat × PeriodR) :=
  match aget root.rounds r with
  | some rr => rr.periods
  | none => []

/-- one record, while the player stays in round `r`: the caches of the periods `≥ Period − 1` (those the router keeps)
change by `cache` operations only (a theorem of every `handle`: `cacheStepOK_handle`) -/
def CacheStepOK (r : Nat) (x : Rec) : Prop :=
  x.pre.pl.round = r → x.post.pl.round = r →
    ∀ kv ∈ periodsOf x.pre.root r, kv.1 + 1 < 18446744073709551616 → x.post.pl.period ≤ kv.1 + 1 →
      CMono (cachedOf x.pre.root r kv.1) (cachedOf x.post.root r kv.1)

instance (r : Nat) (x : Rec) : Decidable (CacheStepOK r x) := by unfold CacheStepOK; infer_instance

/-- the tracker of period 2^64 − 1 — the one `p.Period - 1` (uint64) names at period 0 — has cached nothing, i.e. no next
threshold of period 2^64 − 1 was ever delivered (run-level check, of the `PeriodsFit` family) -/
def WrapEmpty (r : Nat) (x : Rec) : Prop :=
  x.post.pl.round = r → cachedOf x.post.root r 18446744073709551615 = {}

instance (r : Nat) (x : Rec) : Decidable (WrapEmpty r x) := by unfold WrapEmpty; infer_instance

theorem cachedOf_eq (root : Root) (r q : Nat) : cachedOf root r q = cacheRoot root r q := by
  unfold cachedOf viewAt cacheRoot cacheR
  cases aget root.rounds r with
  | none => rfl
  | some rr =>
    simp only [Option.bind_some]
    cases aget rr.periods q <;> rfl

/-- **cacheStepOK_handle.**  `CacheStepOK` is a theorem of every `handle` from a state that satisfies the node invariant
(`Lemmas/PlayerAttestCacheStep.handle_c`: the third instance of the generic frame pass). -/
theorem cacheStepOK_handle (P : Params) (good : Nat → Nat → Nat → Vote → Bool) {σ σ' : State} {ev : Player.Event}
    {acts : List Action} (hI : NodeInv P good σ) (heva : EventOKA σ ev) (h : Player.handle P σ ev = .ok (σ', acts))
    (r : Nat) : CacheStepOK r ⟨σ, ev, σ', acts⟩ := by
  intro h1 h2 kv _ hq hle
  have hc := handle_c (ptok_spec P good) ptok_set hI.q hI.g heva h
  have := hc r kv.1 (cachedOf σ.root r kv.1) hq
    ⟨Nat.le_of_eq h1.symm, fun _ _ => by rw [cachedOf_eq]; exact CMono.refl _⟩
  rw [cachedOf_eq σ'.root]
  exact this.2 h2 hle

theorem cachedOf_none {root : Root} {r q : Nat} (h : viewAt root r q = none) : cachedOf root r q = {} := by
  unfold cachedOf; rw [h]; rfl

theorem viewAt_periodsOf {root : Root} {r q : Nat} {vw : PView} (h : viewAt root r q = some vw) :
    ∃ pr, (q, pr) ∈ periodsOf root r := by
  obtain ⟨rr, pr, ⟨h1, h2⟩, _⟩ := viewAt_some h
  exact ⟨pr, by unfold periodsOf; rw [h1]; exact aget_mem h2⟩

theorem cacheMono_empty (c : NextStatus) : CMono {} c := by
  refine ⟨fun h => (by cases h), ?_⟩
  by_cases h : c.proposal = 0
  · exact Or.inl h
  · exact Or.inr h

theorem cacheStep_all {r : Nat} {x : Rec} (h : CacheStepOK r x) (h1 : x.pre.pl.round = r) (h2 : x.post.pl.round = r)
    (q : Nat) (hb : q + 1 < 18446744073709551616) (hq : x.post.pl.period ≤ q + 1) :
    CMono (cachedOf x.pre.root r q) (cachedOf x.post.root r q) := by
  cases hv : viewAt x.pre.root r q with
  | none => rw [cachedOf_none hv]; exact cacheMono_empty _
  | some vw =>
    obtain ⟨pr, hm⟩ := viewAt_periodsOf hv
    exact h h1 h2 (q, pr) hm hb hq

/-! #### the abstract cache along a list of events -/

def cacheStep (n q : Nat) (c : AgreementAbs.Cache) : AgreementAbs.Ev → AgreementAbs.Cache
  | .see m p y => if m = n ∧ p = q then c.see y else c
  | _ => c

theorem stepN_cache {n q : Nat} {s : AgreementAbs.NState} {e : AgreementAbs.Ev} (h : e ≠ .crash n) :
    (AgreementAbs.stepN n s e).cur.cache q = cacheStep n q (s.cur.cache q) e := by
  cases e with
  | vote v => simp only [AgreementAbs.stepN, cacheStep]; split <;> rfl
  | see m p y =>
    simp only [AgreementAbs.stepN, cacheStep]
    by_cases hm : m = n
    · rw [if_pos hm]
      simp only [AgreementAbs.Local.see]
      by_cases hp : q = p
      · subst hp; rw [if_pos rfl, if_pos ⟨hm, rfl⟩]
      · rw [if_neg hp, if_neg (fun hc => hp hc.2.symm)]
    · rw [if_neg hm, if_neg (fun hc => hm hc.1)]
  | enter m p c => simp only [AgreementAbs.stepN, cacheStep]; split <;> rfl
  | commit m p v => rfl
  | crash m =>
    simp only [AgreementAbs.stepN, cacheStep]
    rw [if_neg (fun hm => h (by rw [hm]))]

theorem foldN_cache {n q : Nat} : ∀ (A : List AgreementAbs.Ev) (s : AgreementAbs.NState), (∀ e ∈ A, e ≠ .crash n) →
    (foldN n s A).cur.cache q = A.foldl (cacheStep n q) (s.cur.cache q) := by
  intro A
  induction A with
  | nil => intro s _; rfl
  | cons e rest ih =>
    intro s h
    show (foldN n (AgreementAbs.stepN n s e) rest).cur.cache q = _
    rw [ih _ (fun x hx => h x (List.mem_cons_of_mem _ hx)), stepN_cache (h e List.mem_cons_self)]
    rfl

theorem foldl_cacheStep_id {n q : Nat} : ∀ (A : List AgreementAbs.Ev) (c : AgreementAbs.Cache),
    (∀ e ∈ A, ∀ m p y, e ≠ .see m p y) → A.foldl (cacheStep n q) c = c := by
  intro A
  induction A with
  | nil => intro c _; rfl
  | cons e rest ih =>
    intro c h
    have he := h e List.mem_cons_self
    have : cacheStep n q c e = c := by
      cases e with
      | see m p y => exact absurd rfl (he m p y)
      | _ => rfl
    rw [List.foldl_cons, this]
    exact ih c (fun x hx => h x (List.mem_cons_of_mem _ hx))

/-- the `see` events `seeOf` emits for one period key -/
def seeEvs (n r : Nat) (pre post : Root) (k : Nat) : List AgreementAbs.Ev :=
  (if !(cachedOf pre r k).bottom && (cachedOf post r k).bottom then [AgreementAbs.Ev.see n k none] else []) ++
  (if (cachedOf post r k).proposal != (cachedOf pre r k).proposal && (cachedOf post r k).proposal != 0 then
    [AgreementAbs.Ev.see n k (some (cachedOf post r k).proposal)] else [])

theorem seeOf_eq (n r : Nat) (pre post : Root) :
    seeOf n r pre post = (periodsOf post r).flatMap (fun kv => seeEvs n r pre post kv.1) := by
  unfold seeOf periodsOf
  cases aget post.rounds r <;> rfl

theorem seeEvs_other {n r q k : Nat} {pre post : Root} (hk : k ≠ q) (c : AgreementAbs.Cache) :
    (seeEvs n r pre post k).foldl (cacheStep n q) c = c := by
  unfold seeEvs
  split <;> split <;> simp [cacheStep, hk]

theorem seeEvs_old {n r q : Nat} {pre post : Root} (hm : CMono (cachedOf pre r q) (cachedOf post r q)) :
    (seeEvs n r pre post q).foldl (cacheStep n q) (absCache (cachedOf pre r q)) = absCache (cachedOf post r q) := by
  obtain ⟨m1, m2⟩ := hm
  unfold seeEvs absCache
  generalize cachedOf pre r q = o at *
  generalize cachedOf post r q = w at *
  obtain ⟨ob, op⟩ := o
  obtain ⟨wb, wp⟩ := w
  simp only at m1 m2
  cases ob <;> cases wb <;> (try (exfalso; exact absurd (m1 rfl) (by decide))) <;> simp only [Bool.not_true, Bool.not_false, Bool.and_true,
    Bool.and_false, if_true, List.nil_append, List.cons_append] at * <;>
  (by_cases h1 : wp = op
   · subst h1; simp [cacheStep, AgreementAbs.Cache.see]
   · by_cases h2 : wp = 0
     · rcases m2 with m2 | m2
       · exact absurd m2 h1
       · exact absurd h2 m2
     · simp [cacheStep, AgreementAbs.Cache.see, h1, h2, absVal])

theorem seeEvs_new {n r q : Nat} {pre post : Root} :
    (seeEvs n r pre post q).foldl (cacheStep n q) (absCache (cachedOf post r q)) = absCache (cachedOf post r q) := by
  unfold seeEvs absCache
  generalize cachedOf pre r q = o at *
  generalize cachedOf post r q = w at *
  obtain ⟨ob, op⟩ := o
  obtain ⟨wb, wp⟩ := w
  cases ob <;> cases wb <;> simp only [Bool.not_true, Bool.not_false, Bool.and_true,
    Bool.and_false, if_true, List.nil_append, List.cons_append] <;>
  (by_cases h1 : wp = op
   · subst h1; simp [cacheStep, AgreementAbs.Cache.see]
   · by_cases h2 : wp = 0
     · subst h2; simp [cacheStep, AgreementAbs.Cache.see]
     · simp [cacheStep, AgreementAbs.Cache.see, h1, h2, absVal])

theorem sees_new {n r q : Nat} {pre post : Root} : ∀ (l : List (Nat × PeriodR)),
    (l.flatMap (fun kv => seeEvs n r pre post kv.1)).foldl (cacheStep n q) (absCache (cachedOf post r q)) =
      absCache (cachedOf post r q) := by
  intro l
  induction l with
  | nil => rfl
  | cons kv rest ih =>
    rw [List.flatMap_cons, List.foldl_append]
    by_cases hk : kv.1 = q
    · rw [hk, seeEvs_new]; exact ih
    · rw [seeEvs_other hk]; exact ih

theorem sees_old {n r q : Nat} {pre post : Root} (hm : CMono (cachedOf pre r q) (cachedOf post r q)) :
    ∀ (l : List (Nat × PeriodR)), (∃ kv ∈ l, kv.1 = q) →
    (l.flatMap (fun kv => seeEvs n r pre post kv.1)).foldl (cacheStep n q) (absCache (cachedOf pre r q)) =
      absCache (cachedOf post r q) := by
  intro l
  induction l with
  | nil => rintro ⟨kv, hkv, _⟩; cases hkv
  | cons kv rest ih =>
    intro hex
    rw [List.flatMap_cons, List.foldl_append]
    by_cases hk : kv.1 = q
    · rw [hk, seeEvs_old hm]; exact sees_new rest
    · rw [seeEvs_other hk]
      apply ih
      obtain ⟨kv', hkv', hq⟩ := hex
      rcases List.mem_cons.mp hkv' with rfl | hin
      · exact absurd hq hk
      · exact ⟨kv', hin, hq⟩

theorem absCache_empty_of_mono {o : NextStatus} (h : CMono o {}) : absCache o = absCache {} := by
  obtain ⟨h1, h2⟩ := h
  obtain ⟨ob, op⟩ := o
  simp only at h1 h2
  have hb : ob = false := by cases ob; rfl; exact absurd (h1 rfl) (by decide)
  have hp : op = 0 := by
    rcases h2 with h2 | h2
    · exact h2.symm
    · exact absurd rfl h2
  subst hb; subst hp; rfl

/-- the `see` events of one record carry the abstract cache of period `q` from the old to the new concrete cache -/
theorem seeOf_fold {n r q : Nat} {pre post : Root} (hm : CMono (cachedOf pre r q) (cachedOf post r q)) :
    (seeOf n r pre post).foldl (cacheStep n q) (absCache (cachedOf pre r q)) = absCache (cachedOf post r q) := by
  rw [seeOf_eq]
  cases hv : viewAt post r q with
  | some vw =>
    obtain ⟨pr, hmem⟩ := viewAt_periodsOf hv
    exact sees_old hm _ ⟨(q, pr), hmem, rfl⟩
  | none =>
    have hnew := cachedOf_none hv
    have : ∀ (l : List (Nat × PeriodR)) (c : AgreementAbs.Cache), (∀ kv ∈ l, kv.1 ≠ q) →
        (l.flatMap (fun kv => seeEvs n r pre post kv.1)).foldl (cacheStep n q) c = c := by
      intro l
      induction l with
      | nil => intro c _; rfl
      | cons kv rest ih =>
        intro c hne
        rw [List.flatMap_cons, List.foldl_append, seeEvs_other (hne kv List.mem_cons_self)]
        exact ih c (fun kv' h' => hne kv' (List.mem_cons_of_mem _ h'))
    rw [this]
    · rw [hnew] at hm ⊢; exact absCache_empty_of_mono hm
    · intro kv hkv hq
      obtain ⟨k, pr⟩ := kv
      simp only at hq; subst hq
      -- a key of the period list has a view
      unfold periodsOf at hkv
      unfold viewAt at hv
      cases hr : aget post.rounds r with
      | none => rw [hr] at hkv; cases hkv
      | some rr =>
        rw [hr] at hkv hv
        simp only [Option.bind_some] at hv
        cases hp : aget rr.periods k with
        | some pr' => rw [hp] at hv; cases hv
        | none => exact absurd hkv (aget_none_not_mem hp pr)

/-- the abstract cache of every period the router keeps (`q + 1 ≥ Period`) is the concrete cache -/
def TrackC (n r : Nat) (H : List AgreementAbs.Ev) (σ : State) : Prop :=
  ∀ q, q + 1 < 18446744073709551616 → σ.pl.period ≤ q + 1 →
    (AgreementAbs.nstate H n).cur.cache q = absCache (cachedOf σ.root r q)

theorem trackC_step {n r : Nat} {H : List AgreementAbs.Ev} {x : Rec} (h1 : x.pre.pl.round = r) (h2 : x.post.pl.round = r)
    (hper : x.pre.pl.period ≤ x.post.pl.period) (hc : CacheStepOK r x) (ht : TrackC n r H x.pre)
    (B : List AgreementAbs.Ev) (hB : ∀ e ∈ B, (∀ m p y, e ≠ .see m p y) ∧ e ≠ .crash n) :
    TrackC n r ((delivOf n r x.ev ++ seeOf n r x.pre.root x.post.root ++ B).reverse ++ H) x.post := by
  intro q hb hq
  have hnc : ∀ e ∈ delivOf n r x.ev ++ seeOf n r x.pre.root x.post.root ++ B, e ≠ .crash n := by
    intro e he
    simp only [List.mem_append] at he
    rcases he with (he | he) | he
    · obtain ⟨w, hw, _⟩ := mem_delivOf he; rw [hw]; intro hc'; cases hc'
    · obtain ⟨q', y', hq'⟩ := mem_seeOf he; rw [hq']; intro hc'; cases hc'
    · exact (hB e he).2
  rw [nstate_append_rev, foldN_cache _ _ hnc, List.foldl_append, List.foldl_append]
  rw [foldl_cacheStep_id (delivOf n r x.ev)]
  · rw [ht q hb (Nat.le_trans hper hq), seeOf_fold (cacheStep_all hc h1 h2 q hb hq)]
    exact foldl_cacheStep_id B _ (fun e he => (hB e he).1)
  · intro e he m p y hc'
    obtain ⟨w, hw, _⟩ := mem_delivOf he
    rw [hw] at hc'; cases hc'

theorem head_tail_ok (n r : Nat) (x : Rec) :
    (∀ e ∈ enterOf n r x.pre x.post, (∀ m p y, e ≠ .see m p y) ∧ e ≠ .crash n) ∧
    (∀ e ∈ enterOf n r x.pre x.post ++ ownOf n r x ++ x.acts.flatMap (commitOf n r),
      (∀ m p y, e ≠ .see m p y) ∧ e ≠ .crash n) := by
  have h1 : ∀ e ∈ enterOf n r x.pre x.post, (∀ m p y, e ≠ .see m p y) ∧ e ≠ .crash n := by
    intro e he
    obtain ⟨p', c, hq⟩ := mem_enterOf he
    rw [hq]; exact ⟨fun _ _ _ hc => (by cases hc), fun hc => (by cases hc)⟩
  refine ⟨h1, fun e he => ?_⟩
  simp only [List.mem_append] at he
  rcases he with (he | he) | he
  · exact h1 e he
  · unfold ownOf at he
    obtain ⟨b, _, hb⟩ := List.mem_map.mp he
    rw [← hb]; exact ⟨fun _ _ _ hc => (by cases hc), fun hc => (by cases hc)⟩
  · obtain ⟨p', w, hq⟩ := mem_commitOf he
    rw [hq]; exact ⟨fun _ _ _ hc => (by cases hc), fun hc => (by cases hc)⟩

/-- **prevTracks_of_steps.**  Cache tracking at every own vote (`prevTracksFrom`, the hypothesis `hprev` of `player_okVote`)
follows from the one-`handle` theorem `cacheStepOK_handle`, given the run-level checks `WrapEmpty` and `PeriodsFit`. -/
theorem prevTracks_of_steps (P : Params) (good : Nat → Nat → Nat → Vote → Bool) (hg : GoodSpec good) (n r : Nat) :
    ∀ (es : List Player.Event) (σ : State) (H : List AgreementAbs.Ev), NodeInv P good σ → RunOK P good σ es → RunOKA P σ es →
    r ≤ σ.pl.round → (σ.pl.round = r → TrackC n r H σ) →
    (∀ x ∈ recs P σ es, WrapEmpty r x ∧ x.post.pl.period + 1 < 18446744073709551616) →
    prevTracksFrom n r H (recs P σ es) = true := by
  intro es
  induction es with
  | nil => intro σ H _ _ _ _ _ _; rfl
  | cons e rest ih =>
    intro σ H hI hr hra hle ht hcs
    simp only [recs] at hcs ⊢
    split
    · rfl
    rename_i σ' as hh
    rw [hh] at hcs
    obtain ⟨hI', hst⟩ := handle_inv P good hg hI hr.1 hra.1 hh
    have hle' : r ≤ σ'.pl.round := Nat.le_trans hle (lex_round hst.lex)
    have hcx : CacheStepOK r ⟨σ, e, σ', as⟩ := cacheStepOK_handle P good hI hra.1 hh r
    obtain ⟨hwrap, hfit⟩ := hcs ⟨σ, e, σ', as⟩ List.mem_cons_self
    have hstep : σ'.pl.round = r → σ.pl.round = r ∧ σ.pl.period ≤ σ'.pl.period := by
      intro hσ'
      have := lex_round hst.lex
      have hσ : σ.pl.round = r := by omega
      refine ⟨hσ, ?_⟩
      rcases hst.lex with h | ⟨_, h⟩
      · omega
      · exact h
    simp only [prevTracksFrom, Bool.and_eq_true, List.all_eq_true]
    refine ⟨?_, ih σ' _ hI' (hr.2 _ _ hh) (hra.2 _ _ hh) hle' ?_ (fun y hy => hcs y (List.mem_cons_of_mem _ hy))⟩
    · intro b hb
      obtain ⟨hbm, hbr⟩ := List.mem_filter.mp hb
      rcases hst.att with hnil | ⟨b', hb', hr', hp', _⟩
      · rw [hnil] at hbm; cases hbm
      · rw [hb'] at hbm
        simp only [List.mem_singleton] at hbm
        subst hbm
        have hσ' : σ'.pl.round = r := by rw [← hr']; simpa using hbr
        obtain ⟨hσ, hper⟩ := hstep hσ'
        have htr := trackC_step (x := ⟨σ, e, σ', as⟩) hσ hσ' hper hcx (ht hσ) _ (head_tail_ok n r ⟨σ, e, σ', as⟩).1
        unfold prevLinkB
        cases hv : viewAt σ'.root r (predPeriod b.p) with
        | none => rfl
        | some vw =>
          simp only [decide_eq_true_eq]
          have hcv : cachedOf σ'.root r (predPeriod b.p) = vw.cached := by unfold cachedOf; rw [hv]; rfl
          unfold AgreementAbs.Local.prev
          by_cases h0 : b.p = 0
          · rw [if_pos h0, ← hcv, h0]
            have := hwrap hσ'
            show AgreementAbs.Cache.empty = absCache (cachedOf σ'.root r 18446744073709551615)
            rw [this]; rfl
          · have hpp : predPeriod b.p = b.p - 1 := by unfold predPeriod; rw [if_neg h0]
            rw [if_neg h0, ← hcv, hpp]
            have hfit' : σ'.pl.period + 1 < 18446744073709551616 := hfit
            exact htr (b.p - 1) (by omega) (by show σ'.pl.period ≤ b.p - 1 + 1; omega)
    · intro hσ'
      obtain ⟨hσ, hper⟩ := hstep hσ'
      have htr := trackC_step (x := ⟨σ, e, σ', as⟩) hσ hσ' hper hcx (ht hσ) _ (head_tail_ok n r ⟨σ, e, σ', as⟩).2
      have heq : evsOf n r ⟨σ, e, σ', as⟩ = delivOf n r e ++ seeOf n r σ.root σ'.root ++
          (enterOf n r σ σ' ++ ownOf n r ⟨σ, e, σ', as⟩ ++ as.flatMap (commitOf n r)) := by
        rw [evsOf_eq]; unfold headOf; simp only [List.append_assoc]
      rw [heq]; exact htr

/-- the cache-tracking hypothesis of `player_votes_justified_partial` is a theorem (given `WrapEmpty` and `PeriodsFit`) -/
theorem prevTracks_fresh (P : Params) (good : Nat → Nat → Nat → Vote → Bool) (hg : GoodSpec good) (n r : Nat) (σ₀ : State)
    (h0 : Fresh σ₀) (es : List Player.Event) (hr : RunOK P good σ₀ es) (hra : RunOKA P σ₀ es) (hr0 : σ₀.pl.round = r)
    (hpf : PeriodsFit (snaps P σ₀ es)) (hw : ∀ x ∈ recs P σ₀ es, WrapEmpty r x) :
    prevTracksFrom n r [] (recs P σ₀ es) = true := by
  refine prevTracks_of_steps P good hg n r es σ₀ [] (fresh_inv P good h0) hr hra (by omega) (fun _ q _ _ => ?_)
    (fun x hx => ⟨hw x hx, hpf (x.post, atts x.acts) (by rw [snaps_eq_recs]; exact List.mem_map.mpr ⟨x, hx, rfl⟩)⟩)
  have : cachedOf σ₀.root r q = {} := by
    apply cachedOf_none
    unfold viewAt
    rw [h0.1]; rfl
  rw [this]; rfl

/-- **player_votes_justified** (fresh node, the round it starts in, no crash).  Every own event of `projFull` — vote, `see`,
`enter`, `commit` — is allowed by the abstract local rules w.r.t. the history before it.  `hprev` of
`player_votes_justified_partial` is now a theorem (`prevTracks_fresh`, through `cacheStepOK_handle`); what is left of it is
the run-level check `WrapEmpty` (period 2^64 − 1 never has a next threshold).  `hcause` remains. -/
theorem player_votes_justified (P : Params) (base : Nat → Nat → Nat → Vote → Bool) (hg : GoodSpec base) (σ₀ : State)
    (h0 : Fresh σ₀) (es : List Player.Event) (henv : EnvOK P base σ₀ es) (hpf : PeriodsFit (snaps P σ₀ es))
    (Pabs : AgreementAbs.Params) (hT : 0 < Pabs.T) (n r : Nat) (hr0 : σ₀.pl.round = r) (hp0 : σ₀.pl.period = 0)
    (hthr : ∀ s, s ≠ 0 → Pabs.T ≤ stepT P s)
    (hnodes : ∀ p s a, goodIn base es r p s a = true →
      a.sender ∈ Pabs.nodes ∧ Pabs.w a.sender = a.weight ∧ a.sender ≠ n)
    (hw : ∀ x ∈ recs P σ₀ es, WrapEmpty r x)
    (hcause : ∀ post pre m p c, projFull P n r σ₀ es = post ++ AgreementAbs.Ev.enter m p c :: pre →
      AgreementAbs.REnterCause Pabs pre m p c) :
    ∀ post e pre, projFull P n r σ₀ es = post ++ e :: pre →
      (∀ v, e = .vote v → v.n = n) → AgreementAbs.okEv true Pabs pre e :=
  player_votes_justified_partial P base hg σ₀ h0 es henv hpf Pabs hT n r hr0 hp0 hthr hnodes
    (prevTracks_fresh P base hg n r σ₀ h0 es henv.run henv.runA hr0 hpf hw) hcause

/-- `WrapEmpty` holds on the example runs -/
example : (∀ x ∈ recs Props.C03.exP Props.C03.exInit exEvents, WrapEmpty 5 x) ∧
    (∀ x ∈ recs Props.C03.exP Props.C03.exInit dropEvents, WrapEmpty 5 x) := ⟨by decide, by decide⟩

/-! ### several PlayerM nodes and one global history ⇒ `WF` ⇒ agreement (C01)

Scope: every honest node is a fresh PlayerM node that starts in round `r`; only round `r` is projected; no crash events.
The global history `h` contains the own events of the honest nodes (in the order they happened) and arbitrary events of
Byzantine nodes; `Consistent n (projFull …) h` (executable: `consistentB`) says that `h` restricted to node `n` is `n`'s
projected run and that every vote delivered to `n` before one of its events was cast in `h` before that event. -/

section Global
open AlgoVerif.Lemmas.PlayerAttestGlobal

/-- what `player_votes_justified` asks of one node's run -/
structure NodeRun (P : Params) (base : Nat → Nat → Nat → Vote → Bool) (Pabs : AgreementAbs.Params) (r n : Nat)
    (σ₀ : State) (es : List Player.Event) : Prop where
  fresh : Fresh σ₀
  env : EnvOK P base σ₀ es
  fit : PeriodsFit (snaps P σ₀ es)
  round : σ₀.pl.round = r
  period : σ₀.pl.period = 0
  nodes : ∀ p s a, goodIn base es r p s a = true → a.sender ∈ Pabs.nodes ∧ Pabs.w a.sender = a.weight ∧ a.sender ≠ n
  wrap : ∀ x ∈ recs P σ₀ es, WrapEmpty r x
  cause : ∀ post pre m p c, projFull P n r σ₀ es = post ++ AgreementAbs.Ev.enter m p c :: pre →
    AgreementAbs.REnterCause Pabs pre m p c

/-- executable form of `NodeRun.cause` -/
def causeOKB (Pabs : AgreementAbs.Params) (hl : List AgreementAbs.Ev) : Bool :=
  (splits hl).all (fun x => match x.1 with
    | .enter m p c => decide (AgreementAbs.REnterCause Pabs x.2 m p c)
    | _ => true)

theorem causeOKB_sound {Pabs : AgreementAbs.Params} {hl : List AgreementAbs.Ev} (h : causeOKB Pabs hl = true) :
    ∀ post pre m p c, hl = post ++ AgreementAbs.Ev.enter m p c :: pre → AgreementAbs.REnterCause Pabs pre m p c := by
  intro post pre m p c hs
  have := List.all_eq_true.mp h (_, pre) (mem_splits.2 ⟨post, hs⟩)
  simpa using this

/-- the node's own events in its projected run obey the local rules -/
theorem player_localOK (P : Params) (base : Nat → Nat → Nat → Vote → Bool) (hg : GoodSpec base)
    (Pabs : AgreementAbs.Params) (hT : 0 < Pabs.T) (r : Nat) (hthr : ∀ s, s ≠ 0 → Pabs.T ≤ stepT P s) (n : Nat)
    (σ₀ : State) (es : List Player.Event) (hn : NodeRun P base Pabs r n σ₀ es) :
    LocalOK Pabs n (projFull P n r σ₀ es) := by
  intro post e pre hs ho
  exact player_votes_justified P base hg σ₀ hn.fresh es hn.env hn.fit Pabs hT n r hn.round hn.period hthr hn.nodes
    hn.wrap hn.cause post e pre hs (fun v hv => by subst hv; exact ho)

/-- **players_wf.**  Honest nodes that are PlayerM runs, consistent with one global history `h`: `h` is well formed. -/
theorem players_wf (P : Params) (base : Nat → Nat → Nat → Vote → Bool) (hg : GoodSpec base)
    (Pabs : AgreementAbs.Params) (hT : 0 < Pabs.T) (r : Nat) (hthr : ∀ s, s ≠ 0 → Pabs.T ≤ stepT P s)
    (init : Nat → State) (evs : Nat → List Player.Event) (h : List AgreementAbs.Ev)
    (hrun : ∀ n, Pabs.honest n = true → NodeRun P base Pabs r n (init n) (evs n))
    (hcons : ∀ n, Pabs.honest n = true → Consistent n (projFull P n r (init n) (evs n)) h) :
    AgreementAbs.WF true Pabs h :=
  global_wf (fun n => projFull P n r (init n) (evs n)) hcons
    (fun n hn => player_localOK P base hg Pabs hT r hthr n (init n) (evs n) (hrun n hn))

/-- **players_agree** (C01 for PlayerM nodes).  Under the quorum hypothesis, all `commit` events of honest PlayerM nodes in
the global history of the round carry one value. -/
theorem players_agree (P : Params) (base : Nat → Nat → Nat → Vote → Bool) (hg : GoodSpec base)
    (Pabs : AgreementAbs.Params) (hq : AgreementAbs.HQ Pabs) (hT : 0 < Pabs.T) (r : Nat)
    (hthr : ∀ s, s ≠ 0 → Pabs.T ≤ stepT P s)
    (init : Nat → State) (evs : Nat → List Player.Event) (h : List AgreementAbs.Ev)
    (hrun : ∀ n, Pabs.honest n = true → NodeRun P base Pabs r n (init n) (evs n))
    (hcons : ∀ n, Pabs.honest n = true → Consistent n (projFull P n r (init n) (evs n)) h)
    {n n' p p' v v' : Nat} (hn : Pabs.honest n = true) (hn' : Pabs.honest n' = true)
    (h1 : AgreementAbs.Ev.commit n p v ∈ h) (h2 : AgreementAbs.Ev.commit n' p' v' ∈ h) : v = v' :=
  Props.C01.commit_unique hq (players_wf P base hg Pabs hT r hthr init evs h hrun hcons) hn hn' h1 h2

/-! #### example: three honest PlayerM nodes (3, 4, 5; weight 4 each) and a Byzantine sender (2; weight 1), threshold 9.
(With the own vote not looped back — `NodeRun.nodes` — an honest node needs the other nodes' weight for a quorum, so the
quorum hypothesis `W + F < 2T` needs three honest nodes.)  Node 2 equivocates: it cert-votes 52 to node 5 and 51 to all. -/

def exP4 : Params := ⟨9, 9, 9, 9, 9, 9, true, 2000, 4000, 4000, 6000, 2000, 300000, 8⟩
def exGood4 : Nat → Nat → Nat → Vote → Bool := fun _ _ _ a => a.weight == (if a.sender == 2 then 1 else 4)
def exInit4 : State := { pl := { round := 5, deadlineDur := 2000 }, root := {} }
/-- proposal-vote 51, filter timeout (soft vote), payload, soft votes of the others (4 + 4 + 1 ≥ 9 ⇒ cert vote), `extra`,
cert votes of the others (⇒ commit) -/
def nodeEvents (y z : Nat) (extra : List Player.Event) : List Player.Event :=
  [.pvote true 0 ⟨9, 5, 0, 51, 3⟩ 0 none, .timeout 0, .payload true 0 ⟨51, 5⟩ false,
   .vote true 0 5 0 1 ⟨y, 4, 51⟩, .vote true 0 5 0 1 ⟨z, 4, 51⟩, .vote true 0 5 0 1 ⟨2, 1, 51⟩] ++ extra ++
  [.vote true 0 5 0 2 ⟨y, 4, 51⟩, .vote true 0 5 0 2 ⟨z, 4, 51⟩, .vote true 0 5 0 2 ⟨2, 1, 51⟩]
def exEvs (n : Nat) : List Player.Event :=
  if n = 3 then nodeEvents 4 5 [] else if n = 4 then nodeEvents 3 5 [] else nodeEvents 3 4 [.vote true 0 5 0 2 ⟨2, 1, 52⟩]
def exPabs4 : AgreementAbs.Params :=
  ⟨[2, 3, 4, 5], fun a => if a = 2 then 1 else 4, fun a => a == 3 || a == 4 || a == 5, 9⟩
/-- the global history (newest first) -/
def exGlobal : List AgreementAbs.Ev :=
  [.commit 5 0 51, .commit 4 0 51, .commit 3 0 51,
   .vote ⟨2, 0, .cert, some 51⟩, .vote ⟨2, 0, .cert, some 52⟩,
   .vote ⟨5, 0, .cert, some 51⟩, .vote ⟨4, 0, .cert, some 51⟩, .vote ⟨3, 0, .cert, some 51⟩,
   .vote ⟨2, 0, .soft, some 51⟩, .vote ⟨5, 0, .soft, some 51⟩, .vote ⟨4, 0, .soft, some 51⟩, .vote ⟨3, 0, .soft, some 51⟩]

theorem exGood4_spec : GoodSpec exGood4 where
  pos := by intro r p s a h; simp only [exGood4, beq_iff_eq] at h; rw [h]; split <;> omega
  cons := by intro r p s a b ha hb hs; simp only [exGood4, beq_iff_eq] at ha hb; rw [ha, hb, hs]

theorem exThr4 : ∀ s, s ≠ 0 → exPabs4.T ≤ stepT exP4 s := by
  intro s hs
  unfold stepT
  repeat' split
  all_goals first | omega | decide

theorem exNodeRun (n : Nat) (hn : n = 3 ∨ n = 4 ∨ n = 5) : NodeRun exP4 exGood4 exPabs4 5 n exInit4 (exEvs n) := by
  rcases hn with rfl | rfl | rfl
  all_goals exact
    { fresh := ⟨rfl, rfl, rfl⟩
      env := envOKb_sound _ _ _ _ (by decide)
      fit := by decide
      round := rfl
      period := rfl
      nodes := eventFit_sound _ _ _ _ _ (by decide)
      wrap := by decide
      cause := causeOKB_sound (by decide) }

theorem exHonest4 {n : Nat} (hn : exPabs4.honest n = true) : n = 3 ∨ n = 4 ∨ n = 5 := by
  simp only [exPabs4, Bool.or_eq_true, beq_iff_eq] at hn
  rcases hn with (h | h) | h
  · exact Or.inl h
  · exact Or.inr (Or.inl h)
  · exact Or.inr (Or.inr h)

/-- every hypothesis of `players_agree` holds here (the consistency of each node's run with `exGlobal` by evaluation) … -/
theorem exGlobal_wf : AgreementAbs.WF true exPabs4 exGlobal :=
  players_wf exP4 exGood4 exGood4_spec exPabs4 (by decide) 5 exThr4 (fun _ => exInit4) exEvs exGlobal
    (fun n hn => exNodeRun n (exHonest4 hn))
    (fun n hn => by
      rcases exHonest4 hn with rfl | rfl | rfl <;> exact consistentB_sound (by decide))

/-- … the quorum hypothesis too, and the three nodes commit (the same value, by `players_agree`) -/
example : AgreementAbs.HQ exPabs4 ∧ AgreementAbs.commits exPabs4 exGlobal = [(5, 0, 51), (4, 0, 51), (3, 0, 51)] ∧
    AgreementAbs.wfCheck true exPabs4 exGlobal = true := ⟨by decide, by decide, by decide⟩

/-- the consistency predicate is not vacuous: a global history in which node 3's cert vote precedes the soft votes that
justified it at node 3 is rejected -/
example : consistentB 3 (projFull exP4 3 5 exInit4 (exEvs 3))
    [.vote ⟨3, 0, .cert, some 51⟩, .vote ⟨3, 0, .soft, some 51⟩] = false := by decide

end Global

end Props.C01PlayerWF
