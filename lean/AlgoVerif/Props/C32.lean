/-
C32 — AVM opcodes compute exactly their specified results.

For every opcode `op_exact_<op>` states  `Model.AVMArith.<goFunction> operands = Spec.AVMArith.<op> operands`
for ALL operands (uint64 cells: every `Nat < 2^64` where a range hypothesis is needed at all; byte
strings: every `List UInt8`), including the failure conditions.  The model is the Go code's
computation (wrapping uint64 arithmetic with the code's own overflow tests, `bits.Add64/Mul64/Div64`,
Crenshaw's sqrt loop, the exp loops, big-endian folds, zero stripping, zero padding); the spec is exact
arithmetic over `Nat` and big-endian values.  The same `Spec` functions are what the driver `c32` evaluates
next to the real evaluator.
-/
import AlgoVerif.Lemmas.AVMArithByteOps
import AlgoVerif.Lemmas.AVMArithSqrt
import AlgoVerif.Lemmas.AVMArithExp
namespace Props.C32
open AlgoVerif.U64 Spec.AVMArith Model.AVMArith Lemmas.AVMArith

theorem M64_eq : (2:Nat)^64 = M64 := by decide
theorem M128_eq : (2:Nat)^128 = M128 := by decide

/-! ## uint64 family -/

theorem op_exact_plus (a b : Nat) : opPlus a b = add a b := by
  unfold opPlus add add64 okInt
  simp only [M64_eq, Nat.add_zero]
  unfold M64
  by_cases h : a + b < 18446744073709551616
  · have h1 : ¬ (a + b) / 18446744073709551616 > 0 := by omega
    have h2 : (a + b) % 18446744073709551616 = a + b := by omega
    rw [if_neg h1, if_pos h, h2]
  · have h1 : (a + b) / 18446744073709551616 > 0 := by omega
    rw [if_pos h1, if_neg h]

theorem op_exact_minus (a b : Nat) (ha : a < 2^64) (hb : b < 2^64) : opMinus a b = sub a b := by
  unfold opMinus sub usub okInt
  simp only [M64_eq] at *
  unfold M64 at *
  by_cases h : b ≤ a
  · have h1 : ¬ b > a := by omega
    have h2 : (a + 18446744073709551616 - b % 18446744073709551616) % 18446744073709551616 = a - b := by omega
    simp [h, h1, h2]
  · have h1 : b > a := by omega
    simp [h, h1]

theorem op_exact_mul (a b : Nat) : opMul a b = mul a b := by
  unfold opMul mul mul64 okInt
  simp only [M64_eq]
  unfold M64
  by_cases h : a * b < 18446744073709551616
  · have h1 : ¬ a * b / 18446744073709551616 > 0 := by omega
    have h2 : a * b % 18446744073709551616 = a * b := by omega
    rw [if_neg h1, if_pos h, h2]
  · have h1 : a * b / 18446744073709551616 > 0 := by omega
    rw [if_pos h1, if_neg h]

theorem op_exact_div (a b : Nat) : opDiv a b = div a b := by
  unfold opDiv div okInt; rfl
theorem op_exact_mod (a b : Nat) : opModulo a b = mod a b := by
  unfold opModulo mod okInt; rfl

theorem op_exact_lt (a b : Nat) : opLt a b = lt a b := by
  unfold opLt lt okBool boolToSV b2n; rfl
theorem op_exact_gt (a b : Nat) : opGt a b = gt a b := by
  unfold opGt opLt gt okBool boolToSV b2n; rfl
theorem op_exact_le (a b : Nat) : opLe a b = le a b := by
  unfold opLe opGt opLt thenNot opNot le okBool boolToSV b2n
  by_cases h : b < a
  · have : ¬ a ≤ b := by omega
    simp [h, this]
  · have : a ≤ b := by omega
    simp [h, this]
theorem op_exact_ge (a b : Nat) : opGe a b = ge a b := by
  unfold opGe opLt thenNot opNot ge okBool boolToSV b2n
  by_cases h : a < b
  · have : ¬ a ≥ b := by omega
    simp [h, this]
  · have : a ≥ b := by omega
    simp [h, this]
theorem op_exact_and (a b : Nat) : opAnd a b = land a b := by
  unfold opAnd land okBool boolToSV b2n
  by_cases h1 : a = 0 <;> by_cases h2 : b = 0 <;> simp [h1, h2]
theorem op_exact_or (a b : Nat) : opOr a b = lor a b := by
  unfold opOr lor okBool boolToSV b2n
  by_cases h1 : a = 0 <;> by_cases h2 : b = 0 <;> simp [h1, h2]
theorem op_exact_not (a : Nat) : opNot a = lnot a := by
  unfold opNot lnot okBool boolToSV b2n; rfl
theorem op_exact_eq (a b : Val) : opEq a b = eq a b := by
  cases a <;> cases b <;> simp [opEq, eq, okBool, boolToSV, b2n]
theorem op_exact_neq (a b : Val) : opNeq a b = neq a b := by
  cases a <;> cases b <;> simp [opNeq, opEq, neq, thenNot, opNot, okBool, boolToSV, b2n]
theorem op_exact_bitor (a b : Nat) : opBitOr a b = bitor a b := rfl
theorem op_exact_bitand (a b : Nat) : opBitAnd a b = bitand a b := rfl
theorem op_exact_bitxor (a b : Nat) : opBitXor a b = bitxor a b := rfl

theorem xor_allones (a : Nat) (ha : a < 2^64) : a ^^^ 0xffffffffffffffff = 2^64 - 1 - a := by
  apply Nat.eq_of_testBit_eq
  intro i
  have : 2^64 - 1 - a = 2^64 - (a + 1) := by omega
  rw [this, Nat.testBit_two_pow_sub_succ ha, Nat.testBit_xor]
  have h1 : (0xffffffffffffffff : Nat) = 2^64 - (0 + 1) := by decide
  rw [h1, Nat.testBit_two_pow_sub_succ (by decide)]
  simp
  by_cases hi : i < 64
  · simp [hi]
  · simp [hi]
    exact Nat.testBit_lt_two_pow (Nat.lt_of_lt_of_le ha (Nat.pow_le_pow_right (by decide) (by omega)))

theorem op_exact_bitnot (a : Nat) (ha : a < 2^64) : opBitNot a = bitnot a := by
  unfold opBitNot bitnot okInt
  rw [xor_allones a ha, M64_eq]

theorem op_exact_shl (a s : Nat) : opShiftLeft a s = shl a s := by
  unfold opShiftLeft shl ushl okInt
  rw [Nat.shiftLeft_eq, M64_eq]
  by_cases h : s > 63
  · have : s ≥ 64 := by omega
    simp [h, this]
  · have : ¬ s ≥ 64 := by omega
    simp [h, this]
theorem op_exact_shr (a s : Nat) : opShiftRight a s = shr a s := by
  unfold opShiftRight shr okInt
  rw [Nat.shiftRight_eq_div_pow]
  by_cases h : s > 63
  · have : s ≥ 64 := by omega
    simp [h, this]
  · have : ¬ s ≥ 64 := by omega
    simp [h, this]

theorem op_exact_addw (a b : Nat) : opAddw a b = addw a b := by
  unfold opAddw addw add64; simp [M64_eq]
theorem op_exact_mulw (a b : Nat) : opMulw a b = mulw a b := by
  unfold opMulw mulw mul64; simp [M64_eq]

theorem op_exact_divw (hi lo y : Nat) (hlo : lo < 2^64) : opDivw hi lo y = divw hi lo y := by
  unfold opDivw divw div64 okInt
  simp only [M64_eq] at *
  unfold M64 at *
  by_cases hy : y = 0
  · simp [hy]
  · have hypos : 0 < y := Nat.pos_of_ne_zero hy
    rw [if_neg hy, if_neg hy]
    by_cases hov : y ≤ hi
    · have : ¬ (hi * 18446744073709551616 + lo) / y < 18446744073709551616 := by
        intro h
        rw [Nat.div_lt_iff_lt_mul hypos] at h
        omega
      rw [if_pos hov, if_neg this]
    · have : (hi * 18446744073709551616 + lo) / y < 18446744073709551616 := by
        rw [Nat.div_lt_iff_lt_mul hypos]
        omega
      rw [if_neg hov, if_pos this, Nat.mod_eq_of_lt this]

theorem divmod_trunc (n d : Nat) (hn : n < 340282366920938463463374607431768211456) :
    n / d / 18446744073709551616 % 18446744073709551616 = n / d / 18446744073709551616 ∧
    n % d / 18446744073709551616 % 18446744073709551616 = n % d / 18446744073709551616 := by
  have hq : n / d ≤ n := Nat.div_le_self n d
  have hr : n % d ≤ n := Nat.mod_le n d
  generalize n / d = q at *
  generalize n % d = r at *
  constructor <;> (apply Nat.mod_eq_of_lt; omega)

theorem op_exact_divmodw (hiN loN hiD loD : Nat) (h1 : hiN < 2^64) (h2 : loN < 2^64) :
    opDivModw hiN loN hiD loD = divmodw hiN loN hiD loD := by
  unfold opDivModw opDivModwImpl divmodw uint128 bigUint64
  simp only [Nat.shiftLeft_eq, Nat.shiftRight_eq_div_pow, M64_eq] at *
  unfold M64 at *
  by_cases hz : loD = 0 ∧ hiD = 0
  · have : hiD * 18446744073709551616 + loD = 0 := by omega
    simp [hz]
  · have hd : ¬ (hiD * 18446744073709551616 + loD = 0) := by omega
    rw [if_neg hz]
    have hnlt : hiN * 18446744073709551616 + loN < 340282366920938463463374607431768211456 := by omega
    have := divmod_trunc (hiN * 18446744073709551616 + loN) (hiD * 18446744073709551616 + loD) hnlt
    simp only [hd, if_false]
    rw [this.1, this.2]


/-- `sqrt`: Crenshaw's 32-iteration loop returns ⌊√a⌋ -/
theorem op_exact_sqrt (a : Nat) (ha : a < 2^64) : opSqrt a = sqrt a := by
  unfold opSqrt sqrt okInt
  rw [crenshaw_correct a ha]

/-- what `sqrt`/`bsqrt` specify: `s² ≤ x < (s+1)²`, and that pins `s` -/
theorem sqrt_is_floor (x : Nat) : isqrt x * isqrt x ≤ x ∧ x < (isqrt x + 1) * (isqrt x + 1) := isqrt_spec x
theorem sqrt_floor_unique (x s : Nat) (h1 : s * s ≤ x) (h2 : x < (s + 1) * (s + 1)) : s = isqrt x :=
  isqrt_unique x s h1 h2

/-- `bitlen` on either kind of cell: `bits.Len64`, or the first-non-zero-byte loop, = bit length of the value -/
theorem op_exact_bitlen (v : Val) : opBitLen v = bitlenOp v := by
  cases v with
  | int a => unfold opBitLen bitlenOp len64 bitlen okInt; rfl
  | bytes b => simp only [opBitLen, bitlenOp, okInt, bitLenBytes_eq]
/-- `bitlen n` is the least `k` with `n < 2^k` -/
theorem bitlen_least (n k : Nat) : bitlen n ≤ k ↔ n < 2 ^ k := bitlen_le_iff n k

/-- `exp`: the multiplication loop with its `next/answer != base` test = exact power or overflow -/
theorem op_exact_exp (a e : Nat) (ha : a < 2^64) : opExp a e = exp a e := by
  unfold opExp exp okInt
  rw [opExpImpl_exact a e ha, M64_eq]
  by_cases ha0 : a = 0
  · subst ha0
    by_cases he : e = 0
    · simp [he]
    · simp [he, Nat.zero_pow (Nat.pos_of_ne_zero he)]; decide
  · by_cases ha1 : a = 1
    · subst ha1; simp; decide
    · have h00 : ¬ (a = 0 ∧ e = 0) := fun h => ha0 h.1
      rw [if_neg h00, if_neg ha0, if_neg ha1]
      by_cases h64 : e ≥ 64
      · have := two_pow_le_pow a e 64 (by omega) h64
        rw [M64_eq] at this
        have : ¬ a ^ e < M64 := by omega
        rw [if_pos h64, if_neg this]
      · rw [if_neg h64]
        by_cases hfit : a ^ e < M64
        · rw [if_pos hfit, if_pos hfit]
        · rw [if_neg hfit, if_neg hfit]

/-- the executable spec of `exp` is the plain mathematical statement -/
theorem exp_eq_expMath (a e : Nat) : exp a e = expMath a e := by
  unfold exp expMath
  by_cases ha0 : a = 0
  · subst ha0
    by_cases he : e = 0
    · simp [he]
    · simp [he, Nat.zero_pow (Nat.pos_of_ne_zero he)]; decide
  · by_cases ha1 : a = 1
    · subst ha1; simp; decide
    · have h00 : ¬ (a = 0 ∧ e = 0) := fun h => ha0 h.1
      rw [if_neg h00, if_neg ha0, if_neg ha1]
      by_cases h64 : e ≥ 64
      · have := two_pow_le_pow a e 64 (by omega) h64
        rw [M64_eq] at this
        have : ¬ a ^ e < M64 := by omega
        rw [if_pos h64, if_neg this]
      · rw [if_neg h64]

theorem opExp_never_panics (a e : Nat) (ha : a < 2^64) : opExp a e ≠ .error .panic := by
  rw [op_exact_exp a e ha, exp_eq_expMath]
  unfold expMath okInt
  split
  · simp
  · split <;> simp

/-- `expw`: big-integer loop with its `BitLen() > 128` test = hi/lo of the exact power, or overflow -/
theorem op_exact_expw (a e : Nat) (ha : a < 2^64) : opExpw a e = expw a e := by
  unfold opExpw expw bigUint64
  rw [opExpwImpl_exact a e ha, M128_eq]
  simp only [Nat.shiftRight_eq_div_pow, M64_eq]
  by_cases ha0 : a = 0
  · subst ha0
    by_cases he : e = 0
    · simp [he]
    · have : (0:Nat) ^ e = 0 := Nat.zero_pow (Nat.pos_of_ne_zero he)
      simp [he, this]; decide
  · by_cases ha1 : a = 1
    · subst ha1; simp; decide
    · have h00 : ¬ (a = 0 ∧ e = 0) := fun h => ha0 h.1
      rw [if_neg h00, if_neg ha0, if_neg ha1]
      by_cases h128 : e ≥ 128
      · have := two_pow_le_pow a e 128 (by omega) h128
        rw [M128_eq] at this
        have : ¬ a ^ e < M128 := by omega
        rw [if_pos h128, if_neg this]
      · rw [if_neg h128]
        by_cases hfit : a ^ e < M128
        · rw [if_pos hfit, if_pos hfit]
          have : a ^ e / M64 % M64 = a ^ e / M64 := by
            apply Nat.mod_eq_of_lt
            unfold M128 at hfit; unfold M64; omega
          simp only [this]
        · rw [if_neg hfit, if_neg hfit]

theorem expw_eq_expwMath (a e : Nat) : expw a e = expwMath a e := by
  unfold expw expwMath
  by_cases ha0 : a = 0
  · subst ha0
    by_cases he : e = 0
    · simp [he]
    · have : (0:Nat) ^ e = 0 := Nat.zero_pow (Nat.pos_of_ne_zero he)
      simp [he, this]; decide
  · by_cases ha1 : a = 1
    · subst ha1; simp; decide
    · have h00 : ¬ (a = 0 ∧ e = 0) := fun h => ha0 h.1
      rw [if_neg h00, if_neg ha0, if_neg ha1]
      by_cases h128 : e ≥ 128
      · have := two_pow_le_pow a e 128 (by omega) h128
        rw [M128_eq] at this
        have : ¬ a ^ e < M128 := by omega
        rw [if_pos h128, if_neg this]
      · rw [if_neg h128]

theorem opDivModw_never_panics (hiN loN hiD loD : Nat) (h1 : hiN < 2^64) (h2 : loN < 2^64) :
    opDivModw hiN loN hiD loD ≠ .error .panic := by
  rw [op_exact_divmodw hiN loN hiD loD h1 h2]
  unfold divmodw
  simp only
  split <;> simp

/-! ## conversions -/

theorem ofNat_shift (a s k : Nat) (h : 2 ^ s = 256 ^ k) : UInt8.ofNat (a >>> s) = UInt8.ofNat (a / 256 ^ k % 256) := by
  rw [Nat.shiftRight_eq_div_pow, h]
  exact (UInt8.ofNat_mod_size (x := a / 256 ^ k)).symm

/-- `itob`: `PutUint64` = the 8-byte big-endian encoding -/
theorem op_exact_itob (a : Nat) : opItob a = itob a := by
  unfold opItob itob okBytes
  simp only [beFixed]
  rw [ofNat_shift a 56 7 (by decide), ofNat_shift a 48 6 (by decide), ofNat_shift a 40 5 (by decide),
    ofNat_shift a 32 4 (by decide), ofNat_shift a 24 3 (by decide), ofNat_shift a 16 2 (by decide),
    ofNat_shift a 8 1 (by decide)]
  have : UInt8.ofNat a = UInt8.ofNat (a / 256 ^ 0 % 256) := by
    simp only [Nat.pow_zero, Nat.div_one]
    exact (UInt8.ofNat_mod_size (x := a)).symm
  rw [this]

/-- `itob` produces 8 bytes whose value is the operand -/
theorem itob_value (a : Nat) (ha : a < 2^64) : (beFixed 8 a).length = 8 ∧ beVal (beFixed 8 a) = a := by
  refine ⟨beFixed_length 8 a, ?_⟩
  rw [beVal_beFixed]
  apply Nat.mod_eq_of_lt
  have : (256:Nat) ^ 8 = 2 ^ 64 := by decide
  omega

/-- `btoi`: the shift-and-or loop = big-endian value; fails iff longer than 8 bytes -/
theorem op_exact_btoi (b : Bytes) : opBtoi b = btoi b := by
  unfold opBtoi btoi okInt
  by_cases h : b.length > 8
  · rw [if_pos h, if_pos h]
  · rw [if_neg h, if_neg h, btoiLoop_eq_beVal b (by omega)]

theorem btoi_in_range (b : Bytes) (h : b.length ≤ 8) : beVal b < 2 ^ 64 := by
  have h1 := beVal_lt b
  have h2 : 256 ^ b.length ≤ 256 ^ 8 := Nat.pow_le_pow_right (by decide) h
  have : (256:Nat) ^ 8 = 2 ^ 64 := by decide
  omega

theorem btoi_itob (a : Nat) (ha : a < 2^64) : btoi (beFixed 8 a) = okInt a := by
  unfold btoi
  have ⟨h1, h2⟩ := itob_value a ha
  rw [if_neg (by omega), h2]

/-! ## big-endian encode / decode (what "the byte string denotes" and "minimal-length output" mean) -/

theorem decode_encode (n : Nat) : beVal (beEnc n) = n := beVal_beEnc n
theorem encode_no_leading_zero (n : Nat) (b : UInt8) (rest : Bytes) (h : beEnc n = b :: rest) : b ≠ 0 :=
  beEnc_head_ne_zero n b rest h
theorem encode_unique (n : Nat) (bs : Bytes) (hv : beVal bs = n)
    (hc : bs = [] ∨ ∃ b rest, bs = b :: rest ∧ b ≠ 0) : bs = beEnc n := beEnc_unique n bs hv hc
theorem encode_minimal (bs : Bytes) : (beEnc (beVal bs)).length ≤ bs.length := beEnc_length_minimal bs
theorem encode_length_le_iff (n k : Nat) : (beEnc n).length ≤ k ↔ n < 256 ^ k := beEnc_length_le_iff n k
theorem decode_lt (bs : Bytes) : beVal bs < 256 ^ bs.length := beVal_lt bs
/-- `big.Int.SetBytes` as a left fold is the positional value -/
theorem setBytes_is_value (bs : Bytes) : setBytes bs = beVal bs := setBytes_eq_beVal bs
theorem fixed_decode (bs : Bytes) : beFixed bs.length (beVal bs) = bs := beFixed_beVal bs
theorem decode_fixed (k n : Nat) : beVal (beFixed k n) = n % 256 ^ k := beVal_beFixed k n

/-! ## byte math -/

theorem tooLong_swap (a b : Bytes) :
    (b.length > maxByteMathSize ∨ a.length > maxByteMathSize) ↔ tooLong2 a b := by
  unfold tooLong2 maxByteMath maxByteMathSize; constructor <;> intro h <;> omega

theorem binop_shape (a b : Bytes) (op : Int → Int → Int) :
    opBytesBinOp a b op =
      if tooLong2 a b then .error .toolong
      else if op (beVal a) (beVal b) < 0 then .error .underflow
      else .ok [.bytes (beEnc (op (beVal a) (beVal b)).toNat)] := by
  unfold opBytesBinOp bigBytes
  rw [setBytes_eq_beVal, setBytes_eq_beVal]
  by_cases h : tooLong2 a b
  · rw [if_pos h, if_pos ((tooLong_swap a b).mpr h)]
  · rw [if_neg h, if_neg (fun h' => h ((tooLong_swap a b).mp h'))]

theorem op_exact_bplus (a b : Bytes) : opBytesPlus a b = badd a b := by
  unfold opBytesPlus badd okBytes
  rw [binop_shape]
  by_cases h : tooLong2 a b
  · rw [if_pos h, if_pos h]
  · rw [if_neg h, if_neg h]
    have h1 : ¬ ((beVal a : Int) + (beVal b : Int) < 0) := by omega
    have h2 : ((beVal a : Int) + (beVal b : Int)).toNat = beVal a + beVal b := by omega
    simp only [h1, if_false, h2]

theorem op_exact_bminus (a b : Bytes) : opBytesMinus a b = bsub a b := by
  unfold opBytesMinus bsub okBytes
  rw [binop_shape]
  by_cases h : tooLong2 a b
  · rw [if_pos h, if_pos h]
  · rw [if_neg h, if_neg h]
    by_cases hlt : beVal a < beVal b
    · have h1 : (beVal a : Int) - (beVal b : Int) < 0 := by omega
      simp only [h1, if_true, hlt]
    · have h1 : ¬ ((beVal a : Int) - (beVal b : Int) < 0) := by omega
      have h2 : ((beVal a : Int) - (beVal b : Int)).toNat = beVal a - beVal b := by omega
      simp only [h1, if_false, hlt, h2]

theorem op_exact_bmul (a b : Bytes) : opBytesMul a b = bmul a b := by
  unfold opBytesMul bmul okBytes
  rw [binop_shape]
  by_cases h : tooLong2 a b
  · rw [if_pos h, if_pos h]
  · rw [if_neg h, if_neg h]
    have h1 : ¬ ((beVal a : Int) * (beVal b : Int) < 0) := by rw [← Int.natCast_mul]; omega
    have h2 : ((beVal a : Int) * (beVal b : Int)).toNat = beVal a * beVal b := by
      rw [← Int.natCast_mul, Int.toNat_natCast]
    simp only [h1, if_false, h2]

theorem op_exact_bdiv (a b : Bytes) : opBytesDiv a b = bdiv a b := by
  unfold opBytesDiv bdiv okBytes bigBitLen
  rw [binop_shape, setBytes_eq_beVal]
  by_cases h : tooLong2 a b
  · rw [if_pos h, if_pos h]
  · rw [if_neg h, if_neg h]
    simp only [Int.toNat_natCast, bitlen_zero_iff]
    by_cases hz : beVal b = 0
    · simp [hz]
    · have h1 : ¬ ((beVal a : Int) / (beVal b : Int) < 0) := by
        have := Int.ediv_nonneg (Int.natCast_nonneg (beVal a)) (Int.natCast_nonneg (beVal b)); omega
      have h2 : ((beVal a : Int) / (beVal b : Int)).toNat = beVal a / beVal b := by
        rw [← Int.natCast_ediv, Int.toNat_natCast]
      simp only [hz, if_false, h1, h2]

theorem op_exact_bmod (a b : Bytes) : opBytesModulo a b = bmod a b := by
  unfold opBytesModulo bmod okBytes bigBitLen
  rw [binop_shape, setBytes_eq_beVal]
  by_cases h : tooLong2 a b
  · rw [if_pos h, if_pos h]
  · rw [if_neg h, if_neg h]
    simp only [Int.toNat_natCast, bitlen_zero_iff]
    by_cases hz : beVal b = 0
    · simp [hz]
    · have h1 : ¬ ((beVal a : Int) % (beVal b : Int) < 0) := by
        have := Int.natCast_emod (beVal a) (beVal b); omega
      have h2 : ((beVal a : Int) % (beVal b : Int)).toNat = beVal a % beVal b := by
        rw [← Int.natCast_emod, Int.toNat_natCast]
      simp only [hz, if_false, h1, h2]

theorem op_exact_bsqrt (a : Bytes) : opBytesSqrt a = bsqrt a := by
  unfold opBytesSqrt bsqrt okBytes bigBytes maxByteMath maxByteMathSize
  rw [setBytes_eq_beVal]

/-- `b<`: strip zeros, compare lengths, then lexicographically = numeric `<` -/
theorem op_exact_blt (a b : Bytes) : opBytesLt a b = blt a b := by
  unfold opBytesLt blt okBool
  by_cases h : tooLong2 a b
  · rw [if_pos h, if_pos ((tooLong_swap a b).mpr h)]
  · rw [if_neg h, if_neg (fun h' => h ((tooLong_swap a b).mp h'))]
    rw [← stripped_less a b]
    simp only [boolToSV, b2n]
    by_cases h1 : (nonzero a).length < (nonzero b).length
    · simp [h1]
    · by_cases h2 : (nonzero a).length > (nonzero b).length
      · simp [h1, h2]
      · simp [h1, h2]

theorem tooLong2_comm (a b : Bytes) : tooLong2 a b ↔ tooLong2 b a := by
  unfold tooLong2; constructor <;> intro h <;> omega

theorem op_exact_bgt (a b : Bytes) : opBytesGt a b = bgt a b := by
  unfold opBytesGt bgt
  rw [op_exact_blt]; unfold blt
  by_cases h : tooLong2 a b
  · rw [if_pos h, if_pos ((tooLong2_comm a b).mp h)]
  · rw [if_neg h, if_neg (fun h' => h ((tooLong2_comm a b).mpr h'))]

theorem thenNot_okBool (c : Bool) : thenNot (okBool c) = okBool (!c) := by
  cases c <;> simp [thenNot, okBool, opNot, boolToSV, b2n]

theorem op_exact_ble (a b : Bytes) : opBytesLe a b = ble a b := by
  unfold opBytesLe ble
  rw [op_exact_bgt]; unfold bgt
  by_cases h : tooLong2 a b
  · rw [if_pos h, if_pos h]; rfl
  · rw [if_neg h, if_neg h, thenNot_okBool]
    congr 1
    by_cases h1 : beVal a > beVal b
    · have : ¬ beVal a ≤ beVal b := by omega
      simp [h1, this]
    · have : beVal a ≤ beVal b := by omega
      simp [h1, this]

theorem op_exact_bge (a b : Bytes) : opBytesGe a b = bge a b := by
  unfold opBytesGe bge
  rw [op_exact_blt]; unfold blt
  by_cases h : tooLong2 a b
  · rw [if_pos h, if_pos h]; rfl
  · rw [if_neg h, if_neg h, thenNot_okBool]
    congr 1
    by_cases h1 : beVal a < beVal b
    · have : ¬ beVal a ≥ beVal b := by omega
      simp [h1, this]
    · have : beVal a ≥ beVal b := by omega
      simp [h1, this]

/-- `b==`: equality of the zero-stripped strings = equality of the values -/
theorem op_exact_beq (a b : Bytes) : opBytesEq a b = beq a b := by
  unfold opBytesEq beq okBool
  by_cases h : tooLong2 a b
  · rw [if_pos h, if_pos ((tooLong_swap a b).mpr h)]
  · rw [if_neg h, if_neg (fun h' => h ((tooLong_swap a b).mp h'))]
    simp only [boolToSV, b2n, nonzero_eq_iff]

theorem op_exact_bneq (a b : Bytes) : opBytesNeq a b = bneq a b := by
  unfold opBytesNeq bneq
  rw [op_exact_beq]; unfold beq
  by_cases h : tooLong2 a b
  · rw [if_pos h, if_pos h]; rfl
  · rw [if_neg h, if_neg h, thenNot_okBool]
    congr 1
    by_cases h1 : beVal a = beVal b <;> simp [h1]

/-- `b|`: zero-extend the shorter operand, or bytewise = fixed-width encoding of the bitwise or of the values -/
theorem op_exact_bor (a b : Bytes) : opBytesBitOr a b = bor a b := by
  unfold opBytesBitOr bor opBytesBinaryLogicPrep okBytes
  by_cases h : b.length > a.length
  · simp only [h, if_true]
    refine congrArg (fun z => Except.ok [Val.bytes z]) ?_
    have hl := zpad_length a b.length (by omega)
    apply eq_beFixed_of_val
    · rw [List.length_zipWith, hl]; omega
    · rw [beVal_zipWith_or _ _ hl, beVal_zpad]
  · simp only [h, if_false]
    refine congrArg (fun z => Except.ok [Val.bytes z]) ?_
    have hl := zpad_length b a.length (by omega)
    apply eq_beFixed_of_val
    · rw [List.length_zipWith, hl]; omega
    · rw [beVal_zipWith_or _ _ hl, beVal_zpad, Nat.or_comm]

theorem op_exact_band (a b : Bytes) : opBytesBitAnd a b = band a b := by
  unfold opBytesBitAnd band opBytesBinaryLogicPrep okBytes
  by_cases h : b.length > a.length
  · simp only [h, if_true]
    refine congrArg (fun z => Except.ok [Val.bytes z]) ?_
    have hl := zpad_length a b.length (by omega)
    apply eq_beFixed_of_val
    · rw [List.length_zipWith, hl]; omega
    · rw [beVal_zipWith_and _ _ hl, beVal_zpad]
  · simp only [h, if_false]
    refine congrArg (fun z => Except.ok [Val.bytes z]) ?_
    have hl := zpad_length b a.length (by omega)
    apply eq_beFixed_of_val
    · rw [List.length_zipWith, hl]; omega
    · rw [beVal_zipWith_and _ _ hl, beVal_zpad, Nat.and_comm]

theorem op_exact_bxor (a b : Bytes) : opBytesBitXor a b = bxor a b := by
  unfold opBytesBitXor bxor opBytesBinaryLogicPrep okBytes
  by_cases h : b.length > a.length
  · simp only [h, if_true]
    refine congrArg (fun z => Except.ok [Val.bytes z]) ?_
    have hl := zpad_length a b.length (by omega)
    apply eq_beFixed_of_val
    · rw [List.length_zipWith, hl]; omega
    · rw [beVal_zipWith_xor _ _ hl, beVal_zpad]
  · simp only [h, if_false]
    refine congrArg (fun z => Except.ok [Val.bytes z]) ?_
    have hl := zpad_length b a.length (by omega)
    apply eq_beFixed_of_val
    · rw [List.length_zipWith, hl]; omega
    · rw [beVal_zipWith_xor _ _ hl, beVal_zpad, Nat.xor_comm]

/-- `b~`: bytewise complement = complement within the operand's own width -/
theorem op_exact_bnot (a : Bytes) : opBytesBitNot a = bnot a := by
  unfold opBytesBitNot bnot okBytes
  refine congrArg (fun z => Except.ok [Val.bytes z]) ?_
  apply eq_beFixed_of_val
  · simp
  · exact beVal_map_not a

/-! ### declared output sizes: operands ≤ 64 bytes give `b+` ≤ 65, `b*` ≤ 128, `b- b/ b% bsqrt` ≤ 64 bytes -/
theorem val_le64 (a : Bytes) (h : a.length ≤ 64) : beVal a < 256 ^ 64 :=
  Nat.lt_of_lt_of_le (beVal_lt a) (Nat.pow_le_pow_right (by decide) h)

theorem badd_output_size (a b : Bytes) (ha : a.length ≤ 64) (hb : b.length ≤ 64) :
    (beEnc (beVal a + beVal b)).length ≤ 65 := by
  rw [beEnc_length_le_iff]
  have h1 := val_le64 a ha
  have h2 := val_le64 b hb
  have : (256:Nat) ^ 65 = 256 ^ 64 * 256 := by rw [Nat.pow_succ]
  omega

theorem bmul_output_size (a b : Bytes) (ha : a.length ≤ 64) (hb : b.length ≤ 64) :
    (beEnc (beVal a * beVal b)).length ≤ 128 := by
  rw [beEnc_length_le_iff]
  have h1 := val_le64 a ha
  have h2 := val_le64 b hb
  have : (256:Nat) ^ 128 = 256 ^ 64 * 256 ^ 64 := by rw [← Nat.pow_add]
  rw [this]
  exact Nat.mul_lt_mul'' h1 h2

theorem bsub_output_size (a b : Bytes) (ha : a.length ≤ 64) : (beEnc (beVal a - beVal b)).length ≤ 64 := by
  rw [beEnc_length_le_iff]
  have h1 := val_le64 a ha
  omega

theorem bdiv_output_size (a b : Bytes) (ha : a.length ≤ 64) : (beEnc (beVal a / beVal b)).length ≤ 64 := by
  rw [beEnc_length_le_iff]
  exact Nat.lt_of_le_of_lt (Nat.div_le_self _ _) (val_le64 a ha)

theorem bmod_output_size (a b : Bytes) (ha : a.length ≤ 64) : (beEnc (beVal a % beVal b)).length ≤ 64 := by
  rw [beEnc_length_le_iff]
  exact Nat.lt_of_le_of_lt (Nat.mod_le _ _) (val_le64 a ha)

theorem bsqrt_output_size (a : Bytes) (ha : a.length ≤ 64) : (beEnc (isqrt (beVal a))).length ≤ 64 := by
  rw [beEnc_length_le_iff]
  have ⟨h1, _⟩ := isqrt_spec (beVal a)
  have h2 := val_le64 a ha
  have : isqrt (beVal a) ≤ isqrt (beVal a) * isqrt (beVal a) := by
    rcases Nat.eq_zero_or_pos (isqrt (beVal a)) with h | h
    · rw [h]
    · exact Nat.le_mul_of_pos_left _ h
  omega

/-! ## non-vacuity: concrete operands on both sides of every boundary -/
example : opPlus 18446744073709551615 1 = .error .overflow := by decide
example : opPlus 18446744073709551614 1 = .ok [.int 18446744073709551615] := by decide
example : opMinus 0 1 = .error .underflow := by decide
example : opMul 4294967296 4294967296 = .error .overflow := by decide
example : opMul 4294967295 4294967297 = .ok [.int 18446744073709551615] := by decide
example : opDivw 1 0 2 = .ok [.int 9223372036854775808] := by decide
example : opDivw 2 0 2 = .error .overflow := by decide
example : opDivModw 1 2 0 3 = .ok [.int 0, .int 6148914691236517206, .int 0, .int 0] := by decide
set_option maxRecDepth 20000 in
example : opSqrt 18446744073709551615 = .ok [.int 4294967295] := by decide
set_option maxRecDepth 20000 in
example : opSqrt 16 = .ok [.int 4] := by decide
set_option maxRecDepth 20000 in
example : opSqrt 15 = .ok [.int 3] := by decide
example : opExp 2 63 = .ok [.int 9223372036854775808] := by decide
example : opExp 2 64 = .error .overflow := by decide
example : opExp 0 0 = .error .undefined := by decide
example : opExpw 2 127 = .ok [.int 9223372036854775808, .int 0] := by decide
example : opExpw 2 128 = .error .overflow := by decide
example : opShiftLeft 1 64 = .error .range := by decide
example : opShiftLeft 3 63 = .ok [.int 9223372036854775808] := by decide
example : opBtoi [1, 2] = .ok [.int 258] := by decide
example : opBtoi [0, 0, 0, 0, 0, 0, 0, 0, 1] = .error .toolong := by decide
example : opBytesLt [0, 1] [2] = .ok [.int 1] := by decide
example : opBytesEq [0, 0, 7] [7] = .ok [.int 1] := by decide
example : opBytesBitOr [1] [255, 0] = .ok [.bytes [255, 1]] := by decide
example : opBytesBitNot [0, 255] = .ok [.bytes [255, 0]] := by decide
example : opBitLen (.bytes [0, 16]) = .ok [.int 5] := by decide
example : (18446744073709551615 : Nat) < 2 ^ 64 := by decide

end Props.C32
