/-
C18 (block level) — Blocks neither create nor destroy Algos: the WHOLE block.

Props/C18.lean proves conservation for the transaction groups of a block.  This file closes the block level on
`Model.BlockMoney` (StartEvaluator's rewards withdrawal, the payset, endOfBlock's expired / absent processing, the proposer
payout, recordProposal) and ties it to the totals bookkeeping of Props.C12:

  rewards_withdrawal_conserves   the pool is debited `units·(L′ − L)`, exactly the amount by which Σ pending rewards of the
                                 participating accounts rises when the level goes from L to L′ (no account other than the pool
                                 is written); the total at the new level after the withdrawal = the total at the old level before
  groups_conserve                the payset (every accepted group; Props.C18.group_conserves)
  knockoff_conserves             ClearOnlineState / Suspend change status, keys and eligibility only
  payout_conserves               performPayout is a `Move` fee sink → proposer (and the amount is within the C24 bound)
  record_proposal_conserves      LastProposed / un-suspension only
  block_conserves                evalBlock E b = ok top → money at the new level after = money at the old level before
  block_conserves_prestate       the same with the side condition on the expired list discharged from an invariant of the state
                                 BEFORE the block (`NoKeyedNonPart`, kept by every modelled transaction under keyreg coherency:
                                 Lemmas.BlockMoneyInv; `block_keeps_invariant`: kept by whole blocks)
  payout_moves / payout_bounded  the fee sink loses and the proposer gains exactly the header's payout, which is within the C24 bound
  totals_after_rewards           Props.C12.rewards_exact on this state: ApplyRewards turns the exact sums at L into those at L′
  nonconserving_block_rejected   Props.C12.nonconserving_rejected on this state: a delta that changes the total is refused by
                                 CalculateTotals ("sum of money changed"), whatever produced it
  conserving_block_totals        Props.C12.totals_step: after an accepted block the totals are the exact sums again

`money P x l U` (Lemmas.LedgerCoreMoney) = Σ_{a ∈ U} balance + ⌊balance/unit⌋·(level − RewardsBase) (non-participating: the
balance), read through layer `l`.  Hypotheses, all stated where used: `U` duplicate-free and containing the addresses the block
names; the previous totals are the exact sums (that IS Props.C12.served_totals_are_sums); no participating account has a
RewardsBase above the previous level; the total at the new level fits in 64 bits (no `RewardUnits()` / `All()` overflow).
-/
import AlgoVerif.Model.BlockMoney
import AlgoVerif.Lemmas.BlockMoneyInv
import AlgoVerif.Props.C18
import AlgoVerif.Props.C12
import AlgoVerif.Props.C24
set_option linter.unusedVariables false
namespace Props.C18Block
open AlgoVerif.Model.LedgerCore AlgoVerif.Lemmas.LedgerCore AlgoVerif.Model.BlockMoney AlgoVerif.Model AlgoVerif.Lemmas.BlockMoney

/-! ## the abstraction to the totals' view of the accounts -/

/-- the account map the totals bookkeeping sees through layer `l` -/
def amap (x : Ctx) (l : Layer) : Totals.AMap := fun a => toTot (acctOf x l a)

theorem statusNum_np (s : Status) : statusNum s = 2 ↔ s = .notPart := by cases s <;> simp [statusNum]
theorem statusNum_le (s : Status) : statusNum s ≤ 2 := by cases s <;> simp [statusNum]

theorem acctMoney_toTot (P : Params) (a : Account) :
    Totals.acctMoney P.rewardUnit P.level (toTot a) = balWP P a := by
  unfold Totals.acctMoney balWP pending
  show (if statusNum a.status = 2 then a.bal else a.bal + a.bal / P.rewardUnit * (P.level - a.rewardsBase)) = _
  by_cases h : a.status = .notPart
  · rw [if_pos ((statusNum_np a.status).mpr h), if_pos h]; rfl
  · rw [if_neg (fun e => h ((statusNum_np a.status).mp e)), if_neg h]

/-- Σ balance-with-pending of LedgerCore = `totalMoney` of Model.Totals on the abstraction -/
theorem totalMoney_amap (P : Params) (x : Ctx) (l : Layer) (U : List Addr) :
    Totals.totalMoney P.rewardUnit P.level U (amap x l) = money P x l U := by
  unfold Totals.totalMoney money amap
  exact sum_map_congr _ _ (fun a _ => acctMoney_toTot P (acctOf x l a))

theorem valid_amap (x : Ctx) (l : Layer) (U : List Addr) : Props.C12.Valid U (amap x l) :=
  fun k _ => statusNum_le _

/-- no participating account of `U` has a rewards base above `L` (no `WithUpdatedRewards` panic at level ≥ L) -/
def BaseOK (x : Ctx) (l : Layer) (U : List Addr) (L : Nat) : Prop :=
  ∀ a ∈ U, (acctOf x l a).status ≠ .notPart → (acctOf x l a).rewardsBase ≤ L

theorem baseOK_amap {x : Ctx} {l : Layer} {U : List Addr} {L : Nat} (h : BaseOK x l U L) :
    Props.C12.BaseOK U (amap x l) L :=
  fun k hk hs => h k hk (fun e => hs ((statusNum_np _).mpr e))

/-- the reward units of the participating accounts of `U`: what `AccountTotals.RewardUnits()` reports when the totals are the
exact sums (Online + Offline buckets) -/
def partUnits (P : Params) (x : Ctx) (l : Layer) (U : List Addr) : Nat :=
  Totals.bucketUnits P.rewardUnit 1 U (amap x l) + Totals.bucketUnits P.rewardUnit 0 U (amap x l)

/-- the same, spelled out on the LedgerCore accounts -/
theorem partUnits_eq (P : Params) (x : Ctx) (l : Layer) (U : List Addr) :
    partUnits P x l U = (U.map (fun a => if (acctOf x l a).status = .notPart then 0 else (acctOf x l a).bal / P.rewardUnit)).sum := by
  unfold partUnits
  rw [Props.C12.bucketUnits_eq, Props.C12.bucketUnits_eq]
  induction U with
  | nil => rfl
  | cons u r ih =>
    simp only [List.map_cons, List.sum_cons]
    have hu : Props.C12.uOf P.rewardUnit 1 (amap x l u) + Props.C12.uOf P.rewardUnit 0 (amap x l u)
        = (if (acctOf x l u).status = .notPart then 0 else (acctOf x l u).bal / P.rewardUnit) := by
      unfold Props.C12.uOf amap toTot Totals.acctUnits
      cases (acctOf x l u).status <;> simp [statusNum]
    omega

/-- **the reward-units identity.**  Raising the level from `L` to `L′` raises Σ balance-with-pending by exactly
`partUnits · (L′ − L)`: balances are untouched, every participating account's pending rewards grow by its units·ΔL. -/
theorem level_shift (P : Params) (x : Ctx) (l : Layer) (U : List Addr) (L' : Nat)
    (hbase : BaseOK x l U P.level) (hLL : P.level ≤ L') :
    money { P with level := L' } x l U = money P x l U + partUnits P x l U * (L' - P.level) := by
  have e1 := Props.C12.bucket_rewards P.rewardUnit P.level L' 1 U (amap x l) (by omega) (baseOK_amap hbase) hLL
  have e0 := Props.C12.bucket_rewards P.rewardUnit P.level L' 0 U (amap x l) (by omega) (baseOK_amap hbase) hLL
  have e2 := Props.C12.bucket_np_level P.rewardUnit P.level L' U (amap x l)
  have t := Props.C12.buckets_total P.rewardUnit P.level U (amap x l) (valid_amap x l U)
  have t' := Props.C12.buckets_total P.rewardUnit L' U (amap x l) (valid_amap x l U)
  have m := totalMoney_amap P x l U
  have m' := totalMoney_amap { P with level := L' } x l U
  simp only at m'
  unfold partUnits
  rw [Nat.add_mul]
  omega

/-- `RewardUnits()` of the exact sums is `partUnits` (no overflow when the money fits in 64 bits) -/
theorem rewardUnits_exact (P : Params) (x : Ctx) (l : Layer) (U : List Addr) (hfit : money P x l U < M64) :
    Totals.rewardUnits (Totals.SumOf P.rewardUnit U (amap x l) P.level) = some (partUnits P x l U) := by
  have t := Props.C12.buckets_total P.rewardUnit P.level U (amap x l) (valid_amap x l U)
  have m := totalMoney_amap P x l U
  have u1 := Props.C12.bucketUnits_le_money P.rewardUnit P.level 1 U (amap x l)
  have u0 := Props.C12.bucketUnits_le_money P.rewardUnit P.level 0 U (amap x l)
  have hM : (2:Nat)^64 = M64 := by decide
  unfold Totals.rewardUnits Totals.SumOf partUnits
  simp only
  rw [Props.C45.oadd_no_overflow 64 _ _ (by omega) (by omega) (by omega)]
  simp

/-! ## plumbing -/

theorem bind_ok {ε α β : Type} (x : Except ε α) (f : α → Except ε β) (b : β) :
    (x >>= f) = .ok b ↔ ∃ a, x = .ok a ∧ f a = .ok b := by
  cases x with
  | error e => simp [bind, Except.bind]
  | ok a => simp [bind, Except.bind]

theorem check_ok (c : Bool) (e : BMErr) (u : Unit) : check c e = .ok u ↔ c = true := by
  unfold check; cases c <;> simp

/-- a record that differs from `a` in fields other than balance and rewards base, and whose status stays on the same side of
"participating", has the same balance-with-pending -/
theorem balWP_part (P : Params) (a v : Account) (hb : v.bal = a.bal) (hr : v.rewardsBase = a.rewardsBase)
    (ha : a.status ≠ .notPart) (hv : v.status ≠ .notPart) : balWP P v = balWP P a := by
  unfold balWP pending; rw [hb, hr, if_neg ha, if_neg hv]

/-! ## StartEvaluator: the rewards withdrawal -/

/-- what `withdraw` does to the accounts: the level did not go down, the pool — and only the pool — is written, its
balance-with-pending (at the new level) drops by `units·(L′ − L)`, and so does the total over any `U` containing it. -/
theorem withdraw_debit {P : Params} {x : Ctx} {prevLevel units poolMin : Nat} {top0 : Layer} {U : List Addr}
    (hU : U.Nodup) (hp : P.rewardsPool ∈ U) (h : withdraw P x prevLevel units poolMin = .ok top0) :
    prevLevel ≤ P.level
    ∧ units * (P.level - prevLevel) < M64
    ∧ balWP P (acctOf x top0 P.rewardsPool) + units * (P.level - prevLevel) = balWP P (acctOf x {} P.rewardsPool)
    ∧ poolMin ≤ (acctOf x top0 P.rewardsPool).bal
    ∧ (∀ a, a ≠ P.rewardsPool → acctOf x top0 a = acctOf x {} a)
    ∧ money P x top0 U + units * (P.level - prevLevel) = money P x {} U := by
  unfold withdraw at h
  split at h
  · cases h
  · rename_i hlev
    split at h
    · cases h
    · rename_i poolOld hw
      simp only at h
      split at h
      · cases h
      · rename_i hov
        split at h
        · cases h
        · rename_i hmin
          cases h
          obtain ⟨hb, hs, _⟩ := withRewards_ok hw
          have hnew : balWP P { poolOld with bal := poolOld.bal - units * (P.level - prevLevel) }
              = poolOld.bal - units * (P.level - prevLevel) := balWP_settled (settled_bal hs _)
          have hm := money_putAcct P x {} hU hp { poolOld with bal := poolOld.bal - units * (P.level - prevLevel) }
          refine ⟨by omega, by omega, ?_, ?_, ?_, ?_⟩
          · rw [acctOf_putAcct, if_pos rfl, hnew, ← hb]; omega
          · rw [acctOf_putAcct, if_pos rfl]; show poolMin ≤ poolOld.bal - _; omega
          · intro a ha; rw [acctOf_putAcct, if_neg ha]
          · rw [hnew, ← hb] at hm; omega

/-- **rewards_withdrawal_conserves.**  `StartEvaluator` at level `L′ = level` from a ledger whose totals are the exact sums at
`L = prevLevel`: with `w = RewardUnits · (L′ − L)`,
  (1) the rewards pool's balance-with-pending drops by exactly `w`, and no other account is written;
  (2) Σ over all accounts of balance-with-pending, read at the NEW level on the untouched accounts, exceeds the same sum at the
      old level by exactly `w` — balances being unchanged, this is the amount by which Σ pending rewards of the participating
      accounts increases (`level_shift`, from Props.C12.bucket_rewards / bucket_np_level / buckets_total);
  (3) hence the total at the new level after the withdrawal equals the total at the old level before it.
No-overflow hypotheses: the total at the OLD level fits in 64 bits (`RewardUnits()` does not panic); `w < 2^64` and `w ≤ pool`
are checked by the code itself (`ot.Mul`, `ot.SubA`) and are consequences of `startBlock … = ok`. -/
theorem rewards_withdrawal_conserves (E : Env) (level : Nat) (top0 : Layer) (U : List Addr)
    (hU : U.Nodup) (hp : E.P.rewardsPool ∈ U)
    (hT : E.prevTotals = Totals.SumOf E.P.rewardUnit U (amap E.ctx {}) E.prevLevel)
    (hbase : BaseOK E.ctx {} U E.prevLevel)
    (hfit : money (E.params E.prevLevel) E.ctx {} U < M64)
    (h : startBlock E level = .ok top0) :
    balWP (E.params level) (acctOf E.ctx top0 E.P.rewardsPool)
        + partUnits (E.params E.prevLevel) E.ctx {} U * (level - E.prevLevel)
      = balWP (E.params level) (acctOf E.ctx {} E.P.rewardsPool)
    ∧ (∀ a, a ≠ E.P.rewardsPool → acctOf E.ctx top0 a = acctOf E.ctx {} a)
    ∧ money (E.params level) E.ctx {} U
      = money (E.params E.prevLevel) E.ctx {} U + partUnits (E.params E.prevLevel) E.ctx {} U * (level - E.prevLevel)
    ∧ money (E.params level) E.ctx top0 U = money (E.params E.prevLevel) E.ctx {} U := by
  unfold startBlock at h
  have hu := rewardUnits_exact (E.params E.prevLevel) E.ctx {} U hfit
  rw [hT] at h
  have hu' : Totals.rewardUnits (Totals.SumOf E.P.rewardUnit U (amap E.ctx {}) E.prevLevel)
      = some (partUnits (E.params E.prevLevel) E.ctx {} U) := hu
  rw [hu'] at h
  simp only at h
  obtain ⟨hlev, _, hpool, _, hoth, hmon⟩ := withdraw_debit (P := E.params level) hU hp h
  have hshift : money (E.params level) E.ctx {} U
      = money (E.params E.prevLevel) E.ctx {} U + partUnits (E.params E.prevLevel) E.ctx {} U * (level - E.prevLevel) :=
    level_shift (E.params E.prevLevel) E.ctx {} U level hbase hlev
  have hmon' : money (E.params level) E.ctx top0 U + partUnits (E.params E.prevLevel) E.ctx {} U * (level - E.prevLevel)
      = money (E.params level) E.ctx {} U := hmon
  refine ⟨hpool, hoth, hshift, ?_⟩
  omega

/-- Props.C12.rewards_exact on this state: `ApplyRewards(level)` — the first step of `CalculateTotals` — turns the exact sums at
the previous level into the exact sums of the SAME accounts at the new level: in the totals every participating account is
credited `units·(L′ − L)` at once, which is what the pool is debited above. -/
theorem totals_after_rewards (E : Env) (level : Nat) (U : List Addr)
    (hT : E.prevTotals = Totals.SumOf E.P.rewardUnit U (amap E.ctx {}) E.prevLevel)
    (hbase : BaseOK E.ctx {} U E.prevLevel) (hLL : E.prevLevel ≤ level) (hL : level < M64)
    (hfit : money (E.params level) E.ctx {} U < M64) (ot : Bool) :
    Totals.applyRewards E.prevTotals level ot = (Totals.SumOf E.P.rewardUnit U (amap E.ctx {}) level, ot) := by
  rw [hT]
  exact Props.C12.rewards_exact E.P.rewardUnit U (amap E.ctx {}) E.prevLevel level (baseOK_amap hbase) hLL hL
    (by rw [← totalMoney_amap (E.params level) E.ctx {} U] at hfit; exact hfit) ot

/-! ## the payset -/

theorem evalAll_conserves (P : Params) (x : Ctx) (U : List Addr) (hU : U.Nodup) :
    ∀ (gs : List (List Txn)) (s s' : EvalState), (∀ g ∈ gs, ∀ a ∈ groupAddrs P g, a ∈ U) →
      BlockEval.evalAll P x s gs = .ok s' → money P x s'.top U = money P x s.top U := by
  intro gs
  induction gs with
  | nil => intro s s' _ h; cases h; rfl
  | cons g r ih =>
    intro s s' hA h
    unfold BlockEval.evalAll at h
    split at h
    · rename_i s1 hg
      rw [ih s1 s' (fun g' hg' => hA g' (List.mem_cons_of_mem _ hg')) h]
      exact Props.C18.group_conserves P x s s1 g U hU (hA g List.mem_cons_self) hg
    · cases h

/-- `groups_conserve`: the transaction groups of the payset keep the total (Props.C18.group_conserves, by induction) -/
theorem groups_conserve (P : Params) (x : Ctx) (top : Layer) (gs : List (List Txn)) (s : EvalState) (U : List Addr)
    (hU : U.Nodup) (hA : ∀ g ∈ gs, ∀ a ∈ groupAddrs P g, a ∈ U) (h : groups P x top gs = .ok s) :
    money P x s.top U = money P x top U := by
  unfold groups at h
  split at h
  · cases h
  · rename_i s1 h1
    cases h
    exact evalAll_conserves P x U hU gs _ _ hA h1

/-! ## expired / absent accounts -/

theorem balWP_clearOnline (P : Params) (d : Account) (h : d.status ≠ .notPart) :
    balWP P (BlockEval.clearOnline d) = balWP P d :=
  balWP_part P d _ rfl rfl h (by simp [BlockEval.clearOnline])

theorem balWP_suspend (P : Params) (d : Account) (h : d.status ≠ .notPart) :
    balWP P (BlockEval.suspend d) = balWP P d :=
  balWP_part P d _ rfl rfl h (by simp [BlockEval.suspend])

theorem resetExpired_conserves (P : Params) (x : Ctx) (U : List Addr) (hU : U.Nodup) :
    ∀ (exp : List Addr) (top : Layer), (∀ a ∈ exp, (acctOf x top a).status ≠ .notPart) →
      money P x (BlockEval.resetExpired x top exp) U = money P x top U := by
  intro exp
  induction exp with
  | nil => intro top _; rfl
  | cons a r ih =>
    intro top hnp
    simp only [BlockEval.resetExpired]
    rw [ih]
    · exact money_putAcct_same P x top hU a _ (balWP_clearOnline P _ (hnp a List.mem_cons_self))
    · intro b hb
      rw [acctOf_putAcct]
      split
      · simp [BlockEval.clearOnline]
      · exact hnp b (List.mem_cons_of_mem _ hb)

theorem suspendAbsent_conserves (P : Params) (x : Ctx) (U : List Addr) (hU : U.Nodup) :
    ∀ (abs : List Addr) (top : Layer), (∀ a ∈ abs, (acctOf x top a).status ≠ .notPart) →
      money P x (BlockEval.suspendAbsent x top abs) U = money P x top U := by
  intro abs
  induction abs with
  | nil => intro top _; rfl
  | cons a r ih =>
    intro top hnp
    simp only [BlockEval.suspendAbsent]
    rw [ih]
    · exact money_putAcct_same P x top hU a _ (balWP_suspend P _ (hnp a List.mem_cons_self))
    · intro b hb
      rw [acctOf_putAcct]
      split
      · simp [BlockEval.suspend]
      · exact hnp b (List.mem_cons_of_mem _ hb)

/-- the expired / absent processing writes neither balances nor rewards bases nor rewarded totals ("status changes only") -/
theorem resetExpired_fields (x : Ctx) : ∀ (l : List Addr) (top : Layer) (b : Addr),
    (acctOf x (BlockEval.resetExpired x top l) b).bal = (acctOf x top b).bal ∧
    (acctOf x (BlockEval.resetExpired x top l) b).rewardsBase = (acctOf x top b).rewardsBase ∧
    (acctOf x (BlockEval.resetExpired x top l) b).rewarded = (acctOf x top b).rewarded := by
  intro l
  induction l with
  | nil => intro top b; exact ⟨rfl, rfl, rfl⟩
  | cons a r ih =>
    intro top b
    simp only [BlockEval.resetExpired]
    obtain ⟨h1, h2, h3⟩ := ih (putAcct top a (BlockEval.clearOnline (acctOf x top a))) b
    rw [h1, h2, h3, acctOf_putAcct]
    by_cases hb : b = a
    · subst hb; simp [BlockEval.clearOnline]
    · simp [hb]

theorem suspendAbsent_fields (x : Ctx) : ∀ (l : List Addr) (top : Layer) (b : Addr),
    (acctOf x (BlockEval.suspendAbsent x top l) b).bal = (acctOf x top b).bal ∧
    (acctOf x (BlockEval.suspendAbsent x top l) b).rewardsBase = (acctOf x top b).rewardsBase ∧
    (acctOf x (BlockEval.suspendAbsent x top l) b).rewarded = (acctOf x top b).rewarded := by
  intro l
  induction l with
  | nil => intro top b; exact ⟨rfl, rfl, rfl⟩
  | cons a r ih =>
    intro top b
    simp only [BlockEval.suspendAbsent]
    obtain ⟨h1, h2, h3⟩ := ih (putAcct top a (BlockEval.suspend (acctOf x top a))) b
    rw [h1, h2, h3, acctOf_putAcct]
    by_cases hb : b = a
    · subst hb; simp [BlockEval.suspend]
    · simp [hb]

/-- an accepted expired list names accounts with a vote key only -/
theorem checkExpiredLoop_key (P : Params) (x : Ctx) (top : Layer) : ∀ (exp seen : List Addr),
    checkExpiredLoop P x top seen exp = .ok () → ∀ a ∈ exp, (acctOf x top a).voteId ≠ 0 := by
  intro exp
  induction exp with
  | nil => intro _ _ a ha; cases ha
  | cons e r ih =>
    intro seen h a ha
    unfold checkExpiredLoop at h
    split at h
    · cases h
    · simp only at h
      split at h
      · cases h
      · rename_i hk
        split at h
        · cases h
        · rcases List.mem_cons.mp ha with rfl | har
          · exact hk
          · exact ih _ h a har

/-- an accepted absent list names Online accounts only -/
theorem checkAbsentLoop_online (E : Env) (top : Layer) : ∀ (abs seen : List Addr),
    checkAbsentLoop E top seen abs = .ok () → ∀ a ∈ abs, (acctOf E.ctx top a).status = .online := by
  intro abs
  induction abs with
  | nil => intro _ _ a ha; cases ha
  | cons e r ih =>
    intro seen h a ha
    unfold checkAbsentLoop at h
    split at h
    · cases h
    · simp only at h
      split at h
      · cases h
      · rename_i hon
        split at h
        · cases h
        · split at h
          · cases h
          · split at h
            · cases h
            · rcases List.mem_cons.mp ha with rfl | har
              · exact Decidable.not_not.mp hon
              · exact ih _ h a har

theorem knockOff_eq (E : Env) (P : Params) (top top2 : Layer) (exp abs : List Addr)
    (h : knockOff E P top exp abs = .ok top2) :
    top2 = BlockEval.suspendAbsent E.ctx (BlockEval.resetExpired E.ctx top exp) abs
    ∧ checkExpiredLoop P E.ctx top [] exp = .ok ()
    ∧ checkAbsentLoop E (BlockEval.resetExpired E.ctx top exp) [] abs = .ok () := by
  simp only [knockOff, bind_ok] at h
  obtain ⟨_, _, _, h1, _, _, _, h2, h3⟩ := h
  cases h3
  exact ⟨rfl, h1, h2⟩

/-- **knockoff_conserves.**  `endOfBlock`'s expired / absent processing (ClearOnlineState, Suspend) keeps the total.  The
absent list is checked by the code to name Online accounts.  The expired list is checked for a vote key and an expired
`VoteLastValid` only — NOT for the status — so the theorem needs that a keyed account of the list participates in rewards: a
NotParticipating account holding a vote key would become Offline and start to count `units·(level − RewardsBase)` pending rewards
nobody withdrew (such a delta is refused by `CalculateTotals`: `nonconserving_block_rejected`).  `NoKeyedNonPart` below shows
the hypothesis is an invariant of the modelled transactions under keyreg coherency. -/
theorem knockoff_conserves (E : Env) (P : Params) (top top2 : Layer) (exp abs : List Addr) (U : List Addr) (hU : U.Nodup)
    (hinv : ∀ a ∈ exp, (acctOf E.ctx top a).voteId ≠ 0 → (acctOf E.ctx top a).status ≠ .notPart)
    (h : knockOff E P top exp abs = .ok top2) : money P E.ctx top2 U = money P E.ctx top U := by
  obtain ⟨rfl, hexp, habs⟩ := knockOff_eq E P top top2 exp abs h
  rw [suspendAbsent_conserves P E.ctx U hU abs _ (fun a ha => by
        rw [checkAbsentLoop_online E _ abs [] habs a ha]; simp)]
  exact resetExpired_conserves P E.ctx U hU exp top
    (fun a ha => hinv a ha (checkExpiredLoop_key P E.ctx top exp [] hexp a ha))

/-- status changes only: balances, rewards bases and rewarded totals of ALL accounts are as before -/
theorem knockoff_balances (E : Env) (P : Params) (top top2 : Layer) (exp abs : List Addr)
    (h : knockOff E P top exp abs = .ok top2) (b : Addr) :
    (acctOf E.ctx top2 b).bal = (acctOf E.ctx top b).bal
    ∧ (acctOf E.ctx top2 b).rewardsBase = (acctOf E.ctx top b).rewardsBase
    ∧ (acctOf E.ctx top2 b).rewarded = (acctOf E.ctx top b).rewarded := by
  obtain ⟨rfl, _, _⟩ := knockOff_eq E P top top2 exp abs h
  obtain ⟨a1, a2, a3⟩ := suspendAbsent_fields E.ctx abs (BlockEval.resetExpired E.ctx top exp) b
  obtain ⟨b1, b2, b3⟩ := resetExpired_fields E.ctx exp top b
  exact ⟨a1.trans b1, a2.trans b2, a3.trans b3⟩

/-! ## the proposer payout -/

/-- **payout_conserves.**  `performPayout` is a `Move` from the fee sink to the proposer (Props.C18.move_conserves). -/
theorem payout_conserves (P : Params) (x : Ctx) (top top3 : Layer) (proposer amount : Nat) (U : List Addr)
    (hU : U.Nodup) (hs : P.feeSink ∈ U) (hp : proposer ∈ U) (h : payout P x top proposer amount = .ok top3) :
    money P x top3 U = money P x top U := by
  unfold payout at h
  split at h
  · cases h; rfl
  · split at h
    · cases h; rfl
    · split at h
      · cases h
      · rename_i l hm
        cases h
        exact Props.C18.move_conserves P x top _ P.feeSink proposer amount U hU hs hp hm

/-- what a `Move` of a non-zero amount between two different accounts does to each side (pending rewards included) -/
theorem move_amounts {P : Params} {x : Ctx} {l l' : Layer} {src dst : Addr} {amt : Nat}
    (hne : src ≠ dst) (hamt : amt ≠ 0) (h : move P x l src dst amt = .ok l') :
    balWP P (acctOf x l' src) + amt = balWP P (acctOf x l src)
    ∧ balWP P (acctOf x l' dst) = balWP P (acctOf x l dst) + amt := by
  unfold move at h
  simp only at h
  split at h
  · cases h
  · rename_i fromNew hwf
    split at h
    · cases h
    · rename_i l1 h1
      have k1 : l1 = putAcct l src (autoHeartbeat P (acctOf x l src) { fromNew with bal := fromNew.bal - amt })
          ∧ amt ≤ fromNew.bal := by
        split at h1
        · split at h1
          · cases h1
          · rename_i hlt; cases h1; exact ⟨rfl, Nat.le_of_not_lt hlt⟩
        · rename_i hm
          exact absurd (meaningful_false (by simpa using hm)) hamt
      obtain ⟨rfl, hle⟩ := k1
      have hsrc := move_src hwf hle
      have hd0 : acctOf x (putAcct l src (autoHeartbeat P (acctOf x l src) { fromNew with bal := fromNew.bal - amt })) dst
          = acctOf x l dst := by rw [acctOf_putAcct, if_neg (fun e => hne e.symm)]
      split at h
      · cases h
      · rename_i toNew hwt
        split at h
        · split at h
          · cases h
          · cases h
            have hdst := move_dst (amt := amt) hwt
            constructor
            · rw [acctOf_putAcct, if_neg hne, acctOf_putAcct, if_pos rfl]; exact hsrc
            · rw [acctOf_putAcct, if_pos rfl, hdst, hd0]
        · rename_i hm
          exact absurd (meaningful_false (by simpa using hm)) hamt

/-- **payout_moves.**  A non-zero payout to a proposer other than the fee sink debits the fee sink and credits the proposer by
exactly the header's `ProposerPayout` (what the harness monitor checks on the real ledger). -/
theorem payout_moves (P : Params) (x : Ctx) (top top3 : Layer) (proposer amount : Nat)
    (hp0 : proposer ≠ 0) (hne : P.feeSink ≠ proposer) (hamt : amount ≠ 0) (h : payout P x top proposer amount = .ok top3) :
    balWP P (acctOf x top3 P.feeSink) + amount = balWP P (acctOf x top P.feeSink)
    ∧ balWP P (acctOf x top3 proposer) = balWP P (acctOf x top proposer) + amount := by
  unfold payout at h
  rw [if_neg hp0, if_neg hamt] at h
  split at h
  · cases h
  · rename_i l hm
    cases h
    exact move_amounts hne hamt hm

/-- the amount an accepted header pays is within the C24 bound: at most ⌊fees·pct/100⌋ + bonus and at most what the fee sink
holds above its own minimum balance (Props.C24.payout_bound on the model's `validateForPayouts`) -/
theorem payout_bounded (E : Env) (P : Params) (top : Layer) (b : Block) (hen : P.payoutsEnabled = true)
    (hpct : E.payoutPct ≤ 100) (hf : b.feesCollected < 2^64) (hb : b.bonus < 2^64)
    (hs : (acctOf E.ctx top P.feeSink).bal < 2^64) (hm : minBalance P (acctOf E.ctx top P.feeSink) < 2^64)
    (hno : b.feesCollected * E.payoutPct / 100 + b.bonus < 2^64)
    (h : validateForPayouts E P top b = .ok ()) :
    b.payout ≤ b.feesCollected * E.payoutPct / 100 + b.bonus
    ∧ b.payout ≤ (acctOf E.ctx top P.feeSink).bal - minBalance P (acctOf E.ctx top P.feeSink) := by
  unfold validateForPayouts at h
  rw [if_neg (by simp [hen])] at h
  split at h
  · cases h
  · split at h
    · cases h
    · rename_i m hm'
      split at h
      · cases h
      · rename_i hle
        have := Props.C24.payout_bound E.payoutPct b.feesCollected b.bonus _ _ m hpct hf hb hs hm hno hm'
        omega

/-- `recordProposal` writes LastProposed and may turn a suspended (Offline, keyed) proposer Online: no money -/
theorem record_proposal_conserves (P : Params) (x : Ctx) (top : Layer) (proposer : Addr) (U : List Addr) (hU : U.Nodup) :
    money P x (recordProposal P x top proposer) U = money P x top U := by
  unfold recordProposal
  split
  · rfl
  · apply money_putAcct_same P x top hU
    generalize acctOf x top proposer = prp
    by_cases hz : prp.isZero = true
    · rw [if_pos hz]
      have : BlockEval.suspended prp = false := by
        simp only [Account.isZero, decide_eq_true_eq] at hz
        rw [hz]; rfl
      simp [this]
    · rw [if_neg hz]
      split
      · rename_i hsus
        have hoff : prp.status = .offline := by
          simp only [BlockEval.suspended, Bool.and_eq_true, decide_eq_true_eq] at hsus
          exact hsus.1
        exact balWP_part P prp _ rfl rfl (by rw [hoff]; simp) (by simp)
      · rfl

/-! ## the whole block -/

/-- **block_conserves.**  Applying a whole block — rewards withdrawal at the new level, every transaction group of the
payset, expired / absent processing, proposer payout, proposal record — leaves Σ over all accounts of balance-with-pending
unchanged, the sum being read at the previous level before and at the block's level after.
Hypotheses: `U` is duplicate-free and contains the rewards pool, the fee sink, the proposer and every address the transactions
name (accounts outside `U` are not touched by anything but the status-only expired / absent writes); the ledger's totals are the
exact sums of round − 1 (Props.C12.served_totals_are_sums); no participating account has a rewards base above the previous level;
the previous total fits in 64 bits; keyed accounts on the expired list participate in rewards (see `knockoff_conserves`;
`block_conserves_prestate` discharges it from the state before the block). -/
theorem block_conserves (E : Env) (b : Block) (top : Layer) (U : List Addr)
    (hU : U.Nodup) (hp : E.P.rewardsPool ∈ U) (hs : E.P.feeSink ∈ U) (hprp : b.proposer ∈ U)
    (hA : ∀ g ∈ b.groups, ∀ a ∈ groupAddrs (E.params b.level) g, a ∈ U)
    (hT : E.prevTotals = Totals.SumOf E.P.rewardUnit U (amap E.ctx {}) E.prevLevel)
    (hbase : BaseOK E.ctx {} U E.prevLevel)
    (hfit : money (E.params E.prevLevel) E.ctx {} U < M64)
    (hexp : ∀ s, afterGroups E b = .ok s → ∀ a ∈ b.expired,
      (acctOf E.ctx s.top a).voteId ≠ 0 → (acctOf E.ctx s.top a).status ≠ .notPart)
    (h : BlockMoney.evalBlock E b = .ok top) :
    money (E.params b.level) E.ctx top U = money (E.params E.prevLevel) E.ctx {} U := by
  simp only [BlockMoney.evalBlock, bind_ok] at h
  obtain ⟨s, hs1, h2⟩ := h
  have hexp' := hexp s hs1
  simp only [afterGroups, bind_ok] at hs1
  obtain ⟨top0, h0, hg⟩ := hs1
  simp only [endOfBlock, bind_ok] at h2
  obtain ⟨top2, hk, _, _, top3, hpay, hrec⟩ := h2
  cases hrec
  rw [record_proposal_conserves (E.params b.level) E.ctx top3 b.proposer U hU,
    payout_conserves (E.params b.level) E.ctx top2 top3 b.proposer b.payout U hU hs hprp hpay,
    knockoff_conserves E (E.params b.level) s.top top2 b.expired b.absent U hU hexp' hk,
    groups_conserve (E.params b.level) E.ctx top0 b.groups s U hU hA hg]
  exact (rewards_withdrawal_conserves E b.level top0 U hU hp hT hbase hfit h0).2.2.2

/-- **block_conserves_prestate.**  `block_conserves` with every hypothesis on the ledger BEFORE the block: under
`EnableKeyregCoherencyCheck`, if no NotParticipating account of that ledger holds a vote key (`NoKeyedNonPart`, an invariant of
the rewards withdrawal and of every modelled transaction: Lemmas.BlockMoneyInv), the side condition on the expired list holds. -/
theorem block_conserves_prestate (E : Env) (b : Block) (top : Layer) (U : List Addr)
    (hU : U.Nodup) (hp : E.P.rewardsPool ∈ U) (hs : E.P.feeSink ∈ U) (hprp : b.proposer ∈ U)
    (hA : ∀ g ∈ b.groups, ∀ a ∈ groupAddrs (E.params b.level) g, a ∈ U)
    (hT : E.prevTotals = Totals.SumOf E.P.rewardUnit U (amap E.ctx {}) E.prevLevel)
    (hbase : BaseOK E.ctx {} U E.prevLevel)
    (hfit : money (E.params E.prevLevel) E.ctx {} U < M64)
    (hcoh : E.P.keyregCoherency = true) (hnk : NoKeyedNonPart E.ctx {})
    (h : BlockMoney.evalBlock E b = .ok top) :
    money (E.params b.level) E.ctx top U = money (E.params E.prevLevel) E.ctx {} U :=
  block_conserves E b top U hU hp hs hprp hA hT hbase hfit
    (fun s hs' a _ hk hnp => hk (afterGroups_nk hcoh hs' hnk a hnp)) h

/-- the invariant is kept by a whole accepted block as well (expired / absent processing, payout and proposal record included),
so it holds for every ledger reached from a genesis that satisfies it -/
theorem block_keeps_invariant (E : Env) (b : Block) (top : Layer) (hcoh : E.P.keyregCoherency = true)
    (hnk : NoKeyedNonPart E.ctx {}) (h : BlockMoney.evalBlock E b = .ok top) : NoKeyedNonPart E.ctx top := by
  simp only [BlockMoney.evalBlock, bind_ok] at h
  obtain ⟨s, hs1, h2⟩ := h
  have n1 := afterGroups_nk hcoh hs1 hnk
  simp only [endOfBlock, bind_ok] at h2
  obtain ⟨top2, hk, _, _, top3, hpay, hrec⟩ := h2
  cases hrec
  obtain ⟨rfl, _, _⟩ := knockOff_eq E _ s.top top2 b.expired b.absent hk
  have n2 : NoKeyedNonPart E.ctx (BlockEval.suspendAbsent E.ctx (BlockEval.resetExpired E.ctx s.top b.expired) b.absent) := by
    have r : ∀ (l : List Addr) (t : Layer), NoKeyedNonPart E.ctx t → NoKeyedNonPart E.ctx (BlockEval.resetExpired E.ctx t l) := by
      intro l
      induction l with
      | nil => intro t ht; exact ht
      | cons a r ih => intro t ht; exact ih _ (nk_putAcct ht a (fun e => by simp [BlockEval.clearOnline] at e))
    have q : ∀ (l : List Addr) (t : Layer), NoKeyedNonPart E.ctx t → NoKeyedNonPart E.ctx (BlockEval.suspendAbsent E.ctx t l) := by
      intro l
      induction l with
      | nil => intro t ht; exact ht
      | cons a r ih => intro t ht; exact ih _ (nk_putAcct ht a (fun e => by simp [BlockEval.suspend] at e))
    exact q _ _ (r _ _ n1)
  have n3 : NoKeyedNonPart E.ctx top3 := by
    unfold payout at hpay
    split at hpay
    · cases hpay; exact n2
    · split at hpay
      · cases hpay; exact n2
      · split at hpay
        · cases hpay
        · rename_i l hm
          cases hpay
          exact move_nk hm n2
  unfold recordProposal
  split
  · exact n3
  · apply nk_putAcct n3
    have hk3 := n3 b.proposer
    generalize acctOf E.ctx top3 b.proposer = prp at hk3 ⊢
    have h1 : Keyless (if prp.isZero then prp else { prp with lastProposed := (E.params b.level).round }) := by
      split
      · exact hk3
      · exact keyless_same hk3 rfl rfl
    have key : ∀ p1 : Account, Keyless p1 →
        Keyless (if BlockEval.suspended p1 then { p1 with status := .online } else p1) := by
      intro p1 hp1
      split
      · intro e; cases e
      · exact hp1
    exact key _ h1

/-! ## `CalculateTotals` at the end of the block (by reference to Props.C12) -/

/-- the delta set `CalculateTotals` walks: the accounts of the state delta, as the totals see them -/
def totMods (top : Layer) : List (Addr × Totals.Acct) := top.accts.map (fun p => (p.1, toTot p.2))

theorem applyMods_totMods (A : Totals.AMap) : ∀ (l : List (Addr × Account)), (keys l).Nodup → ∀ a,
    Totals.applyMods A (l.map (fun p => (p.1, toTot p.2))) a
      = (match alookup a l with | some v => toTot v | none => A a) := by
  intro l
  induction l generalizing A with
  | nil => intro _ a; rfl
  | cons hd tl ih =>
    obtain ⟨k, v⟩ := hd
    intro hnd a
    have hk : k ∉ keys tl := by simp only [keys, List.map_cons, List.nodup_cons] at hnd; exact hnd.1
    have hn : (keys tl).Nodup := by simp only [keys, List.map_cons, List.nodup_cons] at hnd; exact hnd.2
    show Totals.applyMods (A.set k (toTot v)) (tl.map (fun p => (p.1, toTot p.2))) a = _
    rw [ih (A.set k (toTot v)) hn a, alookup_cons]
    by_cases e : k = a
    · subst e
      rw [alookup_none_of_not_mem hk, if_pos rfl]
      simp [Totals.AMap.set]
    · rw [if_neg e]
      have : (A.set k (toTot v)) a = A a := by
        simp only [Totals.AMap.set]; rw [if_neg (fun h : a = k => e h.symm)]
      rw [this]

/-- the account map after the block, as `CalculateTotals` builds it (`A ⊕ Δ`), is the view through the state delta -/
theorem applyMods_amap (E : Env) (top : Layer) (hw : Layer.WF top) :
    Totals.applyMods (amap E.ctx {}) (totMods top) = amap E.ctx top := by
  funext a
  rw [totMods, applyMods_totMods _ _ hw.accts a]
  show _ = toTot (lookupAcct [top] E.base a)
  unfold lookupAcct
  cases alookup a top.accts <;> rfl

/-- `totalMoney_amap` at an explicit level -/
theorem tm (E : Env) (level : Nat) (l : Layer) (U : List Addr) :
    Totals.totalMoney E.P.rewardUnit level U (amap E.ctx l) = money (E.params level) E.ctx l U :=
  totalMoney_amap (E.params level) E.ctx l U

/-- the hypotheses of Props.C12 on a state delta: its accounts are known, and no participating one has a base above the level -/
def DeltaOK (top : Layer) (U : List Addr) (L' : Nat) : Prop :=
  ∀ p ∈ top.accts, p.1 ∈ U ∧ (p.2.status ≠ .notPart → p.2.rewardsBase ≤ L')

theorem modsOK_totMods {top : Layer} {U : List Addr} {L' : Nat} (h : DeltaOK top U L') :
    Props.C12.ModsOK U L' (totMods top) := by
  intro p hp
  simp only [totMods, List.mem_map] at hp
  obtain ⟨q, hq, rfl⟩ := hp
  exact ⟨(h q hq).1, statusNum_le _, fun hs => (h q hq).2 (fun e => hs ((statusNum_np _).mpr e))⟩

theorem keys_totMods (top : Layer) (hw : Layer.WF top) : ((totMods top).map Prod.fst).Nodup := by
  have : (totMods top).map Prod.fst = keys top.accts := by
    simp [totMods, keys, List.map_map, Function.comp_def]
  rw [this]; exact hw.accts

/-- **nonconserving_block_rejected** (Props.C12.nonconserving_rejected on this state).  Whatever produced the state delta
`top` of a block — modelled steps or not — if Σ balance-with-pending at the block's level through `top` differs from the sum at
the previous level before the block, `CalculateTotals`, the last step of `endOfBlock`, fails with "sum of money changed": the
block is neither generated nor validated. -/
theorem nonconserving_block_rejected (E : Env) (b : Block) (top : Layer) (U : List Addr)
    (hU : U.Nodup) (hw : Layer.WF top) (hd : DeltaOK top U b.level)
    (hT : E.prevTotals = Totals.SumOf E.P.rewardUnit U (amap E.ctx {}) E.prevLevel)
    (hbase : BaseOK E.ctx {} U E.prevLevel) (hLL : E.prevLevel ≤ b.level) (hL : b.level < M64)
    (hfit : Props.C12.NoOverflow E.P.rewardUnit b.level U (amap E.ctx {}) (totMods top))
    (hne : money (E.params b.level) E.ctx top U ≠ money (E.params E.prevLevel) E.ctx {} U) :
    endTotals E b top = .error (.moneyChanged (money (E.params E.prevLevel) E.ctx {} U) (money (E.params b.level) E.ctx top U)) := by
  have h := Props.C12.nonconserving_rejected E.P.rewardUnit U (amap E.ctx {}) E.prevLevel b.level (totMods top)
    hU (keys_totMods top hw) (modsOK_totMods hd) (valid_amap E.ctx {} U) (baseOK_amap hbase) hLL hL hfit
    (by rw [applyMods_amap E top hw]
        rw [tm E b.level top U, tm E E.prevLevel {} U]
        exact hne)
  rw [applyMods_amap E top hw, tm E b.level top U, tm E E.prevLevel {} U] at h
  unfold endTotals
  rw [hT]
  exact h

/-- **conserving_block_totals** (Props.C12.totals_step).  For a block accepted by the model, `CalculateTotals` succeeds and
returns the exact sums of the new account map at the new level — the hypothesis `hT` of all theorems above for the next block. -/
theorem conserving_block_totals (E : Env) (b : Block) (top : Layer) (U : List Addr)
    (hU : U.Nodup) (hw : Layer.WF top) (hd : DeltaOK top U b.level)
    (hT : E.prevTotals = Totals.SumOf E.P.rewardUnit U (amap E.ctx {}) E.prevLevel)
    (hbase : BaseOK E.ctx {} U E.prevLevel) (hLL : E.prevLevel ≤ b.level) (hL : b.level < M64)
    (hfit : Props.C12.NoOverflow E.P.rewardUnit b.level U (amap E.ctx {}) (totMods top))
    (hcons : money (E.params b.level) E.ctx top U = money (E.params E.prevLevel) E.ctx {} U) :
    endTotals E b top = .ok (Totals.SumOf E.P.rewardUnit U (amap E.ctx top) b.level) := by
  have h := Props.C12.totals_step E.P.rewardUnit U (amap E.ctx {}) E.prevLevel b.level (totMods top)
    hU (keys_totMods top hw) (modsOK_totMods hd) (valid_amap E.ctx {} U) (baseOK_amap hbase) hLL hL hfit
    (by rw [applyMods_amap E top hw]
        rw [tm E b.level top U, tm E E.prevLevel {} U]
        exact hcons)
  rw [applyMods_amap E top hw] at h
  unfold endTotals
  rw [hT]
  exact h

/-! ## non-vacuity: a block at round 3 that raises the rewards level from 5 to 9, carries one payment, expires the keys of
account 1 and pays proposer 2 from the fee sink.  Universe {0,1,2,7,8}: 0 = zero address, 7 = fee sink, 8 = rewards pool. -/

def exU : List Addr := [0, 1, 2, 7, 8]
def exBase : Base :=
  { accts := [(1, { status := .online, bal := 5000000, rewardsBase := 2, voteId := 11, selId := 21, spId := 31, voteFirst := 1, voteLast := 2, voteKD := 100 }),
              (2, { bal := 300000 }),
              (7, { status := .notPart, bal := 20100000 }),
              (8, { status := .notPart, bal := 1000000000 })] }
/-- totals of round 2: Online 5000000 + 5·(5−2) with 5 units, Offline 300000 with 0 units, NotParticipating 1020100000 -/
def exTotals : Totals.AccountTotals :=
  { online := ⟨5000015, 5⟩, offline := ⟨300000, 0⟩, notParticipating := ⟨1020100000, 1020⟩, rewardsLevel := 5 }
def exE : Env := { P := { round := 3 }, base := exBase, prevLevel := 5, prevTotals := exTotals }
def exPay : Txn := { kind := .pay, sender := 1, fee := 1000, fv := 1, lv := 10, note := 1, receiver := 2, amount := 1000000 }
def exB : Block :=
  { level := 9, groups := [[exPay]], expired := [1], feesCollected := 1000, bonus := 5000000, proposer := 2, payout := 5000500 }
def exS : EvalState := match afterGroups exE exB with | .ok s => s | .error _ => {}
def exTop : Layer := match BlockMoney.evalBlock exE exB with | .ok l => l | .error _ => {}

example : exU.Nodup := by decide
/-- `block_conserves_prestate`: keyreg coherency is on and no NotParticipating account of the ledger holds a key -/
example : exE.P.keyregCoherency = true := rfl
example : NoKeyedNonPart exE.ctx {} := nk_base exBase (by unfold Keyless; decide)
/-- `payout_moves` -/
example : exB.proposer ≠ 0 ∧ (exE.params 9).feeSink ≠ exB.proposer ∧ exB.payout ≠ 0 := by decide
example : exE.P.rewardsPool ∈ exU ∧ exE.P.feeSink ∈ exU ∧ exB.proposer ∈ exU := by decide
example : ∀ g ∈ exB.groups, ∀ a ∈ groupAddrs (exE.params exB.level) g, a ∈ exU := by decide
/-- `hT`: the ledger's totals are the exact sums -/
example : exE.prevTotals = Totals.SumOf exE.P.rewardUnit exU (amap exE.ctx {}) exE.prevLevel := by decide
example : BaseOK exE.ctx {} exU exE.prevLevel := by unfold BaseOK; decide
example : money (exE.params exE.prevLevel) exE.ctx {} exU < M64 := by decide
/-- `totals_after_rewards`: level 5 → 9 < 2^64, and the total at the new level (before the pool is debited) fits -/
example : exE.prevLevel ≤ 9 ∧ 9 < M64 ∧ money (exE.params 9) exE.ctx {} exU < M64 := by decide
example : money (exE.params 9) exE.ctx {} exU = 1025400015 + 5 * 4 := by decide
theorem ex_after : afterGroups exE exB = .ok exS := rfl
theorem ex_eval : BlockMoney.evalBlock exE exB = .ok exTop := rfl
/-- `hexp` -/
example : ∀ s, afterGroups exE exB = .ok s → ∀ a ∈ exB.expired,
    (acctOf exE.ctx s.top a).voteId ≠ 0 → (acctOf exE.ctx s.top a).status ≠ .notPart := by
  intro s hs
  rw [ex_after] at hs
  cases hs
  decide
/-- the block is accepted; 4·5 = 20 µAlgos leave the pool, 1000 of fees and 5000500 of payout move, account 1 goes offline -/
example : money (exE.params 5) exE.ctx {} exU = 1025400015 := by decide
example : money (exE.params 9) exE.ctx exTop exU = 1025400015 := by decide
example : partUnits (exE.params 5) exE.ctx {} exU = 5 := by decide
example : (acctOf exE.ctx exTop 8).bal = 999999980 ∧ (acctOf exE.ctx exTop 7).bal = 15100500
    ∧ (acctOf exE.ctx exTop 2).bal = 6300500 ∧ (acctOf exE.ctx exTop 1).status = .offline
    ∧ (acctOf exE.ctx exTop 1).bal = 3999035 ∧ (acctOf exE.ctx exTop 2).lastProposed = 3 := by decide
/-- `knockoff_conserves`, `payout_bounded`: their hypotheses on the state after the groups -/
example : ∀ a ∈ exB.expired, (acctOf exE.ctx exS.top a).voteId ≠ 0 → (acctOf exE.ctx exS.top a).status ≠ .notPart := by decide
example : exE.payoutPct ≤ 100 ∧ exB.feesCollected * exE.payoutPct / 100 + exB.bonus < 2^64
    ∧ (acctOf exE.ctx exS.top 7).bal < 2^64 ∧ minBalance (exE.params 9) (acctOf exE.ctx exS.top 7) < 2^64 := by decide
/-- `CalculateTotals` accepts this block and returns the exact sums of the new map (`conserving_block_totals`) … -/
example : Layer.WF exTop := ⟨by decide, by decide, by decide⟩
example : DeltaOK exTop exU 9 := by unfold DeltaOK; decide
example : Props.C12.NoOverflow exE.P.rewardUnit 9 exU (amap exE.ctx {}) (totMods exTop) := by
  unfold Props.C12.NoOverflow; decide
example : endTotals exE exB exTop = .ok (Totals.SumOf 1000000 exU (amap exE.ctx exTop) 9) := rfl
/-- … and refuses the same delta with 7 µAlgos more on account 2 (`nonconserving_block_rejected`) -/
def exBad : Layer := putAcct exTop 2 { acctOf exE.ctx exTop 2 with bal := 6300507 }
example : Layer.WF exBad ∧ DeltaOK exBad exU 9 := ⟨⟨by decide, by decide, by decide⟩, by unfold DeltaOK; decide⟩
example : Props.C12.NoOverflow exE.P.rewardUnit 9 exU (amap exE.ctx {}) (totMods exBad) := by
  unfold Props.C12.NoOverflow; decide
example : endTotals exE exB exBad = .error (.moneyChanged 1025400015 1025400022) := rfl
/-- a header raising the level without the pool being able to pay is refused: 10^15 per unit · 5 units > pool -/
example : startBlock exE 1000000000000005 = .error .withdrawOverflow := rfl
/-- a keyed NotParticipating account on the expired list is the one case the step theorem excludes: the model accepts the
list (the code does not test the status), the total rises, and `CalculateTotals` is what refuses the block -/
def exBaseNP : Base :=
  { accts := [(1, { status := .notPart, bal := 5000000, rewardsBase := 2, voteId := 11, voteLast := 2 }), (8, { status := .notPart, bal := 1000000000 })] }
def exENP : Env := { P := { round := 3 }, base := exBaseNP, prevLevel := 5,
                     prevTotals := { notParticipating := ⟨1005000000, 1005⟩, rewardsLevel := 5 } }
def exTopNP : Layer := match knockOff exENP (exENP.params 5) {} [1] [] with | .ok l => l | .error _ => {}
example : knockOff exENP (exENP.params 5) {} [1] [] = .ok exTopNP := rfl
example : money (exENP.params 5) exENP.ctx {} [1, 8] = 1005000000 ∧ money (exENP.params 5) exENP.ctx exTopNP [1, 8] = 1005000015 := by decide
example : endTotals exENP { level := 5 } exTopNP = .error (.moneyChanged 1005000000 1005000015) := rfl

end Props.C18Block
