/-
C17 — Merkle trie root depends only on the element set.

Model: AlgoVerif/Model/MerkleTrie.lean (node.go add/remove/find/calculateHash, trie.go Add/Delete/RootHash,
abstract commit/evict/reload store).  Lemmas: AlgoVerif/Lemmas/MerkleTrie.lean.
The hash `H` is a parameter everywhere and NO hypothesis on it is needed: history independence is an
equality of trees (`run ops` = `canon (set of ops)`), the root hashes are equal as a consequence.
-/
import AlgoVerif.Lemmas.MerkleTrie
import AlgoVerif.Model.TrieStore
namespace Props.C17
open Model.MerkleTrie

/-! ## add / remove preserve the canonical form -/

/-- node.add maps the canonical trie of `S` to the canonical trie of `S ∪ {d}` -/
theorem add_canon {n : Nat} {S : List Key} {t : T} {d : Key} (hS : ∀ k ∈ S, k.length = n)
    (ht : canon n S = some t) (hd : d.length = n) (hn : d ∉ S) :
    t.add d = canon n (d :: S) := by
  have hne : S ≠ [] := fun e => by rw [e, canon_nil] at ht; cases ht
  obtain ⟨t₀, h₀, hc, hk⟩ := canon_some hS hne
  rw [ht] at h₀; cases h₀
  obtain ⟨t', ha, hc', hk', _⟩ := T.add_spec hc hd (fun hm => hn ((hk d).1 hm))
  rw [ha, canon_eq_of_canon hc' (S := d :: S)]
  intro k; rw [hk' k, hk k, List.mem_cons]

/-- node.remove (with the single-leaf-child collapse on the way up) maps the canonical trie of `S`
(at least two elements, i.e. the root is not a leaf) to the canonical trie of `S \ {d}` -/
theorem remove_canon {n : Nat} {S : List Key} {t : T} {d : Key} (hS : ∀ k ∈ S, k.length = n)
    (ht : canon n S = some t) (hl : t.isLeaf = false) (hd : d.length = n) (hm : d ∈ S) :
    t.remove d = canon n (S.filter fun k => decide (k ≠ d)) := by
  have hne : S ≠ [] := fun e => by rw [e] at hm; cases hm
  obtain ⟨t₀, h₀, hc, hk⟩ := canon_some hS hne
  rw [ht] at h₀; cases h₀
  obtain ⟨t', hr, hc', hk'⟩ := T.remove_spec hc hl hd ((hk d).2 hm)
  rw [hr, canon_eq_of_canon hc' (S := S.filter fun k => decide (k ≠ d))]
  intro k; rw [hk' k, hk k, List.mem_filter]; simp [and_comm]

/-- a trie in canonical form is determined by its key set (so `canon` is THE canonical form) -/
theorem canon_unique {t₁ t₂ : T} {n : Nat} (h₁ : t₁.Canon n) (h₂ : t₂.Canon n)
    (hk : ∀ k, k ∈ t₁.keys ↔ k ∈ t₂.keys) : t₁ = t₂ := T.canon_unique h₁ h₂ hk

/-- `canon` depends on the SET only: order and repetitions in the list are irrelevant -/
theorem canon_set_only {n : Nat} {S S' : List Key} (hS : ∀ k ∈ S, k.length = n)
    (h : ∀ k, k ∈ S ↔ k ∈ S') : canon n S = canon n S' := by
  by_cases hne : S = []
  · subst hne
    have : S' = [] := List.eq_nil_iff_forall_not_mem.2 fun k hk => by simpa using (h k).2 hk
    rw [this]
  · obtain ⟨t, ht, hc, hk⟩ := canon_some hS hne
    rw [ht, canon_eq_of_canon hc (S := S') (fun k => by rw [hk k, h k])]

/-! ## the Trie object represents a set -/

/-- `tr` holds exactly the set `S`, in canonical form -/
def Rep (tr : Trie) (S : List Key) : Prop :=
  (S = [] ∧ tr.root = none) ∨
  (∃ t, tr.root = some t ∧ t.Canon tr.elemLen ∧ ∀ k, k ∈ t.keys ↔ k ∈ S)

theorem rep_empty : Rep Trie.empty [] := Or.inl ⟨rfl, rfl⟩

theorem elemLenOf_eq {S : List Key} {n : Nat} (hne : S ≠ []) (hS : ∀ k ∈ S, k.length = n) :
    elemLenOf S = n := by
  cases S with
  | nil => exact absurd rfl hne
  | cons k _ => exact hS k (List.mem_cons_self ..)

/-- a represented set is stored as its canonical trie -/
theorem rep_root {tr : Trie} {S : List Key} (h : Rep tr S) : tr.root = canon (elemLenOf S) S := by
  rcases h with ⟨rfl, hr⟩ | ⟨t, hr, hc, hk⟩
  · rw [hr, canon_nil]
  · have hS : ∀ k ∈ S, k.length = tr.elemLen := fun k hm => T.keys_length hc ((hk k).2 hm)
    have hne : S ≠ [] := by
      obtain ⟨k, hm⟩ := T.keys_nonempty hc
      intro e; rw [e] at hk; exact absurd ((hk k).1 hm) (by simp)
    rw [hr, elemLenOf_eq hne hS, canon_eq_of_canon hc hk]

theorem rep_lengths {tr : Trie} {S : List Key} (h : Rep tr S) : ∀ k ∈ S, k.length = elemLenOf S := by
  rcases h with ⟨rfl, _⟩ | ⟨t, _, hc, hk⟩
  · intro k hm; cases hm
  · have hS : ∀ k ∈ S, k.length = tr.elemLen := fun k hm => T.keys_length hc ((hk k).2 hm)
    intro k hm
    have hne : S ≠ [] := fun e => by rw [e] at hm; cases hm
    rw [elemLenOf_eq hne hS]; exact hS k hm

/-- Trie.Add against the set: same answer (flag or error), and the result represents the new set -/
theorem add_sim {tr : Trie} {S : List Key} (h : Rep tr S) (d : Key) :
    match tr.add d, setAdd S d with
    | .ok (r, tr'), .ok (r', S') => r = r' ∧ Rep tr' S'
    | .error e, .error e' => e = e'
    | _, _ => False := by
  rcases h with ⟨rfl, hr⟩ | ⟨t, hr, hc, hk⟩
  · simp only [Trie.add, hr, setAdd]
    refine ⟨(by first | rfl | trivial), Or.inr ⟨.leaf d, rfl, by simp [T.Canon], fun k => by simp [T.keys]⟩⟩
  · have hS : ∀ k ∈ S, k.length = tr.elemLen := fun k hm => T.keys_length hc ((hk k).2 hm)
    obtain ⟨k₀, hm₀⟩ := T.keys_nonempty hc
    cases S with
    | nil => exact absurd ((hk k₀).1 hm₀) (by simp)
    | cons k S' =>
      have hkl : k.length = tr.elemLen := hS k (List.mem_cons_self ..)
      simp only [Trie.add, hr, setAdd, hkl]
      by_cases hlen : d.length = tr.elemLen
      · simp only [hlen, ne_eq, not_true_eq_false, if_false]
        rw [T.find_spec hc hlen]
        by_cases hm : d ∈ k :: S'
        · have : decide (d ∈ t.keys) = true := by simpa using (hk d).2 hm
          rw [this, if_pos hm]
          exact ⟨(by first | rfl | trivial), Or.inr ⟨t, hr, hc, hk⟩⟩
        · have hnt : d ∉ t.keys := fun hmt => hm ((hk d).1 hmt)
          have : decide (d ∈ t.keys) = false := by simpa using hnt
          rw [this, if_neg hm]
          obtain ⟨t', ha, hc', hk', _⟩ := T.add_spec hc hlen hnt
          simp only [ha]
          refine ⟨(by first | rfl | trivial), Or.inr ⟨t', rfl, hc', fun k' => ?_⟩⟩
          rw [hk' k', hk k', List.mem_cons (a := k') (b := d)]
      · simp [hlen]

/-- Trie.Delete against the set -/
theorem delete_sim {tr : Trie} {S : List Key} (h : Rep tr S) (d : Key) :
    match tr.delete d, setDelete S d with
    | .ok (r, tr'), .ok (r', S') => r = r' ∧ Rep tr' S'
    | .error e, .error e' => e = e'
    | _, _ => False := by
  rcases h with ⟨rfl, hr⟩ | ⟨t, hr, hc, hk⟩
  · simp only [Trie.delete, hr, setDelete]
    exact ⟨(by first | rfl | trivial), Or.inl ⟨(by first | rfl | trivial), hr⟩⟩
  · have hS : ∀ k ∈ S, k.length = tr.elemLen := fun k hm => T.keys_length hc ((hk k).2 hm)
    obtain ⟨k₀, hm₀⟩ := T.keys_nonempty hc
    cases S with
    | nil => exact absurd ((hk k₀).1 hm₀) (by simp)
    | cons k S' =>
      have hkl : k.length = tr.elemLen := hS k (List.mem_cons_self ..)
      simp only [Trie.delete, hr, setDelete, hkl]
      by_cases hlen : d.length = tr.elemLen
      · simp only [hlen, ne_eq, not_true_eq_false, if_false]
        rw [T.find_spec hc hlen]
        by_cases hm : d ∈ k :: S'
        · have hmt : d ∈ t.keys := (hk d).2 hm
          have : decide (d ∈ t.keys) = true := by simpa using hmt
          rw [this, if_pos hm]
          cases hl : t.isLeaf with
          | true =>
            simp only [if_true]
            refine ⟨(by first | rfl | trivial), Or.inl ⟨?_, rfl⟩⟩
            cases t with
            | node _ => simp [T.isLeaf] at hl
            | leaf s =>
              have hds : d = s := T.mem_keys_leaf.1 hmt
              rw [List.filter_eq_nil_iff]
              intro k' hk'
              have := T.mem_keys_leaf.1 ((hk k').2 hk')
              simp [this, hds]
          | false =>
            simp only [Bool.false_eq_true, if_false]
            obtain ⟨t', hrm, hc', hk'⟩ := T.remove_spec hc hl hlen hmt
            simp only [hrm]
            refine ⟨(by first | rfl | trivial), Or.inr ⟨t', rfl, hc', fun k' => ?_⟩⟩
            rw [hk' k', hk k', List.mem_filter]; simp [and_comm]
        · have hnt : d ∉ t.keys := fun hmt => hm ((hk d).1 hmt)
          have : decide (d ∈ t.keys) = false := by simpa using hnt
          rw [this, if_neg hm]
          exact ⟨(by first | rfl | trivial), Or.inr ⟨t, hr, hc, hk⟩⟩
      · simp [hlen]

/-- Insert reports membership: on a trie holding `S`, `Add d` succeeds with `true` iff `d ∉ S` -/
theorem add_reports {tr tr' : Trie} {S : List Key} {d : Key} {r : Bool} (h : Rep tr S)
    (ha : tr.add d = .ok (r, tr')) : r = decide (d ∉ S) := by
  have hs := add_sim h d
  rw [ha] at hs
  cases S with
  | nil => simp [setAdd] at hs; simp [hs.1]
  | cons k S' =>
    simp only [setAdd] at hs
    by_cases hlen : d.length = k.length
    · simp only [hlen, ne_eq, not_true_eq_false, if_false] at hs
      by_cases hm : d ∈ k :: S'
      · rw [if_pos hm] at hs; simp [hs.1, hm]
      · rw [if_neg hm] at hs; simp [hs.1, hm]
    · simp [hlen] at hs

/-- Delete reports membership: `Delete d` succeeds with `true` iff `d ∈ S` -/
theorem delete_reports {tr tr' : Trie} {S : List Key} {d : Key} {r : Bool} (h : Rep tr S)
    (ha : tr.delete d = .ok (r, tr')) : r = decide (d ∈ S) := by
  have hs := delete_sim h d
  rw [ha] at hs
  cases S with
  | nil => simp [setDelete] at hs; simp [hs.1]
  | cons k S' =>
    simp only [setDelete] at hs
    by_cases hlen : d.length = k.length
    · simp only [hlen, ne_eq, not_true_eq_false, if_false] at hs
      by_cases hm : d ∈ k :: S'
      · rw [if_pos hm] at hs; simp [hs.1, hm]
      · rw [if_neg hm] at hs; simp [hs.1, hm]
    · simp [hlen] at hs

/-! ## histories: adds, deletes, commits, evictions, reloads and crashes -/

/-- the store (in-memory image, committed image) represents the set-level store -/
def R (σ : Store) (s : SetStore) : Prop :=
  Rep σ.cur s.cur ∧ Rep σ.persisted s.persisted ∧ σ.modified = s.modified

theorem R_empty : R Store.empty SetStore.empty := ⟨rep_empty, rep_empty, rfl⟩

/-- the canonical root hash of the set is what RootHash returns on a trie representing it -/
theorem rep_rootHash (H : Key → Key) {tr : Trie} {S : List Key} (h : Rep tr S) :
    rootHash H tr.root = canonRoot H S := by
  unfold canonRoot; rw [rep_root h]

/-- one step: same observation, and the representation relation is preserved -/
theorem step_sim (H : Key → Key) {σ : Store} {s : SetStore} (h : R σ s) (op : Op) :
    (σ.step H op).2 = (s.step H op).2 ∧ R (σ.step H op).1 (s.step H op).1 := by
  obtain ⟨hc, hp, hm⟩ := h
  cases op with
  | add k =>
    have hs := add_sim hc k
    simp only [Store.step, SetStore.step, Store.add, SetStore.add]
    cases ha : σ.cur.add k with
    | error e =>
      cases hb : setAdd s.cur k with
      | error e' => rw [ha, hb] at hs; simp only at hs; subst hs; exact ⟨rfl, hc, hp, hm⟩
      | ok v => rw [ha, hb] at hs; exact absurd hs (by simp)
    | ok v =>
      obtain ⟨r, tr'⟩ := v
      cases hb : setAdd s.cur k with
      | error e' => rw [ha, hb] at hs; exact absurd hs (by simp)
      | ok v' =>
        obtain ⟨r', S'⟩ := v'
        rw [ha, hb] at hs; simp only at hs
        obtain ⟨rfl, hrep⟩ := hs
        exact ⟨rfl, hrep, hp, by simp [hm]⟩
  | del k =>
    have hs := delete_sim hc k
    simp only [Store.step, SetStore.step, Store.delete, SetStore.delete]
    cases ha : σ.cur.delete k with
    | error e =>
      cases hb : setDelete s.cur k with
      | error e' => rw [ha, hb] at hs; simp only at hs; subst hs; exact ⟨rfl, hc, hp, hm⟩
      | ok v => rw [ha, hb] at hs; exact absurd hs (by simp)
    | ok v =>
      obtain ⟨r, tr'⟩ := v
      cases hb : setDelete s.cur k with
      | error e' => rw [ha, hb] at hs; exact absurd hs (by simp)
      | ok v' =>
        obtain ⟨r', S'⟩ := v'
        rw [ha, hb] at hs; simp only at hs
        obtain ⟨rfl, hrep⟩ := hs
        exact ⟨rfl, hrep, hp, by simp [hm]⟩
  | commit => exact ⟨rfl, hc, hc, rfl⟩
  | evict c =>
    simp only [Store.step, SetStore.step, Store.evict, SetStore.evict, ← hm]
    cases σ.modified with
    | false => exact ⟨rfl, hc, hp, hm⟩
    | true =>
      cases c with
      | true => exact ⟨rfl, hc, hc, rfl⟩
      | false => exact ⟨rfl, hc, hp, hm⟩
  | reload => exact ⟨rfl, hp, hp, rfl⟩
  | root =>
    simp only [Store.step, SetStore.step, Store.root, SetStore.root]
    rcases hc with ⟨he, hr⟩ | ⟨t, hr, hcan, hk⟩
    · rw [hr]; simp only [he]
      exact ⟨by first | rfl | trivial, Or.inl ⟨he, hr⟩, hp, hm⟩
    · have hrep : Rep σ.cur s.cur := Or.inr ⟨t, hr, hcan, hk⟩
      have hne : s.cur ≠ [] := by
        obtain ⟨k, hmk⟩ := T.keys_nonempty hcan
        intro e; rw [e] at hk; exact absurd ((hk k).1 hmk) (by simp)
      have hd := rep_rootHash H hrep
      rw [hr] at hd
      rw [hr]
      cases hcur : s.cur with
      | nil => exact absurd hcur hne
      | cons k S' =>
        simp only
        rw [hd, hcur, ← hm]
        refine ⟨by first | rfl | trivial, ?_⟩
        cases σ.modified with
        | false => exact ⟨hrep, hp, hm⟩
        | true => exact ⟨hrep, hrep, rfl⟩

theorem run_sim (H : Key → Key) : ∀ (ops : List Op) {σ : Store} {s : SetStore}, R σ s →
    (σ.run H ops).2 = (s.run H ops).2 ∧ R (σ.run H ops).1 (s.run H ops).1
  | [], _, _, h => ⟨rfl, h⟩
  | op :: ops, σ, s, h => by
    obtain ⟨ho, hr⟩ := step_sim H h op
    obtain ⟨ho', hr'⟩ := run_sim H ops hr
    simp only [Store.run, SetStore.run]
    exact ⟨by rw [ho, ho'], hr'⟩

/-- **C17, history independence.** For every history of insertions, deletions, commits, evictions, reloads
and crash-reloads, started from the empty trie:
 * every observation (Add/Delete flags and errors, Evict answers, every RootHash) is the one the plain
   set semantics gives — in particular each RootHash is the canonical hash of the then-current set;
 * the tree held at the end IS the canonical tree of the resulting set, and so is the committed image;
 * hence the final root hash is `canonRoot` of the resulting set. No hypothesis on `H`. -/
theorem root_set_only (H : Key → Key) (ops : List Op) :
    let σ := (Store.empty.run H ops).1
    let s := (SetStore.empty.run H ops).1
    (Store.empty.run H ops).2 = (SetStore.empty.run H ops).2 ∧
    σ.cur.root = canon (elemLenOf s.cur) s.cur ∧
    σ.persisted.root = canon (elemLenOf s.persisted) s.persisted ∧
    rootHash H σ.cur.root = canonRoot H s.cur := by
  obtain ⟨ho, hc, hp, _⟩ := run_sim H ops R_empty
  exact ⟨ho, rep_root hc, rep_root hp, rep_rootHash H hc⟩

/-- two histories that end in the same set (as sets: order/multiplicity of the bookkeeping list is
irrelevant) end in the same tree and the same root hash -/
theorem same_set_same_root (H : Key → Key) (ops₁ ops₂ : List Op)
    (h : ∀ k, k ∈ (SetStore.empty.run H ops₁).1.cur ↔ k ∈ (SetStore.empty.run H ops₂).1.cur) :
    (Store.empty.run H ops₁).1.cur.root = (Store.empty.run H ops₂).1.cur.root := by
  obtain ⟨_, hc₁, _, _⟩ := run_sim H ops₁ R_empty
  obtain ⟨_, hc₂, _, _⟩ := run_sim H ops₂ R_empty
  generalize (Store.empty.run H ops₁).1.cur = tr₁ at *
  generalize (Store.empty.run H ops₂).1.cur = tr₂ at *
  generalize (SetStore.empty.run H ops₁).1.cur = S₁ at *
  generalize (SetStore.empty.run H ops₂).1.cur = S₂ at *
  rcases hc₁ with ⟨rfl, hr₁⟩ | ⟨t₁, hr₁, hcan₁, hk₁⟩
  · have : S₂ = [] := List.eq_nil_iff_forall_not_mem.2 fun k hk => by simpa using (h k).2 hk
    subst this
    rcases hc₂ with ⟨_, hr₂⟩ | ⟨t₂, _, hcan₂, hk₂⟩
    · rw [hr₁, hr₂]
    · obtain ⟨k, hm⟩ := T.keys_nonempty hcan₂
      exact absurd ((hk₂ k).1 hm) (by simp)
  · rcases hc₂ with ⟨rfl, _⟩ | ⟨t₂, hr₂, hcan₂, hk₂⟩
    · obtain ⟨k, hm⟩ := T.keys_nonempty hcan₁
      exact absurd ((h k).1 ((hk₁ k).1 hm)) (by simp)
    · obtain ⟨k, hm⟩ := T.keys_nonempty hcan₁
      have e₁ := T.keys_length hcan₁ hm
      have e₂ := T.keys_length hcan₂ ((hk₂ k).2 ((h k).1 ((hk₁ k).1 hm)))
      rw [hr₁, hr₂]
      rw [e₁.symm.trans e₂] at hcan₁
      rw [T.canon_unique hcan₁ hcan₂ (fun k => by rw [hk₁ k, h k, hk₂ k])]

/-- **abstract store layer is transparent**: Commit and Evict never change the logical trie, a reload
yields exactly the committed image, and after Commit the committed image is the logical trie
(so commit-then-reload is the identity on the logical trie).  The concrete page arithmetic of cache.go
(node ids, reallocatePage, deferred page loads, LRU order) is NOT modelled: it is tied by correspondence. -/
theorem store_transparent_partial (σ : Store) :
    σ.commit.cur = σ.cur ∧ (∀ c σ', σ.evict c = some σ' → σ'.cur = σ.cur) ∧
    σ.reload.cur = σ.persisted ∧ σ.commit.reload.cur = σ.cur ∧
    (∀ c σ', σ.evict c = some σ' → σ.modified = true → σ'.reload.cur = σ.cur) := by
  refine ⟨rfl, ?_, rfl, rfl, ?_⟩
  · intro c σ' h
    simp only [Store.evict] at h
    cases hm : σ.modified <;> cases c <;> simp [hm, Store.commit] at h <;> subst h <;> rfl
  · intro c σ' h hm
    simp only [Store.evict, hm] at h
    cases c <;> simp [Store.commit] at h
    subst h; rfl

/-! ## node-id store layer (abstract): renaming and agreement -/

theorem logicalCs_congr {g g' : Nat → Option T} : ∀ (cs : List (UInt8 × Nat)),
    (∀ p ∈ cs, g p.2 = g' p.2) → logicalCs g cs = logicalCs g' cs
  | [], _ => rfl
  | (b, i) :: rest, h => by
    simp only [logicalCs]
    rw [h (b, i) (List.mem_cons_self ..), logicalCs_congr rest (fun p hp => h p (List.mem_cons_of_mem _ hp))]

theorem logicalCs_rename {g g' : Nat → Option T} (ρ : Nat → Nat) : ∀ (cs : List (UInt8 × Nat)),
    (∀ p ∈ cs, g' (ρ p.2) = g p.2) →
    logicalCs g' (cs.map fun p => (p.1, ρ p.2)) = logicalCs g cs
  | [], _ => rfl
  | (b, i) :: rest, h => by
    simp only [List.map, logicalCs]
    rw [h (b, i) (List.mem_cons_self ..), logicalCs_rename ρ rest (fun p hp => h p (List.mem_cons_of_mem _ hp))]

/-- **page reallocation is invisible**: if `m'` holds at `ρ i` the node `m` holds at `i` with its child ids
renamed (reallocatePage / reallocateNode / refurbishNode + remapChildren), the logical trie is the same -/
theorem logical_rename (ρ : Nat → Nat) (m m' : Mem)
    (h : ∀ i, m' (ρ i) = (m i).map (SNode.rename ρ)) :
    ∀ (f i : Nat), logical m' f (ρ i) = logical m f i
  | 0, _ => rfl
  | f + 1, i => by
    simp only [logical, h i]
    cases hm : m i with
    | none => rfl
    | some n =>
      cases n with
      | leaf s => rfl
      | node cs =>
        simp only [Option.map, SNode.rename]
        rw [logicalCs_rename ρ cs (fun p _ => logical_rename ρ m m' h f p.2)]

/-- the root hash never mentions node ids -/
theorem rename_preserves_hash (H : Key → Key) (ρ : Nat → Nat) (m m' : Mem)
    (h : ∀ i, m' (ρ i) = (m i).map (SNode.rename ρ)) (f r : Nat) :
    rootHash H (logical m' f (ρ r)) = rootHash H (logical m f r) := by
  rw [logical_rename ρ m m' h]

/-- two memories that agree on a child-closed set of ids give the same logical trie below any id of the set
(commit writes, page deletions, evictions and page loads only touch ids outside the live set, or do not
change the merged cache-over-disk view) -/
theorem logical_agree (m m' : Mem) (D : Nat → Prop)
    (hclosed : ∀ j cs, D j → m j = some (.node cs) → ∀ p ∈ cs, D p.2)
    (hagree : ∀ j, D j → m j = m' j) :
    ∀ (f i : Nat), D i → logical m f i = logical m' f i
  | 0, _, _ => rfl
  | f + 1, i, hi => by
    simp only [logical, ← hagree i hi]
    cases hm : m i with
    | none => rfl
    | some n =>
      cases n with
      | leaf s => rfl
      | node cs =>
        simp only
        rw [logicalCs_congr cs (fun p hp => logical_agree m m' D hclosed hagree f p.2 (hclosed i cs hi hm p hp))]

/-- **evict / loadPage are transparent**: dropping cache entries that the committer holds identically, or
loading committed nodes into the cache, does not change what getNode returns, hence not the logical trie -/
theorem evict_load_transparent (σ σ' : PStore) (hd : σ'.disk = σ.disk) (hr : σ'.root = σ.root)
    (h : ∀ i, σ'.cache i = σ.cache i ∨ (σ'.cache i = none ∧ σ.disk i = σ.cache i) ∨
              (σ.cache i = none ∧ σ'.cache i = σ.disk i)) (f : Nat) :
    σ'.logical f = σ.logical f := by
  have hm : σ'.mem = σ.mem := by
    funext i
    simp only [PStore.mem, hd]
    rcases h i with e | ⟨e₁, e₂⟩ | ⟨e₁, e₂⟩
    · rw [e]
    · rw [e₁]; cases hc : σ.cache i with
      | none => rfl
      | some n => rw [hc] at e₂; exact e₂
    · rw [e₁, e₂]; cases hc : σ.disk i <;> rfl
  simp only [PStore.logical, hr, hm]

/-- **commit is transparent**: whatever commit does to the pages (store created nodes, delete pages,
rewrite updated pages), if the new merged view agrees with the old one on a child-closed set containing
the root, the logical trie is unchanged; and a reload (empty cache over the new pages) reads the same trie
provided the new pages alone agree with the old merged view on that set -/
theorem commit_reload_transparent (σ σ' : PStore) (D : Nat → Prop) (r : Nat) (hr : σ.root = some r)
    (hr' : σ'.root = some r) (hD : D r)
    (hclosed : ∀ j cs, D j → σ.mem j = some (.node cs) → ∀ p ∈ cs, D p.2)
    (hagree : ∀ j, D j → σ.mem j = σ'.disk j) (f : Nat) :
    (PStore.mk (fun _ => none) σ'.disk σ'.root).logical f = σ.logical f := by
  simp only [PStore.logical, hr, hr']
  have : (PStore.mk (fun _ => none) σ'.disk (some r)).mem = σ'.disk := by funext i; simp [PStore.mem]
  rw [this]
  exact (logical_agree σ.mem σ'.disk D hclosed hagree f r hD).symm

/-- non-vacuity: a two-leaf trie stored at ids 5,6,7 and its image under the reallocation i ↦ i+100 -/
def exMem : Mem := fun i =>
  if i = 7 then some (.node [(1, 5), (2, 6)]) else if i = 5 then some (.leaf [9]) else if i = 6 then some (.leaf [8]) else none
def exMem' : Mem := fun j =>
  if j = 107 then some (.node [(1, 105), (2, 106)]) else if j = 105 then some (.leaf [9]) else if j = 106 then some (.leaf [8]) else none
example : logical exMem 3 7 = some (.node (.cons 1 (.leaf [9]) (.cons 2 (.leaf [8]) .nil))) := by decide
example : logical exMem' 3 (7 + 100) = logical exMem 3 7 := by decide
/-- the hypothesis of `logical_rename` is met by that reallocation -/
example : ∀ i, exMem' (i + 100) = (exMem i).map (SNode.rename (· + 100)) := by
  intro i
  simp only [exMem, exMem']
  by_cases h7 : i = 7
  · subst h7; rfl
  · by_cases h5 : i = 5
    · subst h5; rfl
    · by_cases h6 : i = 6
      · subst h6; rfl
      · have e7 : ¬ i + 100 = 107 := by omega
        have e5 : ¬ i + 100 = 105 := by omega
        have e6 : ¬ i + 100 = 106 := by omega
        simp [h7, h5, h6, e7, e5, e6]

/-! ## non-vacuity: concrete instances -/

/-- a history with a shared prefix split, a collapse after delete, a commit, a crash and a re-add -/
def exOps : List Op :=
  [.add [0, 0, 0], .add [0, 0, 1], .add [0, 1, 0], .commit, .del [0, 0, 1], .root, .add [0, 0, 1], .reload,
   .del [0, 1, 0], .evict false, .evict true, .add [7]]

example : (Store.empty.run id exOps).1.cur.root = some (.leaf [0, 0, 0]) := by decide
example : (SetStore.empty.run id exOps).1.cur = [[0, 0, 0]] := by decide
set_option maxRecDepth 4000 in
example : (Store.empty.run id exOps).2 = (SetStore.empty.run id exOps).2 := by decide
/-- hypotheses of `add_canon` / `remove_canon` are met by a 3-key set with shared prefixes -/
example : canon 3 [[0, 0, 0], [0, 0, 1], [0, 1, 0]] =
    some (.node (.cons 0 (.node (.cons 0 (.node (.cons 0 (.leaf []) (.cons 1 (.leaf []) .nil)))
      (.cons 1 (.leaf [0]) .nil))) .nil)) := by decide
example : ∃ t, canon 3 [[0, 0, 0], [0, 0, 1]] = some t ∧ t.isLeaf = false ∧ ([0, 1, 0] : Key) ∉ [[0, 0, 0], [0, 0, 1]]
    ∧ t.add [0, 1, 0] = canon 3 [[0, 1, 0], [0, 0, 0], [0, 0, 1]] := ⟨_, rfl, by decide, by decide, by decide⟩
example : Rep ⟨some (.leaf [1, 2]), 2⟩ [[1, 2]] :=
  Or.inr ⟨_, rfl, by simp [T.Canon], fun k => by simp [T.keys]⟩

end Props.C17
