/-
C40, schema layer — the canonical encoding identifies two objects exactly when they are equal up to the
zero-value / absent identification the codec tags prescribe.

Format layer (Props/C40.lean): `enc` is injective and prefix-free on canonical trees and inverted by `dec`.
Schema layer (Model/CodecSchema.lean): `toV ty o` is the msgpack tree emitted for a Go value `o` of schema
type `ty` (struct → map keyed by the codec names in byte order, `omitempty` fields dropped when recursively
empty, nil / empty distinguished elsewhere); `fromV` models the generated `UnmarshalMsg`; `norm ty false o`
replaces every empty value in an omitempty position by the Go zero value, and `Equiv ty o₁ o₂` (`≈`) is equality
of normal forms.

For every well-formed schema and well-typed objects:
* `toV_canon`         the emitted tree is canonical (so its bytes decode back to it, `schema_dec_enc`);
* `fromV_toV`         decode ∘ emit = normalise;
* `toV_norm`          normalisation does not change the emitted tree (and is idempotent, type preserving);
* `schema_enc_unique` equal bytes ↔ `≈`;
* `id_respects_equiv`, `id_reflects_equiv`  any identifier computed from the bytes is a function of the object
                      up to `≈`, and separates `≈`-classes when the identifier function is injective
                      (injectivity is a HYPOTHESIS of the statement, nothing is postulated).

Out of the model: pointer fields (only `Transaction.HeartbeatTxnFields`), floats / ext (no consensus type has one).
The map key restriction of `SchemaWF` (`uint | str | fixedBytes`) is what the code base uses; none of the proofs
below needs it (the `HasTy` invariant "keys strictly increasing after encoding" is what they use).
-/
import AlgoVerif.Lemmas.CodecSchema
import AlgoVerif.Props.C40
namespace Props.C40Schema
open AlgoVerif.Msgpack AlgoVerif.CodecSchema

variable {ty : Ty} {o o₁ o₂ o₃ : Obj}

theorem norm_false (ty : Ty) (o : Obj) : norm ty false o = normR ty o := by
  simp [norm]

/-- at an omitempty position an empty object is normalised to the Go zero value … -/
theorem norm_true_of_empty (ty : Ty) (o : Obj) (h : isEmpty ty o = true) : norm ty true o = zero ty := by
  simp [norm, h]

/-- … and the zero value is empty, so the field is (still) omitted -/
theorem isEmpty_zero (ty : Ty) : isEmpty ty (zero ty) = true := emptyO_zero ty

/-- **the emitted tree is canonical**: ranges fit the wire format, every map (struct or Go map, at any
depth) has strictly increasing keys -/
theorem toV_canon (hw : SchemaWF ty) (ht : HasTy ty o) : Canon (toV ty o) := by
  have h := toV_wf_sorted ty o hw ht
  unfold Canon canonB
  rw [h.1, h.2]; rfl

/-- hence the bytes decode back to exactly the emitted tree, with nothing left over -/
theorem schema_dec_enc (hw : SchemaWF ty) (ht : HasTy ty o) : dec (enc (toV ty o)) = some (toV ty o, []) :=
  Props.C40.dec_enc _ (toV_canon hw ht)

/-- … and are canonical bytes in the sense of the C40 driver predicate -/
theorem schema_bytes_canonical (hw : SchemaWF ty) (ht : HasTy ty o) : isCanonicalBytes (enc (toV ty o)) = true :=
  (Props.C40.canonical_bytes_iff _).mpr ⟨_, toV_canon hw ht, rfl⟩

/-- **decode ∘ emit = normalise**: the round trip is the identity up to `≈` -/
theorem fromV_toV (hw : SchemaWF ty) (ht : HasTy ty o) : fromV ty (toV ty o) = some (norm ty false o) := by
  rw [norm_false]; exact fromV_toV_normR ty o hw ht

/-- **normalisation does not change the emitted tree** -/
theorem toV_norm (ht : HasTy ty o) : toV ty (norm ty false o) = toV ty o := by
  rw [norm_false]; exact toV_normR ty o ht

/-- normal forms (and zero values put in for absent fields) are well typed -/
theorem hasTy_norm (ht : HasTy ty o) : HasTy ty (norm ty false o) := by
  rw [norm_false]; exact hasTy_normR ty o ht

/-- normalisation is idempotent: normal forms are exactly the objects a decoder returns for canonical bytes,
and on those the round trip is the identity (`fromV_toV_of_normal`) -/
theorem norm_idem (hw : SchemaWF ty) (ht : HasTy ty o) :
    norm ty false (norm ty false o) = norm ty false o := by
  have h1 := fromV_toV hw (hasTy_norm ht)
  rw [toV_norm ht, fromV_toV hw ht] at h1
  exact (Option.some.inj h1).symm

theorem fromV_toV_of_normal (hw : SchemaWF ty) (ht : HasTy ty o) (hn : norm ty false o = o) :
    fromV ty (toV ty o) = some o := by
  rw [fromV_toV hw ht, hn]

/-- `≈` is an equivalence relation, and every object is `≈` its normal form -/
theorem Equiv.refl (ty : Ty) (o : Obj) : Equiv ty o o := rfl
theorem Equiv.symm (h : Equiv ty o₁ o₂) : Equiv ty o₂ o₁ := Eq.symm h
theorem Equiv.trans (h₁ : Equiv ty o₁ o₂) (h₂ : Equiv ty o₂ o₃) : Equiv ty o₁ o₃ := Eq.trans h₁ h₂
theorem equiv_norm (hw : SchemaWF ty) (ht : HasTy ty o) : Equiv ty (norm ty false o) o := norm_idem hw ht

/-- equal trees ↔ `≈` -/
theorem toV_eq_iff (hw : SchemaWF ty) (h₁ : HasTy ty o₁) (h₂ : HasTy ty o₂) :
    toV ty o₁ = toV ty o₂ ↔ Equiv ty o₁ o₂ := by
  constructor
  · intro h
    have e₁ := fromV_toV hw h₁
    have e₂ := fromV_toV hw h₂
    rw [h, e₂] at e₁
    exact (Option.some.inj e₁).symm
  · intro h
    unfold Equiv at h
    rw [← toV_norm h₁, ← toV_norm h₂, h]

/-- **the canonical encoding identifies two objects exactly when they are `≈`** -/
theorem schema_enc_unique (hw : SchemaWF ty) (h₁ : HasTy ty o₁) (h₂ : HasTy ty o₂) :
    enc (toV ty o₁) = enc (toV ty o₂) ↔ Equiv ty o₁ o₂ := by
  rw [← toV_eq_iff hw h₁ h₂]
  constructor
  · exact Props.C40.enc_inj _ _ (toV_canon hw h₁) (toV_canon hw h₂)
  · intro h; rw [h]

/-- no encoding is a proper prefix of another: concatenated objects parse uniquely (up to `≈`) -/
theorem schema_enc_prefix_free (hw : SchemaWF ty) (h₁ : HasTy ty o₁) (h₂ : HasTy ty o₂) (t₁ t₂ : Bytes)
    (h : enc (toV ty o₁) ++ t₁ = enc (toV ty o₂) ++ t₂) : Equiv ty o₁ o₂ ∧ t₁ = t₂ := by
  have := Props.C40.enc_prefix_free _ _ t₁ t₂ (Props.C40.wf_of_canon (toV_canon hw h₁))
    (Props.C40.wf_of_canon (toV_canon hw h₂)) h
  exact ⟨(toV_eq_iff hw h₁ h₂).mp this.1, this.2⟩

/-- **identifiers derived from the encoding are functions of the object up to `≈`** (transaction IDs, block
hashes, … : `H` = domain-separated hash of the bytes) -/
theorem id_respects_equiv {α : Type} (H : Bytes → α) (hw : SchemaWF ty) (h₁ : HasTy ty o₁) (h₂ : HasTy ty o₂)
    (h : Equiv ty o₁ o₂) : H (enc (toV ty o₁)) = H (enc (toV ty o₂)) := by
  rw [(schema_enc_unique hw h₁ h₂).mpr h]

/-- … and, for an injective identifier function (collision resistance, stated as a hypothesis), equal
identifiers mean `≈` objects -/
theorem id_reflects_equiv {α : Type} (H : Bytes → α) (hH : Function.Injective H) (hw : SchemaWF ty)
    (h₁ : HasTy ty o₁) (h₂ : HasTy ty o₂) (h : H (enc (toV ty o₁)) = H (enc (toV ty o₂))) : Equiv ty o₁ o₂ :=
  (schema_enc_unique hw h₁ h₂).mp (hH h)

theorem id_eq_iff_equiv {α : Type} (H : Bytes → α) (hH : Function.Injective H) (hw : SchemaWF ty)
    (h₁ : HasTy ty o₁) (h₂ : HasTy ty o₂) : H (enc (toV ty o₁)) = H (enc (toV ty o₂)) ↔ Equiv ty o₁ o₂ :=
  ⟨id_reflects_equiv H hH hw h₁ h₂, id_respects_equiv H hw h₁ h₂⟩

/-! ## non-vacuity -/

/-- a transaction-like schema: `amt` uint64, `apaa` [][]byte, `note` []byte, `rcv` [4]byte, all omitempty
(names in byte order: "amt" < "apaa" < "note" < "rcv") -/
def txTy : Ty := .struct [
  ([0x61, 0x6d, 0x74], true, .uint 64),
  ([0x61, 0x70, 0x61, 0x61], true, .slice .bytes),
  ([0x6e, 0x6f, 0x74, 0x65], true, .bytes),
  ([0x72, 0x63, 0x76], true, .fixedBytes 4)]

/-- nil note -/
def txA : Obj := .struct [.uint 5, .slice [.bytes [7], .bytesNil], .bytesNil, .fixed [1, 2, 3, 4]]
/-- empty but allocated note -/
def txB : Obj := .struct [.uint 5, .slice [.bytes [7], .bytesNil], .bytes [], .fixed [1, 2, 3, 4]]
/-- different amount -/
def txC : Obj := .struct [.uint 6, .slice [.bytes [7], .bytesNil], .bytesNil, .fixed [1, 2, 3, 4]]
/-- everything empty in four different ways -/
def txZ : Obj := .struct [.uint 0, .slice [], .bytes [], .fixed [0, 0, 0, 0]]

example : SchemaWF txTy := by decide
example : HasTy txTy txA := by decide
example : HasTy txTy txB := by decide
example : HasTy txTy txC := by decide
example : HasTy txTy txZ := by decide
example : txA ≠ txB := by decide
example : Equiv txTy txA txB := by decide
example : enc (toV txTy txA) = enc (toV txTy txB) := by decide
example : enc (toV txTy txA) =
    [0x83, 0xa3, 0x61, 0x6d, 0x74, 0x05, 0xa4, 0x61, 0x70, 0x61, 0x61, 0x92, 0xc4, 0x01, 0x07, 0xc0,
     0xa3, 0x72, 0x63, 0x76, 0xc4, 0x04, 0x01, 0x02, 0x03, 0x04] := by decide
example : ¬ Equiv txTy txA txC := by decide
example : enc (toV txTy txA) ≠ enc (toV txTy txC) := by decide
/-- the decoder returns the normal form (nil note), for both -/
example : fromV txTy (toV txTy txB) = some txA := by decide
example : norm txTy false txB = txA := by decide
/-- an all-empty struct encodes as the empty map and decodes to the zero value -/
example : enc (toV txTy txZ) = [0x80] := by decide
example : fromV txTy (toV txTy txZ) = some (zero txTy) := by decide
example : Equiv txTy txZ (zero txTy) := by decide
/-- the same statements obtained from the theorem rather than by evaluation -/
example : Equiv txTy txA txB := (schema_enc_unique (by decide) (by decide) (by decide)).mp (by decide)
example : ¬ Equiv txTy txA txC :=
  fun h => absurd ((schema_enc_unique (ty := txTy) (by decide) (by decide) (by decide)).mpr h) (by decide)

/-- in a NON-omitempty position (a slice element) nil bytes and empty bytes are different objects with
different encodings (`c0` vs `c4 00`) -/
example : SchemaWF (.slice .bytes) := by decide
example : HasTy (.slice .bytes) (.slice [.bytesNil]) := by decide
example : HasTy (.slice .bytes) (.slice [.bytes []]) := by decide
example : enc (toV (.slice .bytes) (.slice [.bytesNil])) = [0x91, 0xc0] := by decide
example : enc (toV (.slice .bytes) (.slice [.bytes []])) = [0x91, 0xc4, 0x00] := by decide
example : ¬ Equiv (.slice .bytes) (.slice [.bytesNil]) (.slice [.bytes []]) := by decide

/-- a field WITHOUT omitempty keeps its empty value on the wire, and nil / empty stay apart -/
def keepTy : Ty := .struct [([0x62], false, .bytes), ([0x6e], false, .uint 8)]
example : SchemaWF keepTy := by decide
example : enc (toV keepTy (.struct [.bytesNil, .uint 0])) = [0x82, 0xa1, 0x62, 0xc0, 0xa1, 0x6e, 0x00] := by decide
example : enc (toV keepTy (.struct [.bytes [], .uint 0])) = [0x82, 0xa1, 0x62, 0xc4, 0x00, 0xa1, 0x6e, 0x00] := by decide
example : ¬ Equiv keepTy (.struct [.bytesNil, .uint 0]) (.struct [.bytes [], .uint 0]) := by decide
/-- the decoder rejects a tree in which a non-omitempty field is missing, and one with an unknown key -/
example : fromV keepTy (.map [(.str [0x62], .nil)]) = none := by decide
example : fromV keepTy (.map [(.str [0x62], .nil), (.str [0x6e], .uint 1), (.str [0x7a], .uint 1)]) = none := by decide
example : fromV txTy (.map [(.str [0x72, 0x63, 0x76], .bin [1, 2, 3, 4]), (.str [0x61, 0x6d, 0x74], .uint 5)]) = none := by decide

/-- Go maps and nested structs: a map value that is an all-empty struct is still emitted (as `80`) -/
def mapTy : Ty := .map (.uint 64) (.struct [([0x61], true, .uint 64), ([0x62], true, .array 2 .bool)])
example : SchemaWF mapTy := by decide
example : HasTy mapTy (.map [(.uint 1, .struct [.uint 0, .array [.bool false, .bool false]]),
                             (.uint 300, .struct [.uint 9, .array [.bool false, .bool true]])]) := by decide
example : enc (toV mapTy (.map [(.uint 1, .struct [.uint 0, .array [.bool false, .bool false]]),
                                (.uint 300, .struct [.uint 9, .array [.bool false, .bool true]])])) =
    [0x82, 0x01, 0x80, 0xcd, 0x01, 0x2c, 0x82, 0xa1, 0x61, 0x09, 0xa1, 0x62, 0x92, 0xc2, 0xc3] := by decide
/-- keys out of order: not the representation of a Go map -/
example : HasTy mapTy (.map [(.uint 300, .struct [.uint 0, .array [.bool false, .bool false]]),
                             (.uint 1, .struct [.uint 0, .array [.bool false, .bool false]])]) = false := by decide
/-- ill-formed schemas: field names out of order / duplicated; struct-keyed map -/
example : SchemaWF (.struct [([0x62], true, .bool), ([0x61], true, .bool)]) = false := by decide
example : SchemaWF (.struct [([0x61], true, .bool), ([0x61], true, .bool)]) = false := by decide
example : SchemaWF (.map (.struct []) .bool) = false := by decide
/-- signed integers: non-negative values join the unsigned family, range is checked -/
example : enc (toV (.int 8) (.int 5)) = [0x05] ∧ enc (toV (.int 8) (.int (-5))) = [0xfb] := by decide
example : HasTy (.int 8) (.int 128) = false ∧ HasTy (.int 8) (.int (-128)) = true := by decide

end Props.C40Schema
