/-
C20 — Proposed blocks validate and evaluation is deterministic.
Theorems about `Model.BlockEval` (block-level evaluation: StartEvaluator in generate / validate mode, the producer loop of
the transaction pool, endOfBlock, GenerateBlock, FinishBlock, Eval with validate = true) on top of `Model.LedgerCore`
(group evaluation), with the rewards state of `Gen.Rewards` (C25) and the payout bound of `Model.C24` (C24).

FULL for the modelled evaluator (all environments, pools, knock-off list choices, proposers):
  generate_validates, generate_fields_rederivable, eval_deterministic, accepted_fields_unique, validate_rejects_*,
  validate_rejects_field_change, validate_payout_bound, validate_payouts_disabled, assemble_evalBlock.
PARTIAL with respect to the property text (see `unmodelledHeaderFields`, `block_validates_partial`): the header fields and
evaluator parts listed there are outside the model; for them the check is implementation-vs-implementation (harness).
-/
import AlgoVerif.Model.BlockEval
import AlgoVerif.Lemmas.LedgerCore
set_option linter.unusedSectionVars false
set_option linter.unusedVariables false
namespace Props.C20
open AlgoVerif.Model.LedgerCore AlgoVerif.Model.BlockEval AlgoVerif.Lemmas.LedgerCore

section
variable {κ τ : Type} [DecidableEq κ] [DecidableEq τ]

/-! ## plumbing -/

theorem bind_ok {α β : Type} (x : Except BErr α) (f : α → Except BErr β) (b : β) :
    (x >>= f) = .ok b ↔ ∃ a, x = .ok a ∧ f a = .ok b := by
  cases x with
  | error e => simp [bind, Except.bind]
  | ok a => simp [bind, Except.bind]
theorem check_ok (c : Bool) (e : BErr) (u : Unit) : check c e = .ok u ↔ c = true := by
  unfold check; cases c <;> simp
theorem assemble_evalBlock (P : Params) (x : Ctx) : ∀ (pool : List (List Txn)) (s : EvalState),
    (assemble P x s pool).1 = evalBlock P x s pool := by
  intro pool
  induction pool with
  | nil => intro s; rfl
  | cons g gs ih =>
    intro s
    simp only [assemble, evalBlock]
    cases hg : evalGroup P x s g with
    | ok s' => exact ih s'
    | error e => exact ih s

theorem assemble_evalAll (P : Params) (x : Ctx) : ∀ (pool : List (List Txn)) (s : EvalState),
    evalAll P x s (assemble P x s pool).2 = .ok (assemble P x s pool).1 := by
  intro pool
  induction pool with
  | nil => intro s; rfl
  | cons g gs ih =>
    intro s
    simp only [assemble]
    cases hg : evalGroup P x s g with
    | ok s' => simp only [evalAll, hg]; exact ih s'
    | error e => exact ih s

theorem isZero_bal {a : Account} (h : a.isZero = true) : a.bal = 0 := by
  simp only [Account.isZero, decide_eq_true_eq] at h
  rw [h]; rfl

/-- the payout part of the producing evaluator's self-check carries over to the finished block -/
theorem validateForPayouts_finish (E : Env κ τ) (P : Params) (hP : P.payoutsEnabled = E.P.payoutsEnabled)
    (final : Layer) (ub : Block κ τ) (part : List Addr) (prp : Addr) (elig : Bool)
    (h0 : ub.hdr.proposer = 0)
    (hprp : E.P.payoutsEnabled = true → prp ≠ 0)
    (hv : validateForPayouts E P final ub.hdr true = .ok ()) :
    validateForPayouts E P final (finishBlock E ub final part prp elig).hdr false = .ok () := by
  unfold validateForPayouts at hv ⊢
  by_cases hen : E.P.payoutsEnabled = true
  · have hne : ¬ (P.payoutsEnabled = false) := by rw [hP, hen]; simp
    rw [if_neg hne] at hv ⊢
    have hfees : (finishBlock E ub final part prp elig).hdr.feesCollected = ub.hdr.feesCollected := rfl
    have hbonus : (finishBlock E ub final part prp elig).hdr.bonus = ub.hdr.bonus := rfl
    rw [hfees, hbonus]
    split at hv
    · cases hv
    · next hf =>
      rw [if_neg hf]
      split at hv
      · cases hv
      · next m hm =>
        split at hv
        · cases hv
        · next hle =>
          have hprop : (finishBlock E ub final part prp elig).hdr.proposer = prp := by
            simp [finishBlock, hen]
          have hpay : (finishBlock E ub final part prp elig).hdr.proposerPayout ≤ ub.hdr.proposerPayout := by
            simp only [finishBlock]; split <;> omega
          rw [if_neg (by omega)]
          simp only [Bool.false_eq_true, if_false]
          rw [hprop, if_neg (hprp hen)]
          rw [if_neg]
          rintro ⟨hnz, hz⟩
          apply hnz
          simp only [finishBlock]
          rw [if_pos]
          right
          have := isZero_bal hz
          simp [this]
  · have hd : E.P.payoutsEnabled = false := by simpa using hen
    have hpd : P.payoutsEnabled = false := by rw [hP, hd]
    rw [if_pos hpd] at hv ⊢
    have hfees : (finishBlock E ub final part prp elig).hdr.feesCollected = ub.hdr.feesCollected := rfl
    rw [hfees]
    split at hv
    · cases hv
    · next hf =>
      rw [if_neg hf]
      have hprop : (finishBlock E ub final part prp elig).hdr.proposer = 0 := by
        simp [finishBlock, hd, h0]
      have hpay : (finishBlock E ub final part prp elig).hdr.proposerPayout = 0 := by
        simp [finishBlock, hd]
      rw [hprop, hpay]; simp


theorem genPayout_disabled (E : Env κ τ) (P : Params) (top : Layer) (fp : Nat × Nat)
    (h : genPayout E P top = .ok fp) (hd : P.payoutsEnabled = false) : fp = (0, 0) := by
  unfold genPayout at h
  rw [hd] at h
  simp at h
  exact h.symm

/-- **C20 (modelled evaluator)**: a block assembled from any pool of groups by the producing evaluator and finished by
FinishBlock for any proposer is accepted by validation on the same state, and validation derives exactly the state the
producer reached plus the proposer-dependent tail (payout move, LastProposed). -/
theorem generate_validates (E : Env κ τ) (pool : List (List Txn)) (knock : Layer → List Addr × List Addr)
    (part : List Addr) (prp : Addr) (elig : Bool) (ub : Block κ τ) (final δ : Layer)
    (hg : generateBlock E pool knock = .ok (ub, final))
    (hprp : E.P.payoutsEnabled = true → prp ≠ 0)
    (hp : applyProposer E (E.params ub.hdr.rewards.RewardsLevel) final (finishBlock E ub final part prp elig).hdr = .ok δ) :
    validate E (finishBlock E ub final part prp elig) = .ok δ := by
  simp only [generateBlock, bind_ok] at hg
  obtain ⟨rs, hrs, top0, htop, fp, hfp, top2, hk, u, hv, heq⟩ := hg
  simp only [Except.ok.injEq, Prod.mk.injEq] at heq
  obtain ⟨hub, hfin⟩ := heq
  subst hfin
  subst hub
  simp only [validate, bind_ok, check_ok]
  refine ⟨(), by simp [finishBlock, genHeader], rs, hrs, (), by simp [finishBlock, genHeader], top0, htop,
    (assemble (E.params rs.RewardsLevel) E.ctx { top := top0, payset := [] } pool).1, ?_, top2, hk, (), ?_, hp⟩
  · have := assemble_evalAll (E.params rs.RewardsLevel) E.ctx pool { top := top0, payset := [] }
    show (match evalAll (E.params rs.RewardsLevel) E.ctx { top := top0, payset := [] }
        (assemble (E.params rs.RewardsLevel) E.ctx { top := top0, payset := [] } pool).2 with
      | .error e => Except.error (BErr.group e)
      | .ok s => Except.ok s) = _
    rw [this]
  · simp only [validateBlock, bind_ok, check_ok] at hv ⊢
    obtain ⟨u1, h1, u2, h2, u3, h3, h4⟩ := hv
    refine ⟨(), h1, (), h2, (), ?_, h4⟩
    cases u3
    refine validateForPayouts_finish E (E.params rs.RewardsLevel) rfl top2 _ part prp elig rfl hprp h3

theorem evalAll_payset (P : Params) (x : Ctx) : ∀ (gs : List (List Txn)) (s s' : EvalState),
    evalAll P x s gs = .ok s' → s'.payset = s.payset ++ gs.flatten := by
  intro gs
  induction gs with
  | nil => intro s s' h; simp only [evalAll] at h; cases h; simp
  | cons g r ih =>
    intro s s' h
    simp only [evalAll] at h
    split at h
    · next s1 h1 =>
      have := ih s1 s' h
      rw [this]
      cases g with
      | nil => simp only [evalGroup] at h1; cases h1; simp
      | cons t ts =>
        simp only [evalGroup] at h1
        split at h1
        · cases h1
        · cases h1; simp [List.append_assoc]
    · cases h


/-! ## the expired / absent processing touches neither counters nor money -/

theorem resetExpired_meta (x : Ctx) : ∀ (l : List Addr) (top : Layer),
    (resetExpired x top l).fees = top.fees ∧ (resetExpired x top l).txnCount = top.txnCount := by
  intro l
  induction l with
  | nil => intro top; exact ⟨rfl, rfl⟩
  | cons a r ih => intro top; simp only [resetExpired]; exact ih _

theorem suspendAbsent_meta (x : Ctx) : ∀ (l : List Addr) (top : Layer),
    (suspendAbsent x top l).fees = top.fees ∧ (suspendAbsent x top l).txnCount = top.txnCount := by
  intro l
  induction l with
  | nil => intro top; exact ⟨rfl, rfl⟩
  | cons a r ih => intro top; simp only [suspendAbsent]; exact ih _

theorem resetExpired_money (x : Ctx) : ∀ (l : List Addr) (top : Layer) (b : Addr),
    (acctOf x (resetExpired x top l) b).bal = (acctOf x top b).bal ∧
    (acctOf x (resetExpired x top l) b).totalAssets = (acctOf x top b).totalAssets := by
  intro l
  induction l with
  | nil => intro top b; exact ⟨rfl, rfl⟩
  | cons a r ih =>
    intro top b
    simp only [resetExpired]
    obtain ⟨h1, h2⟩ := ih (putAcct top a (clearOnline (acctOf x top a))) b
    rw [h1, h2, acctOf_putAcct]
    by_cases hb : b = a
    · subst hb; simp [clearOnline]
    · simp [hb]

theorem suspendAbsent_money (x : Ctx) : ∀ (l : List Addr) (top : Layer) (b : Addr),
    (acctOf x (suspendAbsent x top l) b).bal = (acctOf x top b).bal ∧
    (acctOf x (suspendAbsent x top l) b).totalAssets = (acctOf x top b).totalAssets := by
  intro l
  induction l with
  | nil => intro top b; exact ⟨rfl, rfl⟩
  | cons a r ih =>
    intro top b
    simp only [suspendAbsent]
    obtain ⟨h1, h2⟩ := ih (putAcct top a (suspend (acctOf x top a))) b
    rw [h1, h2, acctOf_putAcct]
    by_cases hb : b = a
    · subst hb; simp [suspend]
    · simp [hb]

theorem knockOff_eq (E : Env κ τ) (P : Params) (top top2 : Layer) (exp abs : List Addr)
    (h : knockOff E P top exp abs = .ok top2) : top2 = suspendAbsent E.ctx (resetExpired E.ctx top exp) abs := by
  simp only [knockOff, bind_ok] at h
  obtain ⟨_, _, _, _, h⟩ := h
  cases h; rfl

theorem knockOff_meta (E : Env κ τ) (P : Params) (top top2 : Layer) (exp abs : List Addr)
    (h : knockOff E P top exp abs = .ok top2) : top2.fees = top.fees ∧ counterOf E.ctx top2 = counterOf E.ctx top := by
  rw [knockOff_eq E P top top2 exp abs h]
  obtain ⟨a1, a2⟩ := suspendAbsent_meta E.ctx abs (resetExpired E.ctx top exp)
  obtain ⟨b1, b2⟩ := resetExpired_meta E.ctx exp top
  refine ⟨a1.trans b1, ?_⟩
  have e : ∀ l : Layer, counterOf E.ctx l = E.base.txnCount + (l.txnCount + 0) := fun _ => rfl
  rw [e, e, a2, b2]

/-- the payout bound read after the expired / absent accounts were processed equals the one read before: the fee sink's
balance and asset count are untouched (ClearOnlineState / Suspend change only participation fields) -/
theorem knockOff_payoutMax (E : Env κ τ) (P : Params) (top top2 : Layer) (exp abs : List Addr) (fees bonus : Nat)
    (h : knockOff E P top exp abs = .ok top2) : payoutMax E P top2 fees bonus = payoutMax E P top fees bonus := by
  rw [knockOff_eq E P top top2 exp abs h]
  obtain ⟨a1, a2⟩ := suspendAbsent_money E.ctx abs (resetExpired E.ctx top exp) P.feeSink
  obtain ⟨b1, b2⟩ := resetExpired_money E.ctx exp top P.feeSink
  simp only [payoutMax, minBalance, a1, a2, b1, b2]

/-! ## every header field set in generate mode is re-derived identically by the validate-mode checks -/

/-- Once the rewards state, the rewards withdrawal, the payout computation and the validators of the (arbitrary) expired /
absent lists have succeeded, the `if eval.validate {…}` self-check of the producing evaluator cannot fail: commitment,
counter, fees collected, payout bound and state-proof tracking written by `if eval.generate {…}` are exactly what the
validate-mode code recomputes — also for the two fields (counter, payout bound) that are computed BEFORE the expired /
absent accounts are processed and re-checked AFTER. -/
theorem generate_fields_rederivable (E : Env κ τ) (P : Params) (rs : RewardsState) (s : EvalState)
    (fp : Nat × Nat) (lists : List Addr × List Addr) (top2 : Layer)
    (hfp : genPayout E P s.top = .ok fp)
    (hk : knockOff E P s.top (genHeader E rs s fp lists).expired (genHeader E rs s fp lists).absent = .ok top2) :
    validateBlock E P s top2 (genHeader E rs s fp lists) true = .ok () := by
  obtain ⟨hfee, hctr⟩ := knockOff_meta E P s.top top2 _ _ hk
  have hpm := fun f b => knockOff_payoutMax E P s.top top2 _ _ f b hk
  simp only [validateBlock, bind_ok, check_ok]
  refine ⟨(), by simp [genHeader], (), by simp [genHeader, hctr], (), ?_, by simp [genHeader]⟩
  unfold validateForPayouts
  unfold genPayout at hfp
  by_cases hen : P.payoutsEnabled = true
  · rw [if_pos hen] at hfp
    rw [if_neg (by simp [hen])]
    split at hfp
    · cases hfp
    · next m hm =>
      cases hfp
      simp only [genHeader, hfee, ne_eq, not_true_eq_false, if_false, hpm, hm, Nat.lt_irrefl, if_true]
  · rw [if_neg hen] at hfp
    cases hfp
    have hd : P.payoutsEnabled = false := by simpa using hen
    rw [if_pos hd]
    simp [genHeader]

/-! ## what an accepted block satisfies -/

/-- inversion of `validate` -/
theorem validate_inv (E : Env κ τ) (b : Block κ τ) (δ : Layer) (h : validate E b = .ok δ) :
    ∃ top0 s top2,
      b.hdr.bonus = E.bonus ∧ nextRewards E = .ok b.hdr.rewards ∧
      startTop E b.hdr.rewards.RewardsLevel = .ok top0 ∧
      evalAll (E.params b.hdr.rewards.RewardsLevel) E.ctx { top := top0, payset := [] } b.payset = .ok s ∧
      knockOff E (E.params b.hdr.rewards.RewardsLevel) s.top b.hdr.expired b.hdr.absent = .ok top2 ∧
      E.commit s.payset = b.hdr.txnCommit ∧
      b.hdr.txnCounter = (if E.txnCounterOn then counterOf E.ctx s.top else 0) ∧
      validateForPayouts E (E.params b.hdr.rewards.RewardsLevel) top2 b.hdr false = .ok () ∧
      top2.fees = s.top.fees ∧
      b.hdr.sp = E.spTrack ∧
      applyProposer E (E.params b.hdr.rewards.RewardsLevel) top2 b.hdr = .ok δ := by
  simp only [validate, bind_ok, check_ok, decide_eq_true_eq] at h
  obtain ⟨_, hb, rs, hrs, _, hrw, top0, htop, s, hs, top2, hk, _, hv, hp⟩ := h
  subst hrw
  simp only [validateBlock, bind_ok, check_ok, decide_eq_true_eq] at hv
  obtain ⟨_, hc, _, hctr, u, hvp, hsp⟩ := hv
  cases u
  obtain ⟨hfee, hcnt⟩ := knockOff_meta E _ s.top top2 _ _ hk
  refine ⟨top0, s, top2, hb, hrs, htop, ?_, hk, hc, ?_, hvp, hfee, hsp, hp⟩
  · revert hs
    cases evalAll (E.params b.hdr.rewards.RewardsLevel) E.ctx { top := top0, payset := [] } b.payset with
    | error e => intro hs; cases hs
    | ok s' => intro hs; cases hs; rfl
  · rw [hctr, hcnt]

/-- **Evaluation is deterministic**: validation is a function of (state, block) — immediate for a functional model, stated
because it is the model-level half of the property; the implementation-level half (prefetcher, verification pool, caches,
a second ledger) is checked implementation-vs-implementation by the harness. -/
theorem eval_deterministic (E : Env κ τ) (b : Block κ τ) (r₁ r₂ : Except BErr Layer)
    (h₁ : validate E b = r₁) (h₂ : validate E b = r₂) : r₁ = r₂ := by rw [← h₁, ← h₂]

/-- Two accepted blocks over the same state with the same payset agree on every modelled header field that the evaluator
derives: rewards state, bonus, payset commitment, transaction counter, state-proof tracking, and the fees collected (equal
when payouts are enabled, both zero otherwise) — whatever their expired / absent lists and proposers are. -/
theorem accepted_fields_unique (E : Env κ τ) (b b' : Block κ τ) (δ δ' : Layer)
    (h : validate E b = .ok δ) (h' : validate E b' = .ok δ') (hp : b'.payset = b.payset) :
    b'.hdr.rewards = b.hdr.rewards ∧ b'.hdr.bonus = b.hdr.bonus ∧ b'.hdr.txnCommit = b.hdr.txnCommit ∧
    b'.hdr.txnCounter = b.hdr.txnCounter ∧ b'.hdr.sp = b.hdr.sp ∧ b'.hdr.feesCollected = b.hdr.feesCollected := by
  obtain ⟨top0, s, top2, hb, hrs, htop, hs, hk, hc, hctr, hvp, hfee, hsp, _⟩ := validate_inv E b δ h
  obtain ⟨top0', s', top2', hb', hrs', htop', hs', hk', hc', hctr', hvp', hfee', hsp', _⟩ := validate_inv E b' δ' h'
  have hr : b'.hdr.rewards = b.hdr.rewards := (Except.ok.inj (hrs.symm.trans hrs')).symm
  rw [hr] at htop' hs' hvp'
  rw [htop] at htop'; cases htop'
  rw [hp, hs] at hs'; cases hs'
  refine ⟨hr, hb'.trans hb.symm, hc'.symm.trans hc, hctr'.trans hctr.symm, hsp'.trans hsp.symm, ?_⟩
  unfold validateForPayouts at hvp hvp'
  by_cases hen : (E.params b.hdr.rewards.RewardsLevel).payoutsEnabled = false
  · rw [if_pos hen] at hvp hvp'
    split at hvp
    · cases hvp
    · next h0 =>
      split at hvp'
      · cases hvp'
      · next h0' => omega
  · rw [if_neg hen] at hvp hvp'
    split at hvp
    · cases hvp
    · next h0 =>
      split at hvp'
      · cases hvp'
      · next h0' =>
        have e1 : b.hdr.feesCollected = top2.fees := by simpa using h0
        have e2 : b'.hdr.feesCollected = top2'.fees := by simpa using h0'
        rw [e1, e2, hfee, hfee']

/-- **A block that differs from an accepted one in a derived header field is rejected** (same payset; any of: rewards state —
level, rate, residue or recalculation round —, bonus, payset commitment, transaction counter, state-proof tracking, fees
collected). -/
theorem validate_rejects_field_change (E : Env κ τ) (b b' : Block κ τ) (δ : Layer)
    (h : validate E b = .ok δ) (hp : b'.payset = b.payset)
    (hdiff : b'.hdr.rewards ≠ b.hdr.rewards ∨ b'.hdr.bonus ≠ b.hdr.bonus ∨ b'.hdr.txnCommit ≠ b.hdr.txnCommit ∨
      b'.hdr.txnCounter ≠ b.hdr.txnCounter ∨ b'.hdr.sp ≠ b.hdr.sp ∨ b'.hdr.feesCollected ≠ b.hdr.feesCollected) :
    ∀ δ', validate E b' ≠ .ok δ' := by
  intro δ' h'
  obtain ⟨a1, a2, a3, a4, a5, a6⟩ := accepted_fields_unique E b b' δ δ' h h' hp
  rcases hdiff with d | d | d | d | d | d
  · exact d a1
  · exact d a2
  · exact d a3
  · exact d a4
  · exact d a5
  · exact d a6

/-- FeesCollected ± anything -/
theorem validate_rejects_fees (E : Env κ τ) (b : Block κ τ) (δ : Layer) (v : Nat)
    (h : validate E b = .ok δ) (hv : v ≠ b.hdr.feesCollected) :
    ∀ δ', validate E { b with hdr := { b.hdr with feesCollected := v } } ≠ .ok δ' :=
  validate_rejects_field_change E b _ δ h rfl (Or.inr (Or.inr (Or.inr (Or.inr (Or.inr hv)))))

/-- TxnCounter -/
theorem validate_rejects_txnCounter (E : Env κ τ) (b : Block κ τ) (δ : Layer) (v : Nat)
    (h : validate E b = .ok δ) (hv : v ≠ b.hdr.txnCounter) :
    ∀ δ', validate E { b with hdr := { b.hdr with txnCounter := v } } ≠ .ok δ' :=
  validate_rejects_field_change E b _ δ h rfl (Or.inr (Or.inr (Or.inr (Or.inl hv))))

/-- payset commitment (any other value, e.g. one bit flipped) -/
theorem validate_rejects_commitment (E : Env κ τ) (b : Block κ τ) (δ : Layer) (v : κ)
    (h : validate E b = .ok δ) (hv : v ≠ b.hdr.txnCommit) :
    ∀ δ', validate E { b with hdr := { b.hdr with txnCommit := v } } ≠ .ok δ' :=
  validate_rejects_field_change E b _ δ h rfl (Or.inr (Or.inr (Or.inl hv)))

/-- rewards state: level, rate, residue or recalculation round -/
theorem validate_rejects_rewards (E : Env κ τ) (b : Block κ τ) (δ : Layer) (v : RewardsState)
    (h : validate E b = .ok δ) (hv : v ≠ b.hdr.rewards) :
    ∀ δ', validate E { b with hdr := { b.hdr with rewards := v } } ≠ .ok δ' :=
  validate_rejects_field_change E b _ δ h rfl (Or.inl hv)

/-- bonus -/
theorem validate_rejects_bonus (E : Env κ τ) (b : Block κ τ) (δ : Layer) (v : Nat)
    (h : validate E b = .ok δ) (hv : v ≠ b.hdr.bonus) :
    ∀ δ', validate E { b with hdr := { b.hdr with bonus := v } } ≠ .ok δ' :=
  validate_rejects_field_change E b _ δ h rfl (Or.inr (Or.inl hv))

/-- state-proof tracking -/
theorem validate_rejects_stateProofTracking (E : Env κ τ) (b : Block κ τ) (δ : Layer) (v : τ)
    (h : validate E b = .ok δ) (hv : v ≠ b.hdr.sp) :
    ∀ δ', validate E { b with hdr := { b.hdr with sp := v } } ≠ .ok δ' :=
  validate_rejects_field_change E b _ δ h rfl (Or.inr (Or.inr (Or.inr (Or.inr (Or.inl hv)))))

/-- the payout of an accepted block is within the bound computed from the block's own fees collected and bonus and the fee
sink at the end of the block; the proposer is set -/
theorem validate_payout_bound (E : Env κ τ) (b : Block κ τ) (δ : Layer) (h : validate E b = .ok δ)
    (hen : E.P.payoutsEnabled = true) :
    ∃ top0 s top2 m, startTop E b.hdr.rewards.RewardsLevel = .ok top0 ∧
      evalAll (E.params b.hdr.rewards.RewardsLevel) E.ctx { top := top0, payset := [] } b.payset = .ok s ∧
      knockOff E (E.params b.hdr.rewards.RewardsLevel) s.top b.hdr.expired b.hdr.absent = .ok top2 ∧
      b.hdr.feesCollected = s.top.fees ∧
      payoutMax E (E.params b.hdr.rewards.RewardsLevel) s.top b.hdr.feesCollected b.hdr.bonus = some m ∧
      b.hdr.proposerPayout ≤ m ∧ b.hdr.proposer ≠ 0 := by
  obtain ⟨top0, s, top2, hb, hrs, htop, hs, hk, hc, hctr, hvp, hfee, hsp, _⟩ := validate_inv E b δ h
  unfold validateForPayouts at hvp
  have hne : ¬ ((E.params b.hdr.rewards.RewardsLevel).payoutsEnabled = false) := by
    show ¬ (E.P.payoutsEnabled = false); rw [hen]; simp
  rw [if_neg hne] at hvp
  split at hvp
  · cases hvp
  · next h0 =>
    split at hvp
    · cases hvp
    · next m hm =>
      split at hvp
      · cases hvp
      · next hle =>
        simp only [Bool.false_eq_true, if_false] at hvp
        split at hvp
        · cases hvp
        · next hprp =>
          refine ⟨top0, s, top2, m, htop, hs, hk, ?_, ?_, by omega, hprp⟩
          · have : b.hdr.feesCollected = top2.fees := by simpa using h0
            rw [this, hfee]
          · rw [← knockOff_payoutMax E _ s.top top2 _ _ _ _ hk]; exact hm

/-- a claimed payout above the bound is rejected -/
theorem validate_rejects_payout (E : Env κ τ) (b : Block κ τ) (δ : Layer) (v : Nat)
    (h : validate E b = .ok δ) (hen : E.P.payoutsEnabled = true)
    (hv : ∀ top0 s m, startTop E b.hdr.rewards.RewardsLevel = .ok top0 →
      evalAll (E.params b.hdr.rewards.RewardsLevel) E.ctx { top := top0, payset := [] } b.payset = .ok s →
      payoutMax E (E.params b.hdr.rewards.RewardsLevel) s.top b.hdr.feesCollected b.hdr.bonus = some m → m < v) :
    ∀ δ', validate E { b with hdr := { b.hdr with proposerPayout := v } } ≠ .ok δ' := by
  intro δ' h'
  obtain ⟨top0, s, top2, m, htop, hs, hk, hf, hm, hle, _⟩ := validate_payout_bound E _ δ' h' hen
  have := hv top0 s m htop hs hm
  simp only at hle
  omega

/-- before payouts are enabled FeesCollected, Proposer and ProposerPayout must all be zero -/
theorem validate_payouts_disabled (E : Env κ τ) (b : Block κ τ) (δ : Layer) (h : validate E b = .ok δ)
    (hd : E.P.payoutsEnabled = false) :
    b.hdr.feesCollected = 0 ∧ b.hdr.proposer = 0 ∧ b.hdr.proposerPayout = 0 := by
  obtain ⟨top0, s, top2, hb, hrs, htop, hs, hk, hc, hctr, hvp, hfee, hsp, _⟩ := validate_inv E b δ h
  unfold validateForPayouts at hvp
  have hpd : (E.params b.hdr.rewards.RewardsLevel).payoutsEnabled = false := hd
  rw [if_pos hpd] at hvp
  split at hvp
  · cases hvp
  · next h1 =>
    split at hvp
    · cases hvp
    · next h2 =>
      split at hvp
      · cases hvp
      · next h3 => exact ⟨by simpa using h1, by simpa using h2, by simpa using h3⟩

/-- the payset of an accepted block, flattened, is what the commitment is computed over -/
theorem validate_commitment (E : Env κ τ) (b : Block κ τ) (δ : Layer) (h : validate E b = .ok δ) :
    b.hdr.txnCommit = E.commit b.payset.flatten := by
  obtain ⟨top0, s, top2, hb, hrs, htop, hs, hk, hc, _⟩ := validate_inv E b δ h
  have := evalAll_payset _ _ _ _ _ hs
  rw [← hc, this]; rfl


/-! ## the statement of the property and what the model covers of it -/

/-- C20 for an arbitrary producer / validator pair over states `St`, pools `Pl`, producer choices `Ch` (knock-off lists,
proposer, eligibility, …), blocks `B` and state changes `Δ` (states are `St`). -/
def BlockValidatesStatement {St Pl Ch B Δ : Type} (produce : St → Pl → Ch → Option (B × Δ)) (accept : St → B → Option Δ) : Prop :=
  ∀ σ pool c b δ, produce σ pool c = some (b, δ) → accept σ b = some δ

/-- Header fields and evaluator parts that are NOT in `Model.BlockEval`: for them `block_validates_partial` says nothing and
the check relies on the implementation-vs-implementation harness (every assembled block is validated by the real
`Ledger.Validate` in many configurations; single-field mutations of these fields must be rejected by the real code). -/
def unmodelledHeaderFields : List String :=
  ["Round, Branch, Branch512, Seed (PreCheck / agreement)", "TimeStamp", "GenesisID, GenesisHash", "UpgradeState, UpgradeVote",
   "CongestionTax, Load (block byte accounting, ErrNoSpace)", "RewardsState.FeeSink, RewardsState.RewardsPool (constants of the model)",
   "TxnCommitments as three concrete digests (one abstract value here; C29 proves the digests bind the payset)",
   "StateProofTracking contents (one abstract value here)", "ApplyData of every SignedTxnInBlock and its comparison in validate mode",
   "Payset encoding (EncodeSignedTxn / DecodePaysetGroups: the model's payset is the list of groups)",
   "AccountTotals / CalculateTotals", "transaction kinds outside Model.LedgerCore (application calls, state proofs, heartbeats, rekeying, leases)",
   "prefetcher, verification pool, verified-transaction cache, account caches: not modelled at all (sampled by the harness)"]

/-- the producer of the model: GenerateBlock, then FinishBlock for the chosen proposer; the state change is the producer's
end-of-block state plus the proposer-dependent tail -/
def produce (E : Env κ τ) (pool : List (List Txn))
    (c : (Layer → List Addr × List Addr) × List Addr × Addr × Bool) : Option (Block κ τ × Layer) :=
  match generateBlock E pool c.1 with
  | .error _ => none
  | .ok (ub, final) =>
    if E.P.payoutsEnabled = true ∧ c.2.2.1 = 0 then none     -- agreement always names a proposer
    else
      match applyProposer E (E.params ub.hdr.rewards.RewardsLevel) final (finishBlock E ub final c.2.1 c.2.2.1 c.2.2.2).hdr with
      | .error _ => none                                       -- the payout credit overflows the proposer's balance
      | .ok δ => some (finishBlock E ub final c.2.1 c.2.2.1 c.2.2.2, δ)

def accept (E : Env κ τ) (b : Block κ τ) : Option Layer :=
  match validate E b with
  | .ok δ => some δ
  | .error _ => none

/-- **C20, partial**: the statement holds for the modelled evaluator (all states, pools, list choices, proposers).  Not
covered: `unmodelledHeaderFields`. -/
theorem block_validates_partial : BlockValidatesStatement (produce (κ := κ) (τ := τ)) accept := by
  intro E pool c b δ h
  unfold produce at h
  split at h
  · cases h
  · next ub final hg =>
    split at h
    · cases h
    · next hz =>
      split at h
      · cases h
      · next δ' hp =>
        simp only [Option.some.injEq, Prod.mk.injEq] at h
        obtain ⟨rfl, rfl⟩ := h
        have := generate_validates E pool c.1 c.2.1 c.2.2.1 c.2.2.2 ub final δ' hg
          (fun hen h0 => hz ⟨hen, h0⟩) hp
        unfold accept
        rw [this]

end

/-! ## non-vacuity: a concrete block with an accepted and a dropped group, an expired account, moving rewards, a payout -/
namespace Ex

def rp : Gen.Rewards.config_ConsensusParams := ⟨100000, 500000, true, true⟩
def base : Base :=
  { accts := [(1, { bal := 10000000 }),
              (2, { bal := 5000000, status := .online, incentive := true, voteId := 3, selId := 4, spId := 5,
                    voteFirst := 1, voteLast := 1, voteKD := 10 }),
              (7, { status := .notPart, bal := 20000000 }),
              (8, { status := .notPart, bal := 1000000000 })],
    txnCount := 1000 }
/-- commitments are the payset itself, state-proof tracking is trivial -/
def env : Env (List Txn) Unit :=
  { P := { round := 2 }, rp := rp, base := base, prevRewards := ⟨0, 1000, 0, 500000⟩, units := 15, bonus := 1000000,
    commit := id, absentCrit := fun _ _ => false, spTrack := () }
/-- a valid payment 1 → 2 and a payment from the unfunded account 3 (dropped by the producer) -/
def pool : List (List Txn) :=
  [[{ kind := .pay, sender := 1, fee := 1000, fv := 1, lv := 10, note := 1, receiver := 2, amount := 100000 }],
   [{ kind := .pay, sender := 3, fee := 1000, fv := 1, lv := 10, receiver := 1, amount := 5 }]]
/-- account 2's vote keys expired at round 1 -/
def knock : Layer → List Addr × List Addr := fun _ => ([2], [])

def ok : Bool :=
  match generateBlock env pool knock with
  | .error _ => false
  | .ok (ub, final) =>
    match applyProposer env (env.params ub.hdr.rewards.RewardsLevel) final (finishBlock env ub final [1] 1 true).hdr with
    | .error _ => false
    | .ok δ =>
      (match validate env (finishBlock env ub final [1] 1 true) with | .ok δ' => decide (δ' = δ) | .error _ => false)
      && decide (ub.payset.length = 1) && decide ((finishBlock env ub final [1] 1 true).hdr.feesCollected = 1000)
      && decide ((finishBlock env ub final [1] 1 true).hdr.proposerPayout = 1000500)
      && decide (ub.hdr.rewards.RewardsLevel = 66) && decide (ub.hdr.txnCounter = 1001) && decide (ub.hdr.expired = [2])

/-- the hypotheses of `generate_validates` are met by a non-trivial instance (and its conclusion is what evaluation gives) -/
example : ∃ ub final δ, generateBlock env pool knock = .ok (ub, final) ∧ (env.P.payoutsEnabled = true → (1 : Addr) ≠ 0) ∧
    applyProposer env (env.params ub.hdr.rewards.RewardsLevel) final (finishBlock env ub final [1] 1 true).hdr = .ok δ ∧
    ub.payset.length = 1 ∧ (finishBlock env ub final [1] 1 true).hdr.proposerPayout = 1000500 := by
  have h : ok = true := by decide
  unfold ok at h
  split at h
  · cases h
  · next ub final hg =>
    split at h
    · cases h
    · next δ hp =>
      simp only [Bool.and_eq_true, decide_eq_true_eq] at h
      exact ⟨ub, final, δ, hg, fun _ => by decide, hp, h.1.1.1.1.1.2, h.1.1.1.2⟩

/-- … hence an accepted block exists: the hypothesis `validate E b = .ok δ` of the rejection theorems is satisfiable, and a
block with FeesCollected + 1 is rejected -/
example : ∃ b δ, validate env b = .ok δ ∧ b.hdr.feesCollected = 1000 ∧
    ∀ δ', validate env { b with hdr := { b.hdr with feesCollected := 1001 } } ≠ .ok δ' := by
  have h : ok = true := by decide
  unfold ok at h
  split at h
  · cases h
  · next ub final hg =>
    split at h
    · cases h
    · next δ hp =>
      simp only [Bool.and_eq_true, decide_eq_true_eq] at h
      have hv := generate_validates env pool knock [1] 1 true ub final δ hg (fun _ => by decide) hp
      have hf := h.1.1.1.1.2
      refine ⟨_, δ, hv, hf, ?_⟩
      exact validate_rejects_fees env _ δ 1001 hv (by rw [hf]; decide)

end Ex
end Props.C20
