/-
C45 — Overflow-checked arithmetic is exact.
All theorems are about the definitions REGENERATED from data/basics/{overflow,fraction,units}.go
by tools/go2lean (AlgoVerif/Gen/Basics.lean): a change to the Go source changes those definitions
and re-opens these obligations.
-/
import AlgoVerif.Gen.Basics
import AlgoVerif.Spec.Arith
namespace Props.C45
open AlgoVerif.U64 Gen.Basics

def M64 : Nat := 18446744073709551616
theorem M64_eq : (2:Nat)^64 = M64 := by decide

/-- helper: the `c / b ≠ a` test of OMul detects exactly a wrapped product -/
theorem wrapped_div_ne (W a b : Nat) (hb : 0 < b) :
    ((a * b) % W) / b = a ↔ a * b < W ∨ W = 0 := by
  by_cases hW : W = 0
  · subst hW; simp [Nat.mul_div_cancel _ hb]
  constructor
  · intro h
    left
    by_cases hlt : a * b < W
    · exact hlt
    · exfalso
      have h1 : (a * b) % W < a * b := by
        have := Nat.mod_lt (a*b) (Nat.pos_of_ne_zero hW)
        omega
      have h2 : ((a * b) % W) / b * b ≤ (a * b) % W := Nat.div_mul_le_self _ _
      rw [h] at h2
      omega
  · intro h
    rcases h with h | h
    · rw [Nat.mod_eq_of_lt h, Nat.mul_div_cancel _ hb]
    · exact absurd h hW

theorem oadd_exact (w a b : Nat) (ha : a < 2^w) (hb : b < 2^w) :
    OAdd w a b = ((a + b) % 2^w, decide (2^w ≤ a + b)) := by
  unfold OAdd uadd
  simp only [Prod.mk.injEq, true_and, decide_eq_decide]
  generalize 2^w = W at *
  by_cases h : a + b < W
  · rw [Nat.mod_eq_of_lt h]; omega
  · have : (a + b) % W = a + b - W := by
      rw [Nat.mod_eq_sub_mod (by omega)]; exact Nat.mod_eq_of_lt (by omega)
    omega

/-- the sum is returned exactly when it fits -/
theorem oadd_no_overflow (w a b : Nat) (ha : a < 2^w) (hb : b < 2^w) (h : a + b < 2^w) :
    OAdd w a b = (a + b, false) := by
  rw [oadd_exact w a b ha hb, Nat.mod_eq_of_lt h]; simp; omega

theorem osub_exact (w a b : Nat) (ha : a < 2^w) (hb : b < 2^w) :
    OSub w a b = (if b ≤ a then a - b else a + 2^w - b, decide (a < b)) := by
  unfold OSub usub
  simp only [Prod.mk.injEq, decide_eq_decide]
  generalize 2^w = W at *
  rw [Nat.mod_eq_of_lt hb]
  by_cases h : b ≤ a
  · have : (a + W - b) % W = a - b := by
      have : a + W - b = (a - b) + W := by omega
      rw [this, Nat.add_mod_right]; exact Nat.mod_eq_of_lt (by omega)
    simp [h, this]; omega
  · have : (a + W - b) % W = a + W - b := Nat.mod_eq_of_lt (by omega)
    simp [h, this]; omega

theorem omul_exact (w a b : Nat) (_ha : a < 2^w) (hb : b < 2^w) :
    OMul w a b = (if a * b < 2^w then a * b else 0, decide (2^w ≤ a * b)) := by
  unfold OMul umul
  have hW : 0 < 2^w := Nat.two_pow_pos w
  generalize 2^w = W at *
  by_cases hb0 : b = 0
  · subst hb0; simp [hW]; omega
  · have hbpos : 0 < b := Nat.pos_of_ne_zero hb0
    have key := wrapped_div_ne W a b hbpos
    by_cases hfit : a * b < W
    · have h1 : (a * b % W) / b = a := key.mpr (Or.inl hfit)
      rw [Nat.mod_eq_of_lt hfit] at h1 ⊢
      simp [hb0, h1, hfit]
    · have h1 : ¬ ((a * b % W) / b = a) := by
        intro h; rcases key.mp h with h | h <;> omega
      simp [hb0, h1, hfit]; omega

theorem addsat_exact (w a b : Nat) (ha : a < 2^w) (hb : b < 2^w) :
    AddSaturate w a b = min (a + b) (2^w - 1) := by
  unfold AddSaturate
  rw [oadd_exact w a b ha hb]
  unfold unot
  have hW : 0 < 2^w := Nat.two_pow_pos w
  generalize 2^w = W at *
  by_cases h : W ≤ a + b
  · simp [h, Nat.zero_mod]; omega
  · simp [h]; rw [Nat.mod_eq_of_lt (by omega)]; omega

theorem subsat_exact (w a b : Nat) (ha : a < 2^w) (hb : b < 2^w) :
    SubSaturate w a b = a - b := by
  unfold SubSaturate
  rw [osub_exact w a b ha hb]
  by_cases h : a < b
  · simp [h]; omega
  · simp [h]

theorem mulsat_exact (w a b : Nat) (ha : a < 2^w) (hb : b < 2^w) :
    MulSaturate w a b = min (a * b) (2^w - 1) := by
  unfold MulSaturate
  rw [omul_exact w a b ha hb]
  unfold unot
  have hW : 0 < 2^w := Nat.two_pow_pos w
  generalize 2^w = W at *
  generalize a * b = p at *
  by_cases h : W ≤ p
  · have h' : ¬ p < W := by omega
    simp [h, Nat.zero_mod]; omega
  · have h' : p < W := by omega
    simp [h, h']; omega

theorem iwrap64_id (x : Int) (h1 : -9223372036854775808 ≤ x) (h2 : x < 9223372036854775808) :
    iwrap 64 x = x := by
  unfold iwrap
  have e63 : (2:Int)^(64-1) = 9223372036854775808 := by decide
  have e64 : (2:Int)^64 = 18446744073709551616 := by decide
  simp only [e63, e64]
  split <;> omega

/-- signed difference: exact when it fits in int64 (including −2⁶³), flagged otherwise -/
theorem odiff_exact (a b : Nat) (ha : a < 2^64) (hb : b < 2^64) :
    ODiff a b =
      (if (-(9223372036854775808:Int) ≤ (a:Int) - b ∧ (a:Int) - b < 9223372036854775808) then (a:Int) - b else 0,
       decide (¬ (-(9223372036854775808:Int) ≤ (a:Int) - b ∧ (a:Int) - b < 9223372036854775808))) := by
  have hs1 := osub_exact 64 a b ha hb
  have hs2 := osub_exact 64 b a hb ha
  unfold OSub at hs1 hs2
  simp only [Prod.mk.injEq] at hs1 hs2
  unfold ODiff u2i
  simp only [M64_eq] at *
  unfold M64 at *
  by_cases hab : a ≥ b
  · have h1 : usub 64 a b = a - b := by rw [hs1.1]; simp [hab]
    simp only [hab, decide_true, if_true, h1]
    by_cases hbig : a - b > 9223372036854775807
    · simp [hbig]; omega
    · simp only [hbig, decide_false, Bool.false_eq_true, if_false]
      rw [iwrap64_id _ (by omega) (by omega)]
      have : ((a - b : Nat) : Int) = (a:Int) - b := by omega
      rw [this]
      have c1 : -(9223372036854775808:Int) ≤ (a:Int) - b := by omega
      have c2 : (a:Int) - b < 9223372036854775808 := by omega
      simp [c1, c2]
  · have hba : a ≤ b := by omega
    have h1 : usub 64 b a = b - a := by rw [hs2.1]; simp [hba]
    simp only [hab, decide_false, Bool.false_eq_true, if_false, h1]
    by_cases hbig : b - a > 9223372036854775808
    · simp [hbig]; omega
    · simp only [hbig, decide_false, Bool.false_eq_true, if_false]
      have c1 : -(9223372036854775808:Int) ≤ (a:Int) - b := by omega
      have c2 : (a:Int) - b < 9223372036854775808 := by omega
      simp only [c1, c2, and_self, if_true, not_true_eq_false, decide_false]
      refine congrArg (fun z => (z, false)) ?_
      by_cases hmin : b - a = 9223372036854775808
      · -- the −2⁶³ corner: int64(2⁶³) wraps to −2⁶³ and negation wraps back to −2⁶³
        rw [hmin]
        have : (a:Int) - b = -9223372036854775808 := by omega
        rw [this]; decide
      · rw [iwrap64_id ((b - a : Nat) : Int) (by omega) (by omega)]
        rw [iwrap64_id _ (by omega) (by omega)]
        omega


/-- quotient-overflow test: `c ≤ hi` (hi = ⌊p/2⁶⁴⌋) is exactly "c = 0 or ⌊p/c⌋ ≥ 2⁶⁴" -/
theorem hi_test (p c : Nat) : c ≤ p / M64 ↔ (c = 0 ∨ M64 ≤ p / c) := by
  by_cases hc : c = 0
  · subst hc; simp
  · have hcpos : 0 < c := Nat.pos_of_ne_zero hc
    have hM : 0 < M64 := by decide
    rw [Nat.le_div_iff_mul_le hM, Nat.le_div_iff_mul_le hcpos]
    simp only [hc, false_or]
    rw [Nat.mul_comm]

theorem muldiv_exact (a b c : Nat) (_ha : a < 2^64) (_hb : b < 2^64) (_hc : c < 2^64) :
    Muldiv a b c = (if c ≠ 0 ∧ a * b / c < 2^64 then a * b / c else 0,
                    decide (c = 0 ∨ 2^64 ≤ a * b / c)) := by
  unfold Muldiv muldiv mul64 div64
  simp only [M64_eq] at *
  generalize a * b = p at *
  have hsplit : p / M64 * M64 + p % M64 = p := by
    rw [Nat.mul_comm]; exact Nat.div_add_mod p M64
  have key := hi_test p c
  by_cases hov : c ≤ p / M64
  · have h2 := key.mp hov
    have h3 : ¬ (c ≠ 0 ∧ p / c < M64) := by
      intro ⟨h4, h5⟩; rcases h2 with h2 | h2 <;> omega
    simp [hov, h2, h3]
  · have h2 : ¬ (c = 0 ∨ M64 ≤ p / c) := fun h => hov (key.mpr h)
    have h3 : c ≠ 0 ∧ p / c < M64 := by
      constructor
      · intro h; exact h2 (Or.inl h)
      · apply Nat.lt_of_not_le; intro h; exact h2 (Or.inr h)
    simp only [hov, decide_false, Bool.false_eq_true, if_false, hsplit]
    rw [if_pos h3, Nat.mod_eq_of_lt h3.2]
    simp [h2]

set_option maxRecDepth 4000 in
/-- three-factor product divided by `d`: exact quotient and remainder, or the saturated failure triple -/
theorem mul2div_exact (a b c d : Nat) (_ha : a < 2^64) (_hb : b < 2^64) (_hc : c < 2^64) (hd : d < 2^64) :
    Mul2div a b c d =
      (if d ≠ 0 ∧ a * b * c / d < 2^64 then (a * b * c / d, a * b * c % d, false)
       else (2^64 - 1, 0, true)) := by
  unfold Mul2div mul64 div64
  have hsat := addsat_exact 64 ((a * b % 2^64) * c / 2^64) ((a * b / 2^64) * c % 2^64)
    (by
      have : (a * b % 2^64) * c < 2^64 * 2^64 := by
        apply Nat.mul_lt_mul'' (Nat.mod_lt _ (by decide)) _hc
      exact Nat.div_lt_of_lt_mul this)
    (Nat.mod_lt _ (by decide))
  simp only [M64_eq] at *
  -- name the pieces
  have hab : a * b / M64 * M64 + a * b % M64 = a * b := by
    rw [Nat.mul_comm]; exact Nat.div_add_mod _ M64
  have hp : a * b * c = (a * b / M64 * c) * M64 + (a * b % M64) * c := by
    conv => lhs; rw [← hab]
    rw [Nat.add_mul, Nat.mul_assoc, Nat.mul_comm M64 c, ← Nat.mul_assoc]
  generalize a * b * c = p at *
  generalize a * b / M64 * c = Xc at *
  generalize a * b % M64 * c = Yc at *
  rw [hsat]
  unfold M64 at *
  by_cases hL : Xc / 18446744073709551616 > 0
  · -- third digit non-zero: p ≥ 2¹²⁸
    have hbig : 18446744073709551616 ≤ p / d ∨ d = 0 := by
      by_cases hd0 : d = 0
      · exact Or.inr hd0
      · left; rw [Nat.le_div_iff_mul_le (Nat.pos_of_ne_zero hd0)]; omega
    have h3 : ¬ (d ≠ 0 ∧ p / d < 18446744073709551616) := by
      intro ⟨h4, h5⟩; rcases hbig with h | h <;> omega
    simp [hL, h3]
  · simp only [hL, decide_false, Bool.false_eq_true, if_false]
    by_cases hcarry : 18446744073709551616 ≤ Yc / 18446744073709551616 + Xc % 18446744073709551616
    · have hmin : min (Yc / 18446744073709551616 + Xc % 18446744073709551616) (18446744073709551616 - 1)
          = 18446744073709551615 := by omega
      have hbig : 18446744073709551616 ≤ p / d ∨ d = 0 := by
        by_cases hd0 : d = 0
        · exact Or.inr hd0
        · left; rw [Nat.le_div_iff_mul_le (Nat.pos_of_ne_zero hd0)]; omega
      have h3 : ¬ (d ≠ 0 ∧ p / d < 18446744073709551616) := by
        intro ⟨h4, h5⟩; rcases hbig with h | h <;> omega
      have hle : d ≤ 18446744073709551615 := by omega
      simp [hmin, hle, h3]
    · have hmin : min (Yc / 18446744073709551616 + Xc % 18446744073709551616) (18446744073709551616 - 1)
          = Yc / 18446744073709551616 + Xc % 18446744073709551616 := by omega
      rw [hmin]
      have hX : Xc % 18446744073709551616 = Xc := Nat.mod_eq_of_lt (by omega)
      have hY := Nat.div_add_mod Yc 18446744073709551616
      have hpp : (Yc / 18446744073709551616 + Xc % 18446744073709551616) * 18446744073709551616
          + Yc % 18446744073709551616 = p := by
        rw [hX, Nat.add_mul, hp, Nat.mul_comm (Yc / 18446744073709551616)]
        omega
      rw [hpp]
      by_cases hov : d ≤ Yc / 18446744073709551616 + Xc % 18446744073709551616
      · have hbig : 18446744073709551616 ≤ p / d ∨ d = 0 := by
          by_cases hd0 : d = 0
          · exact Or.inr hd0
          · left; rw [Nat.le_div_iff_mul_le (Nat.pos_of_ne_zero hd0)]; omega
        have h3 : ¬ (d ≠ 0 ∧ p / d < 18446744073709551616) := by
          intro ⟨h4, h5⟩; rcases hbig with h | h <;> omega
        simp [hov, h3]
      · have hd0 : d ≠ 0 := by omega
        have hlt : p / d < 18446744073709551616 := by
          rw [Nat.div_lt_iff_lt_mul (Nat.pos_of_ne_zero hd0)]; omega
        simp only [hov, decide_false, Bool.false_eq_true, if_false, hd0, hlt, ne_eq, not_false_eq_true,
          and_self, if_true]
        rw [Nat.mod_eq_of_lt hlt]

/-- a proper fraction splits `q` into ⌊q·n/d⌋ and the exact remainder; it cannot overflow -/
theorem divvy_sum (n d q : Nat) (hn : n ≤ d) (hd0 : 0 < d) (hd : d < 2^64) (hq : q < 2^64) :
    Fraction_Divvy { Numerator := n, Denominator := d } q = some (q * n / d, q - q * n / d) := by
  unfold Fraction_Divvy
  have hnlt : n < 2^64 := by omega
  have hle : q * n / d ≤ q := by
    apply Nat.div_le_of_le_mul; rw [Nat.mul_comm d q]; exact Nat.mul_le_mul_left q hn
  rw [muldiv_exact q n d hq hnlt hd]
  have h1 : d ≠ 0 ∧ q * n / d < 2^64 := ⟨by omega, by omega⟩
  have h2 : ¬ (d = 0 ∨ 2^64 ≤ q * n / d) := by omega
  rw [if_pos h1]
  simp only [h2, decide_false, Bool.false_eq_true, if_false]
  have := osub_exact 64 q (q * n / d) hq (by omega)
  unfold OSub at this
  simp only [Prod.mk.injEq] at this
  rw [this.1]; simp [hle]

theorem micros_mul_exact (m m2 : Nat) (hm : m < 2^64) (hm2 : m2 < 2^64) :
    Micros_Mul m m2 = (min (m * m2 / 1000000) (2^64 - 1), decide (2^64 ≤ m * m2 / 1000000)) := by
  unfold Micros_Mul
  rw [muldiv_exact m m2 1000000 hm hm2 (by decide)]
  simp only [M64_eq]; unfold M64
  generalize m * m2 / 1000000 = r
  by_cases h : 18446744073709551616 ≤ r
  · have h' : ¬ r < 18446744073709551616 := by omega
    simp [h, h']; omega
  · have h' : r < 18446744073709551616 := by omega
    simp [h, h']; omega

theorem mulmicros_exact (base m : Nat) (hb : base < 2^64) (hm : m < 2^64) :
    MicroAlgos_MulMicros base m = (min (base * m / 1000000) (2^64 - 1), decide (2^64 ≤ base * m / 1000000)) := by
  unfold MicroAlgos_MulMicros
  rw [muldiv_exact base m 1000000 hb hm (by decide)]
  simp only [M64_eq]; unfold M64
  generalize base * m / 1000000 = r
  by_cases h : 18446744073709551616 ≤ r
  · have h' : ¬ r < 18446744073709551616 := by omega
    simp [h, h']; omega
  · have h' : r < 18446744073709551616 := by omega
    simp [h, h']; omega

/-- multiplication by a Go `int`: negative counts are flagged and yield 0; otherwise saturating product -/
theorem mulint_exact (m : Nat) (i : Int) (hm : m < 2^64)
    (hi1 : -(9223372036854775808:Int) ≤ i) (hi2 : i < 9223372036854775808) :
    Micros_MulInt m i =
      (if i < 0 then (0, true) else (min (m * i.toNat) (2^64 - 1), decide (2^64 ≤ m * i.toNat))) := by
  unfold Micros_MulInt
  by_cases hneg : i < 0
  · simp [hneg]
  · have hconv : i2u 64 i = i.toNat := by
      unfold i2u
      have e64 : (2:Int)^64 = 18446744073709551616 := by decide
      rw [e64]; congr 1; omega
    have hlt : i.toNat < 2^64 := by simp only [M64_eq]; unfold M64; omega
    simp only [hneg, decide_false, Bool.false_eq_true, if_false, hconv]
    rw [omul_exact 64 m i.toNat hm hlt]
    simp only [M64_eq]; unfold M64
    generalize m * i.toNat = r
    by_cases h : 18446744073709551616 ≤ r
    · have h' : ¬ r < 18446744073709551616 := by omega
      simp [h, h']; omega
    · have h' : r < 18446744073709551616 := by omega
      simp [h, h']; omega

/-- the OverflowTracker accumulates: the flag is sticky and set exactly by a wrapped operation -/
theorem tracker_add (t : Bool) (a b : Nat) (ha : a < 2^64) (hb : b < 2^64) :
    OverflowTracker_Add t a b = ((a + b) % 2^64, t || decide (2^64 ≤ a + b)) := by
  unfold OverflowTracker_Add
  rw [oadd_exact 64 a b ha hb]
  cases t <;> by_cases h : 2^64 ≤ a + b <;> simp [h]

/-! The same statements phrased against `Spec.Arith` — the functions the correspondence driver
evaluates next to the real Go code. -/
theorem oadd_spec (w a b : Nat) (ha : a < 2^w) (hb : b < 2^w) : OAdd w a b = Spec.Arith.oadd w a b :=
  oadd_exact w a b ha hb
theorem osub_spec (w a b : Nat) (ha : a < 2^w) (hb : b < 2^w) : OSub w a b = Spec.Arith.osub w a b :=
  osub_exact w a b ha hb
theorem omul_spec (w a b : Nat) (ha : a < 2^w) (hb : b < 2^w) : OMul w a b = Spec.Arith.omul w a b :=
  omul_exact w a b ha hb
theorem addsat_spec (w a b : Nat) (ha : a < 2^w) (hb : b < 2^w) : AddSaturate w a b = Spec.Arith.addsat w a b :=
  addsat_exact w a b ha hb
theorem subsat_spec (w a b : Nat) (ha : a < 2^w) (hb : b < 2^w) : SubSaturate w a b = Spec.Arith.subsat w a b :=
  subsat_exact w a b ha hb
theorem mulsat_spec (w a b : Nat) (ha : a < 2^w) (hb : b < 2^w) : MulSaturate w a b = Spec.Arith.mulsat w a b :=
  mulsat_exact w a b ha hb
theorem odiff_spec (a b : Nat) (ha : a < 2^64) (hb : b < 2^64) : ODiff a b = Spec.Arith.odiff a b :=
  odiff_exact a b ha hb
theorem muldiv_spec (a b c : Nat) (ha : a < 2^64) (hb : b < 2^64) (hc : c < 2^64) :
    Muldiv a b c = Spec.Arith.muldiv a b c := muldiv_exact a b c ha hb hc
theorem mul2div_spec (a b c d : Nat) (ha : a < 2^64) (hb : b < 2^64) (hc : c < 2^64) (hd : d < 2^64) :
    Mul2div a b c d = Spec.Arith.mul2div a b c d := mul2div_exact a b c d ha hb hc hd
theorem divvy_spec (n d q : Nat) (hn : n ≤ d) (hd0 : 0 < d) (hd : d < 2^64) (hq : q < 2^64) :
    Fraction_Divvy { Numerator := n, Denominator := d } q = some (Spec.Arith.divvy n d q) :=
  divvy_sum n d q hn hd0 hd hq
theorem micros_mul_spec (m m2 : Nat) (hm : m < 2^64) (hm2 : m2 < 2^64) :
    Micros_Mul m m2 = Spec.Arith.microsMul m m2 := micros_mul_exact m m2 hm hm2
theorem mulmicros_spec (m m2 : Nat) (hm : m < 2^64) (hm2 : m2 < 2^64) :
    MicroAlgos_MulMicros m m2 = Spec.Arith.microsMul m m2 := mulmicros_exact m m2 hm hm2
theorem mulint_spec (m : Nat) (i : Int) (hm : m < 2^64)
    (hi1 : -(9223372036854775808:Int) ≤ i) (hi2 : i < 9223372036854775808) :
    Micros_MulInt m i = Spec.Arith.mulInt m i := mulint_exact m i hm hi1 hi2

-- Non-vacuity: concrete operands meeting the hypotheses, on both sides of every boundary.
example : OAdd 64 18446744073709551615 1 = (0, true) := by decide
example : OAdd 8 200 55 = (255, false) := by decide
example : OMul 64 4294967296 4294967296 = (0, true) := by decide
example : OMul 64 4294967295 4294967297 = (18446744073709551615, false) := by decide
example : ODiff 0 9223372036854775808 = (-9223372036854775808, false) := by decide
example : ODiff 0 9223372036854775809 = (0, true) := by decide
example : Muldiv 18446744073709551615 18446744073709551615 18446744073709551615 = (18446744073709551615, false) := by decide
example : Muldiv 18446744073709551615 2 1 = (0, true) := by decide
example : Mul2div 1000 1000000 1000000 1000000000000 = (1000, 0, false) := by decide

end Props.C45
