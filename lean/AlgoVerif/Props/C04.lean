/-
C04 — Bundles and certificates are accepted only if they prove a quorum.

All theorems are about `Model.Bundle` (a line-for-line model of unauthenticatedBundle.verifyAsync,
unauthenticatedVote.verify, unauthenticatedEquivocationVote.verify, Certificate.Authenticate /
claimsToAuthenticate; the real code is tied to it on every run by the C04 harness) and about the definitions
REGENERATED from agreement/types.go and agreement/params.go by tools/go2lean (`Gen.BundleSteps`).  They range over
ALL bundles (arbitrary vote lists), ALL ledgers and ALL signature / credential oracles (`Env`).

* `vote_accept_iff`, `eqvote_accept_iff`, `bundle_accept_iff`, `cert_accept_iff`: acceptance is EQUIVALENT to the
  explicit conjunction of the property text (full: decision logic).
* mutation lemmas: each listed alteration of a bundle falsifies a conjunct, hence is rejected.  Those that change
  what was signed (`wrong_round_rejected` …) need cryptography and take it as the hypothesis `IdealSig` (a
  signature verifies only on the exact raw vote it was made on) — never as an axiom; `tokEnv_ideal` shows the
  driver's instance meets it.
* `tracker_bundle_accepted`: bridge to C06 — a bundle passing the structural `Model.VoteTracker.Bundle.verify` (what
  `genBundle_valid` gives for every emitted threshold event) is accepted here once its votes verify.
-/
import AlgoVerif.Lemmas.Bundle
import AlgoVerif.Gen.BundleSteps
import AlgoVerif.Model.VoteTracker
namespace Props.C04
open AlgoVerif.Model.Bundle AlgoVerif.Lemmas.Bundle

variable {Cred Sig : Type}

/-! ### tie T: the model's threshold switch is the source's -/

def toGen (p : Params) : Gen.BundleSteps.config_ConsensusParams :=
  ⟨p.softT, p.certT, p.nextT, p.lateT, p.redoT, p.downT⟩

theorem threshold_matches_source (p : Params) (s : Nat) :
    Gen.BundleSteps.step_threshold s (toGen p) = threshold p s := by
  unfold Gen.BundleSteps.step_threshold threshold toGen
  simp only [decide_eq_true_eq]

theorem reachesQuorum_matches_source (p : Params) (s w : Nat) :
    Gen.BundleSteps.step_reachesQuorum s (toGen p) w = reachesQuorum p s w := by
  unfold Gen.BundleSteps.step_reachesQuorum reachesQuorum toGen
  simp only [decide_eq_true_eq]

theorem paramsRound_matches_source (r : Nat) (hr : r < 2 ^ 64) :
    Gen.BundleSteps.ParamsRound r = paramsRound r := by
  unfold Gen.BundleSteps.ParamsRound Gen.BundleSteps.Round_SubSaturate paramsRound AlgoVerif.U64.usub
  have h64 : (2:Nat) ^ 64 = 18446744073709551616 := by decide
  rw [h64] at hr ⊢
  by_cases h : r < 2
  · simp [h]; omega
  · simp [h]; omega

/-- the source's `reachesQuorum` is "not the propose step and weight ≥ the step's threshold", for the source's own
`threshold` — the `>`/`≥` and wrong-field mutations of either switch break this -/
theorem source_reachesQuorum_iff (p : Params) (s w : Nat) :
    Gen.BundleSteps.step_reachesQuorum s (toGen p) w = true ↔ s ≠ 0 ∧ Gen.BundleSteps.step_threshold s (toGen p) ≤ w := by
  rw [reachesQuorum_matches_source, threshold_matches_source]; exact reachesQuorum_iff p s w

/-! ### vote_accept_iff -/

/-- what `unauthenticatedVote.verify` demands of a vote, spelled out -/
structure VoteValid (env : Env Cred Sig) (rv : RawVote) (c : Cred) (s : Sig) : Prop where
  /-- the ledger knows the membership parameters and the round lies in the key's validity window -/
  member : ∃ m, env.member rv.sender rv.round rv.period rv.step = some m ∧ m.voteFirstValid ≤ rv.round
      ∧ (m.voteLastValid = 0 ∨ rv.round ≤ m.voteLastValid)
  /-- propose step: a value first proposed in this period is voted by its proposer … -/
  proposeSender : rv.step = 0 → rv.period = rv.proposal.origPeriod → rv.sender = rv.proposal.origProposer
  /-- … and no value comes from a future period -/
  proposePeriod : rv.step = 0 → rv.proposal.origPeriod ≤ rv.period
  /-- propose, soft and cert votes are never for ⊥ -/
  notBottom : rv.step ≤ 2 → rv.proposal ≠ bottom
  params : ∃ p, env.params (paramsRound rv.round) = some p
  /-- the one-time signature verifies on exactly this raw vote -/
  sig : env.sigOk rv s = true
  /-- the sender was selected for (round, period, step) with positive weight -/
  cred : ∃ w, env.credWeight rv.sender rv.round rv.period rv.step c = some w ∧ 0 < w

/-- FULL: a vote is accepted with weight `w` iff it meets every per-vote rule and `w` is its sortition weight -/
theorem vote_accept_iff (env : Env Cred Sig) (rv : RawVote) (c : Cred) (s : Sig) (w : Nat) :
    verifyVote env rv c s = .ok w ↔
      VoteValid env rv c s ∧ env.credWeight rv.sender rv.round rv.period rv.step c = some w := by
  unfold verifyVote
  cases hm : env.member rv.sender rv.round rv.period rv.step with
  | none =>
    simp only []
    constructor
    · intro h; cases h
    · rintro ⟨⟨⟨m, hm', _⟩, _, _, _, _, _, _⟩, _⟩; rw [hm] at hm'; cases hm'
  | some m =>
    simp only []
    by_cases h1 : rv.step = 0 ∧ rv.period = rv.proposal.origPeriod ∧ rv.sender ≠ rv.proposal.origProposer
    · rw [if_pos h1]
      constructor
      · intro h; cases h
      · rintro ⟨hv, _⟩; exact absurd (hv.proposeSender h1.1 h1.2.1) h1.2.2
    rw [if_neg h1]
    by_cases h2 : rv.step = 0 ∧ rv.proposal.origPeriod > rv.period
    · rw [if_pos h2]
      constructor
      · intro h; cases h
      · rintro ⟨hv, _⟩; have := hv.proposePeriod h2.1; omega
    rw [if_neg h2]
    by_cases h3 : (rv.step = 0 ∨ rv.step = 1 ∨ rv.step = 2) ∧ rv.proposal = bottom
    · rw [if_pos h3]
      constructor
      · intro h; cases h
      · rintro ⟨hv, _⟩; exact absurd h3.2 (hv.notBottom (by omega))
    rw [if_neg h3]
    cases hp : env.params (paramsRound rv.round) with
    | none =>
      simp only []
      constructor
      · intro h; cases h
      · rintro ⟨hv, _⟩; obtain ⟨p, hp'⟩ := hv.params; rw [hp] at hp'; cases hp'
    | some p =>
      simp only []
      by_cases h4 : rv.round < m.voteFirstValid
      · rw [if_pos h4]
        constructor
        · intro h; cases h
        · rintro ⟨hv, _⟩
          obtain ⟨m', hm', hf, _⟩ := hv.member
          rw [hm] at hm'; cases hm'; omega
      rw [if_neg h4]
      by_cases h5 : m.voteLastValid ≠ 0 ∧ rv.round > m.voteLastValid
      · rw [if_pos h5]
        constructor
        · intro h; cases h
        · rintro ⟨hv, _⟩
          obtain ⟨m', hm', _, hl⟩ := hv.member
          rw [hm] at hm'; cases hm'; omega
      rw [if_neg h5]
      by_cases h6 : env.sigOk rv s = true
      · have : (!env.sigOk rv s) = false := by rw [h6]; rfl
        rw [this]
        simp only [Bool.false_eq_true, if_false]
        have hbase : ∀ (hc : ∃ w, env.credWeight rv.sender rv.round rv.period rv.step c = some w ∧ 0 < w),
            VoteValid env rv c s := by
          intro hc
          refine ⟨⟨m, hm, by omega, by omega⟩, ?_, ?_, ?_, ⟨p, hp⟩, h6, hc⟩
          · intro hs hper
            exact Classical.byContradiction fun hne => h1 ⟨hs, hper, hne⟩
          · intro hs
            exact Nat.le_of_not_gt fun hgt => h2 ⟨hs, hgt⟩
          · intro hs hb
            exact h3 ⟨by omega, hb⟩
        cases hc : env.credWeight rv.sender rv.round rv.period rv.step c with
        | none =>
          simp only []
          constructor
          · intro h; cases h
          · rintro ⟨_, h⟩; cases h
        | some w' =>
          simp only []
          by_cases hz : w' = 0
          · rw [if_pos hz]
            constructor
            · intro h; cases h
            · rintro ⟨hv, h⟩
              obtain ⟨w'', hw'', hpos⟩ := hv.cred
              rw [hc] at hw''; cases hw''; omega
          · rw [if_neg hz]
            constructor
            · intro h
              injection h with h
              subst h
              exact ⟨hbase ⟨_, hc, Nat.pos_of_ne_zero hz⟩, rfl⟩
            · rintro ⟨_, h⟩; cases h; rfl
      · have : (!env.sigOk rv s) = true := by
          cases hb : env.sigOk rv s with
          | true => exact absurd hb h6
          | false => rfl
        rw [this]
        simp only [if_true]
        constructor
        · intro h; cases h
        · rintro ⟨hv, _⟩; exact absurd hv.sig h6

/-- the cryptographic part of `VoteValid` is the combined oracle `voteOk` of the design -/
theorem voteOk_eq_some (env : Env Cred Sig) (rv : RawVote) (c : Cred) (s : Sig) (w : Nat) :
    voteOk env rv c s = some w ↔
      env.sigOk rv s = true ∧ env.credWeight rv.sender rv.round rv.period rv.step c = some w ∧ 0 < w := by
  unfold voteOk
  by_cases h : env.sigOk rv s = true
  · rw [if_pos h]
    cases hc : env.credWeight rv.sender rv.round rv.period rv.step c with
    | none => simp
    | some w' =>
      by_cases hz : w' = 0
      · simp [hz]; omega
      · simp [hz, h]; intro h'; omega
  · rw [if_neg h]; simp [h]

/-- an accepted vote passed the cryptographic oracle with exactly the returned weight -/
theorem vote_accept_voteOk (env : Env Cred Sig) (rv : RawVote) (c : Cred) (s : Sig) (w : Nat)
    (h : verifyVote env rv c s = .ok w) : voteOk env rv c s = some w := by
  obtain ⟨hv, hw⟩ := (vote_accept_iff env rv c s w).mp h
  obtain ⟨w', hw', hpos⟩ := hv.cred
  rw [hw] at hw'; cases hw'
  exact (voteOk_eq_some env rv c s w).mpr ⟨hv.sig, hw, hpos⟩

/-! ### equivocation pairs -/

/-- what `unauthenticatedEquivocationVote.verify` demands: two DIFFERENT values, both validly voted by one sender
with one credential -/
structure EqValid (env : Env Cred Sig) (r p s : Nat) (e : EqAuth Cred Sig) : Prop where
  differ : e.prop0 ≠ e.prop1
  first : VoteValid env ⟨e.sender, r, p, s, e.prop0⟩ e.cred e.sig0
  second : VoteValid env ⟨e.sender, r, p, s, e.prop1⟩ e.cred e.sig1

/-- FULL -/
theorem eqvote_accept_iff (env : Env Cred Sig) (r p s : Nat) (e : EqAuth Cred Sig) (w : Nat) :
    verifyEqVote env r p s e = .ok w ↔ EqValid env r p s e ∧ env.credWeight e.sender r p s e.cred = some w := by
  unfold verifyEqVote
  by_cases hd : e.prop0 = e.prop1
  · rw [if_pos hd]
    constructor
    · intro h; cases h
    · rintro ⟨hv, _⟩; exact absurd hd hv.differ
  rw [if_neg hd]
  cases h0 : verifyVote env ⟨e.sender, r, p, s, e.prop0⟩ e.cred e.sig0 with
  | error x =>
    simp only []
    constructor
    · intro h; cases h
    · rintro ⟨hv, hw⟩
      have := (vote_accept_iff env ⟨e.sender, r, p, s, e.prop0⟩ e.cred e.sig0 w).mpr ⟨hv.first, hw⟩
      rw [h0] at this; cases this
  | ok w0 =>
    simp only []
    obtain ⟨hv0, hw0⟩ := (vote_accept_iff _ _ _ _ _).mp h0
    cases h1 : verifyVote env ⟨e.sender, r, p, s, e.prop1⟩ e.cred e.sig1 with
    | error x =>
      simp only []
      constructor
      · intro h; cases h
      · rintro ⟨hv, hw⟩
        have := (vote_accept_iff env ⟨e.sender, r, p, s, e.prop1⟩ e.cred e.sig1 w).mpr ⟨hv.second, hw⟩
        rw [h1] at this; cases this
    | ok w1 =>
      simp only []
      obtain ⟨hv1, _⟩ := (vote_accept_iff _ _ _ _ _).mp h1
      constructor
      · intro h; cases h; exact ⟨⟨hd, hv0, hv1⟩, hw0⟩
      · rintro ⟨_, hw⟩
        simp only [] at hw0
        rw [hw0] at hw; cases hw; rfl

/-! ### bundle_accept_iff -/

/-- the sortition weight of a credential for (sender, round, period, step); 0 when the proof does not verify (a
bundle containing such a credential is rejected by the validity conjunct, whatever this value) -/
def credW (env : Env Cred Sig) (sender r p s : Nat) (c : Cred) : Nat :=
  match env.credWeight sender r p s c with
  | some w => w
  | none => 0

def votesWeight (env : Env Cred Sig) (b : UBundle Cred Sig) (l : List (VoteAuth Cred Sig)) : Nat :=
  (l.map fun a => credW env a.sender b.round b.period b.step a.cred).sum

def eqVotesWeight (env : Env Cred Sig) (b : UBundle Cred Sig) (l : List (EqAuth Cred Sig)) : Nat :=
  (l.map fun e => credW env e.sender b.round b.period b.step e.cred).sum

/-- Σ of the weights of all authenticators of the bundle -/
def totalWeight (env : Env Cred Sig) (b : UBundle Cred Sig) : Nat :=
  votesWeight env b b.votes + eqVotesWeight env b b.eqVotes

/-- senders of the votes followed by the senders of the equivocation votes -/
def senders (b : UBundle Cred Sig) : List Nat := b.votes.map VoteAuth.sender ++ b.eqVotes.map EqAuth.sender

/-- the property text: the bundle PROVES A QUORUM -/
structure BundleValid (env : Env Cred Sig) (b : UBundle Cred Sig) : Prop where
  notPropose : b.step ≠ propose
  params : ∃ p, env.params (paramsRound b.round) = some p ∧
    -- the step's threshold also bounds the number of authenticators
    b.votes.length ≤ threshold p b.step ∧ b.eqVotes.length ≤ threshold p b.step ∧
    b.votes.length + b.eqVotes.length ≤ threshold p b.step ∧
    -- the total weight reaches the step's threshold
    threshold p b.step ≤ totalWeight env b
  /-- voters are distinct, across votes and equivocation votes -/
  distinct : (senders b).Nodup
  /-- every vote is a valid vote of its sender for the bundle's (round, period, step, value) -/
  votes : ∀ a ∈ b.votes, VoteValid env ⟨a.sender, b.round, b.period, b.step, b.proposal⟩ a.cred a.sig
  /-- every equivocation pair is two valid votes of one sender for two different values in (round, period, step) -/
  eqVotes : ∀ e ∈ b.eqVotes, EqValid env b.round b.period b.step e

theorem sumVotes_ok_iff (env : Env Cred Sig) (b : UBundle Cred Sig) (l : List (VoteAuth Cred Sig)) (acc W : Nat) :
    sumVotes env b l acc = .ok W ↔
      (∀ a ∈ l, VoteValid env ⟨a.sender, b.round, b.period, b.step, b.proposal⟩ a.cred a.sig) ∧
      W = acc + votesWeight env b l := by
  induction l generalizing acc with
  | nil =>
    simp only [sumVotes, votesWeight, List.map_nil, List.sum_nil, Nat.add_zero, List.not_mem_nil, false_imp_iff,
      implies_true, true_and, Except.ok.injEq]
    exact eq_comm
  | cons a rest ih =>
    unfold sumVotes
    cases hv : verifyVote env (rawOf b a) a.cred a.sig with
    | error x =>
      simp only []
      constructor
      · intro h; cases h
      · rintro ⟨hall, _⟩
        have hva := hall a (List.mem_cons_self)
        obtain ⟨w, hw, _⟩ := hva.cred
        have := (vote_accept_iff env (rawOf b a) a.cred a.sig w).mpr ⟨hva, hw⟩
        rw [hv] at this; cases this
    | ok w =>
      simp only []
      obtain ⟨hva, hw⟩ := (vote_accept_iff _ _ _ _ _).mp hv
      have hcw : credW env a.sender b.round b.period b.step a.cred = w := by
        unfold credW; simp only [rawOf] at hw; rw [hw]
      rw [ih]
      simp only [votesWeight, List.map_cons, List.sum_cons, hcw]
      constructor
      · rintro ⟨hall, hW⟩
        refine ⟨?_, by omega⟩
        intro a' ha'
        rcases List.mem_cons.mp ha' with rfl | h
        · exact hva
        · exact hall a' h
      · rintro ⟨hall, hW⟩
        exact ⟨fun a' ha' => hall a' (List.mem_cons_of_mem _ ha'), by omega⟩

theorem sumEqVotes_ok_iff (env : Env Cred Sig) (b : UBundle Cred Sig) (l : List (EqAuth Cred Sig)) (acc W : Nat) :
    sumEqVotes env b l acc = .ok W ↔
      (∀ e ∈ l, EqValid env b.round b.period b.step e) ∧ W = acc + eqVotesWeight env b l := by
  induction l generalizing acc with
  | nil =>
    simp only [sumEqVotes, eqVotesWeight, List.map_nil, List.sum_nil, Nat.add_zero, List.not_mem_nil, false_imp_iff,
      implies_true, true_and, Except.ok.injEq]
    exact eq_comm
  | cons e rest ih =>
    unfold sumEqVotes
    cases hv : verifyEqVote env b.round b.period b.step e with
    | error x =>
      simp only []
      constructor
      · intro h; cases h
      · rintro ⟨hall, _⟩
        have hve := hall e (List.mem_cons_self)
        obtain ⟨w, hw, _⟩ := hve.first.cred
        have := (eqvote_accept_iff env b.round b.period b.step e w).mpr ⟨hve, hw⟩
        rw [hv] at this; cases this
    | ok w =>
      simp only []
      obtain ⟨hve, hw⟩ := (eqvote_accept_iff _ _ _ _ _ _).mp hv
      have hcw : credW env e.sender b.round b.period b.step e.cred = w := by
        unfold credW; rw [hw]
      rw [ih]
      simp only [eqVotesWeight, List.map_cons, List.sum_cons, hcw]
      constructor
      · rintro ⟨hall, hW⟩
        refine ⟨?_, by omega⟩
        intro e' he'
        rcases List.mem_cons.mp he' with rfl | h
        · exact hve
        · exact hall e' h
      · rintro ⟨hall, hW⟩
        exact ⟨fun e' he' => hall e' (List.mem_cons_of_mem _ he'), by omega⟩

/-- FULL: a bundle is accepted iff it is not a propose bundle, respects the count bounds, has pairwise distinct
senders across votes and equivocation votes, every vote verifies for the bundle's (round, period, step, value),
every equivocation pair is two different values validly voted by one sender, and the total weight reaches the
step's threshold; the weight of the returned bundle is that total. -/
theorem bundle_accept_iff (env : Env Cred Sig) (b : UBundle Cred Sig) (W : Nat) :
    verify env b = .ok W ↔ BundleValid env b ∧ W = totalWeight env b := by
  unfold verify
  by_cases hs : b.step = propose
  · rw [if_pos hs]
    constructor
    · intro h; cases h
    · rintro ⟨hv, _⟩; exact absurd hs hv.notPropose
  rw [if_neg hs]
  cases hp : env.params (paramsRound b.round) with
  | none =>
    simp only []
    constructor
    · intro h; cases h
    · rintro ⟨hv, _⟩; obtain ⟨p, hp', _⟩ := hv.params; rw [hp] at hp'; cases hp'
  | some proto =>
    simp only []
    by_cases hl : b.votes.length > threshold proto b.step ∨ b.eqVotes.length > threshold proto b.step
        ∨ b.votes.length + b.eqVotes.length > threshold proto b.step
    · rw [if_pos hl]
      constructor
      · intro h; cases h
      · rintro ⟨hv, _⟩
        obtain ⟨p, hp', h1, h2, h3, _⟩ := hv.params
        rw [hp] at hp'; cases hp'; omega
    rw [if_neg hl]
    cases hd1 : dupLoop (b.votes.map VoteAuth.sender) [] with
    | none =>
      simp only []
      constructor
      · intro h; cases h
      · rintro ⟨hv, _⟩
        obtain ⟨voters, h1, _⟩ := (dupLoops_iff _ _).mpr hv.distinct
        rw [hd1] at h1; cases h1
    | some voters =>
      simp only []
      cases hd2 : dupLoop (b.eqVotes.map EqAuth.sender) voters with
      | none =>
        simp only []
        constructor
        · intro h; cases h
        · rintro ⟨hv, _⟩
          obtain ⟨voters', h1, voters'', h2⟩ := (dupLoops_iff _ _).mpr hv.distinct
          rw [hd1] at h1; cases h1
          rw [hd2] at h2; cases h2
      | some voters' =>
        simp only []
        have hnd : (senders b).Nodup := (dupLoops_iff _ _).mp ⟨voters, hd1, voters', hd2⟩
        cases hs1 : sumVotes env b b.votes 0 with
        | error x =>
          simp only []
          constructor
          · intro h; cases h
          · rintro ⟨hv, _⟩
            have := (sumVotes_ok_iff env b b.votes 0 _).mpr ⟨hv.votes, rfl⟩
            rw [hs1] at this; cases this
        | ok w₁ =>
          simp only []
          obtain ⟨hvotes, hw₁⟩ := (sumVotes_ok_iff _ _ _ _ _).mp hs1
          cases hs2 : sumEqVotes env b b.eqVotes w₁ with
          | error x =>
            simp only []
            constructor
            · intro h; cases h
            · rintro ⟨hv, _⟩
              have := (sumEqVotes_ok_iff env b b.eqVotes w₁ _).mpr ⟨hv.eqVotes, rfl⟩
              rw [hs2] at this; cases this
          | ok weight =>
            simp only []
            obtain ⟨heqs, hweight⟩ := (sumEqVotes_ok_iff _ _ _ _ _).mp hs2
            have htot : weight = totalWeight env b := by unfold totalWeight; omega
            by_cases hq : reachesQuorum proto b.step weight = true
            · have : (!reachesQuorum proto b.step weight) = false := by rw [hq]; rfl
              rw [this]
              simp only [Bool.false_eq_true, if_false]
              have hthr := ((reachesQuorum_iff _ _ _).mp hq).2
              constructor
              · intro h
                cases h
                exact ⟨⟨hs, ⟨proto, hp, by omega, by omega, by omega, htot ▸ hthr⟩, hnd, hvotes, heqs⟩, htot⟩
              · rintro ⟨_, hW⟩; rw [hW, htot]
            · have : (!reachesQuorum proto b.step weight) = true := by
                cases hb : reachesQuorum proto b.step weight with
                | true => exact absurd hb hq
                | false => rfl
              rw [this]
              simp only [if_true]
              constructor
              · intro h; cases h
              · rintro ⟨hv, _⟩
                obtain ⟨p, hp', _, _, _, hthr⟩ := hv.params
                rw [hp] at hp'; cases hp'
                exact absurd ((reachesQuorum_iff _ _ _).mpr ⟨hs, htot ▸ hthr⟩) hq

/-- "accepted only if": the verdict alone -/
theorem bundle_accepted_iff (env : Env Cred Sig) (b : UBundle Cred Sig) :
    (∃ W, verify env b = .ok W) ↔ BundleValid env b := by
  constructor
  · rintro ⟨W, h⟩; exact ((bundle_accept_iff env b W).mp h).1
  · intro h; exact ⟨_, (bundle_accept_iff env b _).mpr ⟨h, rfl⟩⟩

/-! ### cert_accept_iff -/

/-- FULL: a certificate authenticates a block iff it is a cert-step bundle for the block's round whose value
carries the block's digest, and it proves a quorum.  (`claimsToAuthenticate` compares `Proposal.BlockDigest` with
`e.Digest()` only: the encoding digest and the original proposer / period are not compared with the block.) -/
theorem cert_accept_iff (env : Env Cred Sig) (c : UBundle Cred Sig) (e : Block) (W : Nat) :
    authenticate env c e = .ok W ↔
      c.step = cert ∧ c.round = e.round ∧ c.proposal.blockDigest = e.digest ∧ BundleValid env c
        ∧ W = totalWeight env c := by
  unfold authenticate claimsToAuthenticate
  by_cases hs : c.step ≠ cert
  · rw [if_pos hs]
    constructor
    · intro h; cases h
    · rintro ⟨h, _⟩; exact absurd h hs
  rw [if_neg hs]
  have hs' : c.step = cert := Classical.not_not.mp hs
  by_cases hr : c.round ≠ e.round
  · rw [if_pos hr]
    simp only []
    constructor
    · intro h; cases h
    · rintro ⟨_, h, _⟩; exact absurd h hr
  rw [if_neg hr]
  have hr' : c.round = e.round := Classical.not_not.mp hr
  by_cases hdg : c.proposal.blockDigest ≠ e.digest
  · rw [if_pos hdg]
    simp only []
    constructor
    · intro h; cases h
    · rintro ⟨_, _, h, _⟩; exact absurd h hdg
  rw [if_neg hdg]
  have hdg' : c.proposal.blockDigest = e.digest := Classical.not_not.mp hdg
  simp only []
  rw [bundle_accept_iff]
  constructor
  · rintro ⟨hv, hW⟩; exact ⟨hs', hr', hdg', hv, hW⟩
  · rintro ⟨_, _, _, hv, hW⟩; exact ⟨hv, hW⟩

/-! ### the property's "only if", in its own words -/

/-- an accepted bundle has pairwise distinct senders, every one of which cast a valid vote (or a valid
equivocation pair) in the bundle's round, period and step, and their weights sum to at least the threshold -/
theorem accepted_proves_quorum (env : Env Cred Sig) (b : UBundle Cred Sig) (W : Nat) (h : verify env b = .ok W) :
    (senders b).Nodup ∧
    (∀ a ∈ b.votes, voteOk env ⟨a.sender, b.round, b.period, b.step, b.proposal⟩ a.cred a.sig
        = some (credW env a.sender b.round b.period b.step a.cred)) ∧
    (∀ e ∈ b.eqVotes, e.prop0 ≠ e.prop1 ∧
        voteOk env ⟨e.sender, b.round, b.period, b.step, e.prop0⟩ e.cred e.sig0
          = some (credW env e.sender b.round b.period b.step e.cred) ∧
        voteOk env ⟨e.sender, b.round, b.period, b.step, e.prop1⟩ e.cred e.sig1
          = some (credW env e.sender b.round b.period b.step e.cred)) ∧
    W = totalWeight env b ∧
    ∃ p, env.params (paramsRound b.round) = some p ∧ b.step ≠ propose ∧ threshold p b.step ≤ W := by
  obtain ⟨hv, hW⟩ := (bundle_accept_iff env b W).mp h
  have key : ∀ (rv : RawVote) (c : Cred) (s : Sig), VoteValid env rv c s →
      voteOk env rv c s = some (credW env rv.sender rv.round rv.period rv.step c) := by
    intro rv c s hvv
    obtain ⟨w, hw, hpos⟩ := hvv.cred
    have : credW env rv.sender rv.round rv.period rv.step c = w := by unfold credW; rw [hw]
    rw [this]
    exact (voteOk_eq_some env rv c s w).mpr ⟨hvv.sig, hw, hpos⟩
  refine ⟨hv.distinct, fun a ha => key _ _ _ (hv.votes a ha), ?_, hW, ?_⟩
  · intro e he
    have := hv.eqVotes e he
    exact ⟨this.differ, key _ _ _ this.first, key _ _ _ this.second⟩
  · obtain ⟨p, hp, _, _, _, hthr⟩ := hv.params
    exact ⟨p, hp, hv.notPropose, hW ▸ hthr⟩

/-! ### mutation lemmas: every listed alteration falsifies a conjunct -/

theorem rejected_of_not_valid {env : Env Cred Sig} {b : UBundle Cred Sig} (h : ¬ BundleValid env b) (W : Nat) :
    verify env b ≠ .ok W :=
  fun hacc => h ((bundle_accept_iff env b W).mp hacc).1

/-- a bundle naming the same sender twice (among votes, among equivocation votes, or once in each) is rejected -/
theorem dup_voter_rejected (env : Env Cred Sig) (b : UBundle Cred Sig) (h : ¬ (senders b).Nodup) (W : Nat) :
    verify env b ≠ .ok W :=
  rejected_of_not_valid (fun hv => h hv.distinct) W

/-- inserting a second copy of a vote (anywhere) -/
theorem dup_vote_inserted_rejected (env : Env Cred Sig) (b : UBundle Cred Sig) (pre post : List (VoteAuth Cred Sig))
    (a : VoteAuth Cred Sig) (hb : b.votes = pre ++ post) (ha : a ∈ b.votes) (W : Nat) :
    verify env { b with votes := pre ++ a :: post } ≠ .ok W := by
  apply dup_voter_rejected
  intro hnd
  simp only [senders, List.map_append, List.map_cons] at hnd
  have hmem : a.sender ∈ pre.map VoteAuth.sender ++ post.map VoteAuth.sender := by
    rw [← List.map_append, ← hb]; exact List.mem_map_of_mem ha
  obtain ⟨h1, h2, h3⟩ := List.nodup_append.mp hnd
  obtain ⟨h4, h5, h6⟩ := List.nodup_append.mp h1
  have ⟨h7, _⟩ := List.nodup_cons.mp h5
  rcases List.mem_append.mp hmem with h | h
  · exact h6 _ h _ (List.mem_cons_self) rfl
  · exact h7 h

/-- a voter who is also listed as an equivocator -/
theorem voter_also_equivocator_rejected (env : Env Cred Sig) (b : UBundle Cred Sig) (a : VoteAuth Cred Sig)
    (e : EqAuth Cred Sig) (ha : a ∈ b.votes) (he : e ∈ b.eqVotes) (hs : e.sender = a.sender) (W : Nat) :
    verify env b ≠ .ok W := by
  apply dup_voter_rejected
  intro hnd
  obtain ⟨_, _, h3⟩ := List.nodup_append.mp hnd
  exact h3 _ (List.mem_map_of_mem ha) _ (List.mem_map_of_mem he) hs.symm

/-- not enough weight -/
theorem missing_weight_rejected (env : Env Cred Sig) (b : UBundle Cred Sig) (p : Params)
    (hp : env.params (paramsRound b.round) = some p) (h : totalWeight env b < threshold p b.step) (W : Nat) :
    verify env b ≠ .ok W := by
  apply rejected_of_not_valid
  intro hv
  obtain ⟨p', hp', _, _, _, hthr⟩ := hv.params
  rw [hp] at hp'; cases hp'; omega

/-- dropping any vote from a bundle that is exactly at the threshold: its weight was needed -/
theorem dropped_vote_rejected (env : Env Cred Sig) (b : UBundle Cred Sig) (p : Params) (pre post : List (VoteAuth Cred Sig))
    (a : VoteAuth Cred Sig) (W : Nat) (hacc : verify env b = .ok W)
    (hp : env.params (paramsRound b.round) = some p) (hexact : W = threshold p b.step)
    (hb : b.votes = pre ++ a :: post) (W' : Nat) :
    verify env { b with votes := pre ++ post } ≠ .ok W' := by
  obtain ⟨hv, hW⟩ := (bundle_accept_iff env b W).mp hacc
  have hva := hv.votes a (by rw [hb]; simp)
  obtain ⟨w, hw, hpos⟩ := hva.cred
  have hcw : credW env a.sender b.round b.period b.step a.cred = w := by unfold credW; dsimp only at hw; rw [hw]
  refine missing_weight_rejected env { b with votes := pre ++ post } p hp ?_ W'
  show totalWeight env { b with votes := pre ++ post } < threshold p b.step
  have h1 : totalWeight env b = votesWeight env b (pre ++ a :: post) + eqVotesWeight env b b.eqVotes := by
    unfold totalWeight; rw [hb]
  have h2 : totalWeight env { b with votes := pre ++ post } = votesWeight env b (pre ++ post) + eqVotesWeight env b b.eqVotes := rfl
  have h3 : votesWeight env b (pre ++ a :: post) = votesWeight env b (pre ++ post) + w := by
    simp only [votesWeight, List.map_append, List.map_cons, List.sum_append, List.sum_cons, hcw]; omega
  omega

/-- more authenticators than the step's threshold -/
theorem too_many_rejected (env : Env Cred Sig) (b : UBundle Cred Sig) (p : Params)
    (hp : env.params (paramsRound b.round) = some p)
    (h : b.votes.length + b.eqVotes.length > threshold p b.step) (W : Nat) : verify env b ≠ .ok W := by
  apply rejected_of_not_valid
  intro hv
  obtain ⟨p', hp', _, _, h3, _⟩ := hv.params
  rw [hp] at hp'; cases hp'; omega

theorem propose_bundle_rejected (env : Env Cred Sig) (b : UBundle Cred Sig) (h : b.step = propose) (W : Nat) :
    verify env b ≠ .ok W :=
  rejected_of_not_valid (fun hv => hv.notPropose h) W

/-- ⊥ in a soft or cert bundle that has at least one vote -/
theorem bottom_cert_rejected (env : Env Cred Sig) (b : UBundle Cred Sig) (a : VoteAuth Cred Sig) (ha : a ∈ b.votes)
    (hs : b.step = cert ∨ b.step = soft) (hb : b.proposal = bottom) (W : Nat) : verify env b ≠ .ok W := by
  apply rejected_of_not_valid
  intro hv
  have := (hv.votes a ha).notBottom (by simp only []; unfold cert soft at hs; omega)
  exact this hb

/-- an "equivocation pair" whose two values are the same -/
theorem eqpair_same_rejected (env : Env Cred Sig) (b : UBundle Cred Sig) (e : EqAuth Cred Sig) (he : e ∈ b.eqVotes)
    (hsame : e.prop0 = e.prop1) (W : Nat) : verify env b ≠ .ok W :=
  rejected_of_not_valid (fun hv => (hv.eqVotes e he).differ hsame) W

/-- a vote whose signature does not verify -/
theorem bad_sig_rejected (env : Env Cred Sig) (b : UBundle Cred Sig) (a : VoteAuth Cred Sig) (ha : a ∈ b.votes)
    (hbad : env.sigOk ⟨a.sender, b.round, b.period, b.step, b.proposal⟩ a.sig = false) (W : Nat) :
    verify env b ≠ .ok W := by
  apply rejected_of_not_valid
  intro hv
  have := (hv.votes a ha).sig
  rw [hbad] at this; cases this

/-- a vote whose credential does not verify or has weight 0 -/
theorem bad_cred_rejected (env : Env Cred Sig) (b : UBundle Cred Sig) (a : VoteAuth Cred Sig) (ha : a ∈ b.votes)
    (hbad : credW env a.sender b.round b.period b.step a.cred = 0) (W : Nat) : verify env b ≠ .ok W := by
  apply rejected_of_not_valid
  intro hv
  obtain ⟨w, hw, hpos⟩ := (hv.votes a ha).cred
  unfold credW at hbad; dsimp only at hw; rw [hw] at hbad; dsimp only at hbad; omega

/-- a vote cast after the sender's VoteLastValid -/
theorem expired_key_rejected (env : Env Cred Sig) (b : UBundle Cred Sig) (a : VoteAuth Cred Sig) (ha : a ∈ b.votes)
    (m : Record) (hm : env.member a.sender b.round b.period b.step = some m)
    (hl : m.voteLastValid ≠ 0) (hexp : m.voteLastValid < b.round) (W : Nat) : verify env b ≠ .ok W := by
  apply rejected_of_not_valid
  intro hv
  obtain ⟨m', hm', _, h⟩ := (hv.votes a ha).member
  dsimp only at hm' h; rw [hm] at hm'; cases hm'; omega

/-- a vote cast before the sender's VoteFirstValid -/
theorem not_yet_valid_key_rejected (env : Env Cred Sig) (b : UBundle Cred Sig) (a : VoteAuth Cred Sig) (ha : a ∈ b.votes)
    (m : Record) (hm : env.member a.sender b.round b.period b.step = some m)
    (hf : b.round < m.voteFirstValid) (W : Nat) : verify env b ≠ .ok W := by
  apply rejected_of_not_valid
  intro hv
  obtain ⟨m', hm', h, _⟩ := (hv.votes a ha).member
  dsimp only at hm' h; rw [hm] at hm'; cases hm'; omega

/-! #### alterations of what was signed: ideal signatures as a hypothesis -/

/-- ideal one-time signatures: a signature verifies only on the exact raw vote it was made on (`signed s`) -/
def IdealSig (env : Env Cred Sig) (signed : Sig → Option RawVote) : Prop :=
  ∀ rv s, env.sigOk rv s = true → signed s = some rv

/-- the header (round, period, step, value) of a bundle is changed while a vote of an accepted bundle is kept -/
theorem wrong_header_rejected (env : Env Cred Sig) (signed : Sig → Option RawVote) (hI : IdealSig env signed)
    (b b' : UBundle Cred Sig) (W : Nat) (hacc : verify env b = .ok W) (a : VoteAuth Cred Sig)
    (ha : a ∈ b.votes) (ha' : a ∈ b'.votes)
    (hdiff : ¬ (b'.round = b.round ∧ b'.period = b.period ∧ b'.step = b.step ∧ b'.proposal = b.proposal)) (W' : Nat) :
    verify env b' ≠ .ok W' := by
  intro hacc'
  have h1 := hI _ _ (((bundle_accept_iff env b W).mp hacc).1.votes a ha).sig
  have h2 := hI _ _ (((bundle_accept_iff env b' W').mp hacc').1.votes a ha').sig
  rw [h1] at h2
  injection h2 with h2
  injection h2 with _ hr hp hs hv
  exact hdiff ⟨hr.symm, hp.symm, hs.symm, hv.symm⟩

theorem wrong_round_rejected (env : Env Cred Sig) (signed : Sig → Option RawVote) (hI : IdealSig env signed)
    (b : UBundle Cred Sig) (W : Nat) (hacc : verify env b = .ok W) (a : VoteAuth Cred Sig) (ha : a ∈ b.votes)
    (r' : Nat) (hr : r' ≠ b.round) (W' : Nat) : verify env { b with round := r' } ≠ .ok W' :=
  wrong_header_rejected env signed hI b { b with round := r' } W hacc a ha ha (fun h => hr h.1) W'

theorem wrong_period_rejected (env : Env Cred Sig) (signed : Sig → Option RawVote) (hI : IdealSig env signed)
    (b : UBundle Cred Sig) (W : Nat) (hacc : verify env b = .ok W) (a : VoteAuth Cred Sig) (ha : a ∈ b.votes)
    (p' : Nat) (hp : p' ≠ b.period) (W' : Nat) : verify env { b with period := p' } ≠ .ok W' :=
  wrong_header_rejected env signed hI b { b with period := p' } W hacc a ha ha (fun h => hp h.2.1) W'

theorem wrong_step_rejected (env : Env Cred Sig) (signed : Sig → Option RawVote) (hI : IdealSig env signed)
    (b : UBundle Cred Sig) (W : Nat) (hacc : verify env b = .ok W) (a : VoteAuth Cred Sig) (ha : a ∈ b.votes)
    (s' : Nat) (hs : s' ≠ b.step) (W' : Nat) : verify env { b with step := s' } ≠ .ok W' :=
  wrong_header_rejected env signed hI b { b with step := s' } W hacc a ha ha (fun h => hs h.2.2.1) W'

/-- any change of the value: block digest, encoding digest, original proposer or original period -/
theorem wrong_digest_rejected (env : Env Cred Sig) (signed : Sig → Option RawVote) (hI : IdealSig env signed)
    (b : UBundle Cred Sig) (W : Nat) (hacc : verify env b = .ok W) (a : VoteAuth Cred Sig) (ha : a ∈ b.votes)
    (v' : Proposal) (hv : v' ≠ b.proposal) (W' : Nat) : verify env { b with proposal := v' } ≠ .ok W' :=
  wrong_header_rejected env signed hI b { b with proposal := v' } W hacc a ha ha (fun h => hv h.2.2.2) W'

/-- equivocation pairs are bound to (round, period, step) too (not to the bundle's value: they count for every value) -/
theorem wrong_header_eq_rejected (env : Env Cred Sig) (signed : Sig → Option RawVote) (hI : IdealSig env signed)
    (b b' : UBundle Cred Sig) (W : Nat) (hacc : verify env b = .ok W) (e : EqAuth Cred Sig)
    (he : e ∈ b.eqVotes) (he' : e ∈ b'.eqVotes)
    (hdiff : ¬ (b'.round = b.round ∧ b'.period = b.period ∧ b'.step = b.step)) (W' : Nat) :
    verify env b' ≠ .ok W' := by
  intro hacc'
  have h1 := hI _ _ (((bundle_accept_iff env b W).mp hacc).1.eqVotes e he).first.sig
  have h2 := hI _ _ (((bundle_accept_iff env b' W').mp hacc').1.eqVotes e he').first.sig
  rw [h1] at h2
  injection h2 with h2
  injection h2 with _ hr hp hs _
  exact hdiff ⟨hr.symm, hp.symm, hs.symm⟩

/-- the sender of a vote of an accepted bundle is replaced by somebody else -/
theorem sender_swap_rejected (env : Env Cred Sig) (signed : Sig → Option RawVote) (hI : IdealSig env signed)
    (b : UBundle Cred Sig) (W : Nat) (hacc : verify env b = .ok W) (pre post : List (VoteAuth Cred Sig))
    (a : VoteAuth Cred Sig) (hb : b.votes = pre ++ a :: post) (x : Nat) (hx : x ≠ a.sender) (W' : Nat) :
    verify env { b with votes := pre ++ { a with sender := x } :: post } ≠ .ok W' := by
  intro hacc'
  have h1 := hI _ _ (((bundle_accept_iff env b W).mp hacc).1.votes a (by rw [hb]; simp)).sig
  have h2 := hI _ _ (((bundle_accept_iff env _ W').mp hacc').1.votes { a with sender := x } (by simp)).sig
  simp only [] at h1 h2
  rw [h1] at h2
  injection h2 with h2
  injection h2 with hsnd
  exact hx hsnd.symm

/-- a signature made for another vote (other round, period, step, value or sender) attached to a vote -/
theorem foreign_sig_rejected (env : Env Cred Sig) (signed : Sig → Option RawVote) (hI : IdealSig env signed)
    (b : UBundle Cred Sig) (a : VoteAuth Cred Sig) (ha : a ∈ b.votes)
    (hf : signed a.sig ≠ some ⟨a.sender, b.round, b.period, b.step, b.proposal⟩) (W : Nat) :
    verify env b ≠ .ok W := by
  intro hacc
  exact hf (hI _ _ (((bundle_accept_iff env b W).mp hacc).1.votes a ha).sig)

/-! #### certificates -/

theorem cert_wrong_round_rejected (env : Env Cred Sig) (c : UBundle Cred Sig) (e : Block) (h : c.round ≠ e.round)
    (W : Nat) : authenticate env c e ≠ .ok W :=
  fun hacc => h ((cert_accept_iff env c e W).mp hacc).2.1

theorem cert_wrong_digest_rejected (env : Env Cred Sig) (c : UBundle Cred Sig) (e : Block)
    (h : c.proposal.blockDigest ≠ e.digest) (W : Nat) : authenticate env c e ≠ .ok W :=
  fun hacc => h ((cert_accept_iff env c e W).mp hacc).2.2.1

theorem cert_wrong_step_rejected (env : Env Cred Sig) (c : UBundle Cred Sig) (e : Block) (h : c.step ≠ cert)
    (W : Nat) : authenticate env c e ≠ .ok W :=
  fun hacc => h ((cert_accept_iff env c e W).mp hacc).1

/-- every bundle-level alteration carries over: a certificate whose bundle does not prove a quorum is rejected -/
theorem cert_rejected_of_bundle_rejected (env : Env Cred Sig) (c : UBundle Cred Sig) (e : Block)
    (h : ∀ W, verify env c ≠ .ok W) (W : Nat) : authenticate env c e ≠ .ok W := by
  intro hacc
  obtain ⟨_, _, _, hv, hW⟩ := (cert_accept_iff env c e W).mp hacc
  exact h W ((bundle_accept_iff env c W).mpr ⟨hv, hW⟩)

/-- a cert-step bundle for ⊥ with at least one vote authenticates no block -/
theorem bottom_certificate_rejected (env : Env Cred Sig) (c : UBundle Cred Sig) (e : Block) (a : VoteAuth Cred Sig)
    (ha : a ∈ c.votes) (hb : c.proposal = bottom) (W : Nat) : authenticate env c e ≠ .ok W := by
  intro hacc
  have hs := ((cert_accept_iff env c e W).mp hacc).1
  exact cert_rejected_of_bundle_rejected env c e (bottom_cert_rejected env c a ha (Or.inl hs) hb) W hacc

/-! ### bridge to C06: a bundle that passes the structural `Model.VoteTracker.Bundle.verify` (what `genBundle_valid`
establishes for every emitted threshold event) is accepted by the full verifier once its votes are realised by
authenticators that verify -/

section Bridge
open AlgoVerif.Model

theorem nodupNat_nodup (l : List Nat) : VoteTracker.nodupNat l = true → l.Nodup := by
  induction l with
  | nil => intro _; exact List.nodup_nil
  | cons a rest ih =>
    simp only [VoteTracker.nodupNat, Bool.and_eq_true, Bool.not_eq_true']
    rintro ⟨h1, h2⟩
    refine List.nodup_cons.mpr ⟨?_, ih h2⟩
    intro hm
    have : rest.contains a = true := List.contains_iff_mem.mpr hm
    rw [this] at h1; cases h1

/-- the `unauthenticatedBundle` made from a tracker bundle: value ids become proposal values, every sender brings
its credential, every (sender, value) its signature -/
def realise (r p : Nat) (c : VoteTracker.Cfg) (val : Nat → Proposal) (cred : Nat → Cred) (sig : Nat → Nat → Sig)
    (tb : VoteTracker.Bundle) : UBundle Cred Sig :=
  { round := r, period := p, step := c.step, proposal := val tb.proposal,
    votes := tb.votes.map fun v => ⟨v.sender, cred v.sender, sig v.sender tb.proposal⟩,
    eqVotes := tb.eqVotes.map fun e => ⟨e.sender, cred e.sender, sig e.sender e.p0, sig e.sender e.p1, val e.p0, val e.p1⟩ }

theorem tracker_bundle_accepted (env : Env Cred Sig) (r p : Nat) (c : VoteTracker.Cfg) (proto : Params)
    (val : Nat → Proposal) (hinj : ∀ x y, val x = val y → x = y) (cred : Nat → Cred) (sig : Nat → Nat → Sig)
    (valid : VoteTracker.Vote → Bool) (tb : VoteTracker.Bundle)
    (hp : env.params (paramsRound r) = some proto) (hT : threshold proto c.step = c.T)
    (hvalid : ∀ v, valid v = true →
      verifyVote env ⟨v.sender, r, p, c.step, val v.value⟩ (cred v.sender) (sig v.sender v.value) = .ok v.weight)
    (h : VoteTracker.Bundle.verify c valid tb = true) :
    verify env (realise r p c val cred sig tb)
      = .ok ((tb.votes.map VoteTracker.Vote.weight).sum + (tb.eqVotes.map VoteTracker.EqVote.weight).sum) := by
  simp only [VoteTracker.Bundle.verify, Bool.and_eq_true, decide_eq_true_eq, Bool.not_eq_true', Bool.or_eq_false_iff,
    decide_eq_false_iff_not, List.all_eq_true, bne_iff_ne] at h
  obtain ⟨⟨⟨⟨⟨hstep, ⟨hnv, hne⟩, hsum⟩, hnd⟩, hvs⟩, hes⟩, hq⟩ := h
  have hvv : ∀ v ∈ tb.votes, VoteValid env ⟨v.sender, r, p, c.step, val tb.proposal⟩ (cred v.sender) (sig v.sender tb.proposal)
      ∧ env.credWeight v.sender r p c.step (cred v.sender) = some v.weight := by
    intro v hv
    exact (vote_accept_iff _ _ _ _ _).mp (hvalid ⟨v.sender, v.weight, tb.proposal⟩ (hvs v hv))
  have hev : ∀ e ∈ tb.eqVotes, EqValid env r p c.step
      (⟨e.sender, cred e.sender, sig e.sender e.p0, sig e.sender e.p1, val e.p0, val e.p1⟩ : EqAuth Cred Sig)
      ∧ env.credWeight e.sender r p c.step (cred e.sender) = some e.weight := by
    intro e he
    obtain ⟨⟨hd, h0⟩, h1⟩ := hes e he
    obtain ⟨hv0, hw0⟩ := (vote_accept_iff _ _ _ _ _).mp (hvalid ⟨e.sender, e.weight, e.p0⟩ h0)
    obtain ⟨hv1, _⟩ := (vote_accept_iff _ _ _ _ _).mp (hvalid ⟨e.sender, e.weight, e.p1⟩ h1)
    exact ⟨⟨fun hval => hd (hinj _ _ hval), hv0, hv1⟩, hw0⟩
  have hwv : ∀ l : List VoteTracker.Vote, (∀ v ∈ l, v ∈ tb.votes) →
      ((l.map fun v => (⟨v.sender, cred v.sender, sig v.sender tb.proposal⟩ : VoteAuth Cred Sig)).map
        fun a => credW env a.sender r p c.step a.cred).sum = (l.map VoteTracker.Vote.weight).sum := by
    intro l
    induction l with
    | nil => intro _; rfl
    | cons v rest ih =>
      intro hsub
      have hw := (hvv v (hsub v List.mem_cons_self)).2
      simp only [List.map_cons, List.sum_cons]
      rw [ih (fun x hx => hsub x (List.mem_cons_of_mem _ hx))]
      unfold credW; rw [hw]
  have hwe : ∀ l : List VoteTracker.EqVote, (∀ e ∈ l, e ∈ tb.eqVotes) →
      ((l.map fun e => (⟨e.sender, cred e.sender, sig e.sender e.p0, sig e.sender e.p1, val e.p0, val e.p1⟩ : EqAuth Cred Sig)).map
        fun a => credW env a.sender r p c.step a.cred).sum = (l.map VoteTracker.EqVote.weight).sum := by
    intro l
    induction l with
    | nil => intro _; rfl
    | cons e rest ih =>
      intro hsub
      have hw := (hev e (hsub e List.mem_cons_self)).2
      simp only [List.map_cons, List.sum_cons]
      rw [ih (fun x hx => hsub x (List.mem_cons_of_mem _ hx))]
      unfold credW; rw [hw]
  have htot : totalWeight env (realise r p c val cred sig tb)
      = (tb.votes.map VoteTracker.Vote.weight).sum + (tb.eqVotes.map VoteTracker.EqVote.weight).sum := by
    unfold totalWeight votesWeight eqVotesWeight realise
    simp only []
    rw [hwv tb.votes (fun _ h => h), hwe tb.eqVotes (fun _ h => h)]
  refine (bundle_accept_iff _ _ _).mpr ⟨⟨hstep, ⟨proto, hp, ?_, ?_, ?_, ?_⟩, ?_, ?_, ?_⟩, htot.symm⟩
  · simp only [realise, List.length_map]; omega
  · simp only [realise, List.length_map]; omega
  · simp only [realise, List.length_map]; omega
  · rw [htot]
    simp only [VoteTracker.reachesQuorum, if_neg hstep, decide_eq_true_eq] at hq
    simp only [realise]; omega
  · have := nodupNat_nodup _ hnd
    simpa [senders, realise, List.map_map, Function.comp_def] using this
  · intro a ha
    simp only [realise, List.mem_map] at ha
    obtain ⟨v, hv, rfl⟩ := ha
    exact (hvv v hv).1
  · intro e he
    simp only [realise, List.mem_map] at he
    obtain ⟨e', he', rfl⟩ := he
    exact (hev e' he').1

end Bridge

/-! ### non-vacuity: a concrete accepted bundle in the driver's token instance, and the hypotheses met on it -/

section Examples

/-- decidable equality of results, so that the concrete instances below are checked by evaluation in the kernel -/
local instance exceptDecEq {ε α : Type} [DecidableEq ε] [DecidableEq α] : DecidableEq (Except ε α) := fun a b =>
  match a, b with
  | .ok x, .ok y => if h : x = y then isTrue (by rw [h]) else isFalse (fun h' => by cases h'; exact h rfl)
  | .error x, .error y => if h : x = y then isTrue (by rw [h]) else isFalse (fun h' => by cases h'; exact h rfl)
  | .ok _, .error _ => isFalse (fun h => by cases h)
  | .error _, .ok _ => isFalse (fun h => by cases h)

def exEnv : Env CredTok SigTok := tokEnv (fun _ => some ⟨2, 2, 2, 2, 2, 2⟩) (fun _ _ _ _ => some ⟨0, 9⟩)
def exVal : Proposal := ⟨0, 1, 7, 1⟩
def exVal2 : Proposal := ⟨0, 1, 8, 1⟩
def exVote (k : Nat) (v : Proposal) : VoteAuth CredTok SigTok :=
  ⟨k, ⟨k, 5, 0, 2, 1, false⟩, ⟨k, ⟨k, 5, 0, 2, v⟩, false⟩⟩
def exEq (k : Nat) : EqAuth CredTok SigTok :=
  ⟨k, ⟨k, 5, 0, 2, 1, false⟩, ⟨k, ⟨k, 5, 0, 2, exVal⟩, false⟩, ⟨k, ⟨k, 5, 0, 2, exVal2⟩, false⟩, exVal, exVal2⟩
/-- two voters of weight 1, threshold 2 -/
def exB : UBundle CredTok SigTok := ⟨5, 0, 2, exVal, [exVote 1 exVal, exVote 2 exVal], []⟩
/-- one voter and one equivocator -/
def exB2 : UBundle CredTok SigTok := ⟨5, 0, 2, exVal, [exVote 1 exVal], [exEq 3]⟩

/-- the token instance has ideal signatures -/
theorem tokEnv_ideal (params : Nat → Option Params) (member : Nat → Nat → Nat → Nat → Option Record) :
    IdealSig (tokEnv params member) (fun s => if s.flipped then none else some s.msg) := by
  intro rv s h
  simp only [tokEnv, tokSigOk, Bool.and_eq_true, Bool.not_eq_true', beq_iff_eq] at h
  obtain ⟨⟨hf, _⟩, hm⟩ := h
  simp [hf, hm]

example : verify exEnv exB = .ok 2 := by decide
example : verify exEnv exB2 = .ok 2 := by decide
example : authenticate exEnv exB ⟨5, 7⟩ = .ok 2 := by decide
example : BundleValid exEnv exB := ((bundle_accept_iff exEnv exB 2).mp (by decide)).1
example : verifyVote exEnv ⟨1, 5, 0, 0, exVal⟩ ⟨1, 5, 0, 0, 3, false⟩ ⟨1, ⟨1, 5, 0, 0, exVal⟩, false⟩ = .ok 3 := by decide
example : verifyEqVote exEnv 5 0 2 (exEq 3) = .ok 1 := by decide
-- the hypotheses of the mutation lemmas hold on alterations of `exB`, and the model indeed rejects them
example : ¬ (senders { exB with votes := exVote 1 exVal :: exB.votes }).Nodup := by decide
example : verify (tokEnv (fun _ => some ⟨3, 3, 3, 3, 3, 3⟩) (fun _ _ _ _ => some ⟨0, 9⟩))
    { exB with votes := exVote 1 exVal :: exB.votes } = .error .dupVote := by decide
example : verify exEnv { exB2 with votes := [exVote 3 exVal] } = .error .dupEqVote := by decide
example : totalWeight exEnv { exB with votes := [exVote 1 exVal] } < threshold ⟨2, 2, 2, 2, 2, 2⟩ 2 := by decide
example : verify exEnv { exB with votes := [exVote 1 exVal] } = .error .notEnough := by decide
example : verify exEnv { exB with votes := [exVote 1 exVal, exVote 2 exVal, exVote 3 exVal] } = .error .tooLarge := by decide
example : verify exEnv { exB with round := 6 } = .error .invalidVote := by decide
example : ∀ W', verify exEnv { exB with round := 6 } ≠ .ok W' :=
  wrong_round_rejected exEnv _ (tokEnv_ideal _ _) exB 2 (by decide) (exVote 1 exVal) (List.mem_cons_self) 6 (by decide)
example : ∀ W', verify exEnv { exB with proposal := exVal2 } ≠ .ok W' :=
  wrong_digest_rejected exEnv _ (tokEnv_ideal _ _) exB 2 (by decide) (exVote 1 exVal) (List.mem_cons_self) exVal2 (by decide)
example : verify exEnv { exB with step := 1 } = .error .invalidVote := by decide
example : verify exEnv { exB with proposal := bottom, votes := [exVote 1 bottom, exVote 2 bottom] } = .error .invalidVote := by decide
example : verify exEnv { exB2 with eqVotes := [{ exEq 3 with prop1 := exVal, sig1 := (exEq 3).sig0 }] } = .error .invalidVote := by decide
example : authenticate exEnv exB ⟨6, 7⟩ = .error .certRound := by decide
example : authenticate exEnv exB ⟨5, 8⟩ = .error .certDigest := by decide
example : (exEnv.member 1 12 0 2 = some ⟨0, 9⟩) ∧ (9 : Nat) ≠ 0 ∧ 9 < 12 := by decide
example : toGen ⟨1, 2, 3, 4, 5, 6⟩ = ⟨1, 2, 3, 4, 5, 6⟩ := rfl
example : paramsRound 1 = 0 ∧ paramsRound 7 = 5 ∧ (7 : Nat) < 2 ^ 64 := by decide

-- the bridge's hypotheses on a concrete tracker bundle (two accepted votes of weight 1 for value 7, threshold 2)
def exVal' (k : Nat) : Proposal := ⟨0, 1, k, 1⟩
def exTB : AlgoVerif.Model.VoteTracker.Bundle := ⟨7, [⟨1, 1, 7⟩, ⟨2, 1, 7⟩], []⟩
example : verify exEnv (realise 5 0 ⟨2, 2⟩ exVal' (fun k => (⟨k, 5, 0, 2, 1, false⟩ : CredTok))
    (fun k v => (⟨k, ⟨k, 5, 0, 2, exVal' v⟩, false⟩ : SigTok)) exTB) = .ok 2 :=
  tracker_bundle_accepted exEnv 5 0 ⟨2, 2⟩ ⟨2, 2, 2, 2, 2, 2⟩ exVal' (by intro x y h; injection h) _ _
    (fun v => decide (v ∈ exTB.votes)) exTB rfl rfl
    (by
      intro v hv
      have hv' : v ∈ exTB.votes := of_decide_eq_true hv
      simp only [exTB, List.mem_cons, List.not_mem_nil, or_false] at hv'
      rcases hv' with rfl | rfl <;> decide)
    (by decide)

end Examples

end Props.C04
