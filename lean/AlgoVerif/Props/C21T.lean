/-
C21 (formula part) — the minimum-balance requirement computed by the code is the exact sum of its
terms, saturated at 2^64−1. About `Gen.Fees.MinBalance` / `StateSchema_MinBalance`, regenerated from
data/basics/userBalance.go and data/basics/teal.go on every run.
-/
import AlgoVerif.Gen.Fees
import AlgoVerif.Props.C45
namespace Props.C21T
open AlgoVerif.U64 Gen.Basics Gen.Fees Props.C45

abbrev MAX : Nat := 2^64 - 1

theorem lt_of_le_max {x : Nat} (h : x ≤ MAX) : x < 2^64 := by
  have : (2:Nat)^64 = 18446744073709551616 := by decide
  simp only [MAX] at h; omega

/-- saturating add/mul of values already capped at MAX, as `min (exact) MAX` -/
theorem addsat_min (a b x y : Nat) (ha : a = min x MAX) (hb : b = min y MAX) :
    AddSaturate 64 a b = min (x + y) MAX := by
  have e : (2:Nat)^64 = 18446744073709551616 := by decide
  have ha' : a < 2^64 := by rw [ha]; exact lt_of_le_max (Nat.min_le_right _ _)
  have hb' : b < 2^64 := by rw [hb]; exact lt_of_le_max (Nat.min_le_right _ _)
  rw [addsat_exact 64 a b ha' hb', ha, hb]
  simp only [MAX, e]; omega

theorem mulsat_min (a b : Nat) (ha : a < 2^64) (hb : b < 2^64) :
    MulSaturate 64 a b = min (a * b) MAX := mulsat_exact 64 a b ha hb

structure ReqsInRange (q : basics_BalanceRequirements) : Prop where
  h1 : q.MinBalance < 2^64
  h2 : q.AppFlatParamsMinBalance < 2^64
  h3 : q.AppFlatOptInMinBalance < 2^64
  h4 : q.BoxFlatMinBalance < 2^64
  h5 : q.BoxByteMinBalance < 2^64
  h6 : q.SchemaMinBalancePerEntry < 2^64
  h7 : q.SchemaUintMinBalance < 2^64
  h8 : q.SchemaBytesMinBalance < 2^64

/-- exact (unbounded) schema cost; `entries` saturates like the code's NumEntries -/
def schemaExact (q : basics_BalanceRequirements) (sm : basics_StateSchema) : Nat :=
  q.SchemaMinBalancePerEntry * min (sm.NumUint + sm.NumByteSlice) MAX
    + q.SchemaUintMinBalance * sm.NumUint + q.SchemaBytesMinBalance * sm.NumByteSlice

theorem schema_minbalance_formula (q : basics_BalanceRequirements) (sm : basics_StateSchema)
    (hq : ReqsInRange q) (hu : sm.NumUint < 2^64) (hb : sm.NumByteSlice < 2^64) :
    StateSchema_MinBalance sm q = min (schemaExact q sm) MAX := by
  unfold StateSchema_MinBalance StateSchema_NumEntries schemaExact
  have hE : AddSaturate 64 sm.NumUint sm.NumByteSlice = min (sm.NumUint + sm.NumByteSlice) MAX :=
    addsat_exact 64 _ _ hu hb
  have hE' : AddSaturate 64 sm.NumUint sm.NumByteSlice < 2^64 := by
    rw [hE]; exact lt_of_le_max (Nat.min_le_right _ _)
  simp only []
  rw [addsat_min _ _ _ _ (mulsat_min _ _ hq.h6 hE') (mulsat_min _ _ hq.h7 hu), hE]
  rw [addsat_min _ _ _ _ rfl (mulsat_min _ _ hq.h8 hb)]

/-- exact (unbounded) minimum balance: the eight terms of the code -/
def minBalanceExact (q : basics_BalanceRequirements) (assets : Nat) (sm : basics_StateSchema)
    (appParams locals extraPages boxes boxBytes : Nat) : Nat :=
  q.MinBalance + q.MinBalance * assets + q.AppFlatParamsMinBalance * appParams
    + q.AppFlatOptInMinBalance * locals + schemaExact q sm + q.AppFlatParamsMinBalance * extraPages
    + q.BoxFlatMinBalance * boxes + q.BoxByteMinBalance * boxBytes

/-- C21 formula: the code's saturating chain equals the exact sum capped at 2^64−1 — no term is dropped,
and the result is exact whenever it is below the cap. -/
theorem minbalance_formula (q : basics_BalanceRequirements) (assets : Nat) (sm : basics_StateSchema)
    (appParams locals extraPages boxes boxBytes : Nat) (hq : ReqsInRange q)
    (h1 : assets < 2^64) (hu : sm.NumUint < 2^64) (hb : sm.NumByteSlice < 2^64) (h2 : appParams < 2^64)
    (h3 : locals < 2^64) (h4 : extraPages < 2^64) (h5 : boxes < 2^64) (h6 : boxBytes < 2^64) :
    MinBalance q assets sm appParams locals extraPages boxes boxBytes =
      min (minBalanceExact q assets sm appParams locals extraPages boxes boxBytes) MAX := by
  unfold MinBalance minBalanceExact
  simp only []
  have h0 : q.MinBalance = min q.MinBalance MAX := by
    have e : (2:Nat)^64 = 18446744073709551616 := by decide
    have := hq.h1; simp only [MAX, e] at *; omega
  rw [addsat_min _ _ _ _ h0 (mulsat_min _ _ hq.h1 h1)]
  rw [addsat_min _ _ _ _ rfl (mulsat_min _ _ hq.h2 h2)]
  rw [addsat_min _ _ _ _ rfl (mulsat_min _ _ hq.h3 h3)]
  rw [addsat_min _ _ _ _ rfl (schema_minbalance_formula q sm hq hu hb)]
  rw [addsat_min _ _ _ _ rfl (mulsat_min _ _ hq.h2 h4)]
  rw [addsat_min _ _ _ _ rfl (mulsat_min _ _ hq.h4 h5)]
  rw [addsat_min _ _ _ _ rfl (mulsat_min _ _ hq.h5 h6)]

/-- monotone in every counter: more assets / apps / boxes never lowers the requirement -/
theorem minbalance_exact_when_small (q : basics_BalanceRequirements) (assets : Nat) (sm : basics_StateSchema)
    (appParams locals extraPages boxes boxBytes : Nat) (hq : ReqsInRange q)
    (h1 : assets < 2^64) (hu : sm.NumUint < 2^64) (hb : sm.NumByteSlice < 2^64) (h2 : appParams < 2^64)
    (h3 : locals < 2^64) (h4 : extraPages < 2^64) (h5 : boxes < 2^64) (h6 : boxBytes < 2^64)
    (hsmall : minBalanceExact q assets sm appParams locals extraPages boxes boxBytes ≤ MAX) :
    MinBalance q assets sm appParams locals extraPages boxes boxBytes =
      minBalanceExact q assets sm appParams locals extraPages boxes boxBytes := by
  rw [minbalance_formula q assets sm appParams locals extraPages boxes boxBytes hq h1 hu hb h2 h3 h4 h5 h6]
  exact Nat.min_eq_left hsmall

-- Non-vacuity (mainnet-like requirements)
example : MinBalance ⟨100000, 100000, 100000, 2500, 400, 25000, 3500, 25000⟩ 3 ⟨2, 1⟩ 1 2 0 4 100 = 857000 := by decide

end Props.C21T
