import AlgoVerif.Lemmas.VpackMain
import AlgoVerif.Lemmas.VpackSafe
import AlgoVerif.Lemmas.VpackInit
import AlgoVerif.Lemmas.VpackE2E
import AlgoVerif.Lemmas.VpackInjective
/-!
C42 — Vote compression is lossless and stays in sync.

Model: `AlgoVerif.Model.Vpack` (mirrors network/vpack/{dynamic_vpack,lru_table,proposal_window,vpack,parse,msgp}.go and
the session rule of network/msgCompressor.go / wsPeer.go);
vocabulary: `AlgoVerif.Spec.Vpack` (`MVote`/`msgpack` = a vote and its canonical msgpack bytes, `SVote`/`ser` = a
stateless-compressed vote and its bytes, `WF` = table invariant).

Which inputs the theorems cover:
  * stateful layer (`stateful_roundtrip_*`): every `SVote` with `SVote.WF` — field lengths as the StatelessEncoder
    emits them, second header byte 0, round in minimal msgpack width — from every table state satisfying `WF`
    (every state reachable from `initTables` with a table size ≤ 65536). Outside: if the second header byte is not 0
    or the round is in a wider format, `Decompress` re-emits 0 / the minimal width, so bytes differ (tables still agree);
    `parseMsgpVote` (after the two repairs d5b955e999, 3fc433ce52) never produces such input.
  * stateless layer (`stateless_roundtrip`): every canonical msgpack vote `msgpack m`, `m.WF` (keys in ascending order,
    omitempty, integers in minimal width — what protocol.Encode produces). Outside: `stateless_injective` — for EVERY byte
    string, `statelessCompress` either errs or its output decompresses to exactly that byte string; `stateless_accepts_only_canonical`
    says the accepted inputs are precisely the canonical layouts (this needs the key-order and minimal-integer checks of the
    two repairs: without either one the statement is false, see corpus/C42/*.ops).
  * whole path (`vote_compression_lossless_sync_any`): no assumption on the vote bytes at all — every byte string the
    stateless encoder accepts travels through both layers losslessly and in sync.
-/
namespace Props.C42
open AlgoVerif.Model.Vpack AlgoVerif.Spec.Vpack AlgoVerif.Lemmas.Vpack

/-- trace predicate: every vote was delivered byte-exact and, after it, the receiver's table state is
    identical to the sender's -/
def InSync : List SVote → List (Option Bytes × TableState × TableState) → Prop
  | [], [] => True
  | v :: vs, (o, e, d) :: tr => o = some (ser v) ∧ e = d ∧ InSync vs tr
  | _, _ => False

/-- FULL. One vote: from EQUAL table states, `Compress` succeeds on every well-formed stateless-compressed vote,
    `Decompress` of the frame returns exactly the original bytes, and both sides reach the SAME new state
    (which again satisfies the invariant). -/
theorem stateful_roundtrip_one (st : TableState) (v : SVote) (hwf : WF st) (hv : v.WF) :
    ∃ frame st', compress st (ser v) = (st', .ok frame) ∧ decompress st frame = (st', .ok (ser v)) ∧ WF st' :=
  compress_decompress st v hwf hv

/-- FULL. For every sequence of votes, folding `Compress` on the sender and `Decompress` on the receiver from
    equal initial states delivers the original bytes of every vote AND leaves equal table states after every
    vote; no step errs, so the session never aborts (`session` stops at the first error). -/
theorem stateful_roundtrip_sync (votes : List SVote) :
    ∀ (st : TableState), WF st → (∀ v ∈ votes, v.WF) → InSync votes (session st st (votes.map ser)) := by
  induction votes with
  | nil => intro st _ _; simp [session, InSync]
  | cons v vs ih =>
    intro st hwf hv
    obtain ⟨frame, st', h1, h2, hwf'⟩ := compress_decompress st v hwf (hv v (by simp))
    simp only [List.map_cons, session, h1, h2, InSync, true_and]
    exact ih st' hwf' (fun x hx => hv x (by simp [hx]))

/-- FULL. `initTables` establishes the invariant for every table size it accepts up to 65536
    (msgCompressor negotiates 16 … 2048). -/
theorem init_establishes_invariant (n : Nat) (s : TableState) (hn : n ≤ 65536) (h : TableState.init n = some s) : WF s :=
  init_wf n s hn h

/-- FULL. A reference emitted by the encoder's `lookup` fetches the same value at the decoder and moves the
    decoder's table exactly as the lookup moved the encoder's — including a hit on the zero value of a never
    written slot. Needs only that reference ids fit in 16 bits (numBuckets ≤ 32768, i.e. table size ≤ 65536). -/
theorem lru_ref_valid (t t' : LruTable) (k : Bytes) (h id : Nat)
    (hnb : 1 ≤ t.numBuckets ∧ t.numBuckets ≤ 32768)
    (hl : t.lookup k h = .ok (some id, t')) :
    id < 65536 ∧ t.fetch id = .ok (some (k, t')) :=
  lookup_fetch hnb hl

/-- FULL. Same for the proposal window: a non-zero index returned by `lookup` is in range and `byRef` of it
    yields the looked-up entry. -/
theorem window_ref_valid (w : PropWindow) (pv : PropEntry) (h : w.lookup pv ≠ 0) :
    1 ≤ w.lookup pv ∧ w.lookup pv ≤ w.size ∧ w.byRef (w.lookup pv) = some pv :=
  lookup_byRef w pv h

/-- FULL (stateful layer). Whatever bytes arrive, `Decompress` never indexes out of range (the model's explicit
    `panic` outcome is unreachable) and the table state it leaves — on success AND on error — satisfies the
    invariant; the same for `Compress` on arbitrary input. -/
theorem malformed_no_crash (st : TableState) (frame : Bytes) (h : WF st) :
    ((decompress st frame).2 ≠ .error .panic ∧ WF (decompress st frame).1) ∧
    ((compress st frame).2 ≠ .error .panic ∧ WF (compress st frame).1) :=
  ⟨decompress_safe st frame h, compress_safe st frame h⟩

/-- PARTIAL. Each class of malformed frame reaches an error branch (never a vote): short header; proposal
    reference beyond the window; table reference beyond the table; round delta past either end of uint64;
    trailing bytes. Missing: a single statement that every frame which is not the image of `Compress` in the
    current state is rejected (false as stated: a literal where a reference was possible is accepted by design). -/
theorem malformed_rejected_partial :
    (∀ st (frame : Bytes), frame.length < 2 → decompress st frame = (st, .error .short)) ∧
    (∀ hdr0 (c : Ctx), ((c.hdr1 &&& hdr1PropMask) >>> 2).toNat > c.st.win.size →
        decProp hdr0 c = .error (.propref, c.st)) ∧
    (∀ (T : Tbl) (c : Ctx) (a b : UInt8) (r : Bytes), c.hdr1 &&& T.bit ≠ 0 → c.rem = a :: b :: r →
        (T.get c.st).numBuckets ≤ (beNat [a, b]) >>> 1 → decLru T c = .error (T.badref, c.st)) ∧
    (∀ (c : Ctx), c.hdr1 &&& hdr1RndMask = 1 → c.st.lastRnd = M64 - 1 → decRnd c = .error (.overflow, c.st)) ∧
    (∀ (c : Ctx), c.hdr1 &&& hdr1RndMask = 2 → c.st.lastRnd = 0 → decRnd c = .error (.underflow, c.st)) ∧
    (∀ (c : Ctx), c.rem ≠ [] → checkEnd c = .error (.length, c.st)) := by
  refine ⟨?_, ?_, ?_, ?_, ?_, ?_⟩
  · intro st frame h
    match frame, h with
    | [], _ => rfl
    | [_], _ => rfl
    | _ :: _ :: _, h => exact absurd h (by simp)
  · intro hdr0 c h
    unfold decProp
    simp only
    have hne : ¬ ((c.hdr1 &&& hdr1PropMask) >>> 2 = 0) := by
      intro h0; rw [h0] at h; simp at h
    rw [if_neg hne]
    unfold PropWindow.byRef
    rw [if_pos (Or.inr h)]
    rfl
  · intro T c a b r hbit hrem hid
    unfold decLru
    rw [if_pos hbit, hrem]
    have : readFixed 2 (a :: b :: r) = some ([a, b], r) := by simp [readFixed]
    rw [this]
    simp only
    unfold LruTable.fetch
    simp only
    rw [if_pos hid]
    rfl
  · intro c h1 h2
    unfold decRnd
    simp [h1, h2, fail]
  · intro c h1 h2
    unfold decRnd
    simp [h1, h2, fail]
  · intro c h
    unfold checkEnd
    rw [if_neg h]
    rfl

/-- FULL on the canonical schema. `CompressVote` accepts the canonical msgpack layout of every well-formed vote,
    its output is the stateless form `m.sl`, and `DecompressVote` of that reproduces the msgpack bytes exactly. -/
theorem stateless_roundtrip (m : MVote) (hw : m.WF) :
    statelessCompress (msgpack m) = .ok m.sl ∧ statelessDecompress m.sl = .ok (msgpack m) :=
  ⟨compress_canonical m hw, decompress_canonical m hw⟩

/-- `CompressVote` rejects everything it cannot round-trip. -/
def StatelessInjectiveStatement : Prop :=
  ∀ (b sl : Bytes), statelessCompress b = .ok sl → statelessDecompress sl = .ok b

/-- FULL, no hypotheses. For EVERY byte string `b`: if `CompressVote b` returns no error, `DecompressVote` of its output
    is exactly `b`. (Inversion of `parseMsgpVote`: every read primitive, both key loops with the strict-order check,
    and the minimal-width check of `readUintBytes`.) -/
theorem stateless_injective : StatelessInjectiveStatement :=
  fun b sl h => AlgoVerif.Lemmas.Vpack.stateless_injective b sl h

/-- FULL. The inputs `CompressVote` accepts are exactly the canonical msgpack layouts of well-formed votes, and its
    output is then a well-formed stateless vote (second header byte 0, minimal round width): the hypothesis of the
    stateful theorems is GUARANTEED by the stateless layer, not assumed. -/
theorem stateless_accepts_only_canonical (b sl : Bytes) (h : statelessCompress b = .ok sl) :
    ∃ m : MVote, m.WF ∧ b = msgpack m ∧ sl = ser m.toSVote ∧ m.toSVote.WF := by
  have h0 := h
  unfold statelessCompress at h
  split at h
  · cases h
  · rename_i pz hp
    split at h
    · cases h
    · split at h
      · cases h
      · rename_i hreq
        obtain ⟨m, hw, hb⟩ := parse_inv b pz hp (Classical.byContradiction (fun hh => hreq hh))
        subst hb
        rw [compress_canonical m hw] at h0
        cases h0
        exact ⟨m, hw, rfl, sl_eq_ser m, toSVote_wf m hw⟩

/-- FULL. End to end: for every sequence of well-formed canonical votes on a connection whose two ends start from
    the same table state, each vote is stateless-compressed to `m.sl`, the stateful session delivers exactly
    `m.sl` for every vote with identical table states after every vote, and stateless decompression of what was
    delivered is the original msgpack vote. -/
theorem vote_compression_lossless_sync (votes : List MVote) (st : TableState) (hwf : WF st)
    (hv : ∀ m ∈ votes, m.WF) :
    (∀ m ∈ votes, statelessCompress (msgpack m) = .ok m.sl ∧ m.sl = ser m.toSVote ∧
        statelessDecompress (ser m.toSVote) = .ok (msgpack m)) ∧
    InSync (votes.map MVote.toSVote) (session st st ((votes.map MVote.toSVote).map ser)) := by
  constructor
  · intro m hm
    have hw := hv m hm
    refine ⟨compress_canonical m hw, sl_eq_ser m, ?_⟩
    rw [← sl_eq_ser m]; exact decompress_canonical m hw
  · apply stateful_roundtrip_sync _ st hwf
    intro v hvm
    obtain ⟨m, hm, rfl⟩ := List.mem_map.mp hvm
    exact toSVote_wf m (hv m hm)

/-- FULL, no assumption on the vote bytes. For every sequence of (input, stateless output) pairs that `CompressVote`
    produced — whatever the input bytes were — and two ends starting from the same table state: the stateful session
    delivers every stateless vote byte-exact, the table states are equal after every vote (evictions, MRU flips and
    window wrap-around included: the state is arbitrary within `WF`), no step errs, and `DecompressVote` of what
    was delivered is the original input. -/
theorem vote_compression_lossless_sync_any (inputs : List (Bytes × Bytes)) (st : TableState) (hwf : WF st)
    (h : ∀ x ∈ inputs, statelessCompress x.1 = .ok x.2) :
    ∃ votes : List SVote, votes.map ser = inputs.map (·.2) ∧
      InSync votes (session st st (inputs.map (·.2))) ∧ ∀ x ∈ inputs, statelessDecompress x.2 = .ok x.1 := by
  have hex : ∃ votes : List SVote, votes.map ser = inputs.map (·.2) ∧ ∀ v ∈ votes, v.WF := by
    induction inputs with
    | nil => exact ⟨[], rfl, by simp⟩
    | cons x xs ih =>
      obtain ⟨vs, e1, e2⟩ := ih (fun y hy => h y (by simp [hy]))
      obtain ⟨m, _, _, hsl, hsv⟩ := stateless_accepts_only_canonical x.1 x.2 (h x (by simp))
      refine ⟨m.toSVote :: vs, by simp [List.map_cons, e1, hsl], ?_⟩
      intro v hv
      rcases List.mem_cons.mp hv with rfl | hv
      · exact hsv
      · exact e2 v hv
  obtain ⟨votes, e1, e2⟩ := hex
  refine ⟨votes, e1, ?_, fun x hx => stateless_injective x.1 x.2 (h x hx)⟩
  rw [← e1]
  exact stateful_roundtrip_sync votes st hwf e2

/-! ### the hypotheses are satisfiable -/

/-- a stateless vote with every optional field present -/
def sampleVote : SVote :=
  { hdr0 := 0x3f, pf := zeros 80, per := [0xcc, 200], dig := zeros 32, encdig := zeros 32, oper := [1],
    oprop := zeros 32, rndVal := 70000, snd := zeros 32, step := [2], pk := zeros 96, pk2 := zeros 96, sig := zeros 64 }

example : sampleVote.WF :=
  { pf := rfl, per := fun _ => ⟨200, 0xcc, [200], rfl, rfl, rfl⟩, dig := fun _ => rfl, encdig := fun _ => rfl,
    oper := fun _ => ⟨1, 1, [], rfl, rfl, rfl⟩, oprop := fun _ => rfl, rnd := by decide, snd := rfl,
    step := fun _ => ⟨2, 2, [], rfl, rfl, rfl⟩, pk := rfl, pk2 := rfl, sig := rfl }

example : ∃ s, TableState.init 16 = some s ∧ WF s := by
  refine ⟨_, rfl, ?_⟩
  simp [WF, LruWF, PropWindow.empty, M64]

/-- the zero key hits a never-written slot of a fresh table: `lru_ref_valid` applies to a non-trivial case -/
example : ∃ t, newLRUTable 16 (zeros 32) = some t ∧ ∃ id t', t.lookup (zeros 32) 0 = .ok (some id, t') := by
  refine ⟨_, rfl, 0, _, rfl⟩

/-- a canonical vote with ALL optional fields: period, full proposal (dig, encdig, oper, oprop) and step -/
def sampleMVote : MVote :=
  { pf := zeros 80, per := some 300, dig := some (zeros 32), encdig := some (zeros 32), oper := some 1,
    oprop := some (zeros 32), rnd := 70000, snd := zeros 32, step := some 2, p := zeros 32, p1s := zeros 64,
    p2 := zeros 32, p2s := zeros 64, s := zeros 64 }

theorem sampleMVote_wf : sampleMVote.WF :=
  { pf := rfl, per := fun x h => by cases h; decide, dig := fun x h => by cases h; rfl,
    encdig := fun x h => by cases h; rfl, oper := fun x h => by cases h; decide, oprop := fun x h => by cases h; rfl,
    rnd := by decide, snd := rfl, step := fun x h => by cases h; decide, p := rfl, p1s := rfl, p2 := rfl, p2s := rfl, s := rfl }

/-- the premise of `stateless_injective` / `stateless_accepts_only_canonical` is met by a concrete vote carrying every
    optional field: `CompressVote` accepts its msgpack bytes -/
example : ∃ sl, statelessCompress (msgpack sampleMVote) = .ok sl ∧ statelessDecompress sl = .ok (msgpack sampleMVote) :=
  ⟨sampleMVote.sl, (stateless_roundtrip sampleMVote sampleMVote_wf).1,
    stateless_injective _ _ (stateless_roundtrip sampleMVote sampleMVote_wf).1⟩

/-- … and a non-canonical input (the `r` map announces 0 entries) is rejected, so the premise is not always true -/
example : ∃ e, statelessCompress [0x83, 0xa4, 0x63, 0x72, 0x65, 0x64, 0x80] = .error e := ⟨_, rfl⟩

end Props.C42
