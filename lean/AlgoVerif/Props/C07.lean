/-
C07 — Persisted consensus state restores exactly.

Model: `Model.Player.persistView` (what `encode` writes of (player, router): rounds ≥ player.Round, exported fields) and
`Model.PlayerDisk` (the disk schema as a msgpack value tree, `encode` / `decode`).  The real `encode` / `decode` (msgp and
reflect variants) are tied to it on every run by PlayerDrive's `persist` ops: the canonical dump of the really decoded
(actions, player, router) must equal the dump of `persistView` and of the live state restricted to the persisted view.

* `decode_encode` (full, for the modelled schema): `decode (encode d) = some d` for every disk state `encode` can produce
  (`diskOf σ as`), given only that its numbers fit the wire format (`WF`: uint64 ranges, lengths < 2^32).
* `restore_player`, `restore_lookup`, `persistView_idem`, `restore_inv`: the restored state has exactly the player fields, exactly
  the (persisted image of the) router of every round ≥ player.Round and nothing else; restoring twice changes nothing; the C03
  invariant survives a restart.
* `restore_bisim` (full, = `RestoreBisimStatement`): from every state satisfying the C03 node invariant, every continuation that
  meets the verifiers' guarantees and does not consult the deliberately unpersisted old rounds yields — event by event — the same
  actions from the restored state as from the live one up to late-credential noise (`ignore` vs propose-step `relayVote`), the same
  panics, and states that again persist to the same image.  Proof: a logical relation "equal persisted image" through all ≈50
  operations of PlayerM (Lemmas/PlayerBisim*.lean).
-/
import AlgoVerif.Lemmas.PlayerDisk
import AlgoVerif.Lemmas.PlayerBisimPlayer
import AlgoVerif.Props.C03
namespace Props.C07
open AlgoVerif.Msgpack AlgoVerif.Model AlgoVerif.Model.Player AlgoVerif.Model.PlayerDisk AlgoVerif.Lemmas.Player
open AlgoVerif.Lemmas.PlayerDisk

/-! ### decode ∘ encode -/

/-- **decode_encode.** -/
theorem decode_encode (σ : State) (as : List Action) (hw : WF (toV (diskOf σ as))) :
    decode (encode (diskOf σ as)) = some (diskOf σ as) :=
  AlgoVerif.Lemmas.PlayerDisk.decode_encode (diskOf σ as) (persistView_clean σ) hw

/-- the machine state the restarted service runs on is exactly `persistView` of the crashed one, and the pending actions
are the persisted ones -/
theorem restore_state (σ : State) (as : List Action) (hw : WF (toV (diskOf σ as))) :
    (decode (encode (diskOf σ as))).map (fun d => (d.state, d.actions)) = some (persistView σ, as) := by
  rw [decode_encode σ as hw]; rfl

/-! ### what the restored state is -/

theorem restore_player (σ : State) : (persistView σ).pl = σ.pl := rfl

theorem aget_map {α β : Type} (f : α → β) (l : List (Nat × α)) (k : Nat) :
    aget (l.map (fun kv => (kv.1, f kv.2))) k = (aget l k).map f := by
  unfold aget
  induction l with
  | nil => rfl
  | cons hd rest ih =>
    obtain ⟨k', v'⟩ := hd
    simp only [List.map, List.lookup]
    split <;> simp_all

/-- the restored router holds, for every round ≥ player.Round, exactly the persisted image of the live round router, and
no other round -/
theorem restore_lookup (σ : State) (r : Nat) :
    aget (persistView σ).root.rounds r = if r ≥ σ.pl.round then (aget σ.root.rounds r).map RoundR.persist else none := by
  simp only [persistView]
  rw [aget_map RoundR.persist, aget_filter_key σ.root.rounds (fun k => decide (k ≥ σ.pl.round)) r]
  by_cases h : r ≥ σ.pl.round <;> simp [h]

theorem PeriodR.persist_idem (p : PeriodR) : p.persist.persist = p.persist := rfl

theorem RoundR.persist_idem (r : RoundR) : r.persist.persist = r.persist := by
  simp only [RoundR.persist, List.map_map]
  congr 1

theorem persistView_idem (σ : State) : persistView (persistView σ) = persistView σ := by
  have key : ∀ (n : Nat) (l : List (Nat × RoundR)),
      (((l.filter (fun kv => decide (kv.1 ≥ n))).map (fun kv => (kv.1, kv.2.persist))).filter (fun kv => decide (kv.1 ≥ n))).map
        (fun kv => (kv.1, kv.2.persist)) = (l.filter (fun kv => decide (kv.1 ≥ n))).map (fun kv => (kv.1, kv.2.persist)) := by
    intro n l
    induction l with
    | nil => rfl
    | cons hd rest ih =>
      by_cases h : hd.1 ≥ n
      · simp only [List.filter, h, decide_true, List.map, RoundR.persist_idem]
        rw [ih]
      · simp only [List.filter, h, decide_false]
        exact ih
  simp only [persistView]
  exact congrArg (fun r => State.mk σ.pl ⟨r⟩) (key σ.pl.round σ.root.rounds)

/-- the C03 invariant survives a crash + restart -/
theorem restore_inv (P : Params) (good : Nat → Nat → Nat → VoteTracker.Vote → Bool) {σ : State}
    (h : Props.C03.Inv P good σ) : Props.C03.Inv P good (persistView σ) := Props.C03.persistView_inv P good h

/-! ### behaviour after a restart -/

/-- **The full statement** (DESIGN §6 C07 `restore_bisim`).  For every state `σ` satisfying the node invariant of C03
(reachable states do: `Props.C03.init_inv`, `handle_inv`, `persistView_inv`) and every continuation `es`
* whose verified votes / payloads meet what the verifiers guarantee (`RunOK`, as in C03), and
* that never consults the deliberately unpersisted old rounds (`ContRunOK`: no proposal-vote of a round below the
  player's round — such votes only feed credential-arrival statistics —, round interruptions move forward),
the run from the restored state `persistView σ` and the live run from `σ` both panic, or both succeed and then, event by
event, emit the same actions up to late-credential noise (`ActsSim`: a proposal-vote may be answered `ignore` by one and
relayed by the other, because `proposalSeeker.lowestIncludingLate` is not persisted), and end in states that persist to
the same image (`SRel`: same player fields, same persisted router for every round ≥ player.Round). -/
def RestoreBisimStatement : Prop :=
  ∀ (P : Params) (good : Nat → Nat → Nat → VoteTracker.Vote → Bool), GoodSpec good →
    ∀ (σ : State) (es : List Player.Event), Props.C03.Inv P good σ → RunOK P good σ es → ContRunOK P σ es →
      RunSim (Player.run P (persistView σ) es) (Player.run P σ es)

/-- **restore_bisim** (full). -/
theorem restore_bisim : RestoreBisimStatement := by
  intro P good hg σ es hI hrun hcont
  exact run_rel P good hg es (persistView_idem σ) hI hrun hcont

/-- in particular: the same `attest` (votes), `ensure` (commits), `stageDigest`, `assemble` / `repropose`, `rezero`,
broadcasts and bundle relays — `ActsSim` only ever relates `ignore` with a propose-step `relayVote` -/
theorem actsSim_strong {as bs : List Action} (h : ActsSim as bs) :
    as.filter (fun a => !lateNoise a) = bs.filter (fun a => !lateNoise a) := by
  induction as generalizing bs with
  | nil => cases bs with
    | nil => rfl
    | cons b bs => exact h.elim
  | cons a as ih =>
    cases bs with
    | nil => exact h.elim
    | cons b bs =>
      obtain ⟨h1, h2⟩ := h
      rcases h1 with rfl | ⟨ha, hb⟩
      · simp only [List.filter]; rw [ih h2]
      · simp only [List.filter, ha, hb, Bool.not_true]; exact ih h2

/-! ### non-vacuity -/

section Example
open Props.C03

/-- the state after the first three events of the C03 example (a proposal, its payload, one cert vote) -/
def exMid : State := match Player.run exP exInit (exEvents.take 3) with
  | .ok (σ, _) => σ
  | .error _ => {}

example : (exMid.root.rounds.map Prod.fst, exMid.pl.round) = ([0, 5], 5) := by decide

/-- the state after the proposal-vote alone (round routers 0 and 5, a period router with a filled seeker, an assembler) -/
def exOne : State := match Player.run exP exInit (exEvents.take 1) with
  | .ok (σ, _) => σ
  | .error _ => {}

/-- its disk state fits the wire format, hence round-trips -/
example : decode (encode (diskOf exOne [.relayVote ⟨5, 0, 0, 9, 51⟩])) = some (diskOf exOne [.relayVote ⟨5, 0, 0, 9, 51⟩]) :=
  decode_encode exOne _ (by decide)

/-- Boolean version of `ContRunOK` for concrete runs -/
def contOKb (σ : State) : Player.Event → Bool
  | .pvote _ _ v _ _ => decide (v.round ≥ σ.pl.round)
  | .roundInterruption r => decide (r > σ.pl.round)
  | _ => true

def contRunOKb (P : Params) : State → List Player.Event → Bool
  | _, [] => true
  | σ, e :: rest =>
    contOKb σ e && (match Player.handle P σ e with
      | .ok (σ', _) => contRunOKb P σ' rest
      | .error _ => true)

theorem contRunOKb_sound (P : Params) : ∀ (es : List Player.Event) (σ : State), contRunOKb P σ es = true → ContRunOK P σ es := by
  intro es
  induction es with
  | nil => intro σ _; trivial
  | cons e rest ih =>
    intro σ h
    simp only [contRunOKb, Bool.and_eq_true] at h
    refine ⟨?_, ?_⟩
    · cases e <;> simp_all [contOKb, ContOK]
    · intro σ' as hh
      rw [hh] at h
      exact ih σ' h.2

/-- the hypotheses of `restore_bisim` are met by the example: the mid-run state satisfies the node invariant (it is
reached from a fresh node by good events) and the continuation meets `RunOK` and `ContRunOK` -/
example : Props.C03.Inv exP exGood exMid ∧ RunOK exP exGood exMid (exEvents.drop 3) ∧ ContRunOK exP exMid (exEvents.drop 3) := by
  refine ⟨?_, runOKb_sound exP exGood _ _ (by decide), contRunOKb_sound exP _ _ (by decide)⟩
  have hg : GoodSpec exGood :=
    { pos := by intro r p s a h; simp [exGood] at h; omega
      cons := by intro r p s a b ha hb hs; simp [exGood] at ha hb; omega }
  have hrun : RunOK exP exGood exInit (exEvents.take 3) := runOKb_sound exP exGood _ _ (by decide)
  have hok : (match Player.run exP exInit (exEvents.take 3) with | .ok _ => true | .error _ => false) = true := by decide
  cases hr : Player.run exP exInit (exEvents.take 3) with
  | error e => rw [hr] at hok; cases hok
  | ok r =>
    obtain ⟨σ, ass⟩ := r
    have := (run_spec exP exGood hg _ (Props.C03.init_inv exP exGood exInit.pl) hrun hr).1
    have he : exMid = σ := by unfold exMid; rw [hr]
    rw [he]; exact this

/-- the restored node commits the block on the remaining event exactly as the live one -/
example : (match Player.run exP (persistView exMid) (exEvents.drop 3), Player.run exP exMid (exEvents.drop 3) with
    | .ok (_, a), .ok (_, b) => a == b && a.length == 1
    | _, _ => false) = true := by decide

end Example

end Props.C07
