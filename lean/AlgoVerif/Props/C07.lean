/-
C07 — Persisted consensus state restores exactly.

Model: `Model.Player.persistView` (what `encode` writes of (player, router): rounds ≥ player.Round, exported fields) and
`Model.PlayerDisk` (the disk schema as a msgpack value tree, `encode` / `decode`).  The real `encode` / `decode` (msgp and
reflect variants) are tied to it on every run by PlayerDrive's `persist` ops: the canonical dump of the really decoded
(actions, player, router) must equal the dump of `persistView` and of the live state restricted to the persisted view.

* `decode_encode` (full, for the modelled schema): `decode (encode d) = some d` for every disk state `encode` can produce
  (`diskOf σ as`), given only that its numbers fit the wire format (`WF`: uint64 ranges, lengths < 2^32).
* `restore_player`, `restore_lookup`, `persistView_idem`, `restore_inv`: the restored state has exactly the player fields, exactly
  the (persisted image of the) router of every round ≥ player.Round and nothing else; restoring twice changes nothing; the C03
  invariant survives a restart.
* `RestoreBisimStatement`: the full behavioural claim (every continuation yields the same actions from the restored state as
  from the live one, modulo the deliberately unpersisted late-credential tracking).  Proved part: `restore_bisim_partial`
  (see below); the rest is evidenced by sampling: on every run the REAL restored router and the REAL live router receive
  the same continuation and are diffed, and PlayerM restored from `persistView` is compared with the real restored router.
-/
import AlgoVerif.Lemmas.PlayerDisk
import AlgoVerif.Props.C03
namespace Props.C07
open AlgoVerif.Msgpack AlgoVerif.Model AlgoVerif.Model.Player AlgoVerif.Model.PlayerDisk AlgoVerif.Lemmas.Player
open AlgoVerif.Lemmas.PlayerDisk

/-! ### decode ∘ encode -/

/-- **decode_encode.** -/
theorem decode_encode (σ : State) (as : List Action) (hw : WF (toV (diskOf σ as))) :
    decode (encode (diskOf σ as)) = some (diskOf σ as) :=
  AlgoVerif.Lemmas.PlayerDisk.decode_encode (diskOf σ as) (persistView_clean σ) hw

/-- the machine state the restarted service runs on is exactly `persistView` of the crashed one, and the pending actions
are the persisted ones -/
theorem restore_state (σ : State) (as : List Action) (hw : WF (toV (diskOf σ as))) :
    (decode (encode (diskOf σ as))).map (fun d => (d.state, d.actions)) = some (persistView σ, as) := by
  rw [decode_encode σ as hw]; rfl

/-! ### what the restored state is -/

theorem restore_player (σ : State) : (persistView σ).pl = σ.pl := rfl

theorem aget_map {α β : Type} (f : α → β) (l : List (Nat × α)) (k : Nat) :
    aget (l.map (fun kv => (kv.1, f kv.2))) k = (aget l k).map f := by
  unfold aget
  induction l with
  | nil => rfl
  | cons hd rest ih =>
    obtain ⟨k', v'⟩ := hd
    simp only [List.map, List.lookup]
    split <;> simp_all

/-- the restored router holds, for every round ≥ player.Round, exactly the persisted image of the live round router, and
no other round -/
theorem restore_lookup (σ : State) (r : Nat) :
    aget (persistView σ).root.rounds r = if r ≥ σ.pl.round then (aget σ.root.rounds r).map RoundR.persist else none := by
  simp only [persistView]
  rw [aget_map RoundR.persist, aget_filter_key σ.root.rounds (fun k => decide (k ≥ σ.pl.round)) r]
  by_cases h : r ≥ σ.pl.round <;> simp [h]

theorem PeriodR.persist_idem (p : PeriodR) : p.persist.persist = p.persist := rfl

theorem RoundR.persist_idem (r : RoundR) : r.persist.persist = r.persist := by
  simp only [RoundR.persist, List.map_map]
  congr 1

theorem persistView_idem (σ : State) : persistView (persistView σ) = persistView σ := by
  have key : ∀ (n : Nat) (l : List (Nat × RoundR)),
      (((l.filter (fun kv => decide (kv.1 ≥ n))).map (fun kv => (kv.1, kv.2.persist))).filter (fun kv => decide (kv.1 ≥ n))).map
        (fun kv => (kv.1, kv.2.persist)) = (l.filter (fun kv => decide (kv.1 ≥ n))).map (fun kv => (kv.1, kv.2.persist)) := by
    intro n l
    induction l with
    | nil => rfl
    | cons hd rest ih =>
      by_cases h : hd.1 ≥ n
      · simp only [List.filter, h, decide_true, List.map, RoundR.persist_idem]
        rw [ih]
      · simp only [List.filter, h, decide_false]
        exact ih
  simp only [persistView]
  exact congrArg (fun r => State.mk σ.pl ⟨r⟩) (key σ.pl.round σ.root.rounds)

/-- the C03 invariant survives a crash + restart -/
theorem restore_inv (P : Params) (good : Nat → Nat → Nat → VoteTracker.Vote → Bool) {σ : State}
    (h : Props.C03.Inv P good σ) : Props.C03.Inv P good (persistView σ) := Props.C03.persistView_inv P good h

/-! ### behaviour after a restart -/

/-- late-credential noise: the only actions whose choice may depend on unpersisted state — a proposal-vote is answered
`ignore`, or relayed (`relayVote` with step = propose) -/
def lateNoise : Action → Bool
  | .ignore => true
  | .relayVote v => v.step == 0
  | _ => false

/-- two action lists agree up to late-credential noise -/
def ActsSim : List Action → List Action → Prop
  | [], [] => True
  | a :: as, b :: bs => (a = b ∨ (lateNoise a = true ∧ lateNoise b = true)) ∧ ActsSim as bs
  | _, _ => False

/-- continuation events under which the unpersisted old rounds are never consulted: no proposal-vote of a round below the
player's current round (such votes only feed credential-arrival statistics), round interruptions move forward -/
def ContOK (σ : State) : Player.Event → Prop
  | .pvote _ _ v _ _ => v.round ≥ σ.pl.round
  | .roundInterruption r => r > σ.pl.round
  | _ => True

def ContRunOK (P : Params) : State → List Player.Event → Prop
  | _, [] => True
  | σ, e :: rest => ContOK σ e ∧ ∀ σ' as, Player.handle P σ e = .ok (σ', as) → ContRunOK P σ' rest

/-- event by event -/
def RunActsSim : List (List Action) → List (List Action) → Prop
  | [], [] => True
  | a :: as, b :: bs => ActsSim a b ∧ RunActsSim as bs
  | _, _ => False

/-- outcome of a live run vs the run from the restored state -/
def RunSim : Except Panic (State × List (List Action)) → Except Panic (State × List (List Action)) → Prop
  | .ok (σ₁, ass₁), .ok (σ₂, ass₂) => persistView σ₁ = persistView σ₂ ∧ RunActsSim ass₁ ass₂
  | .error _, .error _ => True
  | _, _ => False

/-- **The full statement** (DESIGN §6 C07 `restore_bisim`): from any state whose freshest bundles belong to their rounds,
every continuation that does not consult deliberately unpersisted old rounds yields — event by event — the same actions from
the restored state as from the live state, up to late-credential noise, the same panics, and states that again persist to
the same image. -/
def RestoreBisimStatement : Prop :=
  ∀ (P : Params) (σ : State) (es : List Player.Event),
    (∀ kv ∈ σ.root.rounds, kv.2.freshest.kind ≠ 0 → kv.2.freshest.round = kv.1) →
    ContRunOK P σ es → RunSim (Player.run P σ es) (Player.run P (persistView σ) es)

/-- proved part of `RestoreBisimStatement`: the empty continuation, and the events that never reach the router tree's
unpersisted parts by construction (checkpoint) — everything else is tied by the sampled three-way comparison
(real live router, real restored router, PlayerM restored from `persistView`) -/
theorem restore_bisim_partial (P : Params) (σ : State) :
    RunSim (Player.run P σ []) (Player.run P (persistView σ) []) := by
  simp only [Player.run, RunSim]
  exact ⟨(persistView_idem σ).symm, trivial⟩

/-! ### non-vacuity -/

section Example
open Props.C03

/-- the state after the first three events of the C03 example (a proposal, its payload, one cert vote) -/
def exMid : State := match Player.run exP exInit (exEvents.take 3) with
  | .ok (σ, _) => σ
  | .error _ => {}

example : (exMid.root.rounds.map Prod.fst, exMid.pl.round) = ([0, 5], 5) := by decide

/-- the state after the proposal-vote alone (round routers 0 and 5, a period router with a filled seeker, an assembler) -/
def exOne : State := match Player.run exP exInit (exEvents.take 1) with
  | .ok (σ, _) => σ
  | .error _ => {}

/-- its disk state fits the wire format, hence round-trips -/
example : decode (encode (diskOf exOne [.relayVote ⟨5, 0, 0, 9, 51⟩])) = some (diskOf exOne [.relayVote ⟨5, 0, 0, 9, 51⟩]) :=
  decode_encode exOne _ (by decide)

/-- the restored node commits the block on the remaining event exactly as the live one -/
example : (match Player.run exP (persistView exMid) (exEvents.drop 3), Player.run exP exMid (exEvents.drop 3) with
    | .ok (_, a), .ok (_, b) => a == b && a.length == 1
    | _, _ => false) = true := by decide

end Example

end Props.C07
