import AlgoVerif.Spec.TrackerStore
/-!
# C47 — ledger storage back ends give identical answers

Identity of the SQLite and the generic-KV (Pebble) back end is established by CORRESPONDENCE: both are compared, line by
line, with the one executable spec `Spec.TrackerStore` (and with each other) on generated histories — see checks/C47.py.
The theorems here are the laws of that spec which make "identical answers" meaningful for ordered and paginated reads:

* the orders used are strict total orders (`natLt`, `lexLt` = byte order of Go strings / SQLite blobs / Pebble, pairs);
* ordered insert / erase keep every table strictly sorted, and lookup-after-write is what a map does;
* `spec_page_prefix`: a page is a prefix of the qualifying rows of the sorted range, `moreData` is exact, the count-limited
  page is `take limit`; `spec_pages_cover`: following the cursor page by page returns every row after the start cursor,
  each exactly once, in order;
* delete-before: `pruneBelow` keeps exactly the rounds ≥ r; `onlineDelete r` keeps exactly the entries at or after `r` plus,
  per address, the newest older one when it is not the offline marker — and `LookupOnline` for any round ≥ r-1 is unchanged
  except that an offline marker may have become "not found";
* `AccountsOnlineTop` pages concatenate (offset/limit over one ranking).
-/
namespace Props.C47
open Spec.TrackerStore

/-! ## the orders -/

theorem natLt_strict : StrictTotal natLt where
  irrefl := by intro a; simp [natLt]
  trans := by intro a b c h1 h2; simp [natLt] at *; omega
  total := by intro a b; simp [natLt]; omega

theorem lexLt_irrefl : ∀ a, lexLt a a = false
  | [] => rfl
  | x :: xs => by simp [lexLt, lexLt_irrefl xs]

theorem lexLt_trans : ∀ a b c, lexLt a b = true → lexLt b c = true → lexLt a c = true
  | [], [], _, h, _ => by simp [lexLt] at h
  | [], _ :: _, [], _, h => by simp [lexLt] at h
  | [], _ :: _, _ :: _, _, _ => rfl
  | _ :: _, [], _, h, _ => by simp [lexLt] at h
  | _ :: _, _ :: _, [], _, h => by simp [lexLt] at h
  | x :: xs, y :: ys, z :: zs, h1, h2 => by
    simp only [lexLt] at h1 h2 ⊢
    by_cases hxy : x < y
    · by_cases hyz : y < z
      · have : x < z := by omega
        simp [this]
      · by_cases hzy : z < y
        · simp [hyz, hzy] at h2
        · have : x < z := by omega
          simp [this]
    · by_cases hyx : y < x
      · simp [hxy, hyx] at h1
      · have hxy' : x = y := by omega
        subst hxy'
        by_cases hxz : x < z
        · simp [hxz]
        · by_cases hzx : z < x
          · simp [hxz, hzx] at h2
          · simp [hxy, hxz, hzx] at h1 h2 ⊢
            exact lexLt_trans xs ys zs h1 h2

theorem lexLt_total : ∀ a b, lexLt a b = true ∨ a = b ∨ lexLt b a = true
  | [], [] => by simp
  | [], _ :: _ => by simp [lexLt]
  | _ :: _, [] => by simp [lexLt]
  | x :: xs, y :: ys => by
    simp only [lexLt]
    by_cases hxy : x < y
    · simp [hxy]
    · by_cases hyx : y < x
      · simp [hxy, hyx]
      · have : x = y := by omega
        subst this
        simp only [hxy, if_false]
        rcases lexLt_total xs ys with h | h | h
        · simp [h]
        · simp [h]
        · simp [h]

theorem lexLt_strict : StrictTotal lexLt := ⟨lexLt_irrefl, lexLt_trans, lexLt_total⟩

theorem pairLt_strict {α β : Type} [DecidableEq α] {la : α → α → Bool} {lb : β → β → Bool}
    (ha : StrictTotal la) (hb : StrictTotal lb) : StrictTotal (pairLt la lb) where
  irrefl := by intro a; simp [pairLt, ha.irrefl, hb.irrefl]
  trans := by
    intro a b c h1 h2
    simp only [pairLt, Bool.or_eq_true, Bool.and_eq_true, decide_eq_true_eq] at h1 h2 ⊢
    rcases h1 with h1 | ⟨e1, h1⟩ <;> rcases h2 with h2 | ⟨e2, h2⟩
    · exact Or.inl (ha.trans _ _ _ h1 h2)
    · exact Or.inl (e2 ▸ h1)
    · exact Or.inl (e1 ▸ h2)
    · exact Or.inr ⟨e1.trans e2, hb.trans _ _ _ h1 h2⟩
  total := by
    intro a b
    obtain ⟨a1, a2⟩ := a
    obtain ⟨b1, b2⟩ := b
    simp only [pairLt, Bool.or_eq_true, Bool.and_eq_true, decide_eq_true_eq, Prod.mk.injEq]
    rcases ha.total a1 b1 with h | h | h
    · exact Or.inl (Or.inl h)
    · subst h
      rcases hb.total a2 b2 with h' | h' | h'
      · exact Or.inl (Or.inr ⟨rfl, h'⟩)
      · exact Or.inr (Or.inl ⟨rfl, h'⟩)
      · exact Or.inr (Or.inr (Or.inr ⟨rfl, h'⟩))
    · exact Or.inr (Or.inr (Or.inl h))

/-- the composite keys of the resources and online-accounts tables -/
theorem okLt_strict : StrictTotal okLt := pairLt_strict natLt_strict natLt_strict
theorem rkLt_strict : StrictTotal rkLt := pairLt_strict natLt_strict natLt_strict

example : StrictTotal (pairLt natLt lexLt) := pairLt_strict natLt_strict lexLt_strict


/-! ## sorted maps: ordered insert / erase keep the order; lookup after write -/

section SMap
variable {κ ν : Type} [DecidableEq κ] {lt : κ → κ → Bool}

theorem find_ins_self (k : κ) (v : ν) (l : List (κ × ν)) :
    find k (ins lt k v l) = some v := by
  induction l with
  | nil => simp [ins, find]
  | cons hd t ih =>
    obtain ⟨k', v'⟩ := hd
    simp only [ins]
    split
    · simp [find]
    · split
      · simp [find]
      · rename_i h1 h2
        simp [find, h2, ih]

theorem find_ins_other (k k' : κ) (v : ν) (l : List (κ × ν)) (hne : k' ≠ k) :
    find k' (ins lt k v l) = find k' l := by
  induction l with
  | nil => simp [ins, find, hne]
  | cons hd t ih =>
    obtain ⟨k2, v2⟩ := hd
    simp only [ins]
    split
    · simp [find, hne]
    · split
      · rename_i h1 h2
        subst h2
        simp [find, hne]
      · simp [find, ih]

theorem del_cons (k k2 : κ) (v2 : ν) (t : List (κ × ν)) :
    del k ((k2, v2) :: t) = if k2 = k then del k t else (k2, v2) :: del k t := by
  by_cases h : k2 = k <;> simp [del, h]

theorem find_del_self (k : κ) (l : List (κ × ν)) : find k (del k l) = none := by
  induction l with
  | nil => simp [del, find]
  | cons hd t ih =>
    obtain ⟨k2, v2⟩ := hd
    rw [del_cons]
    by_cases h : k2 = k
    · simp [h, ih]
    · have : k ≠ k2 := fun e => h e.symm
      simp [h, find, this, ih]

theorem find_del_other (k k' : κ) (l : List (κ × ν)) (hne : k' ≠ k) : find k' (del k l) = find k' l := by
  induction l with
  | nil => simp [del, find]
  | cons hd t ih =>
    obtain ⟨k2, v2⟩ := hd
    rw [del_cons]
    by_cases h : k2 = k
    · subst h
      simp [find, hne, ih]
    · simp [h, find, ih]

theorem mem_ins (k : κ) (v : ν) (l : List (κ × ν)) (p : κ × ν) :
    p ∈ ins lt k v l → p = (k, v) ∨ p ∈ l := by
  induction l with
  | nil => simp [ins]
  | cons hd t ih =>
    obtain ⟨k2, v2⟩ := hd
    simp only [ins]
    split
    · simp
    · split
      · simp; intro h; rcases h with h | h; exact Or.inl h; exact Or.inr (Or.inr h)
      · simp; intro h; rcases h with h | h
        · exact Or.inr (Or.inl h)
        · rcases ih h with h | h
          · exact Or.inl h
          · exact Or.inr (Or.inr h)

theorem sorted_ins (h : StrictTotal lt) (k : κ) (v : ν) (l : List (κ × ν)) (hs : Sorted lt l) :
    Sorted lt (ins lt k v l) := by
  induction l with
  | nil => simp [ins, Sorted]
  | cons hd t ih =>
    obtain ⟨k2, v2⟩ := hd
    simp only [Sorted, List.pairwise_cons] at hs
    obtain ⟨h1, h2⟩ := hs
    simp only [ins]
    split
    · rename_i hlt
      simp only [Sorted, List.pairwise_cons]
      refine ⟨?_, h1, h2⟩
      intro a ha
      rcases List.mem_cons.mp ha with e | e
      · subst e; exact hlt
      · exact h.trans _ _ _ hlt (h1 a e)
    · split
      · rename_i _ heq
        subst heq
        simp only [Sorted, List.pairwise_cons]
        exact ⟨h1, h2⟩
      · rename_i hnlt hne
        simp only [Sorted, List.pairwise_cons]
        refine ⟨?_, ih h2⟩
        intro a ha
        rcases mem_ins k v t a ha with e | e
        · subst e
          rcases h.total k k2 with c | c | c
          · exact absurd c hnlt
          · exact absurd c hne
          · exact c
        · exact h1 a e

theorem sorted_del (k : κ) (l : List (κ × ν)) (hs : Sorted lt l) : Sorted lt (del k l) :=
  List.Pairwise.filter _ hs

end SMap

/-! ## pagination: `spec_page_prefix` -/

section Page
variable {α : Type}

theorem collect_prefix (qual : α → Bool) (size : α → Nat) (limit mb : Nat) :
    ∀ (rows : List α) (c b : Nat), (collect qual size limit mb rows c b).1 <+: rows.filter qual := by
  intro rows
  induction rows with
  | nil => intro c b; simp [collect]
  | cons r rest ih =>
    intro c b
    simp only [collect]
    by_cases hq : qual r = true
    · simp only [hq, Bool.not_true, Bool.false_eq_true, if_false, List.filter_cons_of_pos]
      split
      · exact List.nil_prefix
      · split
        · simp [List.cons_prefix_cons]
        · simp only [List.cons_prefix_cons, true_and]
          exact ih _ _
    · have hq' : qual r = false := by simpa using hq
      simp only [hq', Bool.not_false, if_true]
      rw [List.filter_cons_of_neg (by simp [hq'])]
      exact ih _ _

theorem filter_length_pos_iff_any (qual : α → Bool) (l : List α) : 0 < (l.filter qual).length ↔ l.any qual = true := by
  induction l with
  | nil => simp
  | cons x t ih =>
    by_cases hx : qual x = true
    · simp [hx]
    · have hx' : qual x = false := by simpa using hx
      simp [hx', ih]

theorem collect_more_iff (qual : α → Bool) (size : α → Nat) (limit mb : Nat) :
    ∀ (rows : List α) (c b : Nat),
      (collect qual size limit mb rows c b).2 = true ↔
        (collect qual size limit mb rows c b).1.length < (rows.filter qual).length := by
  intro rows
  induction rows with
  | nil => intro c b; simp [collect]
  | cons r rest ih =>
    intro c b
    simp only [collect]
    by_cases hq : qual r = true
    · simp only [hq, Bool.not_true, Bool.false_eq_true, if_false, List.filter_cons_of_pos]
      split
      · simp
      · split
        · simp only [List.length_cons, List.length_nil]
          rw [← filter_length_pos_iff_any]
          omega
        · simp only [List.length_cons]
          rw [ih]
          omega
    · have hq' : qual r = false := by simpa using hq
      simp only [hq', Bool.not_false, if_true]
      rw [List.filter_cons_of_neg (by simp [hq'])]
      exact ih _ _

/-- without a byte budget the loop is `take`: generalised over the number already collected -/
theorem collect_eq_take (qual : α → Bool) (size : α → Nat) (limit : Nat) (hl : 0 < limit) :
    ∀ (rows : List α) (c b : Nat), c < limit →
      collect qual size limit 0 rows c b =
        ((rows.filter qual).take (limit - c), decide (limit - c < (rows.filter qual).length)) := by
  intro rows
  induction rows with
  | nil => intro c b _; simp [collect]
  | cons r rest ih =>
    intro c b hc
    simp only [collect]
    by_cases hq : qual r = true
    · simp only [hq, Bool.not_true, Bool.false_eq_true, if_false, List.filter_cons_of_pos, Nat.lt_irrefl,
        decide_false, Bool.false_and]
      by_cases hlast : limit ≤ c + 1
      · have h1 : limit - c = 1 := by omega
        have : (decide (0 < limit) && decide (limit ≤ c + 1)) = true := by simp [hl, hlast]
        simp only [this, if_true, h1, List.take_succ_cons, List.take_zero, List.length_cons]
        congr 1
        have hiff := filter_length_pos_iff_any qual rest
        by_cases ha : rest.any qual = true
        · have hpos := hiff.mpr ha
          rw [ha]
          have : 1 < (rest.filter qual).length + 1 := by omega
          simp [this]
        · have hf : rest.any qual = false := by simpa using ha
          have hz : ¬ 0 < (rest.filter qual).length := fun h => ha (hiff.mp h)
          rw [hf]
          have : ¬ 1 < (rest.filter qual).length + 1 := by omega
          simp [this]
      · have : (decide (0 < limit) && decide (limit ≤ c + 1)) = false := by simp [hlast]
        simp only [this, Bool.false_eq_true, if_false]
        rw [ih (c + 1) (b + size r) (by omega)]
        have h2 : limit - c = (limit - (c + 1)) + 1 := by omega
        rw [h2, List.take_succ_cons]
        simp only [List.length_cons, Prod.mk.injEq, true_and, decide_eq_decide]
        omega
    · have hq' : qual r = false := by simpa using hq
      simp only [hq', Bool.not_false, if_true]
      rw [List.filter_cons_of_neg (by simp [hq'])]
      exact ih c b hc

theorem collect_unlimited (qual : α → Bool) (size : α → Nat) :
    ∀ (rows : List α) (c b : Nat), collect qual size 0 0 rows c b = (rows.filter qual, false) := by
  intro rows
  induction rows with
  | nil => intro c b; simp [collect]
  | cons r rest ih =>
    intro c b
    simp only [collect]
    by_cases hq : qual r = true
    · simp [hq, ih]
    · have hq' : qual r = false := by simpa using hq
      simp only [hq', Bool.not_false, if_true]
      rw [List.filter_cons_of_neg (by simp [hq'])]
      exact ih c b

/-- the count-limited page of the loop is the closed form `pageOf` -/
theorem collect_eq_pageOf (qual : α → Bool) (size : α → Nat) (limit : Nat) (rows : List α) :
    collect qual size limit 0 rows 0 0 = pageOf qual limit rows := by
  unfold pageOf
  by_cases h : limit = 0
  · subst h; simp [collect_unlimited]
  · have hl : 0 < limit := Nat.pos_of_ne_zero h
    rw [collect_eq_take qual size limit hl rows 0 0 hl]
    simp [h]

end Page

/-! ## pagination: `spec_pages_cover` -/

section Cover
variable {κ : Type} {lt : κ → κ → Bool}

theorem lt_asymm_of_strict (h : StrictTotal lt) {a b : κ} (hab : lt a b = true) : lt b a = false := by
  cases hba : lt b a with
  | false => rfl
  | true =>
    have := h.trans a b a hab hba
    rw [h.irrefl] at this
    exact absurd this (by simp)

/-- in a strictly sorted list, the elements after `x` are exactly the tail behind `x` -/
theorem filter_after_split (h : StrictTotal lt) (A B : List κ) (x : κ)
    (hs : (A ++ x :: B).Pairwise (fun a b => lt a b = true)) :
    (A ++ x :: B).filter (fun k => lt x k) = B := by
  rw [List.pairwise_append] at hs
  obtain ⟨_, hxB, hAx⟩ := hs
  rw [List.pairwise_cons] at hxB
  rw [List.filter_append, List.filter_cons]
  have hA : A.filter (fun k => lt x k) = [] := by
    rw [List.filter_eq_nil_iff]
    intro a ha
    have := hAx a ha x (by simp)
    simp [lt_asymm_of_strict h this]
  have hB : B.filter (fun k => lt x k) = B := by
    rw [List.filter_eq_self]
    intro b hb
    exact hxB.1 b hb
  simp [hA, hB, h.irrefl]

theorem after_trans (h : StrictTotal lt) (cursor : Option κ) {x k : κ} (hx : after lt cursor x = true) (hk : lt x k = true) :
    after lt cursor k = true := by
  cases cursor with
  | none => rfl
  | some c => exact h.trans c x k hx hk

theorem spec_pages_cover_aux (h : StrictTotal lt) (limit : Nat) (hl : 0 < limit) (keys : List κ)
    (hs : keys.Pairwise (fun a b => lt a b = true)) :
    ∀ (fuel : Nat) (cursor : Option κ), (keys.filter (after lt cursor)).length < fuel →
      (pagesFrom lt limit fuel cursor keys).flatten = keys.filter (after lt cursor) := by
  intro fuel
  induction fuel with
  | zero => intro cursor hlen; omega
  | succ fuel ih =>
    intro cursor hlen
    have hne : limit ≠ 0 := by omega
    simp only [pagesFrom, pageOf, hne, if_false]
    generalize hQ : keys.filter (after lt cursor) = Q at hlen ⊢
    have hQs : Q.Pairwise (fun a b => lt a b = true) := by rw [← hQ]; exact List.Pairwise.filter _ hs
    cases hlast : (Q.take limit).getLast? with
    | none =>
      have : Q.take limit = [] := by simpa [List.getLast?_eq_none_iff] using hlast
      have hQnil : Q = [] := by
        cases Q with
        | nil => rfl
        | cons a t =>
          obtain ⟨n, hn⟩ : ∃ n, limit = n + 1 := ⟨limit - 1, by omega⟩
          rw [hn] at this; simp at this
      simp [hQnil]
    | some x =>
      by_cases hmore : limit < Q.length
      · simp only [hmore, decide_true]
        rw [List.flatten_cons]
        obtain ⟨A, hA⟩ : ∃ A, Q.take limit = A ++ [x] := by
          have := List.getLast?_eq_some_iff.mp hlast
          exact this
        have hsplit : Q = A ++ x :: Q.drop limit := by
          have := List.take_append_drop limit Q
          rw [hA] at this
          simpa using this.symm
        have hxQ : x ∈ Q := by rw [hsplit]; simp
        have hxa : after lt cursor x = true := by
          have : x ∈ keys.filter (after lt cursor) := by rw [hQ]; exact hxQ
          exact (List.mem_filter.mp this).2
        have hnext : keys.filter (after lt (some x)) = Q.drop limit := by
          have e1 : keys.filter (after lt (some x)) = Q.filter (fun k => lt x k) := by
            rw [← hQ, List.filter_filter]
            apply List.filter_congr
            intro k _
            show (after lt (some x) k) = (lt x k && after lt cursor k)
            have e0 : after lt (some x) k = lt x k := rfl
            rw [e0]
            cases hk : lt x k with
            | false => simp
            | true => simp [after_trans h cursor hxa hk]
          rw [e1]
          conv => lhs; rw [hsplit]
          apply filter_after_split h
          rw [← hsplit]; exact hQs
        rw [ih (some x) (by rw [hnext, List.length_drop]; omega), hnext]
        exact List.take_append_drop limit Q
      · simp only [hmore, decide_false]
        simp only [List.flatten_cons, List.flatten_nil, List.append_nil]
        exact List.take_of_length_le (by omega)

end Cover

/-! ## delete-before -/

section Prune
variable {ν : Type}

theorem mem_pruneBelow (r : Nat) (l : List (Nat × ν)) (p : Nat × ν) : p ∈ pruneBelow r l ↔ p ∈ l ∧ r ≤ p.1 := by
  simp [pruneBelow, List.mem_filter]

theorem mem_pruneUpTo (r : Nat) (l : List (Nat × ν)) (p : Nat × ν) : p ∈ pruneUpTo r l ↔ p ∈ l ∧ r < p.1 := by
  simp [pruneUpTo, List.mem_filter]

theorem sorted_pruneBelow (r : Nat) (l : List (Nat × ν)) (hs : Sorted natLt l) : Sorted natLt (pruneBelow r l) :=
  List.Pairwise.filter _ hs

/-- lookups at or above the bound are untouched by a delete-before -/
theorem find_pruneBelow (r k : Nat) (l : List (Nat × ν)) (hk : r ≤ k) : find k (pruneBelow r l) = find k l := by
  induction l with
  | nil => simp [pruneBelow, find]
  | cons hd t ih =>
    obtain ⟨k2, v2⟩ := hd
    simp only [pruneBelow] at ih ⊢
    by_cases h : r ≤ k2
    · simp [h, find, ih]
    · have : k ≠ k2 := by omega
      simp [h, find, this, ih]

theorem find_pruneBelow_lt (r k : Nat) (l : List (Nat × ν)) (hk : k < r) : find k (pruneBelow r l) = none := by
  induction l with
  | nil => simp [pruneBelow, find]
  | cons hd t ih =>
    obtain ⟨k2, v2⟩ := hd
    simp only [pruneBelow] at ih ⊢
    by_cases h : r ≤ k2
    · have : k ≠ k2 := by omega
      simp [h, find, this, ih]
    · simp [h, ih]

end Prune

/-! ## online accounts: delete-before keeps the newest older entry -/

theorem mem_onlineDelete (r : Nat) (l : Online) (e : OKey × OnlRow) :
    e ∈ onlineDelete r l ↔
      e ∈ l ∧ (r ≤ e.1.2 ∨
        ((∀ e' ∈ l, e'.1.1 = e.1.1 → e'.1.2 < r → e'.1.2 ≤ e.1.2) ∧ e.2.votingEmpty = false)) := by
  simp only [onlineDelete, List.mem_filter, keepOnline, newestBelow, Bool.or_eq_true, decide_eq_true_eq,
    Bool.and_eq_true, List.all_eq_true, Bool.not_eq_true', Bool.and_eq_false_imp, decide_eq_false_iff_not]
  constructor
  · rintro ⟨hm, h⟩
    refine ⟨hm, ?_⟩
    rcases h with h | ⟨h1, h2⟩
    · exact Or.inl h
    · refine Or.inr ⟨?_, h2⟩
      intro e' he' ha hr
      have := h1 e' he' ⟨ha, hr⟩
      omega
  · rintro ⟨hm, h⟩
    refine ⟨hm, ?_⟩
    rcases h with h | ⟨h1, h2⟩
    · exact Or.inl h
    · refine Or.inr ⟨?_, h2⟩
      intro e' he' ha
      have := h1 e' he' ha.1 ha.2
      omega

theorem onlineDelete_sublist (r : Nat) (l : Online) : (onlineDelete r l).Sublist l := List.filter_sublist

theorem sorted_onlineDelete (r : Nat) (l : Online) (hs : Sorted okLt l) : Sorted okLt (onlineDelete r l) :=
  List.Pairwise.filter _ hs

/-- entries at or after the bound are never touched -/
theorem onlineDelete_keeps_recent (r : Nat) (l : Online) (e : OKey × OnlRow) (hr : r ≤ e.1.2) :
    e ∈ onlineDelete r l ↔ e ∈ l := by
  rw [mem_onlineDelete]; constructor
  · exact fun h => h.1
  · exact fun h => ⟨h, Or.inl hr⟩

/-- below the bound at most one entry per address survives -/
theorem onlineDelete_one_below (r : Nat) (l : Online) (e1 e2 : OKey × OnlRow)
    (h1 : e1 ∈ onlineDelete r l) (h2 : e2 ∈ onlineDelete r l) (ha : e1.1.1 = e2.1.1)
    (b1 : e1.1.2 < r) (b2 : e2.1.2 < r) : e1.1.2 = e2.1.2 := by
  rw [mem_onlineDelete] at h1 h2
  obtain ⟨m1, k1⟩ := h1
  obtain ⟨m2, k2⟩ := h2
  rcases k1 with k1 | ⟨k1, _⟩
  · omega
  rcases k2 with k2 | ⟨k2, _⟩
  · omega
  have a := k1 e2 m2 ha.symm b2
  have b := k2 e1 m1 ha b1
  omega

/-- `e` is the newest entry of address `a` with update round ≤ `q` — what LookupOnline(a, q) returns -/
def IsLatest (l : Online) (a : Addr) (q : Nat) (e : OKey × OnlRow) : Prop :=
  e ∈ l ∧ e.1.1 = a ∧ e.1.2 ≤ q ∧ ∀ e' ∈ l, e'.1.1 = a → e'.1.2 ≤ q → e'.1.2 ≤ e.1.2

/-- a lookup at any round ≥ forgetBefore-1 still finds its entry after the deletion, unless that entry is an
offline marker below the bound -/
theorem onlineDelete_latest_kept (r q : Nat) (l : Online) (a : Addr) (e : OKey × OnlRow) (hq : r ≤ q + 1)
    (hl : IsLatest l a q e) (hk : r ≤ e.1.2 ∨ e.2.votingEmpty = false) : IsLatest (onlineDelete r l) a q e := by
  obtain ⟨hm, hea, heq, hmax⟩ := hl
  refine ⟨?_, hea, heq, ?_⟩
  · rw [mem_onlineDelete]
    refine ⟨hm, ?_⟩
    rcases hk with hk | hk
    · exact Or.inl hk
    · by_cases hr : r ≤ e.1.2
      · exact Or.inl hr
      · refine Or.inr ⟨?_, hk⟩
        intro e' he' ha' hr'
        exact hmax e' he' (ha'.trans hea) (Nat.le_of_lt_succ (Nat.lt_of_lt_of_le hr' hq))
  · intro e' he' ha' hq'
    exact hmax e' ((onlineDelete_sublist r l).subset he') ha' hq'

/-- and the deletion never makes an older entry the answer -/
theorem onlineDelete_latest_conv (r q : Nat) (l : Online) (a : Addr) (e : OKey × OnlRow)
    (hl : IsLatest (onlineDelete r l) a q e) : IsLatest l a q e := by
  obtain ⟨hm, hea, heq, hmax⟩ := hl
  have hm' := hm
  rw [mem_onlineDelete] at hm'
  obtain ⟨hml, hkeep⟩ := hm'
  refine ⟨hml, hea, heq, ?_⟩
  intro e' he' ha' hq'
  by_cases hle : e'.1.2 ≤ e.1.2
  · exact hle
  · exfalso
    have hlt : e.1.2 < e'.1.2 := by omega
    by_cases hk' : e' ∈ onlineDelete r l
    · have := hmax e' hk' ha' hq'
      omega
    · -- e' was deleted, so it lies below the bound; then e lies below it too and was not the newest
      have hr' : e'.1.2 < r := by
        by_cases c : r ≤ e'.1.2
        · exact absurd ((onlineDelete_keeps_recent r l e' c).mpr he') hk'
        · omega
      rcases hkeep with c | ⟨c, _⟩
      · omega
      · have := c e' he' (ha'.trans hea.symm) hr'
        omega

theorem sorted_unique_keys {κ ν : Type} [DecidableEq κ] {lt : κ → κ → Bool} (h : StrictTotal lt) (l : List (κ × ν))
    (hs : Sorted lt l) : ∀ x ∈ l, ∀ y ∈ l, x.1 = y.1 → x = y := by
  induction l with
  | nil => intro x hx; simp at hx
  | cons hd t ih =>
    simp only [Sorted, List.pairwise_cons] at hs
    obtain ⟨h1, h2⟩ := hs
    intro x hx y hy hxy
    rcases List.mem_cons.mp hx with ex | ex <;> rcases List.mem_cons.mp hy with ey | ey
    · rw [ex, ey]
    · exfalso
      have := h1 y ey
      rw [← ex, hxy, h.irrefl] at this
      exact absurd this (by simp)
    · exfalso
      have := h1 x ex
      rw [← ey, ← hxy, h.irrefl] at this
      exact absurd this (by simp)
    · exact ih h2 x ex y ey hxy

/-- an offline marker below the bound is forgotten: afterwards the lookup finds nothing -/
theorem onlineDelete_latest_dropped (r q : Nat) (l : Online) (a : Addr) (e : OKey × OnlRow) (hs : Sorted okLt l)
    (hl : IsLatest l a q e) (hb : e.1.2 < r) (hv : e.2.votingEmpty = true) :
    ¬ ∃ e', IsLatest (onlineDelete r l) a q e' := by
  rintro ⟨e', hl'⟩
  have hc := onlineDelete_latest_conv r q l a e' hl'
  obtain ⟨hm, hea, heq, hmax⟩ := hl
  obtain ⟨hm2, hea2, heq2, hmax2⟩ := hc
  have h1 := hmax e' hm2 hea2 heq2
  have h2 := hmax2 e hm hea heq
  have hkey : e'.1 = e.1 := by
    apply Prod.ext
    · exact hea2.trans hea.symm
    · omega
  have hee : e' = e := sorted_unique_keys okLt_strict l hs e' hm2 e hm hkey
  subst hee
  have := (mem_onlineDelete r l e').mp hl'.1
  rcases this.2 with c | ⟨_, c⟩
  · omega
  · rw [hv] at c; exact absurd c (by simp)

/-- the executable LookupOnline returns the latest entry (the table is sorted by (address, round)) -/
theorem lookupOnline_isLatest (l : Online) (hs : Sorted okLt l) (a : Addr) (q : Nat) (e : OKey × OnlRow)
    (h : lookupOnline a q l = some e) : IsLatest l a q e := by
  unfold lookupOnline at h
  obtain ⟨A, hA⟩ := List.getLast?_eq_some_iff.mp h
  have hmem : e ∈ l.filter (fun e => decide (e.1.1 = a) && decide (e.1.2 ≤ q)) := by rw [hA]; simp
  have hme := List.mem_filter.mp hmem
  simp only [Bool.and_eq_true, decide_eq_true_eq] at hme
  refine ⟨hme.1, hme.2.1, hme.2.2, ?_⟩
  intro e' he' ha' hq'
  have hF : (l.filter (fun e => decide (e.1.1 = a) && decide (e.1.2 ≤ q))).Pairwise (fun x y => okLt x.1 y.1 = true) :=
    List.Pairwise.filter _ hs
  have he'F : e' ∈ l.filter (fun e => decide (e.1.1 = a) && decide (e.1.2 ≤ q)) := by
    rw [List.mem_filter]; simp [he', ha', hq']
  rw [hA] at hF he'F
  rcases List.mem_append.mp he'F with c | c
  · have := (List.pairwise_append.mp hF).2.2 e' c e (by simp)
    simp only [okLt, pairLt, natLt, Bool.or_eq_true, decide_eq_true_eq, Bool.and_eq_true] at this
    rcases this with c | ⟨_, c⟩
    · rw [ha', hme.2.1] at c; omega
    · omega
  · simp at c; rw [c]; exact Nat.le_refl _

theorem lookupOnline_none (l : Online) (a : Addr) (q : Nat) (h : lookupOnline a q l = none) :
    ∀ e ∈ l, ¬ (e.1.1 = a ∧ e.1.2 ≤ q) := by
  unfold lookupOnline at h
  rw [List.getLast?_eq_none_iff, List.filter_eq_nil_iff] at h
  intro e he hc
  exact h e he (by simp [hc.1, hc.2])

/-! ## AccountsOnlineTop -/

/-- consecutive AccountsOnlineTop pages are consecutive segments of one ranking -/
theorem onlineTop_append (q off n m : Nat) (l : Online) :
    onlineTop q off n l ++ onlineTop q (off + n) m l = onlineTop q off (n + m) l := by
  simp only [onlineTop]
  rw [← List.drop_drop, List.take_add]

theorem onlineTop_zero (q n : Nat) (l : Online) : onlineTop q 0 n l = (onlineRanked q l).take n := by
  simp [onlineTop]

section Srt
variable {α : Type} {before : α → α → Bool}

theorem insertBy_perm (x : α) (l : List α) : (insertBy before x l).Perm (x :: l) := by
  induction l with
  | nil => simp [insertBy]
  | cons y t ih =>
    simp only [insertBy]
    split
    · exact List.Perm.refl _
    · exact (List.Perm.cons y ih).trans (List.Perm.swap x y t)

theorem sortBy_perm (l : List α) : (sortBy before l).Perm l := by
  induction l with
  | nil => simp [sortBy]
  | cons x t ih =>
    have : sortBy before (x :: t) = insertBy before x (sortBy before t) := rfl
    rw [this]
    exact (insertBy_perm x _).trans (List.Perm.cons x ih)

theorem mem_sortBy (l : List α) (x : α) : x ∈ sortBy before l ↔ x ∈ l := (sortBy_perm l).mem_iff

/-- insertion sort output: no element is ranked before one that precedes it -/
theorem sortBy_sorted (hasym : ∀ a b, before a b = true → before b a = false)
    (htrans : ∀ a b c, before b a = false → before c b = false → before c a = false) (l : List α) :
    (sortBy before l).Pairwise (fun a b => before b a = false) := by
  induction l with
  | nil => simp [sortBy]
  | cons x t ih =>
    have e : sortBy before (x :: t) = insertBy before x (sortBy before t) := rfl
    rw [e]
    generalize sortBy before t = s at ih
    induction s with
    | nil => simp [insertBy]
    | cons y u ihu =>
      rw [List.pairwise_cons] at ih
      simp only [insertBy]
      split
      · rename_i hxy
        rw [List.pairwise_cons]
        refine ⟨?_, List.pairwise_cons.mpr ih⟩
        intro z hz
        rcases List.mem_cons.mp hz with c | c
        · subst c; exact hasym _ _ hxy
        · exact htrans x y z (hasym _ _ hxy) (ih.1 z c)
      · rename_i hxy
        have hxy' : before x y = false := by simpa using hxy
        rw [List.pairwise_cons]
        refine ⟨?_, ihu ih.2⟩
        intro z hz
        rcases List.mem_cons.mp ((insertBy_perm x u).mem_iff.mp hz) with c | c
        · subst c; exact hxy'
        · exact ih.1 z c

end Srt

theorem topBefore_true_iff (a b : OKey × OnlRow) :
    topBefore a b = true ↔
      OnlRow.normBal b.2 < OnlRow.normBal a.2 ∨ (OnlRow.normBal a.2 = OnlRow.normBal b.2 ∧ (id b.1.1 : Nat) < (id a.1.1 : Nat)) := by
  simp [topBefore]

theorem topBefore_asymm (a b : OKey × OnlRow) (h : topBefore a b = true) : topBefore b a = false := by
  rw [Bool.eq_false_iff]
  intro h'
  rw [topBefore_true_iff] at h h'
  generalize OnlRow.normBal a.2 = x at *
  generalize OnlRow.normBal b.2 = y at *
  generalize (id a.1.1 : Nat) = u at *
  generalize (id b.1.1 : Nat) = v at *
  omega

theorem topBefore_negtrans (a b c : OKey × OnlRow) (h1 : topBefore b a = false) (h2 : topBefore c b = false) :
    topBefore c a = false := by
  rw [Bool.eq_false_iff] at h1 h2 ⊢
  intro h'
  have h1' : ¬ _ := fun h => h1 ((topBefore_true_iff b a).mpr h)
  have h2' : ¬ _ := fun h => h2 ((topBefore_true_iff c b).mpr h)
  rw [topBefore_true_iff] at h'
  clear h1 h2
  generalize OnlRow.normBal a.2 = x at *
  generalize OnlRow.normBal b.2 = y at *
  generalize OnlRow.normBal c.2 = z at *
  generalize (id a.1.1 : Nat) = u at *
  generalize (id b.1.1 : Nat) = v at *
  generalize (id c.1.1 : Nat) = w at *
  omega

/-- the ranking behind AccountsOnlineTop is ordered by (balance desc, address desc) and contains exactly the latest
positive-balance row of every address -/
theorem onlineRanked_sorted (q : Nat) (l : Online) :
    (onlineRanked q l).Pairwise (fun a b => topBefore b a = false) :=
  sortBy_sorted topBefore_asymm topBefore_negtrans _

theorem mem_onlineRanked (q : Nat) (l : Online) (e : OKey × OnlRow) :
    e ∈ onlineRanked q l ↔ e ∈ latestPerAddr q l ∧ 0 < e.2.normBal := by
  simp [onlineRanked, mem_sortBy, List.mem_filter]

/-! ## the property itself, and why "both refine the spec" gives it -/

/-- answers of a machine along a history of ops -/
def answers {σ ο α : Type} (step : σ → ο → σ × α) : σ → List ο → List α
  | _, [] => []
  | s, o :: os => (step s o).2 :: answers step (step s o).1 os

/-- C47 as stated: for every history the two back ends print the same answers.  For the real drivers this is NOT a
theorem of this development: it is the conclusion of `identical_of_refinement`, whose hypotheses (each driver simulates
`Spec.TrackerStore` step by step with equal answers) are what the C47 check establishes by line-exact correspondence on
generated histories. -/
def C47Statement {σ1 σ2 ο α : Type} (i1 : σ1 → ο → σ1 × α) (i2 : σ2 → ο → σ2 × α) (s1 : σ1) (s2 : σ2) : Prop :=
  ∀ ops : List ο, answers i1 s1 ops = answers i2 s2 ops

theorem identical_of_refinement {σ σ1 σ2 ο α : Type} (spec : σ → ο → σ × α) (i1 : σ1 → ο → σ1 × α) (i2 : σ2 → ο → σ2 × α)
    (R1 : σ1 → σ → Prop) (R2 : σ2 → σ → Prop)
    (h1 : ∀ s1 s o, R1 s1 s → (i1 s1 o).2 = (spec s o).2 ∧ R1 (i1 s1 o).1 (spec s o).1)
    (h2 : ∀ s2 s o, R2 s2 s → (i2 s2 o).2 = (spec s o).2 ∧ R2 (i2 s2 o).1 (spec s o).1)
    (s1 : σ1) (s2 : σ2) (s : σ) (r1 : R1 s1 s) (r2 : R2 s2 s) : C47Statement i1 i2 s1 s2 := by
  intro ops
  induction ops generalizing s1 s2 s with
  | nil => rfl
  | cons o os ih =>
    simp only [answers]
    obtain ⟨a1, n1⟩ := h1 s1 s o r1
    obtain ⟨a2, n2⟩ := h2 s2 s o r2
    rw [a1, a2, ih _ _ _ n1 n2]

/-- non-vacuity: a counter that stores its state doubled refines the plain counter -/
example : C47Statement (fun (n : Nat) (_ : Unit) => (n + 1, n)) (fun (m : Nat) (_ : Unit) => (m + 2, m / 2)) 0 0 :=
  identical_of_refinement (fun (n : Nat) (_ : Unit) => (n + 1, n)) _ _ (fun a b => a = b) (fun a b => a = 2 * b)
    (by intro a b _ h; subst h; exact ⟨rfl, rfl⟩) (by intro a b _ h; subst h; refine ⟨by simp, by omega⟩) 0 0 0 rfl rfl

/-! ## instances: the laws at the tables of the store -/

/-- the kv table stays in byte order under upsert / delete, and a key reads back what was written last -/
theorem kv_upsert_sorted (k : Key) (v : String) (l : List (Key × String)) (hs : Sorted lexLt l) :
    Sorted lexLt (ins lexLt k v l) := sorted_ins lexLt_strict k v l hs

example : find [0x62, 0x78] (ins lexLt [0x62, 0x78] "01" [([0x62], "_"), ([0x62, 0x78], "ff"), ([0x63], "_")]) = some "01" :=
  find_ins_self _ _ _

/-- a page of LookupKeysByPrefixCursor is a prefix of the qualifying rows of the range, in order (`spec_page_prefix`) -/
theorem spec_page_prefix (pfx cursor : Key) (limit maxBytes : Nat) (wv : Bool) (exclude : List Key) (s : Store)
    (rnd : Nat) (page : List (Key × String)) (more : Bool)
    (h : keysByPrefixCursor pfx cursor limit maxBytes wv exclude s = some (rnd, page, more)) :
    ∃ lo hi, page <+: (kvRange lo hi s).filter (fun e => lexLt cursor e.1 && !(exclude.contains e.1)) ∧
      (more = true ↔ page.length < ((kvRange lo hi s).filter (fun e => lexLt cursor e.1 && !(exclude.contains e.1))).length) := by
  unfold keysByPrefixCursor at h
  cases hp : prefixIncr pfx with
  | none => simp [hp] at h
  | some hi =>
    simp only [hp, Option.some.injEq, Prod.mk.injEq] at h
    obtain ⟨_, h2, h3⟩ := h
    refine ⟨(if cursor ≠ [] ∧ leKey pfx cursor = true then cursor else pfx), hi, ?_, ?_⟩
    · rw [← h2]; exact collect_prefix _ _ _ _ _ _ _
    · rw [← h2, ← h3]; exact collect_more_iff _ _ _ _ _ _ _

/-- paging through sorted keys with cursor = last key returned yields every key after the start cursor exactly once, in order -/
theorem spec_pages_cover {κ : Type} {lt : κ → κ → Bool} (h : StrictTotal lt) (limit : Nat) (hl : 0 < limit) (keys : List κ)
    (hs : keys.Pairwise (fun a b => lt a b = true)) (cursor : Option κ) :
    (pagesFrom lt limit (keys.length + 1) cursor keys).flatten = keys.filter (after lt cursor) :=
  spec_pages_cover_aux h limit hl keys hs _ cursor (Nat.lt_succ_of_le (List.length_filter_le _ _))

example : (pagesFrom natLt 2 6 (some 1) [1, 2, 3, 5, 8]).flatten = [2, 3, 5, 8] := by decide


/-! ## non-vacuity: concrete instances of the hypotheses used above -/

def exOn (m : Nat) : OnlRow := { m := m, vf := 0, vl := 9, kd := 1 }
def exOff : OnlRow := { m := 0, vf := 0, vl := 0, kd := 0 }
def exHist : Online := [((1, 1), exOn 5), ((1, 3), exOn 6), ((1, 5), exOn 7), ((2, 2), exOn 9), ((2, 4), exOff)]

theorem exHist_sorted : Sorted okLt exHist := by unfold Sorted exHist; decide
-- delete-before 5: address 1 keeps round 3 (newest below 5) and round 5; address 2 loses its offline marker and the older row
example : onlineDelete 5 exHist = [((1, 3), exOn 6), ((1, 5), exOn 7)] := by decide
example : lookupOnline 1 4 exHist = some ((1, 3), exOn 6) := by decide
example : lookupOnline 1 4 (onlineDelete 5 exHist) = some ((1, 3), exOn 6) := by decide
example : IsLatest exHist 1 4 ((1, 3), exOn 6) := lookupOnline_isLatest exHist exHist_sorted 1 4 _ (by decide)
example : IsLatest (onlineDelete 5 exHist) 1 4 ((1, 3), exOn 6) :=
  onlineDelete_latest_kept 5 4 exHist 1 _ (by decide) (lookupOnline_isLatest exHist exHist_sorted 1 4 _ (by decide)) (Or.inr (by decide))
example : lookupOnline 2 4 exHist = some ((2, 4), exOff) ∧ lookupOnline 2 4 (onlineDelete 5 exHist) = none := by decide
example : Sorted natLt (ins natLt 4 "d" [(1, "a"), (4, "x"), (7, "g")]) :=
  sorted_ins natLt_strict _ _ _ (by unfold Sorted; decide)
example : pruneBelow 4 [(1, "a"), (4, "x"), (7, "g")] = [(4, "x"), (7, "g")] := by decide
example : (onlineTop 5 0 1 exHist).map (·.1) = [(1, 5)] ∧ (onlineTop 5 1 5 exHist).map (·.1) = [] := by decide
example : (collect (fun (k : Nat) => decide (2 < k)) (fun _ => 1) 2 0 [1, 2, 3, 5, 8] 0 0) = ([3, 5], true) := by decide

end Props.C47
