/-
C06 — Vote counting emits exactly one threshold per step, for the right value.

All theorems are about `Model.VoteTracker` (a line-for-line model of agreement/voteTracker.go:handle /
overThreshold / genBundle and agreement/bundle.go:makeBundle; the real code is tied to it on every run by the
C06 correspondence harness) and range over ALL histories `vs` of accepted votes (induction over the list).
The specification (`Spec.VoteTracker`) is declarative: first vote of every sender counts, a sender with two
votes for different values is an equivocator and counts once for every value.

Hypotheses (what `unauthenticatedVote.verify` guarantees for accepted votes of one (round, period, step)):
`PosWeights vs` — every weight is positive; `Consistent vs` — the weight is a function of the sender.
-/
import AlgoVerif.Lemmas.VoteTrackerPanic
namespace Props.C06
open AlgoVerif.Model.VoteTracker AlgoVerif.Spec.VoteTracker AlgoVerif.Lemmas.VoteTracker

/-! ### hypotheses restrict to prefixes -/

theorem pos_prefix {l₁ l₂ : List Vote} (h : PosWeights (l₁ ++ l₂)) : PosWeights l₁ :=
  fun a ha => h a (List.mem_append_left _ ha)
theorem cons_prefix {l₁ l₂ : List Vote} (h : Consistent (l₁ ++ l₂)) : Consistent l₁ :=
  fun a ha b hb => h a (List.mem_append_left _ ha) b (List.mem_append_left _ hb)

/-! ### count_refines: the tallies are the declarative counts -/

theorem refines_init : Refines [] {} where
  voters := rfl
  counts := by intro v; rfl
  keys := by simp
  eqMem := by intro s; simp [IsEquiv]
  eqNodup := by simp
  eqCount := rfl
  eqSum := rfl
  eqPairs := by intro e he; cases he

/-- one accepted vote keeps the state equal to what the history prescribes -/
theorem handle_refines {c : Cfg} {vs : List Vote} {t t' : Tracker} {x : Vote} {ev : Event}
    (hR : Refines vs t) (hpos : PosWeights (vs ++ [x])) (hcons : Consistent (vs ++ [x]))
    (h : handle c t x = .ok (t', ev)) : Refines (vs ++ [x]) t' := by
  rcases handle_cases hR hpos hcons h with ⟨rfl, _, hf, he⟩ | ⟨_, _, hR', _, _⟩
  · exact refines_same hR hf he
  · exact hR'

theorem runFrom_refines {c : Cfg} {pre vs : List Vote} {t t' : Tracker} {evs : List Event}
    (hR : Refines pre t) (hpos : PosWeights (pre ++ vs)) (hcons : Consistent (pre ++ vs))
    (h : runFrom c t vs = .ok (t', evs)) : Refines (pre ++ vs) t' := by
  induction vs generalizing pre t evs with
  | nil => simp [runFrom] at h; rw [List.append_nil]; exact h.1 ▸ hR
  | cons x rest ih =>
    unfold runFrom at h
    cases hh : handle c t x with
    | error k => rw [hh] at h; cases h
    | ok r =>
      obtain ⟨t₁, e⟩ := r
      rw [hh] at h
      simp only [] at h
      cases hr : runFrom c t₁ rest with
      | error k => rw [hr] at h; cases h
      | ok r2 =>
        obtain ⟨t₂, es⟩ := r2
        rw [hr] at h
        simp only [Except.ok.injEq, Prod.mk.injEq] at h
        have hassoc : pre ++ x :: rest = (pre ++ [x]) ++ rest := by simp
        rw [hassoc] at hpos hcons ⊢
        have hR₁ := handle_refines hR (pos_prefix hpos) (cons_prefix hcons) hh
        obtain ⟨h1, _⟩ := h
        subst h1
        exact ih hR₁ hpos hcons hr

/-- **count_refines.** After any history accepted without panic the tracker is exactly the declarative state:
`Voters` are the first votes of the non-equivocating senders, `Counts[v]` exists iff `v` has such a voter and then
holds their votes and weight, `Equivocators` are the senders with two different votes, and
`count v = specCount vs v` for every value. -/
theorem count_refines {c : Cfg} {vs : List Vote} {t : Tracker} {evs : List Event}
    (hpos : PosWeights vs) (hcons : Consistent vs) (h : run c vs = .ok (t, evs)) :
    Refines vs t ∧ ∀ v, count t v = specCount vs v := by
  have hR : Refines vs t := by
    have := runFrom_refines (pre := []) refines_init (by simpa using hpos) (by simpa using hcons) h
    simpa using this
  exact ⟨hR, count_refines' hR⟩

/-- the invariant in the words of the design: Voters / Equivocators partition the seen senders -/
theorem partition_senders {vs : List Vote} {t : Tracker} (hR : Refines vs t) (s : Nat) :
    Seen vs s ↔ ((∃ a ∈ t.voters, a.sender = s) ∨ (∃ e ∈ t.equivocators, e.sender = s)) ∧
                ¬ ((∃ a ∈ t.voters, a.sender = s) ∧ (∃ e ∈ t.equivocators, e.sender = s)) := by
  rw [hR.voters, hR.eqMem s]
  constructor
  · intro hs
    by_cases he : IsEquiv vs s
    · refine ⟨Or.inr he, ?_⟩
      rintro ⟨⟨a, ha, has⟩, _⟩
      exact (mem_regular_iff.mp ha).2 (has ▸ he)
    · exact ⟨Or.inl (seen_regular hs he), fun h => he h.2⟩
  · rintro ⟨⟨a, ha, has⟩ | he, _⟩
    · exact ⟨a, mem_of_mem_firsts (mem_regular_iff.mp ha).1, has⟩
    · exact isEquiv_seen he

/-! ### threshold_exact -/

/-- **threshold_exact.** A successful `handle` returns a threshold event iff no value was over the threshold
before the vote and some value is over it after (first crossing); the event then names the unique value that is over,
and has the kind of the step. -/
theorem threshold_exact {c : Cfg} {vs : List Vote} {t t' : Tracker} {x : Vote} {ev : Event}
    (hR : Refines vs t) (hpos : PosWeights (vs ++ [x])) (hcons : Consistent (vs ++ [x]))
    (h : handle c t x = .ok (t', ev)) :
    (ev ≠ .none ↔ (∀ u, ¬ SpecOver c vs u) ∧ ∃ v, SpecOver c (vs ++ [x]) v) ∧
    (∀ k v b, ev = .threshold k v b →
        SpecOver c (vs ++ [x]) v ∧ (∀ u, SpecOver c (vs ++ [x]) u → u = v) ∧ k = eventKind c) := by
  rcases handle_cases hR hpos hcons h with ⟨rfl, rfl, hf, he⟩ | ⟨ob, hob, hR', _, hfin⟩
  · -- history classes unchanged: no event, and "over" did not change
    refine ⟨⟨fun h0 => absurd rfl h0, ?_⟩, fun k v b h0 => by cases h0⟩
    rintro ⟨h1, v, h2⟩
    exact absurd ((specOver_same hf he v).mp h2) (h1 v)
  · have hbefore : ob = none → ∀ u, ¬ SpecOver c vs u := by
      intro h0 u hu
      rw [h0] at hob
      exact overThreshold_none hob u ((overAt_iff_specOver hR u).mpr hu)
    have hbefore' : ∀ w, ob = some w → SpecOver c vs w := by
      intro w h0
      rw [h0] at hob
      exact (overAt_iff_specOver hR w).mp (overThreshold_some hob).1
    rcases hfin with ⟨hemp, rfl⟩ | hfin
    · -- the last regular voter equivocated
      obtain ⟨hno, _⟩ := no_voters_no_over (c := c) hR' hemp
      refine ⟨⟨fun h0 => absurd rfl h0, ?_⟩, fun k v b h0 => by cases h0⟩
      rintro ⟨_, v, h2⟩
      exact absurd h2 (hno v)
    · unfold finish at hfin
      cases hoa : overThreshold c t' with
      | error k => rw [hoa] at hfin; cases hfin
      | ok oa =>
        rw [hoa] at hfin
        cases oa with
        | none =>
          simp only [Except.ok.injEq, Prod.mk.injEq] at hfin
          have hno : ∀ u, ¬ SpecOver c (vs ++ [x]) u := fun u hu =>
            overThreshold_none hoa u ((overAt_iff_specOver hR' u).mpr hu)
          rw [← hfin.2]
          refine ⟨⟨fun h0 => absurd rfl h0, ?_⟩, fun k v b h0 => by cases h0⟩
          rintro ⟨_, v, h2⟩
          exact absurd h2 (hno v)
        | some prop =>
          simp only [] at hfin
          obtain ⟨hover, huniq⟩ := overThreshold_some hoa
          have hover' : SpecOver c (vs ++ [x]) prop := (overAt_iff_specOver hR' prop).mp hover
          have huniq' : ∀ u, SpecOver c (vs ++ [x]) u → u = prop := fun u hu =>
            huniq u ((overAt_iff_specOver hR' u).mpr hu)
          cases hobs : ob with
          | some w =>
            rw [hobs] at hfin
            simp only [Option.isSome_some, if_true, Except.ok.injEq, Prod.mk.injEq] at hfin
            rw [← hfin.2]
            refine ⟨⟨fun h0 => absurd rfl h0, ?_⟩, fun k v b h0 => by cases h0⟩
            rintro ⟨h1, _⟩
            exact absurd (hbefore' w hobs) (h1 w)
          | none =>
            rw [hobs] at hfin
            simp only [Option.isSome_none, Bool.false_eq_true, if_false] at hfin
            cases hg : genBundle c t' (getCounter t'.counts prop) with
            | error k => rw [hg] at hfin; cases hfin
            | ok b =>
              rw [hg] at hfin
              simp only [Except.ok.injEq, Prod.mk.injEq] at hfin
              rw [← hfin.2]
              refine ⟨⟨fun _ => ⟨hbefore hobs, prop, hover'⟩, fun _ h0 => by cases h0⟩, ?_⟩
              intro k v b' h0
              simp only [Event.threshold.injEq] at h0
              obtain ⟨hk, hv, _⟩ := h0
              subst hk; subst hv
              exact ⟨hover', huniq', rfl⟩

/-! ### threshold_once -/

/-- once some value is over the threshold it stays so along accepted votes (monotonicity of "over") -/
theorem over_mono {c : Cfg} {vs : List Vote} {t t' : Tracker} {x : Vote} {ev : Event}
    (hR : Refines vs t) (hpos : PosWeights (vs ++ [x])) (hcons : Consistent (vs ++ [x]))
    (h : handle c t x = .ok (t', ev)) (hover : ∃ u, SpecOver c vs u) : ∃ u, SpecOver c (vs ++ [x]) u := by
  obtain ⟨u, hu⟩ := hover
  rcases handle_cases hR hpos hcons h with ⟨_, _, hf, he⟩ | ⟨_, _, hR', hkind, _⟩
  · exact ⟨u, (specOver_same hf he u).mpr hu⟩
  · rcases hkind with hn | ⟨old, hold, hs, hv, hq⟩
    · exact ⟨u, mono_new hn hu⟩
    · rw [hR'.eqCount] at hq
      exact ⟨u, mono_equivocate (pos_prefix hpos) hold hs hv hq hu⟩

def isThreshold : Event → Bool
  | .none => false
  | .threshold _ _ _ => true

theorem runFrom_once {c : Cfg} {pre vs : List Vote} {t t' : Tracker} {evs : List Event}
    (hR : Refines pre t) (hpos : PosWeights (pre ++ vs)) (hcons : Consistent (pre ++ vs))
    (h : runFrom c t vs = .ok (t', evs)) :
    (evs.filter isThreshold).length ≤ 1 ∧ ((∃ u, SpecOver c pre u) → evs.filter isThreshold = []) := by
  induction vs generalizing pre t evs with
  | nil => simp [runFrom] at h; obtain ⟨_, rfl⟩ := h; simp
  | cons x rest ih =>
    unfold runFrom at h
    cases hh : handle c t x with
    | error k => rw [hh] at h; cases h
    | ok r =>
      obtain ⟨t₁, e⟩ := r
      rw [hh] at h
      simp only [] at h
      cases hr : runFrom c t₁ rest with
      | error k => rw [hr] at h; cases h
      | ok r2 =>
        obtain ⟨t₂, es⟩ := r2
        rw [hr] at h
        simp only [Except.ok.injEq, Prod.mk.injEq] at h
        obtain ⟨h1, h2⟩ := h
        subst h1
        have hassoc : pre ++ x :: rest = (pre ++ [x]) ++ rest := by simp
        rw [hassoc] at hpos hcons
        have hp1 := pos_prefix hpos
        have hc1 := cons_prefix hcons
        have hR₁ := handle_refines hR hp1 hc1 hh
        obtain ⟨ih1, ih2⟩ := ih hR₁ hpos hcons hr
        obtain ⟨hex, hval⟩ := threshold_exact hR hp1 hc1 hh
        rw [← h2]
        cases e with
        | none =>
          simp only [List.filter_cons, isThreshold, Bool.false_eq_true, if_false]
          exact ⟨ih1, fun hov => ih2 (over_mono hR hp1 hc1 hh hov)⟩
        | threshold k v b =>
          have hne : Event.threshold k v b ≠ Event.none := by intro h0; cases h0
          obtain ⟨hnb, _⟩ := hex.mp hne
          have hafter : ∃ u, SpecOver c (pre ++ [x]) u := ⟨v, (hval k v b rfl).1⟩
          simp only [List.filter_cons, isThreshold, if_true, List.length_cons, ih2 hafter, List.length_nil]
          refine ⟨by omega, ?_⟩
          rintro ⟨u, hu⟩
          exact absurd hu (hnb u)

/-- **threshold_once.** Along any history accepted without panic at most one step returns a threshold event. -/
theorem threshold_once {c : Cfg} {vs : List Vote} {t : Tracker} {evs : List Event}
    (hpos : PosWeights vs) (hcons : Consistent vs) (h : run c vs = .ok (t, evs)) :
    (evs.filter isThreshold).length ≤ 1 :=
  (runFrom_once (pre := []) refines_init (by simpa using hpos) (by simpa using hcons) h).1

/-! ### dup_no_weight -/

/-- **dup_no_weight (step).** Re-delivering a vote that is already in the history changes nothing and signals nothing. -/
theorem dup_no_weight {c : Cfg} {vs : List Vote} {t t' : Tracker} {x : Vote} {ev : Event}
    (hR : Refines vs t) (hpos : PosWeights (vs ++ [x])) (hcons : Consistent (vs ++ [x]))
    (hx : x ∈ vs) (h : handle c t x = .ok (t', ev)) : t' = t ∧ ev = .none := by
  rcases handle_cases hR hpos hcons h with ⟨h1, h2, _, _⟩ | ⟨_, _, _, hkind, _⟩
  · exact ⟨h1, h2⟩
  · exfalso
    rcases hkind with hn | ⟨old, hold, hs, hv, _⟩
    · exact hn ⟨x, hx, rfl⟩
    · obtain ⟨holdf, hne⟩ := regular_sub_firsts hold
      exact hv (value_eq_first holdf hx hs.symm hne).symm

/-- a successful step leaves a state on which `overThreshold` does not panic -/
theorem handle_over_ok {c : Cfg} {vs : List Vote} {t t' : Tracker} {x : Vote} {ev : Event}
    (hR : Refines vs t) (hpos : PosWeights (vs ++ [x])) (hcons : Consistent (vs ++ [x]))
    (hprev : ∃ ob, overThreshold c t = .ok ob) (h : handle c t x = .ok (t', ev)) :
    ∃ ob, overThreshold c t' = .ok ob := by
  rcases handle_cases hR hpos hcons h with ⟨rfl, _, _, _⟩ | ⟨_, _, hR', _, hfin⟩
  · exact hprev
  · rcases hfin with ⟨hemp, _⟩ | hfin
    · exact ⟨none, (no_voters_no_over hR' hemp).2⟩
    · unfold finish at hfin
      cases hoa : overThreshold c t' with
      | error k => rw [hoa] at hfin; cases hfin
      | ok oa => exact ⟨oa, rfl⟩

theorem runFrom_over_ok {c : Cfg} {pre vs : List Vote} {t t' : Tracker} {evs : List Event}
    (hR : Refines pre t) (hpos : PosWeights (pre ++ vs)) (hcons : Consistent (pre ++ vs))
    (hprev : ∃ ob, overThreshold c t = .ok ob)
    (h : runFrom c t vs = .ok (t', evs)) : ∃ ob, overThreshold c t' = .ok ob := by
  induction vs generalizing pre t evs with
  | nil => simp [runFrom] at h; obtain ⟨rfl, _⟩ := h; exact hprev
  | cons x rest ih =>
    unfold runFrom at h
    cases hh : handle c t x with
    | error k => rw [hh] at h; cases h
    | ok r =>
      obtain ⟨t₁, e⟩ := r
      rw [hh] at h
      simp only [] at h
      cases hr : runFrom c t₁ rest with
      | error k => rw [hr] at h; cases h
      | ok r2 =>
        obtain ⟨t₂, es⟩ := r2
        rw [hr] at h
        simp only [Except.ok.injEq, Prod.mk.injEq] at h
        obtain ⟨h1, _⟩ := h
        subst h1
        have hassoc : pre ++ x :: rest = (pre ++ [x]) ++ rest := by simp
        rw [hassoc] at hpos hcons
        have hp1 := pos_prefix hpos
        have hc1 := cons_prefix hcons
        exact ih (handle_refines hR hp1 hc1 hh) hpos hcons (handle_over_ok hR hp1 hc1 hprev hh) hr

/-- **dup_no_weight.** After any history accepted without panic, re-delivering any vote of that history is accepted
without panic, leaves all four tallies unchanged and signals nothing. -/
theorem dup_no_weight_run {c : Cfg} {vs : List Vote} {t : Tracker} {evs : List Event} {x : Vote}
    (hpos : PosWeights vs) (hcons : Consistent vs) (h : run c vs = .ok (t, evs)) (hx : x ∈ vs) :
    handle c t x = .ok (t, .none) := by
  obtain ⟨hR, _⟩ := count_refines hpos hcons h
  have hov : ∃ ob, overThreshold c t = .ok ob :=
    runFrom_over_ok (pre := []) refines_init (by simpa using hpos) (by simpa using hcons) ⟨none, rfl⟩ h
  obtain ⟨ob, hob⟩ := hov
  unfold handle
  cases hfe : findEq t.equivocators x.sender with
  | some e => rfl
  | none =>
    have hne : ¬ IsEquiv vs x.sender := (findEq_none_iff hR _).mp hfe
    simp only [hob]
    obtain ⟨old, hold, hso⟩ := seen_regular ⟨x, hx, rfl⟩ hne
    cases hfv : findVoter t.voters x.sender with
    | none =>
      rw [hR.voters] at hfv
      exact absurd hso (findVoter_none hfv old hold)
    | some old' =>
      simp only []
      rw [hR.voters] at hfv
      obtain ⟨hold', hs'⟩ := findVoter_some hfv
      obtain ⟨holdf', hne'⟩ := regular_sub_firsts hold'
      have := value_eq_first holdf' hx hs'.symm hne'
      rw [if_pos this.symm]

/-! ### genBundle_valid -/

/-- what a returned threshold event certifies about the new state -/
theorem handle_threshold_inv {c : Cfg} {vs : List Vote} {t t' : Tracker} {x : Vote} {k v : Nat} {b : Bundle}
    (hR : Refines vs t) (hpos : PosWeights (vs ++ [x])) (hcons : Consistent (vs ++ [x]))
    (h : handle c t x = .ok (t', .threshold k v b)) :
    Refines (vs ++ [x]) t' ∧ SpecOver c (vs ++ [x]) v ∧ genBundle c t' (getCounter t'.counts v) = .ok b := by
  rcases handle_cases hR hpos hcons h with ⟨_, h0, _, _⟩ | ⟨ob, _, hR', _, hfin⟩
  · cases h0
  · rcases hfin with ⟨_, h0⟩ | hfin
    · cases h0
    · refine ⟨hR', ?_⟩
      unfold finish at hfin
      cases hoa : overThreshold c t' with
      | error k => rw [hoa] at hfin; cases hfin
      | ok oa =>
        rw [hoa] at hfin
        cases oa with
        | none => simp at hfin
        | some prop =>
          simp only [] at hfin
          by_cases hb : ob.isSome = true
          · rw [if_pos hb] at hfin; simp at hfin
          · rw [if_neg hb] at hfin
            cases hg : genBundle c t' (getCounter t'.counts prop) with
            | error k => rw [hg] at hfin; cases hfin
            | ok b' =>
              rw [hg] at hfin
              simp only [Except.ok.injEq, Prod.mk.injEq, Event.threshold.injEq, true_and] at hfin
              obtain ⟨_, hv, hbb⟩ := hfin
              subst hv; subst hbb
              exact ⟨(overAt_iff_specOver hR' _).mp (overThreshold_some hoa).1, hg⟩

/-- **genBundle_valid.** The bundle carried by an emitted threshold event passes the structural checks of
`unauthenticatedBundle.verify` for the signalled value: step ≠ propose, size bounds, pairwise distinct senders across
votes and equivocation pairs, every vote an accepted vote for that value, every pair two accepted votes of one sender
for different values, total weight reaching the quorum.  `valid` (single-vote verification) is instantiated with
"was accepted in this step". -/
theorem genBundle_valid {c : Cfg} {vs : List Vote} {t t' : Tracker} {x : Vote} {k v : Nat} {b : Bundle}
    (hR : Refines vs t) (hpos : PosWeights (vs ++ [x])) (hcons : Consistent (vs ++ [x]))
    (h : handle c t x = .ok (t', .threshold k v b)) :
    b.proposal = v ∧ Bundle.verify c (fun a => decide (a ∈ vs ++ [x])) b = true := by
  obtain ⟨hR', hover, hg⟩ := handle_threshold_inv hR hpos hcons h
  rw [getCounter_refines hR'] at hg
  obtain ⟨hU, hreach⟩ := hover
  have hstep : c.step ≠ 0 := reaches_step_ne hreach
  have h0 : reachesQuorum c 0 = false := by
    cases h00 : reachesQuorum c 0 with
    | false => rfl
    | true => rw [genBundle_T0 h00] at hg; cases hg
  have hvalU : ∀ a ∈ votersOf (vs ++ [x]) v, a.value = v := fun a ha => (votersOf_mem.mp ha).2
  have hreach' : reachesQuorum c (wsum (votersOf (vs ++ [x]) v) + (t'.equivocators.map EqVote.weight).sum) = true := by
    rw [hR'.eqSum, hR'.eqCount]; exact hreach
  rw [genBundle_eq hU hvalU h0 hreach'] at hg
  simp only [Except.ok.injEq] at hg
  subst hg
  refine ⟨rfl, ?_⟩
  -- names for the two cuts
  generalize hsv : sortBy voteBefore (votersOf (vs ++ [x]) v) = sv at *
  generalize hse : sortBy eqBefore t'.equivocators = se at *
  have hpv : sv.Perm (votersOf (vs ++ [x]) v) := hsv ▸ sortBy_perm _ _
  have hpe : se.Perm t'.equivocators := hse ▸ sortBy_perm _ _
  have hsub1 := take_subset c Vote.weight 0 sv
  have hsub2 := take_subset c EqVote.weight (takeQuorum c Vote.weight 0 sv).2 se
  have hmem1 : ∀ a ∈ (takeQuorum c Vote.weight 0 sv).1, a ∈ regular (vs ++ [x]) ∧ a.value = v := fun a ha =>
    votersOf_mem.mp (hpv.subset (hsub1.subset ha))
  have hmem2 : ∀ e ∈ (takeQuorum c EqVote.weight (takeQuorum c Vote.weight 0 sv).2 se).1, e ∈ t'.equivocators :=
    fun e he => hpe.subset (hsub2.subset he)
  have hposv : ∀ a ∈ sv, 0 < Vote.weight a := fun a ha =>
    hpos a (mem_of_mem_firsts (regular_sub_firsts (votersOf_mem.mp (hpv.subset ha)).1).1)
  have hpose : ∀ e ∈ se, 0 < EqVote.weight e := fun e he =>
    hpos _ (hR'.eqPairs e (hpe.subset he)).2.1
  unfold Bundle.verify
  simp only [Bool.and_eq_true, Bool.not_eq_true', Bool.or_eq_false_iff, decide_eq_true_eq, decide_eq_false_iff_not,
    List.all_eq_true, bne_iff_ne, ne_eq]
  refine ⟨⟨⟨⟨⟨hstep, ?_⟩, ?_⟩, ?_⟩, ?_⟩, ?_⟩
  · -- size bounds
    have l1 := take_length c Vote.weight hstep 0 sv hposv
    have l2 := take_length c EqVote.weight hstep (takeQuorum c Vote.weight 0 sv).2 se hpose
    have w1 := take_weight c Vote.weight 0 sv
    have g1 := sum_ge_length Vote.weight (takeQuorum c Vote.weight 0 sv).1 (fun a ha => hposv a (hsub1.subset ha))
    have hT : 0 < c.T := by
      unfold reachesQuorum at h0; simp [hstep] at h0; omega
    have hnv : (takeQuorum c Vote.weight 0 sv).1.length ≤ c.T := by
      rcases l1 with l1 | l1
      · rw [l1]; simp
      · omega
    have hne : (takeQuorum c Vote.weight 0 sv).1.length
        + (takeQuorum c EqVote.weight (takeQuorum c Vote.weight 0 sv).2 se).1.length ≤ c.T := by
      rcases l2 with l2 | l2
      · rw [l2]; simpa using hnv
      · omega
    omega
  · -- distinct senders
    rw [nodupNat_iff, List.nodup_append]
    refine ⟨?_, ?_, ?_⟩
    · have h1 : ((votersOf (vs ++ [x]) v).map Vote.sender).Nodup := by
        have : (votersOf (vs ++ [x]) v).Sublist (regular (vs ++ [x])) := List.filter_sublist
        exact (this.map Vote.sender).nodup (regular_nodup _)
      have h2 : (sv.map Vote.sender).Nodup := (hpv.map Vote.sender).nodup_iff.mpr h1
      exact (hsub1.map Vote.sender).nodup h2
    · have h2 : (se.map EqVote.sender).Nodup := (hpe.map EqVote.sender).nodup_iff.mpr hR'.eqNodup
      exact (hsub2.map EqVote.sender).nodup h2
    · intro s hs1 s' hs2 hss
      subst hss
      obtain ⟨a, ha, has⟩ := List.mem_map.mp hs1
      obtain ⟨e, he, hes⟩ := List.mem_map.mp hs2
      have hreg := (hmem1 a ha).1
      have : IsEquiv (vs ++ [x]) a.sender := (hR'.eqMem _).mp ⟨e, hmem2 e he, hes.trans has.symm⟩
      exact (regular_sub_firsts hreg).2 this
  · -- every vote is an accepted vote for v
    intro a ha
    obtain ⟨hreg, hav⟩ := hmem1 a ha
    have : (⟨a.sender, a.weight, v⟩ : Vote) = a := by cases a; simp_all
    rw [this]
    exact mem_of_mem_firsts (regular_sub_firsts hreg).1
  · -- every pair is two accepted votes for different values
    intro e he
    obtain ⟨h1, h2, h3⟩ := hR'.eqPairs e (hmem2 e he)
    exact ⟨⟨h1, h2⟩, h3⟩
  · -- the packed weight reaches the quorum
    have hr := cut_reaches (c := c) (sv := sv) (se := se) (by
      rw [(hpv.map Vote.weight).sum_nat, (hpe.map EqVote.weight).sum_nat]; exact hreach')
    have e2 := take_weight c EqVote.weight (takeQuorum c Vote.weight 0 sv).2 se
    have e1 := take_weight c Vote.weight 0 sv
    have : ((takeQuorum c Vote.weight 0 sv).1.map Vote.weight).sum
        + ((takeQuorum c EqVote.weight (takeQuorum c Vote.weight 0 sv).2 se).1.map EqVote.weight).sum
        = (takeQuorum c EqVote.weight (takeQuorum c Vote.weight 0 sv).2 se).2 := by omega
    rw [this]; exact hr

/-! ### no_panic -/

theorem finish_no_panic {c : Cfg} {vs : List Vote} {t : Tracker} (hR : Refines vs t) (ob : Bool)
    (hT : 0 < c.T) (htot : totalWeight vs + eqWeight vs < 2 * c.T) : ∃ r, finish c t ob = .ok r := by
  unfold finish
  obtain ⟨oa, hoa⟩ := no_two_over hR htot
  rw [hoa]
  cases oa with
  | none => exact ⟨_, rfl⟩
  | some prop =>
    simp only []
    cases ob with
    | true => exact ⟨_, rfl⟩
    | false =>
      simp only [Bool.false_eq_true, if_false]
      obtain ⟨hU, hreach⟩ := (overAt_iff_specOver hR prop).mp (overThreshold_some hoa).1
      have hstep : c.step ≠ 0 := reaches_step_ne hreach
      have h0 : reachesQuorum c 0 = false := by
        unfold reachesQuorum; simp [hstep]; omega
      have hreach' : reachesQuorum c (wsum (votersOf vs prop) + (t.equivocators.map EqVote.weight).sum) = true := by
        rw [hR.eqSum, hR.eqCount]; exact hreach
      rw [getCounter_refines hR, genBundle_eq hU (fun a ha => (votersOf_mem.mp ha).2) h0 hreach']
      exact ⟨_, rfl⟩

theorem handle_no_panic {c : Cfg} {vs : List Vote} {t : Tracker} {x : Vote}
    (hR : Refines vs t) (hpos : PosWeights (vs ++ [x])) (hcons : Consistent (vs ++ [x]))
    (heq : eqWeight (vs ++ [x]) < c.T) (htot : totalWeight (vs ++ [x]) + eqWeight (vs ++ [x]) < 2 * c.T) :
    ∃ r, handle c t x = .ok r := by
  have hT : 0 < c.T := by omega
  have hmono := weights_mono_snoc vs x
  have htot0 : totalWeight vs + eqWeight vs < 2 * c.T := by omega
  have hposvs : PosWeights vs := pos_prefix hpos
  unfold handle
  cases hfe : findEq t.equivocators x.sender with
  | some e => exact ⟨_, rfl⟩
  | none =>
    have hne : ¬ IsEquiv vs x.sender := (findEq_none_iff hR _).mp hfe
    obtain ⟨ob, hob⟩ := no_two_over hR htot0
    simp only [hob]
    cases hfv : findVoter t.voters x.sender with
    | none =>
      simp only []
      have hns : ¬ Seen vs x.sender := by
        intro hseen
        obtain ⟨old, ho, hso⟩ := seen_regular hseen hne
        rw [hR.voters] at hfv
        exact findVoter_none hfv old ho hso
      exact finish_no_panic (refines_insert hR hns) _ hT htot
    | some old =>
      simp only []
      rw [hR.voters] at hfv
      obtain ⟨hold, hs⟩ := findVoter_some hfv
      obtain ⟨holdf, _⟩ := regular_sub_firsts hold
      by_cases hv : old.value = x.value
      · rw [if_pos hv]; exact ⟨_, rfl⟩
      · rw [if_neg hv]
        have hw : x.weight = old.weight :=
          hcons x (by simp) old (List.mem_append_left _ (mem_of_mem_firsts holdf)) hs.symm
        obtain ⟨_, h2⟩ := regular_snoc_equivocate holdf hs hne hv
        have hq : reachesQuorum c (t.eqCount + x.weight) = false := by
          rw [hR.eqCount, hw, ← h2]
          unfold reachesQuorum
          by_cases hs0 : c.step = 0
          · simp [hs0]
          · simp [hs0]; omega
        rw [hq]
        simp only [Bool.false_eq_true, if_false]
        split
        · exact ⟨_, rfl⟩
        · exact finish_no_panic (refines_equivocate hR hposvs hold hs hv hw) _ hT htot

theorem runFrom_no_panic {c : Cfg} {pre vs : List Vote} {t : Tracker}
    (hR : Refines pre t) (hpos : PosWeights (pre ++ vs)) (hcons : Consistent (pre ++ vs))
    (heq : eqWeight (pre ++ vs) < c.T) (htot : totalWeight (pre ++ vs) + eqWeight (pre ++ vs) < 2 * c.T) :
    ∃ r, runFrom c t vs = .ok r := by
  induction vs generalizing pre t with
  | nil => exact ⟨_, rfl⟩
  | cons x rest ih =>
    have hassoc : pre ++ x :: rest = (pre ++ [x]) ++ rest := by simp
    rw [hassoc] at hpos hcons heq htot
    have hmono := weights_mono_append (pre ++ [x]) rest
    have hp1 := pos_prefix hpos
    have hc1 := cons_prefix hcons
    obtain ⟨⟨t₁, e⟩, hh⟩ := handle_no_panic (c := c) hR hp1 hc1 (by omega) (by omega)
    obtain ⟨⟨t₂, es⟩, hr⟩ := ih (handle_refines hR hp1 hc1 hh) hpos hcons heq htot
    unfold runFrom
    rw [hh]
    simp only [hr]
    exact ⟨_, rfl⟩

/-- **no_panic.** If the equivocating weight stays below the threshold and the total committee weight seen plus the
equivocating weight stays below twice the threshold (the protocol's honesty bound), none of the panic sites of
`handle`, `overThreshold`, `genBundle`, `makeBundle` is reachable on any history. -/
theorem no_panic {c : Cfg} {vs : List Vote} (hpos : PosWeights vs) (hcons : Consistent vs)
    (heq : eqWeight vs < c.T) (htot : totalWeight vs + eqWeight vs < 2 * c.T) : ∃ r, run c vs = .ok r :=
  runFrom_no_panic (pre := []) refines_init (by simpa using hpos) (by simpa using hcons) (by simpa using heq) (by simpa using htot)

/-! ### the property in its own words: "signals exactly when some value's weight first reaches the threshold" -/

/-- while the equivocating weight alone is below the threshold, "over" is just "weight reaches the threshold":
the side condition "has a regular voter" of `SpecOver` is implied -/
theorem specOver_iff_reaches {c : Cfg} {vs : List Vote} (heq : reachesQuorum c (eqWeight vs) = false) (v : Nat) :
    SpecOver c vs v ↔ reachesQuorum c (specCount vs v) = true := by
  constructor
  · exact fun h => h.2
  · intro h
    refine ⟨?_, h⟩
    intro h0
    unfold specCount regWeight at h
    rw [h0, wsum_nil, Nat.zero_add, heq] at h
    cases h

/-- a successful step keeps the equivocating weight below the threshold (the `too many equivocators` check) -/
theorem handle_eq_below {c : Cfg} {vs : List Vote} {t t' : Tracker} {x : Vote} {ev : Event}
    (hR : Refines vs t) (hpos : PosWeights (vs ++ [x])) (hcons : Consistent (vs ++ [x]))
    (hprev : reachesQuorum c (eqWeight vs) = false) (h : handle c t x = .ok (t', ev)) :
    reachesQuorum c (eqWeight (vs ++ [x])) = false := by
  rcases handle_cases hR hpos hcons h with ⟨_, _, hf, he⟩ | ⟨_, _, hR', hkind, _⟩
  · unfold eqWeight; rw [(spec_same hf he).2]; exact hprev
  · rcases hkind with hn | ⟨_, _, _, _, hq⟩
    · unfold eqWeight; rw [(regular_snoc_new hn).2]; exact hprev
    · rw [← hR'.eqCount]; exact hq

theorem runFrom_eq_below {c : Cfg} {pre vs : List Vote} {t t' : Tracker} {evs : List Event}
    (hR : Refines pre t) (hpos : PosWeights (pre ++ vs)) (hcons : Consistent (pre ++ vs))
    (hprev : reachesQuorum c (eqWeight pre) = false)
    (h : runFrom c t vs = .ok (t', evs)) : reachesQuorum c (eqWeight (pre ++ vs)) = false := by
  induction vs generalizing pre t evs with
  | nil => rw [List.append_nil]; exact hprev
  | cons x rest ih =>
    unfold runFrom at h
    cases hh : handle c t x with
    | error k => rw [hh] at h; cases h
    | ok r =>
      obtain ⟨t₁, e⟩ := r
      rw [hh] at h
      simp only [] at h
      cases hr : runFrom c t₁ rest with
      | error k => rw [hr] at h; cases h
      | ok r2 =>
        obtain ⟨t₂, es⟩ := r2
        rw [hr] at h
        simp only [Except.ok.injEq, Prod.mk.injEq] at h
        obtain ⟨h1, _⟩ := h
        subst h1
        have hassoc : pre ++ x :: rest = (pre ++ [x]) ++ rest := by simp
        rw [hassoc] at hpos hcons ⊢
        have hp1 := pos_prefix hpos
        have hc1 := cons_prefix hcons
        exact ih (evs := es) (handle_refines hR hp1 hc1 hh) hpos hcons (handle_eq_below hR hp1 hc1 hprev hh) hr

/-- **threshold_exact, run form.** After any history `vs` accepted without panic (threshold not 0), the next accepted
vote `x` produces a threshold event iff no value's weight reached the threshold after `vs` and some value's weight does
after `vs ++ [x]` — weights counting every equivocator once for every value — and the event names that value, which is
the only one whose weight reaches the threshold. -/
theorem threshold_exact_run {c : Cfg} {vs : List Vote} {t t' : Tracker} {evs : List Event} {x : Vote} {ev : Event}
    (hpos : PosWeights (vs ++ [x])) (hcons : Consistent (vs ++ [x])) (h0 : reachesQuorum c 0 = false)
    (hrun : run c vs = .ok (t, evs)) (h : handle c t x = .ok (t', ev)) :
    (ev ≠ .none ↔ (∀ u, reachesQuorum c (specCount vs u) = false) ∧ ∃ v, reachesQuorum c (specCount (vs ++ [x]) v) = true) ∧
    (∀ k v b, ev = .threshold k v b →
        reachesQuorum c (specCount (vs ++ [x]) v) = true ∧
        (∀ u, reachesQuorum c (specCount (vs ++ [x]) u) = true → u = v) ∧ k = eventKind c) := by
  have hp := pos_prefix hpos
  have hc := cons_prefix hcons
  obtain ⟨hR, _⟩ := count_refines hp hc hrun
  have hb1 : reachesQuorum c (eqWeight vs) = false := by
    have := runFrom_eq_below (pre := []) refines_init (by simpa using hp) (by simpa using hc) h0 hrun
    simpa using this
  have hb2 := handle_eq_below hR hpos hcons hb1 h
  obtain ⟨e1, e2⟩ := threshold_exact hR hpos hcons h
  constructor
  · rw [e1]
    constructor
    · rintro ⟨a, v, hv⟩
      refine ⟨fun u => ?_, v, (specOver_iff_reaches hb2 v).mp hv⟩
      cases hr : reachesQuorum c (specCount vs u) with
      | false => rfl
      | true => exact absurd ((specOver_iff_reaches hb1 u).mpr hr) (a u)
    · rintro ⟨a, v, hv⟩
      refine ⟨fun u hu => ?_, v, (specOver_iff_reaches hb2 v).mpr hv⟩
      have := (specOver_iff_reaches hb1 u).mp hu
      rw [a u] at this; cases this
  · intro k v b hev
    obtain ⟨a1, a2, a3⟩ := e2 k v b hev
    exact ⟨(specOver_iff_reaches hb2 v).mp a1, fun u hu => a2 u ((specOver_iff_reaches hb2 u).mpr hu), a3⟩

/-! ### non-vacuity: a concrete history meeting every hypothesis, exercising equivocation, crossing and a duplicate -/

namespace Example
def c : Cfg := ⟨1, 6⟩      -- soft step, threshold 6
/-- 10 and 20 vote 1; 10 equivocates (→ 2); 30 crosses for 1 (3 + 2 regular, 2 wildcard ≥ 6); 30 repeats; 40 votes 2 -/
def h : List Vote := [⟨10, 2, 1⟩, ⟨20, 2, 1⟩, ⟨10, 2, 2⟩, ⟨30, 3, 1⟩, ⟨30, 3, 1⟩, ⟨40, 1, 2⟩]
def pre : List Vote := h.take 3
def x : Vote := ⟨30, 3, 1⟩
def tPre : Tracker :=
  { voters := [⟨20, 2, 1⟩], counts := [(1, ⟨2, [⟨20, 2, 1⟩]⟩)], equivocators := [⟨10, 2, 1, 2⟩], eqCount := 2 }
def bundle : Bundle := { proposal := 1, votes := [⟨30, 3, 1⟩, ⟨20, 2, 1⟩], eqVotes := [⟨10, 2, 1, 2⟩] }

example : PosWeights h := by unfold PosWeights; decide
example : Consistent h := by unfold Consistent; decide
example : eqWeight h < c.T ∧ totalWeight h + eqWeight h < 2 * c.T := by decide
/-- the run succeeds and signals exactly once, at the fourth vote -/
example : (match run c h with | .ok (_, evs) => evs.map isThreshold | .error _ => []) =
    [false, false, false, true, false, false] := by decide
theorem pre_run : run c pre = .ok (tPre, [.none, .none, .none]) := by rfl
theorem pre_pos : PosWeights (pre ++ [x]) := by unfold PosWeights; decide
theorem pre_cons : Consistent (pre ++ [x]) := by unfold Consistent; decide
/-- hypotheses of the step theorems (handle_refines, threshold_exact, over_mono, genBundle_valid) hold at the crossing vote -/
example : Refines pre tPre :=
  (count_refines (pos_prefix pre_pos) (cons_prefix pre_cons) pre_run).1
theorem crossing : (handle c tPre x).toOption.map (·.2) = some (.threshold 1 1 bundle) := by decide
example : Bundle.verify c (fun a => decide (a ∈ pre ++ [x])) bundle = true := by decide
/-- dup_no_weight: the duplicate is in the history -/
example : x ∈ pre ++ [x] := by decide
/-- both panic sites are real: without the honesty bound the model does panic -/
example : run c [⟨1, 3, 1⟩, ⟨2, 3, 1⟩, ⟨1, 3, 2⟩, ⟨2, 3, 2⟩] = .error .tooManyEquivocators := by rfl
example : run c [⟨1, 4, 1⟩, ⟨2, 4, 2⟩, ⟨3, 2, 3⟩, ⟨3, 2, 4⟩] = .error .twoOverThreshold := by rfl
end Example

end Props.C06
