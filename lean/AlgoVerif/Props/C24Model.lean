/-
Hand-written model of `BlockEvaluator.proposerPayout` / the payout test of `validateForPayouts`
(ledger/eval/eval.go), composed ONLY of helpers regenerated from Go (NewPercent, DivvyAlgos, OAddA, OSubA, MinA).
Core Lean only (imported by the gen_fees driver). Tied to the real methods by correspondence (harness ops
`payout`, `vpay` run the real BlockEvaluator methods on a mock ledger).

    incentive, _ := NewPercent(pct).DivvyAlgos(feesCollected)
    total, o     := OAddA(incentive, bonus);  if o → error
    available    := sink.AvailableBalance(proto)   = OSubA(balance, minBalance) or 0 on underflow
    return MinA(total, available)
-/
import AlgoVerif.Gen.Fees
namespace Model.C24
open AlgoVerif.U64 Gen.Basics Gen.Fees

def proposerPayout (pct fees bonus sinkBal sinkMin : Nat) : Option Nat :=
  match NewPercent pct with
  | none => none
  | some f =>
    match Fraction_DivvyAlgos f fees with
    | none => none
    | some (incentive, _) =>
      let (total, o) := OAddA incentive bonus
      if o then none
      else
        let (left, o2) := OSubA sinkBal sinkMin
        let available := if !o2 then left else 0
        some (MinA total available)

/-- `validateForPayouts`: a claimed payout above the computed maximum is rejected (it may be lower) -/
def payoutAccepted (claimed pct fees bonus sinkBal sinkMin : Nat) : Bool :=
  match proposerPayout pct fees bonus sinkBal sinkMin with
  | none => false
  | some maxPayout => decide (claimed ≤ maxPayout)


end Model.C24
