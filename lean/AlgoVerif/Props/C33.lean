/-
C33 — Assembler and disassembler round-trip.

Model: `Model.AsmFormat` (binary instruction format, label resolution with varint-branch relaxation, token-level print/parse,
static check) over the tables regenerated from the tree (`Gen.OpTable`, `Gen.AsmTable`).

Part A (binary format, every environment):
  decode_encode            FULL   decode (encode is) = is for well-formed instructions
  ...
-/
import AlgoVerif.Model.AsmFormat
import AlgoVerif.Lemmas.AsmFormatCanon
namespace Props.C33
open Model.OpTables Model.AsmFormat Lemmas.AsmFormat

/-! ## Part A — the binary format -/

/-- well-formed program for version `v`: every spec is the one the version's table returns for its own bytes, immediates have
    the kinds of the spec and fit their Go types -/
def WFprog (env : Env) (v : Nat) (is : List Instr) : Prop := ∀ i ∈ is, InstrOK (env.look v) i

theorem length_encInstr_le_encRaw {r : RInstr} : ∀ {rs : List RInstr}, r ∈ rs → (encInstr r).length ≤ (encRaw rs).length
  | [], h => by cases h
  | q :: rs, h => by
    rw [encRaw_cons, List.length_append]
    rcases List.mem_cons.mp h with rfl | h
    · omega
    · have := length_encInstr_le_encRaw h; omega

theorem map_fst_pair (is : List Instr) (w : Nat) : (is.map (fun i => (i, w))).map (·.1) = is := by
  induction is with
  | nil => rfl
  | cons a l ih => simp only [List.map_cons, ih]

/-- FULL. Decoding the bytes the assembler's back end produced gives the instructions back (body level; `plen` = length of
    the whole program, used only by the "too many items" guard). -/
theorem decodeBody_encodeBody (env : Env) (v : Nat) (is : List Instr) (bs : Bytes) (plen : Nat)
    (hW : env.initWidth ≤ 9) (hwf : WFprog env v is) (h : encodeBody env v is = .ok bs) (hp : bs.length ≤ plen) :
    decodeBody env v plen bs = .ok is := by
  unfold encodeBody at h
  cases h1 : relax (env.initWidth * is.length + 1) (is.map (fun i => (i, env.initWidth))) with
  | error x => simp [h1] at h
  | ok xs =>
    simp only [h1] at h
    cases h2 : resolve v env.backBranchVersion xs with
    | error x => simp [h2] at h
    | ok rs =>
      simp only [h2, Except.ok.injEq] at h; subst h
      obtain ⟨hfst, hle⟩ := relax_ok _ _ _ h1
      rw [map_fst_pair] at hfst
      have hx : ∀ x ∈ xs, InstrOK (env.look v) x.1 ∧ x.2 ≤ 9 := by
        intro x hx
        refine ⟨hwf x.1 (by rw [← hfst]; exact List.mem_map_of_mem hx), ?_⟩
        have := hle env.initWidth (by intro y hy; obtain ⟨i, _, rfl⟩ := List.mem_map.mp hy; exact Nat.le_refl _) x hx
        omega
      obtain ⟨a, c, d, _⟩ := resolve_ok (look := env.look v) hx h2
      unfold decodeBody
      rw [decRaw_enc (env.look v) plen rs (encRaw rs).length a
        (fun r hr i hi => Nat.le_trans (c r hr i hi) (Nat.le_trans (length_encInstr_le_encRaw hr) hp)) (Nat.le_refl _)]
      simp only [d, hfst]

/-- FULL. `decode (encode is) = is`: the version byte(s) and the instructions of an assembled program are read back exactly. -/
theorem decode_encode (env : Env) (v : Nat) (is : List Instr) (bs : Bytes)
    (hW : env.initWidth ≤ 9) (hv : v ≤ env.logicVersion) (hv64 : v < two64) (hwf : WFprog env v is)
    (h : encode env v is = .ok bs) : decode env bs = .ok (v, is) := by
  unfold encode at h
  cases hb : encodeBody env v is with
  | error x => simp [hb] at h
  | ok body =>
    simp only [hb, Except.ok.injEq] at h; subst h
    unfold decode
    rw [show uvarint v = uvarintW (uvarLen v) v from rfl, readU_uvarintW _ 10 v body (uvOK_min v hv64)]
    simp only []
    rw [if_neg (by omega), List.drop_left' (length_uvarintW _ _)]
    rw [decodeBody_encodeBody env v is body _ hW hwf hb (by simp)]

/-! ### the relaxation of varint branch sizes (findBranchSizes) -/

/-- FULL. The shrinking loop always reaches a fixpoint within the fuel the model gives it (`initWidth * n + 1` rounds): the
    explicit out-of-fuel branch of `relax` is dead. -/
theorem relax_terminates (env : Env) (is : List Instr) :
    ∃ xs, relax (env.initWidth * is.length + 1) (is.map (fun i => (i, env.initWidth))) = .ok xs :=
  relax_fuel _ _ (by rw [listSum_const]; omega)

/-- FULL. At the fixpoint every varint offset fills its placeholder exactly, or the jump is reported too far: label
    resolution never leaves a placeholder wider than the offset written into it (the `placeholder` branch of `resolve` is
    dead, the assembler's output has no stray zero bytes after a branch offset). -/
theorem relax_terminates_and_fits (env : Env) (v : Nat) (is : List Instr) (h1 : ∀ i ∈ is, OneV i) :
    ∃ xs, relax (env.initWidth * is.length + 1) (is.map (fun i => (i, env.initWidth))) = .ok xs ∧
      resolve v env.backBranchVersion xs ≠ .error .placeholder := by
  obtain ⟨xs, hx⟩ := relax_terminates env is
  refine ⟨xs, hx, relax_fits _ _ xs v _ hx ?_⟩
  intro y hy
  have hf := (relax_ok _ _ _ hx).1
  rw [map_fst_pair] at hf
  exact h1 y.1 (by rw [← hf]; exact List.mem_map_of_mem hy)

/-- FULL. `encode` never fails for lack of fuel or with a too-wide placeholder. -/
theorem encode_errors (env : Env) (v : Nat) (is : List Instr) (h1 : ∀ i ∈ is, OneV i) :
    encode env v is ≠ .error .fuel ∧ encode env v is ≠ .error .placeholder := by
  obtain ⟨xs, hx, hp⟩ := relax_terminates_and_fits env v is h1
  unfold encode encodeBody
  rw [hx]
  simp only []
  cases h2 : resolve v env.backBranchVersion xs with
  | ok rs => simp
  | error x =>
    simp only []
    constructor
    · intro h
      simp only [Except.error.injEq] at h
      subst h
      -- resolve never reports `fuel`
      exact resolve_not_fuel xs h2
    · intro h
      simp only [Except.error.injEq] at h
      subst h
      exact hp h2

/-! ### canonical form -/

/-- `bs` is the assembler-shaped encoding of `(v, is)`: minimal version header, minimal varuints and varints in every
    immediate, and the layout (instruction sizes) the relaxation computes for `is` -/
def Canon (env : Env) (bs : Bytes) (v : Nat) (is : List Instr) : Prop :=
  ∃ rs xs, bs = uvarint v ++ encRaw rs ∧ unresolve rs = some is ∧ RawMin rs ∧
    relax (env.initWidth * is.length + 1) (is.map (fun i => (i, env.initWidth))) = .ok xs ∧ rawSizes rs = sizesOf xs

/-- `canonical bs`, read off the decoder's own walk: the version varuint and every varuint / varint immediate are minimal,
    and every varint branch has the width the assembler's relaxation chooses for the decoded program -/
def Canonical (env : Env) (bs : Bytes) : Prop :=
  ∃ v k rs is xs, readU bs 10 = some (v, k) ∧ k = uvarLen v ∧
    decRaw (env.look v) bs.length (bs.drop k).length (bs.drop k) = some rs ∧ unresolve rs = some is ∧ RawMin rs ∧
    relax (env.initWidth * is.length + 1) (is.map (fun i => (i, env.initWidth))) = .ok xs ∧ rawSizes rs = sizesOf xs

/-- FULL. The assembler's output is canonical. -/
theorem encode_canon (env : Env) (v : Nat) (is : List Instr) (bs : Bytes) (hW : env.initWidth ≤ 9)
    (hwf : WFprog env v is) (h : encode env v is = .ok bs) : Canon env bs v is := by
  unfold encode at h
  cases hb : encodeBody env v is with
  | error x => simp [hb] at h
  | ok body =>
    simp only [hb, Except.ok.injEq] at h; subst h
    unfold encodeBody at hb
    cases h1 : relax (env.initWidth * is.length + 1) (is.map (fun i => (i, env.initWidth))) with
    | error x => simp [h1] at hb
    | ok xs =>
      simp only [h1] at hb
      cases h2 : resolve v env.backBranchVersion xs with
      | error x => simp [h2] at hb
      | ok rs =>
        simp only [h2, Except.ok.injEq] at hb; subst hb
        obtain ⟨hfst, hle⟩ := relax_ok _ _ _ h1
        rw [map_fst_pair] at hfst
        have hx : ∀ x ∈ xs, InstrOK (env.look v) x.1 ∧ x.2 ≤ 9 := by
          intro x hx
          refine ⟨hwf x.1 (by rw [← hfst]; exact List.mem_map_of_mem hx), ?_⟩
          have := hle env.initWidth (by intro y hy; obtain ⟨i, _, rfl⟩ := List.mem_map.mp hy; exact Nat.le_refl _) x hx
          omega
        obtain ⟨_, _, d, e⟩ := resolve_ok (look := env.look v) hx h2
        exact ⟨rs, xs, rfl, by rw [d, hfst], resolveGo_min h2, h1, e⟩

/-- FULL. Two canonical encodings of the same program are the same bytes. -/
theorem canon_unique (env : Env) (bs bs' : Bytes) (v : Nat) (is : List Instr)
    (h : Canon env bs v is) (h' : Canon env bs' v is) : bs = bs' := by
  obtain ⟨rs, xs, rfl, u, m, r, sz⟩ := h
  obtain ⟨rs', xs', rfl, u', m', r', sz'⟩ := h'
  rw [r] at r'
  simp only [Except.ok.injEq] at r'
  subst r'
  unfold unresolve at u u'
  rw [sz] at u
  rw [sz'] at u'
  have hS := startsFrom_pairwise 0 (sizesOf xs) (sizesOf_pos xs)
  rw [unresolveGo_inj hS u u' m m']

/-- FULL. `canonical` bytes that decode are the canonical encoding of what they decode to. -/
theorem canonical_canon (env : Env) (bs : Bytes) (v : Nat) (is : List Instr) (hb : IsBytes bs)
    (hl : LookSound (env.look v)) (hc : Canonical env bs) (hd : decode env bs = .ok (v, is)) : Canon env bs v is := by
  obtain ⟨v', k, rs, is', xs, h1, hk, h2, h3, h4, h5, h6⟩ := hc
  unfold decode at hd
  simp only [h1] at hd
  split at hd
  · cases hd
  · unfold decodeBody at hd
    rw [h2] at hd
    simp only [h3, Except.ok.injEq, Prod.mk.injEq] at hd
    obtain ⟨rfl, rfl⟩ := hd
    obtain ⟨e1, _⟩ := readU_inv bs 10 v' k hb h1
    obtain ⟨e2, _⟩ := decRaw_inv (env.look v') hl bs.length _ _ rs (isBytes_drop k hb) h2
    refine ⟨rs, xs, ?_, h3, h4, h5, h6⟩
    rw [e2, show uvarint v' = uvarintW (uvarLen v') v' from rfl, ← hk]
    exact e1

/-- FULL (`encode_decode_canonical`). If canonical bytes decode to `(v, is)` and the assembler's back end accepts `is`, it
    reproduces exactly those bytes. (`encode_total_on_checked`, below, is the statement that it does accept programs that
    pass the static check; it is not proved.) -/
theorem encode_decode_canonical (env : Env) (bs bs' : Bytes) (v : Nat) (is : List Instr) (hW : env.initWidth ≤ 9)
    (hb : IsBytes bs) (hl : LookSound (env.look v)) (hreg : ∀ op next s, env.look v op next = some s → Reg (env.look v) s)
    (hc : Canonical env bs) (hd : decode env bs = .ok (v, is)) (he : encode env v is = .ok bs') : bs' = bs := by
  have hcan := canonical_canon env bs v is hb hl hc hd
  -- the decoded program is well formed
  have hwf : WFprog env v is := by
    obtain ⟨v', k, rs, is', xs, h1, hk, h2, h3, h4, h5, h6⟩ := hc
    unfold decode at hd
    simp only [h1] at hd
    split at hd
    · cases hd
    · unfold decodeBody at hd
      rw [h2] at hd
      simp only [h3, Except.ok.injEq, Prod.mk.injEq] at hd
      obtain ⟨rfl, rfl⟩ := hd
      obtain ⟨_, oks⟩ := decRaw_regs (env.look v') hl bs.length _ _ rs (isBytes_drop k hb) h2
      unfold unresolve at h3
      exact decoded_instrsOK (fun r hr => ⟨(oks r hr).2.elim (fun next hn => hreg _ next _ hn), (oks r hr).1⟩) h4 h3
  exact canon_unique env bs' bs v is (encode_canon env v is bs' hW hwf he) hcan

end Props.C33
