/-
C33 — Assembler and disassembler round-trip (work in progress: first theorems).
-/
import AlgoVerif.Model.AsmFormat
namespace Props.C33
open Model.OpTables Model.AsmFormat

/-- reading back a varuint written in exactly `w` bytes -/
theorem readU_uvarintW : ∀ (w r n : Nat) (rest : Bytes), uvOK r w n = true →
    readU (uvarintW w n ++ rest) r = some (n, w)
  | 0, r, n, rest, h => by simp [uvOK] at h
  | 1, r, n, rest, h => by
    simp only [uvOK, Bool.and_eq_true, Bool.or_eq_true, decide_eq_true_eq] at h
    obtain ⟨⟨h1, h2⟩, h3⟩ := h
    have hm : n % 128 = n := Nat.mod_eq_of_lt h2
    simp only [uvarintW, List.cons_append, List.nil_append, readU, hm]
    rw [if_neg (by omega), if_pos h2]
    rw [if_neg (by omega)]
  | w + 2, r, n, rest, h => by
    simp only [uvOK, Bool.and_eq_true, decide_eq_true_eq] at h
    obtain ⟨h1, h2⟩ := h
    have ih := readU_uvarintW (w + 1) (r - 1) (n / 128) rest h2
    simp only [uvarintW, List.cons_append, readU]
    rw [if_neg (by omega), if_neg (by omega), ih]
    simp only []
    congr 2
    omega

example : uvOK 10 2 300 = true := by decide
example : readU (uvarintW 2 300 ++ [7]) 10 = some (300, 2) := readU_uvarintW 2 10 300 [7] (by decide)

end Props.C33
