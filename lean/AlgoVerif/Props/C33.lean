/-
C33 — Assembler and disassembler round-trip.

Model: `Model.AsmFormat` — the binary instruction format (immediates typed by the opcode table: byte, int8, 2-byte label,
varuint, bytes, int / byte constant blocks, label lists, varint label), label resolution with the varint-branch relaxation
of findBranchSizes, the token-level disassembler (`printProg`, label naming as Disassemble) and assembler front end
(`parseProg`: statements, labels, getSpec with pseudo-op dispatch, the asm functions), and the static check — all over the
tables regenerated from the tree (`Gen.OpTable`, `Gen.AsmTable`).

Part A  binary format, EVERY environment (table, constants):
  decode_encode               FULL     decode (encode is) = (v, is) for well-formed programs (`WFprog`)
  decodeBody_encodeBody       FULL     the same without the version header
  relax_terminates            FULL     the shrinking loop reaches its fixpoint within the model's fuel
  relax_terminates_and_fits   FULL     … and at the fixpoint no varint offset is narrower than its placeholder
  encode_errors               FULL     `encode` never fails with `fuel` / `placeholder`
  layout_fixpoint             FULL     the sizes `encode` chose are a fixpoint of the shrinking rule and every varint branch
                                       immediate has exactly the varint length of its displacement
  encode_canon                FULL     the assembler's output is canonical (`Canon`: minimal header, minimal varuints and
                                       varints, the layout the relaxation chooses)
  canon_unique                FULL     two canonical encodings of one program are equal
  canonical_canon             FULL     `Canonical bs` (read off the decoder's walk) + decode bs = (v, is) ⇒ Canon bs v is
  encode_decode_canonical     FULL     decode bs = (v, is), canonical bs, encode is = ok bs' ⇒ bs' = bs
  encode_total_canonical      FULL     decode bs = (v, is), canonical bs, the version rules of resolveLabels hold for `is`
                                       (`VersionRules`: no branch to the end in v0/v1, no back reference before v4) ⇒
                                       encode is = ok bs: the back end ACCEPTS what canonical bytes decode to.
                                       Left open (`CheckedObeysRulesStatement`): that passing the static check implies
                                       `VersionRules` (an inversion of the check's walk).
  assembled_checks            FULL     second sentence of the property: what the front end accepts assembles to a program that
                                       passes `staticCheck` in every run mode allowing all its opcodes, for tables whose Size
                                       column is the emitted length and whose field-cost immediates have a cost
  branch_targets_resolve      FULL     assembled offsets fit their encodings and land on instruction starts / the end
Part B  token level, every environment satisfying the finite table facts `TokFacts`:
  parsed_wf                   FULL     what the front end accepts is well formed (Part A applies)
  asm_dis_asm, asm_dis_asm_src   FULL     asm (dis (asm src)) = asm src on tokens, incl. that the disassembly exists
  dis_asm_dis                 FULL     the printed statements are a fixpoint of dis ∘ asm
Part C  today's tables (finite checks by kernel evaluation over Gen.OpTable / Gen.AsmTable):
  genFacts                    FULL     `TokFacts genEnv v` for every version v ≤ LogicVersion
  gen_asm_dis_asm             FULL     asm ∘ dis ∘ asm = asm for today's assembler tables
  gen_encode_decode_canonical FULL     as encode_decode_canonical, table hypotheses discharged
  gen_assembled_checks        FULL     assembled_checks for today's tables, both table hypotheses discharged by finite checks
Not proved (statement kept below): `CheckedObeysRulesStatement`. `staticCheck` itself is tied to the real
CheckSignature / CheckContract by the correspondence on every run (not by proof).
Scope of Part B: sources at TOKEN level without the pseudo-ops int / byte / addr / method (the model answers `unmodelled`
for them, so `asm … = ok` excludes them; in particular no mixing of pseudo-op constants with an explicit intc / bytec N ≥ 4,
the recorded known finding), under the constant-definedness rule "any block seen" (`TokFacts.rule`).
-/
import AlgoVerif.Model.AsmFormat
import AlgoVerif.Lemmas.AsmFormatTable
import AlgoVerif.Lemmas.AsmFormatCheck
import AlgoVerif.Lemmas.AsmFormatTotal
namespace Props.C33
open Model.OpTables Model.AsmFormat Lemmas.AsmFormat

/-! ## Part A — the binary format -/

/-- well-formed program for version `v`: every spec is the one the version's table returns for its own bytes, immediates have
    the kinds of the spec and fit their Go types -/
def WFprog (env : Env) (v : Nat) (is : List Instr) : Prop := ∀ i ∈ is, InstrOK (env.look v) i

theorem length_encInstr_le_encRaw {r : RInstr} : ∀ {rs : List RInstr}, r ∈ rs → (encInstr r).length ≤ (encRaw rs).length
  | [], h => by cases h
  | q :: rs, h => by
    rw [encRaw_cons, List.length_append]
    rcases List.mem_cons.mp h with rfl | h
    · omega
    · have := length_encInstr_le_encRaw h; omega

theorem map_fst_pair (is : List Instr) (w : Nat) : (is.map (fun i => (i, w))).map (·.1) = is := by
  induction is with
  | nil => rfl
  | cons a l ih => simp only [List.map_cons, ih]

/-- FULL. Decoding the bytes the assembler's back end produced gives the instructions back (body level; `plen` = length of
    the whole program, used only by the "too many items" guard). -/
theorem decodeBody_encodeBody (env : Env) (v : Nat) (is : List Instr) (bs : Bytes) (plen : Nat)
    (hW : env.initWidth ≤ 9) (hwf : WFprog env v is) (h : encodeBody env v is = .ok bs) (hp : bs.length ≤ plen) :
    decodeBody env v plen bs = .ok is := by
  unfold encodeBody at h
  cases h1 : relax (env.initWidth * is.length + 1) (is.map (fun i => (i, env.initWidth))) with
  | error x => simp [h1] at h
  | ok xs =>
    simp only [h1] at h
    cases h2 : resolve v env.backBranchVersion xs with
    | error x => simp [h2] at h
    | ok rs =>
      simp only [h2, Except.ok.injEq] at h; subst h
      obtain ⟨hfst, hle⟩ := relax_ok _ _ _ h1
      rw [map_fst_pair] at hfst
      have hx : ∀ x ∈ xs, InstrOK (env.look v) x.1 ∧ x.2 ≤ 9 := by
        intro x hx
        refine ⟨hwf x.1 (by rw [← hfst]; exact List.mem_map_of_mem hx), ?_⟩
        have := hle env.initWidth (by intro y hy; obtain ⟨i, _, rfl⟩ := List.mem_map.mp hy; exact Nat.le_refl _) x hx
        omega
      obtain ⟨a, c, d, _⟩ := resolve_ok (look := env.look v) hx h2
      unfold decodeBody
      rw [decRaw_enc (env.look v) plen rs (encRaw rs).length a
        (fun r hr i hi => Nat.le_trans (c r hr i hi) (Nat.le_trans (length_encInstr_le_encRaw hr) hp)) (Nat.le_refl _)]
      simp only [d, hfst]

/-- FULL. `decode (encode is) = is`: the version byte(s) and the instructions of an assembled program are read back exactly. -/
theorem decode_encode (env : Env) (v : Nat) (is : List Instr) (bs : Bytes)
    (hW : env.initWidth ≤ 9) (hv : v ≤ env.logicVersion) (hv64 : v < two64) (hwf : WFprog env v is)
    (h : encode env v is = .ok bs) : decode env bs = .ok (v, is) := by
  unfold encode at h
  cases hb : encodeBody env v is with
  | error x => simp [hb] at h
  | ok body =>
    simp only [hb, Except.ok.injEq] at h; subst h
    unfold decode
    rw [show uvarint v = uvarintW (uvarLen v) v from rfl, readU_uvarintW _ 10 v body (uvOK_min v hv64)]
    simp only []
    rw [if_neg (by omega), List.drop_left' (length_uvarintW _ _)]
    rw [decodeBody_encodeBody env v is body _ hW hwf hb (by simp)]

/-! ### the relaxation of varint branch sizes (findBranchSizes) -/

/-- FULL. The shrinking loop always reaches a fixpoint within the fuel the model gives it (`initWidth * n + 1` rounds): the
    explicit out-of-fuel branch of `relax` is dead. -/
theorem relax_terminates (env : Env) (is : List Instr) :
    ∃ xs, relax (env.initWidth * is.length + 1) (is.map (fun i => (i, env.initWidth))) = .ok xs :=
  relax_fuel _ _ (by rw [listSum_const]; omega)

/-- FULL. At the fixpoint every varint offset fills its placeholder exactly, or the jump is reported too far: label
    resolution never leaves a placeholder wider than the offset written into it (the `placeholder` branch of `resolve` is
    dead, the assembler's output has no stray zero bytes after a branch offset). -/
theorem relax_terminates_and_fits (env : Env) (v : Nat) (is : List Instr) (h1 : ∀ i ∈ is, OneV i) :
    ∃ xs, relax (env.initWidth * is.length + 1) (is.map (fun i => (i, env.initWidth))) = .ok xs ∧
      resolve v env.backBranchVersion xs ≠ .error .placeholder := by
  obtain ⟨xs, hx⟩ := relax_terminates env is
  refine ⟨xs, hx, relax_fits _ _ xs v _ hx ?_⟩
  intro y hy
  have hf := (relax_ok _ _ _ hx).1
  rw [map_fst_pair] at hf
  exact h1 y.1 (by rw [← hf]; exact List.mem_map_of_mem hy)

/-- FULL. `encode` never fails for lack of fuel or with a too-wide placeholder. -/
theorem encode_errors (env : Env) (v : Nat) (is : List Instr) (h1 : ∀ i ∈ is, OneV i) :
    encode env v is ≠ .error .fuel ∧ encode env v is ≠ .error .placeholder := by
  obtain ⟨xs, hx, hp⟩ := relax_terminates_and_fits env v is h1
  unfold encode encodeBody
  rw [hx]
  simp only []
  cases h2 : resolve v env.backBranchVersion xs with
  | ok rs => simp
  | error x =>
    simp only []
    constructor
    · intro h
      simp only [Except.error.injEq] at h
      subst h
      -- resolve never reports `fuel`
      exact resolve_not_fuel xs h2
    · intro h
      simp only [Except.error.injEq] at h
      subst h
      exact hp h2

/-- FULL (`layout_fixpoint`). Whenever the back end produces bytes, the branch sizes it chose are a fixpoint of the
    shrinking rule — one more round of findBranchSizes changes no placeholder — and every varint branch immediate of the
    raw program is written in exactly the varint length of its displacement under those sizes (no placeholder is left wider
    than the offset, so no stray byte follows a branch). A loop that stops before the fixpoint is not this model. -/
theorem layout_fixpoint (env : Env) (v : Nat) (is : List Instr) (bs : Bytes) (h : encodeBody env v is = .ok bs) :
    ∃ xs rs, relax (env.initWidth * is.length + 1) (is.map (fun i => (i, env.initWidth))) = .ok xs ∧
      widthsOf (relaxStep xs) = widthsOf xs ∧ resolve v env.backBranchVersion xs = .ok rs ∧ bs = encRaw rs ∧
      ∀ r ∈ rs, ∀ im ∈ r.imms, ∀ o w, im = RImm.voff o w → w = needed o := by
  unfold encodeBody at h
  cases h1 : relax (env.initWidth * is.length + 1) (is.map (fun i => (i, env.initWidth))) with
  | error x => simp [h1] at h
  | ok xs =>
    simp only [h1] at h
    cases h2 : resolve v env.backBranchVersion xs with
    | error x => simp [h2] at h
    | ok rs =>
      simp only [h2, Except.ok.injEq] at h; subst h
      refine ⟨xs, rs, rfl, relax_fix _ _ _ h1, h2, rfl, ?_⟩
      intro r hr im him o w e
      have := resolveGo_min h2 r hr im him
      subst e
      exact this

/-! ### canonical form -/

/-- `bs` is the assembler-shaped encoding of `(v, is)`: minimal version header, minimal varuints and varints in every
    immediate, and the layout (instruction sizes) the relaxation computes for `is` -/
def Canon (env : Env) (bs : Bytes) (v : Nat) (is : List Instr) : Prop :=
  ∃ rs xs, bs = uvarint v ++ encRaw rs ∧ unresolve rs = some is ∧ RawMin rs ∧
    relax (env.initWidth * is.length + 1) (is.map (fun i => (i, env.initWidth))) = .ok xs ∧ rawSizes rs = sizesOf xs

/-- `canonical bs`, read off the decoder's own walk: the version varuint and every varuint / varint immediate are minimal,
    and every varint branch has the width the assembler's relaxation chooses for the decoded program -/
def Canonical (env : Env) (bs : Bytes) : Prop :=
  ∃ v k rs is xs, readU bs 10 = some (v, k) ∧ k = uvarLen v ∧
    decRaw (env.look v) bs.length (bs.drop k).length (bs.drop k) = some rs ∧ unresolve rs = some is ∧ RawMin rs ∧
    relax (env.initWidth * is.length + 1) (is.map (fun i => (i, env.initWidth))) = .ok xs ∧ rawSizes rs = sizesOf xs

/-- FULL. The assembler's output is canonical. -/
theorem encode_canon (env : Env) (v : Nat) (is : List Instr) (bs : Bytes) (hW : env.initWidth ≤ 9)
    (hwf : WFprog env v is) (h : encode env v is = .ok bs) : Canon env bs v is := by
  unfold encode at h
  cases hb : encodeBody env v is with
  | error x => simp [hb] at h
  | ok body =>
    simp only [hb, Except.ok.injEq] at h; subst h
    unfold encodeBody at hb
    cases h1 : relax (env.initWidth * is.length + 1) (is.map (fun i => (i, env.initWidth))) with
    | error x => simp [h1] at hb
    | ok xs =>
      simp only [h1] at hb
      cases h2 : resolve v env.backBranchVersion xs with
      | error x => simp [h2] at hb
      | ok rs =>
        simp only [h2, Except.ok.injEq] at hb; subst hb
        obtain ⟨hfst, hle⟩ := relax_ok _ _ _ h1
        rw [map_fst_pair] at hfst
        have hx : ∀ x ∈ xs, InstrOK (env.look v) x.1 ∧ x.2 ≤ 9 := by
          intro x hx
          refine ⟨hwf x.1 (by rw [← hfst]; exact List.mem_map_of_mem hx), ?_⟩
          have := hle env.initWidth (by intro y hy; obtain ⟨i, _, rfl⟩ := List.mem_map.mp hy; exact Nat.le_refl _) x hx
          omega
        obtain ⟨_, _, d, e⟩ := resolve_ok (look := env.look v) hx h2
        exact ⟨rs, xs, rfl, by rw [d, hfst], resolveGo_min h2, h1, e⟩

/-- FULL. Two canonical encodings of the same program are the same bytes. -/
theorem canon_unique (env : Env) (bs bs' : Bytes) (v : Nat) (is : List Instr)
    (h : Canon env bs v is) (h' : Canon env bs' v is) : bs = bs' := by
  obtain ⟨rs, xs, rfl, u, m, r, sz⟩ := h
  obtain ⟨rs', xs', rfl, u', m', r', sz'⟩ := h'
  rw [r] at r'
  simp only [Except.ok.injEq] at r'
  subst r'
  unfold unresolve at u u'
  rw [sz] at u
  rw [sz'] at u'
  have hS := startsFrom_pairwise 0 (sizesOf xs) (sizesOf_pos xs)
  rw [unresolveGo_inj hS u u' m m']

/-- FULL. `canonical` bytes that decode are the canonical encoding of what they decode to. -/
theorem canonical_canon (env : Env) (bs : Bytes) (v : Nat) (is : List Instr) (hb : IsBytes bs)
    (hl : LookSound (env.look v)) (hc : Canonical env bs) (hd : decode env bs = .ok (v, is)) : Canon env bs v is := by
  obtain ⟨v', k, rs, is', xs, h1, hk, h2, h3, h4, h5, h6⟩ := hc
  unfold decode at hd
  simp only [h1] at hd
  split at hd
  · cases hd
  · unfold decodeBody at hd
    rw [h2] at hd
    simp only [h3, Except.ok.injEq, Prod.mk.injEq] at hd
    obtain ⟨rfl, rfl⟩ := hd
    obtain ⟨e1, _⟩ := readU_inv bs 10 v' k hb h1
    obtain ⟨e2, _⟩ := decRaw_inv (env.look v') hl bs.length _ _ rs (isBytes_drop k hb) h2
    refine ⟨rs, xs, ?_, h3, h4, h5, h6⟩
    rw [e2, show uvarint v' = uvarintW (uvarLen v') v' from rfl, ← hk]
    exact e1

/-- FULL (`encode_decode_canonical`). If canonical bytes decode to `(v, is)` and the assembler's back end accepts `is`, it
    reproduces exactly those bytes. (`encode_total_on_checked`, below, is the statement that it does accept programs that
    pass the static check; it is not proved.) -/
theorem encode_decode_canonical (env : Env) (bs bs' : Bytes) (v : Nat) (is : List Instr) (hW : env.initWidth ≤ 9)
    (hb : IsBytes bs) (hl : LookSound (env.look v)) (hreg : ∀ op next s, env.look v op next = some s → Reg (env.look v) s)
    (hc : Canonical env bs) (hd : decode env bs = .ok (v, is)) (he : encode env v is = .ok bs') : bs' = bs := by
  have hcan := canonical_canon env bs v is hb hl hc hd
  -- the decoded program is well formed
  have hwf : WFprog env v is := by
    obtain ⟨v', k, rs, is', xs, h1, hk, h2, h3, h4, h5, h6⟩ := hc
    unfold decode at hd
    simp only [h1] at hd
    split at hd
    · cases hd
    · unfold decodeBody at hd
      rw [h2] at hd
      simp only [h3, Except.ok.injEq, Prod.mk.injEq] at hd
      obtain ⟨rfl, rfl⟩ := hd
      obtain ⟨_, oks⟩ := decRaw_regs (env.look v') hl bs.length _ _ rs (isBytes_drop k hb) h2
      unfold unresolve at h3
      exact decoded_instrsOK (fun r hr => ⟨(oks r hr).2.elim (fun next hn => hreg _ next _ hn), (oks r hr).1⟩) h4 h3
  exact canon_unique env bs' bs v is (encode_canon env v is bs' hW hwf he) hcan

/-- the version rules of resolveLabels, on label indices: no branch to the end of the program in v0/v1, no back reference
    (target at or before the referring instruction) before the back-branch version -/
def VersionRules (v bb : Nat) (is : List Instr) : Prop :=
  ∀ (k : Nat) (i : Instr), is[k]? = some i → ∀ t ∈ i.imms.flatMap immTargets,
    ¬ (v ≤ 1 ∧ t = is.length) ∧ ¬ (v < bb ∧ t ≤ k)

/-- a varint label is the only immediate of its instruction (all branch ops) -/
def BranchShape (is : List Instr) : Prop :=
  ∀ i ∈ is, ∀ t, Model.AsmFormat.Imm.vlabel t ∈ i.imms → i.imms = [.vlabel t]

/-- FULL (`encode_total_canonical`). The assembler's back end ACCEPTS what canonical bytes decode to, and reproduces
    exactly those bytes, whenever the decoded program obeys the version rules of resolveLabels: with this,
    `encode (decode bs) = bs` for canonical `bs` needs no assumption about `encode` succeeding. -/
theorem encode_total_canonical (env : Env) (bs : Bytes) (v : Nat) (is : List Instr) (hb : IsBytes bs)
    (hl : LookSound (env.look v)) (hc : Canonical env bs) (hd : decode env bs = .ok (v, is))
    (hrules : VersionRules v env.backBranchVersion is) (hshape : BranchShape is) : encode env v is = .ok bs := by
  obtain ⟨v', k, rs, is', xs, h1, hk, h2, h3, h4, h5, h6⟩ := hc
  unfold decode at hd
  simp only [h1] at hd
  split at hd
  · cases hd
  · unfold decodeBody at hd
    rw [h2] at hd
    simp only [h3, Except.ok.injEq, Prod.mk.injEq] at hd
    obtain ⟨rfl, rfl⟩ := hd
    obtain ⟨e1, _⟩ := readU_inv bs 10 v' k hb h1
    obtain ⟨e2, oks⟩ := decRaw_regs (env.look v') hl bs.length _ _ rs (isBytes_drop k hb) h2
    obtain ⟨hfst, _⟩ := relax_ok _ _ _ h5
    rw [map_fst_pair] at hfst
    unfold unresolve at h3
    have hS := startsFrom_pairwise 0 (rawSizes rs) (by
      intro s hs
      obtain ⟨q, _, rfl⟩ := List.mem_map.mp hs
      exact length_encInstr_pos q)
    have hlen1 : rs.length = xs.length := by
      have := congrArg List.length h6
      simpa [rawSizes, sizesOf] using this
    have hlen2 : xs.length = is'.length := by rw [← hfst]; simp
    have hres : resolve v' env.backBranchVersion xs = .ok rs := by
      unfold resolve
      have hSeq : startsOf xs = startsFrom 0 (rawSizes rs) := by unfold startsOf; rw [h6]
      rw [hSeq, startsFrom_last, Nat.zero_add]
      apply resolveGo_total hS (by rw [hfst]; exact h3) (fun r hr => (oks r hr).1) h4
      · -- version rules
        intro j i hi t ht d e he hdt
        rw [hfst] at hi
        obtain ⟨r1, r2⟩ := hrules j i hi t ht
        simp only [Nat.zero_add] at he
        have hn := startsFrom_get (rawSizes rs) 0 (rawSizes rs).length (Nat.le_refl _)
        rw [List.take_length, Nat.zero_add] at hn
        obtain ⟨htl, htd⟩ := getElem?_some_iff.mp hdt
        refine ⟨?_, ?_⟩
        · rintro ⟨hv1, hdtot⟩
          apply r1
          refine ⟨hv1, ?_⟩
          obtain ⟨hnl, hnd⟩ := getElem?_some_iff.mp hn
          have : t = (rawSizes rs).length := by
            rcases Nat.lt_trichotomy t (rawSizes rs).length with h' | h' | h'
            · have := pairwise_lt_get hS htl hnl h'; omega
            · exact h'
            · have := pairwise_lt_get hS hnl htl h'; omega
          rw [this]; simp [rawSizes]; omega
        · rintro ⟨hvb, hde⟩
          apply r2
          refine ⟨hvb, ?_⟩
          obtain ⟨hel, hed⟩ := getElem?_some_iff.mp he
          have := pairwise_lt_idx hS htl hel (by rw [htd, hed]; exact hde)
          omega
      · -- placeholder widths
        intro j r x hr hx o w' hmem
        obtain ⟨i, p, e, hi, hspec, hp, he, hun⟩ := unresolveGo_rel h3 j r hr
        obtain ⟨hlen, hvl⟩ := unresolveImms_voff hun
        obtain ⟨t, ht⟩ := hvl o w' hmem
        have him : i ∈ is' := List.mem_of_getElem? hi
        have hsh := hshape i him t ht
        have hx1 : x.1 = i := by
          have : (xs.map (·.1))[j]? = some x.1 := by simp [hx]
          rw [hfst, hi] at this
          simp only [Option.some.injEq] at this
          exact this.symm
        have hr1 : r.imms = [.voff o w'] := by
          rw [hsh] at hlen
          match hri : r.imms, hlen, hmem with
          | [q], _, hmem' =>
            simp only [List.mem_singleton] at hmem'
            rw [hmem']
        have hsz : (rawSizes rs)[j]? = (sizesOf xs)[j]? := by rw [h6]
        simp only [rawSizes, sizesOf, List.getElem?_map, hr, hx, Option.map_some, Option.some.injEq] at hsz
        rw [length_encInstr, hr1, hx1] at hsz
        unfold instrSize at hsz
        rw [hsh, ← hspec] at hsz
        simp only [List.flatMap_cons, List.flatMap_nil, List.append_nil, encImm, length_uvarintW, List.map_cons,
          List.map_nil, immSize, listSum] at hsz
        omega
    unfold encode encodeBody
    rw [h5]
    simp only [hres]
    rw [e2, show uvarint v' = uvarintW (uvarLen v') v' from rfl, ← hk, ← e1]

/-- NOT PROVED (what is left of the second half of `encode_decode_canonical`): a program that passes the static check obeys
    the version rules of resolveLabels (an inversion of the check's walk; needs the table fact that label-list and
    varint-label ops exist only from the back-branch version on). With it, `encode_total_canonical` gives
    `encode (decode bs) = bs` for every canonical program that passes the static check. -/
def CheckedObeysRulesStatement (env : Env) : Prop :=
  ∀ bs v is mode minv, decode env bs = .ok (v, is) → staticCheck env mode minv bs = .ok →
    VersionRules v env.backBranchVersion is

/-! ## Part B — the token level: asm ∘ dis ∘ asm = asm -/

/-- the table facts the token-level theorems use; all are finite checks, proved for today's tables in `genFacts` -/
structure TokFacts (env : Env) (v : Nat) : Prop where
  width : env.initWidth ≤ 9
  lv64 : env.logicVersion < two64
  maxStr : env.maxStringSize < two64
  pseudo : PseudoOK env
  groups : GroupIdx env
  rule : env.constRule = 2
  names : ∀ name s, byName env v name = some s → Reg (env.look v) s

/-- programs the front end produces are well formed in the sense of Part A -/
theorem parsed_wf (env : Env) (v : Nat) (src : List Stmt) (is : List Instr) (f : TokFacts env v)
    (hp : parseProg env v src = .ok is) (hs : SmallProg is) : WFprog env v is := by
  obtain ⟨⟨hi, _, _⟩, _⟩ := parseProg_inv f.groups f.rule hp
  intro i hmem
  obtain ⟨hb, _, him, _, _⟩ := hi i hmem
  exact ⟨f.names _ _ hb, immsOK_of_inv f.maxStr _ _ him (hs i hmem)⟩

/-- FULL (token level, `asm_dis_asm`). A token-level source the assembler accepts assembles to bytes whose disassembly
    exists and re-assembles to exactly the same bytes:  asm (dis (asm src)) = asm src.
    (`parseProg` then `encode` is `asm`; the two steps are named so that `SmallProg` — every list immediate has fewer than
    2^64 items — can be stated about the parsed program.) -/
theorem asm_dis_asm (env : Env) (v : Nat) (src : List Stmt) (is : List Instr) (bs : Bytes) (f : TokFacts env v)
    (hp : parseProg env v src = .ok is) (hs : SmallProg is) (he : encode env v is = .ok bs) :
    ∃ stmts, dis env bs = .ok (v, stmts) ∧ asm env v stmts = .ok bs := by
  obtain ⟨hinv, hv⟩ := parseProg_inv f.groups f.rule hp
  have hwf := parsed_wf env v src is f hp hs
  have hdec := decode_encode env v is bs f.width hv (by have := f.lv64; omega) hwf he
  obtain ⟨stmts, hpr⟩ := printProg_total hinv
  refine ⟨stmts, ?_, ?_⟩
  · unfold dis; rw [hdec]; simp only [hpr]
  · unfold asm
    rw [parseProg_print f.pseudo f.rule hv hinv hpr]
    exact he

/-- the same with `asm` on both sides -/
theorem asm_dis_asm_src (env : Env) (v : Nat) (src : List Stmt) (bs : Bytes) (f : TokFacts env v)
    (hs : ∀ is, parseProg env v src = .ok is → SmallProg is) (h : asm env v src = .ok bs) :
    ∃ stmts, dis env bs = .ok (v, stmts) ∧ asm env v stmts = .ok bs := by
  unfold asm at h
  cases hp : parseProg env v src with
  | error x => simp [hp] at h
  | ok is =>
    simp only [hp] at h
    exact asm_dis_asm env v src is bs f hp (hs is hp) h

/-- FULL. The text round trip is a fixpoint after one step: disassembling the re-assembled bytes prints the same statements. -/
theorem dis_asm_dis (env : Env) (v : Nat) (src : List Stmt) (is : List Instr) (bs : Bytes) (f : TokFacts env v)
    (hp : parseProg env v src = .ok is) (hs : SmallProg is) (he : encode env v is = .ok bs) :
    ∃ stmts bs', dis env bs = .ok (v, stmts) ∧ asm env v stmts = .ok bs' ∧ dis env bs' = .ok (v, stmts) := by
  obtain ⟨stmts, h1, h2⟩ := asm_dis_asm env v src is bs f hp hs he
  exact ⟨stmts, bs, h1, h2, h1⟩

/-! ### assembled programs pass the static check -/

/-- the field immediate of an op whose static cost depends on it names a field with a positive cost (the static check
    rejects "non-positive cost"); `True` for every other op -/
def CostOKI (env : Env) (i : Instr) : Prop :=
  match env.costOk.find? (fun p => p.1 = i.spec.id) with
  | none => True
  | some q => ∃ b, i.imms = [.byte b] ∧ i.spec.sub = 0 ∧ q.2.contains b = true

/-- FULL (`assembled_checks`, the second sentence of the property). A token-level source the assembler accepts assembles to a
    program that passes the static check of its version, in every run mode that allows all its opcodes — for every
    environment whose tables satisfy `TokFacts`, whose `Size` column is the emitted length (`SizeFixed`) and whose
    field-cost immediates have a cost (`CostOKI`); both are discharged for today's tables in `gen_assembled_checks`. -/
theorem assembled_checks (env : Env) (v mode : Nat) (src : List Stmt) (is : List Instr) (bs : Bytes) (f : TokFacts env v)
    (hv : v ≤ env.protoVersion) (hp : parseProg env v src = .ok is) (hs : SmallProg is) (he : encode env v is = .ok bs)
    (hmode : ∀ i ∈ is, allows i.spec.modes mode = true) (hsize : ∀ i ∈ is, SizeFixed i.spec)
    (hcost : ∀ i ∈ is, CostOKI env i) : staticCheck env mode 0 bs = .ok := by
  obtain ⟨hinv, hlv⟩ := parseProg_inv f.groups f.rule hp
  have hwf := parsed_wf env v src is f hp hs
  unfold encode at he
  cases hb : encodeBody env v is with
  | error x => simp [hb] at he
  | ok body =>
    simp only [hb, Except.ok.injEq] at he; subst he
    unfold encodeBody at hb
    cases h1 : relax (env.initWidth * is.length + 1) (is.map (fun i => (i, env.initWidth))) with
    | error x => simp [h1] at hb
    | ok xs =>
      simp only [h1] at hb
      cases h2 : resolve v env.backBranchVersion xs with
      | error x => simp [h2] at hb
      | ok rs =>
        simp only [h2, Except.ok.injEq] at hb; subst hb
        obtain ⟨hfst, hle⟩ := relax_ok _ _ _ h1
        rw [map_fst_pair] at hfst
        have hx : ∀ x ∈ xs, InstrOK (env.look v) x.1 ∧ x.2 ≤ 9 := by
          intro x hx
          refine ⟨hwf x.1 (by rw [← hfst]; exact List.mem_map_of_mem hx), ?_⟩
          have := hle env.initWidth (by intro y hy; obtain ⟨i, _, rfl⟩ := List.mem_map.mp hy; exact Nat.le_refl _) x hx
          have := f.width
          omega
        obtain ⟨a, c, d, e⟩ := resolve_ok (look := env.look v) hx h2
        rw [hfst] at d
        unfold unresolve at d
        unfold resolve at h2
        have hSeq : startsOf xs = startsFrom 0 (rawSizes rs) := by unfold startsOf; rw [e]
        rw [hSeq, startsFrom_last, Nat.zero_add] at h2
        have hlenraw : (encRaw rs).length = listSum (rawSizes rs) := by
          unfold encRaw rawSizes; exact length_flatMap_listSum _ _
        have hv64 : v < two64 := by have := f.lv64; omega
        unfold staticCheck
        rw [show uvarint v = uvarintW (uvarLen v) v from rfl, readU_uvarintW _ 10 v _ (uvOK_min v hv64)]
        simp only []
        rw [if_neg (by omega), List.drop_left' (length_uvarintW _ _)]
        have hplen : (uvarintW (uvarLen v) v ++ encRaw rs).length = uvarLen v + listSum (rawSizes rs) := by
          rw [List.length_append, length_uvarintW, hlenraw]
        have key := checkGo_ok (env := env) (v := v) (mode := mode) (h := uvarLen v) (rs := rs)
          (startsFrom 0 (rawSizes rs)) rfl _ hplen ?_ rs 0 {} (uvarintW (uvarLen v) v ++ encRaw rs).length
          (by simp) (by intro j hj; omega) (by intro x hx; simp at hx) (by rw [List.length_append]; omega) 0
          (by simpa [listSum] using startsFrom_get (rawSizes rs) 0 0 (Nat.zero_le _))
        · simpa using key
        · -- every raw instruction is `Good`
          intro j r hr
          have hrm : r ∈ rs := List.mem_of_getElem? hr
          obtain ⟨i, p, e', hi, hspec, hp', he', hun⟩ := unresolveGo_rel d j r hr
          obtain ⟨e'', he'', hver⟩ := resolveGo_version h2 j r hr
          simp only [Nat.zero_add] at hp' he' he''
          rw [he'] at he''
          simp only [Option.some.injEq] at he''
          subst he''
          have him : i ∈ is := List.mem_of_getElem? hi
          obtain ⟨_, _, himm, _, _⟩ := hinv.1 i him
          obtain ⟨r1, r2, r3⟩ := unresolveImms_rel hun
          refine ⟨a r hrm, ?_, by rw [← hspec]; exact hmode i him, size_of_fixed (by rw [← hspec]; exact hsize i him) (a r hrm),
            ?_, ?_, p, e', hp', he', ?_⟩
          · intro im hmem
            have h1' := c r hrm im hmem
            have h2' := length_encInstr_le_encRaw hrm
            rw [hplen, ← hlenraw]; omega
          · -- cost
            intro rest
            have hc := hcost i him
            unfold CostOKI at hc
            unfold costOkFor
            rw [← hspec]
            cases hf : env.costOk.find? (fun p => p.1 = i.spec.id) with
            | none => rfl
            | some q =>
              simp only [hf] at hc
              obtain ⟨b, hb1, hb2, hb3⟩ := hc
              have hr3 := r3 b hb1
              have hsub : (if ¬ i.spec.sub = 0 then [i.spec.sub] else []) = ([] : Bytes) := by rw [if_neg (by omega)]
              simp only [hr3, subBytes, ne_eq, hsub, List.flatMap_cons, encImm, List.flatMap_nil, List.nil_append,
                List.append_nil, List.cons_append]
              exact hb3
          · -- byte-string limits
            apply itemsOk_of
            intro cw bss hmem q hq
            have := immsInv_bytess _ _ himm _ (r2 cw bss hmem) q.2 (List.mem_map_of_mem hq)
            exact this
          · -- branch rules
            intro im hmem
            have ht := r1 im hmem
            have hvr := hver im hmem
            have hmemS : ∀ x, x ∈ startsFrom 0 (rawSizes rs) → x ≤ listSum (rawSizes rs) := by
              intro x hx; have := startsFrom_le_total _ 0 x hx; omega
            cases im with
            | off2 o =>
              obtain ⟨t1, t2⟩ := ht
              obtain ⟨v1, v2⟩ := hvr
              have hcast : (((uvarLen v + e' : Nat) : Int) + o).toNat = uvarLen v + ((e' : Int) + o).toNat := by omega
              refine ⟨v1, by omega, ⟨_, t2, hcast⟩, ?_⟩
              intro hv1
              have := v2 hv1
              have := hmemS _ t2
              rw [hcast, hplen]; omega
            | offs os =>
              intro o ho
              obtain ⟨t1, t2⟩ := ht o ho
              have hcast : (((uvarLen v + e' : Nat) : Int) + o).toNat = uvarLen v + ((e' : Int) + o).toNat := by omega
              exact ⟨by omega, ⟨_, t2, hcast⟩⟩
            | voff o w =>
              obtain ⟨t1, t2⟩ := ht
              by_cases ho : o < 0
              · simp only [TgtOK, if_pos ho] at t1 t2 ⊢
                have hcast : (((uvarLen v + p : Nat) : Int) + o).toNat = uvarLen v + ((p : Int) + o).toNat := by omega
                exact ⟨by omega, ⟨_, t2, hcast⟩⟩
              · simp only [TgtOK, if_neg ho] at t1 t2 ⊢
                have hcast : (((uvarLen v + e' : Nat) : Int) + o).toNat = uvarLen v + ((e' : Int) + o).toNat := by omega
                exact ⟨by omega, ⟨_, t2, hcast⟩⟩
            | byte b => trivial
            | uint x y => trivial
            | bytes x y => trivial
            | ints x y => trivial
            | bytess x y => trivial

/-! ### label / branch lemmas -/

/-- FULL. In an assembled program every branch offset fits its encoding (2-byte offsets are int16, varint offsets fill their
    placeholder) and every branch target is the start of an instruction or the end of the program: the raw instructions
    decode, are well formed for their kinds, and un-resolve to the label indices they were assembled from. -/
theorem branch_targets_resolve (env : Env) (v : Nat) (is : List Instr) (bs : Bytes) (hW : env.initWidth ≤ 9)
    (hwf : WFprog env v is) (h : encodeBody env v is = .ok bs) :
    ∃ rs, bs = encRaw rs ∧ (∀ r ∈ rs, RInstrOK (env.look v) r) ∧ unresolve rs = some is := by
  unfold encodeBody at h
  cases h1 : relax (env.initWidth * is.length + 1) (is.map (fun i => (i, env.initWidth))) with
  | error x => simp [h1] at h
  | ok xs =>
    simp only [h1] at h
    cases h2 : resolve v env.backBranchVersion xs with
    | error x => simp [h2] at h
    | ok rs =>
      simp only [h2, Except.ok.injEq] at h; subst h
      obtain ⟨hfst, hle⟩ := relax_ok _ _ _ h1
      rw [map_fst_pair] at hfst
      have hx : ∀ x ∈ xs, InstrOK (env.look v) x.1 ∧ x.2 ≤ 9 := by
        intro x hx
        refine ⟨hwf x.1 (by rw [← hfst]; exact List.mem_map_of_mem hx), ?_⟩
        have := hle env.initWidth (by intro y hy; obtain ⟨i, _, rfl⟩ := List.mem_map.mp hy; exact Nat.le_refl _) x hx
        omega
      obtain ⟨a, _, d, _⟩ := resolve_ok (look := env.look v) hx h2
      exact ⟨rs, rfl, a, by rw [d, hfst]⟩

/-! ## Part C — today's tables -/

section Gen
open Gen.OpTable

/-- FULL (finite checks over the regenerated tables). Every table fact holds for every version of today's tree. The last
    one fails — and with it this theorem — if the assembler's constant-definedness rule is not "any block seen"
    (fix d0bedba4d8): with the older rules `asm_dis_asm` is false (a smaller block revived by the label the disassembler
    puts on `proto` makes the re-assembly fail). -/
theorem genFacts (v : Nat) (hv : v ≤ logicVersion) : TokFacts genEnv v where
  width := by decide
  lv64 := by decide
  maxStr := by decide
  pseudo := gen_pseudoOK
  groups := gen_groupIdx
  rule := by decide
  names := gen_namesReg v hv

/-- FULL for today's tables: asm ∘ dis ∘ asm = asm for every version. -/
theorem gen_asm_dis_asm (v : Nat) (src : List Stmt) (is : List Instr) (bs : Bytes)
    (hp : parseProg genEnv v src = .ok is) (hs : SmallProg is) (he : encode genEnv v is = .ok bs) :
    ∃ stmts, dis genEnv bs = .ok (v, stmts) ∧ asm genEnv v stmts = .ok bs :=
  asm_dis_asm genEnv v src is bs (genFacts v (parseProg_inv gen_groupIdx (by decide) hp).2) hp hs he

/-- FULL for today's tables: canonical bytes that decode re-encode to themselves whenever the back end accepts them. -/
theorem gen_encode_decode_canonical (bs bs' : Bytes) (v : Nat) (is : List Instr) (hb : IsBytes bs)
    (hc : Canonical genEnv bs) (hd : decode genEnv bs = .ok (v, is)) (he : encode genEnv v is = .ok bs') : bs' = bs := by
  have hv : v ≤ logicVersion := by
    unfold decode at hd
    cases hr : readU bs 10 with
    | none => simp [hr] at hd
    | some p =>
      obtain ⟨v', k⟩ := p
      simp only [hr] at hd
      split at hd
      · cases hd
      · rename_i hlt
        cases hdb : decodeBody genEnv v' bs.length (bs.drop k) with
        | error x => simp [hdb] at hd
        | ok is' =>
          simp only [hdb, Except.ok.injEq, Prod.mk.injEq] at hd
          obtain ⟨rfl, _⟩ := hd
          show v' ≤ genEnv.logicVersion
          omega
  exact encode_decode_canonical genEnv bs bs' v is (by decide) hb (gen_lookSound v) (gen_lookReg v hv) hc hd he

/-! ### assembled programs pass the static check: the two table facts, and the theorem for today's tables -/

def sizeFixedB (s : Spec) : Bool :=
  s.size == 0 || ((kindsOf s).all (fun k => k == 0 || k == 1 || k == 2) &&
    s.size == 1 + (subBytes s).length + listSum ((kindsOf s).map (fun k => if k = 2 then 2 else 1)))

theorem sizeFixed_of_B {s : Spec} (h : sizeFixedB s = true) : SizeFixed s := by
  unfold sizeFixedB at h
  simp only [Bool.or_eq_true, Bool.and_eq_true, beq_iff_eq, List.all_eq_true] at h
  rcases h with h | ⟨h1, h2⟩
  · exact Or.inl h
  · exact Or.inr ⟨fun k hk => by have := h1 k hk; omega, h2⟩

/-- every field a field-cost op can be assembled with has a cost -/
def costRowB (env : Env) (r : Spec) : Bool :=
  match env.costOk.find? (fun p => p.1 = r.id) with
  | none => true
  | some q =>
    r.sub == 0 &&
    (match r.imms with
     | [im] => im.kind == 0 && im.declGroup != "" &&
        (match groupOf env im.declGroup with
         | some g => g.fields.all (fun fr => fr.name == "" || q.2.contains fr.idx)
         | none => false)
     | _ => false)

set_option maxRecDepth 100000 in
theorem gen_sizes : opSpecs.all sizeFixedB = true := by decide +kernel

set_option maxRecDepth 100000 in
theorem gen_costs : opSpecs.all (costRowB genEnv) = true := by decide +kernel

theorem gen_row_of {v : Nat} {i : Instr} (hi : InstrInv genEnv v i) :
    ∃ r ∈ opSpecs, i.spec.id = r.id ∧ i.spec.sub = r.sub ∧ i.spec.imms = r.imms ∧ i.spec.size = r.size := by
  obtain ⟨r, hr, _, hs⟩ := byName_mem hi.1
  refine ⟨r, hr, ?_, ?_, ?_, ?_⟩ <;> (rw [hs]; split <;> rfl)

theorem gen_sizeFixed {v : Nat} {i : Instr} (hi : InstrInv genEnv v i) : SizeFixed i.spec := by
  obtain ⟨r, hr, _, h2, h3, h4⟩ := gen_row_of hi
  have := sizeFixed_of_B (List.all_eq_true.mp gen_sizes r hr)
  unfold SizeFixed kindsOf subBytes at this ⊢
  rw [h2, h3, h4]; exact this

theorem gen_costOK {v : Nat} {i : Instr} (hi : InstrInv genEnv v i) : CostOKI genEnv i := by
  obtain ⟨r, hr, h1, h2, h3, _⟩ := gen_row_of hi
  have hrow := List.all_eq_true.mp gen_costs r hr
  unfold CostOKI
  unfold costRowB at hrow
  rw [h1]
  cases hf : genEnv.costOk.find? (fun p => p.1 = r.id) with
  | none => trivial
  | some q =>
    simp only [hf] at hrow ⊢
    simp only [Bool.and_eq_true, beq_iff_eq] at hrow
    obtain ⟨hsub, hrest⟩ := hrow
    have himm := hi.2.2.1
    rw [h3] at himm
    cases hims : r.imms with
    | nil => simp [hims] at hrest
    | cons im rest =>
      cases rest with
      | cons _ _ => simp [hims] at hrest
      | nil =>
        simp only [hims, Bool.and_eq_true, beq_iff_eq, bne_iff_ne, ne_eq] at hrest
        obtain ⟨⟨hk, hg⟩, hgrp⟩ := hrest
        rw [hims] at himm
        cases hx : i.imms with
        | nil => rw [hx] at himm; simp [ImmsInv] at himm
        | cons x xs =>
          rw [hx] at himm
          obtain ⟨a1, _, a2⟩ := himm
          cases xs with
          | cons _ _ => simp [ImmsInv] at a2
          | nil =>
            cases x with
            | byte b =>
              simp only [ImmInv] at a1
              rcases a1 with ⟨_, _, gd, ge, fr, fe, g1, g2, g3, g4, g5, _⟩ | ⟨_, hg', _⟩ | ⟨hk', _, _⟩
              · refine ⟨b, rfl, by rw [h2]; exact hsub, ?_⟩
                rw [g1] at hgrp
                simp only [List.all_eq_true, Bool.or_eq_true, beq_iff_eq] at hgrp
                have := hgrp fr (List.mem_of_getElem? g3)
                rcases this with hn | hc
                · exact absurd hn (fieldByName_name g4).2
                · rw [g5] at hc; exact hc
              · exact absurd hg' hg
              · omega
            | uint n => simp only [ImmInv] at a1; omega
            | bytes bs => simp only [ImmInv] at a1; omega
            | ints vs => simp only [ImmInv] at a1; omega
            | bytess bss => simp only [ImmInv] at a1; omega
            | label t => simp only [ImmInv] at a1; omega
            | vlabel t => simp only [ImmInv] at a1; omega
            | labels ts => simp only [ImmInv] at a1; omega

/-- FULL for today's tables (second sentence of the property): a token-level source the assembler accepts assembles to a
    program that passes the static check of its version in every run mode that allows all its opcodes (the harness
    protocol supports every version: `protoVersion = logicVersion`). -/
theorem gen_assembled_checks (v mode : Nat) (src : List Stmt) (is : List Instr) (bs : Bytes)
    (hp : parseProg genEnv v src = .ok is) (hs : SmallProg is) (he : encode genEnv v is = .ok bs)
    (hmode : ∀ i ∈ is, allows i.spec.modes mode = true) : staticCheck genEnv mode 0 bs = .ok := by
  obtain ⟨hinv, hv⟩ := parseProg_inv gen_groupIdx (by decide) hp
  have hpv : v ≤ genEnv.protoVersion := by
    have h1 : genEnv.protoVersion = genEnv.logicVersion := by decide
    omega
  exact assembled_checks genEnv v mode src is bs (genFacts v hv) hpv hp hs he hmode
    (fun i hi => gen_sizeFixed (hinv.1 i hi)) (fun i hi => gen_costOK (hinv.1 i hi))

end Gen

/-! ## examples: the hypotheses are met by concrete programs of today's tables -/

section Examples
open Gen.OpTable
set_option maxRecDepth 100000

/-- `label1: ; pushint 300 ; bnz label1 ; b label2 ; label2:` at version 13 (varint branches, one back, one to the end) -/
def demoSrc : List Stmt :=
  [[.ldef 1], [.name "pushint", .num 300], [.name "bnz", .lref 1], [.name "b", .lref 2], [.ldef 2]]

example : (asm genEnv 13 demoSrc).toOption = some [13, 129, 172, 2, 64, 5, 66, 0] := by decide +kernel
example : (dis genEnv [13, 129, 172, 2, 64, 5, 66, 0]).toOption = some (13, demoSrc) := by decide +kernel
/-- the same source at version 12: two-byte offsets -/
example : (asm genEnv 12 demoSrc).toOption = some [12, 129, 172, 2, 64, 255, 250, 66, 0, 0] := by decide +kernel
/-- a non-canonical varuint (300 in three bytes) decodes, and re-assembles to the canonical form -/
example : (dis genEnv [13, 129, 172, 130, 0]).toOption = some (13, [[.name "pushint", .num 300]]) := by decide +kernel
example : (asm genEnv 13 [[.name "pushint", .num 300]]).toOption = some [13, 129, 172, 2] := by decide +kernel
example : staticCheck genEnv modeSig 0 [13, 129, 172, 2, 64, 5, 66, 0] = .ok := by decide +kernel
/-- the hypotheses of `asm_dis_asm` are met by the demo source -/
example : ∃ is, parseProg genEnv 13 demoSrc = .ok is := by
  cases h : parseProg genEnv 13 demoSrc with
  | ok is => exact ⟨is, rfl⟩
  | error e =>
    have : (parseProg genEnv 13 demoSrc).toOption.isSome = true := by decide +kernel
    rw [h] at this; cases this

/-- the parsed demo program, and the bytes it assembles to -/
def demoIs : List Instr := ((parseProg genEnv 13 demoSrc).toOption).getD []
def demoBytes : Bytes := [13, 129, 172, 2, 64, 5, 66, 0]

def smallImmB : Model.AsmFormat.Imm → Bool
  | .ints ns => decide (ns.length < two64)
  | .bytess bs => decide (bs.length < two64)
  | _ => true

theorem smallProg_of_B {is : List Instr} (h : is.all (fun i => i.imms.all smallImmB) = true) : SmallProg is := by
  intro i hi x hx
  have := List.all_eq_true.mp (List.all_eq_true.mp h i hi) x hx
  cases x <;> simp_all [SmallImm, smallImmB]

theorem demo_parse : parseProg genEnv 13 demoSrc = .ok demoIs := by
  have h : (parseProg genEnv 13 demoSrc).toOption.isSome = true := by decide +kernel
  unfold demoIs
  cases hp : parseProg genEnv 13 demoSrc with
  | ok is => rfl
  | error e => rw [hp] at h; cases h

theorem demo_encode : encode genEnv 13 demoIs = .ok demoBytes := by
  have h : (encode genEnv 13 demoIs).toOption = some demoBytes := by decide +kernel
  cases he : encode genEnv 13 demoIs with
  | ok bs => rw [he] at h; simp only [Except.toOption, Option.some.injEq] at h; rw [h]
  | error e => rw [he] at h; cases h

theorem demo_small : SmallProg demoIs := smallProg_of_B (by decide +kernel)

/-- `WFprog`, `Canon` and `Canonical` are inhabited by the demo program; the round-trip theorems apply to it -/
example : WFprog genEnv 13 demoIs := parsed_wf genEnv 13 demoSrc demoIs (genFacts 13 (by decide)) demo_parse demo_small
example : Canon genEnv demoBytes 13 demoIs :=
  encode_canon genEnv 13 demoIs demoBytes (by decide)
    (parsed_wf genEnv 13 demoSrc demoIs (genFacts 13 (by decide)) demo_parse demo_small) demo_encode
example : decode genEnv demoBytes = .ok (13, demoIs) :=
  decode_encode genEnv 13 demoIs demoBytes (by decide) (by decide) (by decide)
    (parsed_wf genEnv 13 demoSrc demoIs (genFacts 13 (by decide)) demo_parse demo_small) demo_encode
example : ∃ stmts, dis genEnv demoBytes = .ok (13, stmts) ∧ asm genEnv 13 stmts = .ok demoBytes :=
  gen_asm_dis_asm 13 demoSrc demoIs demoBytes demo_parse demo_small demo_encode
/-- the branch instructions of the demo have exactly one varint label (hypothesis of `relax_terminates_and_fits`) -/
example : ∀ i ∈ demoIs, OneV i := by
  have h : demoIs.all (fun i => i.imms.all (fun x => match x with
      | .vlabel t => decide (vtarget i = some t)
      | _ => true)) = true := by decide +kernel
  intro i hi t ht
  have := List.all_eq_true.mp (List.all_eq_true.mp h i hi) _ ht
  simpa using this

/-- the hypotheses of `gen_assembled_checks` are met by the demo program in signature mode -/
example : staticCheck genEnv modeSig 0 demoBytes = .ok :=
  gen_assembled_checks 13 modeSig demoSrc demoIs demoBytes demo_parse demo_small demo_encode (by
    have h : demoIs.all (fun i => allows i.spec.modes modeSig) = true := by decide +kernel
    exact fun i hi => List.all_eq_true.mp h i hi)

end Examples

end Props.C33
