/-
C31 — AVM evaluation is total and bounded for every program.

All theorems of Part A are about the interpreter skeleton `Model.AVM.step / runLoop / eval` for EVERY opcode table
(`cfg.tbl`), EVERY field-cost table, EVERY limits record and EVERY op-body function `ex : Exec` — in particular for
`concreteExec sem` with an arbitrary `sem`. Nothing is assumed about op bodies: `step` charges the cost and checks the
budget before running the body, and re-checks stack depth afterwards.
-/
import AlgoVerif.Model.AVM
import AlgoVerif.Lemmas.AVM
namespace Props.C31
open Model.OpTables Model.AVM Lemmas.AVM

/-! ## Part A — skeleton theorems (every table, every `ex`) -/

/-- FULL. Totality: for every program, op-body function and budget, `eval` (whose loop is given fuel budget+1) returns a
    final outcome, after at most budget+1 executed steps. Every completed step costs ≥ 1 and the budget check precedes
    execution, so the remaining budget is a strictly decreasing measure. -/
theorem eval_terminates (ex : Exec) (cfg : Cfg) (prog : List Nat) (pool : Int) :
    ∃ f, eval ex cfg prog pool = some f ∧ f.steps ≤ budget0 cfg pool + 1 := by
  unfold eval
  simp only []
  split
  · exact ⟨_, rfl, by simp⟩
  · split
    · exact ⟨_, rfl, by simp⟩
    · split
      · exact ⟨_, rfl, by simp⟩
      · rename_i v vlen hb
        obtain ⟨f, hf⟩ := runLoop_terminates (ex := ex) (cfg := cfg) (prog := prog) (v := v) (budget0 cfg pool + 1)
          (initState cfg vlen pool) 0 (by unfold budget0 initState; simp)
        refine ⟨f, by simpa [hb] using hf, ?_⟩
        obtain ⟨_, _, hsteps, _⟩ := runLoop_some _ _ _ _ hf
        omega

/-- the run of `eval` after a successful `begin`: start state and loop -/
theorem eval_run {ex : Exec} {cfg : Cfg} {prog : List Nat} {pool : Int} {f : Final} (h : eval ex cfg prog pool = some f) :
    (∃ pc, f.st = initState cfg pc pool ∧ f.steps = 0 ∧ ∃ e, f.verdict = .error e) ∨
    (∃ v vlen, begin cfg prog = .ok (v, vlen) ∧
      runLoop ex cfg prog v (budget0 cfg pool + 1) (initState cfg vlen pool) 0 = some f) := by
  unfold eval at h
  simp only [] at h
  split at h
  · injection h with h; subst h; exact Or.inl ⟨_, rfl, rfl, _, rfl⟩
  · split at h
    · injection h with h; subst h; exact Or.inl ⟨_, rfl, rfl, _, rfl⟩
    · split at h
      · injection h with h; subst h; exact Or.inl ⟨_, rfl, rfl, _, rfl⟩
      · rename_i v vlen hb
        exact Or.inr ⟨v, vlen, hb, by simpa [hb] using h⟩

/-- FULL. The cost never exceeds the budget evaluation started with — in the final state of `eval`, whatever the outcome
    (accept, reject, or an error, including an error raised by the op body after its cost was charged) — for unpooled
    budgets, pooled budgets and the clear-state isolation rule alike (`remaining` covers the three). -/
theorem cost_bounded (ex : Exec) (cfg : Cfg) (prog : List Nat) (pool : Int) (f : Final)
    (h : eval ex cfg prog pool = some f) : f.st.cost ≤ budget0 cfg pool := by
  rcases eval_run h with ⟨pc, hst, _, _⟩ | ⟨v, vlen, _, hrun⟩
  · rw [hst]; simp [initState]
  · obtain ⟨stl, hr, _, _, hfin⟩ := runLoop_some _ _ _ _ hrun
    have hi := costInv_reach (costInv_init cfg vlen pool) hr
    rcases hfin with ⟨_, _, hst⟩ | ⟨_, e, hs, _⟩
    · rw [hst]; exact costInv_bound hi
    · exact costInv_bound (costInv_charged hi (step_err_charged hs))

/-- FULL. The same at every state of the run (after every completed step). -/
theorem cost_bounded_reach (ex : Exec) (cfg : Cfg) (prog : List Nat) (v pc : Nat) (pool : Int) (st : State)
    (h : Reach ex cfg prog v (initState cfg pc pool) st) : st.cost ≤ budget0 cfg pool :=
  costInv_bound (costInv_reach (costInv_init cfg pc pool) h)

/-- FULL. A pooled budget is decremented by exactly the cost incurred. -/
theorem pool_accounting (ex : Exec) (cfg : Cfg) (prog : List Nat) (pool : Int) (f : Final)
    (h : eval ex cfg prog pool = some f) (hp : cfg.pooled = true) : f.st.pool = pool - f.st.cost := by
  rcases eval_run h with ⟨pc, hst, _, _⟩ | ⟨v, vlen, _, hrun⟩
  · rw [hst]; simp [initState]
  · obtain ⟨stl, hr, _, _, hfin⟩ := runLoop_some _ _ _ _ hrun
    have hi := costInv_reach (costInv_init cfg vlen pool) hr
    rcases hfin with ⟨_, _, hst⟩ | ⟨_, e, hs, _⟩
    · rw [hst]; exact hi.2.2 hp
    · exact (costInv_charged hi (step_err_charged hs)).2.2 hp

/-- FULL. Clear-state isolation: a ClearState program (application mode, `isolate`) spends at most MaxAppProgramCost of
    the pool, so a pool that held at least that much (EvalContract refuses to start otherwise) never goes negative. -/
theorem clear_state_isolation (ex : Exec) (cfg : Cfg) (prog : List Nat) (pool : Int) (f : Final)
    (h : eval ex cfg prog pool = some f) (hm : cfg.mode ≠ modeSig) (hi : cfg.isolate = true) (hp : cfg.pooled = true)
    (hpool : (cfg.maxCost : Int) ≤ pool) : f.st.cost ≤ cfg.maxCost ∧ 0 ≤ f.st.pool := by
  have hc := cost_bounded ex cfg prog pool f h
  have hb : budget0 cfg pool = cfg.maxCost := by
    unfold budget0 remaining; simp [hm, hi]
  rw [hb] at hc
  rw [pool_accounting ex cfg prog pool f h hp]
  exact ⟨hc, by omega⟩

/-- FULL. Stack depth: after every completed step the stack holds at most maxStackDepth values. -/
theorem stack_bounded (ex : Exec) (cfg : Cfg) (prog : List Nat) (v : Nat) (st0 st : State)
    (h0 : st0.m.stack.length ≤ cfg.lim.maxStackDepth) (h : Reach ex cfg prog v st0 st) :
    st.m.stack.length ≤ cfg.lim.maxStackDepth := by
  induction h with
  | refl => exact h0
  | step _ _ hs _ =>
    obtain ⟨_, _, _, _, _, _, _, _, _, _, _, _, _, _, hd, rfl⟩ := step_ok_inv hs
    exact hd

/-- FULL. In particular for the run `eval` performs (it starts with the empty stack). -/
theorem stack_bounded_eval (ex : Exec) (cfg : Cfg) (prog : List Nat) (v pc : Nat) (pool : Int) (st : State)
    (h : Reach ex cfg prog v (initState cfg pc pool) st) : st.m.stack.length ≤ cfg.lim.maxStackDepth :=
  stack_bounded ex cfg prog v _ st (by simp [initState, emptyMach]) h

/-- FULL. Three outcomes, nothing else: accept exactly with one non-zero uint left, reject exactly with a single 0,
    otherwise an explicit error value (`Err.crash` — the Go code would have panicked — is one of them; Part C shows it
    cannot come from the skeleton or the modelled ops). -/
theorem outcome_trichotomy (ex : Exec) (cfg : Cfg) (prog : List Nat) (pool : Int) (f : Final)
    (h : eval ex cfg prog pool = some f) :
    (f.verdict = .accept ∧ ∃ n, n ≠ 0 ∧ f.st.m.stack = [.u n] ∧ ¬ f.st.pc < prog.length) ∨
    (f.verdict = .reject ∧ f.st.m.stack = [.u 0] ∧ ¬ f.st.pc < prog.length) ∨
    (∃ e, f.verdict = .error e) := by
  rcases eval_run h with ⟨_, _, _, e, he⟩ | ⟨v, vlen, _, hrun⟩
  · exact Or.inr (Or.inr ⟨e, he⟩)
  · obtain ⟨stl, _, _, _, hfin⟩ := runLoop_some _ _ _ _ hrun
    rcases hfin with ⟨hpc, hv, hst⟩ | ⟨_, e, _, hv⟩
    · subst hst
      rw [hv]
      unfold finish
      split
      · rename_i n hstack
        by_cases hn : n ≠ 0
        · exact Or.inl ⟨by simp [hn], n, hn, hstack, hpc⟩
        · have : n = 0 := by omega
          subst this
          exact Or.inr (Or.inl ⟨by simp, hstack, hpc⟩)
      · exact Or.inr (Or.inr ⟨_, rfl⟩)
      · exact Or.inr (Or.inr ⟨_, rfl⟩)
    · exact Or.inr (Or.inr ⟨e, hv⟩)

end Props.C31
