/-
C31 — AVM evaluation is total and bounded for every program.

All theorems of Part A are about the interpreter skeleton `Model.AVM.step / runLoop / eval` for EVERY opcode table
(`cfg.tbl`), EVERY field-cost table, EVERY limits record and EVERY op-body function `ex : Exec` — in particular for
`concreteExec sem` with an arbitrary `sem`. Nothing is assumed about op bodies: `step` charges the cost and checks the
budget before running the body, and re-checks stack depth afterwards.
-/
import AlgoVerif.Model.AVM
import AlgoVerif.Lemmas.AVM
import AlgoVerif.Lemmas.AVMCheck
import AlgoVerif.Lemmas.AVMAgree
import AlgoVerif.Gen.OpTable
import AlgoVerif.Gen.AVMFacts
import AlgoVerif.Props.C34
namespace Props.C31
open Model.OpTables Model.AVM Lemmas.AVM Lemmas.AVMCheck Lemmas.AVMAgree

/-! ## Part A — skeleton theorems (every table, every `ex`) -/

/-- FULL. Totality: for every program, op-body function and budget, `eval` (whose loop is given fuel budget+1) returns a
    final outcome, after at most budget+1 executed steps. Every completed step costs ≥ 1 and the budget check precedes
    execution, so the remaining budget is a strictly decreasing measure. -/
theorem eval_terminates (ex : Exec) (cfg : Cfg) (prog : List Nat) (pool : Int) :
    ∃ f, eval ex cfg prog pool = some f ∧ f.steps ≤ budget0 cfg pool + 1 := by
  unfold eval
  simp only []
  split
  · exact ⟨_, rfl, by simp⟩
  · split
    · exact ⟨_, rfl, by simp⟩
    · split
      · exact ⟨_, rfl, by simp⟩
      · rename_i v vlen hb
        obtain ⟨f, hf⟩ := runLoop_terminates (ex := ex) (cfg := cfg) (prog := prog) (v := v) (budget0 cfg pool + 1)
          (initState cfg vlen pool) 0 (by unfold budget0 initState; simp)
        refine ⟨f, by simpa [hb] using hf, ?_⟩
        obtain ⟨_, _, hsteps, _⟩ := runLoop_some _ _ _ _ hf
        omega

/-- the run of `eval` after a successful `begin`: start state and loop -/
theorem eval_run {ex : Exec} {cfg : Cfg} {prog : List Nat} {pool : Int} {f : Final} (h : eval ex cfg prog pool = some f) :
    (∃ pc, f.st = initState cfg pc pool ∧ f.steps = 0 ∧ ∃ e, f.verdict = .error e) ∨
    (∃ v vlen, begin cfg prog = .ok (v, vlen) ∧
      runLoop ex cfg prog v (budget0 cfg pool + 1) (initState cfg vlen pool) 0 = some f) := by
  unfold eval at h
  simp only [] at h
  split at h
  · injection h with h; subst h; exact Or.inl ⟨_, rfl, rfl, _, rfl⟩
  · split at h
    · injection h with h; subst h; exact Or.inl ⟨_, rfl, rfl, _, rfl⟩
    · split at h
      · injection h with h; subst h; exact Or.inl ⟨_, rfl, rfl, _, rfl⟩
      · rename_i v vlen hb
        exact Or.inr ⟨v, vlen, hb, by simpa [hb] using h⟩

/-- FULL. The cost never exceeds the budget evaluation started with — in the final state of `eval`, whatever the outcome
    (accept, reject, or an error, including an error raised by the op body after its cost was charged) — for unpooled
    budgets, pooled budgets and the clear-state isolation rule alike (`remaining` covers the three). -/
theorem cost_bounded (ex : Exec) (cfg : Cfg) (prog : List Nat) (pool : Int) (f : Final)
    (h : eval ex cfg prog pool = some f) : f.st.cost ≤ budget0 cfg pool := by
  rcases eval_run h with ⟨pc, hst, _, _⟩ | ⟨v, vlen, _, hrun⟩
  · rw [hst]; simp [initState]
  · obtain ⟨stl, hr, _, _, hfin⟩ := runLoop_some _ _ _ _ hrun
    have hi := costInv_reach (costInv_init cfg vlen pool) hr
    rcases hfin with ⟨_, _, hst⟩ | ⟨_, e, hs, _⟩
    · rw [hst]; exact costInv_bound hi
    · exact costInv_bound (costInv_charged hi (step_err_charged hs))

/-- FULL. The same at every state of the run (after every completed step). -/
theorem cost_bounded_reach (ex : Exec) (cfg : Cfg) (prog : List Nat) (v pc : Nat) (pool : Int) (st : State)
    (h : Reach ex cfg prog v (initState cfg pc pool) st) : st.cost ≤ budget0 cfg pool :=
  costInv_bound (costInv_reach (costInv_init cfg pc pool) h)

/-- FULL. A pooled budget is decremented by exactly the cost incurred. -/
theorem pool_accounting (ex : Exec) (cfg : Cfg) (prog : List Nat) (pool : Int) (f : Final)
    (h : eval ex cfg prog pool = some f) (hp : cfg.pooled = true) : f.st.pool = pool - f.st.cost := by
  rcases eval_run h with ⟨pc, hst, _, _⟩ | ⟨v, vlen, _, hrun⟩
  · rw [hst]; simp [initState]
  · obtain ⟨stl, hr, _, _, hfin⟩ := runLoop_some _ _ _ _ hrun
    have hi := costInv_reach (costInv_init cfg vlen pool) hr
    rcases hfin with ⟨_, _, hst⟩ | ⟨_, e, hs, _⟩
    · rw [hst]; exact hi.2.2 hp
    · exact (costInv_charged hi (step_err_charged hs)).2.2 hp

/-- FULL. Clear-state isolation: a ClearState program (application mode, `isolate`) spends at most MaxAppProgramCost of
    the pool, so a pool that held at least that much (EvalContract refuses to start otherwise) never goes negative. -/
theorem clear_state_isolation (ex : Exec) (cfg : Cfg) (prog : List Nat) (pool : Int) (f : Final)
    (h : eval ex cfg prog pool = some f) (hm : cfg.mode ≠ modeSig) (hi : cfg.isolate = true) (hp : cfg.pooled = true)
    (hpool : (cfg.maxCost : Int) ≤ pool) : f.st.cost ≤ cfg.maxCost ∧ 0 ≤ f.st.pool := by
  have hc := cost_bounded ex cfg prog pool f h
  have hb : budget0 cfg pool = cfg.maxCost := by
    unfold budget0 remaining; simp [hm, hi]
  rw [hb] at hc
  rw [pool_accounting ex cfg prog pool f h hp]
  exact ⟨hc, by omega⟩

/-- FULL. Stack depth: after every completed step the stack holds at most maxStackDepth values. -/
theorem stack_bounded (ex : Exec) (cfg : Cfg) (prog : List Nat) (v : Nat) (st0 st : State)
    (h0 : st0.m.stack.length ≤ cfg.lim.maxStackDepth) (h : Reach ex cfg prog v st0 st) :
    st.m.stack.length ≤ cfg.lim.maxStackDepth := by
  induction h with
  | refl => exact h0
  | step _ _ hs _ =>
    obtain ⟨_, _, _, _, _, _, _, _, _, _, _, _, _, _, hd, rfl⟩ := step_ok_inv hs
    exact hd

/-- FULL. In particular for the run `eval` performs (it starts with the empty stack). -/
theorem stack_bounded_eval (ex : Exec) (cfg : Cfg) (prog : List Nat) (v pc : Nat) (pool : Int) (st : State)
    (h : Reach ex cfg prog v (initState cfg pc pool) st) : st.m.stack.length ≤ cfg.lim.maxStackDepth :=
  stack_bounded ex cfg prog v _ st (by simp [initState, emptyMach]) h

/-- FULL. Three outcomes, nothing else: accept exactly with one non-zero uint left, reject exactly with a single 0,
    otherwise an explicit error value (`Err.crash` — the Go code would have panicked — is one of them; Part C shows it
    cannot come from the skeleton or the modelled ops). -/
theorem outcome_trichotomy (ex : Exec) (cfg : Cfg) (prog : List Nat) (pool : Int) (f : Final)
    (h : eval ex cfg prog pool = some f) :
    (f.verdict = .accept ∧ ∃ n, n ≠ 0 ∧ f.st.m.stack = [.u n] ∧ ¬ f.st.pc < prog.length) ∨
    (f.verdict = .reject ∧ f.st.m.stack = [.u 0] ∧ ¬ f.st.pc < prog.length) ∨
    (∃ e, f.verdict = .error e) := by
  rcases eval_run h with ⟨_, _, _, e, he⟩ | ⟨v, vlen, _, hrun⟩
  · exact Or.inr (Or.inr ⟨e, he⟩)
  · obtain ⟨stl, _, _, _, hfin⟩ := runLoop_some _ _ _ _ hrun
    rcases hfin with ⟨hpc, hv, hst⟩ | ⟨_, e, _, hv⟩
    · subst hst
      rw [hv]
      unfold finish
      split
      · rename_i n hstack
        by_cases hn : n ≠ 0
        · exact Or.inl ⟨by simp [hn], n, hn, hstack, hpc⟩
        · have : n = 0 := by omega
          subst this
          exact Or.inr (Or.inl ⟨by simp, hstack, hpc⟩)
      · exact Or.inr (Or.inr ⟨_, rfl⟩)
      · exact Or.inr (Or.inr ⟨_, rfl⟩)
    · exact Or.inr (Or.inr ⟨e, hv⟩)

/-! ## Part B — static check and evaluation agree on instruction boundaries -/

/-- FULL. The loop of `check` is given fuel len+1 and never exhausts it (every round must advance the pc). -/
theorem check_fuel_suffices (cfg : Cfg) (prog : List Nat) (pool : Int) (pc : Nat) :
    check cfg prog pool ≠ .error (.fuel, pc) := by
  unfold check
  split
  · intro h; injection h with h; injection h with h _; cases h
  · split
    · rename_i e pc' hb
      intro h; injection h with h; injection h with h _
      subst h
      unfold begin at hb
      repeat' split at hb
      all_goals first
        | (injection hb with hb; injection hb with hb _; cases hb; done)
        | (cases hb; done)
    · exact checkLoop_fuel _ _ _ _ (by simp only; omega) (by omega)

/-- FULL (for every table whose rows are consistent, `specWF`: the check function a row carries is the one belonging to its
    evalFunc — decided for today's table below). If `check p = ok`, then every pc `eval` reaches — for every `sem`, every
    budget, every argument list — is an instruction start recorded by `check` or the end of the program, and so is every
    return address on the call stack. Taken branch targets (2-byte and varint forms, forward and back, switch / match
    tables, callsub / retsub) are pcs the run reaches, so they are aligned. -/
theorem check_eval_agree (sem : Sem) (cfg : Cfg) (prog : List Nat) (pool : Int) (cs : CState) (v vlen : Nat)
    (hwf : ∀ op next s, getSpec cfg.tbl v op next = some s → specWF s = true)
    (hc : check cfg prog pool = .ok cs) (hb : begin cfg prog = .ok (v, vlen))
    (st : State) (hr : Reach (concreteExec sem) cfg prog v (initState cfg vlen pool) st) :
    (st.pc ∈ cs.starts ∨ st.pc = prog.length) ∧
    ∀ f ∈ st.m.callstack, f.retpc ∈ cs.starts ∨ f.retpc = prog.length := by
  obtain ⟨hf, hg⟩ := check_facts hc hb
  have h0 : J cs.starts prog.length (initState cfg vlen pool) :=
    ⟨rfl, hg, by intro f hf'; simp [initState, emptyMach] at hf'⟩
  obtain ⟨_, h2, h3⟩ := reach_J hwf hf h0 hr
  exact ⟨h2, h3⟩

/-- FULL. The statement C34 left open (`Props.C34.CheckEvalAgreeStatement`), for every list of pcs of reached states
    (taken branch targets are among them). -/
theorem check_eval_agree_statement (sem : Sem) (cfg : Cfg) (prog : List Nat) (pool : Int) (cs : CState) (v vlen : Nat)
    (hwf : ∀ op next s, getSpec cfg.tbl v op next = some s → specWF s = true)
    (hc : check cfg prog pool = .ok cs) (hb : begin cfg prog = .ok (v, vlen))
    (reached targets : List Nat)
    (hreached : ∀ pc ∈ reached, ∃ st, Reach (concreteExec sem) cfg prog v (initState cfg vlen pool) st ∧ st.pc = pc)
    (htargets : ∀ t ∈ targets, t ∈ reached) :
    Props.C34.CheckEvalAgreeStatement cs.starts reached targets prog.length := by
  have key : ∀ pc ∈ reached, pc ∈ cs.starts ∨ pc = prog.length := by
    intro pc hpc
    obtain ⟨st, hr, he⟩ := hreached pc hpc
    rw [← he]
    exact (check_eval_agree sem cfg prog pool cs v vlen hwf hc hb st hr).1
  exact ⟨key, fun t ht => key t (htargets t ht)⟩

section Gen
open Gen.OpTable
set_option maxRecDepth 100000

theorem gen_rows_wf : opSpecs.all specWF = true := by decide +kernel

theorem specWF_alias0 (r : Spec) : specWF (Props.C34.alias0 r) = specWF r := rfl

/-- FULL (finite, today's table, regenerated every run). Every spec any version's table can return is consistent. -/
theorem gen_specWF (v op : Nat) (next : Option Nat) (s : Spec)
    (h : getSpec (buildTables opSpecs) v op next = some s) : specWF s = true := by
  obtain ⟨hrow, _⟩ := Props.C34.table_version_sound opSpecs v op next s h
  rcases hrow with hrow | ⟨_, r, hr, _, he⟩
  · exact List.all_eq_true.mp gen_rows_wf s hrow
  · subst he
    rw [specWF_alias0]
    exact List.all_eq_true.mp gen_rows_wf r hr

/-! ### non-vacuity: a version-8 program with a back-branching loop, run against today's tables and limits -/

def demoLimits : Limits :=
  { maxStackDepth := Gen.AVMFacts.maxStackDepth, maxStringSize := Gen.AVMFacts.maxStringSize,
    backBranchV := Gen.AVMFacts.backBranchEnabledVersion, sharedResV := Gen.AVMFacts.sharedResourcesVersion,
    protoByte := Gen.AVMFacts.protoByte, evalMaxArgs := Gen.AVMFacts.evalMaxArgs,
    maxArgSize := Gen.AVMFacts.maxLogicSigArgSize, blankLen := Gen.AVMFacts.blankStackLen,
    scratchLen := Gen.AVMFacts.scratchLen }

def demoCfg (maxCost : Nat) (pooled : Bool) : Cfg :=
  { lim := demoLimits, tbl := buildTables opSpecs, fcost := fun _ _ => (0, 0, 0, 0), lv := logicVersion, lsv := logicVersion,
    minv := 0, mode := modeSig, hasAccess := false, args := none, maxCost := maxCost, pooled := pooled, isolate := false }

def demoSem : Sem := fun _ _ _ => .error .unmodelled

/-- `pushint 3; loop: pushint 1; -; dup; bnz loop; pushint 1; return` (version 8, two-byte back branch) -/
def demoProg : List Nat := [8, 0x81, 3, 0x81, 1, 0x09, 0x49, 0x40, 0xff, 0xf9, 0x81, 1, 0x43]

/-- `callsub f; return; f: pushint 1; retsub`  (version 13: varint callsub, forward offset 1 from the end) -/
def demoCall : List Nat := [13, 0x88, 2, 0x43, 0x81, 1, 0x89]

def verdictOf (r : Option Final) : Option (Model.AVM.Verdict × Nat × Nat) := r.map (fun f => (f.verdict, f.st.cost, f.steps))

-- eval_terminates / cost_bounded / outcome_trichotomy: the run accepts after 15 steps of cost 1, inside a budget of 20
example : verdictOf (eval (concreteExec demoSem) (demoCfg 20 false) demoProg 0) = some (.accept, 15, 15) := by decide +kernel
-- … and with a budget of 9 it stops with the budget error after 9 charged steps (the 10th is refused BEFORE it runs)
example : verdictOf (eval (concreteExec demoSem) (demoCfg 9 false) demoProg 0) = some (.error .budget, 9, 10) := by decide +kernel
-- pooled budget of 7 (MaxCost is then irrelevant): cost_bounded / pool_accounting hypotheses
example : verdictOf (eval (concreteExec demoSem) (demoCfg 20 true) demoProg 7) = some (.error .budget, 7, 8) := by decide +kernel
-- check_eval_agree hypotheses: check succeeds and records the instruction starts; begin succeeds
example : (match check (demoCfg 20 false) demoProg 0 with | .ok cs => some cs.starts | .error _ => none) = some [12, 10, 7, 6, 5, 3, 1] := by
  decide +kernel
example : (match begin (demoCfg 20 false) demoProg with | .ok r => some r | .error _ => none) = some (8, 1) := by decide +kernel
example : (match check (demoCfg 20 false) demoCall 0 with | .ok cs => some (cs.starts, cs.targets) | .error _ => none)
    = some ([6, 4, 3, 1], [4]) := by decide +kernel
example : verdictOf (eval (concreteExec demoSem) (demoCfg 20 false) demoCall 0) = some (.accept, 4, 4) := by decide +kernel
-- a branch into the middle of `pushint 3` (pc 2) is rejected by check: the alignment error
example : (match check (demoCfg 20 false) [8, 0x81, 3, 0x42, 0xff, 0xfc] 0 with | .ok _ => none | .error e => some e) = some (.align, 3) := by
  decide +kernel

end Gen

end Props.C31
