/-
C31 — AVM evaluation is total and bounded for every program.

Part A: skeleton theorems (termination, cost, stack depth, verdict) for every table and every op-body function.
Part B: static check and evaluation agree on instruction boundaries (for every `sem`; rows must be consistent: decided for
        today's table). Part C: byte-length bound (contract on `sem` outside the re-checked window) and absence of
        internal crashes for the skeleton and the modelled op family (PARTIAL: assumed of the other op bodies).

All theorems of Part A are about the interpreter skeleton `Model.AVM.step / runLoop / eval` for EVERY opcode table
(`cfg.tbl`), EVERY field-cost table, EVERY limits record and EVERY op-body function `ex : Exec` — in particular for
`concreteExec sem` with an arbitrary `sem`. Nothing is assumed about op bodies: `step` charges the cost and checks the
budget before running the body, and re-checks stack depth afterwards.
-/
import AlgoVerif.Model.AVM
import AlgoVerif.Lemmas.AVM
import AlgoVerif.Lemmas.AVMCheck
import AlgoVerif.Lemmas.AVMAgree
import AlgoVerif.Lemmas.AVMBytes
import AlgoVerif.Lemmas.AVMSafe
import AlgoVerif.Gen.OpTable
import AlgoVerif.Gen.AVMFacts
import AlgoVerif.Props.C34
namespace Props.C31
open Model.OpTables Model.AVM Lemmas.AVM Lemmas.AVMCheck Lemmas.AVMAgree Lemmas.AVMBytes Lemmas.AVMSafe

/-! ## Part A — skeleton theorems (every table, every `ex`) -/

/-- FULL. Totality: for every program, op-body function and budget, `eval` (whose loop is given fuel budget+1) returns a
    final outcome, after at most budget+1 executed steps. Every completed step costs ≥ 1 and the budget check precedes
    execution, so the remaining budget is a strictly decreasing measure. -/
theorem eval_terminates (ex : Exec) (cfg : Cfg) (prog : List Nat) (pool : Int) :
    ∃ f, eval ex cfg prog pool = some f ∧ f.steps ≤ budget0 cfg pool + 1 := by
  unfold eval
  simp only []
  split
  · exact ⟨_, rfl, by simp⟩
  · split
    · exact ⟨_, rfl, by simp⟩
    · split
      · exact ⟨_, rfl, by simp⟩
      · rename_i v vlen hb
        obtain ⟨f, hf⟩ := runLoop_terminates (ex := ex) (cfg := cfg) (prog := prog) (v := v) (budget0 cfg pool + 1)
          (initState cfg vlen pool) 0 (by unfold budget0 initState; simp)
        refine ⟨f, by simpa [hb] using hf, ?_⟩
        obtain ⟨_, _, hsteps, _⟩ := runLoop_some _ _ _ _ hf
        omega

/-- the run of `eval` after a successful `begin`: start state and loop -/
theorem eval_run {ex : Exec} {cfg : Cfg} {prog : List Nat} {pool : Int} {f : Final} (h : eval ex cfg prog pool = some f) :
    (∃ pc, f.st = initState cfg pc pool ∧ f.steps = 0 ∧ ∃ e, f.verdict = .error e) ∨
    (∃ v vlen, begin cfg prog = .ok (v, vlen) ∧
      runLoop ex cfg prog v (budget0 cfg pool + 1) (initState cfg vlen pool) 0 = some f) := by
  unfold eval at h
  simp only [] at h
  split at h
  · injection h with h; subst h; exact Or.inl ⟨_, rfl, rfl, _, rfl⟩
  · split at h
    · injection h with h; subst h; exact Or.inl ⟨_, rfl, rfl, _, rfl⟩
    · split at h
      · injection h with h; subst h; exact Or.inl ⟨_, rfl, rfl, _, rfl⟩
      · rename_i v vlen hb
        exact Or.inr ⟨v, vlen, hb, by simpa [hb] using h⟩

/-- FULL. The cost never exceeds the budget evaluation started with — in the final state of `eval`, whatever the outcome
    (accept, reject, or an error, including an error raised by the op body after its cost was charged) — for unpooled
    budgets, pooled budgets and the clear-state isolation rule alike (`remaining` covers the three). -/
theorem cost_bounded (ex : Exec) (cfg : Cfg) (prog : List Nat) (pool : Int) (f : Final)
    (h : eval ex cfg prog pool = some f) : f.st.cost ≤ budget0 cfg pool := by
  rcases eval_run h with ⟨pc, hst, _, _⟩ | ⟨v, vlen, _, hrun⟩
  · rw [hst]; simp [initState]
  · obtain ⟨stl, hr, _, _, hfin⟩ := runLoop_some _ _ _ _ hrun
    have hi := costInv_reach (costInv_init cfg vlen pool) hr
    rcases hfin with ⟨_, _, hst⟩ | ⟨_, e, hs, _⟩
    · rw [hst]; exact costInv_bound hi
    · exact costInv_bound (costInv_charged hi (step_err_charged hs))

/-- FULL. The same at every state of the run (after every completed step). -/
theorem cost_bounded_reach (ex : Exec) (cfg : Cfg) (prog : List Nat) (v pc : Nat) (pool : Int) (st : State)
    (h : Reach ex cfg prog v (initState cfg pc pool) st) : st.cost ≤ budget0 cfg pool :=
  costInv_bound (costInv_reach (costInv_init cfg pc pool) h)

/-- FULL. A pooled budget is decremented by exactly the cost incurred. -/
theorem pool_accounting (ex : Exec) (cfg : Cfg) (prog : List Nat) (pool : Int) (f : Final)
    (h : eval ex cfg prog pool = some f) (hp : cfg.pooled = true) : f.st.pool = pool - f.st.cost := by
  rcases eval_run h with ⟨pc, hst, _, _⟩ | ⟨v, vlen, _, hrun⟩
  · rw [hst]; simp [initState]
  · obtain ⟨stl, hr, _, _, hfin⟩ := runLoop_some _ _ _ _ hrun
    have hi := costInv_reach (costInv_init cfg vlen pool) hr
    rcases hfin with ⟨_, _, hst⟩ | ⟨_, e, hs, _⟩
    · rw [hst]; exact hi.2.2 hp
    · exact (costInv_charged hi (step_err_charged hs)).2.2 hp

/-- FULL. Clear-state isolation: a ClearState program (application mode, `isolate`) spends at most MaxAppProgramCost of
    the pool, so a pool that held at least that much (EvalContract refuses to start otherwise) never goes negative. -/
theorem clear_state_isolation (ex : Exec) (cfg : Cfg) (prog : List Nat) (pool : Int) (f : Final)
    (h : eval ex cfg prog pool = some f) (hm : cfg.mode ≠ modeSig) (hi : cfg.isolate = true) (hp : cfg.pooled = true)
    (hpool : (cfg.maxCost : Int) ≤ pool) : f.st.cost ≤ cfg.maxCost ∧ 0 ≤ f.st.pool := by
  have hc := cost_bounded ex cfg prog pool f h
  have hb : budget0 cfg pool = cfg.maxCost := by
    unfold budget0 remaining; simp [hm, hi]
  rw [hb] at hc
  rw [pool_accounting ex cfg prog pool f h hp]
  exact ⟨hc, by omega⟩

/-- FULL. Stack depth: after every completed step the stack holds at most maxStackDepth values. -/
theorem stack_bounded (ex : Exec) (cfg : Cfg) (prog : List Nat) (v : Nat) (st0 st : State)
    (h0 : st0.m.stack.length ≤ cfg.lim.maxStackDepth) (h : Reach ex cfg prog v st0 st) :
    st.m.stack.length ≤ cfg.lim.maxStackDepth := by
  induction h with
  | refl => exact h0
  | step _ _ hs _ =>
    obtain ⟨_, _, _, _, _, _, _, _, _, _, _, _, _, _, hd, rfl⟩ := step_ok_inv hs
    exact hd

/-- FULL. In particular for the run `eval` performs (it starts with the empty stack). -/
theorem stack_bounded_eval (ex : Exec) (cfg : Cfg) (prog : List Nat) (v pc : Nat) (pool : Int) (st : State)
    (h : Reach ex cfg prog v (initState cfg pc pool) st) : st.m.stack.length ≤ cfg.lim.maxStackDepth :=
  stack_bounded ex cfg prog v _ st (by simp [initState, emptyMach]) h

/-- FULL. Three outcomes, nothing else: accept exactly with one non-zero uint left, reject exactly with a single 0,
    otherwise an explicit error value (`Err.crash` — the Go code would have panicked — is one of them; Part C shows it
    cannot come from the skeleton or the modelled ops). -/
theorem outcome_trichotomy (ex : Exec) (cfg : Cfg) (prog : List Nat) (pool : Int) (f : Final)
    (h : eval ex cfg prog pool = some f) :
    (f.verdict = .accept ∧ ∃ n, n ≠ 0 ∧ f.st.m.stack = [.u n] ∧ ¬ f.st.pc < prog.length) ∨
    (f.verdict = .reject ∧ f.st.m.stack = [.u 0] ∧ ¬ f.st.pc < prog.length) ∨
    (∃ e, f.verdict = .error e) := by
  rcases eval_run h with ⟨_, _, _, e, he⟩ | ⟨v, vlen, _, hrun⟩
  · exact Or.inr (Or.inr ⟨e, he⟩)
  · obtain ⟨stl, _, _, _, hfin⟩ := runLoop_some _ _ _ _ hrun
    rcases hfin with ⟨hpc, hv, hst⟩ | ⟨_, e, _, hv⟩
    · subst hst
      rw [hv]
      unfold finish
      split
      · rename_i n hstack
        by_cases hn : n ≠ 0
        · exact Or.inl ⟨by simp [hn], n, hn, hstack, hpc⟩
        · have : n = 0 := by omega
          subst this
          exact Or.inr (Or.inl ⟨by simp, hstack, hpc⟩)
      · exact Or.inr (Or.inr ⟨_, rfl⟩)
      · exact Or.inr (Or.inr ⟨_, rfl⟩)
    · exact Or.inr (Or.inr ⟨e, hv⟩)

/-! ## Part B — static check and evaluation agree on instruction boundaries -/

/-- FULL. The loop of `check` is given fuel len+1 and never exhausts it (every round must advance the pc). -/
theorem check_fuel_suffices (cfg : Cfg) (prog : List Nat) (pool : Int) (pc : Nat) :
    check cfg prog pool ≠ .error (.fuel, pc) := by
  unfold check
  split
  · intro h; injection h with h; injection h with h _; cases h
  · split
    · rename_i e pc' hb
      intro h; injection h with h; injection h with h _
      subst h
      unfold begin at hb
      repeat' split at hb
      all_goals first
        | (injection hb with hb; injection hb with hb _; cases hb; done)
        | (cases hb; done)
    · exact checkLoop_fuel _ _ _ _ (by simp only; omega) (by omega)

/-- FULL (for every table whose rows are consistent, `specWF`: the check function a row carries is the one belonging to its
    evalFunc — decided for today's table below). If `check p = ok`, then every pc `eval` reaches — for every `sem`, every
    budget, every argument list — is an instruction start recorded by `check` or the end of the program, and so is every
    return address on the call stack. Taken branch targets (2-byte and varint forms, forward and back, switch / match
    tables, callsub / retsub) are pcs the run reaches, so they are aligned. -/
theorem check_eval_agree (sem : Sem) (cfg : Cfg) (prog : List Nat) (pool : Int) (cs : CState) (v vlen : Nat)
    (hwf : ∀ op next s, getSpec cfg.tbl v op next = some s → specWF s = true)
    (hc : check cfg prog pool = .ok cs) (hb : begin cfg prog = .ok (v, vlen))
    (st : State) (hr : Reach (concreteExec sem) cfg prog v (initState cfg vlen pool) st) :
    (st.pc ∈ cs.starts ∨ st.pc = prog.length) ∧
    ∀ f ∈ st.m.callstack, f.retpc ∈ cs.starts ∨ f.retpc = prog.length := by
  obtain ⟨hf, hg⟩ := check_facts hc hb
  have h0 : J cs.starts prog.length (initState cfg vlen pool) :=
    ⟨rfl, hg, by intro f hf'; simp [initState, emptyMach] at hf'⟩
  obtain ⟨_, h2, h3⟩ := reach_J hwf hf h0 hr
  exact ⟨h2, h3⟩

/-- FULL. The statement C34 left open (`Props.C34.CheckEvalAgreeStatement`), for every list of pcs of reached states
    (taken branch targets are among them). -/
theorem check_eval_agree_statement (sem : Sem) (cfg : Cfg) (prog : List Nat) (pool : Int) (cs : CState) (v vlen : Nat)
    (hwf : ∀ op next s, getSpec cfg.tbl v op next = some s → specWF s = true)
    (hc : check cfg prog pool = .ok cs) (hb : begin cfg prog = .ok (v, vlen))
    (reached targets : List Nat)
    (hreached : ∀ pc ∈ reached, ∃ st, Reach (concreteExec sem) cfg prog v (initState cfg vlen pool) st ∧ st.pc = pc)
    (htargets : ∀ t ∈ targets, t ∈ reached) :
    Props.C34.CheckEvalAgreeStatement cs.starts reached targets prog.length := by
  have key : ∀ pc ∈ reached, pc ∈ cs.starts ∨ pc = prog.length := by
    intro pc hpc
    obtain ⟨st, hr, he⟩ := hreached pc hpc
    rw [← he]
    exact (check_eval_agree sem cfg prog pool cs v vlen hwf hc hb st hr).1
  exact ⟨key, fun t ht => key t (htargets t ht)⟩

section Gen
open Gen.OpTable
set_option maxRecDepth 100000

/-- the field-cost table of today's tree as the `fcost` component of a configuration -/
def genFcost (id f : Nat) : LinCost :=
  match Gen.AVMFacts.fieldCosts.find? (fun p => p.1 == id) with
  | some (_, l) => l[f]?.getD (0, 0, 0, 0)
  | none => (0, 0, 0, 0)

def genLimits : Limits :=
  { maxStackDepth := Gen.AVMFacts.maxStackDepth, maxStringSize := Gen.AVMFacts.maxStringSize,
    backBranchV := Gen.AVMFacts.backBranchEnabledVersion, sharedResV := Gen.AVMFacts.sharedResourcesVersion,
    protoByte := Gen.AVMFacts.protoByte, evalMaxArgs := Gen.AVMFacts.evalMaxArgs,
    maxArgSize := Gen.AVMFacts.maxLogicSigArgSize, blankLen := Gen.AVMFacts.blankStackLen,
    scratchLen := Gen.AVMFacts.scratchLen }

def genCfg (mode lsv minv maxCost : Nat) (args : Option (List (List Nat))) (pooled isolate : Bool) : Cfg :=
  { lim := genLimits, tbl := buildTables opSpecs, fcost := genFcost, lv := logicVersion, lsv := lsv, minv := minv, mode := mode,
    hasAccess := false, args := args, maxCost := maxCost, pooled := pooled, isolate := isolate }

/-- all row conditions of Parts B and C at once, with the evalFunc classified ONCE per row (the classification compares
    strings, which is what costs time in the kernel) -/
def rowAllK (cfg : Cfg) (s : Spec) : Option OpK → Bool
  | none => specWFk s none && rowBytesOKk s none && rowSafeK cfg s none && (s.opcode != Gen.AVMFacts.protoByte)
  | some k => specWFk s (some k) && rowBytesOKk s (some k) && rowSafeK cfg s (some k) &&
      (s.opcode != Gen.AVMFacts.protoByte || k == OpK.proto)

theorem gen_rows_all : opSpecs.all (fun s => rowAllK (genCfg 0 0 0 0 none false false) s (opKind s.fn)) = true := by
  decide +kernel

/-- FULL (finite, today's table, regenerated every run). Every OpSpecs row is consistent (`specWF`), builds fresh byte
    values only inside the window step re-checks (`rowBytesOK`), gives its modelled body the argument types and immediates
    it reads (`rowSafe`), and the proto opcode byte belongs to `proto`. -/
theorem gen_row_all (r : Spec) (hr : r ∈ opSpecs) (mode lsv minv maxCost : Nat) (args : Option (List (List Nat)))
    (pooled isolate : Bool) :
    specWF r = true ∧ rowBytesOK r = true ∧ rowSafe (genCfg mode lsv minv maxCost args pooled isolate) r = true ∧
    (r.opcode = Gen.AVMFacts.protoByte → opKind r.fn = some .proto) := by
  have h := List.all_eq_true.mp gen_rows_all r hr
  unfold specWF rowBytesOK rowSafe
  cases hk : opKind r.fn with
  | none =>
    rw [hk] at h
    simp only [rowAllK, Bool.and_eq_true, bne_iff_ne, ne_eq] at h
    exact ⟨h.1.1.1, h.1.1.2, h.1.2, fun hp => absurd hp h.2⟩
  | some k =>
    rw [hk] at h
    simp only [rowAllK, Bool.and_eq_true, Bool.or_eq_true, bne_iff_ne, ne_eq, beq_iff_eq] at h
    refine ⟨h.1.1.1, h.1.1.2, h.1.2, fun hp => ?_⟩
    rcases h.2 with h2 | h2
    · exact absurd hp h2
    · rw [h2]

theorem specWF_alias0 (r : Spec) : specWF (Props.C34.alias0 r) = specWF r := rfl

/-- FULL (finite, today's table, regenerated every run). Every spec any version's table can return is consistent. -/
theorem gen_specWF (v op : Nat) (next : Option Nat) (s : Spec)
    (h : getSpec (buildTables opSpecs) v op next = some s) : specWF s = true := by
  obtain ⟨hrow, _⟩ := Props.C34.table_version_sound opSpecs v op next s h
  rcases hrow with hrow | ⟨_, r, hr, _, he⟩
  · exact (gen_row_all s hrow 0 0 0 0 none false false).1
  · subst he
    rw [specWF_alias0]
    exact (gen_row_all r hr 0 0 0 0 none false false).1

/-! ### non-vacuity: a version-8 program with a back-branching loop, run against today's tables and limits -/

def demoLimits : Limits := genLimits

def demoCfg (maxCost : Nat) (pooled : Bool) : Cfg :=
  { lim := demoLimits, tbl := buildTables opSpecs, fcost := fun _ _ => (0, 0, 0, 0), lv := logicVersion, lsv := logicVersion,
    minv := 0, mode := modeSig, hasAccess := false, args := none, maxCost := maxCost, pooled := pooled, isolate := false }

def demoSem : Sem := fun _ _ _ => .error .unmodelled

/-- `pushint 3; loop: pushint 1; -; dup; bnz loop; pushint 1; return` (version 8, two-byte back branch) -/
def demoProg : List Nat := [8, 0x81, 3, 0x81, 1, 0x09, 0x49, 0x40, 0xff, 0xf9, 0x81, 1, 0x43]

/-- `callsub f; return; f: pushint 1; retsub`  (version 13: varint callsub, forward offset 1 from the end) -/
def demoCall : List Nat := [13, 0x88, 2, 0x43, 0x81, 1, 0x89]

def verdictOf (r : Option Final) : Option (Model.AVM.Verdict × Nat × Nat) := r.map (fun f => (f.verdict, f.st.cost, f.steps))

-- eval_terminates / cost_bounded / outcome_trichotomy: the run accepts after 15 steps of cost 1, inside a budget of 20
example : verdictOf (eval (concreteExec demoSem) (demoCfg 20 false) demoProg 0) = some (.accept, 15, 15) := by decide +kernel
-- … and with a budget of 9 it stops with the budget error after 9 charged steps (the 10th is refused BEFORE it runs)
example : verdictOf (eval (concreteExec demoSem) (demoCfg 9 false) demoProg 0) = some (.error .budget, 9, 10) := by decide +kernel
-- pooled budget of 7 (MaxCost is then irrelevant): cost_bounded / pool_accounting hypotheses
example : verdictOf (eval (concreteExec demoSem) (demoCfg 20 true) demoProg 7) = some (.error .budget, 7, 8) := by decide +kernel
-- clear_state_isolation hypotheses: application mode, isolated ClearState budget of 9 out of a pool of 12: stops at cost 9
example : (eval (concreteExec demoSem) { demoCfg 9 true with mode := modeApp, isolate := true } demoProg 12).map
    (fun f => (f.verdict, f.st.cost, f.st.pool)) = some (.error .budget, 9, 3) := by decide +kernel
-- check_eval_agree hypotheses: check succeeds and records the instruction starts; begin succeeds
example : (match check (demoCfg 20 false) demoProg 0 with | .ok cs => some cs.starts | .error _ => none) = some [12, 10, 7, 6, 5, 3, 1] := by
  decide +kernel
example : (match begin (demoCfg 20 false) demoProg with | .ok r => some r | .error _ => none) = some (8, 1) := by decide +kernel
example : (match check (demoCfg 20 false) demoCall 0 with | .ok cs => some (cs.starts, cs.targets) | .error _ => none)
    = some ([6, 4, 3, 1], [4]) := by decide +kernel
example : verdictOf (eval (concreteExec demoSem) (demoCfg 20 false) demoCall 0) = some (.accept, 4, 4) := by decide +kernel
-- a branch into the middle of `pushint 3` (pc 2) is rejected by check: the alignment error
example : (match check (demoCfg 20 false) [8, 0x81, 3, 0x42, 0xff, 0xfc] 0 with | .ok _ => none | .error e => some e) = some (.align, 3) := by
  decide +kernel

end Gen

/-! ## Part C — byte-length bound, and no internal crash for the modelled ops -/

/-- FULL for the skeleton and the modelled op family; the contract `SemBounded` is what is ASSUMED of every other op body
    (outside the values `step` re-checks itself, it leaves only bounded values). After every completed step every byte
    value on the stack and in scratch space is at most maxStringSize long. `hlsv`: from protocol version 13 on the
    constants of the trusted `pushbytess` are size-checked by the code (before, they deliberately are not). -/
theorem bytes_bounded (sem : Sem) (cfg : Cfg) (prog : List Nat) (v pc : Nat) (pool : Int) (st : State)
    (hrows : ∀ op next s, getSpec cfg.tbl v op next = some s → rowBytesOK s = true)
    (hsem : SemBounded cfg.lim sem) (hlsv : cfg.lsv ≥ 13)
    (hr : Reach (concreteExec sem) cfg prog v (initState cfg pc pool) st) :
    (∀ x ∈ st.m.stack, ValOK cfg.lim x) ∧ (∀ x ∈ st.m.scratch, ValOK cfg.lim x) :=
  bounded_reach hrows hsem hlsv hr
    ⟨by intro x hx; simp [initState, emptyMach] at hx,
     by intro x hx; simp only [initState, emptyMach, List.mem_replicate] at hx; rw [hx.2]; trivial⟩

/-- the hypotheses under which the model's guards are unreachable -/
structure SafeEnv (sem : Sem) (cfg : Cfg) (prog : List Nat) (v : Nat) : Prop where
  rows : ∀ op next s, getSpec cfg.tbl v op next = some s → rowSafe cfg s = true
  proto : ProtoWF cfg v
  sem : ∀ s stk imm, opKind s.fn = none → sem s stk imm ≠ .error .crash
  bytes : ∀ b ∈ prog, b < 256
  scratch : 256 ≤ cfg.lim.scratchLen

/-- PARTIAL by design: FULL for the skeleton (`step`, cost computation, post-checks) and for every op of the modelled
    family (stack manipulation, constants and pushes, args, both branch encodings, switch / match, callsub / retsub /
    proto / frame_dig / frame_bury, scratch, concat / substring / extract / replace / getbyte / setbyte / getbit /
    setbit / bzero / len / itob / btoi, uint64 arithmetic and comparisons): no step of any run ever takes a guard of
    the model (`Err.crash`: an out-of-range slice / array access or an ill-typed cell in the Go code). For every other
    op body it is the HYPOTHESIS `SafeEnv.sem` — searched by the harness, not proved. -/
theorem sem_no_crash (sem : Sem) (cfg : Cfg) (prog : List Nat) (v pc : Nat) (pool : Int) (st : State)
    (henv : SafeEnv sem cfg prog v)
    (hr : Reach (concreteExec sem) cfg prog v (initState cfg pc pool) st) (hpc : st.pc < prog.length) :
    ∀ st', step (concreteExec sem) cfg prog v st ≠ .error (.crash, st') :=
  step_no_crash henv.rows henv.sem henv.bytes
    (stOK_reach henv.proto (stOK_init cfg prog pc pool henv.scratch) hr) hpc

theorem begin_err_ne_crash {cfg : Cfg} {prog : List Nat} {e : Err} {pc : Nat} (h : begin cfg prog = .error (e, pc)) :
    e ≠ .crash := by
  unfold begin at h
  repeat' split at h
  all_goals first
    | (injection h with h; injection h with h _; subst h; simp; done)
    | (cases h; done)

/-- FULL (same hypotheses): the outcome of `eval` is never the crash error. -/
theorem eval_no_crash (sem : Sem) (cfg : Cfg) (prog : List Nat) (pool : Int) (f : Final)
    (henv : ∀ v, SafeEnv sem cfg prog v) (h : eval (concreteExec sem) cfg prog pool = some f) :
    f.verdict ≠ .error .crash := by
  unfold eval at h
  simp only [] at h
  by_cases h0 : cfg.lsv = 0
  · rw [if_pos h0] at h; injection h with h; subst h; simp
  · rw [if_neg h0] at h
    cases hargs : cfg.args with
    | some as =>
      simp only [hargs] at h
      by_cases h1 : as.length > cfg.lim.evalMaxArgs
      · simp only [if_pos h1] at h; injection h with h; subst h; simp
      · simp only [if_neg h1] at h
        by_cases h2 : (as.any fun a => decide (a.length > cfg.lim.maxArgSize)) = true
        · simp only [if_pos h2] at h; injection h with h; subst h; simp
        · simp only [if_neg h2] at h
          cases hb : begin cfg prog with
          | error p =>
            obtain ⟨e, pc⟩ := p
            simp only [hb] at h; injection h with h; subst h
            intro hc; injection hc with hc; exact begin_err_ne_crash hb hc
          | ok p =>
            obtain ⟨v, vlen⟩ := p
            simp only [hb] at h
            obtain ⟨stl, hreach, _, _, hfin⟩ := runLoop_some _ _ _ _ h
            rcases hfin with ⟨_, hv, _⟩ | ⟨hpc, e, hs, hv⟩
            · rw [hv]; unfold finish; split <;> (try split) <;> simp
            · rw [hv]
              intro hc
              injection hc with hc; subst hc
              exact sem_no_crash sem cfg prog v vlen pool stl (henv v) hreach hpc _ hs
    | none =>
      simp only [hargs] at h
      cases hb : begin cfg prog with
      | error p =>
        obtain ⟨e, pc⟩ := p
        simp only [hb] at h; injection h with h; subst h
        intro hc; injection hc with hc; exact begin_err_ne_crash hb hc
      | ok p =>
        obtain ⟨v, vlen⟩ := p
        simp only [hb] at h
        obtain ⟨stl, hreach, _, _, hfin⟩ := runLoop_some _ _ _ _ h
        rcases hfin with ⟨_, hv, _⟩ | ⟨hpc, e, hs, hv⟩
        · rw [hv]; unfold finish; split <;> (try split) <;> simp
        · rw [hv]
          intro hc
          injection hc with hc; subst hc
          exact sem_no_crash sem cfg prog v vlen pool stl (henv v) hreach hpc _ hs

section Gen2
open Gen.OpTable
set_option maxRecDepth 100000

theorem gen_scratch : 256 ≤ genLimits.scratchLen := by decide

/-- FULL (finite, today's table). Every row any version's table can return satisfies the three row conditions. -/
theorem gen_row_conditions (v op : Nat) (next : Option Nat) (s : Spec)
    (h : getSpec (buildTables opSpecs) v op next = some s) (mode lsv minv maxCost : Nat) (args : Option (List (List Nat)))
    (pooled isolate : Bool) :
    rowBytesOK s = true ∧ rowSafe (genCfg mode lsv minv maxCost args pooled isolate) s = true ∧
    (op = Gen.AVMFacts.protoByte → opKind s.fn = some .proto) := by
  obtain ⟨hrow, _, hop, _⟩ := Props.C34.table_version_sound opSpecs v op next s h
  have key : ∀ r ∈ opSpecs, rowBytesOK r = true ∧ rowSafe (genCfg mode lsv minv maxCost args pooled isolate) r = true ∧
      (r.opcode = Gen.AVMFacts.protoByte → opKind r.fn = some .proto) :=
    fun r hr => (gen_row_all r hr mode lsv minv maxCost args pooled isolate).2
  rcases hrow with hrow | ⟨_, r, hr, _, he⟩
  · obtain ⟨a, b, c⟩ := key s hrow
    exact ⟨a, b, fun h => c (by rw [hop]; exact h)⟩
  · subst he
    obtain ⟨a, b, c⟩ := key r hr
    exact ⟨a, b, fun h => c (by rw [← h]; exact hop)⟩

/-- today's tables, limits and field costs satisfy every table hypothesis of `sem_no_crash` / `bytes_bounded`; what
    remains is the assumption about the unmodelled op bodies and that program bytes are bytes -/
theorem gen_safe_env (sem : Sem) (prog : List Nat) (v mode lsv minv maxCost : Nat) (args : Option (List (List Nat)))
    (pooled isolate : Bool) (hsem : ∀ s stk imm, opKind s.fn = none → sem s stk imm ≠ .error .crash)
    (hbytes : ∀ b ∈ prog, b < 256) : SafeEnv sem (genCfg mode lsv minv maxCost args pooled isolate) prog v :=
  ⟨fun op next s h => (gen_row_conditions v op next s h mode lsv minv maxCost args pooled isolate).2.1,
   fun next s h => (gen_row_conditions v _ next s h mode lsv minv maxCost args pooled isolate).2.2 rfl,
   hsem, hbytes, gen_scratch⟩

-- non-vacuity: the driver's `sem` (every unmodelled op is an error of its own) meets the contracts
example : ∀ s stk imm, opKind s.fn = none → demoSem s stk imm ≠ .error .crash := by
  intro s stk imm _ h; simp [demoSem] at h
example : SemBounded genLimits demoSem := by intro s stk imm stk' _ h; simp [demoSem] at h
example : ∀ b ∈ demoProg, b < 256 := by decide

end Gen2

end Props.C31
