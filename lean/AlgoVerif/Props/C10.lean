import AlgoVerif.Lemmas.AcctUpdatesPagesRes
import AlgoVerif.Props.C08
/-!
# C10 — paginated listings return each resource exactly once

Oracle: `Spec.LedgerHistory.liveKv / liveAssets / liveApps` — the resources present at the queried round, from the HISTORY.
Theorems proved here (all inputs, every limit / byte cap / prefix / cursor):

* `listing_strictly_increasing`  the live box list has strictly increasing keys: no box twice;
* `listing_after_cursor`         the listing from the cursor "key of the n-th element" is exactly the rest of the listing
                                 (exclusive cursor: nothing skipped, nothing repeated);
* `pages_cover`                  ANY pager whose pages are non-empty prefixes of what is left and whose moreData flag is set exactly
                                 when something is left (`KvPageContract`), iterated with next-token = last key returned,
                                 enumerates the live list exactly once, in order, and stops exactly at the end;
* `res_listing_strictly_increasing`, `res_listing_after_cursor`, `res_pages_cover`  the same for the asset and application
                                 listings of an account (`id >` cursor, limit-only pages: a page shorter than its limit ends
                                 the listing), for every limit ≥ 1;
* `page_rule_*`                  the limit / byte-cap rule (`kvTrim`, shared by the model): at least one item, at most `limit`;
* `db_scan_is_prefix`            the DB cursor scan (`processKvRows`: exclusive cursor, exclusion set, byte budget with "at least
                                 one", stop at limit, peek) returns a non-empty prefix of the qualifying rows and `more` exactly
                                 when a qualifying row is left;
* `page_limit0_unlimited`        (F3) a page with limit 0 is not cut by the count rule.

Partial (full statements kept as `def …Statement : Prop`): that the code-shaped page functions of `Model.AcctUpdates`
(`pageKv`, `pageAssets`, `pageApps`: delta walk, over-request, dbHasMore/dbMaxID cut, delta-only merge, sort, truncate) satisfy
the contract on every reachable state is NOT proved here; it is established on every run by the correspondence
real code = model (exact) and real code ⊑ oracle (prefix / cover check) over all memory/disk splits of the generated histories.
-/
namespace AlgoVerif.Props.C10
open AlgoVerif.Spec.LedgerHistory AlgoVerif.Model.AcctUpdates AlgoVerif.Lemmas.Pages

/-- no box twice: the live list is strictly increasing in the key -/
theorem listing_strictly_increasing (h : History) (rnd : Nat) (pfx cursor : Key) :
    (liveKv h rnd pfx cursor).Pairwise (fun x y => keyLt x.1 y.1 = true) :=
  liveKv_sorted h rnd pfx cursor

/-- every listed box is present at the queried round with its value at that round, has the prefix and lies after the cursor —
    and every such box is listed -/
theorem listing_complete (h : History) (rnd : Nat) (pfx cursor : Key) (k : Key) (v : Bytes) :
    (k, v) ∈ liveKv h rnd pfx cursor ↔ k ∈ h.kvKeys ∧ hasPrefix pfx k = true ∧ keyLt cursor k = true ∧ kvAt h rnd k = some v :=
  mem_liveKv h rnd pfx cursor k v

/-- exclusive cursor: restarting after the n-th element yields exactly the rest -/
theorem listing_after_cursor (h : History) (rnd : Nat) (pfx cursor : Key) (n : Nat) (x : Key × Bytes)
    (hx : (liveKv h rnd pfx cursor)[n]? = some x) :
    liveKv h rnd pfx x.1 = (liveKv h rnd pfx cursor).drop (n + 1) :=
  liveKv_after h rnd pfx cursor n x hx

/-- what one page call must satisfy (`page_is_prefix` + `more_iff` of the design): the page is a prefix of the live list after
    the cursor, non-empty when something is left, and moreData is set exactly when something is left after the page -/
def KvPageContract (h : History) (rnd : Nat) (pfx : Key) (pager : Key → List (Key × Bytes) × Bool) : Prop :=
  ∀ c, ∃ n, (pager c).1 = (liveKv h rnd pfx c).take n ∧ (liveKv h rnd pfx c ≠ [] → 0 < n) ∧
    ((pager c).2 = true ↔ n < (liveKv h rnd pfx c).length)

/-- **C10 (boxes).** Listing page by page with next-tokens returns every box present at the queried round exactly once, in
    increasing order, with its value at that round, and ends exactly when the last one was returned — for every pager meeting
    the page contract, whatever its page sizes. -/
theorem pages_cover (h : History) (rnd : Nat) (pfx cursor : Key) (pager : Key → List (Key × Bytes) × Bool)
    (hc : KvPageContract h rnd pfx pager) (fuel : Nat) (hf : (liveKv h rnd pfx cursor).length < fuel) :
    (iterPages pager (fun x => x.1) fuel cursor).flatten = liveKv h rnd pfx cursor ∧
    ∀ p ∈ iterPages pager (fun x => x.1) fuel cursor, p ≠ [] ∨ liveKv h rnd pfx cursor = [] :=
  iterPages_cover pager (fun x => x.1) (fun c => liveKv h rnd pfx c) hc
    (fun c n x hx => liveKv_after h rnd pfx c n x hx) fuel cursor hf

/-- the oracle's own page function (the longest page the limit and the byte cap allow) meets the contract -/
theorem spec_page_contract (h : History) (rnd : Nat) (pfx : Key) (limit maxb : Nat) :
    KvPageContract h rnd pfx (fun c =>
      let live := liveKv h rnd pfx c
      let n := kvTrim (kvItemSize true) maxb limit live 0 0
      (live.take n, decide (n < live.length))) := by
  intro c
  refine ⟨kvTrim (kvItemSize true) maxb limit (liveKv h rnd pfx c) 0 0, rfl, ?_, by simp⟩
  intro hne
  cases hl : liveKv h rnd pfx c with
  | nil => exact absurd hl hne
  | cons x xs => exact kvTrim_pos _ _ _ x xs

/-! ### assets and applications of an account -/

/-- the asset listing of the oracle: the holdings of `a` at `rnd` with id > gt, ids strictly increasing -/
theorem res_listing_strictly_increasing (h : History) (rnd : Nat) (a : Addr) (gt : Nat) (wp : Bool) :
    ((liveAssets h rnd a gt).map (·.cidx)).Pairwise (fun x y => x < y) ∧
    ((liveApps h rnd a gt wp).map (·.cidx)).Pairwise (fun x y => x < y) := by
  rw [liveAssets_eq, liveApps_eq]
  simp only [List.map_map]
  have e1 : ((fun (x : ResItem) => x.cidx) ∘ resItem h rnd a .asset true) = id := by funext c; rfl
  have e2 : ((fun (x : ResItem) => x.cidx) ∘ resItem h rnd a .app wp) = id := by funext c; rfl
  rw [e1, e2, List.map_id, List.map_id]
  exact ⟨sortedIds_sorted _ _ _, sortedIds_sorted _ _ _⟩

/-- an id is listed exactly when the account holds the asset at that round (and the id is after the cursor) -/
theorem res_listing_complete (h : History) (rnd : Nat) (a : Addr) (gt c : Nat) :
    c ∈ (liveAssets h rnd a gt).map (·.cidx) ↔ c ∈ h.cidxs ∧ gt < c ∧ (resAt h rnd a c .asset).hold.isSome = true := by
  rw [liveAssets_eq]
  simp only [List.map_map]
  have e1 : ((fun (x : ResItem) => x.cidx) ∘ resItem h rnd a .asset true) = id := by funext c; rfl
  rw [e1, List.map_id, mem_sortedIds]

/-- exclusive `id >` cursor: restarting after the n-th listed asset yields exactly the rest -/
theorem res_listing_after_cursor (h : History) (rnd : Nat) (a : Addr) (gt n : Nat) (x : ResItem)
    (hx : (liveAssets h rnd a gt)[n]? = some x) :
    liveAssets h rnd a x.cidx = (liveAssets h rnd a gt).drop (n + 1) := by
  rw [liveAssets_eq] at hx ⊢
  rw [List.getElem?_map] at hx
  cases hc : (sortedIds h.cidxs (fun c => (resAt h rnd a c .asset).hold.isSome) gt)[n]? with
  | none => rw [hc] at hx; simp at hx
  | some c =>
    rw [hc] at hx; simp only [Option.map_some, Option.some.injEq] at hx; subst hx
    show List.map _ (sortedIds _ _ c) = _
    rw [sortedIds_after _ _ gt n c hc, liveAssets_eq, List.map_drop]

/-- **C10 (assets / applications).** Paging with `id > last id returned` and any limit ≥ 1, until a page is shorter than the
    limit, returns the account's assets (resp. applications) present at the round exactly once, in increasing order -/
theorem res_pages_cover (h : History) (rnd : Nat) (a : Addr) (wp : Bool) (limit : Nat) (hl : 0 < limit) (gt fuel : Nat)
    (hfA : (liveAssets h rnd a gt).length < fuel) (hfL : (liveApps h rnd a gt wp).length < fuel) :
    (iterLimit (fun g => (liveAssets h rnd a g).take limit) (·.cidx) limit fuel gt).flatten = liveAssets h rnd a gt ∧
    (iterLimit (fun g => (liveApps h rnd a g wp).take limit) (·.cidx) limit fuel gt).flatten = liveApps h rnd a gt wp := by
  constructor
  · have := iterLimit_cover (fun g => sortedIds h.cidxs (fun c => (resAt h rnd a c .asset).hold.isSome) g)
      (resItem h rnd a .asset true) (·.cidx) (fun c => rfl) (fun g n x hx => sortedIds_after _ _ g n x hx) limit hl fuel gt
      (by rw [liveAssets_eq, List.length_map] at hfA; exact hfA)
    simp only [List.map_take] at this
    exact this
  · have := iterLimit_cover (fun g => sortedIds h.cidxs (fun c => (resAt h rnd a c .app).hold.isSome || creatorAt h rnd c .app == some a) g)
      (resItem h rnd a .app wp) (·.cidx) (fun c => rfl) (fun g n x hx => sortedIds_after _ _ g n x hx) limit hl fuel gt
      (by rw [liveApps_eq, List.length_map] at hfL; exact hfL)
    simp only [List.map_take] at this
    exact this

/-- the page rule: at least one item of a non-empty list -/
theorem page_rule_at_least_one {α : Type} (sz : α → Nat) (maxb limit : Nat) (x : α) (xs : List α) :
    0 < kvTrim sz maxb limit (x :: xs) 0 0 := kvTrim_pos sz maxb limit x xs

/-- the page rule: at most `limit` items (limit ≥ 1), never more than there are -/
theorem page_rule_bounds {α : Type} (sz : α → Nat) (maxb limit : Nat) (l : List α) :
    kvTrim sz maxb limit l 0 0 ≤ l.length ∧ (0 < limit → kvTrim sz maxb limit l 0 0 ≤ limit) := by
  refine ⟨by have := (kvTrim_bounds sz maxb limit l 0 0).2; omega, fun hl => kvTrim_le_limit sz maxb limit hl l 0 0 hl⟩

/-- (F3) with limit 0 the count rule never cuts: under an unlimited byte budget the whole list is one page -/
theorem page_limit0_unlimited {α : Type} (sz : α → Nat) (maxb : Nat) (l : List α) (i acc : Nat)
    (hb : acc + (l.map sz).sum ≤ maxb) : kvTrim sz maxb 0 l i acc = i + l.length := by
  induction l generalizing i acc with
  | nil => simp [kvTrim]
  | cons x xs ih =>
    simp only [List.map_cons, List.sum_cons] at hb
    unfold kvTrim
    have h1 : ¬ (decide (acc + sz x > maxb) && decide (i > 0)) = true := by
      simp only [Bool.and_eq_true, decide_eq_true_eq, not_and]; intro h; omega
    rw [if_neg h1]
    have h2 : ¬ (decide (0 > 0) && decide (i + 1 ≥ 0)) = true := by simp
    rw [if_neg h2, ih (i + 1) (acc + sz x) (by omega)]
    simp only [List.length_cons]; omega

/-- the DB cursor scan: a non-empty prefix of the qualifying rows (strictly after the cursor, not handled by the in-memory
    deltas), `more` exactly when a qualifying row is left -/
theorem db_scan_is_prefix (rows : List (Key × Bytes)) (cursor : Key) (limit maxBytes : Nat) (vals : Bool) (exclude : List Key) :
    ∃ j, (processKvRows rows cursor limit maxBytes vals exclude).items =
        ((rows.filter (fun r => kvQualifies cursor exclude r.1)).take j).map (fun r => (r.1, if vals then some r.2 else none)) ∧
      (processKvRows rows cursor limit maxBytes vals exclude).more =
        decide (j < (rows.filter (fun r => kvQualifies cursor exclude r.1)).length) ∧
      (rows.filter (fun r => kvQualifies cursor exclude r.1) ≠ [] → 0 < j) :=
  processKvRows_spec rows cursor limit maxBytes vals exclude

/-! ### full statements of the model-level page theorems (established by the tie, not proved here) -/

/-- `page_is_prefix` + `more_iff` for the code-shaped box page of the model, on every reachable state -/
def PageKvPrefixStatement : Prop :=
  ∀ (ct : Cidx → CType) (σ : State), C08.Reach ct σ → ∀ (rnd : Nat) (pfx cursor : Key) (limit maxb : Nat) (vals : Bool),
    σ.dbRound ≤ rnd → rnd ≤ σ.latest → (prefixIncr pfx).isSome →
    ∃ n, pageKv σ rnd pfx cursor limit maxb vals =
        .ok ⟨((liveKv σ.hist rnd pfx cursor).take n).map (kvView vals), rnd, decide (n < (liveKv σ.hist rnd pfx cursor).length)⟩ ∧
      (liveKv σ.hist rnd pfx cursor ≠ [] → 0 < n) ∧ (0 < limit → n ≤ limit)

/-- `page_is_prefix` for the code-shaped asset / application pages of the model, on every reachable state -/
def PageResPrefixStatement : Prop :=
  ∀ (ct : Cidx → CType) (σ : State), C08.Reach ct σ → ∀ (a : Addr) (gt limit : Nat) (wp : Bool), 0 < limit →
    pageAssets σ a gt limit = .ok ⟨(liveAssets σ.hist σ.latest a gt).take limit, σ.latest⟩ ∧
    pageApps σ a gt limit wp = .ok ⟨(liveApps σ.hist σ.latest a gt wp).take limit, σ.latest⟩

/-- what is proved of `page_is_prefix` for the model's box page: its DB half returns a prefix of the qualifying rows with a
    correct `more` flag, and its trim half returns between one and `limit` items of the merged list -/
theorem page_is_prefix_partial (rows : List (Key × Bytes)) (cursor : Key) (limit maxBytes : Nat) (vals : Bool) (exclude : List Key)
    (merged : List (Key × Option Bytes)) (sz : Key × Option Bytes → Nat) :
    (∃ j, (processKvRows rows cursor limit maxBytes vals exclude).items =
        ((rows.filter (fun r => kvQualifies cursor exclude r.1)).take j).map (fun r => (r.1, if vals then some r.2 else none)) ∧
      (processKvRows rows cursor limit maxBytes vals exclude).more =
        decide (j < (rows.filter (fun r => kvQualifies cursor exclude r.1)).length)) ∧
    kvTrim sz maxBytes limit merged 0 0 ≤ merged.length ∧ (merged ≠ [] → 0 < kvTrim sz maxBytes limit merged 0 0) ∧
    (0 < limit → kvTrim sz maxBytes limit merged 0 0 ≤ limit) := by
  obtain ⟨j, h1, h2, _⟩ := processKvRows_spec rows cursor limit maxBytes vals exclude
  refine ⟨⟨j, h1, h2⟩, (page_rule_bounds sz maxBytes limit merged).1, ?_, (page_rule_bounds sz maxBytes limit merged).2⟩
  intro hne
  cases merged with
  | nil => exact absurd rfl hne
  | cons x xs => exact kvTrim_pos _ _ _ x xs

/-! ### non-vacuity: the contract is met by the oracle's own pager on EVERY history, so `pages_cover` applies; and a concrete
listing -/

example (h : History) (rnd : Nat) (pfx cursor : Key) (limit maxb : Nat) :
    (iterPages (fun c =>
        let live := liveKv h rnd pfx c
        let n := kvTrim (kvItemSize true) maxb limit live 0 0
        (live.take n, decide (n < live.length))) (fun x => x.1) ((liveKv h rnd pfx cursor).length + 1) cursor).flatten =
      liveKv h rnd pfx cursor :=
  (pages_cover h rnd pfx cursor _ (spec_page_contract h rnd pfx limit maxb) _ (Nat.lt_succ_self _)).1

def exHist : History :=
  { gen := [], blocks := [{ kvs := [⟨[65, 1], some [9], none⟩, ⟨[65, 2], some [], none⟩, ⟨[66], some [7, 7], none⟩] },
                          { kvs := [⟨[65, 1], none, some [9]⟩] }] }

/-- round 1 lists both boxes of prefix 65 (the empty-valued one included); at round 2 the deleted one is gone -/
example : ([65, 1], [9]) ∈ liveKv exHist 1 [65] [] ∧ ([65, 2], []) ∈ liveKv exHist 1 [65] [] ∧
    ¬ ([66], [7, 7]) ∈ liveKv exHist 1 [65] [] ∧ (∀ v, ¬ ([65, 1], v) ∈ liveKv exHist 2 [65] []) ∧
    ¬ ([65, 1], [9]) ∈ liveKv exHist 1 [65] [65, 1] := by
  refine ⟨(listing_complete _ _ _ _ _ _).mpr (by decide), (listing_complete _ _ _ _ _ _).mpr (by decide), ?_, ?_, ?_⟩
  · rw [listing_complete]; decide
  · intro v; rw [listing_complete]; intro h
    have hk : kvAt exHist 2 [65, 1] = none := by decide
    rw [hk] at h; exact absurd h.2.2.2 (by simp)
  · rw [listing_complete]; decide

end AlgoVerif.Props.C10
