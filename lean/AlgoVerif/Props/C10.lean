import AlgoVerif.Model.AcctUpdates
/-! C10 — paginated listings return each resource exactly once (theorems; work in progress). -/
namespace AlgoVerif.Props.C10
open AlgoVerif.Spec.LedgerHistory AlgoVerif.Model.AcctUpdates

/-- the page rule never returns more than `limit` items (limit ≥ 1) and returns at least one item of a non-empty list -/
theorem kvTrim_bounds {α : Type} (sz : α → Nat) (maxb limit : Nat) (l : List α) (i acc : Nat) :
    i ≤ kvTrim sz maxb limit l i acc ∧ kvTrim sz maxb limit l i acc ≤ i + l.length := by
  induction l generalizing i acc with
  | nil => simp [kvTrim]
  | cons x xs ih =>
    unfold kvTrim
    split
    · simp
    · split
      · simp
      · have := ih (i + 1) (acc + sz x)
        simp only [List.length_cons]
        omega

end AlgoVerif.Props.C10
